(* C10 (ring part) -- ring.Ring: Of/New/Join/Pop rearrange elements into exactly the documented
   cycles (nothing lost or duplicated, Next and Prev mutually inverse); At/Peek/Len/Each report
   positions within the current cycle.
   Only statements, each closed by [exact] of a lemma proved in Ring/RingProofs*.v.

   Model: Ring/RingModel.v ([run]: a history of operations on a heap of (Value, prev, next) cells,
   mirroring ring.go; branch conditions from Gen/RingIdx.v).
   Reference: Ring/RingSpec.v ([a_run]: a set of disjoint cyclic sequences of element names plus
   the value of every name; each operation is the picture of the Go doc comment on lists). *)
From Coq Require Import ZArith List Permutation.
Import ListNotations.
From Mds Require Import Ring.RingModel Ring.RingSpec Ring.RingProofsBase Ring.RingProofsRep Ring.RingProofs.

(* Refinement over histories: for every element type, every zero value and EVERY list of
   operations (New, Of, Join, Pop, Next, Prev, At, Peek, Len, Each with a callback stopping at any
   call, IsEmpty; handles nil or any element handed out so far), starting from the empty heap, the
   model's outputs -- returned handles, values, lengths, enumerations, nil-dereference panics --
   are exactly those of the abstract cyclic sequences. *)
Theorem C10_ring_refinement : forall (T : Type) (zero : T) (ops : list (op T)),
  run T zero empty_heap ops = a_run T zero (a_empty T zero) ops.
Proof. exact ring_refinement. Qed.
Print Assumptions C10_ring_refinement.

Example C10_ring_refinement_ex :
  run nat 0 empty_heap
    [OOf [11;12;13;14]; OOf [21;22]; OJoin (Some 1) (Some 4); OEach (Some 0) 0; OLen (Some 5);
     OJoin (Some 0) (Some 4); OEach (Some 0) 0; OEach (Some 3) 0; OPop (Some 4); OEach (Some 0) 0;
     OAt (Some 0) (-1); OPeek (Some 0) 2; OPrev (Some 0); ONext None]
  = [RPtr (Some 0); RPtr (Some 4); RPtr (Some 0); REach [11;12;13;14;21;22]; RLen 6;
     RPtr (Some 3); REach [11;21;22]; REach [12;13;14]; RPtr (Some 4); REach [11;22];
     RPtr (Some 5); RPeek 0 false; RPtr (Some 5); RPanic].
Proof. vm_compute. reflexivity. Qed.

(* No operation of any history exhausts its loop budget: scan (Len, Each), At/Peek and New
   terminate on every reachable heap. *)
Theorem C10_ring_no_hang : forall (T : Type) (zero : T) (ops : list (op T)),
  ~ In RFuel (run T zero empty_heap ops).
Proof. exact ring_no_hang. Qed.
Print Assumptions C10_ring_no_hang.

(* The heap reached by any history is represented by the abstract state reached by the same
   history (Rep: the abstract cycles partition the allocated cells, each is linked in the heap by
   next and, backwards, by prev, closing on itself; values agree). *)
Theorem C10_ring_wellformed : forall (T : Type) (zero : T) (ops : list (op T)),
  Rep T (run_heap T zero empty_heap ops) (a_run_state T zero (a_empty T zero) ops).
Proof. exact ring_reachable_rep. Qed.
Print Assumptions C10_ring_wellformed.

(* Next and Prev are mutually inverse on every cell of every reachable heap. *)
Theorem C10_ring_links_inverse : forall (T : Type) (zero : T) (ops : list (op T)) (a : addr),
  let h := run_heap T zero empty_heap ops in
  a < size h ->
  (exists b, b < size h /\ nx T h a = Some b /\ pv T h b = Some a) /\
  (exists c, c < size h /\ pv T h a = Some c /\ nx T h c = Some a).
Proof. exact ring_links_inverse. Qed.
Print Assumptions C10_ring_links_inverse.

Example C10_ring_links_inverse_ex :
  let h := run_heap nat 0 empty_heap [OOf [1;2;3]; OOf [4;5]; OJoin (Some 2) (Some 3); OPop (Some 0)] in
  size h = 5 /\ nx nat h 2 = Some 3 /\ pv nat h 3 = Some 2 /\ nx nat h 0 = Some 0.
Proof. vm_compute. auto. Qed.

(* Nothing lost or duplicated: after any history the abstract cycles are non-empty and together
   contain every name handed out exactly once. *)
Theorem C10_ring_partition : forall (T : Type) (zero : T) (ops : list (op T)),
  let st := a_run_state T zero (a_empty T zero) ops in
  Permutation (concat (cycles st)) (seq 0 (acount st)) /\ Forall (fun c => c <> []) (cycles st).
Proof. exact ring_partition. Qed.
Print Assumptions C10_ring_partition.

Example C10_ring_partition_ex :
  cycles (a_run_state nat 0 (a_empty nat 0) [OOf [1;2;3]; OOf [4;5]; OJoin (Some 2) (Some 3); OPop (Some 0)])
  = [[0]; [2; 3; 4; 1]].
Proof. vm_compute. reflexivity. Qed.
