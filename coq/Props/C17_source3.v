(* Outside property C17 (supplementary): slice.MatchingKeys at source level.  Only statements; the
   proofs are in GenTie/SliceTieMatchingKeys.v.

   Reading guide.  FnSliceIterMK.MatchingKeys is the function the heap backend of the translator
   regenerates on every run from MatchingKeys(m, f)(yield): the map is the list of its entries in the
   order the iteration visits them (an input: Go leaves it open), f the test on values, yield a
   STATEFUL consumer (state -> key -> (Go's bool answer, new state)), the result the consumer's final
   state.  [kyield yieldK] wraps a model consumer [yieldK : S -> K -> S * bool]; [feed yieldK ks s]
   feeds the sequence ks to it until it answers false; [take_consumer 0] appends every key.
   STILL OUTSIDE: that the runtime's iteration enumerates the map (each key once), the identity of
   the closure value returned. *)
From Coq Require Import ZArith List Bool Permutation.
Import ListNotations.
From Mds Require Import Common.FnRt GenTie.SliceTieMatchingKeys.
From Mds Require Gen.FnSliceIterMK Slice.SliceUtilExtraModel Slice.SliceUtilExtraProofs.
Local Open Scope Z_scope.

(* for every consumer, every test, EVERY list of entries (every iteration order), every start state
   and fuel above the number of entries: the generated function ends in the consumer state the
   supplementary model's matching_loop reaches *)
Theorem C17_matchingkeys_is_source :
  forall (K U S : Type) (yieldK : S -> K -> S * bool) (f : U -> bool) (kvs : list (K * U)) (s : S) (fuel : nat),
    (fuel > length kvs)%nat ->
    FnSliceIterMK.MatchingKeys kvs f (kyield yieldK) s fuel
    = Ok (fst (SliceUtilExtraModel.matching_loop yieldK f kvs s 0)).
Proof. exact (@matchingkeys_is_source). Qed.
Print Assumptions C17_matchingkeys_is_source.

(* the values yielded are exactly the keys whose value satisfies f, in the order of the iteration,
   and nothing is yielded after the consumer answered false *)
Theorem C17_matchingkeys_source_spec :
  forall (K U S : Type) (yieldK : S -> K -> S * bool) (f : U -> bool) (kvs : list (K * U)) (s : S) (fuel : nat),
    (fuel > length kvs)%nat ->
    FnSliceIterMK.MatchingKeys kvs f (kyield yieldK) s fuel
    = Ok (SliceUtilExtraProofs.feed yieldK (map fst (filter (fun kv => f (snd kv)) kvs)) s).
Proof. exact (@matchingkeys_source_spec). Qed.
Print Assumptions C17_matchingkeys_source_spec.

(* collected completely: whatever permutation of the entries the runtime iterates, the keys handed
   over are a permutation of the matching keys *)
Theorem C17_matchingkeys_source_any_order :
  forall (K U : Type) (f : U -> bool) (kvs ref : list (K * U)) (fuel : nat),
    Permutation kvs ref -> (fuel > length kvs)%nat ->
    exists ks c, FnSliceIterMK.MatchingKeys kvs f (kyield (SliceUtilExtraModel.take_consumer 0)) ([], 0) fuel = Ok (ks, c) /\
                 Permutation ks (map fst (filter (fun kv => f (snd kv)) ref)).
Proof. exact (@matchingkeys_source_any_order). Qed.
Print Assumptions C17_matchingkeys_source_any_order.

(* through the generated function: entries in the order 3, 1, 2, 4; values > 10 match; a consumer
   that collects everything, and one that stops after two keys *)
Example C17_matchingkeys_source_ex :
  let kvs := [(3, 30); (1, 5); (2, 20); (4, 40)] in
  FnSliceIterMK.MatchingKeys kvs (fun v => 10 <? v) (kyield (SliceUtilExtraModel.take_consumer 0)) ([], 0) 5
  = Ok ([3; 2; 4], 3) /\
  FnSliceIterMK.MatchingKeys kvs (fun v => 10 <? v) (kyield (SliceUtilExtraModel.take_consumer 2)) ([], 0) 5
  = Ok ([3; 2], 2) /\
  FnSliceIterMK.MatchingKeys kvs (fun v => 10 <? v) (kyield (SliceUtilExtraModel.take_consumer 0)) ([], 0) 4
  = OutOfFuel.
Proof. vm_compute. repeat split. Qed.
