(* C15 at source level -- statements of Props/C15.v re-stated for the FUNCTIONS GENERATED from
   shell/shell.go (Gen/FnShell.v; regenerated on every run).  Only statements; proofs in
   GenTie/ShellSource.v from the per-function ties of GenTie/ShellTie{Quote,Next,Split}.v.

   The generated Quote, Join and Split take the objects they use as abstract states with one function
   argument per method; here they are instantiated as in GenTie/ShellTieBase.v: a bytes.Buffer is
   its content (a byte list; the Write methods append, Reset empties, String reads), a
   bufio.Reader is its unread input (ReadByte pops the head or answers io.EOF, Reset rebinds),
   strings.NewReader(s) reads s.  That reading of the standard library is ASSUMED (and reader
   fragmentation is not in it: correspondence only).  [b0] is whatever content the buffer taken
   from bufPool has, [sc0] whatever state the scanner taken from scanPool is in (both functions
   reset what they take); [back] is the scanner Split puts back.  Byte strings are lists of Z
   ([zs] embeds the model's N-bytes); inputs are bytes below 256 ([bytes_ok]: classOf is an array
   of 256).  Fuel: any amount above the loop lengths stated.
   NOT COVERED: re-use of a pooled object across calls beyond "any state", Go's int width. *)
From Coq Require Import ZArith NArith List Bool.
Import ListNotations.
Set Warnings "-notation-overridden".
From Mds Require Import Common.FnRt Gen.FnShell.
From Mds Require Import Shell.ShellModel Shell.ShellSpec GenTie.ShellTieBase GenTie.ShellSource.

(* Split(Join(ss)) = (ss, true), both computed by the generated functions *)
Theorem C15_split_join_source : forall (ss : list (list N)) (b0 : list Z) (sc0 : scanner) (fuelJ fuelS : nat),
  (forall s, In s ss -> bytes_ok s) ->
  (length ss < fuelJ)%nat -> (forall s, In s ss -> (length s < fuelJ)%nat) ->
  (length (join ss) + 2 <= fuelS)%nat ->
  exists j back,
    FnShell.Join (map zs ss) b0 bb_Reset bb_WriteString bb_Grow bb_WriteByte bb_String fuelJ = Ok j /\
    FnShell.Split (zs (inp sc0)) (zs (cur sc0)) (st_z (st sc0)) (err_z (eof sc0)) j
      rd_Reset bb_Reset new_reader rd_ReadByte bb_WriteByte bb_Write bb_String as_reader fuelS
    = Ok (map zs ss, true, zs (inp back), zs (cur back), st_z (st back), err_z (eof back)).
Proof. exact C15_split_join_source_proof. Qed.
Print Assumptions C15_split_join_source.

(* [ <empty> ; it<sq>s ; a<space>b;c ] through the generated Join (a dirty pooled buffer) and the
   generated Split (a pooled scanner abandoned inside a double-quoted token with the error latched) *)
Example C15_split_join_source_ex :
  FnShell.Join [[]; [105; 116; 39; 115]; [97; 32; 98; 59; 99]]%Z [120; 121]%Z
    bb_Reset bb_WriteString bb_Grow bb_WriteByte bb_String 6
  = Ok [39; 39; 32; 105; 116; 92; 39; 115; 32; 39; 97; 32; 98; 59; 99; 39]%Z /\
  FnShell.Split [120; 34; 121]%Z [122; 122]%Z 7%Z EEOF [39; 39; 32; 105; 116; 92; 39; 115; 32; 39; 97; 32; 98; 59; 99; 39]%Z
    rd_Reset bb_Reset new_reader rd_ReadByte bb_WriteByte bb_Write bb_String as_reader 18
  = Ok ([[]; [105; 116; 39; 115]; [97; 32; 98; 59; 99]]%Z, true, []%Z, [97; 32; 98; 59; 99]%Z, 3%Z, EEOF).
Proof. split; vm_compute; reflexivity. Qed.

(* Split(Quote(s)) = ([s], true) *)
Theorem C15_split_quote_source : forall (s : list N) (b0 : list Z) (sc0 : scanner) (fuelQ fuelS : nat),
  bytes_ok s -> (length s < fuelQ)%nat -> (length (quote s) + 2 <= fuelS)%nat ->
  exists q back,
    FnShell.Quote (zs s) b0 bb_Reset bb_WriteString bb_Grow bb_WriteByte bb_String fuelQ = Ok q /\
    FnShell.Split (zs (inp sc0)) (zs (cur sc0)) (st_z (st sc0)) (err_z (eof sc0)) q
      rd_Reset bb_Reset new_reader rd_ReadByte bb_WriteByte bb_Write bb_String as_reader fuelS
    = Ok ([zs s], true, zs (inp back), zs (cur back), st_z (st back), err_z (eof back)).
Proof. exact C15_split_quote_source_proof. Qed.
Print Assumptions C15_split_quote_source.

(* a POSIX shell evaluating the output of the generated Quote obtains exactly the one word s *)
Theorem C15_posix_source : forall (s : list N) (b0 : list Z) (fuel : nat), (length s < fuel)%nat ->
  exists q, FnShell.Quote (zs s) b0 bb_Reset bb_WriteString bb_Grow bb_WriteByte bb_String fuel = Ok (zs q) /\
            posix_words q = Some [s].
Proof. exact C15_posix_source_proof. Qed.
Print Assumptions C15_posix_source.

Example C15_posix_source_ex :   (* a;<sq>~  ->  <sq>a;<sq><backslash><sq><sq>~<sq>, pooled buffer not empty *)
  FnShell.Quote [97; 59; 39; 126]%Z [1; 2; 3]%Z bb_Reset bb_WriteString bb_Grow bb_WriteByte bb_String 5
  = Ok [39; 97; 59; 39; 92; 39; 39; 126; 39]%Z /\
  posix_words [39; 97; 59; 39; 92; 39; 39; 126; 39]%N = Some [[97; 59; 39; 126]%N].
Proof. split; vm_compute; reflexivity. Qed.
