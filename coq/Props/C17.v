(* C17 — slice utilities rearrange and partition exactly as documented, for all arguments.
   Only statements, each closed by [exact] of a lemma proved in Slice/SliceUtilProofs*.v.
   Vocabulary: a slice is a view (voff, vlen, vcap) into a base list; [window b v] are its
   elements; [res] is Ok / Panic kind / OutOfFuel (Slice/SliceUtilModel.v, SliceUtilSpec.v).

   "Capacity-clipped" is read as in DESIGN.md section 5: [clipped r], i.e. vcap r = vlen r (the
   capacity ends at the slice's own end) -- except on the early returns of the pinned code that
   hand back the input itself: Partition of an empty slice and Chunks with n = 0 or n >= len, where
   the result IS vs, spare capacity included.  The theorems state exactly that; the strict reading
   (cap = len for every returned slice) is false on those paths, see
   [C17_chunks_single_keeps_capacity]. *)
From Coq Require Import ZArith List Bool Permutation.
Import ListNotations.
From Mds Require Import Slice.SliceUtilModel Slice.SliceUtilSpec Slice.SliceUtilProofs Slice.SliceUtilProofsRotate
  Slice.SliceUtilProofsChunks Slice.SliceUtilProofsPartition Slice.SliceUtilProofsInt
  Slice.SliceUtilFastModel Slice.SliceUtilFastProofs.
Local Open Scope Z_scope.

(* At: for -len <= i < len the element at i, negative i counting from the end; no panic. *)
Theorem C17_at : forall (T : Type) (l : list T) (i : Z),
  - zlen l <= i < zlen l ->
  exists x, at_ l i = Ok x /\ nth_error l (Z.to_nat (if i <? 0 then zlen l + i else i)) = Some x.
Proof. exact @at_in_range. Qed.
Print Assumptions C17_at.
Example C17_at_ex : at_ [10; 20; 30] (-1) = Ok 30 /\ at_ [10; 20; 30] 0 = Ok 10.
Proof. split; reflexivity. Qed.

(* At outside [-len, len): the documented panic. *)
Theorem C17_at_panics : forall (T : Type) (l : list T) (i : Z),
  i < - zlen l \/ zlen l <= i -> at_ l i = Panic PDocIndex.
Proof. exact @at_out_of_range. Qed.
Print Assumptions C17_at_panics.
Example C17_at_panics_ex : at_ [10; 20; 30] 3 = Panic PDocIndex /\ at_ [10; 20; 30] (-4) = Panic PDocIndex.
Proof. split; reflexivity. Qed.

(* PtrAt: never panics; the address of element i (resp. len + i), nil when out of range. *)
Theorem C17_ptr_at : forall (T : Type) (l : list T) (i : Z), ptr_at l i = Ok (at_pos (zlen l) i).
Proof. exact @ptr_at_spec. Qed.
Print Assumptions C17_ptr_at.
Example C17_ptr_at_ex : ptr_at [10; 20; 30] (-3) = Ok (Some 0) /\ ptr_at [10; 20; 30] 3 = Ok None.
Proof. split; reflexivity. Qed.

(* Head(vs, n), n >= 0: the first min(n, len) elements, as a subslice starting where vs starts
   (its capacity is that of vs: Head does not clip). *)
Theorem C17_head : forall (T : Type) (b : list T) (v : view) (n : Z),
  valid_view b v -> 0 <= n ->
  exists r, head v n = Ok r /\ voff r = voff v /\ vlen r = Z.min n (vlen v) /\ vcap r = vcap v /\
            window b r = firstn (Z.to_nat n) (window b v).
Proof. exact @head_view. Qed.
Print Assumptions C17_head.
Example C17_head_ex : head (mkView 2 5 8) 3 = Ok (mkView 2 3 8) /\ head (mkView 2 5 8) 7 = Ok (mkView 2 5 8).
Proof. split; reflexivity. Qed.

(* Tail(vs, n), n >= 0: the last min(n, len) elements, as a subslice ending where vs ends (its
   capacity ends where that of vs ends). *)
Theorem C17_tail : forall (T : Type) (b : list T) (v : view) (n : Z),
  valid_view b v -> 0 <= n ->
  exists r, tail v n = Ok r /\ voff r + vlen r = voff v + vlen v /\ vlen r = Z.min n (vlen v) /\
            voff r + vcap r = voff v + vcap v /\
            window b r = skipn (Z.to_nat (vlen v - Z.min n (vlen v))) (window b v).
Proof. exact @tail_view. Qed.
Print Assumptions C17_tail.
Example C17_tail_ex : tail (mkView 2 5 8) 3 = Ok (mkView 4 3 6) /\ tail (mkView 2 5 8) 7 = Ok (mkView 2 5 8).
Proof. split; reflexivity. Qed.

(* Stripe(vs, i), i >= 0: the i-th element of every slice that has one, in order; no panic. *)
Theorem C17_stripe : forall (T : Type) (vs : list (list T)) (i : Z),
  0 <= i -> stripe vs i = Ok (stripe_spec vs i).
Proof. exact @stripe_correct. Qed.
Print Assumptions C17_stripe.
Example C17_stripe_ex : stripe [[1; 2; 3]; [4]; []; [5; 6]] 1 = Ok [2; 6].
Proof. reflexivity. Qed.

(* Rotate(ss, k) for -n <= k <= n (the faithful gcd / cycle-chasing loop model): no panic, no fuel
   exhaustion, and the element at index i ends at index (i + k) mod n, for every i. *)
Theorem C17_rotate : forall (T : Type) (l : list T) (k : Z),
  - zlen l <= k <= zlen l ->
  exists l', rotate_impl l k = Ok l' /\ length l' = length l /\
    forall i, 0 <= i < zlen l -> nth_error l' (Z.to_nat ((i + k) mod zlen l)) = nth_error l (Z.to_nat i).
Proof. exact @rotate_impl_moves. Qed.
Print Assumptions C17_rotate.
Example C17_rotate_ex : rotate_impl [1; 2; 3; 4; 5; 6] 4 = Ok [3; 4; 5; 6; 1; 2] /\
                        rotate_impl [1; 2; 3; 4; 5; 6] (-1) = Ok [2; 3; 4; 5; 6; 1].
Proof. split; reflexivity. Qed.

(* The same as an equation with the list-level rotation (what queue.Queue's model imports). *)
Theorem C17_rotate_list : forall (T : Type) (l : list T) (k : Z),
  - zlen l <= k <= zlen l -> rotate_impl l k = Ok (rotate_list l k).
Proof. exact @rotate_impl_spec. Qed.
Print Assumptions C17_rotate_list.
Example C17_rotate_list_ex : rotate_list [1; 2; 3; 4] 1 = [4; 1; 2; 3] /\ rotate_list [1; 2; 3; 4] (-1) = [2; 3; 4; 1].
Proof. split; reflexivity. Qed.

(* k outside [-n, n]: the documented panic. *)
Theorem C17_rotate_panics : forall (T : Type) (l : list T) (k : Z),
  k < - zlen l \/ zlen l < k -> rotate_impl l k = Panic PDocOffset.
Proof. exact @rotate_impl_out_of_range. Qed.
Print Assumptions C17_rotate_panics.
Example C17_rotate_panics_ex : rotate_impl [1; 2; 3] 4 = Panic PDocOffset /\ rotate_impl [1; 2; 3] (-4) = Panic PDocOffset.
Proof. split; reflexivity. Qed.

(* On a base array: the slice's elements are rotated, every other element of the base is unchanged. *)
Theorem C17_rotate_view : forall (T : Type) (b : list T) (v : view) (k : Z),
  valid_view b v -> - vlen v <= k <= vlen v ->
  exists b', rotate b v k = Ok b' /\ window b' v = rotate_list (window b v) k /\
    firstn (Z.to_nat (voff v)) b' = firstn (Z.to_nat (voff v)) b /\
    skipn (Z.to_nat (voff v + vlen v)) b' = skipn (Z.to_nat (voff v + vlen v)) b.
Proof. exact @rotate_view. Qed.
Print Assumptions C17_rotate_view.
Example C17_rotate_view_ex : rotate [9; 1; 2; 3; 8; 7] (mkView 1 3 4) 1 = Ok [9; 3; 1; 2; 8; 7].
Proof. reflexivity. Qed.

(* The long lines of the scale stream are replayed on a linear-time function; it IS the loop model,
   for every base, view and k (in range or not). *)
Theorem C17_rotate_fast_replay : forall (T : Type) (b : list T) (v : view) (k : Z),
  rotate_view_fast b v k = rotate b v k.
Proof. exact @rotate_view_fast_eq. Qed.
Print Assumptions C17_rotate_fast_replay.
Example C17_rotate_fast_replay_ex :
  rotate_view_fast [9; 1; 2; 3; 8; 7] (mkView 1 3 4) (-1) = Ok [9; 2; 3; 1; 8; 7] /\
  rotate_view_fast [9; 1; 2; 3; 8; 7] (mkView 1 3 4) 4 = Panic PDocOffset.
Proof. split; reflexivity. Qed.

(* Likewise for Partition: the one-pass function (kept prefix; the block of unkept elements as a
   queue whose first element goes to its end whenever a kept element is met) IS the two-cursor loop
   model -- same returned view, same arrangement of the unkept elements. *)
Theorem C17_partition_fast_replay : forall (T : Type) (keep : T -> bool) (b : list T) (v : view),
  partition_fast keep b v = partition keep b v.
Proof. exact @partition_fast_eq. Qed.
Print Assumptions C17_partition_fast_replay.
Example C17_partition_fast_replay_ex :
  partition_fast Z.even [9; 6; 1; 3; 2; 8; 4; 5; 7] (mkView 1 7 8) = Ok ([9; 6; 2; 8; 4; 3; 1; 5; 7], mkView 1 4 4).
Proof. reflexivity. Qed.

(* Partition(vs, keep), for every base array, every view in it and every predicate: no panic, no
   fuel exhaustion; the result starts where vs starts and holds exactly the kept elements in their
   original order; appending to it cannot overwrite an element of vs; its capacity equals its
   length whenever vs is not empty, and for the empty vs the result is vs itself (the only case in
   which spare capacity survives); vs as a whole is a permutation of its original contents; and
   nothing outside vs changes.  keep is a Coq function: pure and total. *)
Theorem C17_partition : forall (T : Type) (keep : T -> bool) (b : list T) (v : view),
  valid_view b v ->
  exists b' r, partition keep b v = Ok (b', r) /\
    voff r = voff v /\
    window b' r = filter keep (window b v) /\
    can_overwrite v r = false /\
    (0 < vlen v -> clipped r) /\
    (vlen v = 0 -> r = v) /\
    Permutation (window b' v) (window b v) /\
    firstn (Z.to_nat (voff v)) b' = firstn (Z.to_nat (voff v)) b /\
    skipn (Z.to_nat (voff v + vlen v)) b' = skipn (Z.to_nat (voff v + vlen v)) b.
Proof. exact @partition_correct. Qed.
Print Assumptions C17_partition.
Example C17_partition_ex :
  partition Z.even [99; 6; 1; 3; 2; 8; 4; 5; 98] (mkView 1 7 8)
  = Ok ([99; 6; 2; 8; 4; 3; 1; 5; 98], mkView 1 4 4)
  /\ (* everything kept, spare capacity behind vs: still clipped *)
  partition Z.even [99; 6; 2; 98; 97] (mkView 1 2 4) = Ok ([99; 6; 2; 98; 97], mkView 1 2 2)
  /\ (* nothing kept *)
  partition Z.even [99; 1; 3; 98; 97] (mkView 1 2 4) = Ok ([99; 1; 3; 98; 97], mkView 1 0 0).
Proof. repeat split; reflexivity. Qed.

(* Chunks(vs, n), n >= 0: no panic; consecutive subslices whose concatenation is vs; appending to
   any of them cannot overwrite an element of vs; for n > 0 all but the last have length exactly n
   and the last between 1 and n (0 only when vs is empty); for n = 0 the single chunk vs; every
   chunk has its capacity clipped to its length, or -- only when n = 0 or n >= len -- the single
   chunk is vs itself. *)
Theorem C17_chunks : forall (T : Type) (b : list T) (v : view) (n : Z),
  valid_view b v -> 0 <= n ->
  exists cs, chunks v n = Ok cs /\
    concat (map (window b) cs) = window b v /\
    tiles (voff v) cs (voff v + vlen v) /\
    Forall (fun c => can_overwrite v c = false) cs /\
    (0 < n -> chunk_lens_ok (vlen v) n (map vlen cs)) /\
    (n = 0 -> cs = [v]) /\
    (Forall clipped cs \/ (cs = [v] /\ (n = 0 \/ vlen v <= n))).
Proof. exact @chunks_doc. Qed.
Print Assumptions C17_chunks.
Example C17_chunks_ex : chunks (mkView 2 7 9) 3 = Ok [mkView 2 3 3; mkView 5 3 3; mkView 8 1 1].
Proof. reflexivity. Qed.

(* Where the strict reading "every chunk has cap = len" fails: on the early return the chunk is vs
   with whatever capacity vs has (n = 0 or n > len here; the pinned code does the same for n = len). *)
Theorem C17_chunks_single_keeps_capacity : forall (v : view) (n : Z),
  0 <= n -> n = 0 \/ vlen v < n -> chunks v n = Ok [v].
Proof. exact chunks_single_keeps_capacity. Qed.
Print Assumptions C17_chunks_single_keeps_capacity.
Example C17_chunks_single_keeps_capacity_ex : chunks (mkView 2 3 6) 4 = Ok [mkView 2 3 6] /\ ~ clipped (mkView 2 3 6).
Proof. split; [reflexivity | unfold clipped; cbn; discriminate]. Qed.

Theorem C17_chunks_panics : forall (v : view) (n : Z), n < 0 -> chunks v n = Panic PDocMax.
Proof. exact chunks_negative. Qed.
Print Assumptions C17_chunks_panics.
Example C17_chunks_panics_ex : chunks (mkView 2 7 9) (-1) = Panic PDocMax.
Proof. reflexivity. Qed.

(* Batches(vs, n), n >= 0 (after repair F3: also for the empty slice): no panic; exactly
   min(n, len) consecutive subslices; for n > 0 their concatenation is vs; appending to any of them
   cannot overwrite an element of vs; every one has its capacity clipped to its length; any two
   lengths differ by at most one. *)
Theorem C17_batches : forall (T : Type) (b : list T) (v : view) (n : Z),
  valid_view b v -> 0 <= n ->
  exists cs, batches v n = Ok cs /\
    zlen cs = Z.min n (vlen v) /\
    (0 < n -> concat (map (window b) cs) = window b v) /\
    (0 < n -> tiles (voff v) cs (voff v + vlen v)) /\
    Forall (fun c => can_overwrite v c = false) cs /\
    Forall clipped cs /\
    (forall c c', In c cs -> In c' cs -> - 1 <= vlen c - vlen c' <= 1).
Proof. exact @batches_doc. Qed.
Print Assumptions C17_batches.
Example C17_batches_ex : batches (mkView 2 7 9) 3 = Ok [mkView 2 3 3; mkView 5 2 2; mkView 7 2 2]
                         /\ batches (mkView 0 0 0) 3 = Ok [].
Proof. split; reflexivity. Qed.

Theorem C17_batches_panics : forall (v : view) (n : Z), n < 0 -> batches v n = Panic PDocN.
Proof. exact batches_negative. Qed.
Print Assumptions C17_batches_panics.
Example C17_batches_panics_ex : batches (mkView 2 7 9) (-1) = Panic PDocN.
Proof. reflexivity. Qed.

(* Outside the documented domain (recorded, not demanded): a negative count for Head/Tail and a
   negative index for Stripe reach the runtime's own bounds checks. *)
Theorem C17_negative_arguments : forall (T : Type) (v : view) (n : Z) (x : list T) (r : list (list T)),
  0 <= vlen v -> n < 0 ->
  head v n = Panic PRtSlice /\ tail v n = Panic PRtSlice /\ stripe (x :: r) n = Panic PRtIndex.
Proof. exact @negative_arguments. Qed.
Print Assumptions C17_negative_arguments.
Example C17_negative_arguments_ex : head (mkView 0 3 3) (-1) = Panic PRtSlice /\ stripe [[1; 2]] (-1) = Panic PRtIndex.
Proof. split; reflexivity. Qed.

(* ---- machine integers ----
   The theorems above compute in unbounded Z.  The same functions with 64-bit wrap-around after
   every addition and subtraction (Slice/SliceUtilProofsInt.v) are EQUAL to them for every int64
   argument -- math.MinInt and math.MaxInt included, documented or not -- on every slice of fewer
   than 2^62 elements (every Go slice whose elements have a size). *)
Theorem C17_int64_rotate : forall (T : Type) (l : list T) (k : Z),
  int64 k -> len62 (zlen l) -> rotate_impl64 l k = rotate_impl l k.
Proof. exact @rotate_impl64_eq. Qed.
Print Assumptions C17_int64_rotate.
Example C17_int64_rotate_ex : rotate_impl64 [1; 2; 3] (- 2 ^ 63) = Panic PDocOffset /\ rotate_impl64 [1; 2; 3] (-1) = Ok [2; 3; 1].
Proof. split; reflexivity. Qed.

Theorem C17_int64_at : forall (T : Type) (l : list T) (i : Z),
  int64 i -> zlen l < 2 ^ 63 -> at64 l i = at_ l i /\ ptr_at64 l i = ptr_at l i.
Proof. intros T l i Hi Hl. split; [apply at64_eq | apply ptr_at64_eq]; assumption. Qed.
Print Assumptions C17_int64_at.
Example C17_int64_at_ex : at64 [1; 2; 3] (- 2 ^ 63) = Panic PDocIndex /\ ptr_at64 [1; 2; 3] (- 2 ^ 63) = Ok None.
Proof. split; reflexivity. Qed.

Theorem C17_int64_views : forall (v : view) (n : Z),
  int64 n -> len62 (vlen v) -> vlen v <= vcap v ->
  chunks64 v n = chunks v n /\ batches64 v n = batches v n /\ tail64 v n = tail v n.
Proof. intros v n Hn Hl Hc. repeat split; [apply chunks64_eq | apply batches64_eq | apply tail64_eq]; assumption. Qed.
Print Assumptions C17_int64_views.
Example C17_int64_views_ex :
  chunks64 (mkView 0 3 3) (2 ^ 63 - 1) = Ok [mkView 0 3 3] /\ batches64 (mkView 0 2 2) (2 ^ 63 - 1) = Ok [mkView 0 1 1; mkView 1 1 1]
  /\ tail64 (mkView 0 3 3) (- 2 ^ 63) = Panic PRtSlice.
Proof. repeat split; reflexivity. Qed.

(* The length bound is not idle: on 2^63 - 1 zero-size elements (legal in Go) i + k in Rotate and
   i + n in Chunks wrap around to -4, and the real code panics (index / slice bounds [-4]). *)
Theorem C17_int64_overflow_beyond_bound :
  let n := 2 ^ 63 - 1 in let k := n - 1 in
  Z.rem (wrap64 (k + k)) n = -4 /\ Z.min (wrap64 (k + k)) n = -4.
Proof. vm_compute. split; reflexivity. Qed.
Print Assumptions C17_int64_overflow_beyond_bound.
