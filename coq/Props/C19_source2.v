(* C19 at source level: the CONSTRUCTOR and the size helper.  distinct.NewCounter and
   distinct.BufferSize as generated into Gen/FnDistinctNew.v by the configuration backend of the
   function translator on every run.  Only statements; proofs in GenTie/DistinctTieNew.v.

   Reading guide.  DN = Gen/FnDistinctNew.v; DN.Counter is the Go struct with all four fields
   (buf : the map, cap, p, rng : the state of the random source).  NewCounter's foreign calls are
   arguments: [crand_Read] (crypto/rand.Read on the 32-byte seed: bytes written, n, "err != nil") is
   universally quantified; rand.NewChaCha8 is an arbitrary function [stream] from the seed to the
   list of words the source will produce (the representation of c.rng in GenTie/DistinctTie.v).
   [seed_err crand_Read] / [seed_bytes crand_Read] = what Read answered on 32 zero bytes.
   [rep], [madd], [out_of], [sword], [b_Remove] ... are those of GenTie/DistinctTie.v.

   STILL OUTSIDE: crypto/rand and ChaCha8 themselves (inputs), object identity of the map and of the
   source, Go's int width for size; for BufferSize ALL of float64 arithmetic: [Flt] and its operations
   are abstract arguments about which nothing is assumed (no IEEE rounding, no NaN, no range of the
   conversion to int) -- the statement fixes the formula, the order of the three checks and their messages. *)
From Coq Require Import ZArith List Bool.
Import ListNotations.
From Mds Require Import Common.FnRt Gen.FnDistinct Gen.DistinctConst GenTie.DistinctTie GenTie.DistinctTieNew.
From Mds Require Distinct.DistinctModel.
Local Open Scope Z_scope.

(* NewCounter(size), for every behaviour of crypto/rand.Read and every seed-to-stream function:
   a Read error is the panic "seed RNG: %v"; otherwise the Counter is exactly the model's initial
   state: the representation of init's (empty, allocated) buffer, cap = size (through the anchor
   init_cap), p = init's threshold MaxUint64, rng = the source made from the seed Read wrote. *)
Theorem C19_newcounter_is_source :
  forall (T : Type) (crand_Read : list Z -> list Z * Z * bool) (stream : list Z -> list Z) (size : Z),
    @DN.NewCounter T (list Z) crand_Read stream size =
    if seed_err crand_Read then FnRt.Panic (FnRt.PMsg "seed RNG: %v")
    else FnRt.Ok (DN.mk_Counter (rep (D.buf (D.init T))) (init_cap size) (D.p (D.init T)) (stream (seed_bytes crand_Read))).
Proof. exact @newcounter_is_source. Qed.
Print Assumptions C19_newcounter_is_source.
Example C19_newcounter_is_source_ex :
  @DN.NewCounter Z (list Z) (fun s => (map (fun _ => 7) s, 32, false)) (fun s => [Z.of_nat (length s); 5]) 4
  = FnRt.Ok (DN.mk_Counter (Some []) 4 18446744073709551615 [32; 5]) /\
  @DN.NewCounter Z (list Z) (fun s => (s, 0, true)) (fun s => s) 4 = FnRt.Panic (FnRt.PMsg "seed RNG: %v").
Proof. split; reflexivity. Qed.

(* The same, field by field and without the anchors: when Read succeeds the Counter has an empty
   allocated buffer, cap = size exactly, p = 2^64-1, and the source made from the seed Read wrote. *)
Theorem C19_newcounter_fields_source :
  forall (T : Type) (crand_Read : list Z -> list Z * Z * bool) (stream : list Z -> list Z) (size : Z),
    seed_err crand_Read = false ->
    exists c0, @DN.NewCounter T (list Z) crand_Read stream size = FnRt.Ok c0 /\
               DN.Counter_buf c0 = Some [] /\ DN.Counter_cap c0 = size /\
               DN.Counter_p c0 = 18446744073709551615 /\ DN.Counter_rng c0 = stream (seed_bytes crand_Read).
Proof. exact @newcounter_fields. Qed.
Print Assumptions C19_newcounter_fields_source.
Example C19_newcounter_fields_source_ex :
  seed_err (fun s : list Z => (s, 32, false)) = false /\
  option_map (fun c => DN.Counter_cap c) (match @DN.NewCounter Z (list Z) (fun s => (s, 32, false)) (fun s => s) 1024 with FnRt.Ok c => Some c | _ => None end) = Some 1024.
Proof. split; reflexivity. Qed.

(* The C19 start state at source level: the generated Add, run on the fields of the Counter the
   generated NewCounter returned, is the model's add from its initial state [D.init] with capacity
   size -- for every element type with a decidable equality, every iteration order and fuel above
   its length, every seed and stream (C19_add_is_source at the constructor's state). *)
Theorem C19_first_add_source :
  forall (T : Type) (crand_Read : list Z -> list Z * Z * bool) (stream : list Z -> list Z)
         (eqb : T -> T -> bool), (forall x y, eqb x y = true <-> x = y) ->
  forall (mf : nat), (2 <= mf)%nat ->
  forall (size : Z) (v : T) (ord : list T) (fuel mfuel : nat),
    seed_err crand_Read = false -> (length ord < fuel)%nat ->
    exists c0, @DN.NewCounter T (list Z) crand_Read stream size = FnRt.Ok c0 /\
      Add (DN.Counter_buf c0) (DN.Counter_cap c0) (DN.Counter_p c0) (DN.Counter_rng c0) v
          sword (b_Remove eqb mf) (b_Add eqb mf) (b_Len eqb) eqb ord fuel
      = out_of (madd eqb ord D.cvm_single_halving_pass mfuel size (D.init T) v (stream (seed_bytes crand_Read))).
Proof. exact @first_add_source. Qed.
Print Assumptions C19_first_add_source.
Example C19_first_add_source_ex :
  match @DN.NewCounter Z (list Z) (fun s => (s, 32, false)) (fun _ => [3; 4]) 2 with
  | FnRt.Ok c0 =>
    Add (DN.Counter_buf c0) (DN.Counter_cap c0) (DN.Counter_p c0) (DN.Counter_rng c0) 9
        sword (b_Remove Z.eqb 2) (b_Add Z.eqb 2) (b_Len Z.eqb) Z.eqb [] 1
    = FnRt.Ok (Some [(9, tt)], 18446744073709551615, [3; 4])
  | _ => False
  end.
Proof. vm_compute. reflexivity. Qed.

(* BufferSize over an ABSTRACT float64 (every type Flt and every choice of <, *, /, int->float,
   float->int, Ceil, Log2): the generated function is [buffer_size]: eps outside [0,1] panics first,
   then delta outside [0,1], then n <= 0, each with its format string; otherwise
   int(Ceil((12 / (eps*eps)) * Log2((8*float64(n)) / delta))). *)
Theorem C19_buffersize_is_source :
  forall (Flt : Type) (of_Z : Z -> Flt) (ltb : Flt -> Flt -> bool) (ceil : Flt -> Flt) (mul div : Flt -> Flt -> Flt)
         (log2 : Flt -> Flt) (to_Z : Flt -> Z) (eps delta : Flt) (n : Z),
    DN.BufferSize of_Z ltb ceil mul div log2 to_Z eps delta n =
    if ltb eps (of_Z 0) || ltb (of_Z 1) eps then FnRt.Panic (FnRt.PMsg "error bound out of range: %v")
    else if ltb delta (of_Z 0) || ltb (of_Z 1) delta then FnRt.Panic (FnRt.PMsg "error rate out of range: %v")
    else if n <=? 0 then FnRt.Panic (FnRt.PMsg "expected size must be positive: %d")
    else FnRt.Ok (to_Z (ceil (mul (div (of_Z 12) (mul eps eps)) (log2 (div (mul (of_Z 8) (of_Z n)) delta))))).
Proof. exact buffersize_is_source. Qed.
Print Assumptions C19_buffersize_is_source.
(* an integer toy instance of the abstract operations (scaled by nothing: only to show the three
   checks and the formula are reachable) *)
Example C19_buffersize_is_source_ex :
  let bs := DN.BufferSize (fun z => z) Z.ltb (fun x => x) Z.mul Z.div Z.log2 (fun x => x) in
  bs 1 1 100 = FnRt.Ok (12 * 9) /\ bs 2 1 100 = FnRt.Panic (FnRt.PMsg "error bound out of range: %v") /\
  bs 1 (-1) 100 = FnRt.Panic (FnRt.PMsg "error rate out of range: %v") /\
  bs 1 1 0 = FnRt.Panic (FnRt.PMsg "expected size must be positive: %d").
Proof. cbv zeta. repeat split; reflexivity. Qed.
