(* C18 at source level -- the history statement of Props/C18.v re-stated for a state machine whose
   operations call the FUNCTIONS GENERATED from mapset/mapset.go (Gen/FnMapset.v, regenerated on
   every run).  Only statements; the proofs (GenTie/MapsetSource.v) compose the per-function ties
   C18_*_is_source with C18_history.

   Reading guide.  The generated functions hand maps around by CONTENT: [gstore] gives every
   variable a [go_nmap T unit] (None = the nil map, Some entries = the entries in the list
   representation's order); [gstep eqb zero g o] takes the model's ops (variables by number; the
   iteration order of every `range` over a map is in the op and is the generated function's
   oracle argument), calls the generated function of that name with fuel 2 + the length of what
   its loop ranges over, stores the receiver's new content / the result in the variable, and
   answers a [gout]: GSet content, GBool, GInt, GElem, GList elements, GFail kind (a panic; for an
   order that is not an enumeration of the keys GFail PBadOrder with the state unchanged), GHang.
   [gR], [gout_ok]: the model-level relations R / out_ok read on contents (same keys, duplicate
   free; a slice = the given prefix followed by a permutation of the set).

   COVERED: New, NewSize, Add, AddAll, Remove, RemoveAll (two different variables), Pop, Clear,
   Clone, Intersect, Keys (for the map whose key sequence the op names, duplicate-free), Values
   (for the map 0->v0, 1->v1, ... whose value sequence the op names), Has, HasAll, HasAny, Len,
   IsEmpty, Intersects, IsSubset, Equals, Slice, Append, nil assignment, and (since round 6) Range
   over an iterator given as the sequence of values it yields; every iteration order.
   NOT COVERED (they stay with C18_history / the identity theorems + correspondence): Range of the
   NIL iterator function (the generated Range answers Go's nil-dereference panic, GFail PNil, where
   the reference says SPanicNilFunc: C18_range_nil_is_source), s.RemoveAll(s) on one and the same map (two map arguments are two contents),
   WHICH map object a call returns and aliasing between variables (C18_identity_history,
   C18_constructor_result_fresh ...: contents carry no address), nil-ness of the slices returned by
   Slice/Append (GList has the elements). *)
From Coq Require Import ZArith List Bool Permutation.
Import ListNotations.
Set Warnings "-notation-overridden".
From Mds Require Import Common.FnRt.
From Mds Require Import Mapset.MapsetModel Mapset.MapsetSpec Mapset.MapsetExamples.
From Mds Require Import GenTie.MapsetSource.
Local Open Scope Z_scope.

(* From all variables nil: after any sequence of covered operations on any number of variables,
   under any legal iteration orders (none rejected as GFail PBadOrder): no generated call panics or
   runs out of fuel, every output is the reference's, and every variable holds exactly its
   reference set.  Hypotheses of C18_history_from_nil unchanged, plus the restriction to [src_op]. *)
Theorem C18_history_source_from_nil : forall (T : Type) (eqb : T -> T -> bool) (zero : T),
  (forall x y, eqb x y = true <-> x = y) ->
  forall ops : list (op T), forallb (src_op eqb) ops = true ->
  ~ In (GFail PBadOrder) (snd (grun eqb zero gstore0 ops)) ->
  gR (fst (grun eqb zero gstore0 ops)) (fst (srun T eqb zero (sstore0 T) ops)) /\
  Forall2 gout_ok (snd (grun eqb zero gstore0 ops)) (snd (srun T eqb zero (sstore0 T) ops)).
Proof. exact @history_source_from_nil. Qed.
Print Assumptions C18_history_source_from_nil.

(* a history over eight variables; orders filled in by [canon_ops]; the generated functions give
   the summaries of C18_history_ex (sets sorted) *)
Definition gsummary (o : gout (T := Z)) : list Z :=
  match o with
  | GSet None => [0]
  | GSet (Some l) => 1 :: zsort (map fst l)
  | GBool b => [2; b2z b]
  | GInt z => [3; z]
  | GElem x => [4; x]
  | GList l => 6 :: zsort l
  | GFail _ => [-1]
  | GHang => [-2]
  end.
Definition src_ex_ops : list (op Z) := canon_ops Z Z.eqb 0 (store0 Z) next0
  [OAdd Z 0 [3;1;3]; ONew Z 1 [1;2]; OAddAll Z 2 1 []; OAddAll Z 0 1 []; ORemoveAll Z 0 1 []; OPop Z 0 []; OPop Z 0 []; OAdd Z 0 [3;4;4];
   OIsSubset Z 0 1 []; OIntersects Z 1 0 []; OEquals Z 2 1 []; OIntersect Z 3 [0%nat;1%nat;2%nat] []; OSlice Z 1 []; OClear Z 1;
   OHasAll Z 1 []; OHasAny Z 1 [1]; OLen Z 0; OAppend Z 0 (Some [9]) []; OAddAll Z 2 2 []; OClone Z 4 2; ORemove Z 4 [1;1;7];
   OKeys Z 5 [7;8]; OValues Z 6 [5;5;6]; ONewSize Z 7 (-1); ONil Z 2; OHas Z 4 2; OIsEmpty Z 2].
Example C18_history_source_from_nil_ex :
  forallb (src_op Z.eqb) src_ex_ops = true /\
  map gsummary (snd (grun Z.eqb 0 gstore0 src_ex_ops)) =
  [[1;1;3]; [1;1;2]; [1;1;2]; [1;1;2;3]; [1;3]; [4;3]; [4;0]; [1;3;4];
   [2;0]; [2;0]; [2;1]; [1]; [6;1;2]; [1];
   [2;1]; [2;0]; [3;2]; [6;3;4;9]; [1;1;2]; [1;1;2]; [1;2];
   [1;7;8]; [1;5;6]; [1]; [0]; [2;1]; [2;1]] /\
  snd (grun Z.eqb 0 gstore0 [OAdd Z 0 [1;2]; OPop Z 0 [3]; ORange Z 1 None; ORemoveAll Z 0 0 [1;2]])
  = [GSet (Some [(1, tt); (2, tt)]); GFail PBadOrder; GFail PNil; GSet (Some [])] /\
  (* Range through the generated function: duplicates collapse, first occurrence order; then the variable is used *)
  forallb (src_op Z.eqb) [ORange Z 1 (Some [4;2;4;7]); ORange Z 2 (Some []); OHas Z 1 7; OLen Z 1; OIsEmpty Z 2] = true /\
  snd (grun Z.eqb 0 gstore0 [ORange Z 1 (Some [4;2;4;7]); ORange Z 2 (Some []); OHas Z 1 7; OLen Z 1; OIsEmpty Z 2])
  = [GSet (Some [(4, tt); (2, tt); (7, tt)]); GSet (Some []); GBool true; GInt 3; GBool true].
Proof. vm_compute. repeat split; reflexivity. Qed.

(* The same from any state: contents [g] that are those of a model store [st] (variable by
   variable, [sim]) related to the reference, in which no two variables share a map object
   (ids_ok) -- the hypotheses of C18_history and C18_identity_history. *)
Theorem C18_history_source : forall (T : Type) (eqb : T -> T -> bool) (zero : T),
  (forall x y, eqb x y = true <-> x = y) ->
  forall (ops : list (op T)) (g : gstore) (st : store T) (next : positive) (sst : sstore T),
  sim g st -> MapsetProofsHist.R T st sst -> MapsetProofsId.ids_ok T st next ->
  forallb (src_op eqb) ops = true ->
  ~ In (GFail PBadOrder) (snd (grun eqb zero g ops)) ->
  gR (fst (grun eqb zero g ops)) (fst (srun T eqb zero sst ops)) /\
  Forall2 gout_ok (snd (grun eqb zero g ops)) (snd (srun T eqb zero sst ops)).
Proof. exact @history_source. Qed.
Print Assumptions C18_history_source.
Example C18_history_source_ex :
  sim (T := Z) (gupd gstore0 1 (Some [(4, tt); (2, tt)])) (upd Z (store0 Z) 1 (Some (1%positive, [4;2]))) /\
  gstep Z.eqb 0 (gupd gstore0 1 (Some [(4, tt); (2, tt)])) (OPop Z 1 [2;4]) = (gupd (gupd gstore0 1 (Some [(4, tt); (2, tt)])) 1 (Some [(4, tt)]), GElem 2).
Proof. split; [intros [|[|i]]; reflexivity | reflexivity]. Qed.

(* One step, for every iteration order (accepted or not) and every verdict: the generated step is
   the model's step with the addresses dropped ([oshape]; contents variable by variable), in every
   state whose key lists are duplicate-free and whose variables hold different map objects. *)
Theorem C18_step_is_source : forall (T : Type) (eqb : T -> T -> bool) (zero : T),
  (forall x y, eqb x y = true <-> x = y) ->
  forall (g : gstore) (st : store T) (next : positive) (o : op T),
  sim g st -> (forall i, MapsetTieBase.wf (st i)) ->
  (forall i j, i <> j -> same_map T (st i) (st j) = false) ->
  src_op eqb o = true ->
  sim (fst (gstep eqb zero g o)) (fst (step T eqb zero st next o)) /\
  snd (gstep eqb zero g o) = oshape (snd (step T eqb zero st next o)).
Proof. exact @gstep_sim. Qed.
Print Assumptions C18_step_is_source.
Example C18_step_is_source_ex :
  snd (gstep Z.eqb 0 (gupd gstore0 1 (Some [(4, tt); (2, tt)])) (OSlice Z 1 [2;2])) = GFail PBadOrder /\
  oshape (snd (step Z Z.eqb 0 (upd Z (store0 Z) 1 (Some (1%positive, [4;2]))) next0 (OSlice Z 1 [2;2]))) = GFail PBadOrder.
Proof. split; reflexivity. Qed.
