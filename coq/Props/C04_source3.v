(* C04 at the level of the GENERATED code: the no-failure conjunct of C04_history_source and of
   C04_history_source_new, stated explicitly (audit round 9).  [orun] records a failing generated
   call as GoPanic k / GoFuel and keeps the state; the theorems say that no element of the run is one
   of those, under the hypothesis of C04_history_source (the comparator laws).  Only statements, each
   closed by [exact] of a lemma of GenTie/OmapSourceSafe.v (proved from the per-function ties, not
   read off the equation with the reference). *)
From Coq Require Import ZArith List Lia.
Import ListNotations.
From Mds Require Import Common.FnRt GenTie.StreeTieBase GenTie.StreeSource GenTie.StreeTieNew GenTie.StreeSourceNew
  GenTie.OmapTieBase GenTie.OmapSource GenTie.OmapTieNew GenTie.OmapSourceSafe.
From Mds Require Import Stree.StreeSpec.
From Mds Require Gen.FnOmapNew Gen.OmapConst Omap.OmapSpec Stree.HeightModel.
Local Open Scope Z_scope.

Theorem C04_history_source_no_failure : forall (K V : Type) (kcmp : K -> K -> Z), total_preorder kcmp ->
  forall (limit : Z -> Z -> Z) (zk : K) (zv : V) (h0 : list (G.node (K * V))) (ops : list (gop K V)),
  Forall (fun x => (forall k, x <> GoPanic k) /\ x <> GoFuel)
         (orun kcmp limit zk zv OmapConst.omap_beta (ginit h0) ops).
Proof. exact @omap_history_source_no_failure. Qed.
Print Assumptions C04_history_source_no_failure.

(* the same from the generated constructor: β and the limit closure read off the object NewFunc returns *)
Theorem C04_history_source_new_no_failure : forall (K V : Type) (limitFunc : Z -> Z -> Z)
  (srt : list (option nat) -> (unit -> option nat -> option nat -> res (Z * unit)) -> res (list (option nat)))
  (cpt : list (option nat) -> (unit -> option nat -> option nat -> res (bool * unit)) -> res (list (option nat)))
  (h0 : list (G.node (K * V))) (kcmp : K -> K -> Z), total_preorder kcmp ->
  forall (zk : K) (zv : V) (ops : list (gop K V)),
  exists (tr : G.Tree (K * V)) (h : list (G.node (K * V))),
    FnOmapNew.Map_m (newfunc_g limitFunc srt cpt h0 (Some kcmp)) = Ok (tr, h) /\
    Forall (fun x => (forall k, x <> GoPanic k) /\ x <> GoFuel)
           (orun kcmp (fun _ => G.Tree_limit tr) zk zv (G.Tree_β tr) (gst_of tr h) ops).
Proof. exact @history_source_newfunc_no_failure. Qed.
Print Assumptions C04_history_source_new_no_failure.

(* non-vacuity: a run of 9 generated calls (Set, replacement, Len, GetOK, Get of an absent key, Keys,
   Delete twice, an iterator walk) on a heap holding a foreign cell: 9 answers, none a failure *)
Example C04_history_source_no_failure_ex :
  orun Z.sub HeightModel.limit_exact 0 0 OmapConst.omap_beta (ginit [G.mk_node (9, 9) None None])
    [GSet 5 50; GSet 1 10; GSet 5 55; GLen; GGetOK 5; GGet 7; GKeys; GDelete 1;
     GIter OM.IFirst [OM.INext; OM.IPrev]] =
  [GoBool true; GoBool true; GoBool false; GoInt 2; GoGetOK 55 true; GoGet 0; GoKeys [1; 5]; GoBool true;
   GoIter [(true, 5, 55); (false, 0, 0); (false, 0, 0)]].
Proof. vm_compute. reflexivity. Qed.
