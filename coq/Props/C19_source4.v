(* C19 at source level: no run of the GENERATED distinct.go machine ends in OutOfFuel.  Only
   statements; the proofs are in GenTie/DistinctSourceSafe.v.

   [grun_obs eqb c ops] = (observations, final result); the final result is a Counter, a Panic or
   OutOfFuel (the interpreter's budget ran out).  C19_history_source equates it with [emb] of the
   model's run, and [emb] passes the model's fuel error through, so "the machine does not hang" was
   by inspection only.  Here it is a theorem: the model's step under the pinned single-pass rule
   never reports the fuel error (only the repaired loop can, and the `if` does not call it). *)
From Coq Require Import ZArith List Bool.
Import ListNotations.
From Mds Require Import Common.FnRt GenTie.DistinctTie GenTie.DistinctTieNew GenTie.DistinctSource
  GenTie.DistinctSourceSafe.
From Mds Require Distinct.DistinctModel Distinct.DistinctSpec Distinct.DistinctProofs.
Local Open Scope Z_scope.

(* from any state satisfying the model's invariant, on every in-range stream *)
Theorem C19_history_source_no_fuel :
  forall (T : Type) (eqb : T -> T -> bool), (forall x y : T, eqb x y = true <-> x = y) ->
  forall (cap : Z) (ops : list (D.op T)) (s : D.st T) (ws : list Z),
    DP.Inv T s -> words_ok ws ->
    snd (grun_obs eqb (enc cap s ws) ops) <> OutOfFuel.
Proof. exact @history_source_no_fuel. Qed.
Print Assumptions C19_history_source_no_fuel.

(* from the Counter the generated NewCounter returns *)
Theorem C19_history_source_new_no_fuel :
  forall (T : Type) (eqb : T -> T -> bool), (forall x y : T, eqb x y = true <-> x = y) ->
  forall (crand_Read : list Z -> list Z * Z * bool) (stream : list Z -> list Z) (size : Z)
         (ops : list (D.op T)),
    seed_err crand_Read = false ->
    words_ok (stream (seed_bytes crand_Read)) ->
    exists c0 : DN.Counter T (list Z),
      DN.NewCounter crand_Read stream size = Ok c0 /\
      snd (grun_obs eqb c0 ops) <> OutOfFuel.
Proof. exact @history_source_new_no_fuel. Qed.
Print Assumptions C19_history_source_new_no_fuel.

(* the model-level fact both rest on *)
Theorem C19_step_single_no_fuel :
  forall (T : Type) (eqb : T -> T -> bool) (fuel : nat) (cap : Z) (s : D.st T) (ws : list Z) (o : D.op T),
    D.step T eqb D.cvm_single_halving_pass fuel cap s ws o <> D.RErr D.OutOfFuel.
Proof. exact @step_single_no_fuel. Qed.
Print Assumptions C19_step_single_no_fuel.

(* Non-vacuity: the three kinds of ending other than OutOfFuel all occur (a Counter, the order
   check's panic, the exhausted stream), and the hypothesis on the switch matters: the model's step
   under the REPAIRED rule with fuel 0 does report the fuel error. *)
Example C19_history_source_no_fuel_ex :
  let c0 := DN.mk_Counter (Some []) 2 18446744073709551615 [D.maxu; 0; 5] in
  (exists c, snd (grun_obs Z.eqb c0 [D.OAdd 1 None; D.OAdd 2 None; D.OReset]) = Ok c) /\
  snd (grun_obs Z.eqb c0 [D.OAdd 1 None; D.OAdd 2 (Some [7])]) = Panic PBadOrder /\
  snd (grun_obs Z.eqb c0 [D.OAdd 1 None; D.OAdd 2 None; D.OAdd 3 None; D.OAdd 4 None]) = Panic PNoWords /\
  D.step Z Z.eqb false 0 1 (D.init Z) [] (D.OAdd 1 None) = D.RErr D.OutOfFuel.
Proof. vm_compute. repeat split; try reflexivity. eexists; reflexivity. Qed.
