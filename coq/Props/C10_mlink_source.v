(* C10 (stack and mlink parts) at source level -- statements of Props/C10_mlink.v re-stated for
   state machines whose operations call the FUNCTIONS GENERATED from the Go source (Gen/FnStack.v
   from stack/stack.go; regenerated on every run).  Only statements; proofs in GenTie/*Source.v. *)
From Coq Require Import ZArith List Bool.
Import ListNotations.
Set Warnings "-notation-overridden".
From Mds Require Import Common.FnRt.
From Mds Require Import Stack.StackModel GenTie.StackSource.

(* ---- stack.Stack ----
   [gsstep zero l o] (GenTie/StackSource.v): state = the field s.list, the model's op/out types;
   SPush SAdd SIsEmpty SClear STop SPeek SPop SEach SLen call the generated function of that name
   (Each with fuel len + 1 and the op's pure callback); a panic of a generated function is the
   output TPanic with the state unchanged (the model's convention for a recovered panic), fuel
   exhaustion would be THang.  [eshape] replaces TList by TUnit: the generated Each returns
   nothing, the values it handed to the callback are not visible in it.
   COVERED: the nine methods Push, Add, IsEmpty, Clear, Top, Peek, Pop, Each, Len, from the zero
   value (the empty list).  NOT COVERED: Slice and New (not translated), the sequence Each visits
   (C10_stack_lifo + correspondence), Go's int width (C10_stack_peek_int64 is model-level). *)

(* For every history of Push/Add/IsEmpty/Clear/Top/Peek/Pop/Each/Len the generated functions return
   exactly the outputs of the LIFO reference (newest first; Each's list forgotten): same values,
   same ok flags, the only panic is Peek of a negative offset, Each's loop ends within len + 1. *)
Theorem C10_stack_lifo_source : forall (T : Type) (zero : T) (ops : list (sop T)),
  forallb src_sop ops = true ->
  gsrun zero [] ops = map eshape (sarun T zero [] ops).
Proof. exact @stack_lifo_source. Qed.
Print Assumptions C10_stack_lifo_source.

Example C10_stack_lifo_source_ex :
  gsrun 0%Z [] [SPush Z 1%Z; SAdd Z 2%Z; SPeek Z 1%Z; STop Z; SPop Z; SEach Z (fun _ => true); SPeek Z (-1)%Z; SLen Z; SPop Z; SPop Z; SIsEmpty Z]
  = [TUnit Z; TUnit Z; TValBool Z 1%Z true; TVal Z 2%Z; TValBool Z 2%Z true; TUnit Z; TPanic Z; TInt Z 1%Z;
     TValBool Z 1%Z true; TValBool Z 0%Z false; TBool Z true] /\
  FnStack.Each [1%Z; 2%Z; 3%Z] (fun x => negb (Z.eqb x 2)) 4 = Ok tt /\
  FnStack.Each [1%Z; 2%Z; 3%Z] (fun _ => true) 3 = OutOfFuel.
Proof. repeat split; vm_compute; reflexivity. Qed.

(* One step, for EVERY list: the generated step is the model's step (state and output up to
   eshape) -- the nine ties assembled. *)
Theorem C10_stack_step_is_source : forall (T : Type) (zero : T) (l : list T) (o : sop T),
  src_sop o = true ->
  gsstep zero l o = (fst (sstep T zero l o), eshape (snd (sstep T zero l o))).
Proof. exact @gsstep_is_sstep. Qed.
Print Assumptions C10_stack_step_is_source.
Example C10_stack_step_is_source_ex :
  gsstep 0%Z [4%Z; 5%Z] (SPop Z) = ([4%Z], TValBool Z 5%Z true) /\ gsstep 0%Z [4%Z; 5%Z] (SSlice Z) = ([4%Z; 5%Z], TPanic Z).
Proof. split; vm_compute; reflexivity. Qed.
