(* C10 (stack and mlink parts) at source level -- statements of Props/C10_mlink.v re-stated for
   state machines whose operations call the FUNCTIONS GENERATED from the Go source (Gen/FnStack.v
   from stack/stack.go; regenerated on every run).  Only statements; proofs in GenTie/*Source.v. *)
From Coq Require Import ZArith List Bool.
Import ListNotations.
Set Warnings "-notation-overridden".
From Mds Require Import Common.FnRt.
From Mds Require Import Stack.StackModel GenTie.StackSource.

(* ---- stack.Stack ----
   [gsstep zero l o] (GenTie/StackSource.v): state = the field s.list, the model's op/out types;
   SPush SAdd SIsEmpty SClear STop SPeek SPop SEach SLen call the generated function of that name
   (Each with fuel len + 1 and the op's pure callback); a panic of a generated function is the
   output TPanic with the state unchanged (the model's convention for a recovered panic), fuel
   exhaustion would be THang.  [eshape] replaces TList by TUnit: the generated Each returns
   nothing, the values it handed to the callback are not visible in it.
   COVERED: the nine methods Push, Add, IsEmpty, Clear, Top, Peek, Pop, Each, Len, from the zero
   value (the empty list).  NOT COVERED: Slice and New (not translated), the sequence Each visits
   (C10_stack_lifo + correspondence), Go's int width (C10_stack_peek_int64 is model-level). *)

(* For every history of Push/Add/IsEmpty/Clear/Top/Peek/Pop/Each/Len the generated functions return
   exactly the outputs of the LIFO reference (newest first; Each's list forgotten): same values,
   same ok flags, the only panic is Peek of a negative offset, Each's loop ends within len + 1. *)
Theorem C10_stack_lifo_source : forall (T : Type) (zero : T) (ops : list (sop T)),
  forallb src_sop ops = true ->
  gsrun zero [] ops = map eshape (sarun T zero [] ops).
Proof. exact @stack_lifo_source. Qed.
Print Assumptions C10_stack_lifo_source.

Example C10_stack_lifo_source_ex :
  gsrun 0%Z [] [SPush Z 1%Z; SAdd Z 2%Z; SPeek Z 1%Z; STop Z; SPop Z; SEach Z (fun _ => true); SPeek Z (-1)%Z; SLen Z; SPop Z; SPop Z; SIsEmpty Z]
  = [TUnit Z; TUnit Z; TValBool Z 1%Z true; TVal Z 2%Z; TValBool Z 2%Z true; TUnit Z; TPanic Z; TInt Z 1%Z;
     TValBool Z 1%Z true; TValBool Z 0%Z false; TBool Z true] /\
  FnStack.Each [1%Z; 2%Z; 3%Z] (fun x => negb (Z.eqb x 2)) 4 = Ok tt /\
  FnStack.Each [1%Z; 2%Z; 3%Z] (fun _ => true) 3 = OutOfFuel.
Proof. repeat split; vm_compute; reflexivity. Qed.

(* One step, for EVERY list: the generated step is the model's step (state and output up to
   eshape) -- the nine ties assembled. *)
Theorem C10_stack_step_is_source : forall (T : Type) (zero : T) (l : list T) (o : sop T),
  src_sop o = true ->
  gsstep zero l o = (fst (sstep T zero l o), eshape (snd (sstep T zero l o))).
Proof. exact @gsstep_is_sstep. Qed.
Print Assumptions C10_stack_step_is_source.
Example C10_stack_step_is_source_ex :
  gsstep 0%Z [4%Z; 5%Z] (SPop Z) = ([4%Z], TValBool Z 5%Z true) /\ gsstep 0%Z [4%Z; 5%Z] (SSlice Z) = ([4%Z; 5%Z], TPanic Z).
Proof. split; vm_compute; reflexivity. Qed.

(* ---- mlink.List through any number of cursors ----
   [MlinkListSource.gstep zero g o] (GenTie/MlinkListSource.v): state g = (the generated heap of
   entry cells, the Cursor values in the caller's hands: each its pred field, option nat); the list
   is the one whose sentinel sits at address 0, which is what the GENERATED NewList returns on the
   empty heap ([ginit]).  Every op of the model's histories calls the generated function: List_At /
   Last / End / Find hand out a new Cursor; Cursor_Get / Set / AtEnd / Next / Push / Add / Remove /
   Truncate work on the k-th cursor's pred field (Next and Add hand back the new pred, the writers
   the new heap); List_Clear / Peek / Len / IsEmpty; List_Each with the state-threading callback
   (f v, visited ++ [v]); struct copy / assignment / the zero Cursor are no calls.  Fuel: heap size + 2
   (Add: + the number of values).  A panic with the message of a panic statement ("invalid cursor",
   "index out of range") or Go's nil dereference is the output RPanic kind; after a failed call the
   state is the one before the call.
   COVERED: all twenty operations of the model's histories.  NOT COVERED: the heap at the moment of a
   panic (not returned by the generated functions); Go's int width (C10_at_counter_in_range is
   model-level); the pre-repair Truncate (C10_F7_*: about the model's pinned variant). *)
From Mds Require Import Mlink.MlinkModel Mlink.MlinkSpec.
From Mds Require Mlink.MlinkProofs GenTie.MlinkTieBase.
From Mds Require GenTie.MlinkQueueSource GenTie.MlinkListSource.
Module LS := MlinkListSource.
Module QS := MlinkQueueSource.

(* Refinement over whole histories: every output (values, flags, Each sequences, Len, panics) of
   the GENERATED functions equals the output of the abstract semantics, in which contents are a list
   and a cursor is At i, Stale or NoPred, edited by the documented before/after pictures.  No
   hypothesis, as C10_list_refinement. *)
Theorem C10_list_refinement_source : forall (T : Type) (zero : T) (ops : list (op T)),
  LS.grun zero (LS.ginit zero) ops = arun T zero (ainit T) ops.
Proof. exact @LS.list_refinement_source. Qed.
Print Assumptions C10_list_refinement_source.

(* the two histories of C10_list_refinement_ex / _copies_ex through the generated functions *)
Example C10_list_refinement_source_ex :
  LS.grun 0%Z (LS.ginit 0%Z)
    [OEnd; OAdd 0 [1;2;3]%Z; OAt 1; OAt 2; ORemove 1; OGet 1; OGet 2; OTruncate 1; OEnd; OAdd 3 [7]%Z; OEach (fun _ => true); OLen;
     OAt (-1)%Z; OPeek 1%Z; OFind (fun x => Z.eqb x 7); OGet 4; OClear; OGet 4; OIsEmpty]
  = [RUnit; RUnit; RUnit; RUnit; RVal 2%Z; RVal 3%Z; RPanic InvalidCursor; RUnit; RUnit; RUnit; RList [1;7]%Z; RInt 2%Z;
     RPanic IndexRange; RValBool 7%Z true; RUnit; RVal 7%Z; RUnit; RPanic InvalidCursor; RBool true] /\
  LS.grun 0%Z (LS.ginit 0%Z)
    [OAt 0; OAdd 0 [1;2;3]%Z; OAt 0; OCopy 1; ONext 1; OGet 1; OGet 2; ORemove 2; OCopy 1; OGet 1; OGet 3;
     OAssign 1 2; OGet 1; ONilCursor; OGet 4; OAdd 4 []; OAdd 4 [5]%Z; OCopy 4; OAtEnd 5; OEach (fun _ => true)]
  = [RUnit; RUnit; RUnit; RUnit; RBool true; RVal 2%Z; RVal 1%Z; RVal 1%Z; RUnit; RPanic InvalidCursor; RPanic InvalidCursor;
     RUnit; RVal 2%Z; RUnit; RPanic NilDeref; RUnit; RPanic NilDeref; RUnit; RPanic NilDeref; RList [2;3]%Z].
Proof. split; vm_compute; reflexivity. Qed.

(* Invariant of every state the generated functions reach: it is (the encoding of) a model state
   tied to the reference state by R (a duplicate-free chain from the sentinel to nil, every other
   cell self-linked, the values along the chain are the reference list, every cursor's pred is the
   chain cell its reference position says, or a self-linked cell when Stale). *)
Theorem C10_list_invariant_source : forall (T : Type) (zero : T) (ops : list (op T)),
  exists m', LS.grun_state zero (LS.ginit zero) ops = LS.menc m' /\
             MlinkProofs.R T zero m' (arun_state T zero (ainit T) ops).
Proof. exact @LS.list_invariant_source. Qed.
Print Assumptions C10_list_invariant_source.
Example C10_list_invariant_source_ex :
  LS.grun_state 0%Z (LS.ginit 0%Z) [OEnd; OAdd 0 [1;2;3]%Z; OAt 1; ORemove 1]
  = ([FnMlink.mk_entry 0%Z (Some 1); FnMlink.mk_entry 1%Z (Some 3); FnMlink.mk_entry 2%Z (Some 2); FnMlink.mk_entry 3%Z None],
     [Some 3; Some 1]).
Proof. vm_compute. reflexivity. Qed.

(* No generated call of any history hangs or touches a dangling address. *)
Theorem C10_list_never_hangs_source : forall (T : Type) (zero : T) (ops : list (op T)),
  ~ In RHang (LS.grun zero (LS.ginit zero) ops) /\ ~ In RBad (LS.grun zero (LS.ginit zero) ops).
Proof. exact LS.list_never_hangs_source. Qed.
Print Assumptions C10_list_never_hangs_source.

(* On every history the generated functions answer exactly as the model does. *)
Theorem C10_list_run_is_source : forall (T : Type) (zero : T) (ops : list (op T)),
  LS.grun zero (LS.ginit zero) ops = run T zero (init T zero) ops.
Proof. exact LS.list_run_is_source. Qed.
Print Assumptions C10_list_run_is_source.

(* One step against the MODEL's step, for EVERY state (well-formed or not): the same output; the
   model's new state after a call that succeeded, the state before the call after one that failed
   -- provided the model's own loop budget did not run out. *)
Theorem C10_list_step_is_source : forall (T : Type) (zero : T) (m : mstate T) (o : op T),
  snd (step T zero m o) <> RHang ->
  snd (LS.gstep zero (LS.menc m) o) = snd (step T zero m o) /\
  fst (LS.gstep zero (LS.menc m) o) = LS.menc (if LS.failed (snd (step T zero m o)) then m else fst (step T zero m o)).
Proof. exact @LS.gstep_agrees. Qed.
Print Assumptions C10_list_step_is_source.
Example C10_list_step_is_source_ex :
  (* a self-linked (stale) pred: every use is refused *)
  let m : mstate Z := ([(0, Ptr 2); (1, Ptr 1); (2, Nil)]%Z, [Ptr 1]) in
  LS.gstep 0%Z (LS.menc m) (OPush 0 5%Z) = (LS.menc m, RPanic InvalidCursor) /\
  LS.gstep 0%Z (LS.menc m) (OCopy 0) = (LS.menc (fst m, [Ptr 1; Ptr 1]), RUnit).
Proof. split; vm_compute; reflexivity. Qed.

(* ---- mlink.Queue ----
   [MlinkQueueSource.gqstep zero g o]: state g = (q.back, q.size, heap); Queue_Add / Pop / Clear return
   the fields they assign and the new heap, Queue_Front / Peek / IsEmpty / Len read, Queue_Each runs
   the state-threading callback (f v, visited ++ [v]); fuel heap size + 2.  [gq_new] = what the
   GENERATED NewQueue returns on the empty heap; [gq_zero] = the zero Queue (back.pred = nil) with its
   embedded sentinel at address 0.  COVERED: all eight operations and both ways to make a queue. *)

(* For every history of Add/Pop/Front/Peek/Each/Clear/Len/IsEmpty, from NewQueue() and from a zero
   Queue, the outputs of the GENERATED functions are those of the FIFO reference -- including Add
   after the queue was emptied by Pop or Clear. *)
Theorem C10_queue_fifo_source : forall (T : Type) (zero : T) (ops : list (qop T)),
  QS.gqrun zero (QS.gq_new zero) ops = aqrun T zero [] ops /\
  QS.gqrun zero (QS.gq_zero zero) ops = aqrun T zero [] ops.
Proof. exact @QS.queue_fifo_source. Qed.
Print Assumptions C10_queue_fifo_source.
Example C10_queue_fifo_source_ex :
  QS.gqrun 0%Z (QS.gq_zero 0%Z) [QAdd 1%Z; QPop; QAdd 2%Z; QAdd 3%Z; QPop; QPop; QPop; QAdd 4%Z; QFront; QLen;
                                 QPeek (-1)%Z; QAdd 5%Z; QEach (fun _ => true); QClear; QIsEmpty; QAdd 6%Z; QPeek 0%Z]
  = [RUnit; RValBool 1%Z true; RUnit; RUnit; RValBool 2%Z true; RValBool 3%Z true; RValBool 0%Z false; RUnit; RVal 4%Z; RInt 1%Z;
     RPanic IndexRange; RUnit; RList [4;5]%Z; RUnit; RBool true; RUnit; RValBool 6%Z true] /\
  QS.gq_new 0%Z = (FnMlink.mk_Cursor (Some 0), 0%Z, [FnMlink.mk_entry 0%Z None]).
Proof. split; vm_compute; reflexivity. Qed.

(* On every history the generated queue functions answer exactly as the model does. *)
Theorem C10_queue_run_is_source : forall (T : Type) (zero : T) (ops : list (qop T)),
  QS.gqrun zero (QS.gq_new zero) ops = qrun T zero (new_queue T zero) ops /\
  QS.gqrun zero (QS.gq_zero zero) ops = qrun T zero (zero_queue T zero) ops.
Proof. exact QS.queue_run_is_source. Qed.
Print Assumptions C10_queue_run_is_source.
