(* C10 (stack part) at source level, second round: Props/C10_mlink_source.v extended by the
   functions tied in round 6 (GenTie/StackTieRest.v): Stack.Slice as an operation, New as the
   GENERATED start state.  Only statements; proofs in GenTie/StackSource2.v.

   [gsstep2 zero l o]  = [gsstep] of Props/C10_mlink_source.v, except SSlice = the generated Slice
                         with fuel len + 1, output TList of the slice it returns;
   [eshape2 o r]       = r, except that for SEach the TList (the values Each handed to its callback:
                         the generated Each takes a PURE callback and returns nothing) becomes TUnit;
                         Slice's list IS compared;
   [FnStack.New]       = the list the generated constructor New() returns.
   COVERED: New and all ten methods Push, Add, IsEmpty, Clear, Top, Peek, Pop, Each, Len, Slice.
   NOT COVERED: the sequence Each visits (C10_stack_lifo + correspondence), nil-ness of Slice's
   result, Go's int width (C10_stack_peek_int64 is model-level). *)
From Coq Require Import ZArith List Bool.
Import ListNotations.
Set Warnings "-notation-overridden".
From Mds Require Import Common.FnRt.
From Mds Require Import Stack.StackModel GenTie.StackSource GenTie.StackSource2.

(* For EVERY history of the ten methods from the generated New(): the generated functions return
   exactly the outputs of the LIFO reference (newest first; Slice = the whole stack newest first;
   Each's list forgotten): same values, same ok flags, the only panic is Peek of a negative offset,
   the loops of Each and Slice end within len + 1. *)
Theorem C10_stack_lifo_source_full : forall (T : Type) (zero : T) (ops : list (sop T)),
  gsrun2 zero FnStack.New ops = eshapes2 ops (sarun T zero [] ops).
Proof. exact @stack_lifo_source_full. Qed.
Print Assumptions C10_stack_lifo_source_full.

Example C10_stack_lifo_source_full_ex :
  gsrun2 0%Z FnStack.New [SSlice Z; SPush Z 1%Z; SAdd Z 2%Z; SPush Z 3%Z; SSlice Z; SPop Z; SEach Z (fun _ => true);
                          SSlice Z; SPeek Z (-1)%Z; SClear Z; SSlice Z; SLen Z]
  = [TList Z []; TUnit Z; TUnit Z; TUnit Z; TList Z [3%Z; 2%Z; 1%Z]; TValBool Z 3%Z true; TUnit Z;
     TList Z [2%Z; 1%Z]; TPanic Z; TUnit Z; TList Z []; TInt Z 0%Z].
Proof. vm_compute. reflexivity. Qed.

(* One step, for EVERY list and EVERY op: the generated step is the model's step (state and
   output up to eshape2) -- the ten ties assembled. *)
Theorem C10_stack_step_is_source_full : forall (T : Type) (zero : T) (l : list T) (o : sop T),
  gsstep2 zero l o = (fst (sstep T zero l o), eshape2 o (snd (sstep T zero l o))).
Proof. exact @gsstep2_is_sstep. Qed.
Print Assumptions C10_stack_step_is_source_full.
Example C10_stack_step_is_source_full_ex :
  gsstep2 0%Z [4%Z; 5%Z] (SSlice Z) = ([4%Z; 5%Z], TList Z [5%Z; 4%Z]) /\
  FnStack.Slice [4%Z; 5%Z] 0%Z 2 = OutOfFuel.
Proof. split; vm_compute; reflexivity. Qed.
