(* C19 — distinct.Counter is exact below capacity, bounded, and unbiased above it.
   Only statements, each closed by [exact] of a lemma proved in Distinct/DistinctProofs*.v.

   Reading guide.  [run T eqb single fuel cap (init T) ws ops = ROk s ws'] says: the model of
   NewCounter(cap) followed by the operations [ops] (Add v / Reset), with the random source
   returning the 64-bit words [ws] in order, completes in state [s] (it does not complete when the
   word script runs out, a word is out of range, a map-order oracle is invalid, or — repaired
   variant only — the halving loop exhausts [fuel]).  [single] is the F8 switch: true = the pinned
   code (one halving pass per Add), false = the repaired loop.  [k s] is the number of halving
   passes since construction/Reset (a ghost field), [p s] the threshold the code keeps.
   Elements are abstract: any type with a decidable equality. *)
From Coq Require Import ZArith List Bool QArith.
Import ListNotations.
From Coq Require Import Permutation.
From Mds Require Import Gen.DistinctConst Distinct.DistinctModel Distinct.DistinctSpec Distinct.DistinctProofs Distinct.DistinctProofsExp Distinct.DistinctProofsReal.
Local Open Scope Z_scope.

(* While fewer distinct values than the size have been added since construction or the last Reset
   (however often each was repeated, whatever happened before that Reset), no halving has happened
   and Count is exactly the number of distinct values; the buffer is exactly the set of values seen.
   Both variants, every word script.  (cap <= 2^64: Go's int has at most 63 bits.) *)
Theorem C19_exact :
  forall (T : Type) (eqb : T -> T -> bool), (forall x y, reflect (x = y) (eqb x y)) ->
  forall (single : bool) (fuel : nat) (cap : Z) (ws : list Z) (ops : list (op T)) (s : st T) (ws' : list Z),
    cap <= two64 ->
    run T eqb single fuel cap (init T) ws ops = ROk s ws' ->
    Z.of_nat (distinct T eqb ops) < cap ->
    count T s = Z.of_nat (distinct T eqb ops) /\ len T s = Z.of_nat (distinct T eqb ops) /\
    buf s = seen T eqb ops /\ k s = O /\ p s = maxu.
Proof. exact exact. Qed.
Print Assumptions C19_exact.

Example C19_exact_ex :
  exists s ws', run Z Z.eqb true 10 4 (init Z) [] [OAdd 7 None; OAdd 7 None; OAdd 5 None; OAdd 7 None; OAdd 9 None; OAdd 5 None] = ROk s ws'
                /\ Z.of_nat (distinct Z Z.eqb [OAdd 7 None; OAdd 7 None; OAdd 5 None; OAdd 7 None; OAdd 9 None; OAdd 5 None]) < 4 /\ count Z s = 3.
Proof. eexists. eexists. split; [vm_compute; reflexivity|]. split; vm_compute; reflexivity. Qed.

(* At all times the threshold is MaxUint64 >> k and Count = Len * 2^k modulo 2^64, k the number of
   halving passes since Reset — for EVERY k (beyond 64 both sides are 0), both variants. *)
Theorem C19_count_shape :
  forall (T : Type) (eqb : T -> T -> bool), (forall x y, reflect (x = y) (eqb x y)) ->
  forall (single : bool) (fuel : nat) (cap : Z) (ws : list Z) (ops : list (op T)) (s : st T) (ws' : list Z),
    run T eqb single fuel cap (init T) ws ops = ROk s ws' ->
    p s = Z.shiftr maxu (Z.of_nat (k s)) /\
    count T s = (len T s * 2 ^ Z.of_nat (k s)) mod two64 /\
    NoDup (buf s).
Proof. exact count_shape. Qed.
Print Assumptions C19_count_shape.

Example C19_count_shape_ex :
  exists s ws', run Z Z.eqb true 10 2 (init Z) [maxu; 0; 5] [OAdd 1 None; OAdd 2 None; OAdd 3 None] = ROk s ws'
                /\ k s = 2%nat /\ count Z s = 8 /\ len Z s = 2.
Proof. eexists. eexists. split; [vm_compute; reflexivity|]. repeat split. Qed.

(* The power of two never decreases across an Add (and grows by at most one factor 2 per Add in
   the pinned variant; if it stays, the threshold stays); Reset restores the initial state, from
   which C19_exact applies again. *)
Theorem C19_power_monotone :
  forall (T : Type) (eqb : T -> T -> bool), (forall x y, reflect (x = y) (eqb x y)) ->
  forall (single : bool) (fuel : nat) (cap : Z) (ws : list Z) (ops : list (op T)) (v : T) (o : option (list T))
         (s : st T) (ws1 : list Z) (s' : st T) (ws2 : list Z),
    run T eqb single fuel cap (init T) ws ops = ROk s ws1 ->
    step T eqb single fuel cap s ws1 (OAdd v o) = ROk s' ws2 ->
    (k s <= k s')%nat /\ (single = true -> (k s' <= S (k s))%nat) /\ (k s' = k s -> p s' = p s).
Proof. exact k_monotone. Qed.
Print Assumptions C19_power_monotone.

Theorem C19_reset :
  forall (T : Type) (eqb : T -> T -> bool) (single : bool) (fuel : nat) (cap : Z) (s : st T) (ws : list Z),
    step T eqb single fuel cap s ws OReset = ROk (init T) ws.
Proof. exact reset_restores. Qed.
Print Assumptions C19_reset.

(* Pinned variant: k never exceeds 64 (at k = 64 the threshold is 0, every coin fails, nothing is
   inserted any more), so C19_real_coin_gap below covers every threshold the code can reach. *)
Theorem C19_k_bound :
  forall (T : Type) (eqb : T -> T -> bool), (forall x y, reflect (x = y) (eqb x y)) ->
  forall (fuel : nat) (cap : Z) (ws : list Z) (ops : list (op T)) (s : st T) (ws' : list Z),
    run T eqb true fuel cap (init T) ws ops = ROk s ws' -> (k s <= 64)%nat.
Proof. exact k_bound. Qed.
Print Assumptions C19_k_bound.

(* The reference count of C19_exact / C19_unbiased is the usual one: on a stream of Adds it is the
   length of the standard library's [nodup] of the stream. *)
Theorem C19_distinct_is_nodup :
  forall (T : Type) (eqb : T -> T -> bool), (forall x y, reflect (x = y) (eqb x y)) ->
  forall (dec : forall x y : T, {x = y} + {x <> y}) (vs : list T),
    distinct T eqb (adds T vs) = length (nodup dec vs).
Proof. exact distinct_adds_nodup. Qed.
Print Assumptions C19_distinct_is_nodup.

(* Buffer bound, repaired variant (halving statement is a loop): Len < size after every run that
   completes (i.e. does not exhaust its fuel or its words). *)
Theorem C19_len_loop :
  forall (T : Type) (eqb : T -> T -> bool), (forall x y, reflect (x = y) (eqb x y)) ->
  forall (fuel : nat) (cap : Z) (ws : list Z) (ops : list (op T)) (s : st T) (ws' : list Z),
    1 <= cap -> run T eqb false fuel cap (init T) ws ops = ROk s ws' -> len T s < cap.
Proof. exact len_loop. Qed.
Print Assumptions C19_len_loop.

Example C19_len_loop_ex :
  exists s ws', run Z Z.eqb false 10 2 (init Z) [maxu; 5; 0; 0] [OAdd 1 None; OAdd 2 None; OAdd 3 None] = ROk s ws' /\ len Z s < 2.
Proof. eexists. eexists. split; [vm_compute; reflexivity|]. vm_compute. reflexivity. Qed.

(* FULL STATEMENT of the property text ("at all times Len never exceeds the buffer size") for the
   pinned variant:  forall ... , run T eqb true fuel cap (init T) ws ops = ROk s ws' -> len T s <= cap.
   It is FALSE of the code as it stands (known finding F8): C19_len_refuted.  What holds:
   C19_len_partial — Len < size as long as every halving pass so far dropped at least one element
   (an event of probability 2^-size per pass breaks it) — and, unconditionally, one Add lets Len
   grow by at most one (C19_len_step). *)
Theorem C19_len_partial :
  forall (T : Type) (eqb : T -> T -> bool), (forall x y, reflect (x = y) (eqb x y)) ->
  forall (fuel : nat) (cap : Z) (ws : list Z) (ops : list (op T)) (s : st T) (ws' : list Z),
    1 <= cap -> run T eqb true fuel cap (init T) ws ops = ROk s ws' ->
    (forall ops1 v o ops2 s1 ws1 s2 ws2,
       ops = ops1 ++ OAdd v o :: ops2 ->
       run T eqb true fuel cap (init T) ws ops1 = ROk s1 ws1 ->
       step T eqb true fuel cap s1 ws1 (OAdd v o) = ROk s2 ws2 ->
       (k s1 < k s2)%nat ->
       (length (buf s2) < length (insert T eqb v (buf s1)))%nat) ->
    len T s < cap.
Proof. exact len_partial. Qed.
Print Assumptions C19_len_partial.

Theorem C19_len_step :
  forall (T : Type) (eqb : T -> T -> bool), (forall x y, reflect (x = y) (eqb x y)) ->
  forall (single : bool) (fuel : nat) (cap : Z) (ws : list Z) (ops : list (op T)) (v : T) (o : option (list T))
         (s : st T) (ws1 : list Z) (s' : st T) (ws2 : list Z),
    run T eqb single fuel cap (init T) ws ops = ROk s ws1 ->
    step T eqb single fuel cap s ws1 (OAdd v o) = ROk s' ws2 ->
    len T s' <= len T s + 1.
Proof. exact len_step. Qed.
Print Assumptions C19_len_step.

(* F8 witness: size 2, words [MaxUint64; 0; MaxUint64], Add 1, Add 2, Add 3: Len = 3 > 2. *)
Theorem C19_len_refuted :
  exists (ws : list Z) (ops : list (op Z)) (s : st Z) (ws' : list Z),
    run Z Z.eqb true 10 2 (init Z) ws ops = ROk s ws' /\ len Z s = 3 /\ 2 < len Z s.
Proof. exact len_refuted. Qed.
Print Assumptions C19_len_refuted.

(* ---- probabilistic part: the SAME program [add], run in the expectation monad (A -> Q) -> Q with
   ideal coins: the coin against the threshold passes with probability exactly 2^-k, every refill
   is 64 independent fair bits (consumed by the very shift/test/refill statements of the code), and
   the map order is ANY function [ord] of the buffer that enumerates it (a permutation).
   [Erun T eqb ord true fuel cap (init T) ops f] is the expectation of f over the outcome of the
   history ops (Add v / Reset) of the pinned single-pass code; [st_of] is the final state;
   [estimate s] = Len * 2^k as a rational (Count without the 64-bit wrap, which C19_count_shape
   accounts for). *)

(* For every element a, every size (cap is arbitrary, even <= 1), every history:
   E[ [a in buf] * 2^k ] = 1 once a has been added since the last Reset, 0 before. *)
Theorem C19_unbiased_elem :
  forall (T : Type) (eqb : T -> T -> bool), (forall x y, reflect (x = y) (eqb x y)) ->
  forall (ord : list T -> list T), (forall l, Permutation (ord l) l) ->
  forall (a : T) (fuel : nat) (cap : Z) (ops : list (op T)),
    (Erun T eqb ord true fuel cap (init T) ops (fun o => phi T eqb a (st_of T o)) ==
     (if memb T eqb a (seen T eqb ops) then 1 else 0))%Q.
Proof. exact unbiased_elem. Qed.
Print Assumptions C19_unbiased_elem.

(* Hence E[Len * 2^k] = the number of distinct values added since construction / the last Reset,
   exactly, also while the buffer stays full (F8 does not bias the estimate). *)
Theorem C19_unbiased :
  forall (T : Type) (eqb : T -> T -> bool), (forall x y, reflect (x = y) (eqb x y)) ->
  forall (ord : list T -> list T), (forall l, Permutation (ord l) l) ->
  forall (fuel : nat) (cap : Z) (ops : list (op T)),
    (Erun T eqb ord true fuel cap (init T) ops (fun o => estimate T (st_of T o)) ==
     inject_Z (Z.of_nat (distinct T eqb ops)))%Q.
Proof. exact unbiased. Qed.
Print Assumptions C19_unbiased.

(* the hypotheses are satisfiable: Z.eqb reflects equality and the identity order is a permutation;
   an instance at size 2.  (The statement itself was cross-checked before it was proved by exact
   rational enumeration of the whole outcome tree: design-spikes/cvm_exact_expectation.py.txt.) *)
Example C19_unbiased_ex :
  (Erun Z Z.eqb (fun l => l) true 0 2 (init Z) [OAdd 1%Z None; OAdd 2%Z None] (fun o => estimate Z (st_of Z o)) == 2)%Q
  /\ (forall l : list Z, Permutation ((fun l => l) l) l)
  /\ distinct Z Z.eqb [OAdd 1%Z None; OAdd 2%Z None; OAdd 1%Z None; OAdd 3%Z None] = 3%nat.
Proof.
  split; [|split; [intros; apply Permutation_refl|reflexivity]].
  rewrite (C19_unbiased Z Z.eqb Z.eqb_spec (fun l => l) (fun l => Permutation_refl l)). reflexivity.
Qed.

(* The real coin: after j halvings (1 <= j <= 64) the threshold is 2^(64-j) - 1 and Add goes on
   exactly when the word drawn is below it: probability 2^-j - 2^-64 on a uniform word, against
   the ideal 2^-j used above; with no halving yet the coin always passes (exact). *)
Theorem C19_real_coin_gap :
  forall j : nat, (1 <= j <= 64)%nat ->
    (Z.shiftr maxu (Z.of_nat j) < maxu)%Z /\
    (forall w : Z, coin_fail (Z.shiftr maxu (Z.of_nat j)) maxu w = false <-> (w < Z.shiftr maxu (Z.of_nat j))%Z) /\
    (Z.shiftr maxu (Z.of_nat j) + 1 = 2 ^ (64 - Z.of_nat j))%Z /\
    (inject_Z (Z.shiftr maxu (Z.of_nat j)) / inject_Z two64 == 1 / pw j - 1 / inject_Z two64)%Q /\
    (forall w : Z, coin_fail maxu maxu w = false).
Proof. exact real_coin_all. Qed.
Print Assumptions C19_real_coin_gap.

(* ---- the REAL coin over whole histories.  [Rrun] is the same program in the same expectation
   monad with the coin of the code: a uniform 64-bit word (64 independent fair bits) is drawn
   exactly when the threshold is below MaxUint64 and compared with it by the generated condition
   coin_fail -- nothing ideal is left except the uniformity and independence of the words.  The
   2^-64 deficit of every coin below the maximum threshold (C19_real_coin_gap) biases the estimate
   DOWNWARDS by at most distinct * adds / 2^64, adds = the number of Add calls of the history:

       distinct * (1 - adds / 2^64)  <=  E_real[Len * 2^k]  <=  distinct.

   (Each value loses 2^k / 2^64 of its weight when it is added at exponent k, nothing else is
   lost, and E[2^k] <= 1 + adds because a pass needs a won coin.)  Pinned single pass, every size,
   every map order, every history including Resets.  For a stream of a million Adds the relative
   bias is below 2^-44. *)
Theorem C19_real_bias :
  forall (T : Type) (eqb : T -> T -> bool), (forall x y, reflect (x = y) (eqb x y)) ->
  forall (ord : list T -> list T), (forall l, Permutation (ord l) l) ->
  forall (fuel : nat) (cap : Z) (ops : list (op T)),
    (inject_Z (Z.of_nat (distinct T eqb ops)) * (1 - (1 / inject_Z two64) * inject_Z (Z.of_nat (nadds T ops)))
       <= Rrun T eqb ord true fuel cap (init T) ops (fun o => estimate T (st_of T o)))%Q
    /\ (Rrun T eqb ord true fuel cap (init T) ops (fun o => estimate T (st_of T o))
       <= inject_Z (Z.of_nat (distinct T eqb ops)))%Q.
Proof. exact real_bias. Qed.
Print Assumptions C19_real_bias.

(* the hypotheses are satisfiable and the bounds are not vacuous: 3 distinct values in 4 Adds *)
Example C19_real_bias_ex :
  let ops := [OAdd 1%Z None; OAdd 2%Z None; OAdd 1%Z None; OAdd 3%Z None] in
  distinct Z Z.eqb ops = 3%nat /\ nadds Z ops = 4%nat /\
  (inject_Z (Z.of_nat 3) * (1 - (1 / inject_Z two64) * inject_Z (Z.of_nat 4))
     <= Rrun Z Z.eqb (fun l => l) true 0 2 (init Z) ops (fun o => estimate Z (st_of Z o)))%Q
  /\ (Rrun Z Z.eqb (fun l => l) true 0 2 (init Z) ops (fun o => estimate Z (st_of Z o)) <= inject_Z (Z.of_nat 3))%Q.
Proof.
  intros ops.
  assert (Hd : distinct Z Z.eqb ops = 3%nat) by reflexivity.
  assert (Hn : nadds Z ops = 4%nat) by reflexivity.
  split; [exact Hd|]. split; [exact Hn|].
  pose proof (C19_real_bias Z Z.eqb Z.eqb_spec (fun l => l) (fun l => Permutation_refl l) 0%nat 2 ops) as H.
  rewrite Hd, Hn in H. exact H.
Qed.

(* The deficit is real, so C19_unbiased does NOT hold of the real coin exactly: size 1, Add 1,
   Add 2 -- the second value is buffered with probability (2^63 - 1) / 2^64 at weight 2, so its
   expected weight is 1 - 2/2^64 (the bound above allows 1 - 2/2^64 for it: tight here). *)
Theorem C19_real_coin_biased :
  (Rrun Z Z.eqb (fun l => l) true 0 1 (init Z) [OAdd 1%Z None; OAdd 2%Z None]
        (fun o => phi Z Z.eqb 2%Z (st_of Z o)) == 1 - 2 * (1 / inject_Z two64))%Q.
Proof. exact real_coin_biased_witness. Qed.
Print Assumptions C19_real_coin_biased.
