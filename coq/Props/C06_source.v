(* C06 at source level -- the position statements of Props/C06.v re-stated for the state machine
   whose operations call the FUNCTIONS GENERATED from heapq/heapq.go (GenTie/HeapqSource.v; reading
   guide and conventions in Props/C05_source.v).  The move log of a generated step is the list of
   calls of q.move the generated function returns (the translator's convention for a callback that
   is called as a statement), in source order; [ghist_pos] is HeapqSpec.hist_pos with the generated
   step in the place of the model's: the whole log L and the tracked elements ride along.

   COVERED: New, NewWithData, Add, Pop, Remove, Set, Reorder, Clear, Len, IsEmpty, Front, Peek, for
   the code as it is.  NOT COVERED: Update (not translated: that the callback installed IS called
   where the generated functions log a call of q.move is the translator's convention plus
   C06_skeleton and the correspondence), Sort, Each as an operation. *)
From Coq Require Import ZArith List Bool.
Import ListNotations.
Set Warnings "-notation-overridden".
From Mds Require Import Common.FnRt.
From Mds Require Import Heapq.HeapqModel Heapq.HeapqSpec.
From Mds Require Import GenTie.HeapqSource.
Local Open Scope Z_scope.

(* For every element type, every comparison function (no contract), every spare capacity, every
   history of covered operations over distinct elements started in any state whose tracked
   elements are where the log says: no generated call fails; after each step every element that
   entered through Add or Set and is still held has its LAST logged position equal to the offset at
   which it is held; Add returns that offset; Remove(p) with p the logged position of a tracked held
   element returns exactly that element and it is gone afterwards.  Hypotheses of C06_positions
   unchanged. *)
Theorem C06_positions_source : forall (T : Type) (zero : T) (sp : queue T -> list T)
    (ops : list (op T)) (q : queue T) (L : moves T) (tr : list T),
  forallb src_op ops = true ->
  NoDup (data q) -> positions_ok T L tr (data q) -> ghist_pos zero sp q L tr ops.
Proof. exact positions_source. Qed.
Print Assumptions C06_positions_source.

(* from the queue the generated constructor New(c) returns: the hypotheses hold trivially *)
Theorem C06_positions_from_new_source : forall (T : Type) (zero : T) (sp : queue T -> list T)
    (c : T -> T -> Z) (ops : list (op T)),
  forallb src_op ops = true ->
  ghist_pos zero sp (mkq (fst (FnHeapq.New c)) (snd (FnHeapq.New c))) [] [] ops.
Proof. exact positions_from_new_source. Qed.
Print Assumptions C06_positions_from_new_source.

(* from the moment an update function is installed on ANY queue of distinct elements *)
Theorem C06_positions_after_install_source : forall (T : Type) (zero : T) (sp : queue T -> list T)
    (q : queue T) (ops : list (op T)),
  forallb src_op ops = true -> NoDup (data q) -> ghist_pos zero sp q [] [] ops.
Proof. exact positions_after_install_source. Qed.
Print Assumptions C06_positions_after_install_source.

(* the history of C06_example through the generated functions: same layout, and the last logged
   position of every held element is its offset (24 log entries) *)
Example C06_positions_source_example :
  let zc := fun a b : Z => a - b in
  let q0 := mkq (fst (FnHeapq.New zc)) (snd (FnHeapq.New zc)) in
  let ops := [OSet [5; 3; 8; 1; 9; 2; 7]; OAdd 4; OAdd 6; ORemove 3] in
  let outs := grun 0 (fun _ => []) q0 ops in
  let log := flat_map (fun r => match r with FnRt.Ok (_, m) => m | _ => [] end) outs in
  let last_pos (e : Z) := fold_left (fun acc (m : Z * Z) => if Z.eqb (fst m) e then Some (snd m) else acc) log None in
  (match gexec 0 (fun _ => []) q0 ops with FnRt.Ok q => data q | _ => [] end) = [1; 3; 2; 5; 6; 8; 7; 9] /\
  length log = 24%nat /\
  map last_pos [1; 3; 2; 5; 6; 8; 7; 9] = map Some [0; 1; 2; 3; 4; 5; 6; 7].
Proof. vm_compute. repeat split; reflexivity. Qed.
