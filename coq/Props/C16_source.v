(* C16 at source level -- statements of Props/C16.v re-stated for the FUNCTIONS GENERATED from
   shell/shell.go (Gen/FnShell.v; regenerated on every run).  Only statements; proofs in
   GenTie/ShellSource.v from the per-function ties of GenTie/ShellTie{Next,Split}.v.

   Objects as in Props/C15_source.v (GenTie/ShellTieBase.v): the token buffer is a byte list, the
   *bufio.Reader is its unread input (ReadByte pops the head / io.EOF), io.Reader values are byte
   lists -- the ASSUMED reading of the standard library; inputs are bytes below 256.
   [grun] (GenTie/ShellSource.v) drives a session of Next / Rest calls through the generated
   Next, Text, Complete and Rest from the four scanner fields the generated NewScanner returns;
   after a Rest the caller reads the reader it was handed to its end.
   [grunx]: the same with Err, Reset (to a fresh reader of the session's input) and Scanner.Split.
   NOT COVERED at source level: sessions with Each (its per-function ties are registered; the
   generated Each takes a pure callback and does not return the tokens it passed on, the model's
   callback is a counter), readers that fail or fragment, Go's int width. *)
From Coq Require Import ZArith NArith List Bool.
Import ListNotations.
Set Warnings "-notation-overridden".
From Mds Require Import Common.FnRt Gen.FnShell.
From Mds Require Import Shell.ShellModel Shell.ShellSpec Shell.ShellSession GenTie.ShellTieBase GenTie.ShellSource.

(* the generated Split returns exactly the fields and the flag of the reference tokenizer,
   whatever state the pooled scanner is in *)
Theorem C16_ref_source : forall (sc0 : scanner) (s : list N) (fuel : nat),
  bytes_ok s -> (length s + 2 <= fuel)%nat ->
  exists back,
    FnShell.Split (zs (inp sc0)) (zs (cur sc0)) (st_z (st sc0)) (err_z (eof sc0)) (zs s)
      rd_Reset bb_Reset new_reader rd_ReadByte bb_WriteByte bb_Write bb_String as_reader fuel
    = Ok (map zs (fst (ref_split s)), snd (ref_split s),
          zs (inp back), zs (cur back), st_z (st back), err_z (eof back)).
Proof. exact C16_ref_source_proof. Qed.
Print Assumptions C16_ref_source.

(* a b<backslash><space>c <dq>d<backslash><dq>e<dq> <sq>f   (the last quote is left open) *)
Example C16_ref_source_ex :
  FnShell.Split []%Z []%Z 1%Z ENil [97; 32; 98; 92; 32; 99; 32; 34; 100; 92; 34; 101; 34; 32; 39; 102]%Z
    rd_Reset bb_Reset new_reader rd_ReadByte bb_WriteByte bb_Write bb_String as_reader 18
  = Ok ([[97]; [98; 32; 99]; [100; 34; 101]; [102]]%Z, false, []%Z, [102]%Z, 5%Z, EEOF).
Proof. vm_compute. reflexivity. Qed.

(* whole sessions of Next / Rest on a new Scanner, through the generated methods: the observations
   are accepted by the reference session checker and no call panics *)
Theorem C16_session_source : forall (s : list N) (ops : list sc_op), bytes_ok s ->
  exists b c st e outs,
    FnShell.NewScanner (zs s) new_reader [] = Ok (b, c, st, e) /\
    grun (S (length s)) b c st e ops = map enc_out outs /\
    session_ok s ops outs = true /\ ~ In RPanic outs.
Proof. exact C16_session_source_proof. Qed.
Print Assumptions C16_session_source.

Example C16_session_source_ex :   (* a <sq>b  with  Next Next Next Rest Next *)
  grun 5 [97; 32; 39; 98]%Z [] 1 ENil [ONext; ONext; ONext; ORest; ONext]
  = [GNext true [97]%Z true; GNext true [98]%Z false; GNext false [98]%Z false; GRest []; GNext false [] false].
Proof. vm_compute. reflexivity. Qed.

(* a session from any scanner state = the model's session *)
Theorem C16_run_source : forall (ops : list sc_op) (sc : scanner) (fuel : nat),
  bytes_ok (inp sc) -> (length (inp sc) < fuel)%nat ->
  grun fuel (zs (inp sc)) (zs (cur sc)) (st_z (st sc)) (err_z (eof sc)) ops = map enc_out (run_ops sc ops).
Proof. exact C16_run_is_source. Qed.
Print Assumptions C16_run_source.

(* the whole API but Each: sessions of Next / Rest / Err / Reset / Scanner.Split on a new Scanner,
   through the generated methods, are accepted by the reference checker [session_okx] and never panic *)
Theorem C16_sessionx_source : forall (s : list N) (ops : list sc_opx), bytes_ok s -> forallb no_each ops = true ->
  exists b c st e outs,
    FnShell.NewScanner (zs s) new_reader [] = Ok (b, c, st, e) /\
    grunx (length s + 2) (zs s) b c st e ops = map enc_outx outs /\
    session_okx s ops outs = true /\ ~ In XRPanic outs.
Proof. exact C16_sessionx_source_proof. Qed.
Print Assumptions C16_sessionx_source.

Example C16_sessionx_source_ex :   (* a <sq>b c<sq> d   with  Next, Err, Split, Err, Next, Reset, Next, Rest *)
  grunx 11 [97; 32; 39; 98; 32; 99; 39; 32; 100]%Z [97; 32; 39; 98; 32; 99; 39; 32; 100]%Z [] 1 ENil
    [XNext; XErr; XSplit; XErr; XNext; XReset; XNext; XRest]
  = [GXNext true [97]%Z true; GXErr false; GXSplit [[98; 32; 99]; [100]]%Z [100]%Z true; GXErr true;
     GXNext false [100]%Z true; GXReset; GXNext true [97]%Z true; GXRest [39; 98; 32; 99; 39; 32; 100]%Z].
Proof. vm_compute. reflexivity. Qed.

(* ... from any scanner state = the model's session *)
Theorem C16_runx_source : forall (ops : list sc_opx) (src : list N) (sc : scanner) (n fuel : nat),
  forallb no_each ops = true -> bytes_ok src -> bytes_ok (inp sc) ->
  (length src <= n)%nat -> (length (inp sc) <= n)%nat -> (n + 2 <= fuel)%nat ->
  grunx fuel (zs src) (zs (inp sc)) (zs (cur sc)) (st_z (st sc)) (err_z (eof sc)) ops
  = map enc_outx (run_opsx src sc ops).
Proof. exact C16_runx_is_source. Qed.
Print Assumptions C16_runx_source.
