(* C02, constructor clause for DISTINCT keys, on the generated heap (audit round 9): "a tree built by
   New from n distinct keys has the minimum possible height floor(log2 n)".  If the keys handed to the
   generated New(β, cmp, keys...) are pairwise inequivalent under the comparator (cmp x y <> 0 for
   every two positions), the Tree object it returns has size = n = len(keys); the cells reachable
   from its root are exactly a tree-shaped region of n cells, every one at depth <= floor(log2 n),
   one at exactly that depth.  Hypotheses as C02_new_height_source: comparator laws, the assumed
   contracts of slices.SortFunc / slices.CompactFunc, 0 <= β <= 1000, at least one key.
   Only the statement, closed by [exact] of the lemma of GenTie/StreeSourceNewDistinct.v. *)
From Coq Require Import ZArith List Lia.
Import ListNotations.
From Mds Require Import Common.FnRt GenTie.StreeTieBase GenTie.StreeSep GenTie.StreeSource GenTie.StreeTieNew
  GenTie.StreeSourceNew GenTie.StreeSourceNewDistinct.
From Mds Require Import Stree.StreeSpec.
From Mds Require Stree.HeightModel.
Local Open Scope Z_scope.

Theorem C02_new_size_distinct_source : forall (T : Type) (cmp : T -> T -> Z), total_preorder cmp ->
  forall (limitFunc : Z -> Z -> Z)
    (srt : list (option nat) -> (unit -> option nat -> option nat -> res (Z * unit)) -> res (list (option nat)))
    (cpt : list (option nat) -> (unit -> option nat -> option nat -> res (bool * unit)) -> res (list (option nat))),
  @sort_contract T srt -> compact_contract cpt ->
  forall (b : Z) (keys : list T) (h0 : list (G.node T)), 0 <= b <= 1000 -> keys <> [] ->
  (forall (i j : nat) (x y : T), i <> j -> nth_error keys i = Some x -> nth_error keys j = Some y -> cmp x y <> 0) ->
  exists (tr : G.Tree T) (h : list (G.node T)),
    gnew cmp limitFunc srt cpt b keys h0 = Ok (tr, h) /\ G.Tree_size tr = Z.of_nat (length keys) /\
    (exists t F, trepr h (G.Tree_root tr) t F /\ Z.of_nat (length F) = Z.of_nat (length keys) /\
       (forall x, In x F <-> exists d, hreach h (G.Tree_root tr) x d)) /\
    (forall x d, hreach h (G.Tree_root tr) x d -> Z.of_nat d <= Z.log2 (Z.of_nat (length keys))) /\
    (exists x, hreach h (G.Tree_root tr) x (Z.to_nat (Z.log2 (Z.of_nat (length keys))))).
Proof. exact @new_size_distinct_source. Qed.
Print Assumptions C02_new_size_distinct_source.

(* non-vacuity: six keys, pairwise inequivalent (the hypothesis holds of them), given out of order:
   the generated New returns size 6 and some cell lies floor(log2 6) = 2 steps below the root *)
Definition s4_cmp (a b : Z * Z) : Z := fst a - fst b.
Definition s4_keys : list (Z * Z) := [(5,0); (3,1); (8,2); (1,4); (9,6); (7,7)].
Example C02_new_size_distinct_source_hyp :
  forall (i j : nat) (x y : Z * Z), i <> j -> nth_error s4_keys i = Some x -> nth_error s4_keys j = Some y ->
  s4_cmp x y <> 0.
Proof.
  intros i j x y N Ei Ej.
  assert (Hi : (i < 6)%nat) by (apply (nth_error_Some s4_keys i); congruence).
  assert (Hj : (j < 6)%nat) by (apply (nth_error_Some s4_keys j); congruence).
  destruct i as [|[|[|[|[|[|]]]]]]; try lia; destruct j as [|[|[|[|[|[|]]]]]]; try lia;
  cbn in Ei, Ej; injection Ei as <-; injection Ej as <-; vm_compute; discriminate.
Qed.
Example C02_new_size_distinct_source_ex :
  match gnew s4_cmp HeightModel.limit_exact sort_cb compact_cb 250 s4_keys [] with
  | Ok (tr, h) => G.Tree_size tr = 6 /\ Z.of_nat (length s4_keys) = 6 /\ Z.log2 6 = 2 /\
                  exists x, hreach h (G.Tree_root tr) x 2
  | _ => False
  end.
Proof.
  vm_compute. split; [reflexivity|]. split; [reflexivity|]. split; [reflexivity|]. exists 1%nat.
  eapply hreach_left; [reflexivity|]. eapply hreach_right; [reflexivity|]. eapply hreach_here. reflexivity.
Qed.
