(* Reference for C07: a plain list, oldest element first.  Add appends at the back, Push inserts at
   the front, Pop removes the front, PopLast removes the back.  No buffer, no head, no capacity:
   the oracle argument of Add/Push is ignored. *)
From Coq Require Import ZArith List Bool.
Import ListNotations.
From Mds Require Import Queue.QueueModel.
Local Open Scope Z_scope.

Section Spec.
Variable T : Type.
Variable zero : T.

(* Peek(k): negative offsets count from the end; out of range is (zero, false) *)
Definition spec_peek (l : list T) (k : Z) : T * bool :=
  let k' := if k <? 0 then k + Z.of_nat (length l) else k in
  if (0 <=? k') && (k' <? Z.of_nat (length l)) then (nth (Z.to_nat k') l zero, true) else (zero, false).

(* Each with a callback that has its own state: stop after the first false *)
Fixpoint spec_each {A} (f : A -> T -> A * bool) (l : list T) (a : A) : A :=
  match l with
  | [] => a
  | x :: r => let '(a', continue) := f a x in if continue then spec_each f r a' else a'
  end.

Definition spec_step (l : list T) (o : op T) : list T * out T :=
  match o with
  | OAdd v _ => (l ++ [v], RUnit)
  | OPush v _ => (v :: l, RUnit)
  | OPop => match l with [] => ([], RVal zero false) | x :: r => (r, RVal x true) end
  | OPopLast => match l with [] => ([], RVal zero false) | _ => (removelast l, RVal (last l zero) true) end
  | OClear => ([], RUnit)
  | OLen => (l, RInt (Z.of_nat (length l)))
  | OIsEmpty => (l, RBool (match l with [] => true | _ => false end))
  | OFront => (l, RElem (hd zero l))
  | OPeek k => (l, let '(v, ok) := spec_peek l k in RVal v ok)
  | OEach m => (l, RList (firstn (S m) l))     (* the recording callback answers false on call m+1 *)
  | OSlice => (l, RList l)
  end.

Fixpoint spec_run (l : list T) (ops : list (op T)) : list (out T) :=
  match ops with
  | [] => []
  | o :: rest => let '(l', r) := spec_step l o in r :: spec_run l' rest
  end.

Fixpoint spec_exec (l : list T) (ops : list (op T)) : list T :=
  match ops with
  | [] => l
  | o :: rest => spec_exec (fst (spec_step l o)) rest
  end.

(* "each op carries a valid oracle".  The only thing the validity of an oracle depends on is the
   current buffer length [cap] and the element count [cnt]; both evolve deterministically:
   an Add/Push that finds cnt < cap does not grow (its oracle is ignored); otherwise the oracle c
   must satisfy the runtime's contract c > cap, and c is the new buffer length. *)
Definition oracle_valid (cap cnt : Z) (o : op T) : Prop :=
  match o with
  | OAdd _ c | OPush _ c => cnt < cap \/ c > cap
  | _ => True
  end.

Definition cap_next (cap cnt : Z) (o : op T) : Z * Z :=
  match o with
  | OAdd _ c | OPush _ c => (if cnt <? cap then cap else c, cnt + 1)
  | OPop | OPopLast => (cap, if cnt =? 0 then 0 else cnt - 1)
  | OClear => (0, 0)
  | _ => (cap, cnt)
  end.

Fixpoint oracles_ok (cap cnt : Z) (ops : list (op T)) : Prop :=
  match ops with
  | [] => True
  | o :: rest =>
    oracle_valid cap cnt o /\
    oracles_ok (fst (cap_next cap cnt o)) (snd (cap_next cap cnt o)) rest
  end.

(* For the 64-bit theorems: buffer lengths stay <= 2^62 (so that head + n < 2^63) and Peek offsets
   are ints.  A Go slice of a type of non-zero size cannot be longer than 2^48 (runtime maxAlloc),
   so the bound only ever excludes zero-size element types with astronomically large NewSize. *)
Definition cap_bound : Z := 4611686018427387904.     (* 2^62 *)
Definition op_small (o : op T) : Prop :=
  match o with
  | OAdd _ c | OPush _ c => c <= cap_bound
  | OPeek k => - 9223372036854775808 <= k < 9223372036854775808
  | _ => True
  end.
Definition ops_small (ops : list (op T)) : Prop := Forall op_small ops.

Definition init_cap (i : init) : Z :=
  match i with ISize k => k | _ => 0 end.

Definition init_ok (i : init) : Prop :=
  match i with ISize k => 0 <= k | _ => True end.

End Spec.
