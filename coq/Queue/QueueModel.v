(* Model of queue/queue.go (Queue[T]: ring-buffer deque).  Definitions only.

   State mirrors the Go struct: vs (the buffer; len(vs) is the ring capacity), head, n.
   Every method is transcribed statement by statement; every index expression, wrap condition,
   increment and the grow condition is a definition of Gen/QueueIdx.v, regenerated from the Go
   source on every run.  Slice indexing, slice stores, `%` and slice.Rotate are checked
   operations: out of range / zero divisor / bad offset give an explicit QPanic result.

   append's choice of the new capacity is an ORACLE INPUT [c] of Add/Push: validated against the
   runtime's specification (cap(w) > old len, i.e. room for the appended element) -- a value
   that violates it gives the distinct result BadOracle -- and then used, never predicted.

   The queue's own loops (Each, Slice) run `for range q.n` and are structural recursions on
   Z.to_nat n.  The regrowth step calls slice.Rotate: the model calls the faithful loop model of
   the C17 slice, [SliceUtilModel.rotate_impl] (sliceCheck, gcd, cycle chasing with stores into the
   buffer), not a list-level description of its effect.  That model's inner `for {}` carries fuel;
   its OutOfFuel result is passed on as the distinct result [RotateFuel] (proved never to occur).

   MACHINE INTEGERS.  Every model function takes a width function [w : Z -> Z] that is applied to
   the result of every int addition/subtraction/negation the Go code performs ([idw] = unbounded
   integers, [wrap64] = Go's 64-bit two's-complement int).  +, - and unary - commute with wrap64,
   so one application around a generated +/- expression is the same as one per operator; the three
   `(x + y) % len` expressions are wrapped inside too (% does not commute with wrap64): the
   generated [*_rem] definitions take the already computed sum, and QueueProofs.gen_sum_ties
   checks by reflexivity that the sum written here is the one in the Go source. *)
From Coq Require Import ZArith List Bool.
Import ListNotations.
From Mds Require Import Gen.QueueIdx.
From Mds Require Slice.SliceUtilModel.
Local Open Scope Z_scope.

Inductive panic_kind := PIndex | PDivZero | PRotate | PMakeLen.

Inductive res (A : Type) :=
| QOk (a : A)
| QPanic (k : panic_kind)
| BadOracle
| RotateFuel.
Arguments QOk {A} a.
Arguments QPanic {A} k.
Arguments BadOracle {A}.
Arguments RotateFuel {A}.

Definition bind {A B} (r : res A) (f : A -> res B) : res B :=
  match r with QOk a => f a | QPanic k => QPanic k | BadOracle => BadOracle | RotateFuel => RotateFuel end.
Notation "'do' x <- r ; f" := (bind r (fun x => f)) (at level 200, x pattern, r at level 100, f at level 200).

Definition of_opt {A} (o : option A) (k : panic_kind) : res A :=
  match o with Some a => QOk a | None => QPanic k end.

(* the two integer widths *)
Definition idw (z : Z) : Z := z.
(* Go's int: the representative of z modulo 2^64 in [-2^63, 2^63).  Values already in range are
   returned as they are (same value -- QueueProofsInt.wrap64_is_mod -- without a 64-bit division). *)
Definition wrap64 (z : Z) : Z :=
  if (- 9223372036854775808 <=? z) && (z <? 9223372036854775808) then z
  else (z + 9223372036854775808) mod 18446744073709551616 - 9223372036854775808.

Section Queue.
Variable w : Z -> Z.        (* applied to the result of every int +, -, unary - *)
Variable T : Type.
Variable zero : T.          (* Go's zero value of T *)

(* ---- Go slices of T as lists, Z-indexed, bounds-checked ---- *)
Definition zlen (l : list T) : Z := Z.of_nat (length l).

(* l[i] *)
Definition idx (l : list T) (i : Z) : option T :=
  if i <? 0 then None else nth_error l (Z.to_nat i).

(* l[i] = v *)
Definition upd (l : list T) (i : Z) (v : T) : option (list T) :=
  if (0 <=? i) && (i <? zlen l)
  then Some (firstn (Z.to_nat i) l ++ v :: skipn (S (Z.to_nat i)) l)
  else None.

(* make([]T, k) *)
Definition make (k : Z) : option (list T) :=
  if k <? 0 then None else Some (repeat zero (Z.to_nat k)).

(* a % b with Go's run-time check *)
Definition checked_rem (b : Z) (r : Z) : res Z :=
  if b =? 0 then QPanic PDivZero else QOk r.

(* slice.Rotate(ss, k): the loop model of slice/slice.go (C17 slice), its results mapped into
   this model's: panic("offset out of range") -> PRotate, index/division run-time panics kept,
   fuel exhaustion of the inner loop -> RotateFuel. *)
Definition rotate_go (l : list T) (k : Z) : res (list T) :=
  match SliceUtilModel.rotate_impl l k with
  | SliceUtilModel.Ok r => QOk r
  | SliceUtilModel.Panic SliceUtilModel.PDocOffset => QPanic PRotate
  | SliceUtilModel.Panic SliceUtilModel.PRtDiv => QPanic PDivZero
  | SliceUtilModel.Panic _ => QPanic PIndex
  | SliceUtilModel.OutOfFuel => RotateFuel
  end.

(* w := append(s, v) where the runtime reports cap(w) = c.  Result: the backing array of w up
   to its capacity (w itself is its first len(s)+1 elements; the rest is zeroed memory).
   Runtime specification: cap(w) >= len(s)+1. *)
Definition append_cap (s : list T) (v : T) (c : Z) : option (list T) :=
  if c >? zlen s then Some (s ++ v :: repeat zero (Z.to_nat (c - zlen s - 1))) else None.

(* w[:hi] for a w of capacity c whose backing array is [arr] *)
Definition reslice (arr : list T) (c hi : Z) : option (list T) :=
  if (0 <=? hi) && (hi <=? c) then Some (firstn (Z.to_nat hi) arr) else None.

(* ---- the Queue ---- *)
Record queue := { vs : list T; head : Z; n : Z }.

(* var q Queue[T]  /  New() *)
Definition zero_queue : queue := {| vs := []; head := 0; n := 0 |}.
Definition new : queue := zero_queue.

(* NewSize(k): &Queue[T]{vs: make([]T, k)} *)
Definition new_size (k : Z) : res queue :=
  do b <- of_opt (make (newsize_len k)) PMakeLen;
  QOk {| vs := b; head := 0; n := 0 |}.

(* the shared "rotate to the initial regime" block of Add and Push *)
Definition rotate_home (cond : Z -> bool) (kf : Z -> Z) (newhead : Z) (q : queue) : res (list T * Z) :=
  if cond (head q) then
    do r <- rotate_go (vs q) (w (kf (head q)));
    QOk (r, newhead)
  else QOk (vs q, head q).

Definition add (q : queue) (v : T) (c : Z) : res queue :=
  let len := zlen (vs q) in
  if add_has_room (n q) len then
    let pos := w (add_pos (head q) (n q)) in
    let pos := if add_wrap_cond pos len then w (add_wrap_pos pos len) else pos in
    do vs' <- of_opt (upd (vs q) (add_store_idx pos) v) PIndex;
    QOk {| vs := vs'; head := head q; n := w (add_n (n q)) |}
  else
    do (vs1, head1) <- rotate_home add_rot_cond add_rot_k add_rot_head q;
    match append_cap vs1 v c with
    | None => BadOracle
    | Some wbuf =>
      do vs2 <- of_opt (reslice wbuf c (add_grow_hi c)) PIndex;
      QOk {| vs := vs2; head := head1; n := w (add_grow_n (n q)) |}
    end.

Definition push (q : queue) (v : T) (c : Z) : res queue :=
  let len := zlen (vs q) in
  if push_has_room (n q) len then
    let pos := w (push_pos (head q)) in
    let pos := if push_wrap_cond pos then w (push_wrap_pos len (n q)) else pos in
    do vs' <- of_opt (upd (vs q) (push_store_idx pos) v) PIndex;
    QOk {| vs := vs'; head := push_head pos; n := w (push_n (n q)) |}
  else
    do (vs1, head1) <- rotate_home push_rot_cond push_rot_k push_rot_head q;
    match append_cap vs1 v c with
    | None => BadOracle
    | Some wbuf =>
      do vs2 <- of_opt (reslice wbuf c (push_grow_hi c)) PIndex;
      let head2 := w (push_grow_head (zlen vs2)) in
      do vs3 <- of_opt (upd vs2 (push_grow_store_idx head2) v) PIndex;
      QOk {| vs := vs3; head := head2; n := w (push_grow_n (n q)) |}
    end.

Definition is_empty (q : queue) : bool := isempty_ret (n q).
Definition len (q : queue) : Z := len_ret (n q).
Definition clear (q : queue) : queue := {| vs := []; head := clear_head; n := clear_n |}.

Definition front (q : queue) : res T :=
  if front_empty (n q) then QOk zero
  else of_opt (idx (vs q) (front_idx (head q))) PIndex.

Definition peek (q : queue) (k : Z) : res (T * bool) :=
  let k := if peek_neg k then w (peek_adj k (n q)) else k in
  if peek_out k (n q) then QOk (zero, false)
  else
    do p <- checked_rem (zlen (vs q)) (w (peek_idx_rem (w (head q + k)) (zlen (vs q))));
    do x <- of_opt (idx (vs q) (peek_load_idx p)) PIndex;
    QOk (x, true).

Definition pop (q : queue) : res (queue * (T * bool)) :=
  if pop_empty (n q) then QOk (q, (zero, false))
  else
    do out <- of_opt (idx (vs q) (pop_idx (head q))) PIndex;
    let n' := w (pop_n (n q)) in
    do head' <- (if pop_now_empty n' then QOk pop_head_reset
                 else checked_rem (zlen (vs q)) (w (pop_head_rem (w (head q + 1)) (zlen (vs q)))));
    QOk ({| vs := vs q; head := head'; n := n' |}, (out, true)).

Definition pop_last (q : queue) : res (queue * (T * bool)) :=
  if poplast_empty (n q) then QOk (q, (zero, false))
  else
    let len := zlen (vs q) in
    let pos := w (poplast_pos (head q) (n q)) in
    let pos := if poplast_wrap_cond pos len then w (poplast_wrap_pos pos len) else pos in
    do out <- of_opt (idx (vs q) (poplast_idx pos)) PIndex;
    let n' := w (poplast_n (n q)) in
    let head' := if poplast_now_empty n' then poplast_head_reset else head q in
    QOk ({| vs := vs q; head := head'; n := n' |}, (out, true)).

(* Each(f): f is an arbitrary callback with its own state A; it is called on successive elements
   until it answers false or q.n calls were made. *)
Section Each.
Variable A : Type.
Variable f : A -> T -> A * bool.
Fixpoint each_loop (k : nat) (b : list T) (cur : Z) (a : A) : res A :=
  match k with
  | O => QOk a
  | S k' =>
    do x <- of_opt (idx b (each_idx cur)) PIndex;
    let '(a', continue) := f a x in
    if each_stop continue then QOk a'
    else
      do cur' <- checked_rem (zlen b) (w (each_next_rem (w (cur + 1)) (zlen b)));
      each_loop k' b cur' a'
  end.
Definition each (q : queue) (a : A) : res A :=
  each_loop (Z.to_nat (each_count (n q))) (vs q) (each_start (head q)) a.
End Each.

(* Slice(): nil when empty, else a fresh buffer filled by walking the ring *)
Fixpoint slice_loop (k : nat) (i : Z) (b : list T) (cur : Z) (buf : list T) : res (list T) :=
  match k with
  | O => QOk buf
  | S k' =>
    do x <- of_opt (idx b (slice_src_idx cur)) PIndex;
    do buf' <- of_opt (upd buf (slice_dst_idx i) x) PIndex;
    do cur' <- checked_rem (zlen b) (w (slice_next_rem (w (cur + 1)) (zlen b)));
    slice_loop k' (i + 1) b cur' buf'
  end.
Definition slice (q : queue) : res (list T) :=
  if slice_empty (n q) then QOk []
  else
    do buf <- of_opt (make (slice_buflen (n q))) PMakeLen;
    slice_loop (Z.to_nat (slice_count (n q))) 0 (vs q) (slice_start (head q)) buf.

(* what the verif hook exposes: head, n, len(vs) *)
Definition hook_state (q : queue) : Z * Z * Z := (head q, n q, zlen (vs q)).

(* ---- histories ---- *)
Inductive init := IZero | INew | ISize (k : Z).

Definition mk_init (i : init) : res queue :=
  match i with IZero => QOk zero_queue | INew => QOk new | ISize k => new_size k end.

(* Add/Push carry the oracle: cap(w) reported by the runtime if this call grows the buffer
   (ignored when it does not). *)
Inductive op :=
| OAdd (v : T) (c : Z) | OPush (v : T) (c : Z) | OPop | OPopLast | OClear
| OLen | OIsEmpty | OFront | OPeek (k : Z) | OEach (m : nat) | OSlice.

Inductive out :=
| RUnit | RVal (v : T) (ok : bool) | RInt (z : Z) | RBool (b : bool) | RElem (v : T) | RList (l : list T).

(* the callback used by the OEach observation: record the element; answer false on call m+1 *)
Definition collect (st : list T * nat) (x : T) : (list T * nat) * bool :=
  let '(acc, budget) := st in
  match budget with
  | O => ((acc ++ [x], O), false)
  | S b => ((acc ++ [x], b), true)
  end.

Definition step (q : queue) (o : op) : res (queue * out) :=
  match o with
  | OAdd v c => do q' <- add q v c; QOk (q', RUnit)
  | OPush v c => do q' <- push q v c; QOk (q', RUnit)
  | OPop => do (q', (v, ok)) <- pop q; QOk (q', RVal v ok)
  | OPopLast => do (q', (v, ok)) <- pop_last q; QOk (q', RVal v ok)
  | OClear => QOk (clear q, RUnit)
  | OLen => QOk (q, RInt (len q))
  | OIsEmpty => QOk (q, RBool (is_empty q))
  | OFront => do v <- front q; QOk (q, RElem v)
  | OPeek k => do (v, ok) <- peek q k; QOk (q, RVal v ok)
  | OEach m => do (acc, _) <- each _ collect q ([], m); QOk (q, RList acc)
  | OSlice => do l <- slice q; QOk (q, RList l)
  end.

(* outputs of a history; stops at the first result that is not QOk *)
Fixpoint run (q : queue) (ops : list op) : list (res out) :=
  match ops with
  | [] => []
  | o :: rest =>
    match step q o with
    | QOk (q', r) => QOk r :: run q' rest
    | QPanic k => [QPanic k]
    | BadOracle => [BadOracle]
    | RotateFuel => [RotateFuel]
    end
  end.

(* the state a history leads to *)
Fixpoint exec (q : queue) (ops : list op) : res queue :=
  match ops with
  | [] => QOk q
  | o :: rest => do (q', _) <- step q o; exec q' rest
  end.

Definition exec_init (i : init) (ops : list op) : res queue :=
  do q <- mk_init i; exec q ops.

Definition run_init (i : init) (ops : list op) : list (res out) :=
  match mk_init i with
  | QOk q => run q ops
  | QPanic k => [QPanic k]
  | BadOracle => [BadOracle]
  | RotateFuel => [RotateFuel]
  end.

End Queue.

(* the model at Go's int width: what the correspondence replays against the real package *)
Definition step64 (T : Type) (zero : T) := step wrap64 T zero.
Definition run_init64 (T : Type) (zero : T) := run_init wrap64 T zero.


Arguments OAdd {T} v c.
Arguments OPush {T} v c.
Arguments OPop {T}.
Arguments OPopLast {T}.
Arguments OClear {T}.
Arguments OLen {T}.
Arguments OIsEmpty {T}.
Arguments OFront {T}.
Arguments OPeek {T} k.
Arguments OEach {T} m.
Arguments OSlice {T}.
Arguments RUnit {T}.
Arguments RVal {T} v ok.
Arguments RInt {T} z.
Arguments RBool {T} b.
Arguments RElem {T} v.
Arguments RList {T} l.
Arguments vs {T} q.
Arguments head {T} q.
Arguments n {T} q.
