(* Model of queue/queue.go (Queue[T]: ring-buffer deque).  Definitions only.

   State mirrors the Go struct: vs (the buffer; len(vs) is the ring capacity), head, n.
   Every method is transcribed statement by statement; every index expression, wrap condition,
   increment and the grow condition is a definition of Gen/QueueIdx.v, regenerated from the Go
   source on every run.  Slice indexing, slice stores, `%` and slice.Rotate are checked
   operations: out of range / zero divisor / bad offset give an explicit Panic result.

   append's choice of the new capacity is an ORACLE INPUT [c] of Add/Push: validated against the
   runtime's specification (cap(w) > old len, i.e. room for the appended element) -- a value
   that violates it gives the distinct result BadOracle -- and then used, never predicted.

   There is no fuel anywhere: the only loops (Each, Slice) run `for range q.n` and are
   structural recursions on Z.to_nat n; slice.Rotate is modelled at list level by
   [rotate_list] (the C17 slice proves the Go cycle-chasing loop equal to it). *)
From Coq Require Import ZArith List Bool.
Import ListNotations.
From Mds Require Import Gen.QueueIdx.
Local Open Scope Z_scope.

Inductive panic_kind := PIndex | PDivZero | PRotate | PMakeLen.

Inductive res (A : Type) :=
| Ok (a : A)
| Panic (k : panic_kind)
| BadOracle.
Arguments Ok {A} a.
Arguments Panic {A} k.
Arguments BadOracle {A}.

Definition bind {A B} (r : res A) (f : A -> res B) : res B :=
  match r with Ok a => f a | Panic k => Panic k | BadOracle => BadOracle end.
Notation "'do' x <- r ; f" := (bind r (fun x => f)) (at level 200, x pattern, r at level 100, f at level 200).

Definition of_opt {A} (o : option A) (k : panic_kind) : res A :=
  match o with Some a => Ok a | None => Panic k end.

Section Queue.
Variable T : Type.
Variable zero : T.          (* Go's zero value of T *)

(* ---- Go slices of T as lists, Z-indexed, bounds-checked ---- *)
Definition zlen (l : list T) : Z := Z.of_nat (length l).

(* l[i] *)
Definition idx (l : list T) (i : Z) : option T :=
  if i <? 0 then None else nth_error l (Z.to_nat i).

(* l[i] = v *)
Definition upd (l : list T) (i : Z) (v : T) : option (list T) :=
  if (0 <=? i) && (i <? zlen l)
  then Some (firstn (Z.to_nat i) l ++ v :: skipn (S (Z.to_nat i)) l)
  else None.

(* make([]T, k) *)
Definition make (k : Z) : option (list T) :=
  if k <? 0 then None else Some (repeat zero (Z.to_nat k)).

(* a % b with Go's run-time check *)
Definition checked_rem (b : Z) (r : Z) : res Z :=
  if b =? 0 then Panic PDivZero else Ok r.

(* slice.Rotate(ss, k) at list level: sliceCheck (negative k counts from the end, then
   0 <= k <= len or panic), afterwards the element at i sits at (i + k) mod len. *)
Definition rotate_list (l : list T) (k : Z) : option (list T) :=
  let k' := if k <? 0 then k + zlen l else k in
  if (k' <? 0) || (k' >? zlen l) then None
  else Some (skipn (Z.to_nat (zlen l - k')) l ++ firstn (Z.to_nat (zlen l - k')) l).

(* w := append(s, v) where the runtime reports cap(w) = c.  Result: the backing array of w up
   to its capacity (w itself is its first len(s)+1 elements; the rest is zeroed memory).
   Runtime specification: cap(w) >= len(s)+1. *)
Definition append_cap (s : list T) (v : T) (c : Z) : option (list T) :=
  if c >? zlen s then Some (s ++ v :: repeat zero (Z.to_nat (c - zlen s - 1))) else None.

(* w[:hi] for a w of capacity c whose backing array is [arr] *)
Definition reslice (arr : list T) (c hi : Z) : option (list T) :=
  if (0 <=? hi) && (hi <=? c) then Some (firstn (Z.to_nat hi) arr) else None.

(* ---- the Queue ---- *)
Record queue := { vs : list T; head : Z; n : Z }.

(* var q Queue[T]  /  New() *)
Definition zero_queue : queue := {| vs := []; head := 0; n := 0 |}.
Definition new : queue := zero_queue.

(* NewSize(k): &Queue[T]{vs: make([]T, k)} *)
Definition new_size (k : Z) : res queue :=
  do b <- of_opt (make (newsize_len k)) PMakeLen;
  Ok {| vs := b; head := 0; n := 0 |}.

(* the shared "rotate to the initial regime" block of Add and Push *)
Definition rotate_home (cond : Z -> bool) (kf : Z -> Z) (newhead : Z) (q : queue) : res (list T * Z) :=
  if cond (head q) then
    do r <- of_opt (rotate_list (vs q) (kf (head q))) PRotate;
    Ok (r, newhead)
  else Ok (vs q, head q).

Definition add (q : queue) (v : T) (c : Z) : res queue :=
  let len := zlen (vs q) in
  if add_has_room (n q) len then
    let pos := add_pos (head q) (n q) in
    let pos := if add_wrap_cond pos len then add_wrap_pos pos len else pos in
    do vs' <- of_opt (upd (vs q) (add_store_idx pos) v) PIndex;
    Ok {| vs := vs'; head := head q; n := add_n (n q) |}
  else
    do (vs1, head1) <- rotate_home add_rot_cond add_rot_k add_rot_head q;
    match append_cap vs1 v c with
    | None => BadOracle
    | Some w =>
      do vs2 <- of_opt (reslice w c (add_grow_hi c)) PIndex;
      Ok {| vs := vs2; head := head1; n := add_grow_n (n q) |}
    end.

Definition push (q : queue) (v : T) (c : Z) : res queue :=
  let len := zlen (vs q) in
  if push_has_room (n q) len then
    let pos := push_pos (head q) in
    let pos := if push_wrap_cond pos then push_wrap_pos len (n q) else pos in
    do vs' <- of_opt (upd (vs q) (push_store_idx pos) v) PIndex;
    Ok {| vs := vs'; head := push_head pos; n := push_n (n q) |}
  else
    do (vs1, head1) <- rotate_home push_rot_cond push_rot_k push_rot_head q;
    match append_cap vs1 v c with
    | None => BadOracle
    | Some w =>
      do vs2 <- of_opt (reslice w c (push_grow_hi c)) PIndex;
      let head2 := push_grow_head (zlen vs2) in
      do vs3 <- of_opt (upd vs2 (push_grow_store_idx head2) v) PIndex;
      Ok {| vs := vs3; head := head2; n := push_grow_n (n q) |}
    end.

Definition is_empty (q : queue) : bool := isempty_ret (n q).
Definition len (q : queue) : Z := len_ret (n q).
Definition clear (q : queue) : queue := {| vs := []; head := clear_head; n := clear_n |}.

Definition front (q : queue) : res T :=
  if front_empty (n q) then Ok zero
  else of_opt (idx (vs q) (front_idx (head q))) PIndex.

Definition peek (q : queue) (k : Z) : res (T * bool) :=
  let k := if peek_neg k then peek_adj k (n q) else k in
  if peek_out k (n q) then Ok (zero, false)
  else
    do p <- checked_rem (zlen (vs q)) (peek_idx (head q) k (zlen (vs q)));
    do x <- of_opt (idx (vs q) (peek_load_idx p)) PIndex;
    Ok (x, true).

Definition pop (q : queue) : res (queue * (T * bool)) :=
  if pop_empty (n q) then Ok (q, (zero, false))
  else
    do out <- of_opt (idx (vs q) (pop_idx (head q))) PIndex;
    let n' := pop_n (n q) in
    do head' <- (if pop_now_empty n' then Ok pop_head_reset
                 else checked_rem (zlen (vs q)) (pop_head_next (head q) (zlen (vs q))));
    Ok ({| vs := vs q; head := head'; n := n' |}, (out, true)).

Definition pop_last (q : queue) : res (queue * (T * bool)) :=
  if poplast_empty (n q) then Ok (q, (zero, false))
  else
    let len := zlen (vs q) in
    let pos := poplast_pos (head q) (n q) in
    let pos := if poplast_wrap_cond pos len then poplast_wrap_pos pos len else pos in
    do out <- of_opt (idx (vs q) (poplast_idx pos)) PIndex;
    let n' := poplast_n (n q) in
    let head' := if poplast_now_empty n' then poplast_head_reset else head q in
    Ok ({| vs := vs q; head := head'; n := n' |}, (out, true)).

(* Each(f): f is an arbitrary callback with its own state A; it is called on successive elements
   until it answers false or q.n calls were made. *)
Section Each.
Variable A : Type.
Variable f : A -> T -> A * bool.
Fixpoint each_loop (k : nat) (b : list T) (cur : Z) (a : A) : res A :=
  match k with
  | O => Ok a
  | S k' =>
    do x <- of_opt (idx b (each_idx cur)) PIndex;
    let '(a', continue) := f a x in
    if continue then
      do cur' <- checked_rem (zlen b) (each_next cur (zlen b));
      each_loop k' b cur' a'
    else Ok a'
  end.
Definition each (q : queue) (a : A) : res A :=
  each_loop (Z.to_nat (each_count (n q))) (vs q) (each_start (head q)) a.
End Each.

(* Slice(): nil when empty, else a fresh buffer filled by walking the ring *)
Fixpoint slice_loop (k : nat) (i : Z) (b : list T) (cur : Z) (buf : list T) : res (list T) :=
  match k with
  | O => Ok buf
  | S k' =>
    do x <- of_opt (idx b (slice_src_idx cur)) PIndex;
    do buf' <- of_opt (upd buf (slice_dst_idx i) x) PIndex;
    do cur' <- checked_rem (zlen b) (slice_next cur (zlen b));
    slice_loop k' (i + 1) b cur' buf'
  end.
Definition slice (q : queue) : res (list T) :=
  if slice_empty (n q) then Ok []
  else
    do buf <- of_opt (make (slice_buflen (n q))) PMakeLen;
    slice_loop (Z.to_nat (slice_count (n q))) 0 (vs q) (slice_start (head q)) buf.

(* what the verif hook exposes: head, n, len(vs) *)
Definition hook_state (q : queue) : Z * Z * Z := (head q, n q, zlen (vs q)).

(* ---- histories ---- *)
Inductive init := IZero | INew | ISize (k : Z).

Definition mk_init (i : init) : res queue :=
  match i with IZero => Ok zero_queue | INew => Ok new | ISize k => new_size k end.

(* Add/Push carry the oracle: cap(w) reported by the runtime if this call grows the buffer
   (ignored when it does not). *)
Inductive op :=
| OAdd (v : T) (c : Z) | OPush (v : T) (c : Z) | OPop | OPopLast | OClear
| OLen | OIsEmpty | OFront | OPeek (k : Z) | OEach (m : nat) | OSlice.

Inductive out :=
| RUnit | RVal (v : T) (ok : bool) | RInt (z : Z) | RBool (b : bool) | RElem (v : T) | RList (l : list T).

(* the callback used by the OEach observation: record the element; answer false on call m+1 *)
Definition collect (st : list T * nat) (x : T) : (list T * nat) * bool :=
  let '(acc, budget) := st in
  match budget with
  | O => ((acc ++ [x], O), false)
  | S b => ((acc ++ [x], b), true)
  end.

Definition step (q : queue) (o : op) : res (queue * out) :=
  match o with
  | OAdd v c => do q' <- add q v c; Ok (q', RUnit)
  | OPush v c => do q' <- push q v c; Ok (q', RUnit)
  | OPop => do (q', (v, ok)) <- pop q; Ok (q', RVal v ok)
  | OPopLast => do (q', (v, ok)) <- pop_last q; Ok (q', RVal v ok)
  | OClear => Ok (clear q, RUnit)
  | OLen => Ok (q, RInt (len q))
  | OIsEmpty => Ok (q, RBool (is_empty q))
  | OFront => do v <- front q; Ok (q, RElem v)
  | OPeek k => do (v, ok) <- peek q k; Ok (q, RVal v ok)
  | OEach m => do (acc, _) <- each _ collect q ([], m); Ok (q, RList acc)
  | OSlice => do l <- slice q; Ok (q, RList l)
  end.

(* outputs of a history; stops at the first result that is not Ok *)
Fixpoint run (q : queue) (ops : list op) : list (res out) :=
  match ops with
  | [] => []
  | o :: rest =>
    match step q o with
    | Ok (q', r) => Ok r :: run q' rest
    | Panic k => [Panic k]
    | BadOracle => [BadOracle]
    end
  end.

(* the state a history leads to *)
Fixpoint exec (q : queue) (ops : list op) : res queue :=
  match ops with
  | [] => Ok q
  | o :: rest => do (q', _) <- step q o; exec q' rest
  end.

Definition exec_init (i : init) (ops : list op) : res queue :=
  do q <- mk_init i; exec q ops.

Definition run_init (i : init) (ops : list op) : list (res out) :=
  match mk_init i with
  | Ok q => run q ops
  | Panic k => [Panic k]
  | BadOracle => [BadOracle]
  end.

End Queue.

Arguments OAdd {T} v c.
Arguments OPush {T} v c.
Arguments OPop {T}.
Arguments OPopLast {T}.
Arguments OClear {T}.
Arguments OLen {T}.
Arguments OIsEmpty {T}.
Arguments OFront {T}.
Arguments OPeek {T} k.
Arguments OEach {T} m.
Arguments OSlice {T}.
Arguments RUnit {T}.
Arguments RVal {T} v ok.
Arguments RInt {T} z.
Arguments RBool {T} b.
Arguments RElem {T} v.
Arguments RList {T} l.
Arguments vs {T} q.
Arguments head {T} q.
Arguments n {T} q.
