(* What one line of the queuetrace harness records, computed inside Coq (definitions only).
   Used by bin/incoq-queue: a sample of trace lines is decided by vm_compute against these
   functions in one coqc call -- no extraction, no OCaml.

   A record = the operation's return value, the hook values (head, n, len(vs)) and the outputs of
   the observer operations the harness performs after every step:
     Len, IsEmpty, Front, Slice, Each (complete), Each (stopped after Len/2+1 calls),
     Peek(k) for k = -(Len+2) .. Len+1. *)
From Coq Require Import ZArith List Bool.
Import ListNotations.
From Mds Require Import Queue.QueueModel Queue.QueueSpec Queue.QueueUnitModel.
Local Open Scope Z_scope.

Definition zrange (lo : Z) (cnt : nat) : list Z := map (fun i => lo + Z.of_nat i) (seq 0 cnt).

Definition observer_ops (T : Type) (len : Z) : list (op T) :=
  [OLen; OIsEmpty; OFront; OSlice; OEach (Z.to_nat (len + 1)); OEach (Z.to_nat (len / 2))]
  ++ map (fun k => OPeek k) (zrange (- (len + 2)) (Z.to_nat (2 * len + 4))).

Section Obs.
Variable w : Z -> Z.
Variable T : Type.
Variable zero : T.

Inductive rec :=
| Rec (ret : out T) (hook : Z * Z * Z) (obs : list (res (out T)))
| RecStop (r : res (out T)).

Definition record (ret : out T) (q : queue T) : rec :=
  Rec ret (hook_state T q) (run w T zero q (observer_ops T (n q))).

Fixpoint trace_from (q : queue T) (ops : list (op T)) : list rec :=
  match ops with
  | [] => []
  | o :: rest =>
    match step w T zero q o with
    | QOk (q', r) => record r q' :: trace_from q' rest
    | QPanic k => [RecStop (QPanic k)]
    | BadOracle => [RecStop BadOracle]
    | RotateFuel => [RecStop RotateFuel]
    end
  end.

Definition trace (i : init) (ops : list (op T)) : list rec :=
  match mk_init T zero i with
  | QOk q => record RUnit q :: trace_from q ops
  | QPanic k => [RecStop (QPanic k)]
  | BadOracle => [RecStop BadOracle]
  | RotateFuel => [RecStop RotateFuel]
  end.

(* the reference's records: return value and observer outputs of the plain list *)
Definition spec_record (ret : out T) (l : list T) : out T * list (out T) :=
  (ret, map (fun o => snd (spec_step T zero l o)) (observer_ops T (Z.of_nat (length l)))).

Fixpoint spec_trace_from (l : list T) (ops : list (op T)) : list (out T * list (out T)) :=
  match ops with
  | [] => []
  | o :: rest => let '(l', r) := spec_step T zero l o in spec_record r l' :: spec_trace_from l' rest
  end.

Definition spec_trace (ops : list (op T)) : list (out T * list (out T)) :=
  spec_record RUnit [] :: spec_trace_from [] ops.
End Obs.

(* the same for the zero-size element type, on the length-only model *)
Section UObs.
Variable w : Z -> Z.

Inductive urec :=
| URec (ret : uout) (hook : Z * Z * Z) (obs : list (res uout))
| URecStop (r : res uout).

Definition urecord (ret : uout) (q : ustate) : urec :=
  URec ret (uhook_state q) (urun w q (observer_ops unit (un q))).

Fixpoint utrace_from (q : ustate) (ops : list (op unit)) : list urec :=
  match ops with
  | [] => []
  | o :: rest =>
    match ustep w q o with
    | QOk (q', r) => urecord r q' :: utrace_from q' rest
    | QPanic k => [URecStop (QPanic k)]
    | BadOracle => [URecStop BadOracle]
    | RotateFuel => [URecStop RotateFuel]
    end
  end.

Definition utrace (i : init) (ops : list (op unit)) : list urec :=
  match umk_init i with
  | QOk q => urecord UUnit q :: utrace_from q ops
  | QPanic k => [URecStop (QPanic k)]
  | BadOracle => [URecStop BadOracle]
  | RotateFuel => [URecStop RotateFuel]
  end.

(* a record in which something panicked: the operation itself, or one of the observations made
   after it (the harness cannot tell the two apart: both end the history with panic:<kind>) *)
Definition is_panic {A : Type} (r : res A) : bool := match r with QPanic _ => true | _ => false end.
Definition urec_panics (r : urec) : bool :=
  match r with URecStop x => is_panic x | URec _ _ obs => existsb is_panic obs end.
(* the first k records and whether record k panics *)
Definition utrace_upto (k : nat) (i : init) (ops : list (op unit)) : list urec * option bool :=
  let t := utrace i ops in (firstn k t, option_map urec_panics (nth_error t k)).

(* the reference's records for unit elements, through oshape *)
Definition uspec_trace (ops : list (op unit)) : list (uout * list uout) :=
  map (fun p : out unit * list (out unit) => (oshape (fst p), map oshape (snd p))) (spec_trace unit tt ops).
End UObs.
