(* The queue model specialised to a ZERO-SIZE element type (Go: struct{}), definitions only.

   For T = unit every element is tt, so a buffer is determined by its length: the state is
   {ulen; uhead; un} with ulen = len(q.vs), and every buffer operation of QueueModel.v becomes the
   bounds check it performs (a read or store at i succeeds iff 0 <= i < ulen; make, append, w[:hi]
   and slice.Rotate produce lengths).  The methods below are QueueModel's, line by line, over the
   same generated definitions of Gen/QueueIdx.v and the same width parameter [w]; QueueUnitProofs.v
   proves that this IS the main model run on unit elements (for every width, state and operation).

   Why it exists: a zero-size element type is the only way to a buffer longer than 2^62 slots
   (make([]struct{}, math.MaxInt) succeeds), where Go's 64-bit ints and unbounded integers part
   ways (known finding F11).  A list of 2^63 units cannot be built, a length can: this model is
   what replays queue.Queue[struct{}] histories with such capacities. *)
From Coq Require Import ZArith List Bool.
Import ListNotations.
From Mds Require Import Gen.QueueIdx Queue.QueueModel.
From Mds Require Gen.SliceIdx Slice.SliceUtilModel.
Local Open Scope Z_scope.

Record ustate := { ulen : Z; uhead : Z; un : Z }.

(* outputs: element values carry no information; lists are their lengths *)
Inductive uout := UUnit | UVal (ok : bool) | UInt (z : Z) | UBool (b : bool) | UElem | UList (k : Z).

(* q.vs[i] (read or store) on a buffer of L slots *)
Definition uin (L i : Z) : bool := (0 <=? i) && (i <? L).
Definition uget (L i : Z) : res unit := if uin L i then QOk tt else QPanic PIndex.
Definition ustore (L i : Z) : res Z := if uin L i then QOk L else QPanic PIndex.
(* make([]T, k) *)
Definition umake (k : Z) : res Z := if k <? 0 then QPanic PMakeLen else QOk k.
(* slice.Rotate(ss, k) on L slots: its offset check (sliceCheck, generated from slice/slice.go);
   the permutation itself moves equal elements *)
Definition urotate (L k : Z) : res Z :=
  let ko := SliceUtilModel.slice_check (SliceIdx.rot_arg_k k L) (SliceIdx.rot_arg_n k L) in
  if SliceIdx.rot_bad (snd ko) then QPanic PRotate else QOk L.
(* append(s, v) with cap(w) = c: length of the backing array; w[:hi] *)
Definition uappend (L c : Z) : option Z := if c >? L then Some c else None.
Definition ureslice (Lw c hi : Z) : option Z :=
  if (0 <=? hi) && (hi <=? c) then Some (Z.min hi Lw) else None.

Section Unit.
Variable w : Z -> Z.

Definition unew_size (k : Z) : res ustate :=
  do b <- umake (newsize_len k);
  QOk {| ulen := b; uhead := 0; un := 0 |}.

Definition urotate_home (cond : Z -> bool) (kf : Z -> Z) (newhead : Z) (q : ustate) : res (Z * Z) :=
  if cond (uhead q) then
    do r <- urotate (ulen q) (w (kf (uhead q)));
    QOk (r, newhead)
  else QOk (ulen q, uhead q).

Definition uadd (q : ustate) (c : Z) : res ustate :=
  let len := ulen q in
  if add_has_room (un q) len then
    let pos := w (add_pos (uhead q) (un q)) in
    let pos := if add_wrap_cond pos len then w (add_wrap_pos pos len) else pos in
    do len' <- ustore len (add_store_idx pos);
    QOk {| ulen := len'; uhead := uhead q; un := w (add_n (un q)) |}
  else
    do (len1, head1) <- urotate_home add_rot_cond add_rot_k add_rot_head q;
    match uappend len1 c with
    | None => BadOracle
    | Some lw =>
      do len2 <- of_opt (ureslice lw c (add_grow_hi c)) PIndex;
      QOk {| ulen := len2; uhead := head1; un := w (add_grow_n (un q)) |}
    end.

Definition upush (q : ustate) (c : Z) : res ustate :=
  let len := ulen q in
  if push_has_room (un q) len then
    let pos := w (push_pos (uhead q)) in
    let pos := if push_wrap_cond pos then w (push_wrap_pos len (un q)) else pos in
    do len' <- ustore len (push_store_idx pos);
    QOk {| ulen := len'; uhead := push_head pos; un := w (push_n (un q)) |}
  else
    do (len1, head1) <- urotate_home push_rot_cond push_rot_k push_rot_head q;
    match uappend len1 c with
    | None => BadOracle
    | Some lw =>
      do len2 <- of_opt (ureslice lw c (push_grow_hi c)) PIndex;
      let head2 := w (push_grow_head len2) in
      do len3 <- ustore len2 (push_grow_store_idx head2);
      QOk {| ulen := len3; uhead := head2; un := w (push_grow_n (un q)) |}
    end.

Definition uis_empty (q : ustate) : bool := isempty_ret (un q).
Definition ulength (q : ustate) : Z := len_ret (un q).
Definition uclear (q : ustate) : ustate := {| ulen := 0; uhead := clear_head; un := clear_n |}.

Definition ufront (q : ustate) : res unit :=
  if front_empty (un q) then QOk tt else uget (ulen q) (front_idx (uhead q)).

Definition upeek (q : ustate) (k : Z) : res bool :=
  let k := if peek_neg k then w (peek_adj k (un q)) else k in
  if peek_out k (un q) then QOk false
  else
    do p <- checked_rem (ulen q) (w (peek_idx_rem (w (uhead q + k)) (ulen q)));
    do _x <- uget (ulen q) (peek_load_idx p);
    QOk true.

Definition upop (q : ustate) : res (ustate * bool) :=
  if pop_empty (un q) then QOk (q, false)
  else
    do _x <- uget (ulen q) (pop_idx (uhead q));
    let n' := w (pop_n (un q)) in
    do head' <- (if pop_now_empty n' then QOk pop_head_reset
                 else checked_rem (ulen q) (w (pop_head_rem (w (uhead q + 1)) (ulen q))));
    QOk ({| ulen := ulen q; uhead := head'; un := n' |}, true).

Definition upop_last (q : ustate) : res (ustate * bool) :=
  if poplast_empty (un q) then QOk (q, false)
  else
    let len := ulen q in
    let pos := w (poplast_pos (uhead q) (un q)) in
    let pos := if poplast_wrap_cond pos len then w (poplast_wrap_pos pos len) else pos in
    do _x <- uget len (poplast_idx pos);
    let n' := w (poplast_n (un q)) in
    let head' := if poplast_now_empty n' then poplast_head_reset else uhead q in
    QOk ({| ulen := len; uhead := head'; un := n' |}, true).

Section UEach.
Variable A : Type.
Variable f : A -> unit -> A * bool.
Fixpoint ueach_loop (k : nat) (L : Z) (cur : Z) (a : A) : res A :=
  match k with
  | O => QOk a
  | S k' =>
    do x <- uget L (each_idx cur);
    let '(a', continue) := f a x in
    if each_stop continue then QOk a'
    else
      do cur' <- checked_rem L (w (each_next_rem (w (cur + 1)) L));
      ueach_loop k' L cur' a'
  end.
Definition ueach (q : ustate) (a : A) : res A :=
  ueach_loop (Z.to_nat (each_count (un q))) (ulen q) (each_start (uhead q)) a.
End UEach.

(* Slice(): the fresh buffer is its length bl *)
Fixpoint uslice_loop (k : nat) (i : Z) (L : Z) (cur : Z) (bl : Z) : res Z :=
  match k with
  | O => QOk bl
  | S k' =>
    do _x <- uget L (slice_src_idx cur);
    do bl' <- ustore bl (slice_dst_idx i);
    do cur' <- checked_rem L (w (slice_next_rem (w (cur + 1)) L));
    uslice_loop k' (i + 1) L cur' bl'
  end.
Definition uslice (q : ustate) : res Z :=
  if slice_empty (un q) then QOk 0
  else
    do bl <- umake (slice_buflen (un q));
    uslice_loop (Z.to_nat (slice_count (un q))) 0 (ulen q) (slice_start (uhead q)) bl.

Definition uhook_state (q : ustate) : Z * Z * Z := (uhead q, un q, ulen q).

Definition umk_init (i : init) : res ustate :=
  match i with
  | IZero | INew => QOk {| ulen := 0; uhead := 0; un := 0 |}
  | ISize k => unew_size k
  end.

Definition ustep (q : ustate) (o : op unit) : res (ustate * uout) :=
  match o with
  | OAdd _ c => do q' <- uadd q c; QOk (q', UUnit)
  | OPush _ c => do q' <- upush q c; QOk (q', UUnit)
  | OPop => do (q', ok) <- upop q; QOk (q', UVal ok)
  | OPopLast => do (q', ok) <- upop_last q; QOk (q', UVal ok)
  | OClear => QOk (uclear q, UUnit)
  | OLen => QOk (q, UInt (ulength q))
  | OIsEmpty => QOk (q, UBool (uis_empty q))
  | OFront => do _v <- ufront q; QOk (q, UElem)
  | OPeek k => do ok <- upeek q k; QOk (q, UVal ok)
  | OEach m => do (acc, _) <- ueach _ (collect unit) q ([], m); QOk (q, UList (Z.of_nat (length acc)))
  | OSlice => do l <- uslice q; QOk (q, UList l)
  end.

Fixpoint urun (q : ustate) (ops : list (op unit)) : list (res uout) :=
  match ops with
  | [] => []
  | o :: rest =>
    match ustep q o with
    | QOk (q', r) => QOk r :: urun q' rest
    | QPanic k => [QPanic k]
    | BadOracle => [BadOracle]
    | RotateFuel => [RotateFuel]
    end
  end.

Definition urun_init (i : init) (ops : list (op unit)) : list (res uout) :=
  match umk_init i with
  | QOk q => urun q ops
  | QPanic k => [QPanic k]
  | BadOracle => [BadOracle]
  | RotateFuel => [RotateFuel]
  end.

End Unit.

(* what the main model's results look like through "every element is tt" *)
Definition shape (q : queue unit) : ustate := {| ulen := zlen unit (vs q); uhead := head q; un := n q |}.
Definition oshape (r : out unit) : uout :=
  match r with
  | RUnit => UUnit | RVal _ ok => UVal ok | RInt z => UInt z | RBool b => UBool b
  | RElem _ => UElem | RList l => UList (Z.of_nat (length l))
  end.
Definition rmap {A B} (f : A -> B) (r : res A) : res B :=
  match r with QOk a => QOk (f a) | QPanic k => QPanic k | BadOracle => BadOracle | RotateFuel => RotateFuel end.

Definition ustep64 := ustep wrap64.
Definition ustep_ideal := ustep idw.
