(* Machine integers for C07.  The model takes the int width as a parameter: [idw] (unbounded Z,
   the width the refinement proof in QueueProofs.v is about) and [wrap64] (Go's int: every +, -,
   unary - result reduced to [-2^63, 2^63)).  Here: in every state satisfying the ring invariant
   whose buffer is at most 2^62 long, every operation with int arguments computes exactly the same
   at both widths -- no intermediate value leaves the int range -- hence whole histories do, and
   the refinement theorem holds for the 64-bit model.  Beyond the bound it does not:
   [width_bound_needed] (NewSize(2^63-1) on a zero-size element type; Push, Add, Add panics). *)
From Coq Require Import ZArith List Bool Lia.
Import ListNotations.
From Mds Require Import Gen.QueueIdx Queue.QueueModel Queue.QueueSpec Queue.QueueProofs.
From Mds Require Slice.SliceUtilModel Slice.SliceUtilProofsInt.
Local Open Scope Z_scope.

Definition int64 (z : Z) : Prop := - 9223372036854775808 <= z < 9223372036854775808.

Example int64_is_2_63 : 9223372036854775808 = 2 ^ 63 /\ 18446744073709551616 = 2 ^ 64 /\ cap_bound = 2 ^ 62.
Proof. repeat split. Qed.

Lemma wrap64_id : forall z, int64 z -> wrap64 z = z.
Proof.
  intros z H. unfold int64, wrap64 in *.
  replace ((- 9223372036854775808 <=? z) && (z <? 9223372036854775808)) with true; [reflexivity|].
  symmetry. apply andb_true_iff. split; [apply Z.leb_le|apply Z.ltb_lt]; lia.
Qed.

(* wrap64 is reduction modulo 2^64 into [-2^63, 2^63), for every z *)
Lemma wrap64_is_mod : forall z, wrap64 z = (z + 2 ^ 63) mod 2 ^ 64 - 2 ^ 63.
Proof.
  intros z. change (2 ^ 63) with 9223372036854775808. change (2 ^ 64) with 18446744073709551616.
  unfold wrap64.
  destruct ((- 9223372036854775808 <=? z) && (z <? 9223372036854775808)) eqn:E; [|reflexivity].
  apply andb_true_iff in E. destruct E as [A B]. apply Z.leb_le in A. apply Z.ltb_lt in B.
  rewrite Z.mod_small by lia. lia.
Qed.

Lemma wrap64_range : forall z, int64 (wrap64 z).
Proof.
  intros z. rewrite wrap64_is_mod. change (2 ^ 63) with 9223372036854775808. change (2 ^ 64) with 18446744073709551616.
  unfold int64. pose proof (Z.mod_pos_bound (z + 9223372036854775808) 18446744073709551616). lia.
Qed.

Ltac zb := repeat match goal with
  | H : (_ <? _) = true |- _ => apply Z.ltb_lt in H
  | H : (_ <? _) = false |- _ => apply Z.ltb_ge in H
  | H : (_ <=? _) = true |- _ => apply Z.leb_le in H
  | H : (_ <=? _) = false |- _ => apply Z.leb_gt in H
  | H : (_ =? _) = true |- _ => apply Z.eqb_eq in H
  | H : (_ =? _) = false |- _ => apply Z.eqb_neq in H
  | H : (_ >=? _) = _ |- _ => rewrite Z.geb_leb in H
  | H : (_ >? _) = _ |- _ => rewrite Z.gtb_ltb in H
  end.

(* replace every wrap64 x whose argument is provably an int by x *)
Ltac w64 := repeat match goal with
  | |- context [wrap64 ?x] => rewrite (wrap64_id x) by (unfold int64; lia)
  end.

Lemma rem_range : forall s L, 0 <= s -> 0 < L -> 0 <= Z.rem s L < L.
Proof. intros. apply Z.rem_bound_pos; lia. Qed.

Section Width.
Variable T : Type.
Variable zero : T.

Lemma add_width : forall q v c, inv T q -> zlen T (vs q) <= cap_bound ->
  add wrap64 T zero q v c = add idw T zero q v c.
Proof.
  intros q v c (Hn & Hh0 & Hh & He) HB. unfold add, rotate_home, idw.
  unfold add_has_room, add_pos, add_wrap_cond, add_wrap_pos, add_store_idx, add_n, add_rot_cond,
    add_rot_k, add_rot_head, add_grow_n.
  cbv zeta. set (L := zlen T (vs q)) in *. unfold cap_bound in HB.
  destruct (n q <? L) eqn:E; zb; w64; reflexivity.
Qed.

Lemma reslice_len : forall (arr l : list T) c hi, reslice T arr c hi = Some l -> 0 <= zlen T l <= hi.
Proof.
  intros arr l c hi H. unfold reslice in H.
  destruct ((0 <=? hi) && (hi <=? c)) eqn:E; [|discriminate].
  apply andb_true_iff in E. destruct E as [E1 E2]. zb.
  inversion H; subst. unfold zlen. rewrite firstn_length. lia.
Qed.

Lemma push_width : forall q v c, inv T q -> zlen T (vs q) <= cap_bound -> c <= cap_bound ->
  push wrap64 T zero q v c = push idw T zero q v c.
Proof.
  intros q v c (Hn & Hh0 & Hh & He) HB Hc. unfold push, rotate_home, idw.
  unfold push_has_room, push_pos, push_wrap_cond, push_wrap_pos, push_store_idx, push_head, push_n,
    push_rot_cond, push_rot_k, push_rot_head, push_grow_n, push_grow_head, push_grow_hi, push_grow_store_idx.
  cbv zeta. set (L := zlen T (vs q)) in *. unfold cap_bound in HB, Hc.
  destruct (n q <? L) eqn:E; zb.
  - w64. reflexivity.
  - w64.
    destruct (if head q >? 0 then do r <- rotate_go T (vs q) (- head q); QOk (r, 0) else QOk (vs q, head q))
      as [[vs1 head1]| | |]; cbn [bind]; try reflexivity.
    destruct (append_cap T zero vs1 v c) as [wbuf|]; [|reflexivity].
    destruct (reslice T wbuf c c) as [vs2|] eqn:R; cbn [of_opt bind]; [|reflexivity].
    pose proof (reslice_len _ _ _ _ R). w64. reflexivity.
Qed.

Lemma peek_width : forall q k, inv T q -> zlen T (vs q) <= cap_bound -> int64 k ->
  peek wrap64 T zero q k = peek idw T zero q k.
Proof.
  intros q k (Hn & Hh0 & Hh & He) HB Hk. unfold peek, idw.
  unfold peek_neg, peek_adj, peek_out, peek_idx_rem, peek_load_idx.
  cbv zeta. set (L := zlen T (vs q)) in *. unfold cap_bound in HB. unfold int64 in Hk.
  destruct (k <? 0) eqn:E; zb.
  - w64. destruct ((k + n q <? 0) || (k + n q >=? n q)) eqn:E2; [reflexivity|].
    apply orb_false_iff in E2. destruct E2 as [A B]. zb. w64.
    unfold checked_rem. destruct (L =? 0) eqn:E0; [reflexivity|]. zb.
    pose proof (rem_range (head q + (k + n q)) L). w64. reflexivity.
  - destruct ((k <? 0) || (k >=? n q)) eqn:E2; [reflexivity|].
    apply orb_false_iff in E2. destruct E2 as [A B]. zb. w64.
    unfold checked_rem. destruct (L =? 0) eqn:E0; [reflexivity|]. zb.
    pose proof (rem_range (head q + k) L). w64. reflexivity.
Qed.

Lemma pop_width : forall q, inv T q -> zlen T (vs q) <= cap_bound ->
  pop wrap64 T zero q = pop idw T zero q.
Proof.
  intros q (Hn & Hh0 & Hh & He) HB. unfold pop, idw.
  unfold pop_empty, pop_idx, pop_n, pop_now_empty, pop_head_reset, pop_head_rem.
  cbv zeta. set (L := zlen T (vs q)) in *. unfold cap_bound in HB.
  destruct (n q =? 0) eqn:E; [reflexivity|]. zb. w64.
  destruct (of_opt (idx T (vs q) (head q)) PIndex); cbn [bind]; try reflexivity.
  destruct (n q - 1 =? 0); [reflexivity|].
  unfold checked_rem. destruct (L =? 0) eqn:E0; [reflexivity|]. zb.
  pose proof (rem_range (head q + 1) L). w64. reflexivity.
Qed.

Lemma pop_last_width : forall q, inv T q -> zlen T (vs q) <= cap_bound ->
  pop_last wrap64 T zero q = pop_last idw T zero q.
Proof.
  intros q (Hn & Hh0 & Hh & He) HB. unfold pop_last, idw.
  unfold poplast_empty, poplast_pos, poplast_wrap_cond, poplast_wrap_pos, poplast_idx, poplast_n,
    poplast_now_empty, poplast_head_reset.
  cbv zeta. set (L := zlen T (vs q)) in *. unfold cap_bound in HB.
  destruct (n q =? 0) eqn:E; [reflexivity|]. zb. w64. reflexivity.
Qed.

Section EachWidth.
Variable A : Type.
Variable f : A -> T -> A * bool.
Lemma each_loop_width : forall k b cur a, zlen T b <= cap_bound -> 0 <= cur <= cap_bound ->
  each_loop wrap64 T A f k b cur a = each_loop idw T A f k b cur a.
Proof.
  induction k as [|k IH]; intros b cur a HB Hc; [reflexivity|].
  cbn [each_loop]. unfold each_idx, each_next_rem, each_stop, idw.
  destruct (of_opt (idx T b cur) PIndex); cbn [bind]; try reflexivity.
  destruct (f a a0) as [a' cont]. destruct (negb cont); [reflexivity|].
  unfold checked_rem. destruct (zlen T b =? 0) eqn:E0; [reflexivity|]. zb.
  unfold cap_bound in *. pose proof (zlen_nonneg T b).
  pose proof (rem_range (cur + 1) (zlen T b)). w64. cbn [bind].
  apply IH; unfold cap_bound; lia.
Qed.

Lemma each_width : forall q a, inv T q -> zlen T (vs q) <= cap_bound ->
  each wrap64 T A f q a = each idw T A f q a.
Proof.
  intros q a (Hn & Hh0 & Hh & He) HB. unfold each, each_start. apply each_loop_width; [exact HB|].
  unfold cap_bound in *. lia.
Qed.
End EachWidth.

Lemma slice_loop_width : forall k i b cur buf, zlen T b <= cap_bound -> 0 <= cur <= cap_bound ->
  slice_loop wrap64 T k i b cur buf = slice_loop idw T k i b cur buf.
Proof.
  induction k as [|k IH]; intros i b cur buf HB Hc; [reflexivity|].
  cbn [slice_loop]. unfold slice_src_idx, slice_dst_idx, slice_next_rem, idw.
  destruct (of_opt (idx T b cur) PIndex); cbn [bind]; try reflexivity.
  destruct (of_opt (upd T buf i a) PIndex); cbn [bind]; try reflexivity.
  unfold checked_rem. destruct (zlen T b =? 0) eqn:E0; [reflexivity|]. zb.
  unfold cap_bound in *. pose proof (zlen_nonneg T b).
  pose proof (rem_range (cur + 1) (zlen T b)). w64. cbn [bind].
  apply IH; unfold cap_bound; lia.
Qed.

Lemma slice_width : forall q, inv T q -> zlen T (vs q) <= cap_bound ->
  slice wrap64 T zero q = slice idw T zero q.
Proof.
  intros q (Hn & Hh0 & Hh & He) HB. unfold slice, slice_start.
  destruct (slice_empty (n q)); [reflexivity|].
  destruct (of_opt (make T zero (slice_buflen (n q))) PMakeLen); cbn [bind]; try reflexivity.
  apply slice_loop_width; [exact HB|]. unfold cap_bound in *. lia.
Qed.

(* Inside slice.Rotate the model computes in Z at both widths.  The C17 slice has the 64-bit
   re-statement of Rotate ([rotate_impl64]: wrap-around after every + in sliceCheck and in the
   cycle-chasing loop) and proves it equal to [rotate_impl] below 2^62 elements; so the Rotate call
   that Add/Push make in a state satisfying the invariant -- with the offset computed at 64 bits --
   returns what the model's call returns.  (At exactly 2^62 slots C17's bound is strict; hence <.) *)
Theorem rotate_call_width : forall q, inv T q -> zlen T (vs q) < cap_bound ->
  SliceUtilProofsInt.rotate_impl64 (vs q) (wrap64 (add_rot_k (head q)))
    = SliceUtilModel.rotate_impl (vs q) (idw (add_rot_k (head q))) /\
  SliceUtilProofsInt.rotate_impl64 (vs q) (wrap64 (push_rot_k (head q)))
    = SliceUtilModel.rotate_impl (vs q) (idw (push_rot_k (head q))).
Proof.
  intros q (Hn & Hh0 & Hh & He) HB. unfold add_rot_k, push_rot_k, idw, cap_bound in *.
  rewrite (wrap64_id (- head q)) by (unfold int64; lia).
  assert (E : SliceUtilProofsInt.rotate_impl64 (vs q) (- head q) = SliceUtilModel.rotate_impl (vs q) (- head q)).
  { apply SliceUtilProofsInt.rotate_impl64_eq.
    - unfold SliceUtilProofsInt.int64. rewrite SliceUtilProofsInt.pow63. lia.
    - unfold SliceUtilProofsInt.len62. rewrite SliceUtilProofsInt.pow62.
      change (SliceUtilModel.zlen (vs q)) with (zlen T (vs q)). lia. }
  split; exact E.
Qed.

(* one operation: the 64-bit model and the unbounded model compute the same result *)
Theorem step_width : forall q o, inv T q -> zlen T (vs q) <= cap_bound -> op_small T o ->
  step wrap64 T zero q o = step idw T zero q o.
Proof.
  intros q o Hinv HB Ho. destruct o as [v c|v c| | | | | | |k|m|]; cbn [step op_small] in *.
  - rewrite add_width by assumption. reflexivity.
  - rewrite push_width by assumption. reflexivity.
  - rewrite pop_width by assumption. reflexivity.
  - rewrite pop_last_width by assumption. reflexivity.
  - reflexivity.
  - reflexivity.
  - reflexivity.
  - reflexivity.
  - rewrite peek_width by (unfold int64; assumption || lia). reflexivity.
  - rewrite each_width by assumption. reflexivity.
  - rewrite slice_width by assumption. reflexivity.
Qed.

(* a successful step keeps the invariant and the bound *)
Lemma step_keeps : forall q o q' r, inv T q -> zlen T (vs q) <= cap_bound -> op_small T o ->
  step idw T zero q o = QOk (q', r) -> inv T q' /\ zlen T (vs q') <= cap_bound.
Proof.
  intros q o q' r Hinv HB Ho Hs.
  destruct (oracle_valid_dec T (zlen T (vs q)) (n q) o) as [Hv|Hv].
  - destruct (step_refines T zero q o Hinv Hv) as (q1 & r1 & Hs1 & Hi & _ & Hc).
    rewrite Hs1 in Hs. inversion Hs; subst q1 r1. split; [exact Hi|].
    assert (E : zlen T (vs q') = fst (cap_next T (zlen T (vs q)) (n q) o)) by (rewrite <- Hc; reflexivity).
    rewrite E. destruct o as [v c|v c| | | | | | |k|m|]; cbn [cap_next fst op_small] in *;
      try assumption; try (destruct (n q <? zlen T (vs q)); assumption).
    unfold cap_bound. lia.
  - rewrite (step_bad_oracle T zero q o Hinv Hv) in Hs. discriminate.
Qed.

Theorem run_width : forall ops q, inv T q -> zlen T (vs q) <= cap_bound -> ops_small T ops ->
  run wrap64 T zero q ops = run idw T zero q ops.
Proof.
  induction ops as [|o ops IH]; intros q Hinv HB Hops; [reflexivity|].
  inversion Hops as [|o' ops' Ho Hrest]; subst.
  cbn [run]. rewrite (step_width q o Hinv HB Ho).
  destruct (step idw T zero q o) as [[q' r]| | |] eqn:Hs; try reflexivity.
  destruct (step_keeps q o q' r Hinv HB Ho Hs) as [Hi' HB'].
  f_equal. apply IH; assumption.
Qed.

(* whole histories, whatever the oracles *)
Theorem history_width : forall i ops, init_ok i -> init_cap i <= cap_bound -> ops_small T ops ->
  run_init wrap64 T zero i ops = run_init idw T zero i ops.
Proof.
  intros i ops Hi Hc Hops. destruct (mk_init_ok T zero i Hi) as (q & Hq & Hinv & _ & Hl & _).
  unfold run_init. rewrite Hq. apply run_width; [exact Hinv| rewrite Hl; exact Hc | exact Hops].
Qed.

(* the refinement theorem for the 64-bit model *)
Theorem history64 : forall i ops, init_ok i -> init_cap i <= cap_bound -> ops_small T ops ->
  oracles_ok T (init_cap i) 0 ops ->
  run_init64 T zero i ops = map QOk (spec_run T zero [] ops).
Proof.
  intros i ops Hi Hc Hops Hor. unfold run_init64. rewrite history_width by assumption.
  apply history; assumption.
Qed.


(* ---- beyond the bound the widths differ: a ring of 2^63-1 slots (possible only for a zero-size
   element type: make([]struct{}, math.MaxInt) succeeds), Push (head = 2^63-2), Add, Add:
   head + n = 2^63 wraps to -2^63 in the second Add, which is not >= len, and the store panics.
   The buffer is never computed: N is kept symbolic. *)
Section Beyond.
Variable N : Z.
Hypothesis HN : N = 9223372036854775807.
Variable v : T.

Lemma beyond_push : forall q, zlen T (vs q) = N -> head q = 0 -> n q = 0 ->
  exists q1, push wrap64 T zero q v 0 = QOk q1 /\ zlen T (vs q1) = N /\ head q1 = N - 1 /\ n q1 = 1.
Proof.
  intros q HL Hh Hn. unfold push.
  unfold push_has_room, push_pos, push_wrap_cond, push_wrap_pos, push_store_idx, push_head, push_n.
  cbv zeta. rewrite HL, Hh, Hn.
  replace (0 <? N) with true by (symmetry; apply Z.ltb_lt; lia).
  replace (wrap64 (0 - 1)) with (-1) by reflexivity.
  replace (-1 <? 0) with true by reflexivity.
  rewrite (wrap64_id (N - 1)) by (unfold int64; lia).
  destruct (upd_some T zero (vs q) (N - 1) v) as (vs' & Hu & Hl & _); [lia|].
  rewrite Hu. cbn [of_opt bind]. eexists. split; [reflexivity|]. cbn [vs head n].
  split; [lia|]. split; reflexivity.
Qed.

Lemma beyond_add1 : forall q, zlen T (vs q) = N -> head q = N - 1 -> n q = 1 ->
  exists q2, add wrap64 T zero q v 0 = QOk q2 /\ zlen T (vs q2) = N /\ head q2 = N - 1 /\ n q2 = 2.
Proof.
  intros q HL Hh Hn. unfold add.
  unfold add_has_room, add_pos, add_wrap_cond, add_wrap_pos, add_store_idx, add_n.
  cbv zeta. rewrite HL, Hh, Hn.
  replace (1 <? N) with true by (symmetry; apply Z.ltb_lt; lia).
  rewrite (wrap64_id (N - 1 + 1)) by (unfold int64; lia).
  replace (N - 1 + 1 >=? N) with true by (symmetry; rewrite Z.geb_leb; apply Z.leb_le; lia).
  replace (N - 1 + 1 - N) with 0 by lia.
  replace (wrap64 0) with 0 by reflexivity. replace (wrap64 (1 + 1)) with 2 by reflexivity.
  destruct (upd_some T zero (vs q) 0 v) as (vs' & Hu & Hl & _); [lia|].
  rewrite Hu. cbn [of_opt bind]. eexists. split; [reflexivity|]. cbn [vs head n].
  split; [lia|]. split; reflexivity.
Qed.

Lemma beyond_add2 : forall q, zlen T (vs q) = N -> head q = N - 1 -> n q = 2 ->
  add wrap64 T zero q v 0 = QPanic PIndex.
Proof.
  intros q HL Hh Hn. unfold add.
  unfold add_has_room, add_pos, add_wrap_cond, add_wrap_pos, add_store_idx, add_n.
  cbv zeta. rewrite HL, Hh, Hn.
  replace (2 <? N) with true by (symmetry; apply Z.ltb_lt; lia).
  replace (wrap64 (N - 1 + 2)) with (- 9223372036854775808) by (rewrite HN; reflexivity).
  replace (- 9223372036854775808 >=? N) with false by (symmetry; rewrite Z.geb_leb; apply Z.leb_gt; lia).
  unfold upd. replace (0 <=? - 9223372036854775808) with false by reflexivity. reflexivity.
Qed.

Theorem width_bound_needed :
  run_init wrap64 T zero (ISize N) [OPush v 0; OAdd v 0; OAdd v 0] = [QOk RUnit; QOk RUnit; QPanic PIndex] /\
  run_init idw T zero (ISize N) [OPush v 0; OAdd v 0; OAdd v 0] = [QOk RUnit; QOk RUnit; QOk RUnit].
Proof.
  split.
  - destruct (mk_init_ok T zero (ISize N)) as (q0 & Hq & Hinv & _ & Hl & Hn0); [cbn; lia|].
    cbn [init_cap] in Hl. pose proof Hinv as (_ & _ & _ & He).
    unfold run_init. rewrite Hq.
    destruct (beyond_push q0 Hl (He Hn0) Hn0) as (q1 & P1 & L1 & H1 & N1).
    destruct (beyond_add1 q1 L1 H1 N1) as (q2 & P2 & L2 & H2 & N2).
    cbn [run step]. rewrite P1. cbn [bind]. rewrite P2. cbn [bind].
    rewrite (beyond_add2 q2 L2 H2 N2). reflexivity.
  - rewrite history; [reflexivity|cbn; lia|].
    cbn [oracles_ok oracle_valid cap_next init_cap fst snd].
    replace (0 <? N) with true by (symmetry; apply Z.ltb_lt; lia).
    replace (0 + 1 <? N) with true by (symmetry; apply Z.ltb_lt; lia).
    repeat split; lia.
Qed.
End Beyond.

End Width.
