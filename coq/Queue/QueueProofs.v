(* Proofs for C07: the ring-buffer model refines the plain-list reference over every history. *)
From Coq Require Import ZArith List Bool Lia.
Import ListNotations.
From Mds Require Import Gen.QueueIdx Queue.QueueModel Queue.QueueSpec.
From Mds Require Slice.SliceUtilModel Slice.SliceUtilSpec Slice.SliceUtilProofsRotate.
Local Open Scope Z_scope.

(* the shape the model's skeleton relies on: one slice.Rotate and one append in each of Add/Push *)
Example gen_call_counts :
  add_ncalls_rotate = 1 /\ add_ncalls_append = 1 /\ push_ncalls_rotate = 1 /\ push_ncalls_append = 1.
Proof. repeat split. Qed.

(* the sums the model wraps before taking the remainder are the ones in the Go source: the
   generated full expressions equal the generated remainders applied to the sums written in the model *)
Example gen_sum_ties :
  (forall h k l, peek_idx h k l = peek_idx_rem (h + k) l) /\
  (forall h l, pop_head_next h l = pop_head_rem (h + 1) l) /\
  (forall c l, each_next c l = each_next_rem (c + 1) l) /\
  (forall c l, slice_next c l = slice_next_rem (c + 1) l).
Proof. repeat split. Qed.

(* the statement skeleton of every function of queue.go (translator selector `shape`: one hex
   digit per statement -- if, for, range, return, assignment, call, ++/--, else, braces) is the one
   the model transcribes: an added guard, a dropped or reordered statement, a changed loop kind
   changes the number and this Example no longer holds.
   In hex (1 if, 2 for, 3 range, 4 return, 5 assignment, 6 call, 8 ++/--, d else, e {, f }):
   newsize = 0xe4f; new = 0xe4f; add = 0xe1e51e5f584f1e65f558f; push = 0xe1e51e5f5584f1e65f55558f; isempty = 0xe4f; len = 0xe4f; clear = 0xe5f; front = 0xe1e94f4f; peek = 0xe1e5f1e94f54f; pop = 0xe1e94f581e5fde5f4f; poplast = 0xe1e94f51e5f581e5f4f; each = 0xe53e1e4f5ff; slice = 0xe1e4f553e55f4f *)
Example gen_shapes :
  newsize_shape = 3663 /\
  new_shape = 3663 /\
  add_shape = 17068143225657446742578575 /\
  push_shape = 69911114652091879797741147535 /\
  isempty_shape = 3663 /\
  len_shape = 3663 /\
  clear_shape = 3679 /\
  front_shape = 3790163791 /\
  peek_shape = 3974043557754191 /\
  pop_shape = 4167329169406127136591 /\
  poplast_shape = 66677266601068076097359 /\
  each_shape = 15753434953215 /\
  slice_shape = 63583612085559119.
Proof. repeat split. Qed.

Section Proofs.
Variable T : Type.
Variable zero : T.

(* Peek with an offset outside [-n, n) answers (zero, false) in every state, even an ill-formed one. *)
Lemma peek_out_of_range : forall (q : queue T) (k : Z),
  k < - n q \/ k >= n q -> peek idw T zero q k = QOk (zero, false).
Proof.
  intros q k H. unfold peek, peek_neg, peek_adj, peek_out, idw.
  destruct (k <? 0) eqn:E.
  - apply Z.ltb_lt in E.
    destruct ((k + n q <? 0) || (k + n q >=? n q)) eqn:E2; [reflexivity|].
    apply orb_false_iff in E2. destruct E2 as [A B].
    apply Z.ltb_ge in A. rewrite Z.geb_leb in B. apply Z.leb_gt in B. lia.
  - apply Z.ltb_ge in E.
    destruct ((k <? 0) || (k >=? n q)) eqn:E2; [reflexivity|].
    apply orb_false_iff in E2. destruct E2 as [A B].
    rewrite Z.geb_leb in B. apply Z.leb_gt in B. lia.
Qed.


(* ------------------------------------------------------------------ lists, Z-indexed *)
Definition znth (l : list T) (i : Z) : T := nth (Z.to_nat i) l zero.

Lemma zlen_nonneg : forall l : list T, 0 <= zlen T l.
Proof. intros. unfold zlen. lia. Qed.

Lemma idx_znth : forall l i, 0 <= i < zlen T l -> idx T l i = Some (znth l i).
Proof.
  intros l i H. unfold idx, znth, zlen in *.
  destruct (i <? 0) eqn:E; [apply Z.ltb_lt in E; lia|].
  apply nth_error_nth'. lia.
Qed.

Lemma upd_some : forall l i v, 0 <= i < zlen T l ->
  exists l', upd T l i v = Some l' /\ zlen T l' = zlen T l /\
    (forall j, 0 <= j -> znth l' j = if j =? i then v else znth l j).
Proof.
  intros l i v H. unfold upd, zlen in *.
  assert (Hi : (Z.to_nat i < length l)%nat) by lia.
  replace ((0 <=? i) && (i <? Z.of_nat (length l))) with true
    by (symmetry; apply andb_true_iff; split; [apply Z.leb_le|apply Z.ltb_lt]; lia).
  eexists. split; [reflexivity|]. split.
  - rewrite app_length. cbn [length]. rewrite firstn_length, skipn_length. lia.
  - intros j Hj. unfold znth.
    assert (Hf : length (firstn (Z.to_nat i) l) = Z.to_nat i) by (rewrite firstn_length; lia).
    destruct (j =? i) eqn:E.
    + apply Z.eqb_eq in E. subst j.
      rewrite app_nth2 by lia. rewrite Hf, Nat.sub_diag. reflexivity.
    + apply Z.eqb_neq in E.
      destruct (Z_lt_le_dec j i) as [L|L].
      * rewrite app_nth1 by lia.
        rewrite <- (firstn_skipn (Z.to_nat i) l) at 2.
        rewrite app_nth1 by lia. reflexivity.
      * rewrite app_nth2 by lia. rewrite Hf.
        replace (Z.to_nat j - Z.to_nat i)%nat with (S (Z.to_nat j - Z.to_nat i - 1)) by lia.
        cbn [nth].
        rewrite <- (firstn_skipn (S (Z.to_nat i)) l) at 2.
        rewrite app_nth2 by (rewrite firstn_length; lia).
        rewrite firstn_length. f_equal. lia.
Qed.

Lemma upd_app : forall pre y r x, upd T (pre ++ y :: r) (zlen T pre) x = Some (pre ++ x :: r).
Proof.
  intros. unfold upd, zlen. rewrite app_length. cbn [length].
  replace ((0 <=? Z.of_nat (length pre)) && (Z.of_nat (length pre) <? Z.of_nat (length pre + S (length r)))) with true
    by (symmetry; apply andb_true_iff; split; [apply Z.leb_le|apply Z.ltb_lt]; lia).
  rewrite Nat2Z.id. f_equal.
  rewrite firstn_app, firstn_all, Nat.sub_diag. cbn [firstn]. rewrite app_nil_r. f_equal.
  replace (S (length pre)) with (length pre + 1)%nat by lia.
  rewrite skipn_app. rewrite skipn_all2 by lia.
  replace (length pre + 1 - length pre)%nat with 1%nat by lia. reflexivity.
Qed.

(* a mod b for 0 <= a < 2b *)
Lemma mod_wrap : forall a b, 0 < b -> 0 <= a < 2 * b -> a mod b = if a <? b then a else a - b.
Proof.
  intros a b Hb Ha. destruct (a <? b) eqn:E.
  - apply Z.ltb_lt in E. apply Z.mod_small. lia.
  - apply Z.ltb_ge in E. replace a with ((a - b) + 1 * b) at 1 by lia.
    rewrite Z.mod_add by lia. apply Z.mod_small. lia.
Qed.

Lemma rem_wrap : forall a b, 0 < b -> 0 <= a -> Z.rem a b = a mod b.
Proof. intros. apply Z.rem_mod_nonneg; lia. Qed.

Lemma nth_map_seq : forall (g : nat -> T) s k i, (i < k)%nat -> nth i (map g (seq s k)) zero = g (s + i)%nat.
Proof.
  intros g s k i H.
  rewrite (nth_indep _ zero (g 0%nat)) by (rewrite map_length, seq_length; lia).
  rewrite map_nth. rewrite seq_nth by lia. reflexivity.
Qed.

Lemma map_seq_id : forall l : list T, map (fun i => nth i l zero) (seq 0 (length l)) = l.
Proof.
  intros l. apply (nth_ext _ _ zero zero).
  - rewrite map_length, seq_length. reflexivity.
  - intros i Hi. rewrite map_length, seq_length in Hi. rewrite nth_map_seq by lia. reflexivity.
Qed.

Lemma map_seq_firstn : forall (l : list T) k, (k <= length l)%nat ->
  map (fun i => nth i l zero) (seq 0 k) = firstn k l.
Proof.
  intros l k H. apply (nth_ext _ _ zero zero).
  - rewrite map_length, seq_length, firstn_length. lia.
  - intros i Hi. rewrite map_length, seq_length in Hi. rewrite nth_map_seq by lia.
    rewrite <- (firstn_skipn k l) at 1. rewrite app_nth1 by (rewrite firstn_length; lia). reflexivity.
Qed.

Lemma map_seq_shift : forall (g : nat -> T) s k, map g (seq (S s) k) = map (fun i => g (S i)) (seq s k).
Proof. intros. rewrite <- seq_shift, map_map. reflexivity. Qed.


(* ------------------------------------------------------------------ abstraction and invariant *)
Definition ring (q : queue T) (i : nat) : T :=
  znth (vs q) ((head q + Z.of_nat i) mod zlen T (vs q)).

(* abs q = [ vs[(head+i) mod len] | i < n ] *)
Definition abs (q : queue T) : list T := map (ring q) (seq 0 (Z.to_nat (n q))).

Definition inv (q : queue T) : Prop :=
  0 <= n q <= zlen T (vs q) /\ 0 <= head q /\
  (head q < zlen T (vs q) \/ head q = 0) /\ (n q = 0 -> head q = 0).

Ltac zb := repeat match goal with
  | H : (_ <? _) = true |- _ => apply Z.ltb_lt in H
  | H : (_ <? _) = false |- _ => apply Z.ltb_ge in H
  | H : (_ <=? _) = true |- _ => apply Z.leb_le in H
  | H : (_ <=? _) = false |- _ => apply Z.leb_gt in H
  | H : (_ =? _) = true |- _ => apply Z.eqb_eq in H
  | H : (_ =? _) = false |- _ => apply Z.eqb_neq in H
  | H : (_ >=? _) = _ |- _ => rewrite Z.geb_leb in H
  | H : (_ >? _) = _ |- _ => rewrite Z.gtb_ltb in H
  end.

Lemma abs_length : forall q, length (abs q) = Z.to_nat (n q).
Proof. intros. unfold abs. rewrite map_length, seq_length. reflexivity. Qed.

Lemma abs_nil : forall q, n q <= 0 -> abs q = [].
Proof. intros q H. unfold abs. replace (Z.to_nat (n q)) with 0%nat by lia. reflexivity. Qed.

Lemma abs_head0 : forall q, head q = 0 -> 0 <= n q <= zlen T (vs q) ->
  abs q = firstn (Z.to_nat (n q)) (vs q).
Proof.
  intros q Hh Hn. unfold abs. rewrite <- map_seq_firstn by (unfold zlen in Hn; lia).
  apply map_ext_in. intros i Hi. apply in_seq in Hi. unfold ring, znth. rewrite Hh.
  rewrite Z.mod_small by (unfold zlen in *; lia). f_equal. lia.
Qed.

Lemma add_room : forall q v c, inv q -> n q < zlen T (vs q) ->
  exists q', add idw T zero q v c = QOk q' /\ inv q' /\ abs q' = abs q ++ [v] /\
             zlen T (vs q') = zlen T (vs q) /\ n q' = n q + 1.
Proof.
  intros q v c (Hn & Hh0 & Hh & He) Hroom.
  unfold add, add_has_room, add_pos, add_wrap_cond, add_wrap_pos, add_store_idx, add_n, idw.
  set (L := zlen T (vs q)) in *.
  replace (n q <? L) with true by (symmetry; apply Z.ltb_lt; lia).
  assert (HL : 0 < L) by lia.
  assert (Hh' : head q < L) by lia.
  set (pos := if head q + n q >=? L then head q + n q - L else head q + n q).
  assert (Hpos : pos = (head q + n q) mod L).
  { rewrite mod_wrap by lia. subst pos. rewrite Z.geb_leb.
    destruct (L <=? head q + n q) eqn:E1; destruct (head q + n q <? L) eqn:E2; zb; lia. }
  assert (Hpr : 0 <= pos < L) by (rewrite Hpos; apply Z.mod_pos_bound; lia).
  destruct (upd_some (vs q) pos v Hpr) as (vs' & Hu & Hl & Hz).
  rewrite Hu. cbn [of_opt bind]. eexists. split; [reflexivity|].
  split; [|split; [|split]]; cbn [vs head n].
  - unfold inv; cbn [vs head n]. rewrite Hl. fold L. repeat split; lia.
  - unfold abs; cbn [vs head n].
    replace (Z.to_nat (n q + 1)) with (S (Z.to_nat (n q))) by lia.
    rewrite seq_S, map_app. cbn [map Nat.add]. f_equal.
    + apply map_ext_in. intros i Hi. apply in_seq in Hi. unfold ring; cbn [vs head n].
      rewrite Hl. fold L. rewrite Hz by (apply Z.mod_pos_bound; lia).
      replace ((head q + Z.of_nat i) mod L =? pos) with false; [reflexivity|].
      symmetry. apply Z.eqb_neq. rewrite Hpos. rewrite !mod_wrap by lia.
      destruct (head q + Z.of_nat i <? L) eqn:E1; destruct (head q + n q <? L) eqn:E2; zb; lia.
    + unfold ring; cbn [vs head n]. rewrite Hl. fold L. rewrite Z2Nat.id by lia.
      rewrite Hz by (apply Z.mod_pos_bound; lia). rewrite <- Hpos, Z.eqb_refl. reflexivity.
  - exact Hl.
  - reflexivity.
Qed.


Lemma push_room : forall q v c, inv q -> n q < zlen T (vs q) ->
  exists q', push idw T zero q v c = QOk q' /\ inv q' /\ abs q' = v :: abs q /\
             zlen T (vs q') = zlen T (vs q) /\ n q' = n q + 1.
Proof.
  intros q v c (Hn & Hh0 & Hh & He) Hroom.
  unfold push, push_has_room, push_pos, push_wrap_cond, push_wrap_pos, push_store_idx, push_head, push_n, idw.
  set (L := zlen T (vs q)) in *.
  replace (n q <? L) with true by (symmetry; apply Z.ltb_lt; lia).
  assert (HL : 0 < L) by lia.
  assert (Hh' : head q < L) by lia.
  set (pos := if head q - 1 <? 0 then L - 1 else head q - 1).
  assert (Hpe : (head q = 0 /\ pos = L - 1) \/ (head q > 0 /\ pos = head q - 1)).
  { subst pos. destruct (head q - 1 <? 0) eqn:E; zb; lia. }
  assert (Hpr : 0 <= pos < L) by lia.
  destruct (upd_some (vs q) pos v Hpr) as (vs' & Hu & Hl & Hz).
  rewrite Hu. cbn [of_opt bind]. eexists. split; [reflexivity|].
  split; [|split; [|split]]; cbn [vs head n].
  - unfold inv; cbn [vs head n]. rewrite Hl. fold L. repeat split; lia.
  - unfold abs; cbn [vs head n].
    replace (Z.to_nat (n q + 1)) with (S (Z.to_nat (n q))) by lia.
    cbn [seq map]. f_equal.
    + unfold ring; cbn [vs head n]. rewrite Hl. fold L. rewrite Z.add_0_r, Z.mod_small by lia.
      rewrite Hz by lia. rewrite Z.eqb_refl. reflexivity.
    + rewrite map_seq_shift. apply map_ext_in. intros i Hi. apply in_seq in Hi.
      unfold ring; cbn [vs head n]. rewrite Hl. fold L.
      rewrite Hz by (apply Z.mod_pos_bound; lia).
      assert (Hm : (pos + Z.of_nat (S i)) mod L = (head q + Z.of_nat i) mod L).
      { rewrite !mod_wrap by lia.
        destruct (pos + Z.of_nat (S i) <? L) eqn:E1; destruct (head q + Z.of_nat i <? L) eqn:E2; zb; lia. }
      rewrite Hm.
      replace ((head q + Z.of_nat i) mod L =? pos) with false; [reflexivity|].
      symmetry. apply Z.eqb_neq. rewrite mod_wrap by lia.
      destruct (head q + Z.of_nat i <? L) eqn:E1; zb; lia.
  - exact Hl.
  - reflexivity.
Qed.


(* the "rotate to the initial regime" block, on a full ring: the buffer becomes exactly abs q *)
Lemma rotate_home_full : forall cond kf nh q,
  (forall h, cond h = (h >? 0)) -> (forall h, kf h = - h) -> nh = 0 ->
  inv q -> n q = zlen T (vs q) ->
  rotate_home idw T cond kf nh q = QOk (abs q, 0).
Proof.
  intros cond kf nh q Hc Hk Hnh (Hn & Hh0 & Hh & He) Hfull.
  unfold rotate_home, idw. rewrite Hc, Hk, Hnh.
  set (L := zlen T (vs q)) in *.
  destruct (head q >? 0) eqn:E; zb.
  - assert (Hh' : head q < L) by lia.
    unfold rotate_go.
    rewrite SliceUtilProofsRotate.rotate_impl_spec
      by (change (SliceUtilModel.zlen (vs q)) with L; lia).
    cbn [bind]. do 2 f_equal.
    unfold SliceUtilSpec.rotate_list. change (SliceUtilModel.zlen (vs q)) with L.
    replace (L =? 0) with false by (symmetry; apply Z.eqb_neq; lia).
    replace ((- head q) mod L) with (L - head q).
    2:{ replace (- head q) with ((L - head q) + (-1) * L) by lia.
        rewrite Z.mod_add by lia. rewrite Z.mod_small by lia. reflexivity. }
    replace (Z.to_nat (L - (L - head q))) with (Z.to_nat (head q)) by lia.
    set (h := Z.to_nat (head q)).
    assert (HLn : length (vs q) = Z.to_nat L) by (unfold L, zlen; lia).
    assert (Hf : length (firstn h (vs q)) = h) by (rewrite firstn_length; lia).
    assert (Hs : length (skipn h (vs q)) = (Z.to_nat L - h)%nat) by (rewrite skipn_length; lia).
    apply (nth_ext _ _ zero zero).
    + rewrite app_length, Hf, Hs, abs_length. lia.
    + intros i Hi. rewrite app_length, Hf, Hs in Hi.
      unfold abs. rewrite nth_map_seq by lia. unfold ring, znth. fold L.
      rewrite mod_wrap by lia. cbn [Nat.add].
      destruct (head q + Z.of_nat i <? L) eqn:E1; zb.
      * rewrite app_nth1 by lia.
        rewrite <- (firstn_skipn h (vs q)) at 2. rewrite app_nth2 by lia. rewrite Hf. f_equal. lia.
      * rewrite app_nth2 by lia. rewrite Hs.
        rewrite <- (firstn_skipn h (vs q)) at 2. rewrite app_nth1 by lia. f_equal. lia.
  - assert (head q = 0) by lia. cbn [of_opt bind]. do 2 f_equal; [|assumption].
    rewrite abs_head0 by lia. rewrite Hfull. unfold L, zlen. rewrite Nat2Z.id, firstn_all. reflexivity.
Qed.

Lemma abs_zlen : forall q, 0 <= n q -> zlen T (abs q) = n q.
Proof. intros. unfold zlen. rewrite abs_length. lia. Qed.

Lemma add_grow : forall q v c, inv q -> ~ n q < zlen T (vs q) -> c > zlen T (vs q) ->
  exists q', add idw T zero q v c = QOk q' /\ inv q' /\ abs q' = abs q ++ [v] /\
             zlen T (vs q') = c /\ n q' = n q + 1.
Proof.
  intros q v c Hinv Hfull Hc. pose proof Hinv as (Hn & Hh0 & Hh & He).
  assert (Hf : n q = zlen T (vs q)) by lia.
  unfold add, add_has_room, add_grow_hi, add_grow_n.
  replace (n q <? zlen T (vs q)) with false by (symmetry; apply Z.ltb_ge; lia).
  rewrite (rotate_home_full add_rot_cond add_rot_k add_rot_head q) by (auto; reflexivity).
  cbn [bind]. unfold idw. unfold append_cap. rewrite abs_zlen by lia.
  replace (c >? n q) with true by (symmetry; rewrite Z.gtb_ltb; apply Z.ltb_lt; lia).
  set (w := abs q ++ v :: repeat zero (Z.to_nat (c - n q - 1))).
  assert (Hw : length w = Z.to_nat c).
  { unfold w. rewrite app_length, abs_length. cbn [length]. rewrite repeat_length. lia. }
  unfold reslice. replace ((0 <=? c) && (c <=? c)) with true
    by (symmetry; apply andb_true_iff; split; apply Z.leb_le; lia).
  cbn [of_opt bind]. rewrite firstn_all2 by lia.
  eexists. split; [reflexivity|]. split; [|split; [|split]]; cbn [vs head n].
  - unfold inv; cbn [vs head n]. unfold zlen. rewrite Hw. repeat split; lia.
  - rewrite abs_head0; cbn [vs head n]; [|reflexivity|unfold zlen; rewrite Hw; lia].
    replace (Z.to_nat (n q + 1)) with (length (abs q) + 1)%nat by (rewrite abs_length; lia).
    unfold w. rewrite firstn_app_2. reflexivity.
  - unfold zlen. rewrite Hw. lia.
  - reflexivity.
Qed.

Lemma add_bad_oracle : forall q v c, inv q -> ~ n q < zlen T (vs q) -> c <= zlen T (vs q) ->
  add idw T zero q v c = BadOracle.
Proof.
  intros q v c Hinv Hfull Hc. pose proof Hinv as (Hn & Hh0 & Hh & He).
  assert (Hf : n q = zlen T (vs q)) by lia.
  unfold add, add_has_room.
  replace (n q <? zlen T (vs q)) with false by (symmetry; apply Z.ltb_ge; lia).
  rewrite (rotate_home_full add_rot_cond add_rot_k add_rot_head q) by (auto; reflexivity).
  cbn [bind]. unfold idw. unfold append_cap. rewrite abs_zlen by lia.
  replace (c >? n q) with false by (symmetry; rewrite Z.gtb_ltb; apply Z.ltb_ge; lia).
  reflexivity.
Qed.

Lemma push_grow : forall q v c, inv q -> ~ n q < zlen T (vs q) -> c > zlen T (vs q) ->
  exists q', push idw T zero q v c = QOk q' /\ inv q' /\ abs q' = v :: abs q /\
             zlen T (vs q') = c /\ n q' = n q + 1.
Proof.
  intros q v c Hinv Hfull Hc. pose proof Hinv as (Hn & Hh0 & Hh & He).
  assert (Hf : n q = zlen T (vs q)) by lia.
  unfold push, push_has_room, push_grow_hi, push_grow_n, push_grow_head, push_grow_store_idx.
  replace (n q <? zlen T (vs q)) with false by (symmetry; apply Z.ltb_ge; lia).
  rewrite (rotate_home_full push_rot_cond push_rot_k push_rot_head q) by (auto; reflexivity).
  cbn [bind]. unfold idw. unfold append_cap. rewrite abs_zlen by lia.
  replace (c >? n q) with true by (symmetry; rewrite Z.gtb_ltb; apply Z.ltb_lt; lia).
  set (w := abs q ++ v :: repeat zero (Z.to_nat (c - n q - 1))).
  assert (Hw : length w = Z.to_nat c).
  { unfold w. rewrite app_length, abs_length. cbn [length]. rewrite repeat_length. lia. }
  unfold reslice. replace ((0 <=? c) && (c <=? c)) with true
    by (symmetry; apply andb_true_iff; split; apply Z.leb_le; lia).
  cbn [of_opt bind]. rewrite firstn_all2 by lia.
  assert (Hzw : zlen T w = c) by (unfold zlen; rewrite Hw; lia).
  rewrite Hzw.
  destruct (upd_some w (c - 1) v) as (vs3 & Hu & Hl & Hz); [lia|].
  rewrite Hu. cbn [of_opt bind].
  eexists. split; [reflexivity|]. split; [|split; [|split]]; cbn [vs head n].
  - unfold inv; cbn [vs head n]. rewrite Hl, Hzw. repeat split; lia.
  - unfold abs at 1; cbn [vs head n].
    replace (Z.to_nat (n q + 1)) with (S (Z.to_nat (n q))) by lia.
    cbn [seq map]. f_equal.
    + unfold ring; cbn [vs head n]. rewrite Hl, Hzw. rewrite Z.add_0_r, Z.mod_small by lia.
      rewrite Hz by lia. rewrite Z.eqb_refl. reflexivity.
    + rewrite map_seq_shift. rewrite <- (map_seq_id (abs q)) at 1. rewrite abs_length.
      apply map_ext_in. intros i Hi. apply in_seq in Hi.
      unfold ring; cbn [vs head n]. rewrite Hl, Hzw.
      replace ((c - 1 + Z.of_nat (S i)) mod c) with (Z.of_nat i).
      2:{ rewrite mod_wrap by lia. destruct (c - 1 + Z.of_nat (S i) <? c) eqn:E; zb; lia. }
      rewrite Hz by lia.
      replace (Z.of_nat i =? c - 1) with false by (symmetry; apply Z.eqb_neq; lia).
      unfold znth. rewrite Nat2Z.id. unfold w. rewrite app_nth1 by (rewrite abs_length; lia). reflexivity.
  - rewrite Hl. exact Hzw.
  - reflexivity.
Qed.

Lemma push_bad_oracle : forall q v c, inv q -> ~ n q < zlen T (vs q) -> c <= zlen T (vs q) ->
  push idw T zero q v c = BadOracle.
Proof.
  intros q v c Hinv Hfull Hc. pose proof Hinv as (Hn & Hh0 & Hh & He).
  assert (Hf : n q = zlen T (vs q)) by lia.
  unfold push, push_has_room.
  replace (n q <? zlen T (vs q)) with false by (symmetry; apply Z.ltb_ge; lia).
  rewrite (rotate_home_full push_rot_cond push_rot_k push_rot_head q) by (auto; reflexivity).
  cbn [bind]. unfold idw. unfold append_cap. rewrite abs_zlen by lia.
  replace (c >? n q) with false by (symmetry; rewrite Z.gtb_ltb; apply Z.ltb_ge; lia).
  reflexivity.
Qed.


Lemma pop_empty_q : forall q, n q = 0 -> pop idw T zero q = QOk (q, (zero, false)).
Proof. intros q H. unfold pop, pop_empty, idw. rewrite H. reflexivity. Qed.

Lemma pop_nonempty : forall q, inv q -> 0 < n q ->
  exists q' x, pop idw T zero q = QOk (q', (x, true)) /\ inv q' /\ abs q = x :: abs q' /\
               zlen T (vs q') = zlen T (vs q) /\ n q' = n q - 1.
Proof.
  intros q (Hn & Hh0 & Hh & He) Hpos.
  unfold pop, pop_empty, pop_idx, pop_n, pop_now_empty, pop_head_reset, pop_head_rem, idw.
  set (L := zlen T (vs q)) in *.
  replace (n q =? 0) with false by (symmetry; apply Z.eqb_neq; lia).
  assert (Hh' : head q < L) by lia.
  rewrite idx_znth by (fold L; lia). cbn [of_opt bind].
  assert (Hab : abs q = znth (vs q) (head q) :: map (fun i => ring q (S i)) (seq 0 (Z.to_nat (n q - 1)))).
  { unfold abs. replace (Z.to_nat (n q)) with (S (Z.to_nat (n q - 1))) by lia.
    cbn [seq map]. rewrite map_seq_shift. f_equal.
    unfold ring. fold L. rewrite Z.add_0_r, Z.mod_small by lia. reflexivity. }
  destruct (n q - 1 =? 0) eqn:E; zb.
  - cbn [bind]. do 2 eexists. split; [reflexivity|].
    split; [|split; [|split]]; cbn [vs head n].
    + unfold inv; cbn [vs head n]. fold L. repeat split; lia.
    + rewrite Hab. f_equal. unfold abs; cbn [vs head n]. rewrite E. reflexivity.
    + reflexivity.
    + reflexivity.
  - unfold checked_rem. replace (L =? 0) with false by (symmetry; apply Z.eqb_neq; lia).
    cbn [bind]. do 2 eexists. split; [reflexivity|].
    rewrite rem_wrap by lia.
    split; [|split; [|split]]; cbn [vs head n].
    + unfold inv; cbn [vs head n]. fold L.
      pose proof (Z.mod_pos_bound (head q + 1) L). repeat split; lia.
    + rewrite Hab. f_equal. unfold abs; cbn [vs head n].
      apply map_ext_in. intros i Hi. unfold ring; cbn [vs head n]. fold L.
      rewrite Zplus_mod_idemp_l. do 2 f_equal. lia.
    + reflexivity.
    + reflexivity.
Qed.

Lemma pop_last_empty_q : forall q, n q = 0 -> pop_last idw T zero q = QOk (q, (zero, false)).
Proof. intros q H. unfold pop_last, poplast_empty, idw. rewrite H. reflexivity. Qed.

Lemma pop_last_nonempty : forall q, inv q -> 0 < n q ->
  exists q' x, pop_last idw T zero q = QOk (q', (x, true)) /\ inv q' /\ abs q = abs q' ++ [x] /\
               zlen T (vs q') = zlen T (vs q) /\ n q' = n q - 1.
Proof.
  intros q (Hn & Hh0 & Hh & He) Hpos.
  unfold pop_last, poplast_empty, poplast_pos, poplast_wrap_cond, poplast_wrap_pos, poplast_idx,
    poplast_n, poplast_now_empty, poplast_head_reset, idw.
  set (L := zlen T (vs q)) in *.
  replace (n q =? 0) with false by (symmetry; apply Z.eqb_neq; lia).
  assert (Hh' : head q < L) by lia.
  set (pos := if head q + n q - 1 >=? L then head q + n q - 1 - L else head q + n q - 1).
  assert (Hp : pos = (head q + (n q - 1)) mod L).
  { rewrite mod_wrap by lia. subst pos. rewrite Z.geb_leb.
    destruct (L <=? head q + n q - 1) eqn:E1; destruct (head q + (n q - 1) <? L) eqn:E2; zb; lia. }
  assert (Hpr : 0 <= pos < L) by (rewrite Hp; apply Z.mod_pos_bound; lia).
  rewrite idx_znth by (fold L; lia). cbn [of_opt bind].
  do 2 eexists. split; [reflexivity|].
  assert (Hab : abs q = map (ring q) (seq 0 (Z.to_nat (n q - 1))) ++ [znth (vs q) pos]).
  { unfold abs. replace (Z.to_nat (n q)) with (S (Z.to_nat (n q - 1))) by lia.
    rewrite seq_S, map_app. cbn [map Nat.add]. do 2 f_equal.
    unfold ring. fold L. rewrite Hp. do 2 f_equal. lia. }
  split; [|split; [|split]]; cbn [vs head n].
  - unfold inv; cbn [vs head n]. fold L.
    destruct (n q - 1 =? 0) eqn:E; zb; repeat split; lia.
  - rewrite Hab. f_equal. unfold abs; cbn [vs head n].
    destruct (n q - 1 =? 0) eqn:E; zb.
    + rewrite E. reflexivity.
    + reflexivity.
  - reflexivity.
  - reflexivity.
Qed.


(* ------------------------------------------------------------------ observers *)
Lemma front_ok : forall q, inv q -> front T zero q = QOk (hd zero (abs q)).
Proof.
  intros q (Hn & Hh0 & Hh & He). unfold front, front_empty, front_idx.
  destruct (n q =? 0) eqn:E; zb.
  - rewrite abs_nil by lia. reflexivity.
  - rewrite idx_znth by lia. cbn [of_opt]. f_equal.
    unfold abs. replace (Z.to_nat (n q)) with (S (Z.to_nat (n q - 1))) by lia.
    cbn [seq map hd]. unfold ring. rewrite Z.add_0_r, Z.mod_small by lia. reflexivity.
Qed.

Lemma peek_ok : forall q k, inv q -> peek idw T zero q k = QOk (spec_peek T zero (abs q) k).
Proof.
  intros q k (Hn & Hh0 & Hh & He). unfold peek, spec_peek, peek_neg, peek_adj, peek_out, peek_idx_rem, peek_load_idx, idw.
  rewrite abs_length. rewrite Z2Nat.id by lia.
  set (k' := if k <? 0 then k + n q else k).
  set (L := zlen T (vs q)) in *.
  destruct ((k' <? 0) || (k' >=? n q)) eqn:E.
  - replace ((0 <=? k') && (k' <? n q)) with false; [reflexivity|].
    symmetry. apply andb_false_iff. apply orb_true_iff in E. destruct E as [E|E]; zb.
    + left. apply Z.leb_gt. lia.
    + right. apply Z.ltb_ge. lia.
  - apply orb_false_iff in E. destruct E as [E1 E2]. zb.
    replace ((0 <=? k') && (k' <? n q)) with true
      by (symmetry; apply andb_true_iff; split; [apply Z.leb_le|apply Z.ltb_lt]; lia).
    unfold checked_rem. replace (L =? 0) with false by (symmetry; apply Z.eqb_neq; lia).
    cbn [bind]. rewrite rem_wrap by lia.
    rewrite idx_znth by (apply Z.mod_pos_bound; lia). cbn [of_opt bind]. do 2 f_equal.
    unfold abs. rewrite nth_map_seq by lia. unfold ring. fold L. cbn [Nat.add].
    rewrite Z2Nat.id by lia. reflexivity.
Qed.

Section EachProof.
Variable A : Type.
Variable f : A -> T -> A * bool.

Lemma each_loop_ok : forall q k j a,
  0 < zlen T (vs q) -> 0 <= head q ->
  each_loop idw T A f k (vs q) ((head q + Z.of_nat j) mod zlen T (vs q)) a
  = QOk (spec_each T f (map (ring q) (seq j k)) a).
Proof.
  intros q k. induction k as [|k IH]; intros j a HL Hh; [reflexivity|].
  cbn [each_loop seq map spec_each]. unfold each_idx, each_next_rem, each_stop, idw.
  set (L := zlen T (vs q)) in *.
  rewrite idx_znth by (apply Z.mod_pos_bound; lia). cbn [of_opt bind].
  change (znth (vs q) ((head q + Z.of_nat j) mod L)) with (ring q j). destruct (f a (ring q j)) as [a' cont]. destruct cont; [|reflexivity].
  unfold checked_rem. replace (L =? 0) with false by (symmetry; apply Z.eqb_neq; lia).
  cbn [bind]. rewrite rem_wrap by (pose proof (Z.mod_pos_bound (head q + Z.of_nat j) L); lia).
  rewrite Zplus_mod_idemp_l.
  replace (head q + Z.of_nat j + 1) with (head q + Z.of_nat (S j)) by lia.
  apply IH; assumption.
Qed.

Lemma each_ok : forall q a, inv q -> each idw T A f q a = QOk (spec_each T f (abs q) a).
Proof.
  intros q a (Hn & Hh0 & Hh & He). unfold each, each_count, each_start, idw.
  destruct (Z.eq_dec (n q) 0) as [E|E].
  - rewrite abs_nil by lia. rewrite E. reflexivity.
  - pose proof (each_loop_ok q (Z.to_nat (n q)) 0%nat a) as H. cbn [Z.of_nat] in H.
    rewrite Z.add_0_r, Z.mod_small in H by lia. apply H; lia.
Qed.
End EachProof.

Lemma spec_each_collect : forall l acc m,
  fst (spec_each T (collect T) l (acc, m)) = (acc ++ firstn (S m) l).
Proof.
  induction l as [|x r IH]; intros acc m.
  - cbn. rewrite app_nil_r. reflexivity.
  - cbn [spec_each collect]. destruct m as [|b].
    + reflexivity.
    + rewrite IH. rewrite <- app_assoc. reflexivity.
Qed.

Lemma slice_loop_ok : forall q k j pre rest,
  0 < zlen T (vs q) -> 0 <= head q -> length pre = j -> (k <= length rest)%nat ->
  slice_loop idw T k (Z.of_nat j) (vs q) ((head q + Z.of_nat j) mod zlen T (vs q)) (pre ++ rest)
  = QOk (pre ++ map (ring q) (seq j k) ++ skipn k rest).
Proof.
  intros q k. induction k as [|k IH]; intros j pre rest HL Hh Hp Hr; [reflexivity|].
  destruct rest as [|y r]; [cbn in Hr; lia|].
  cbn [slice_loop seq map skipn]. unfold slice_src_idx, slice_dst_idx, slice_next_rem, idw.
  set (L := zlen T (vs q)) in *.
  rewrite idx_znth by (apply Z.mod_pos_bound; lia). cbn [of_opt bind].
  change (znth (vs q) ((head q + Z.of_nat j) mod L)) with (ring q j).
  replace (Z.of_nat j) with (zlen T pre) at 1 by (unfold zlen; lia).
  rewrite upd_app. cbn [of_opt bind].
  unfold checked_rem. replace (L =? 0) with false by (symmetry; apply Z.eqb_neq; lia).
  cbn [bind]. rewrite rem_wrap by (pose proof (Z.mod_pos_bound (head q + Z.of_nat j) L); lia).
  rewrite Zplus_mod_idemp_l.
  replace (head q + Z.of_nat j + 1) with (head q + Z.of_nat (S j)) by lia.
  replace (Z.of_nat j + 1) with (Z.of_nat (S j)) by lia.
  replace (pre ++ ring q j :: r) with ((pre ++ [ring q j]) ++ r) by (rewrite <- app_assoc; reflexivity).
  rewrite IH; try assumption.
  - rewrite <- app_assoc. reflexivity.
  - rewrite app_length. cbn [length]. lia.
  - cbn [length] in Hr. lia.
Qed.

Lemma slice_ok : forall q, inv q -> slice idw T zero q = QOk (abs q).
Proof.
  intros q (Hn & Hh0 & Hh & He). unfold slice, slice_empty, slice_buflen, slice_count, slice_start.
  destruct (n q =? 0) eqn:E; zb.
  - rewrite abs_nil by lia. reflexivity.
  - unfold make. replace (n q <? 0) with false by (symmetry; apply Z.ltb_ge; lia).
    cbn [of_opt bind].
    pose proof (slice_loop_ok q (Z.to_nat (n q)) 0%nat [] (repeat zero (Z.to_nat (n q)))) as H.
    cbn [Z.of_nat app] in H. rewrite Z.add_0_r, Z.mod_small in H by lia.
    rewrite H; try lia; try reflexivity.
    + rewrite skipn_all2 by (rewrite repeat_length; lia). rewrite app_nil_r. reflexivity.
    + rewrite repeat_length. lia.
Qed.


(* ------------------------------------------------------------------ one step *)
Lemma abs_cons_of_pos : forall q, 0 < n q -> exists x r, abs q = x :: r.
Proof.
  intros q H. unfold abs. replace (Z.to_nat (n q)) with (S (Z.to_nat (n q - 1))) by lia.
  cbn [seq map]. eauto.
Qed.

Lemma step_refines : forall q o, inv q -> oracle_valid T (zlen T (vs q)) (n q) o ->
  exists q' r, step idw T zero q o = QOk (q', r) /\ inv q' /\
    spec_step T zero (abs q) o = (abs q', r) /\
    (zlen T (vs q'), n q') = cap_next T (zlen T (vs q)) (n q) o.
Proof.
  intros q o Hinv Hval. pose proof Hinv as (Hn & Hh0 & Hh & He).
  destruct o as [v c|v c| | | | | | |k|m|]; cbn [step spec_step cap_next oracle_valid] in *.
  - (* Add *)
    destruct (Z_lt_dec (n q) (zlen T (vs q))) as [R|R].
    + destruct (add_room q v c Hinv R) as (q' & Hs & Hi & Ha & Hl & Hn').
      rewrite Hs. cbn [bind]. do 2 eexists. split; [reflexivity|]. split; [exact Hi|].
      split; [rewrite Ha; reflexivity|].
      replace (n q <? zlen T (vs q)) with true by (symmetry; apply Z.ltb_lt; lia).
      rewrite Hl, Hn'. reflexivity.
    + destruct (add_grow q v c Hinv R) as (q' & Hs & Hi & Ha & Hl & Hn'); [lia|].
      rewrite Hs. cbn [bind]. do 2 eexists. split; [reflexivity|]. split; [exact Hi|].
      split; [rewrite Ha; reflexivity|].
      replace (n q <? zlen T (vs q)) with false by (symmetry; apply Z.ltb_ge; lia).
      rewrite Hl, Hn'. reflexivity.
  - (* Push *)
    destruct (Z_lt_dec (n q) (zlen T (vs q))) as [R|R].
    + destruct (push_room q v c Hinv R) as (q' & Hs & Hi & Ha & Hl & Hn').
      rewrite Hs. cbn [bind]. do 2 eexists. split; [reflexivity|]. split; [exact Hi|].
      split; [rewrite Ha; reflexivity|].
      replace (n q <? zlen T (vs q)) with true by (symmetry; apply Z.ltb_lt; lia).
      rewrite Hl, Hn'. reflexivity.
    + destruct (push_grow q v c Hinv R) as (q' & Hs & Hi & Ha & Hl & Hn'); [lia|].
      rewrite Hs. cbn [bind]. do 2 eexists. split; [reflexivity|]. split; [exact Hi|].
      split; [rewrite Ha; reflexivity|].
      replace (n q <? zlen T (vs q)) with false by (symmetry; apply Z.ltb_ge; lia).
      rewrite Hl, Hn'. reflexivity.
  - (* Pop *)
    destruct (Z.eq_dec (n q) 0) as [E|E].
    + rewrite pop_empty_q by assumption. cbn [bind]. do 2 eexists. split; [reflexivity|].
      split; [exact Hinv|]. rewrite abs_nil by lia. split; [reflexivity|]. rewrite E. reflexivity.
    + destruct (pop_nonempty q Hinv) as (q' & x & Hs & Hi & Ha & Hl & Hn'); [lia|].
      rewrite Hs. cbn [bind]. do 2 eexists. split; [reflexivity|]. split; [exact Hi|].
      rewrite Ha. split; [reflexivity|].
      replace (n q =? 0) with false by (symmetry; apply Z.eqb_neq; lia).
      rewrite Hl, Hn'. reflexivity.
  - (* PopLast *)
    destruct (Z.eq_dec (n q) 0) as [E|E].
    + rewrite pop_last_empty_q by assumption. cbn [bind]. do 2 eexists. split; [reflexivity|].
      split; [exact Hinv|]. rewrite abs_nil by lia. split; [reflexivity|]. rewrite E. reflexivity.
    + destruct (pop_last_nonempty q Hinv) as (q' & x & Hs & Hi & Ha & Hl & Hn'); [lia|].
      rewrite Hs. cbn [bind]. do 2 eexists. split; [reflexivity|]. split; [exact Hi|].
      rewrite Ha. split.
      * destruct (abs q' ++ [x]) eqn:El; [destruct (abs q'); discriminate|].
        rewrite <- El. rewrite removelast_last, last_last. reflexivity.
      * replace (n q =? 0) with false by (symmetry; apply Z.eqb_neq; lia).
        rewrite Hl, Hn'. reflexivity.
  - (* Clear *)
    do 2 eexists. split; [reflexivity|]. split; [|split; reflexivity].
    unfold inv, clear, clear_head, clear_n; cbn. lia.
  - (* Len *)
    do 2 eexists. split; [reflexivity|]. split; [exact Hinv|]. split; [|reflexivity].
    unfold len, len_ret. rewrite abs_length. rewrite Z2Nat.id by lia. reflexivity.
  - (* IsEmpty *)
    do 2 eexists. split; [reflexivity|]. split; [exact Hinv|]. split; [|reflexivity].
    unfold is_empty, isempty_ret. destruct (n q =? 0) eqn:E; zb.
    + rewrite abs_nil by lia. reflexivity.
    + destruct (abs_cons_of_pos q) as (x & r & Hx); [lia|]. rewrite Hx. reflexivity.
  - (* Front *)
    rewrite front_ok by assumption. cbn [bind]. do 2 eexists. split; [reflexivity|].
    split; [exact Hinv|]. split; reflexivity.
  - (* Peek *)
    rewrite peek_ok by assumption. cbn [bind].
    destruct (spec_peek T zero (abs q) k) as [x ok].
    do 2 eexists. split; [reflexivity|]. split; [exact Hinv|]. split; reflexivity.
  - (* Each *)
    rewrite each_ok by assumption. cbn [bind].
    pose proof (spec_each_collect (abs q) [] m) as Hc.
    destruct (spec_each T (collect T) (abs q) ([], m)) as [acc b]. cbn [fst app] in Hc. subst acc.
    do 2 eexists. split; [reflexivity|]. split; [exact Hinv|]. split; reflexivity.
  - (* Slice *)
    rewrite slice_ok by assumption. cbn [bind]. do 2 eexists. split; [reflexivity|].
    split; [exact Hinv|]. split; reflexivity.
Qed.

Lemma step_bad_oracle : forall q o, inv q -> ~ oracle_valid T (zlen T (vs q)) (n q) o ->
  step idw T zero q o = BadOracle.
Proof.
  intros q o Hinv Hval.
  destruct o as [v c|v c| | | | | | |k|m|]; cbn [oracle_valid] in Hval; try (exfalso; apply Hval; exact I).
  - cbn [step]. rewrite add_bad_oracle; [reflexivity|assumption|lia|lia].
  - cbn [step]. rewrite push_bad_oracle; [reflexivity|assumption|lia|lia].
Qed.

Lemma oracle_valid_dec : forall cap cnt (o : op T), {oracle_valid T cap cnt o} + {~ oracle_valid T cap cnt o}.
Proof.
  intros cap cnt o. destruct o as [v c|v c| | | | | | |k|m|]; cbn [oracle_valid]; try (left; exact I);
  (destruct (Z_lt_dec cnt cap); [left; lia|]; destruct (Z_gt_dec c cap); [left; lia|right; lia]).
Qed.

(* observers leave the state alone *)
Definition is_observer (o : op T) : bool :=
  match o with OLen | OIsEmpty | OFront | OPeek _ | OEach _ | OSlice => true | _ => false end.

Lemma observers_pure : forall q o q' r, is_observer o = true -> step idw T zero q o = QOk (q', r) -> q' = q.
Proof.
  intros q o q' r Ho Hs. destruct o; try discriminate; cbn [step] in Hs.
  - inversion Hs; reflexivity.
  - inversion Hs; reflexivity.
  - destruct (front T zero q); cbn [bind] in Hs; inversion Hs; reflexivity.
  - destruct (peek idw T zero q k) as [[x ok]| | |]; cbn [bind] in Hs; inversion Hs; reflexivity.
  - destruct (each idw T (list T * nat) (collect T) q ([], m)) as [[acc b]| | |]; cbn [bind] in Hs; inversion Hs; reflexivity.
  - destruct (slice idw T zero q); cbn [bind] in Hs; inversion Hs; reflexivity.
Qed.

(* ------------------------------------------------------------------ histories *)
Theorem run_refines : forall ops q, inv q -> oracles_ok T (zlen T (vs q)) (n q) ops ->
  run idw T zero q ops = map QOk (spec_run T zero (abs q) ops).
Proof.
  induction ops as [|o ops IH]; intros q Hinv Hor; [reflexivity|].
  cbn [oracles_ok] in Hor. destruct Hor as [Hv Hrest].
  destruct (step_refines q o Hinv Hv) as (q' & r & Hs & Hi & Hsp & Hc).
  cbn [run spec_run]. rewrite Hs, Hsp. cbn [map]. f_equal.
  apply IH; [exact Hi|]. rewrite <- Hc in Hrest. exact Hrest.
Qed.

(* whatever the oracles are: a prefix of the reference outputs, then at most one BadOracle *)
Theorem run_any_oracle : forall ops q, inv q ->
  exists k, run idw T zero q ops =
    map QOk (firstn k (spec_run T zero (abs q) ops)) ++ (if (k <? length ops)%nat then [BadOracle] else []).
Proof.
  induction ops as [|o ops IH]; intros q Hinv.
  - exists 0%nat. reflexivity.
  - destruct (oracle_valid_dec (zlen T (vs q)) (n q) o) as [Hv|Hv].
    + destruct (step_refines q o Hinv Hv) as (q' & r & Hs & Hi & Hsp & Hc).
      destruct (IH q' Hi) as (k & Hk). exists (S k).
      cbn [run spec_run]. rewrite Hs, Hsp. cbn [firstn map app length]. rewrite Hk. reflexivity.
    + exists 0%nat. cbn [run]. rewrite step_bad_oracle by assumption. reflexivity.
Qed.

Lemma mk_init_ok : forall i, init_ok i ->
  exists q, mk_init T zero i = QOk q /\ inv q /\ abs q = [] /\ zlen T (vs q) = init_cap i /\ n q = 0.
Proof.
  intros i Hi. destruct i as [| |k]; cbn [mk_init init_cap init_ok] in *.
  - eexists. split; [reflexivity|]. unfold inv, zero_queue; cbn. repeat split; lia.
  - eexists. split; [reflexivity|]. unfold inv, new, zero_queue; cbn. repeat split; lia.
  - unfold new_size, newsize_len, make. replace (k <? 0) with false by (symmetry; apply Z.ltb_ge; lia).
    cbn [of_opt bind]. eexists. split; [reflexivity|].
    unfold inv, zlen; cbn [vs head n]. rewrite repeat_length. repeat split; lia.
Qed.

Theorem history : forall i ops, init_ok i -> oracles_ok T (init_cap i) 0 ops ->
  run_init idw T zero i ops = map QOk (spec_run T zero [] ops).
Proof.
  intros i ops Hi Hor. destruct (mk_init_ok i Hi) as (q & Hq & Hinv & Ha & Hl & Hn).
  unfold run_init. rewrite Hq. rewrite <- Ha. apply run_refines; [exact Hinv|].
  rewrite Hl, Hn. exact Hor.
Qed.

Theorem history_any_oracle : forall i ops, init_ok i ->
  exists k, run_init idw T zero i ops =
    map QOk (firstn k (spec_run T zero [] ops)) ++ (if (k <? length ops)%nat then [BadOracle] else []).
Proof.
  intros i ops Hi. destruct (mk_init_ok i Hi) as (q & Hq & Hinv & Ha & Hl & Hn).
  unfold run_init. rewrite Hq. rewrite <- Ha. apply run_any_oracle. exact Hinv.
Qed.

Theorem no_panic : forall i ops pk, init_ok i -> ~ In (QPanic pk) (run_init idw T zero i ops).
Proof.
  intros i ops pk Hi Hin. destruct (history_any_oracle i ops Hi) as (k & Hk).
  rewrite Hk in Hin. apply in_app_or in Hin. destruct Hin as [H|H].
  - apply in_map_iff in H. destruct H as (x & Hx & _). discriminate.
  - destruct (k <? length ops)%nat; cbn in H; [destruct H as [H|H]; [discriminate|contradiction]|contradiction].
Qed.

(* the fuel of slice.Rotate's inner loop never runs out *)
Theorem no_fuel : forall i ops, init_ok i -> ~ In RotateFuel (run_init idw T zero i ops).
Proof.
  intros i ops Hi Hin. destruct (history_any_oracle i ops Hi) as (k & Hk).
  rewrite Hk in Hin. apply in_app_or in Hin. destruct Hin as [H|H].
  - apply in_map_iff in H. destruct H as (x & Hx & _). discriminate.
  - destruct (k <? length ops)%nat; cbn in H; [destruct H as [H|H]; [discriminate|contradiction]|contradiction].
Qed.

(* NewSize(k) with k < 0: the constructor itself panics in make (no queue comes into being) *)
Theorem newsize_negative : forall w k ops, k < 0 -> run_init w T zero (ISize k) ops = [QPanic PMakeLen].
Proof.
  intros w k ops Hk. unfold run_init, mk_init, new_size, newsize_len, make.
  replace (k <? 0) with true by (symmetry; apply Z.ltb_lt; lia). reflexivity.
Qed.

Lemma exec_refines : forall ops q, inv q -> oracles_ok T (zlen T (vs q)) (n q) ops ->
  exists q', exec idw T zero q ops = QOk q' /\ inv q' /\ abs q' = spec_exec T zero (abs q) ops.
Proof.
  induction ops as [|o ops IH]; intros q Hinv Hor.
  - exists q. split; [reflexivity|split; [assumption|reflexivity]].
  - cbn [oracles_ok] in Hor. destruct Hor as [Hv Hrest].
    destruct (step_refines q o Hinv Hv) as (q1 & r & Hs & Hi & Hsp & Hc).
    cbn [exec spec_exec]. rewrite Hs, Hsp. cbn [bind fst].
    apply IH; [exact Hi|]. rewrite <- Hc in Hrest. exact Hrest.
Qed.

Lemma exec_inv : forall ops q q', inv q -> exec idw T zero q ops = QOk q' -> inv q'.
Proof.
  induction ops as [|o ops IH]; intros q q' Hinv H; cbn [exec] in H.
  - inversion H; subst; exact Hinv.
  - destruct (oracle_valid_dec (zlen T (vs q)) (n q) o) as [Hv|Hv].
    + destruct (step_refines q o Hinv Hv) as (q1 & r & Hs & Hi & _). rewrite Hs in H. cbn [bind] in H.
      eapply IH; eauto.
    + rewrite step_bad_oracle in H by assumption. discriminate.
Qed.

(* every state a history can lead to -- whatever the oracles -- satisfies the ring invariant *)
Theorem reachable_inv : forall i ops q, init_ok i -> exec_init idw T zero i ops = QOk q ->
  0 <= n q <= zlen T (vs q) /\ 0 <= head q /\ (head q < zlen T (vs q) \/ head q = 0) /\ (n q = 0 -> head q = 0).
Proof.
  intros i ops q Hi H. destruct (mk_init_ok i Hi) as (q0 & Hq & Hinv & _).
  unfold exec_init in H. rewrite Hq in H. cbn [bind] in H. exact (exec_inv ops q0 q Hinv H).
Qed.

(* Each with an arbitrary (stateful) callback, and Peek at any offset, in any reachable state *)
Theorem each_any_callback : forall i ops (A : Type) (f : A -> T -> A * bool) (a : A),
  init_ok i -> oracles_ok T (init_cap i) 0 ops ->
  exists q, exec_init idw T zero i ops = QOk q /\
    each idw T A f q a = QOk (spec_each T f (spec_exec T zero [] ops) a) /\
    (forall k, peek idw T zero q k = QOk (spec_peek T zero (spec_exec T zero [] ops) k)).
Proof.
  intros i ops A f a Hi Hor. destruct (mk_init_ok i Hi) as (q0 & Hq & Hinv & Ha & Hl & Hn).
  destruct (exec_refines ops q0 Hinv) as (q & He & Hiq & Haq); [rewrite Hl, Hn; exact Hor|].
  exists q. unfold exec_init. rewrite Hq. cbn [bind]. split; [exact He|].
  rewrite Ha in Haq. rewrite <- Haq. split; [apply each_ok; exact Hiq|].
  intros k. apply peek_ok; exact Hiq.
Qed.

End Proofs.
