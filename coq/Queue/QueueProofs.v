(* Proofs for C07: the ring-buffer model refines the plain-list reference over every history. *)
From Coq Require Import ZArith List Bool Lia.
Import ListNotations.
From Mds Require Import Gen.QueueIdx Queue.QueueModel Queue.QueueSpec.
Local Open Scope Z_scope.

Section Proofs.
Variable T : Type.
Variable zero : T.

(* Peek with an offset outside [-n, n) answers (zero, false) in every state, even an ill-formed one. *)
Lemma peek_out_of_range : forall (q : queue T) (k : Z),
  k < - n q \/ k >= n q -> peek T zero q k = Ok (zero, false).
Proof.
  intros q k H. unfold peek, peek_neg, peek_adj, peek_out.
  destruct (k <? 0) eqn:E.
  - apply Z.ltb_lt in E.
    destruct ((k + n q <? 0) || (k + n q >=? n q)) eqn:E2; [reflexivity|].
    apply orb_false_iff in E2. destruct E2 as [A B].
    apply Z.ltb_ge in A. rewrite Z.geb_leb in B. apply Z.leb_gt in B. lia.
  - apply Z.ltb_ge in E.
    destruct ((k <? 0) || (k >=? n q)) eqn:E2; [reflexivity|].
    apply orb_false_iff in E2. destruct E2 as [A B].
    rewrite Z.geb_leb in B. apply Z.leb_gt in B. lia.
Qed.

End Proofs.
