(* The length-only model of QueueUnitModel.v IS the main model of QueueModel.v run on unit
   elements: for every width function, every state (well-formed or not), every operation, the
   result of the main model's step, seen through [shape]/[oshape] (buffer -> its length, element
   values dropped), is the unit model's step.  Hence whole histories from every initial
   configuration.  slice.Rotate enters through the C17 theorems rotate_impl_spec /
   rotate_impl_out_of_range, which together cover every offset. *)
From Coq Require Import ZArith List Bool Lia.
Import ListNotations.
From Mds Require Import Gen.QueueIdx Queue.QueueModel Queue.QueueUnitModel.
From Mds Require Gen.SliceIdx Slice.SliceUtilModel Slice.SliceUtilSpec Slice.SliceUtilProofsRotate.
Local Open Scope Z_scope.

Ltac zb := repeat match goal with
  | H : (_ <? _) = true |- _ => apply Z.ltb_lt in H
  | H : (_ <? _) = false |- _ => apply Z.ltb_ge in H
  | H : (_ <=? _) = true |- _ => apply Z.leb_le in H
  | H : (_ <=? _) = false |- _ => apply Z.leb_gt in H
  | H : (_ >? _) = _ |- _ => rewrite Z.gtb_ltb in H
  end.

Local Notation zl := (zlen unit).

(* ---- buffer operations on unit lists are their bounds checks ---- *)
Lemma idx_unit : forall l i, of_opt (idx unit l i) PIndex = uget (zl l) i.
Proof.
  intros l i. unfold idx, uget, uin, zlen.
  destruct (i <? 0) eqn:E; zb.
  - replace (0 <=? i) with false by (symmetry; apply Z.leb_gt; lia). reflexivity.
  - replace (0 <=? i) with true by (symmetry; apply Z.leb_le; lia). cbn [andb].
    destruct (i <? Z.of_nat (length l)) eqn:E2; zb.
    + destruct (nth_error l (Z.to_nat i)) as [u|] eqn:N; [destruct u; reflexivity|].
      apply nth_error_None in N. lia.
    + replace (nth_error l (Z.to_nat i)) with (@None unit); [reflexivity|].
      symmetry. apply nth_error_None. lia.
Qed.

Lemma upd_unit : forall l i v, rmap zl (of_opt (upd unit l i v) PIndex) = ustore (zl l) i.
Proof.
  intros l i v. unfold upd, ustore, uin.
  destruct ((0 <=? i) && (i <? zl l)) eqn:E; [|reflexivity].
  apply andb_true_iff in E. destruct E as [A B]. zb. unfold zlen in *.
  cbn [of_opt rmap]. f_equal. rewrite app_length. cbn [length]. rewrite firstn_length, skipn_length. lia.
Qed.

Lemma make_unit : forall k, rmap zl (of_opt (make unit tt k) PMakeLen) = umake k.
Proof.
  intros k. unfold make, umake. destruct (k <? 0) eqn:E; [reflexivity|]. zb.
  cbn [of_opt rmap]. f_equal. unfold zlen. rewrite repeat_length. lia.
Qed.

Lemma append_unit : forall s v c, option_map zl (append_cap unit tt s v c) = uappend (zl s) c.
Proof.
  intros s v c. unfold append_cap, uappend. destruct (c >? zl s) eqn:E; [|reflexivity]. zb.
  cbn [option_map]. f_equal. unfold zlen in *. rewrite app_length. cbn [length]. rewrite repeat_length. lia.
Qed.

Lemma reslice_unit : forall arr c hi, option_map zl (reslice unit arr c hi) = ureslice (zl arr) c hi.
Proof.
  intros arr c hi. unfold reslice, ureslice. destruct ((0 <=? hi) && (hi <=? c)) eqn:E; [|reflexivity].
  apply andb_true_iff in E. destruct E as [A B]. zb.
  cbn [option_map]. f_equal. unfold zlen. rewrite firstn_length. lia.
Qed.

Lemma rotate_unit : forall l k, rmap zl (rotate_go unit l k) = urotate (zl l) k.
Proof.
  intros l k. unfold rotate_go, urotate, SliceIdx.rot_arg_k, SliceIdx.rot_arg_n, SliceIdx.rot_bad.
  change (zl l) with (SliceUtilModel.zlen l).
  pose proof (SliceUtilProofs.zlen_nonneg l) as Hn.
  destruct (Z_le_dec (- SliceUtilModel.zlen l) k) as [A|A]; [destruct (Z_le_dec k (SliceUtilModel.zlen l)) as [B|B]|].
  - rewrite SliceUtilProofsRotate.rotate_impl_spec by lia.
    destruct (SliceUtilProofsRotate.slice_check_norm (SliceUtilModel.zlen l) k Hn (conj A B)) as (k' & Sc & _).
    rewrite Sc. cbn [snd negb rmap]. f_equal.
    unfold zlen, SliceUtilModel.zlen. rewrite SliceUtilProofsRotate.rotate_list_length. reflexivity.
  - rewrite SliceUtilProofsRotate.rotate_impl_out_of_range by lia.
    rewrite (SliceUtilProofsRotate.slice_check_bad (SliceUtilModel.zlen l) k Hn) by lia. reflexivity.
  - rewrite SliceUtilProofsRotate.rotate_impl_out_of_range by lia.
    rewrite (SliceUtilProofsRotate.slice_check_bad (SliceUtilModel.zlen l) k Hn) by lia. reflexivity.
Qed.

Section Sim.
Variable w : Z -> Z.

Lemma rotate_home_sim : forall cond kf nh q,
  rmap (fun p : list unit * Z => (zl (fst p), snd p)) (rotate_home w unit cond kf nh q)
  = urotate_home w cond kf nh (shape q).
Proof.
  intros cond kf nh q. unfold rotate_home, urotate_home, shape; cbn [ulen uhead un].
  destruct (cond (head q)); [|reflexivity].
  rewrite <- rotate_unit. destruct (rotate_go unit (vs q) (w (kf (head q)))); reflexivity.
Qed.

Lemma add_sim : forall q v c, rmap shape (add w unit tt q v c) = uadd w (shape q) c.
Proof.
  intros q v c. unfold add, uadd, shape; cbn [ulen uhead un].
  destruct (add_has_room (n q) (zl (vs q))).
  - cbv zeta. rewrite <- (upd_unit (vs q) _ v).
    destruct (upd unit (vs q) _ v); reflexivity.
  - change (urotate_home w add_rot_cond add_rot_k add_rot_head _)
      with (urotate_home w add_rot_cond add_rot_k add_rot_head (shape q)).
    rewrite <- rotate_home_sim.
    destruct (rotate_home w unit add_rot_cond add_rot_k add_rot_head q) as [[vs1 h1]| | |]; cbn [rmap bind fst snd]; try reflexivity.
    rewrite <- (append_unit vs1 v c). destruct (append_cap unit tt vs1 v c) as [wb|]; cbn [option_map]; [|reflexivity].
    rewrite <- reslice_unit. destruct (reslice unit wb c (add_grow_hi c)); reflexivity.
Qed.

Lemma push_sim : forall q v c, rmap shape (push w unit tt q v c) = upush w (shape q) c.
Proof.
  intros q v c. unfold push, upush, shape; cbn [ulen uhead un].
  destruct (push_has_room (n q) (zl (vs q))).
  - cbv zeta. rewrite <- (upd_unit (vs q) _ v).
    destruct (upd unit (vs q) _ v); reflexivity.
  - change (urotate_home w push_rot_cond push_rot_k push_rot_head _)
      with (urotate_home w push_rot_cond push_rot_k push_rot_head (shape q)).
    rewrite <- rotate_home_sim.
    destruct (rotate_home w unit push_rot_cond push_rot_k push_rot_head q) as [[vs1 h1]| | |]; cbn [rmap bind fst snd]; try reflexivity.
    rewrite <- (append_unit vs1 v c). destruct (append_cap unit tt vs1 v c) as [wb|]; cbn [option_map]; [|reflexivity].
    rewrite <- reslice_unit. destruct (reslice unit wb c (push_grow_hi c)) as [vs2|]; cbn [option_map of_opt bind rmap]; [|reflexivity].
    cbv zeta. rewrite <- (upd_unit vs2 _ v).
    destruct (upd unit vs2 _ v); reflexivity.
Qed.

Lemma front_sim : forall q, rmap (fun _ : unit => tt) (front unit tt q) = ufront (shape q).
Proof.
  intros q. unfold front, ufront, shape; cbn [ulen uhead un].
  destruct (front_empty (n q)); [reflexivity|].
  rewrite idx_unit. destruct (uget (zl (vs q)) (front_idx (head q))) as [[]| | |]; reflexivity.
Qed.

Lemma peek_sim : forall q k, rmap snd (peek w unit tt q k) = upeek w (shape q) k.
Proof.
  intros q k. unfold peek, upeek, shape; cbn [ulen uhead un]. cbv zeta.
  destruct (peek_out _ (n q)); [reflexivity|].
  destruct (checked_rem (zl (vs q)) _) as [p| | |]; cbn [bind rmap]; try reflexivity.
  rewrite idx_unit. destruct (uget (zl (vs q)) (peek_load_idx p)); reflexivity.
Qed.

Definition popshape (r : queue unit * (unit * bool)) : ustate * bool := (shape (fst r), snd (snd r)).

Lemma pop_sim : forall q, rmap popshape (pop w unit tt q) = upop w (shape q).
Proof.
  intros q. unfold pop, upop, shape; cbn [ulen uhead un].
  destruct (pop_empty (n q)); [reflexivity|].
  rewrite idx_unit. destruct (uget (zl (vs q)) (pop_idx (head q))) as [x| | |]; cbn [bind rmap]; try reflexivity.
  cbv zeta. destruct (pop_now_empty (w (pop_n (n q)))); [reflexivity|].
  destruct (checked_rem (zl (vs q)) _); reflexivity.
Qed.

Lemma pop_last_sim : forall q, rmap popshape (pop_last w unit tt q) = upop_last w (shape q).
Proof.
  intros q. unfold pop_last, upop_last, shape; cbn [ulen uhead un].
  destruct (poplast_empty (n q)); [reflexivity|].
  cbv zeta. rewrite idx_unit.
  destruct (uget (zl (vs q)) _); reflexivity.
Qed.

Lemma each_loop_sim : forall (A : Type) (f : A -> unit -> A * bool) k b cur a,
  each_loop w unit A f k b cur a = ueach_loop w A f k (zl b) cur a.
Proof.
  intros A f. induction k as [|k IH]; intros b cur a; [reflexivity|].
  cbn [each_loop ueach_loop]. rewrite idx_unit.
  destruct (uget (zl b) (each_idx cur)) as [x| | |]; cbn [bind]; try reflexivity.
  destruct (f a x) as [a' cont]. destruct (each_stop cont); [reflexivity|].
  destruct (checked_rem (zl b) _); cbn [bind]; try reflexivity. apply IH.
Qed.

Lemma each_sim : forall (A : Type) (f : A -> unit -> A * bool) q a,
  each w unit A f q a = ueach w A f (shape q) a.
Proof. intros. unfold each, ueach, shape; cbn [ulen uhead un]. apply each_loop_sim. Qed.

Lemma slice_loop_sim : forall k i b cur buf,
  rmap zl (slice_loop w unit k i b cur buf) = uslice_loop w k i (zl b) cur (zl buf).
Proof.
  induction k as [|k IH]; intros i b cur buf; [reflexivity|].
  cbn [slice_loop uslice_loop]. rewrite idx_unit.
  destruct (uget (zl b) (slice_src_idx cur)) as [x| | |]; cbn [bind rmap]; try reflexivity.
  rewrite <- (upd_unit buf (slice_dst_idx i) x). destruct (upd unit buf (slice_dst_idx i) x) as [buf'|]; cbn [of_opt bind rmap]; [|reflexivity].
  destruct (checked_rem (zl b) _); cbn [bind rmap]; try reflexivity. apply IH.
Qed.

Lemma slice_sim : forall q, rmap zl (slice w unit tt q) = uslice w (shape q).
Proof.
  intros q. unfold slice, uslice, shape; cbn [ulen uhead un].
  destruct (slice_empty (n q)); [reflexivity|].
  rewrite <- make_unit. destruct (make unit tt (slice_buflen (n q))) as [buf|]; cbn [of_opt bind rmap]; [|reflexivity].
  apply slice_loop_sim.
Qed.

Definition stepshape (r : queue unit * out unit) : ustate * uout := (shape (fst r), oshape (snd r)).

(* one operation *)
Theorem step_sim : forall q o, rmap stepshape (step w unit tt q o) = ustep w (shape q) o.
Proof.
  intros q o. destruct o as [v c|v c| | | | | | |k|m|]; cbn [step ustep].
  - rewrite <- (add_sim q v c). destruct (add w unit tt q v c); reflexivity.
  - rewrite <- (push_sim q v c). destruct (push w unit tt q v c); reflexivity.
  - rewrite <- pop_sim. destruct (pop w unit tt q) as [[q' [x ok]]| | |]; reflexivity.
  - rewrite <- pop_last_sim. destruct (pop_last w unit tt q) as [[q' [x ok]]| | |]; reflexivity.
  - reflexivity.
  - reflexivity.
  - reflexivity.
  - rewrite <- front_sim. destruct (front unit tt q); reflexivity.
  - rewrite <- peek_sim. destruct (peek w unit tt q k) as [[x ok]| | |]; reflexivity.
  - rewrite <- each_sim. destruct (each w unit _ (collect unit) q ([], m)) as [[acc b]| | |]; reflexivity.
  - rewrite <- slice_sim. destruct (slice w unit tt q); reflexivity.
Qed.

Theorem run_sim : forall ops q, map (rmap oshape) (run w unit tt q ops) = urun w (shape q) ops.
Proof.
  induction ops as [|o ops IH]; intros q; [reflexivity|].
  cbn [run urun]. rewrite <- step_sim.
  destruct (step w unit tt q o) as [[q' r]| | |]; cbn [rmap map stepshape fst snd]; try reflexivity.
  f_equal. apply IH.
Qed.

Lemma mk_init_sim : forall i, rmap shape (mk_init unit tt i) = umk_init i.
Proof.
  intros [| |k]; cbn [mk_init umk_init]; try reflexivity.
  unfold new_size, unew_size. rewrite <- make_unit.
  destruct (make unit tt (newsize_len k)); reflexivity.
Qed.

(* whole histories from every initial configuration, at every width *)
Theorem unit_model_is_the_model : forall i ops,
  map (rmap oshape) (run_init w unit tt i ops) = urun_init w i ops.
Proof.
  intros i ops. unfold run_init, urun_init. rewrite <- mk_init_sim.
  destruct (mk_init unit tt i) as [q| | |]; cbn [rmap map]; try reflexivity. apply run_sim.
Qed.

End Sim.
