(* Model of heapq/heapq.go (heapq.Queue and heapq.Sort).  Definitions only, no proofs.

   Element type T and comparison functions are abstract.  Machine ints are Z.  The slice q.data is
   a [list T]; every q.data[k] is an explicit bounds-checked read ([get]) whose failure is the
   result [IndexPanic]; loops run on explicit fuel whose exhaustion is the result [OutOfFuel]
   (HeapqProofs shows neither ever happens).  Index arithmetic, loop/branch conditions and the
   number of callback calls come from Gen/HeapqIdx.v, regenerated from the Go source on every run.

   Calls of the Update callback q.move(v, k) are returned, in order, as a move log [(v, k)].

   Known findings F1/F2 (DESIGN.md section 4) are the two switches of [variant]:
     parent_halves  = true : pushUp compares with index i/2        (pinned tree; repaired: (i-1)/2)
     pop_no_siftup  = true : pop(i) only sifts the moved element down (pinned tree; repaired: also up)
   [current_variant] is read from Gen.

   API (after the sections close; T and v explicit, then cmp where it is used):
     push_up   T v cmp fuel l i      : res (list T * moves * Z)
     push_down T cmp l i             : res (list T * moves * Z)
     swap      T l i j               : res (list T * moves)
     pop       T v cmp l i           : res (list T * moves * T)
     queue T = {| data : list T; qcmp : T -> T -> Z |}
     Add v q x : res (queue * moves * Z)     Pop/Remove v q [i] : res (queue * moves * option T) ...
     step v q op : res (queue * (out * moves)),  run v q ops : list (res (out * moves)) *)
From Coq Require Import ZArith List Bool.
Import ListNotations.
From Mds Require Import Gen.HeapqIdx.
Local Open Scope Z_scope.

Inductive res (A : Type) : Type :=
| Ok (a : A)
| IndexPanic      (* a slice index out of range inside the package: never happens (proved) *)
| OutOfFuel.      (* never happens (proved) *)
Arguments Ok {A} a.
Arguments IndexPanic {A}.
Arguments OutOfFuel {A}.

Definition bind {A B} (r : res A) (f : A -> res B) : res B :=
  match r with Ok a => f a | IndexPanic => IndexPanic | OutOfFuel => OutOfFuel end.
Notation "'do' x <- r ; k" := (bind r (fun x => k)) (at level 200, x pattern, r at level 100, k at level 200).

Record variant := { parent_halves : bool; pop_no_siftup : bool }.
Definition pinned : variant := {| parent_halves := true; pop_no_siftup := true |}.
Definition repaired : variant := {| parent_halves := false; pop_no_siftup := false |}.

(* What the current source is, read from Gen: i/2 sends 4 to 2 and 2 to 1; (i-1)/2 sends them to 1 and 0. *)
Definition gen_parent_is_halves : bool := Z.eqb (HeapqIdx.parent 4) 2 && Z.eqb (HeapqIdx.parent 2) 1.
Definition gen_pop_sifts_up : bool := Z.ltb 0 HeapqIdx.pop_ncalls_pushUp.
Definition current_variant : variant :=
  {| parent_halves := gen_parent_is_halves; pop_no_siftup := negb gen_pop_sifts_up |}.

(* The parent index under variant v.  For the variant the source currently is, this is the very
   expression of the source (Gen); for the other one it is the expression named above. *)
Definition parent_of (v : variant) (i : Z) : Z :=
  if Bool.eqb (parent_halves v) gen_parent_is_halves then HeapqIdx.parent i
  else if parent_halves v then Z.quot i 2 else Z.quot (i - 1) 2.

Section Elem.
Variable T : Type.

Definition moves := list (T * Z).

Definition len (l : list T) : Z := Z.of_nat (length l).

(* l[i], bounds-checked *)
Definition get (l : list T) (i : Z) : option T :=
  if i <? 0 then None else nth_error l (Z.to_nat i).

Fixpoint upd_nat (l : list T) (n : nat) (x : T) : list T :=
  match l, n with
  | [], _ => []
  | _ :: t, O => x :: t
  | h :: t, S n' => h :: upd_nat t n' x
  end.
(* l[i] = x (callers have checked the index) *)
Definition upd (l : list T) (i : Z) (x : T) : list T :=
  if i <? 0 then l else upd_nat l (Z.to_nat i) x.

(* q.swap(i, j): exchange, then report q.data[i] at i and q.data[j] at j. *)
Definition swap (l : list T) (i j : Z) : res (list T * moves) :=
  match get l i, get l j with
  | Some a, Some b =>
    let l' := upd (upd l i b) j a in
    match get l' i, get l' j with
    | Some a', Some b' => Ok (l', firstn (Z.to_nat HeapqIdx.swap_ncalls_move) [(a', i); (b', j)])
    | _, _ => IndexPanic
    end
  | _, _ => IndexPanic
  end.

Section Cmp.
Variable v : variant.
Variable cmp : T -> T -> Z.

(* q.pushUp(i) *)
Fixpoint push_up (fuel : nat) (l : list T) (i : Z) : res (list T * moves * Z) :=
  match fuel with
  | O => OutOfFuel
  | S f =>
    if HeapqIdx.pushup_continue i then
      let par := parent_of v i in
      match get l i, get l par with
      | Some a, Some b =>
        if HeapqIdx.pushup_break (cmp a b) then Ok (l, [], i)
        else
          do (l', m) <- swap l i par;
          do (l'', m', r) <- push_up f l' par;
          Ok (l'', m ++ m', r)
      | _, _ => IndexPanic
      end
    else Ok (l, [], i)
  end.

(* the loop of q.pushDown, with the loop variables i and lc *)
Fixpoint push_down_loop (fuel : nat) (l : list T) (i lc : Z) : res (list T * moves * Z) :=
  match fuel with
  | O => OutOfFuel
  | S f =>
    if HeapqIdx.pushdown_continue lc (len l) then
      match get l lc, get l i with
      | Some x, Some y =>
        (* min := i; if cmp(data[lc], data[min]) < 0 { min = lc } *)
        let '(min1, ymin) := if HeapqIdx.pushdown_left_less (cmp x y) then (lc, x) else (i, y) in
        let rc := HeapqIdx.rchild lc in
        (* if rc < len && cmp(data[rc], data[min]) < 0 { min = rc }: data[rc] is read only when the
           first conjunct holds; for an rc outside the slice the condition is evaluated with a
           comparison result that makes the second conjunct true, so it holds exactly when the
           code would have gone on to read data[rc] (a panic). *)
        do min2 <- match get l rc with
                   | Some z => Ok (if HeapqIdx.pushdown_right_less rc (len l) (cmp z ymin) then rc else min1)
                   | None => if HeapqIdx.pushdown_right_less rc (len l) (-1) then IndexPanic else Ok min1
                   end;
        if HeapqIdx.pushdown_done min2 i then Ok (l, [], i)
        else
          do (l', m) <- swap l i min2;
          do (l'', m', r) <- push_down_loop f l' min2 (HeapqIdx.lchild_next min2);
          Ok (l'', m ++ m', r)
      | _, _ => IndexPanic
      end
    else Ok (l, [], i)
  end.

(* q.pushDown(i) *)
Definition push_down (l : list T) (i : Z) : res (list T * moves * Z) :=
  push_down_loop (S (length l)) l i (HeapqIdx.lchild i).

(* q.pop(i).  Precondition of the code: i < len(q.data).
   pinned: swap-in of the last element, one report, truncate, pushDown(i).
   repaired (pop_no_siftup = false): afterwards, if the element stayed at i (and i is still inside
   the slice), pushUp(i). *)
Definition pop (l : list T) (i : Z) : res (list T * moves * T) :=
  match get l i with
  | None => IndexPanic
  | Some out =>
    let n := HeapqIdx.pop_last (len l) in
    if HeapqIdx.pop_single n then Ok ([], [], out)
    else
      match get l n with
      | None => IndexPanic
      | Some last =>
        let l1 := upd (upd l i last) n out in
        match get l1 i with
        | None => IndexPanic
        | Some moved =>
          let m0 := if 0 <? HeapqIdx.pop_ncalls_move then [(moved, i)] else [] in
          if n <? 0 then IndexPanic else
          let l2 := firstn (Z.to_nat n) l1 in
          do (l3, m1, j) <- (if 0 <? HeapqIdx.pop_ncalls_pushDown then push_down l2 i else Ok (l2, [], i));
          if pop_no_siftup v then Ok (l3, m0 ++ m1, out)
          else if (j =? i) && (i <? n) then
            do (l4, m2, _) <- push_up (S (length l3)) l3 i;
            Ok (l4, m0 ++ m1 ++ m2, out)
          else Ok (l3, m0 ++ m1, out)
        end
      end
  end.

(* for i := start; i >= 0; i-- { q.pushDown(i) }  (NewWithData, Reorder) *)
Fixpoint heapify_loop (cont : Z -> bool) (next : Z -> Z) (fuel : nat) (l : list T) (i : Z) : res (list T * moves) :=
  match fuel with
  | O => OutOfFuel
  | S f =>
    if cont i then
      do (l', m, _) <- push_down l i;
      do (l'', m') <- heapify_loop cont next f l' (next i);
      Ok (l'', m ++ m')
    else Ok (l, [])
  end.

(* for i := len-1; i >= 0; i-- { q.move(q.data[i], i); q.pushDown(i) }  (Set) *)
Fixpoint set_loop (fuel : nat) (l : list T) (i : Z) : res (list T * moves) :=
  match fuel with
  | O => OutOfFuel
  | S f =>
    if HeapqIdx.set_continue i then
      match get l i with
      | None => IndexPanic
      | Some x =>
        let m0 := if 0 <? HeapqIdx.set_ncalls_move then [(x, i)] else [] in
        do (l', m, _) <- push_down l i;
        do (l'', m') <- set_loop f l' (HeapqIdx.set_next i);
        Ok (l'', m0 ++ m ++ m')
      end
    else Ok (l, [])
  end.

End Cmp.

(* ---- the Queue object ---- *)
Record queue := { data : list T; qcmp : T -> T -> Z }.

Section Ops.
Variable v : variant.

Definition New (c : T -> T -> Z) : queue := {| data := []; qcmp := c |}.

(* NewWithData adopts the slice; the callback is the no-op at that time, so its log is dropped by
   the caller of the model too (returned here for completeness). *)
Definition NewWithData (c : T -> T -> Z) (vs : list T) : res (queue * moves) :=
  do (l, m) <- heapify_loop c HeapqIdx.heapify_continue_new HeapqIdx.heapify_next_new
                 (S (S (length vs))) vs (HeapqIdx.heapify_start_new (len vs));
  Ok ({| data := l; qcmp := c |}, m).

Definition Len (q : queue) : Z := len (data q).
Definition IsEmpty (q : queue) : bool := Z.eqb (len (data q)) 0.

(* None stands for the zero value of T *)
Definition Front (q : queue) : res (option T) :=
  if HeapqIdx.Front_empty (len (data q)) then Ok None
  else match get (data q) HeapqIdx.Front_index with Some x => Ok (Some x) | None => IndexPanic end.

Inductive peeked := PeekPanic | PeekNone | PeekSome (x : T).
Definition Peek (q : queue) (n : Z) : res peeked :=
  if HeapqIdx.Peek_negative n then Ok PeekPanic
  else if HeapqIdx.Peek_beyond n (len (data q)) then Ok PeekNone
  else match get (data q) n with Some x => Ok (PeekSome x) | None => IndexPanic end.

Definition Pop (q : queue) : res (queue * moves * option T) :=
  if HeapqIdx.Pop_empty (len (data q)) then Ok (q, [], None)
  else do (l, m, out) <- pop v (qcmp q) (data q) HeapqIdx.Pop_index;
       Ok ({| data := l; qcmp := qcmp q |}, m, Some out).

Definition Add (q : queue) (x : T) : res (queue * moves * Z) :=
  let n := len (data q) in
  let l := data q ++ [x] in
  match get l n with
  | None => IndexPanic
  | Some x' =>
    let m0 := if 0 <? HeapqIdx.add_ncalls_move then [(x', n)] else [] in
    do (l', m, r) <- (if 0 <? HeapqIdx.add_ncalls_pushUp then push_up v (qcmp q) (S (length l)) l n else Ok (l, [], n));
    Ok ({| data := l'; qcmp := qcmp q |}, m0 ++ m, r)
  end.

(* the explicit panic("index out of range") of Remove for n < 0 is [RemPanic]; state unchanged *)
Inductive removed := RemPanic | RemNone | RemSome (x : T).
Definition Remove (q : queue) (n : Z) : res (queue * moves * removed) :=
  if HeapqIdx.Remove_negative n then Ok (q, [], RemPanic)
  else if HeapqIdx.Remove_beyond n (len (data q)) then Ok (q, [], RemNone)
  else do (l, m, out) <- pop v (qcmp q) (data q) n;
       Ok ({| data := l; qcmp := qcmp q |}, m, RemSome out).

(* Set copies vs (aliasing is outside the model; the harness poisons vs after the call). *)
Definition Set_ (q : queue) (vs : list T) : res (queue * moves) :=
  do (l, m) <- set_loop (qcmp q) (S (length vs)) vs (HeapqIdx.set_start (len vs));
  Ok ({| data := l; qcmp := qcmp q |}, m).

Definition Reorder (q : queue) (c : T -> T -> Z) : res (queue * moves) :=
  do (l, m) <- heapify_loop c HeapqIdx.heapify_continue_reorder HeapqIdx.heapify_next_reorder
                 (S (S (length (data q)))) (data q) (HeapqIdx.heapify_start_reorder (len (data q)));
  Ok ({| data := l; qcmp := c |}, m).

Definition Clear (q : queue) : queue := {| data := []; qcmp := qcmp q |}.

(* Each(f) where f answers false at its k-th call (k counted from 1; 0 = never): the values f saw *)
Definition Each (q : queue) (k : nat) : list T :=
  match k with O => data q | _ => firstn k (data q) end.

(* heapq.Sort(cmp, vs).  The queue shares vs's backing array: every pop(0) leaves the removed
   element in the slot just beyond the shortened slice (data[0], data[n] = data[n], out; or, for
   the last element, data[:0] leaves it in place), so the array is  data ++ spill. *)
Fixpoint sort_drain (fuel : nat) (q : queue) (spill : list T) : res (list T) :=
  match fuel with
  | O => OutOfFuel
  | S f =>
    if IsEmpty q then Ok (data q ++ spill)
    else do (q', _, o) <- Pop q;
         match o with
         | Some x => sort_drain f q' (x :: spill)
         | None => IndexPanic
         end
  end.

Definition Sort (c : T -> T -> Z) (vs : list T) : res (list T) :=
  if HeapqIdx.sort_trivial (len vs) then Ok vs
  else
    let rcmp := fun a b => HeapqIdx.sort_rcmp (c a b) in
    do (q, _) <- NewWithData rcmp vs;
    sort_drain (S (length vs)) q [].

(* ---- histories ---- *)
Inductive op :=
| OAdd (x : T) | OPop | ORemove (i : Z) | OPeek (i : Z) | OFront
| OSet (vs : list T) | OReorder (c : T -> T -> Z) | OClear
| ONew (c : T -> T -> Z)                       (* start over with heapq.New(c) *)
| ONewWithData (c : T -> T -> Z) (vs : list T) (* start over with heapq.NewWithData(c, vs) *)
| OLen | OIsEmpty | OEach (k : nat).

Inductive out :=
| RIdx (i : Z)            (* Add *)
| RVal (x : option T)     (* Front; Pop/Remove/Peek: Some = (x, true), None = (zero, false) *)
| RPanic                  (* the documented panic of Peek/Remove for n < 0 *)
| RUnit
| RNum (n : Z) | RBool (b : bool) | RList (l : list T).

Definition step (q : queue) (o : op) : res (queue * (out * moves)) :=
  match o with
  | OAdd x => do (q', m, r) <- Add q x; Ok (q', (RIdx r, m))
  | OPop => do (q', m, r) <- Pop q; Ok (q', (RVal r, m))
  | ORemove i =>
    do (q', m, r) <- Remove q i;
    Ok (q', (match r with RemPanic => RPanic | RemNone => RVal None | RemSome x => RVal (Some x) end, m))
  | OPeek i =>
    do r <- Peek q i;
    Ok (q, (match r with PeekPanic => RPanic | PeekNone => RVal None | PeekSome x => RVal (Some x) end, []))
  | OFront => do r <- Front q; Ok (q, (RVal r, []))
  | OSet vs => do (q', m) <- Set_ q vs; Ok (q', (RUnit, m))
  | OReorder c => do (q', m) <- Reorder q c; Ok (q', (RUnit, m))
  | OClear => Ok (Clear q, (RUnit, []))
  | ONew c => Ok (New c, (RUnit, []))
  | ONewWithData c vs => do (q', _) <- NewWithData c vs; Ok (q', (RUnit, []))
  | OLen => Ok (q, (RNum (Len q), []))
  | OIsEmpty => Ok (q, (RBool (IsEmpty q), []))
  | OEach k => Ok (q, (RList (Each q k), []))
  end.

(* all outputs of a history, in order; a failing step ends the list with its failure *)
Fixpoint run (q : queue) (ops : list op) : list (res (out * moves)) :=
  match ops with
  | [] => []
  | o :: ops' =>
    match step q o with
    | Ok (q', r) => Ok r :: run q' ops'
    | IndexPanic => [IndexPanic]
    | OutOfFuel => [OutOfFuel]
    end
  end.

(* the state after a history (None if a step failed) *)
Fixpoint exec (q : queue) (ops : list op) : option queue :=
  match ops with
  | [] => Some q
  | o :: ops' => match step q o with Ok (q', _) => exec q' ops' | _ => None end
  end.

End Ops.
End Elem.

Arguments Ok {A} a.
Arguments IndexPanic {A}.
Arguments OutOfFuel {A}.

Arguments OAdd {T} x.
Arguments OPop {T}.
Arguments ORemove {T} i.
Arguments OPeek {T} i.
Arguments OFront {T}.
Arguments OSet {T} vs.
Arguments OReorder {T} c.
Arguments OClear {T}.
Arguments ONew {T} c.
Arguments ONewWithData {T} c vs.
Arguments OLen {T}.
Arguments OIsEmpty {T}.
Arguments OEach {T} k.
Arguments RIdx {T} i.
Arguments RVal {T} x.
Arguments RPanic {T}.
Arguments RUnit {T}.
Arguments RNum {T} n.
Arguments RBool {T} b.
Arguments RList {T} l.
Arguments PeekPanic {T}.
Arguments PeekNone {T}.
Arguments PeekSome {T} x.
Arguments RemPanic {T}.
Arguments RemNone {T}.
Arguments RemSome {T} x.
Arguments data {T} q.
Arguments qcmp {T} q.
Arguments get {T} l i.
Arguments upd {T} l i x.
Arguments len {T} l.
