(* The concrete instance the correspondence runs on: elements are (key, payload) pairs of
   integers compared by key, ascending or descending (payloads tell equal keys apart).
   Definitions only. *)
From Coq Require Import ZArith List Bool.
Import ListNotations.
From Mds Require Import Heapq.HeapqModel.
Local Open Scope Z_scope.

Definition elt : Type := (Z * Z)%type.

(* cmp.Compare on the keys, negated for the descending order *)
Definition kcmp (desc : bool) (a b : elt) : Z :=
  let c := match Z.compare (fst a) (fst b) with Lt => -1 | Eq => 0 | Gt => 1 end in
  if desc then - c else c.

Definition mk_variant (ph pn : bool) : variant := {| parent_halves := ph; pop_no_siftup := pn |}.

Definition q_step (v : variant) (q : queue elt) (o : op elt) := step elt v q o.
Definition q_new (desc : bool) : queue elt := New elt (kcmp desc).
Definition q_data (q : queue elt) : list elt := data q.
Definition q_sort (v : variant) (desc : bool) (vs : list elt) : res (list elt) := Sort elt v (kcmp desc) vs.
