(* The concrete instance the correspondence runs on: elements are (key, payload) pairs of
   integers compared by one of eight comparison functions (by key in both directions, with arbitrary magnitudes, coarsely, all-equal, by payload).
   Definitions only. *)
From Coq Require Import ZArith List Bool.
Import ListNotations.
From Mds Require Import Heapq.HeapqModel.
Local Open Scope Z_scope.

Definition elt : Type := (Z * Z)%type.

Definition sgn3 (c : comparison) : Z := match c with Lt => -1 | Eq => 0 | Gt => 1 end.

(* The comparison functions of the correspondence runs, by code (harness/cmd/heapqtrace cmpOf):
   0 'a' cmp.Compare on the keys            1 'd' its negation
   2 'A' 3*(a.K-b.K)  (arbitrary magnitudes) 3 'D' 7*(b.K-a.K)
   4 'm' cmp.Compare(a.K/4, b.K/4) (coarse: keys tie in blocks of four; Go's / truncates: Z.quot)
   5 'M' (b.K/4-a.K/4)*2                     6 'z' 0 (everything ties)
   7 'p' a.P-b.P (by payload, whatever the keys) *)
Definition ccmp (code : Z) (a b : elt) : Z :=
  match code with
  | 0 => sgn3 (Z.compare (fst a) (fst b))
  | 1 => - sgn3 (Z.compare (fst a) (fst b))
  | 2 => 3 * (fst a - fst b)
  | 3 => 7 * (fst b - fst a)
  | 4 => sgn3 (Z.compare (Z.quot (fst a) 4) (Z.quot (fst b) 4))
  | 5 => (Z.quot (fst b) 4 - Z.quot (fst a) 4) * 2
  | 6 => 0
  | _ => snd a - snd b
  end.

(* cmp.Compare on the keys, negated for the descending order *)
Definition kcmp (desc : bool) (a b : elt) : Z := ccmp (if desc then 1 else 0) a b.

Definition mk_variant (ph pn : bool) : variant := {| parent_halves := ph; pop_no_siftup := pn |}.

Definition q_step (v : variant) (q : queue elt) (o : op elt) := step elt v q o.
Definition q_new (code : Z) : queue elt := New elt (ccmp code).
Definition q_data (q : queue elt) : list elt := data q.
Definition q_sort (v : variant) (code : Z) (vs : list elt) : res (list elt) := Sort elt v (ccmp code) vs.
