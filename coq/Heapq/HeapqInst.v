(* The concrete instance the correspondence runs on: elements are (key, payload) pairs of
   integers compared by one of eight comparison functions (by key in both directions, with arbitrary magnitudes, coarsely, all-equal, by payload).
   Definitions only. *)
From Coq Require Import ZArith List Bool.
Import ListNotations.
From Mds Require Import Gen.HeapqIdx Heapq.HeapqModel.
Local Open Scope Z_scope.

Definition elt : Type := (Z * Z)%type.

Definition sgn3 (c : comparison) : Z := match c with Lt => -1 | Eq => 0 | Gt => 1 end.

(* The comparison functions of the correspondence runs, by code (harness/cmd/heapqtrace cmpOf):
   0 'a' cmp.Compare on the keys            1 'd' its negation
   2 'A' 3*(a.K-b.K)  (arbitrary magnitudes) 3 'D' 7*(b.K-a.K)
   4 'm' cmp.Compare(a.K/4, b.K/4) (coarse: keys tie in blocks of four; Go's / truncates: Z.quot)
   5 'M' (b.K/4-a.K/4)*2                     6 'z' 0 (everything ties)
   7 'p' a.P-b.P (by payload, whatever the keys) *)
Definition ccmp (code : Z) (a b : elt) : Z :=
  match code with
  | 0 => sgn3 (Z.compare (fst a) (fst b))
  | 1 => - sgn3 (Z.compare (fst a) (fst b))
  | 2 => 3 * (fst a - fst b)
  | 3 => 7 * (fst b - fst a)
  | 4 => sgn3 (Z.compare (Z.quot (fst a) 4) (Z.quot (fst b) 4))
  | 5 => (Z.quot (fst b) 4 - Z.quot (fst a) 4) * 2
  | 6 => 0
  | _ => snd a - snd b
  end.

(* cmp.Compare on the keys, negated for the descending order *)
Definition kcmp (desc : bool) (a b : elt) : Z := ccmp (if desc then 1 else 0) a b.

Definition mk_variant (ph pn : bool) : variant := {| parent_halves := ph; pop_no_siftup := pn |}.

Definition q_step (v : variant) (q : queue elt) (o : op elt) := step elt v q o.
Definition q_new (code : Z) : queue elt := New elt (ccmp code).
Definition q_data (q : queue elt) : list elt := data q.
Definition q_sort (v : variant) (code : Z) (vs : list elt) : res (list elt) := Sort elt v (ccmp code) vs.

(* ---- the zero-size element type (known finding F14, machine-int audit) ----
   heapq.Queue[struct{}] with a comparison that is constantly 0 (there is only one value), Set on a
   slice of n elements; [w] is how an int expression is evaluated: [wrap64] = Go's 64-bit
   two's-complement int, the identity = the unbounded integers of the model.  No comparison is ever
   < 0, so no pushDown swaps: pushDown(i) computes lc = 2*i+1 (the generated expression), and if
   lc < len it reads q.data[lc] -- a negative lc is an index panic naming lc -- and returns.  Set's
   loop starts at i = len-1; if that lc does not wrap, no smaller i wraps (HeapqInt.no_wrap_below). *)
Definition wrap64 (z : Z) : Z := (z + 2 ^ 63) mod 2 ^ 64 - 2 ^ 63.
Inductive zres := ZOk (n : Z) | ZIndexPanic (idx : Z) | ZRefused.
Definition zset (w : Z -> Z) (n : Z) : zres :=
  if n <? 0 then ZRefused
  else if n =? 0 then ZOk 0
  else let lc := w (HeapqIdx.lchild (HeapqIdx.set_start n)) in
       if HeapqIdx.pushdown_continue lc n && (lc <? 0) then ZIndexPanic lc else ZOk n.
Definition zset64 (n : Z) : zres := zset wrap64 n.
Definition zset_ideal (n : Z) : zres := zset (fun z => z) n.
(* the harness refuses sizes whose Set would loop for ages; above the bound Set fails at once *)
Definition z_above_bound (n : Z) : bool := 2 ^ 62 <? n.
Definition z_refused (n : Z) : bool := (n <? 0) || ((4096 <? n) && (n <=? 2 ^ 62)).
Definition z_small (n : Z) : bool := n <=? 64.
