(* The eight comparison functions of the correspondence runs (HeapqInst.ccmp) all satisfy the
   contract of heapq.New (HeapqSpec.total_preorder), so every theorem of C05 applies to the
   histories the harness generates. *)
From Coq Require Import ZArith List Bool Lia.
From Mds Require Import Heapq.HeapqModel Heapq.HeapqSpec Heapq.HeapqInst.
Local Open Scope Z_scope.

Ltac sgn_cases :=
  repeat match goal with
  | |- context[Z.sgn ?x] => destruct (Z.sgn_spec x) as [[? ->]|[[? ->]|[? ->]]]
  end.
Ltac cmp_cases :=
  repeat match goal with
  | |- context[Z.compare ?x ?y] => destruct (Z.compare_spec x y)
  | H : context[Z.compare ?x ?y] |- _ => destruct (Z.compare_spec x y)
  end.

Lemma by_key_tp : forall f : elt -> Z, total_preorder elt (fun a b => sgn3 (Z.compare (f a) (f b))).
Proof.
  intros f. split.
  - intros a b. cmp_cases; cbn; lia.
  - intros a b c. cmp_cases; cbn; lia.
Qed.

Lemma by_diff_tp : forall (f : elt -> Z) (k : Z), 0 < k -> total_preorder elt (fun a b => k * (f a - f b)).
Proof.
  intros f k Hk. split.
  - intros a b. sgn_cases; nia.
  - intros a b c. nia.
Qed.

Lemma tp_ext : forall (c1 c2 : elt -> elt -> Z), (forall a b, c1 a b = c2 a b) -> total_preorder elt c1 -> total_preorder elt c2.
Proof.
  intros c1 c2 E [H1 H2]. split.
  - intros a b. rewrite <- !E. apply H1.
  - intros a b c. rewrite <- !E. apply H2.
Qed.

Lemma tp_neg : forall c : elt -> elt -> Z, total_preorder elt c -> total_preorder elt (fun a b => - c a b).
Proof.
  intros c [H1 H2]. split.
  - intros a b. rewrite !Z.sgn_opp. rewrite (H1 a b). lia.
  - intros a b d Hab Hbd. pose proof (H1 a b). pose proof (H1 b d). pose proof (H1 a d).
    assert (c d b <= 0) by (destruct (Z.sgn_spec (c b d)) as [[? ?]|[[? ?]|[? ?]]]; destruct (Z.sgn_spec (c d b)) as [[? ?]|[[? ?]|[? ?]]]; lia).
    assert (c b a <= 0) by (destruct (Z.sgn_spec (c a b)) as [[? ?]|[[? ?]|[? ?]]]; destruct (Z.sgn_spec (c b a)) as [[? ?]|[[? ?]|[? ?]]]; lia).
    pose proof (H2 d b a ltac:(assumption) ltac:(assumption)).
    pose proof (H1 d a).
    destruct (Z.sgn_spec (c a d)) as [[? ?]|[[? ?]|[? ?]]]; destruct (Z.sgn_spec (c d a)) as [[? ?]|[[? ?]|[? ?]]]; lia.
Qed.

Ltac tp_solve :=
  solve [ exact (by_key_tp (fun a => fst a))
        | exact (tp_neg _ (by_key_tp (fun a => fst a)))
        | exact (by_key_tp (fun a => Z.quot (fst a) 4))
        | (eapply tp_ext; [|apply (by_diff_tp (fun a => fst a) 3); lia]; intros; cbn beta; lia)
        | (eapply tp_ext; [|apply (by_diff_tp (fun a => - fst a) 7); lia]; intros; cbn beta; lia)
        | (eapply tp_ext; [|apply (by_diff_tp (fun a => - Z.quot (fst a) 4) 2); lia]; intros; cbn beta; lia)
        | (eapply tp_ext; [|apply (by_diff_tp (fun a => snd a) 1); lia]; intros; cbn beta; lia)
        | (split; intros; cbn; lia) ].

Theorem ccmp_total_preorder : forall code, total_preorder elt (ccmp code).
Proof.
  intros code. unfold ccmp.
  destruct code as [|p|p]; try (destruct p as [p|p|]; try (destruct p as [p|p|]; try (destruct p as [p|p|])));
    cbv beta iota; tp_solve.
Qed.
