(* Lists as arrays with Z indices: get / upd / len, and the comparator laws. *)
From Coq Require Import ZArith List Bool Lia Permutation.
Import ListNotations.
From Mds Require Import Heapq.HeapqModel Heapq.HeapqSpec.
Local Open Scope Z_scope.

Section Arr.
Variable T : Type.
Implicit Types l : list T.

Lemma len_nonneg : forall l, 0 <= len l.
Proof. intros; unfold len; lia. Qed.

Lemma len_nil : len (@nil T) = 0.
Proof. reflexivity. Qed.

Lemma len_app : forall l l', len (l ++ l') = len l + len l'.
Proof. intros; unfold len; rewrite app_length; lia. Qed.

Lemma len_zero_nil : forall l, len l = 0 -> l = [].
Proof. intros [|h t] H; [reflexivity|]. unfold len in H; cbn in H; lia. Qed.

Lemma get_nat : forall l i, 0 <= i -> get l i = nth_error l (Z.to_nat i).
Proof. intros l i H; unfold get. destruct (i <? 0) eqn:E; [lia|reflexivity]. Qed.

Lemma get_range : forall l i x, get l i = Some x -> 0 <= i < len l.
Proof.
  intros l i x H; unfold get in H. destruct (i <? 0) eqn:E; [discriminate|].
  assert (Hn : (Z.to_nat i < length l)%nat) by (apply nth_error_Some; congruence).
  unfold len; lia.
Qed.

Lemma get_some : forall l i, 0 <= i < len l -> exists x, get l i = Some x.
Proof.
  intros l i H. rewrite get_nat by lia.
  destruct (nth_error l (Z.to_nat i)) eqn:E; [eauto|].
  apply nth_error_None in E. unfold len in H; lia.
Qed.

Lemma get_none : forall l i, get l i = None -> i < 0 \/ len l <= i.
Proof.
  intros l i H. destruct (Z_lt_dec i 0); [lia|]. right.
  rewrite get_nat in H by lia. apply nth_error_None in H. unfold len; lia.
Qed.

Lemma get_beyond : forall l i, len l <= i -> get l i = None.
Proof.
  intros l i H. pose proof (len_nonneg l). rewrite get_nat by lia.
  apply nth_error_None. unfold len in H; lia.
Qed.

Lemma get_In : forall l i x, get l i = Some x -> In x l.
Proof.
  intros l i x H. unfold get in H. destruct (i <? 0); [discriminate|]. eapply nth_error_In; eauto.
Qed.

Lemma In_get : forall l x, In x l -> exists i, get l i = Some x.
Proof.
  intros l x H. apply In_nth_error in H. destruct H as [n H].
  exists (Z.of_nat n). rewrite get_nat by lia. rewrite Nat2Z.id. exact H.
Qed.

Lemma get_ext : forall l l', len l = len l' -> (forall i, 0 <= i < len l -> get l i = get l' i) -> l = l'.
Proof.
  induction l as [|h t IH]; intros [|h' t'] Hl He; unfold len in Hl; cbn in Hl; try lia; [reflexivity|].
  assert (H0 := He 0). unfold len in H0; cbn in H0. assert (Some h = Some h') by (apply H0; lia).
  f_equal; [congruence|]. apply IH; [unfold len; lia|].
  intros i Hi. assert (H1 := He (i + 1)). unfold len in H1, Hi; cbn [length] in H1.
  rewrite !get_nat in H1 by lia. rewrite !get_nat by lia.
  replace (Z.to_nat (i + 1)) with (S (Z.to_nat i)) in H1 by lia. cbn in H1. apply H1. lia.
Qed.

(* ---- upd ---- *)
Lemma upd_nat_length : forall l n x, length (upd_nat T l n x) = length l.
Proof. induction l as [|h t IH]; intros [|n] x; cbn; auto. Qed.

Lemma len_upd : forall l i x, len (upd l i x) = len l.
Proof. intros; unfold upd, len. destruct (i <? 0); [reflexivity|]. rewrite upd_nat_length; reflexivity. Qed.

Lemma nth_upd_nat_same : forall l n x, (n < length l)%nat -> nth_error (upd_nat T l n x) n = Some x.
Proof. induction l as [|h t IH]; intros [|n] x H; cbn in *; try lia; auto. apply IH; lia. Qed.

Lemma nth_upd_nat_other : forall l n m x, n <> m -> nth_error (upd_nat T l n x) m = nth_error l m.
Proof. induction l as [|h t IH]; intros [|n] [|m] x H; cbn; auto; try congruence. Qed.

Lemma get_upd_same : forall l i x, 0 <= i < len l -> get (upd l i x) i = Some x.
Proof.
  intros l i x H. rewrite get_nat by lia. unfold upd. destruct (i <? 0) eqn:E; [lia|].
  apply nth_upd_nat_same. unfold len in H; lia.
Qed.

Lemma get_upd_other : forall l i j x, i <> j -> get (upd l i x) j = get l j.
Proof.
  intros l i j x H. unfold get, upd. destruct (j <? 0) eqn:Ej; [reflexivity|].
  destruct (i <? 0) eqn:Ei; [reflexivity|]. apply nth_upd_nat_other. lia.
Qed.

Lemma upd_nat_id : forall l n x, nth_error l n = Some x -> upd_nat T l n x = l.
Proof. induction l as [|h t IH]; intros [|n] x H; cbn in *; try congruence. f_equal; auto. Qed.

(* taking a out at position n and putting x there *)
Lemma perm_upd_nat : forall l n a x, nth_error l n = Some a -> Permutation (x :: l) (a :: upd_nat T l n x).
Proof.
  induction l as [|h t IH]; intros [|n] a x H; cbn in *; try discriminate.
  - inversion H; subst. apply perm_swap.
  - eapply perm_trans; [apply perm_swap|]. eapply perm_trans; [apply perm_skip, IH; eassumption|]. apply perm_swap.
Qed.

Lemma perm_swap_nat : forall l i j a b, nth_error l i = Some a -> nth_error l j = Some b ->
  Permutation (upd_nat T (upd_nat T l i b) j a) l.
Proof.
  intros l i j a b Hi Hj. destruct (Nat.eq_dec i j) as [->|Hne].
  - assert (a = b) by congruence. subst b.
    rewrite (upd_nat_id l j a Hi). rewrite (upd_nat_id l j a Hi). apply Permutation_refl.
  - pose proof (perm_upd_nat l i a b Hi) as P1.
    assert (Hj' : nth_error (upd_nat T l i b) j = Some b) by (rewrite nth_upd_nat_other; auto).
    pose proof (perm_upd_nat _ j b a Hj') as P2.
    apply Permutation_cons_inv with (a := b). apply Permutation_sym.
    eapply perm_trans; [exact P1|exact P2].
Qed.

Lemma perm_swap_get : forall l i j a b, get l i = Some a -> get l j = Some b ->
  Permutation (upd (upd l i b) j a) l.
Proof.
  intros l i j a b Hi Hj. pose proof (get_range _ _ _ Hi). pose proof (get_range _ _ _ Hj).
  rewrite get_nat in Hi, Hj by lia. unfold upd.
  destruct (i <? 0) eqn:Ei; [lia|]. destruct (j <? 0) eqn:Ej; [lia|].
  apply perm_swap_nat; assumption.
Qed.

(* the layout after exchanging the (distinct) slots i and j *)
Lemma get_swapped : forall l i j a b k, i <> j -> get l i = Some a -> get l j = Some b ->
  get (upd (upd l i b) j a) k = if k =? j then Some a else if k =? i then Some b else get l k.
Proof.
  intros l i j a b k Hne Hi Hj. pose proof (get_range _ _ _ Hi). pose proof (get_range _ _ _ Hj).
  destruct (k =? j) eqn:Ekj.
  - apply Z.eqb_eq in Ekj; subst k. apply get_upd_same. rewrite len_upd. lia.
  - apply Z.eqb_neq in Ekj. rewrite get_upd_other by lia.
    destruct (k =? i) eqn:Eki.
    + apply Z.eqb_eq in Eki; subst k. apply get_upd_same. lia.
    + apply Z.eqb_neq in Eki. apply get_upd_other. lia.
Qed.

(* ---- firstn, app ---- *)
Lemma len_firstn : forall l n, 0 <= n <= len l -> len (firstn (Z.to_nat n) l) = n.
Proof. intros l n H. unfold len in *. rewrite firstn_length. lia. Qed.

Lemma nth_firstn : forall l n k, (k < n)%nat -> nth_error (firstn n l) k = nth_error l k.
Proof.
  induction l as [|h t IH]; intros [|n] [|k] H; cbn; auto; try lia. apply IH; lia.
Qed.

Lemma get_firstn : forall l n i, 0 <= n <= len l -> get (firstn (Z.to_nat n) l) i = if i <? n then get l i else None.
Proof.
  intros l n i H. destruct (i <? n) eqn:E.
  - unfold get. destruct (i <? 0) eqn:E0; [reflexivity|]. apply nth_firstn. lia.
  - apply get_beyond. rewrite len_firstn by lia. lia.
Qed.

Lemma get_app_last : forall l x, get (l ++ [x]) (len l) = Some x.
Proof.
  intros l x. pose proof (len_nonneg l). rewrite get_nat by lia. unfold len. rewrite Nat2Z.id.
  rewrite nth_error_app2 by lia. rewrite Nat.sub_diag. reflexivity.
Qed.

Lemma get_app_left : forall l l' i, i < len l -> get (l ++ l') i = get l i.
Proof.
  intros l l' i H. unfold get. destruct (i <? 0) eqn:E; [reflexivity|].
  apply nth_error_app1. unfold len in H; lia.
Qed.

Lemma firstn_removelast_perm : forall l n x, get l n = Some x -> n = len l - 1 ->
  Permutation l (x :: firstn (Z.to_nat n) l).
Proof.
  intros l n x Hg Hn. pose proof (get_range _ _ _ Hg) as Hr.
  rewrite get_nat in Hg by lia.
  rewrite <- (firstn_skipn (Z.to_nat n) l) at 1.
  assert (Hs : skipn (Z.to_nat n) l = [x]).
  { pose proof (firstn_skipn (Z.to_nat n) l) as E.
    assert (Hl : length (skipn (Z.to_nat n) l) = 1%nat) by (rewrite skipn_length; unfold len in *; lia).
    destruct (skipn (Z.to_nat n) l) as [|y [|z r]] eqn:Es; cbn in Hl; try lia.
    rewrite <- E in Hg. rewrite nth_error_app2 in Hg by (rewrite firstn_length; lia).
    rewrite firstn_length in Hg. replace (Z.to_nat n - Init.Nat.min (Z.to_nat n) (length l))%nat with 0%nat in Hg by (unfold len in *; lia).
    cbn in Hg. congruence. }
  rewrite Hs. apply Permutation_sym. apply Permutation_cons_append.
Qed.

(* ---- comparator laws ---- *)
Section Laws.
Variable cmp : T -> T -> Z.
Hypothesis TP : total_preorder T cmp.

Lemma cmp_flip_lt : forall a b, cmp a b < 0 <-> 0 < cmp b a.
Proof.
  intros a b. pose proof (tp_sgn TP a b) as H.
  destruct (Z.sgn_spec (cmp a b)) as [[? E]|[[? E]|[? E]]], (Z.sgn_spec (cmp b a)) as [[? E']|[[? E']|[? E']]]; lia.
Qed.

Lemma cmp_ge_le : forall a b, 0 <= cmp a b <-> cmp b a <= 0.
Proof.
  intros a b. pose proof (tp_sgn TP a b) as H.
  destruct (Z.sgn_spec (cmp a b)) as [[? E]|[[? E]|[? E]]], (Z.sgn_spec (cmp b a)) as [[? E']|[[? E']|[? E']]]; lia.
Qed.

Lemma cmp_refl : forall a, cmp a a <= 0.
Proof. intros a. pose proof (cmp_flip_lt a a). pose proof (cmp_ge_le a a). lia. Qed.

Lemma cmp_nlt_le : forall a b, ~ cmp a b < 0 -> cmp b a <= 0.
Proof. intros a b H. apply cmp_ge_le. lia. Qed.

Lemma cmp_lt_le : forall a b, cmp a b < 0 -> cmp a b <= 0.
Proof. intros; lia. Qed.

Lemma cmp_lt_le_trans : forall a b c, cmp a b < 0 -> cmp b c <= 0 -> cmp a c <= 0.
Proof. intros a b c H1 H2. eapply (tp_trans TP); [|eassumption]. lia. Qed.

End Laws.

Lemma total_preorder_neg : forall cmp, total_preorder T cmp -> total_preorder T (fun a b => - cmp a b).
Proof.
  intros cmp TP. split.
  - intros a b. rewrite !Z.sgn_opp. rewrite (tp_sgn TP a b). reflexivity.
  - intros a b c H1 H2.
    assert (cmp b a <= 0) by (apply (cmp_ge_le cmp TP); lia).
    assert (cmp c b <= 0) by (apply (cmp_ge_le cmp TP); lia).
    assert (cmp c a <= 0) by (eapply (tp_trans TP); eassumption).
    apply (cmp_ge_le cmp TP) in H3. lia.
Qed.

End Arr.
