(* The control skeleton of heapq.go that HeapqModel.v transcribes by hand, pinned against the Go
   source: Gen/HeapqIdx.v (regenerated on every run) carries, for every function of the package,
   its statement skeleton as one number (a hex digit per statement: 1 if, 2 for, 3 range,
   4 return, 5 assignment, 6 expression statement, 7 break, 9 declaration, d else, e/f braces), the
   order of the statements the model depends on, and the arguments of the internal calls.  An added
   guard, an early return, a dropped or reordered statement, or a changed argument makes one of
   these equations false, and the build of Props/C05.vo and Props/C06.vo stops here. *)
From Coq Require Import ZArith List Lia.
Import ListNotations.
From Mds Require Import Gen.HeapqIdx.
Local Open Scope Z_scope.

Definition skeleton_of_source : list Z :=
  [shape_New; shape_NewWithData; shape_Update; shape_Len; shape_IsEmpty; shape_Front; shape_Peek; shape_Pop;
   shape_Add; shape_Remove; shape_Set; shape_Reorder; shape_Each; shape_Clear; shape_pop; shape_pushUp;
   shape_pushDown; shape_swap; shape_Sort].

(* the skeletons the model was transcribed from *)
Definition skeleton_of_model : list Z :=
  [3663; 984177602383; 15523620216655; 3663; 3663; 3790163791; 3974115285880655; 3790163791;
   15029839; 3974115285880655; 66673441146140755390287; 61511100159; 61171716095; 3679; 16524241386437177167; 3991578992861007;
   4433004036885765149768965967; 939631; 248373484644095].

Definition calls_as_modelled : Prop :=
  (* Add: report the new element at n, then pushUp(n) *)
  ord_add_move < ord_add_pushup /\ (forall n, move_idx_add n = n) /\ (forall n, pushup_arg_add n = n) /\
  (* pop: report the moved-in element at i, truncate, then pushDown(i) *)
  ord_pop_move < ord_pop_truncate /\ ord_pop_truncate < ord_pop_pushdown /\
  (forall i, move_idx_pop i = i) /\ (forall i, pushdown_arg_pop i = i) /\
  (* Set: report at i, then pushDown(i) *)
  ord_set_move < ord_set_pushdown /\ (forall i, move_idx_set i = i) /\ (forall i, pushdown_arg_set i = i) /\
  (* Reorder: the new comparison is in place before the first pushDown(i) *)
  ord_reorder_cmp < ord_reorder_pushdown /\ (forall i, pushdown_arg_reorder i = i) /\
  (forall i, pushdown_arg_new i = i) /\
  (* swap(i, j) reports i then j; pushUp swaps (i, par) and goes on at par; pushDown swaps (i, min)
     and goes on at min *)
  (forall i j, move_idx_swap0 i j = i) /\ (forall i j, move_idx_swap1 i j = j) /\
  (forall i par, swap_args_up_i i par = i) /\ (forall i par, swap_args_up_j i par = par) /\ (forall par, pushup_next par = par) /\
  (forall i m, swap_args_down_i i m = i) /\ (forall i m, swap_args_down_j i m = m) /\ (forall m, pushdown_next_i m = m).

Lemma skeleton_pinned : skeleton_of_source = skeleton_of_model /\ calls_as_modelled.
Proof.
  split; [reflexivity|]. unfold calls_as_modelled. repeat split; try reflexivity; try (cbv; reflexivity).
Qed.
