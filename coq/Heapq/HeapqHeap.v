(* heapq model, part 2 — heap order.  pushDown repairs an almost-heap; hence the heapify loops of
   Set / Reorder / NewWithData always produce a valid heap, removing the root keeps it valid, the
   root is minimal, and heapq.Sort sorts — for every variant (none of this uses pushUp). *)
From Coq Require Import ZArith List Bool Lia Permutation Sorted.
Import ListNotations.
From Mds Require Import Gen.HeapqIdx Heapq.HeapqModel Heapq.HeapqSpec Heapq.HeapqArray Heapq.HeapqProofs.
Local Open Scope Z_scope.

Section NoContract.
Variable T : Type.
Variable cmp : T -> T -> Z.
Implicit Types l : list T.

Lemma get_swapped_i : forall l i j a b, i <> j -> get l i = Some a -> get l j = Some b ->
  get (upd (upd l i b) j a) i = Some b.
Proof.
  intros. rewrite (get_swapped T l i j a b i) by assumption.
  destruct (i =? j) eqn:E; [apply Z.eqb_eq in E; contradiction|]. rewrite Z.eqb_refl. reflexivity.
Qed.
Lemma get_swapped_j : forall l i j a b, i <> j -> get l i = Some a -> get l j = Some b ->
  get (upd (upd l i b) j a) j = Some a.
Proof. intros. rewrite (get_swapped T l i j a b j) by assumption. rewrite Z.eqb_refl. reflexivity. Qed.
Lemma get_swapped_other : forall l i j a b k, i <> j -> get l i = Some a -> get l j = Some b -> k <> i -> k <> j ->
  get (upd (upd l i b) j a) k = get l k.
Proof.
  intros. rewrite (get_swapped T l i j a b k) by assumption.
  destruct (k =? j) eqn:E; [apply Z.eqb_eq in E; contradiction|].
  destruct (k =? i) eqn:E'; [apply Z.eqb_eq in E'; contradiction|]. reflexivity.
Qed.

(* the heapify loop of NewWithData / Reorder never fails and permutes *)
Lemma heapify_loop_total : forall fuel l i, -1 <= i -> i + 1 < Z.of_nat fuel ->
  exists l' m, heapify_loop T cmp (fun i => i >=? 0) (fun i => i - 1) fuel l i = Ok (l', m) /\ Permutation l' l /\
    (NoDup l -> log_ok T l l' m).
Proof.
  induction fuel as [|f IH]; intros l i Hi Hf; [lia|].
  cbn [heapify_loop]. rewrite Z.geb_leb. destruct (0 <=? i) eqn:E.
  - apply Z.leb_le in E. destruct (push_down_total T cmp l i E) as (l1 & m1 & r & Hpd & Hp & _ & Hlog1 & _).
    rewrite Hpd. cbn [bind]. destruct (IH l1 (i - 1)) as (l2 & m2 & Heq & Hp2 & Hlog2); [lia|lia|].
    rewrite Heq. cbn [bind]. eexists _, _. split; [reflexivity|]. split; [eapply perm_trans; eassumption|].
    intros Hn. eapply log_ok_trans; [apply Hlog1; exact Hn|]. apply Hlog2.
    eapply Permutation_NoDup; [apply Permutation_sym; exact Hp|exact Hn].
  - exists l, []. split; [reflexivity|]. split; [apply Permutation_refl|]. intros _. apply log_ok_refl.
Qed.

(* the loop of Set: never fails, permutes, and reports every element's final offset *)
Lemma set_loop_total : forall fuel l i, -1 <= i < len l -> i + 1 < Z.of_nat fuel ->
  exists l' m, set_loop T cmp fuel l i = Ok (l', m) /\ Permutation l' l /\
    (NoDup l -> forall e k, get l' k = Some e ->
       last_report T m e k \/ (unreported T m e /\ get l k = Some e /\ i < k)).
Proof.
  induction fuel as [|f IH]; intros l i Hi Hf; [lia|].
  cbn [set_loop]. unfold set_continue, set_next. rewrite Z.geb_leb. destruct (0 <=? i) eqn:E.
  - apply Z.leb_le in E. destruct (get_some T l i) as [x Hx]; [lia|]. rewrite Hx.
    change (0 <? set_ncalls_move) with true. cbv iota.
    destruct (push_down_total T cmp l i E) as (l1 & m1 & r & Hpd & Hp & _ & Hlog & _).
    rewrite Hpd. cbn [bind].
    assert (Hl1 : len l1 = len l) by (unfold len; f_equal; apply Permutation_length; exact Hp).
    destruct (IH l1 (i - 1)) as (l2 & m2 & Heq & Hp2 & Hrep); [lia|lia|].
    rewrite Heq. cbn [bind]. eexists _, _. split; [reflexivity|]. split; [eapply perm_trans; eassumption|].
    intros Hn e k Hg.
    assert (Hn1 : NoDup l1) by (eapply Permutation_NoDup; [apply Permutation_sym; exact Hp|exact Hn]).
    destruct (Hrep Hn1 e k Hg) as [[a [b [Em Hnb]]]|[Hu2 [Hg1 Hk]]].
    + left. exists ([(x, i)] ++ m1 ++ a), b. split; [|exact Hnb]. rewrite Em. cbn. rewrite <- app_assoc. reflexivity.
    + destruct (Hlog Hn e k Hg1) as [[a [b [Em Hnb]]]|[Hu1 Hg0]].
      * left. exists ([(x, i)] ++ a), (b ++ m2). split; [rewrite Em; cbn; rewrite <- app_assoc; reflexivity|].
        intros j Hin. apply in_app_or in Hin. destruct Hin as [Hin|Hin]; [exact (Hnb j Hin)|exact (Hu2 j Hin)].
      * destruct (Z.eq_dec k i) as [->|Hki].
        -- left. assert (e = x) by congruence. subst e. exists [], (m1 ++ m2). split; [reflexivity|].
           intros j Hin. apply in_app_or in Hin. destruct Hin as [Hin|Hin]; [exact (Hu1 j Hin)|exact (Hu2 j Hin)].
        -- right. split; [|split; [assumption|lia]].
           intros j [Hin|Hin].
           ++ inversion Hin; subst. apply Hki. eapply (NoDup_get_inj T l); eauto.
           ++ cbn [app] in Hin. apply in_app_or in Hin. destruct Hin as [Hin|Hin]; [exact (Hu1 j Hin)|exact (Hu2 j Hin)].
  - exists l, []. split; [reflexivity|]. split; [apply Permutation_refl|].
    intros _ e k Hg. right. apply Z.leb_gt in E. split; [intros j []|]. split; [assumption|].
    apply get_range in Hg. lia.
Qed.

End NoContract.

Section Order.
Variable T : Type.
Variable cmp : T -> T -> Z.
Hypothesis TP : total_preorder T cmp.
Implicit Types l : list T.

Lemma cmp_lt_trans : forall a b c, cmp a b < 0 -> cmp b c < 0 -> cmp a c < 0.
Proof.
  intros a b c H1 H2. destruct (Z_lt_dec (cmp a c) 0) as [|Hn]; [assumption|exfalso].
  assert (cmp c a <= 0) by (apply (cmp_ge_le T cmp TP); lia).
  assert (cmp c b <= 0) by (eapply (tp_trans TP); [eassumption|lia]).
  apply (cmp_flip_lt T cmp TP) in H2. lia.
Qed.

Lemma heap_from_beyond : forall l k, len l <= 2 * k + 1 -> heap_from T cmp l k.
Proof.
  intros l k H j Hj c Hc x y _ Hy. apply get_range in Hy. unfold child in Hc. lia.
Qed.

Lemma heap_ok_nil : heap_ok T cmp [].
Proof. apply heap_from_beyond. cbn. lia. Qed.

Lemma pd_choice_spec : forall l i, 0 <= i ->
  (pd_choice T cmp l i = Ok None /\ ok_at T cmp l i) \/
  (exists m xm xi, pd_choice T cmp l i = Ok (Some m) /\ child i m /\ get l m = Some xm /\ get l i = Some xi /\
     cmp xm xi < 0 /\ forall c xc, child i c -> get l c = Some xc -> cmp xm xc <= 0).
Proof.
  intros l i Hi. unfold pd_choice. rewrite rchild_eq, lchild_eq.
  unfold pushdown_continue, pushdown_right_less, pushdown_done, pushdown_left_less.
  destruct (2 * i + 1 <? len l) eqn:E.
  2:{ left. split; [reflexivity|]. apply Z.ltb_ge in E.
      intros c Hc x y _ Hy. apply get_range in Hy. unfold child in Hc. lia. }
  apply Z.ltb_lt in E.
  destruct (get_some T l (2 * i + 1)) as [x Hx]; [lia|].
  destruct (get_some T l i) as [y Hy]; [lia|].
  rewrite Hx, Hy.
  assert (Hc1 : child i (2 * i + 1)) by (left; reflexivity).
  assert (Hc2 : child i (2 * i + 1 + 1)) by (right; lia).
  assert (Hkids : forall (P : T -> Prop), (forall xc, get l (2 * i + 1) = Some xc -> P xc) ->
            (forall xc, get l (2 * i + 1 + 1) = Some xc -> P xc) ->
            forall c xc, child i c -> get l c = Some xc -> P xc).
  { intros P H1 H2 c xc [->| ->] Hg; [apply H1; exact Hg|apply H2]. replace (2 * i + 1 + 1) with (2 * i + 2) by lia. exact Hg. }
  destruct (cmp x y <? 0) eqn:Exy.
  - apply Z.ltb_lt in Exy.
    destruct (get l (2 * i + 1 + 1)) as [z|] eqn:Ez.
    + pose proof (get_range _ _ _ _ Ez) as Hrz.
      destruct (2 * i + 1 + 1 <? len l) eqn:E3; [|apply Z.ltb_ge in E3; lia]. cbn [andb].
      destruct (cmp z x <? 0) eqn:Ezx; cbn [bind].
      * apply Z.ltb_lt in Ezx. destruct (2 * i + 1 + 1 =? i) eqn:E2; [apply Z.eqb_eq in E2; lia|].
        right. exists (2 * i + 1 + 1), z, y. split; [reflexivity|]. split; [assumption|]. split; [assumption|].
        split; [reflexivity|]. split; [eapply cmp_lt_trans; eassumption|].
        apply Hkids; intros xc Hg.
        -- assert (xc = x) by congruence. subst. lia.
        -- assert (xc = z) by congruence. subst. apply (cmp_refl T cmp TP).
      * apply Z.ltb_ge in Ezx. destruct (2 * i + 1 =? i) eqn:E2; [apply Z.eqb_eq in E2; lia|].
        right. exists (2 * i + 1), x, y. split; [reflexivity|]. split; [assumption|]. split; [assumption|].
        split; [reflexivity|]. split; [assumption|].
        apply Hkids; intros xc Hg.
        -- assert (xc = x) by congruence. subst. apply (cmp_refl T cmp TP).
        -- assert (xc = z) by congruence. subst. apply (cmp_ge_le T cmp TP). lia.
    + apply get_none in Ez. destruct (2 * i + 1 + 1 <? len l) eqn:E3; [apply Z.ltb_lt in E3; lia|].
      cbn [andb bind]. destruct (2 * i + 1 =? i) eqn:E2; [apply Z.eqb_eq in E2; lia|].
      right. exists (2 * i + 1), x, y. split; [reflexivity|]. split; [assumption|]. split; [assumption|].
      split; [reflexivity|]. split; [assumption|].
      apply Hkids; intros xc Hg.
      * assert (xc = x) by congruence. subst. apply (cmp_refl T cmp TP).
      * first [discriminate Hg | (apply get_range in Hg; apply Z.ltb_ge in E3; lia)].
  - apply Z.ltb_ge in Exy. assert (Hyx : cmp y x <= 0) by (apply (cmp_ge_le T cmp TP); lia).
    destruct (get l (2 * i + 1 + 1)) as [z|] eqn:Ez.
    + pose proof (get_range _ _ _ _ Ez) as Hrz.
      destruct (2 * i + 1 + 1 <? len l) eqn:E3; [|apply Z.ltb_ge in E3; lia]. cbn [andb].
      destruct (cmp z y <? 0) eqn:Ezy; cbn [bind].
      * apply Z.ltb_lt in Ezy. destruct (2 * i + 1 + 1 =? i) eqn:E2; [apply Z.eqb_eq in E2; lia|].
        right. exists (2 * i + 1 + 1), z, y. split; [reflexivity|]. split; [assumption|]. split; [assumption|].
        split; [reflexivity|]. split; [assumption|].
        apply Hkids; intros xc Hg.
        -- assert (xc = x) by congruence. subst. eapply (cmp_lt_le_trans T cmp TP); eassumption.
        -- assert (xc = z) by congruence. subst. apply (cmp_refl T cmp TP).
      * apply Z.ltb_ge in Ezy. rewrite Z.eqb_refl. left. split; [reflexivity|].
        intros c Hc x0 y0 Hx0 Hy0. assert (x0 = y) by congruence. subst x0. revert c y0 Hc Hy0.
        apply Hkids; intros xc Hg.
        -- assert (xc = x) by congruence. subst. assumption.
        -- assert (xc = z) by congruence. subst. apply (cmp_ge_le T cmp TP). lia.
    + apply get_none in Ez. destruct (2 * i + 1 + 1 <? len l) eqn:E3; [apply Z.ltb_lt in E3; lia|].
      cbn [andb bind]. rewrite Z.eqb_refl. left. split; [reflexivity|].
      intros c Hc x0 y0 Hx0 Hy0. assert (x0 = y) by congruence. subst x0. revert c y0 Hc Hy0.
      apply Hkids; intros xc Hg.
      * assert (xc = x) by congruence. subst. assumption.
      * first [discriminate Hg | (apply get_range in Hg; apply Z.ltb_ge in E3; lia)].
Qed.

(* pushDown at i repairs a heap whose only defect is at i *)
Lemma push_down_loop_heap : forall fuel l i k l' m r, 0 <= i -> k <= i ->
  (forall j, k <= j -> j <> i -> ok_at T cmp l j) ->
  (forall p c, k <= p -> child p i -> child i c -> pair_ok T cmp l p c) ->
  push_down_loop T cmp fuel l i (HeapqIdx.lchild i) = Ok (l', m, r) ->
  heap_from T cmp l' k.
Proof.
  induction fuel as [|f IH]; intros l i k l' m r Hi Hk Hok Hgr H; [discriminate|].
  rewrite push_down_loop_eq in H.
  destruct (pd_choice_spec l i Hi) as [[Hc Hoki]|(c & xm & xi & Hc & Hch & Hgm & Hgi & Hlt & Hall)];
    rewrite Hc in H; cbn [bind] in H.
  - injection H as El Em Er. rewrite <- El. intros j Hj. destruct (Z.eq_dec j i) as [->|Hne]; [assumption|apply Hok; assumption].
  - assert (Hne : i <> c) by (unfold child in Hch; lia).
    rewrite (swap_ok T l i c xi xm Hne Hgi Hgm) in H. cbn [bind] in H.
    destruct (push_down_loop T cmp f (upd (upd l i xm) c xi) c (lchild c)) as [[[l2 m2] r2]| |] eqn:Erec;
      cbn [bind] in H; try discriminate.
    inversion H; subst. eapply (IH _ c k); [unfold child in Hch; lia|unfold child in Hch; lia| | |exact Erec].
    + intros j Hkj Hjc d Hd x0 y0 Hx0 Hy0.
      destruct (Z.eq_dec j i) as [->|Hji].
      * rewrite get_swapped_i in Hx0 by assumption. inversion Hx0; subst x0.
        destruct (Z.eq_dec d c) as [->|Hdc].
        -- rewrite get_swapped_j in Hy0 by assumption. inversion Hy0; subst. lia.
        -- rewrite get_swapped_other in Hy0 by (try assumption; unfold child in Hd; lia). eapply Hall; eassumption.
      * rewrite get_swapped_other in Hx0 by assumption.
        assert (Hdc : d <> c) by (intro; subst; apply Hji; unfold child in *; lia).
        destruct (Z.eq_dec d i) as [->|Hdi].
        -- rewrite get_swapped_i in Hy0 by assumption. inversion Hy0; subst y0.
           eapply (Hgr j c); eassumption.
        -- rewrite get_swapped_other in Hy0 by assumption. eapply (Hok j); eassumption.
    + intros p d Hkp Hp Hd x0 y0 Hx0 Hy0.
      assert (p = i) by (unfold child in *; lia). subst p.
      rewrite get_swapped_i in Hx0 by assumption. inversion Hx0; subst x0.
      rewrite get_swapped_other in Hy0 by (try assumption; unfold child in *; lia).
      eapply (Hok c); [unfold child in Hch; lia|lia|exact Hd|exact Hgm|exact Hy0].
Qed.

Lemma push_down_heap : forall l i k l' m r, 0 <= i -> k <= i ->
  (forall j, k <= j -> j <> i -> ok_at T cmp l j) ->
  (forall p c, k <= p -> child p i -> child i c -> pair_ok T cmp l p c) ->
  push_down T cmp l i = Ok (l', m, r) -> heap_from T cmp l' k.
Proof. intros l i k l' m r. unfold push_down. apply push_down_loop_heap. Qed.

Lemma heapify_loop_heap : forall fuel l i l' m, -1 <= i -> heap_from T cmp l (i + 1) ->
  heapify_loop T cmp (fun i => i >=? 0) (fun i => i - 1) fuel l i = Ok (l', m) -> heap_ok T cmp l'.
Proof.
  induction fuel as [|f IH]; intros l i l' m Hi Hh H; [discriminate|].
  cbn [heapify_loop] in H. rewrite Z.geb_leb in H. destruct (0 <=? i) eqn:E.
  - apply Z.leb_le in E.
    destruct (push_down T cmp l i) as [[[l1 m1] r1]| |] eqn:Epd; cbn [bind] in H; try discriminate.
    destruct (heapify_loop T cmp _ _ f l1 (i - 1)) as [[l2 m2]| |] eqn:Erec; cbn [bind] in H; try discriminate.
    inversion H; subst. eapply (IH l1 (i - 1)); [lia| |exact Erec].
    replace (i - 1 + 1) with i by lia.
    eapply (push_down_heap l i i); [assumption|lia| | |exact Epd].
    + intros j Hj Hne. apply Hh. lia.
    + intros p c Hp Hc. unfold child in Hc. lia.
  - apply Z.leb_gt in E. inversion H; subst. assert (i = -1) by lia. subst i. exact Hh.
Qed.

Lemma set_loop_heap : forall fuel l i l' m, -1 <= i -> heap_from T cmp l (i + 1) ->
  set_loop T cmp fuel l i = Ok (l', m) -> heap_ok T cmp l'.
Proof.
  induction fuel as [|f IH]; intros l i l' m Hi Hh H; [discriminate|].
  cbn [set_loop] in H. unfold set_continue, set_next in H. rewrite Z.geb_leb in H. destruct (0 <=? i) eqn:E.
  - apply Z.leb_le in E. destruct (get l i) as [x|]; [|discriminate].
    destruct (push_down T cmp l i) as [[[l1 m1] r1]| |] eqn:Epd; cbn [bind] in H; try discriminate.
    destruct (set_loop T cmp f l1 (i - 1)) as [[l2 m2]| |] eqn:Erec; cbn [bind] in H; try discriminate.
    inversion H; subst. eapply (IH l1 (i - 1)); [lia| |exact Erec].
    replace (i - 1 + 1) with i by lia.
    eapply (push_down_heap l i i); [assumption|lia| | |exact Epd].
    + intros j Hj Hne. apply Hh. lia.
    + intros p c Hp Hc. unfold child in Hc. lia.
  - apply Z.leb_gt in E. inversion H; subst. assert (i = -1) by lia. subst i. exact Hh.
Qed.

(* the root of a valid heap is a minimum *)
Lemma root_minimal : forall l x, heap_ok T cmp l -> get l 0 = Some x -> minimal T cmp x l.
Proof.
  intros l x Hh Hx.
  assert (H : forall n : nat, forall c y, 0 <= c <= Z.of_nat n -> get l c = Some y -> cmp x y <= 0).
  { induction n as [|n IH]; intros c y Hc Hy.
    - assert (c = 0) by lia. subst c. assert (y = x) by congruence. subst. apply (cmp_refl T cmp TP).
    - destruct (Z_le_dec c (Z.of_nat n)) as [Hle|Hgt]; [apply (IH c y); [lia|assumption]|].
      assert (c = Z.of_nat (S n)) by lia.
      set (p := (c - 1) / 2).
      assert (Hp : child p c /\ 0 <= p < c).
      { unfold child, p. pose proof (Z.div_mod (c - 1) 2). pose proof (Z.mod_pos_bound (c - 1) 2). lia. }
      destruct Hp as [Hpc Hpr]. pose proof (get_range _ _ _ _ Hy).
      destruct (get_some T l p) as [z Hz]; [lia|].
      eapply (tp_trans TP); [apply (IH p z); [lia|assumption]|].
      eapply (Hh p); [lia|exact Hpc|exact Hz|exact Hy]. }
  intros y Hin. apply In_get in Hin. destruct Hin as [c Hc]. pose proof (get_range _ _ _ _ Hc).
  apply (H (Z.to_nat c) c y); [lia|assumption].
Qed.

End Order.
