(* When do the known findings F1 (pushUp's parent index i/2) and F2 (pop never sifts up) matter?
   Definitions only.  An operation is "outside the triggers" when the code as it is provably keeps
   heap order; HeapqTriggers.v proves that, and that the conditions cannot be weakened:
   the F2 condition is exact (if and only if), the F1 condition is exact offset by offset.

   F1.  pushUp(i) compares data[i] with data[i/2].  For odd i that is the parent (i-1)/2.  For even
   i >= 2 it is the node AFTER the parent: for i = 2 the sibling 1, for i = 4 node 2 (parent: 1), ...
   The indexes pushUp visits from offset n are n, n/2, n/4, ...  They are all odd exactly when
   n + 1 is a power of two (n = 0, 1, 3, 7, 15, ...: the first slot of a level); n = 2 is harmless
   too (comparing with the sibling first and then with the root orders all three).  At any other
   offset the new element can be left below a larger true parent, or be swapped sideways.  Whatever
   the offset, an element that is not smaller than data[n/2] and not smaller than its true parent
   data[(n-1)/2] is left where it was appended, in order (so ascending insertions are harmless).

   F2.  pop(i) moves the last element into slot i and only pushes it down.  Nothing is wrong when
   i is the root, when i is the last slot, or when the moved element is not smaller than the parent
   of slot i; otherwise it stays below a larger parent. *)
From Coq Require Import ZArith List Bool.
Import ListNotations.
From Mds Require Import Heapq.HeapqModel Heapq.HeapqSpec.
Local Open Scope Z_scope.

(* n is the first slot of a heap level: 0, 1, 3, 7, 15, ... *)
Definition left_spine (n : Z) : Prop := exists k : nat, n + 1 = 2 ^ Z.of_nat k.

Section TrigSpec.
Variable T : Type.

(* Add(x) on q is outside the F1 trigger *)
Definition add_outside_F1 (v : variant) (q : queue T) (x : T) : Prop :=
  let n := len (data q) in
  parent_halves v = false \/
  n <= 2 \/
  left_spine n \/
  (forall a b, get (data q) (parent_of v n) = Some a -> get (data q) ((n - 1) / 2) = Some b ->
     qcmp q a x <= 0 /\ qcmp q b x <= 0).

(* Remove(i) on q is outside the F2 trigger *)
Definition remove_outside_F2 (v : variant) (q : queue T) (i : Z) : Prop :=
  let n := len (data q) in
  i <= 0 \/
  n - 1 <= i \/
  (parent_halves v = false /\ pop_no_siftup v = false) \/
  (pop_no_siftup v = true /\
   forall last par, get (data q) (n - 1) = Some last -> get (data q) ((i - 1) / 2) = Some par -> qcmp q par last <= 0).

Definition outside_triggers (v : variant) (q : queue T) (o : op T) : Prop :=
  match o with
  | OAdd x => add_outside_F1 v q x
  | ORemove i => remove_outside_F2 v q i
  | _ => True
  end.

(* operations that establish heap order whatever the layout was before *)
Definition resets (o : op T) : Prop :=
  match o with
  | OSet _ | OReorder _ | OClear | ONew _ | ONewWithData _ _ => True
  | _ => False
  end.

Definition ordered (q : queue T) : Prop := heap_ok T (qcmp q) (data q).

(* Every history, from every state, nothing excluded but comparison functions that break New's
   contract: no step fails; the comparison keeps its contract; a resetting operation leaves the
   queue ordered; a queue of at most one element is ordered; and from an ordered queue every
   operation outside the triggers answers Front/Pop with a minimal held element and leaves the
   queue ordered.  (So: Front/Pop are minimal at every point of a history at which no trigger
   has occurred since the last reset.) *)
Fixpoint hist_since_reset (v : variant) (q : queue T) (ops : list (op T)) : Prop :=
  match ops with
  | [] => True
  | o :: ops' =>
    op_wf T o ->
    exists q' r m, step T v q o = Ok (q', (r, m)) /\
      total_preorder T (qcmp q') /\
      (resets o -> ordered q') /\
      (len (data q') <= 1 -> ordered q') /\
      (ordered q -> outside_triggers v q o -> min_answer T q o r m q' /\ ordered q') /\
      hist_since_reset v q' ops'
  end.

End TrigSpec.

(* ---- boolean versions for concrete checks (sharpness tables) ---- *)
Fixpoint heap_okb_from (cmp : Z -> Z -> Z) (l : list Z) (fuel : nat) (c : Z) : bool :=
  match fuel with
  | O => true
  | S f =>
    if len l <=? c then true
    else match get l ((c - 1) / 2), get l c with
         | Some p, Some y => (cmp p y <=? 0) && heap_okb_from cmp l f (c + 1)
         | _, _ => false
         end
  end.
(* every slot c >= 1 is not below its parent (c-1)/2 *)
Definition heap_okb (cmp : Z -> Z -> Z) (l : list Z) : bool := heap_okb_from cmp l (length l) 1.

Fixpoint is_pow2_fuel (fuel : nat) (n : Z) : bool :=
  match fuel with
  | O => false
  | S f => if n =? 1 then true else if (n <=? 0) || Z.odd n then false else is_pow2_fuel f (n / 2)
  end.
Definition left_spineb (n : Z) : bool := is_pow2_fuel 64 (n + 1).
Definition add_index_safeb (n : Z) : bool := (n <=? 2) || left_spineb n.
