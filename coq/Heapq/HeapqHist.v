(* heapq model, part 3 — the Queue operations and whole histories. *)
From Coq Require Import ZArith List Bool Lia Permutation Sorted.
Import ListNotations.
From Mds Require Import Gen.HeapqIdx Heapq.HeapqModel Heapq.HeapqSpec Heapq.HeapqArray Heapq.HeapqProofs Heapq.HeapqHeap.
Local Open Scope Z_scope.

Section Hist.
Variable T : Type.
Variable v : variant.
Implicit Types l : list T.
Implicit Types q : queue T.

Lemma quot2_range : forall n, 0 <= n -> 0 <= Z.quot n 2 <= n /\ n <= 2 * Z.quot n 2 + 1.
Proof.
  intros n H. rewrite Z.quot_div_nonneg by lia.
  pose proof (Z.div_mod n 2). pose proof (Z.mod_pos_bound n 2). lia.
Qed.

(* ---- every step succeeds and conserves the contents: every variant, every comparison ---- *)
Lemma step_conserved : forall q o, exists q' r m,
  step T v q o = Ok (q', (r, m)) /\ conserved T q o r m q' /\ cmp_kept T q o q' /\
  (NoDup (data q) -> distinct_op T q o ->
     NoDup (data q') /\
     match o with
     | OSet _ => forall e k, get (data q') k = Some e -> last_report T m e k
     | ONew _ | ONewWithData _ _ | OClear => True
     | _ => log_ok T (data q) (data q') m
     end).
Proof.
  intros q o. pose proof (len_nonneg T (data q)) as Hlen. destruct o; cbn [step].
  - (* Add *)
    unfold Add. rewrite get_app_last. change (0 <? add_ncalls_move) with true. change (0 <? add_ncalls_pushUp) with true.
    cbv iota.
    destruct (push_up_total T (qcmp q) v (S (length (data q ++ [x]))) (data q ++ [x]) (len (data q)))
      as (l' & m & r & Hpu & Hp & Hr & Hlog & [x0 [Hx0 Hx1]]).
    { rewrite len_app. cbn. lia. } { rewrite app_length. unfold len. cbn. lia. }
    rewrite Hpu. cbn [bind]. rewrite get_app_last in Hx0. inversion Hx0; subst x0.
    assert (HP : Permutation l' (x :: data q)).
    { eapply perm_trans; [exact Hp|]. apply Permutation_sym, Permutation_cons_append. }
    eexists _, _, _. split; [reflexivity|]. split; [cbn; split; assumption|]. split; [reflexivity|].
    intros Hn Hd. cbn in Hd.
    assert (Hn1 : NoDup (data q ++ [x])).
    { eapply Permutation_NoDup; [apply Permutation_cons_append|]. constructor; assumption. }
    cbn [data]. split; [eapply Permutation_NoDup; [apply Permutation_sym; exact Hp|exact Hn1]|].
    intros e k Hg. destruct (Hlog Hn1 e k Hg) as [[a [b [Em Hnb]]]|[Hu Hg0]].
    + left. exists ((x, len (data q)) :: a), b. split; [rewrite Em; reflexivity|exact Hnb].
    + destruct (Z.eq_dec k (len (data q))) as [->|Hk].
      * rewrite get_app_last in Hg0. inversion Hg0; subst e. left. exists [], m. split; [reflexivity|exact Hu].
      * assert (Hk' : k < len (data q)).
        { apply get_range in Hg0. rewrite len_app in Hg0. cbn in Hg0. lia. }
        rewrite get_app_left in Hg0 by assumption. right. split; [|assumption].
        intros j [Hin|Hin]; [|exact (Hu j Hin)]. inversion Hin; subst. apply Hd. eapply get_In; eassumption.
  - (* Pop *)
    unfold Pop, Pop_empty. change Pop_index with 0.
    destruct (len (data q) =? 0) eqn:E.
    + apply Z.eqb_eq in E. apply len_zero_nil in E.
      exists q, (RVal None), []. split; [reflexivity|]. split; [cbn; auto|]. split; [reflexivity|].
      intros Hn _. split; [assumption|apply log_ok_refl].
    + apply Z.eqb_neq in E.
      destruct (pop_total T (qcmp q) v (data q) 0) as (l' & m & out & Hpop & Hg & Hp & Hlog); [lia|].
      rewrite Hpop. cbn [bind]. eexists _, _, _. split; [reflexivity|]. split; [cbn; split; assumption|].
      split; [reflexivity|]. intros Hn _. cbn [data]. split; [|apply Hlog, Hn].
      assert (H2 : NoDup (out :: l')) by (eapply Permutation_NoDup; eassumption). inversion H2; assumption.
  - (* Remove *)
    unfold Remove, Remove_negative, Remove_beyond. destruct (i <? 0) eqn:E1.
    + apply Z.ltb_lt in E1. exists q, RPanic, []. split; [reflexivity|]. split; [cbn; auto|]. split; [reflexivity|].
      intros Hn _. split; [assumption|apply log_ok_refl].
    + apply Z.ltb_ge in E1. rewrite Z.geb_leb. destruct (len (data q) <=? i) eqn:E2.
      * apply Z.leb_le in E2. exists q, (RVal None), []. split; [reflexivity|]. split; [cbn; auto|]. split; [reflexivity|].
        intros Hn _. split; [assumption|apply log_ok_refl].
      * apply Z.leb_gt in E2.
        destruct (pop_total T (qcmp q) v (data q) i) as (l' & m & out & Hpop & Hg & Hp & Hlog); [lia|].
        rewrite Hpop. cbn [bind]. eexists _, _, _. split; [reflexivity|]. split; [cbn; split; assumption|].
        split; [reflexivity|]. intros Hn _. cbn [data]. split; [|apply Hlog, Hn].
        assert (H2 : NoDup (out :: l')) by (eapply Permutation_NoDup; eassumption). inversion H2; assumption.
  - (* Peek *)
    unfold Peek, Peek_negative, Peek_beyond. destruct (i <? 0) eqn:E1.
    + apply Z.ltb_lt in E1. cbn [bind]. exists q, RPanic, []. split; [reflexivity|]. split; [cbn; auto|]. split; [reflexivity|].
      intros Hn _. split; [assumption|apply log_ok_refl].
    + apply Z.ltb_ge in E1. rewrite Z.geb_leb. destruct (len (data q) <=? i) eqn:E2.
      * apply Z.leb_le in E2. cbn [bind]. exists q, (RVal None), []. split; [reflexivity|].
        split; [unfold conserved; cbv beta iota zeta; rewrite get_beyond by assumption; auto|]. split; [reflexivity|].
        intros Hn _. split; [assumption|apply log_ok_refl].
      * apply Z.leb_gt in E2. destruct (get_some T (data q) i) as [x Hx]; [lia|]. rewrite Hx. cbn [bind].
        exists q, (RVal (Some x)), []. split; [reflexivity|]. split; [cbn; auto|]. split; [reflexivity|].
        intros Hn _. split; [assumption|apply log_ok_refl].
  - (* Front *)
    unfold Front, Front_empty. change Front_index with 0. destruct (len (data q) =? 0) eqn:E.
    + apply Z.eqb_eq in E. cbn [bind]. exists q, (RVal None), []. split; [reflexivity|].
      split; [unfold conserved; cbv beta iota zeta; rewrite get_beyond by lia; auto|]. split; [reflexivity|].
      intros Hn _. split; [assumption|apply log_ok_refl].
    + apply Z.eqb_neq in E. destruct (get_some T (data q) 0) as [x Hx]; [lia|]. rewrite Hx. cbn [bind].
      exists q, (RVal (Some x)), []. split; [reflexivity|]. split; [cbn; auto|]. split; [reflexivity|].
      intros Hn _. split; [assumption|apply log_ok_refl].
  - (* Set *)
    unfold Set_, set_start. pose proof (len_nonneg T vs).
    destruct (set_loop_total T (qcmp q) (S (length vs)) vs (len vs - 1)) as (l' & m & Heq & Hp & Hrep).
    { lia. } { unfold len. lia. }
    rewrite Heq. cbn [bind]. eexists _, _, _. split; [reflexivity|]. split; [cbn; assumption|]. split; [reflexivity|].
    intros _ Hd. cbn in Hd. cbn [data]. split; [eapply Permutation_NoDup; [apply Permutation_sym; exact Hp|exact Hd]|].
    intros e k Hg. destruct (Hrep Hd e k Hg) as [Hl|[_ [Hg0 Hk]]]; [assumption|].
    apply get_range in Hg0. lia.
  - (* Reorder *)
    unfold Reorder, heapify_start_reorder. destruct (quot2_range (len (data q)) Hlen) as [Hq1 Hq2].
    destruct (heapify_loop_total T c (S (S (length (data q)))) (data q) (Z.quot (len (data q)) 2)) as (l' & m & Heq & Hp & Hlog).
    { lia. } { unfold len in *. lia. }
    change heapify_continue_reorder with (fun i => i >=? 0). change heapify_next_reorder with (fun i => i - 1).
    rewrite Heq. cbn [bind]. eexists _, _, _. split; [reflexivity|]. split; [cbn; auto|]. split; [exact I|].
    intros Hn _. cbn [data]. split; [eapply Permutation_NoDup; [apply Permutation_sym; exact Hp|exact Hn]|apply Hlog, Hn].
  - (* Clear *)
    eexists _, _, _. split; [reflexivity|]. split; [cbn; reflexivity|]. split; [reflexivity|].
    intros _ _. split; [constructor|exact I].
  - (* New *)
    eexists _, _, _. split; [reflexivity|]. split; [cbn; auto|]. split; [exact I|].
    intros _ _. split; [constructor|exact I].
  - (* NewWithData *)
    unfold NewWithData, heapify_start_new. pose proof (len_nonneg T vs) as Hlv.
    destruct (quot2_range (len vs) Hlv) as [Hq1 Hq2].
    destruct (heapify_loop_total T c (S (S (length vs))) vs (Z.quot (len vs) 2)) as (l' & m & Heq & Hp & Hlog).
    { lia. } { unfold len in *. lia. }
    change heapify_continue_new with (fun i => i >=? 0). change heapify_next_new with (fun i => i - 1).
    rewrite Heq. cbn [bind]. eexists _, _, _. split; [reflexivity|]. split; [cbn; auto|]. split; [exact I|].
    intros _ Hd. cbn in Hd. cbn [data]. split; [eapply Permutation_NoDup; [apply Permutation_sym; exact Hp|exact Hd]|exact I].
  - (* Len *)
    eexists _, _, _. split; [reflexivity|]. split; [cbn; auto|]. split; [reflexivity|].
    intros Hn _. split; [assumption|apply log_ok_refl].
  - (* IsEmpty *)
    eexists _, _, _. split; [reflexivity|]. split.
    { cbn. split; [reflexivity|]. unfold IsEmpty. split.
      - intros E. apply Z.eqb_eq in E. apply len_zero_nil. exact E.
      - intros ->. reflexivity. }
    split; [reflexivity|]. intros Hn _. split; [assumption|apply log_ok_refl].
  - (* Each *)
    eexists _, _, _. split; [reflexivity|]. split; [cbn; auto|]. split; [reflexivity|].
    intros Hn _. split; [assumption|apply log_ok_refl].
Qed.

(* C05, contents, every variant, every comparison, every history from every state *)
Theorem hist_conserved : forall ops q,
  hist T (fun _ _ => True) (fun q o r m q' => conserved T q o r m q' /\ cmp_kept T q o q') v q ops.
Proof.
  induction ops as [|o ops IH]; intros q; cbn [hist]; [exact I|]. intros _.
  destruct (step_conserved q o) as (q' & r & m & Hs & Hc & Hk & _).
  exists q', r, m. split; [assumption|]. split; [split; assumption|apply IH].
Qed.

(* Remove(i) answers what Peek(i) showed; Pop answers what Front showed *)
Theorem remove_returns_peek : forall q i, exists q' r m,
  step T v q (ORemove i) = Ok (q', (r, m)) /\ step T v q (OPeek i) = Ok (q, (r, [])).
Proof.
  intros q i. destruct (step_conserved q (ORemove i)) as (q' & r & m & Hs & Hc & _).
  destruct (step_conserved q (OPeek i)) as (q2 & r2 & m2 & Hs2 & Hc2 & _).
  exists q', r, m. split; [assumption|]. rewrite Hs2.
  assert (Hq : q2 = q /\ m2 = []).
  { cbn [step] in Hs2. destruct (Peek T q i); cbn [bind] in Hs2; inversion Hs2; auto. }
  destruct Hq; subst q2 m2. f_equal. f_equal. f_equal.
  pose proof (len_nonneg T (data q)).
  unfold conserved in Hc, Hc2; cbv beta iota zeta in Hc, Hc2. destruct r as [| [y|] | | | | |], r2 as [| [y2|] | | | | |]; try contradiction;
    try reflexivity; destruct Hc as [Hc Hc']; destruct Hc2 as [Hc2 Hc2']; try lia.
  - destruct Hc2' as [E _]. congruence.
  - destruct Hc2' as [E _]. apply get_range in Hc'. symmetry in E. apply get_none in E. lia.
  - apply get_range in Hc'. lia.
  - destruct Hc2' as [E _]. symmetry in E. apply get_range in E. lia.
Qed.

Theorem pop_returns_front : forall q, exists q' r m,
  step T v q OPop = Ok (q', (r, m)) /\ step T v q OFront = Ok (q, (r, [])).
Proof.
  intros q. destruct (step_conserved q OPop) as (q' & r & m & Hs & Hc & _).
  destruct (step_conserved q OFront) as (q2 & r2 & m2 & Hs2 & Hc2 & _).
  exists q', r, m. split; [assumption|]. rewrite Hs2.
  assert (Hq : q2 = q /\ m2 = []).
  { cbn [step] in Hs2. destruct (Front T q); cbn [bind] in Hs2; inversion Hs2; auto. }
  destruct Hq; subst q2 m2. f_equal. f_equal. f_equal.
  unfold conserved in Hc, Hc2; cbv beta iota zeta in Hc, Hc2. destruct r as [| [y|] | | | | |], r2 as [| [y2|] | | | | |]; try contradiction;
    destruct Hc as [Hc Hc']; destruct Hc2 as [Hc2 Hc2']; try congruence.
  rewrite Hc in Hc2'. cbn in Hc2'. discriminate.
Qed.

(* ---- C06 ---- *)
Lemma last_report_fun : forall (L : moves T) e p k, last_report T L e p -> last_report T L e k -> p = k.
Proof.
  intros L e p k [a [b [E1 H1]]] [a' [b' [E2 H2]]]. rewrite E1 in E2. clear E1.
  revert a' E2. induction a as [|h t IH]; intros [|h' t'] E; cbn in E.
  - inversion E; reflexivity.
  - inversion E; subst. exfalso. apply (H1 k). apply in_or_app. right. left. reflexivity.
  - inversion E; subst. exfalso. apply (H2 p). apply in_or_app. right. left. reflexivity.
  - inversion E; subst. eapply IH; eassumption.
Qed.

Lemma last_report_app_r : forall (L m : moves T) e i, last_report T m e i -> last_report T (L ++ m) e i.
Proof. intros L m e i [a [b [E H]]]. exists (L ++ a), b. split; [rewrite E, app_assoc; reflexivity|exact H]. Qed.

Lemma last_report_app_l : forall (L m : moves T) e i, last_report T L e i -> unreported T m e -> last_report T (L ++ m) e i.
Proof.
  intros L m e i [a [b [E H]]] Hu. exists a, (b ++ m). split; [rewrite E, <- app_assoc; reflexivity|].
  intros j Hin. apply in_app_or in Hin. destruct Hin as [Hin|Hin]; [exact (H j Hin)|exact (Hu j Hin)].
Qed.

Lemma positions_step : forall (L m : moves T) tr l l', positions_ok T L tr l -> log_ok T l l' m ->
  positions_ok T (L ++ m) tr l'.
Proof.
  intros L m tr l l' Hpos Hlog e i Hin Hg. destruct (Hlog e i Hg) as [Hl|[Hu Hg0]].
  - apply last_report_app_r. assumption.
  - apply last_report_app_l; [|assumption]. apply Hpos; assumption.
Qed.

Theorem hist_positions : forall ops q L tr, NoDup (data q) -> positions_ok T L tr (data q) ->
  hist_pos T v q L tr ops.
Proof.
  induction ops as [|o ops IH]; intros q L tr Hn Hpos; cbn [hist_pos]; [exact I|]. intros Hd.
  destruct (step_conserved q o) as (q' & r & m & Hs & Hc & _ & Hlog).
  destruct (Hlog Hn Hd) as [Hn' Hlg]. exists q', r, m. split; [assumption|]. cbv zeta.
  assert (Hpos' : positions_ok T (L ++ m) (tracked_after T tr o) (data q')).
  { destruct o; cbn [tracked_after]; try (eapply positions_step; eassumption); try (intros e0 i0 Hf; contradiction Hf).
    - (* Add *) intros e0 i0 [<-|Hin] Hg.
      + destruct (Hlg x i0 Hg) as [Hl|[_ Hg0]]; [apply last_report_app_r; assumption|].
        exfalso. apply Hd. eapply get_In; eassumption.
      + eapply positions_step; eassumption.
    - (* Set *) intros e0 i0 _ Hg. apply last_report_app_r. apply Hlg. assumption. }
  split; [assumption|]. split; [assumption|]. split; [|split; [|apply IH; assumption]].
  - destruct o; try exact I. destruct r; try exact I. cbn in Hc. destruct Hc as [_ Hg]. split; [assumption|].
    apply Hpos'; [left; reflexivity|assumption].
  - destruct o; try exact I. intros e Htr Hin Hrep.
    apply In_get in Hin. destruct Hin as [k Hk]. pose proof (Hpos e k Htr Hk) as Hrk.
    assert (i = k) by (eapply last_report_fun; eassumption). subst k.
    cbn in Hc. destruct r as [| [y|] | | | | |]; try contradiction.
    + destruct Hc as [Hp Hg]. assert (y = e) by congruence. subst y. split; [reflexivity|].
      assert (H2 : NoDup (e :: data q')) by (eapply Permutation_NoDup; eassumption). inversion H2; assumption.
    + destruct Hc as [Hle _]. apply get_range in Hk. lia.
    + destruct Hc as [Hle _]. apply get_range in Hk. lia.
Qed.

End Hist.
