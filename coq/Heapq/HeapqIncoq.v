(* Support for bin/incoq-heapq: trace lines of harness/cmd/heapqtrace replayed by vm_compute inside
   Coq (no extraction, no OCaml), and the properties C05/C06 evaluated in Coq on the
   implementation's recorded outputs.  Definitions only.

   [hrun] is the model side (the same rendering the OCaml driver does, written in Gallina).
   [check] is the property side; it does not call the model: it keeps the bag of held elements,
   the previous layout and the callback's position table as recorded from the implementation.
   Minimality of Front/Pop is demanded wherever no trigger of the known findings F1/F2 has
   occurred since the last reset (HeapqTriggerSpec.v; that is the statement proved of the code as
   it is, C05_min_since_reset), so the sample never trips over the known findings. *)
From Coq Require Import ZArith List Bool.
Import ListNotations.
From Mds Require Import Heapq.HeapqModel Heapq.HeapqInst.
Local Open Scope Z_scope.

Inductive hop :=
| HNew (c : Z) | HNewData (c : Z) (l : list elt) | HAdd (x : elt) | HPop | HRemove (i : Z) | HX (p : Z)
| HPeek (i : Z) | HFront | HSet (l : list elt) | HReorder (c : Z) | HClear | HLen | HIsEmpty | HEach (k : nat)
| HUpdate (b : bool)
| HBad.

Inductive hres :=
| RI (i : Z) | RV (x : elt) | RNone | RBang | RU | RN (n : Z) | RB (b : bool) | RL (l : list elt)
| RQ | RPanicIndex | RFuel | ROther.

Definition hout : Type := (hres * list (elt * Z) * list elt)%type.

Fixpoint lookup (p : Z) (t : list (Z * Z)) : option Z :=
  match t with [] => None | (k, i) :: r => if k =? p then Some i else lookup p r end.
Definition note (t : list (Z * Z)) (mv : list (elt * Z)) : list (Z * Z) :=
  fold_left (fun t (e : elt * Z) => (snd (fst e), snd e) :: t) mv t.

(* ---- the model side ---- *)
Definition to_op (t : list (Z * Z)) (h : hop) : option (op elt) :=
  match h with
  | HNew c => Some (ONew (ccmp c))
  | HNewData c l => Some (ONewWithData (ccmp c) l)
  | HAdd x => Some (OAdd x)
  | HPop => Some OPop
  | HRemove i => Some (ORemove i)
  | HX p => option_map (fun i => ORemove i) (lookup p t)
  | HPeek i => Some (OPeek i)
  | HFront => Some OFront
  | HSet l => Some (OSet l)
  | HReorder c => Some (OReorder (ccmp c))
  | HClear => Some OClear
  | HLen => Some OLen
  | HIsEmpty => Some OIsEmpty
  | HEach k => Some (OEach k)
  | HUpdate _ | HBad => None
  end.

Definition render (h : hop) (r : out elt) : hres :=
  match r with
  | RIdx i => RI i
  | RVal (Some x) => RV x
  | RVal None => match h with HFront => RV (0, 0) | _ => RNone end
  | RPanic => RBang
  | RUnit => RU
  | RNum n => RN n
  | RBool b => RB b
  | RList l => RL l
  end.

(* rep: is an update function installed?  (New/NewWithData of the harness install it; while it
   is removed the calls of the move log are not delivered) *)
Fixpoint hrun (v : variant) (q : queue elt) (t : list (Z * Z)) (rep : bool) (hs : list hop) : list hout :=
  match hs with
  | [] => []
  | HUpdate b :: r => (RU, [], data q) :: hrun v q t b r
  | h :: r =>
    let rep := match h with HNew _ | HNewData _ _ => true | _ => rep end in
    match to_op t h with
    | None => (RQ, [], []) :: hrun v q t rep r
    | Some o =>
      match step elt v q o with
      | Ok (q', (res, mv)) =>
        let mv := if rep then mv else [] in
        (render h res, mv, data q') :: hrun v q' (note t mv) rep r
      | IndexPanic => [(RPanicIndex, [], [])]
      | OutOfFuel => [(RFuel, [], [])]
      end
    end
  end.

Definition hrun0 (hs : list hop) : list hout := hrun current_variant (q_new 0) [] true hs.
Definition hsort (c : Z) (l : list elt) : option (list elt) :=
  match q_sort current_variant c l with Ok r => Some r | _ => None end.

(* ---- the property side ---- *)
Definition elt_eqb (a b : elt) : bool := (fst a =? fst b) && (snd a =? snd b).
Fixpoint list_eqb (a b : list elt) : bool :=
  match a, b with
  | [], [] => true
  | x :: a', y :: b' => elt_eqb x y && list_eqb a' b'
  | _, _ => false
  end.
Fixpoint rem (x : elt) (l : list elt) : option (list elt) :=
  match l with
  | [] => None
  | y :: r => if elt_eqb x y then Some r else option_map (cons y) (rem x r)
  end.
Fixpoint bag_eqb (a b : list elt) : bool :=
  match a with
  | [] => match b with [] => true | _ => false end
  | x :: a' => match rem x b with Some b' => bag_eqb a' b' | None => false end
  end.
Definition nth_e (l : list elt) (i : Z) : option elt := if i <? 0 then None else nth_error l (Z.to_nat i).
Definition leb_e (c : Z) (a b : elt) : bool := ccmp c a b <=? 0.
Definition minimalb (c : Z) (x : elt) (l : list elt) : bool := forallb (leb_e c x) l.
Fixpoint pow2b (fuel : nat) (n : Z) : bool :=
  match fuel with
  | O => false
  | S f => if n =? 1 then true else if (n <=? 0) || Z.odd n then false else pow2b f (n / 2)
  end.

Record cst := { held : list elt; code : Z; prev : list elt; taint : bool; post : list (Z * Z); tracked : list Z; inst : bool }.

Definition res_is_val (r : hres) (x : elt) : bool := match r with RV y => elt_eqb x y | _ => false end.
Definition is_RU (r : hres) : bool := match r with RU => true | _ => false end.
Definition is_RNone (r : hres) : bool := match r with RNone => true | _ => false end.
Definition is_RBang (r : hres) : bool := match r with RBang => true | _ => false end.
Definition is_RQ (r : hres) : bool := match r with RQ => true | _ => false end.

(* an Add / a Remove inside the F1 / F2 trigger, on the layout before the op *)
Definition add_trigger (s : cst) (x : elt) : bool :=
  let n := Z.of_nat (length (prev s)) in
  negb ((n <=? 2) || pow2b 64 (n + 1) ||
        match nth_e (prev s) (n / 2), nth_e (prev s) ((n - 1) / 2) with
        | Some a, Some b => leb_e (code s) a x && leb_e (code s) b x
        | _, _ => false
        end).
Definition remove_trigger (s : cst) (i : Z) : bool :=
  let n := Z.of_nat (length (prev s)) in
  (0 <? i) && (i <? n - 1) &&
  match nth_e (prev s) ((i - 1) / 2), nth_e (prev s) (n - 1) with
  | Some par, Some last => negb (leb_e (code s) par last)
  | _, _ => false
  end.

(* removal at offset i: the answer is what Peek(i) showed; the element leaves the bag *)
Definition removal (s : cst) (i : Z) (r : hres) : option (list elt) :=
  let n := Z.of_nat (length (prev s)) in
  if i <? 0 then (if is_RBang r then Some (held s) else None)
  else if n <=? i then (if is_RNone r then Some (held s) else None)
  else match nth_e (prev s) i with
       | Some x => if res_is_val r x then rem x (held s) else None
       | None => None
       end.

(* one op: the new checker state, or None = the property fails here.  c06: also the positions. *)
Definition check_op (c06 : bool) (s : cst) (h : hop) (o : hout) : option cst :=
  let '(r, mv, lay) := o in
  let n := Z.of_nat (length (prev s)) in
  let t' := note (post s) mv in
  let inst' := match h with HNew _ | HNewData _ _ => true | HUpdate b => b | _ => inst s end in
  let fin (held' : list elt) (code' : Z) (reset : bool) (tracked' : list Z) (tnt : bool) : option cst :=
    let tnt' := if reset || (Z.of_nat (length lay) <=? 1) then false else tnt in
    let tracked' := if inst' then tracked' else [] in
    if bag_eqb lay held' && (inst' || match mv with [] => true | _ => false end) &&
       (negb c06 ||
        forallb (fun ix : Z * elt =>
                   if existsb (Z.eqb (snd (snd ix))) tracked'
                   then match lookup (snd (snd ix)) t' with Some j => j =? fst ix | None => false end
                   else true)
                (combine (map Z.of_nat (seq 0 (length lay))) lay))
    then Some {| held := held'; code := code'; prev := lay; taint := tnt'; post := t'; tracked := tracked'; inst := inst' |}
    else None in
  match h with
  | HBad => if is_RQ r then Some s else None
  | HUpdate _ => if is_RU r then fin (held s) (code s) false (tracked s) (taint s) else None
  | HNew c => if is_RU r then fin [] c true [] false else None
  | HNewData c l => if is_RU r then fin l c true [] false else None
  | HAdd x =>
    match r with
    | RI i =>
      match nth_e lay i with
      | Some y =>
        if elt_eqb x y && (negb c06 || negb inst' || match lookup (snd x) t' with Some j => j =? i | None => false end)
        then fin (x :: held s) (code s) false (snd x :: tracked s) (taint s || add_trigger s x)
        else None
      | None => None
      end
    | _ => None
    end
  | HPop =>
    match held s with
    | [] => if is_RNone r then fin [] (code s) false (tracked s) (taint s) else None
    | _ =>
      match nth_e (prev s) 0 with
      | Some x =>
        if res_is_val r x && (c06 || taint s || minimalb (code s) x (held s))
        then match rem x (held s) with Some hd' => fin hd' (code s) false (tracked s) (taint s) | None => None end
        else None
      | None => None
      end
    end
  | HFront =>
    match held s with
    | [] => if res_is_val r (0, 0) then fin [] (code s) false (tracked s) (taint s) else None
    | _ =>
      match nth_e (prev s) 0 with
      | Some x => if res_is_val r x && (c06 || taint s || minimalb (code s) x (held s))
                  then fin (held s) (code s) false (tracked s) (taint s) else None
      | None => None
      end
    end
  | HRemove i =>
    match removal s i r with
    | Some hd' => fin hd' (code s) false (tracked s) (taint s || remove_trigger s i)
    | None => None
    end
  | HX p =>
    match lookup p (post s) with
    | None => if is_RQ r then Some s else None
    | Some i =>
      match removal s i r with
      | Some hd' =>
        (* C06: at the reported position of a tracked, held payload exactly that element goes *)
        if negb c06 || negb (existsb (Z.eqb p) (tracked s)) || negb (existsb (fun e : elt => snd e =? p) (held s))
           || match r with RV y => snd y =? p | _ => false end
        then fin hd' (code s) false (tracked s) (taint s || remove_trigger s i)
        else None
      | None => None
      end
    end
  | HPeek i =>
    if i <? 0 then (if is_RBang r then fin (held s) (code s) false (tracked s) (taint s) else None)
    else if n <=? i then (if is_RNone r then fin (held s) (code s) false (tracked s) (taint s) else None)
    else match nth_e (prev s) i with
         | Some x => if res_is_val r x then fin (held s) (code s) false (tracked s) (taint s) else None
         | None => None
         end
  | HSet l => if is_RU r then fin l (code s) true (map snd l) false else None
  | HReorder c => if is_RU r then fin (held s) c true (tracked s) false else None
  | HClear => if is_RU r then fin [] (code s) true [] false else None
  | HLen => match r with RN k => if k =? Z.of_nat (length (held s)) then fin (held s) (code s) false (tracked s) (taint s) else None | _ => None end
  | HIsEmpty => match r with
                | RB b => if Bool.eqb b (match held s with [] => true | _ => false end)
                          then fin (held s) (code s) false (tracked s) (taint s) else None
                | _ => None
                end
  | HEach k => match r with
               | RL l => if list_eqb l (match k with O => prev s | _ => firstn k (prev s) end)
                         then fin (held s) (code s) false (tracked s) (taint s) else None
               | _ => None
               end
  end.

Fixpoint check_from (c06 : bool) (s : cst) (hs : list hop) (os : list hout) : bool :=
  match hs, os with
  | [], [] => true
  | h :: hs', o :: os' => match check_op c06 s h o with Some s' => check_from c06 s' hs' os' | None => false end
  | _, _ => false
  end.

Definition check (c06 : bool) (hs : list hop) (os : list hout) : bool :=
  check_from c06 {| held := []; code := 0; prev := []; taint := false; post := []; tracked := []; inst := true |} hs os.

(* heapq.Sort: a sorted permutation *)
Fixpoint sortedb (c : Z) (l : list elt) : bool :=
  match l with
  | a :: ((b :: _) as t) => leb_e c a b && sortedb c t
  | _ => true
  end.
Definition check_sort (c : Z) (input output : list elt) : bool := bag_eqb input output && sortedb c output.
