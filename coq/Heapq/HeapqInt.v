(* Machine integers.  The model computes on unbounded Z.  heapq.go does arithmetic on ints only to
   form slice indexes: 2*i+1, lc+1, 2*min+1 (pushDown), i/2 (pushUp), len-1 (pop, Set), len/2
   (NewWithData, Reorder), i-1 (loop steps).  No caller-supplied int is ever negated, added to or
   multiplied: Peek(n) and Remove(n) only compare n with 0 and len.  For a queue of at most
   2^62 elements every value these expressions take lies in [-1, 2^63-1], so Go's int64 computes
   what Z computes.  From 2^62 elements on (possible only for zero-size element types, e.g.
   struct{}) 2*i+1 wraps to a negative number and pushDown indexes out of range:
   heapq.New(cmp).Set(make([]struct{}, 1<<62+1)) panics at once (reported, notes/C05-audit.md);
   the theorems of C05/C06 are statements about queues of fewer than 2^62 elements. *)
From Coq Require Import ZArith Lia.
From Mds Require Import Gen.HeapqIdx Heapq.HeapqModel Heapq.HeapqInst.
Local Open Scope Z_scope.

Definition int_max : Z := 2 ^ 63 - 1.

Lemma index_arithmetic_in_range : forall len i, 0 <= i < len -> len <= 2 ^ 62 ->
  (* pushDown *)
  0 <= lchild i <= int_max /\ 0 <= lchild_next i <= int_max /\
  (forall lc, 0 <= lc < len -> 0 <= rchild lc <= int_max) /\
  (* pushUp *)
  0 <= parent i <= int_max /\
  (* pop, Set, NewWithData, Reorder and the loop steps *)
  -1 <= pop_last len <= int_max /\ -1 <= set_start len <= int_max /\ -1 <= set_next i <= int_max /\
  0 <= heapify_start_new len <= int_max /\ 0 <= heapify_start_reorder len <= int_max /\
  -1 <= heapify_next_new i <= int_max /\ -1 <= heapify_next_reorder i <= int_max.
Proof.
  intros len i Hi Hl. unfold int_max.
  unfold lchild, lchild_next, rchild, parent, pop_last, set_start, set_next, heapify_start_new,
    heapify_start_reorder, heapify_next_new, heapify_next_reorder.
  assert (H63 : 2 ^ 63 = 2 * 2 ^ 62) by reflexivity.
  assert (Hq : forall n, 0 <= n -> 0 <= Z.quot n 2 <= n).
  { intros n Hn. rewrite Z.quot_div_nonneg by lia. pose proof (Z.div_mod n 2). pose proof (Z.mod_pos_bound n 2). lia. }
  pose proof (Hq i ltac:(lia)). pose proof (Hq len ltac:(lia)).
  repeat split; try lia; intros; lia.
Qed.

(* the bound is sharp: at 2^62 elements the first pushDown of Set (i = len-1) leaves the range *)
Lemma index_arithmetic_overflows_at_2_62 : int_max < lchild (set_start (2 ^ 62 + 1)).
Proof. reflexivity. Qed.

(* ---- beyond the bound: Go's int wraps (known finding F14) ---- *)
Lemma wrap64_small : forall z, - 2 ^ 63 <= z < 2 ^ 63 -> wrap64 z = z.
Proof. intros z H. unfold wrap64. rewrite Z.mod_small by lia. lia. Qed.

(* if the child index of Set's first iteration (i = len-1) does not wrap, none does *)
Lemma no_wrap_below : forall n i, 0 <= i < n -> n <= 2 ^ 62 -> wrap64 (lchild i) = lchild i.
Proof.
  intros n i Hi Hn. apply wrap64_small. unfold lchild.
  assert (H63 : 2 ^ 63 = 2 * 2 ^ 62) by reflexivity. lia.
Qed.

(* the wrapped child index of i = 2^62 is negative: Set on 2^62+1 zero-size elements indexes out of
   range at Go's int width, while the unbounded model finishes *)
Lemma int64_refuted_beyond_bound :
  wrap64 (lchild (2 ^ 62)) = -9223372036854775807 /\
  zset64 (2 ^ 62 + 1) = ZIndexPanic (-9223372036854775807) /\
  zset_ideal (2 ^ 62 + 1) = ZOk (2 ^ 62 + 1) /\
  zset64 (2 ^ 62) = ZOk (2 ^ 62).
Proof. repeat split; vm_compute; reflexivity. Qed.
