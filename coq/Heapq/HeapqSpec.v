(* What properties C05/C06 say about heapq.Queue, in terms a reader can check in minutes.
   The reference for the contents is a bag (a list up to Permutation); the reference for Front/Pop
   is "an element no held element is smaller than, under the current comparison". *)
From Coq Require Import ZArith List Bool Permutation Sorted.
Import ListNotations.
From Mds Require Import Heapq.HeapqModel.
Local Open Scope Z_scope.

Section Spec.
Variable T : Type.

(* The contract of a comparison function (heapq.New's doc): sign-antisymmetric and transitive. *)
Record total_preorder (cmp : T -> T -> Z) : Prop := {
  tp_sgn : forall a b, Z.sgn (cmp a b) = - Z.sgn (cmp b a);
  tp_trans : forall a b c, cmp a b <= 0 -> cmp b c <= 0 -> cmp a c <= 0
}.

(* x is minimal among l *)
Definition minimal (cmp : T -> T -> Z) (x : T) (l : list T) : Prop := forall y, In y l -> cmp x y <= 0.

(* the implicit binary heap: children of j are 2j+1 and 2j+2 *)
Definition child (j c : Z) : Prop := c = 2 * j + 1 \/ c = 2 * j + 2.
Definition pair_ok (cmp : T -> T -> Z) (l : list T) (j c : Z) : Prop :=
  forall x y, get l j = Some x -> get l c = Some y -> cmp x y <= 0.
Definition ok_at (cmp : T -> T -> Z) (l : list T) (j : Z) : Prop := forall c, child j c -> pair_ok cmp l j c.
Definition heap_from (cmp : T -> T -> Z) (l : list T) (k : Z) : Prop := forall j, k <= j -> ok_at cmp l j.
Definition heap_ok (cmp : T -> T -> Z) (l : list T) : Prop := heap_from cmp l 0.

(* ---- histories: as long as the guard G admits the next op, the step succeeds (no IndexPanic,
   no OutOfFuel) and satisfies P. *)
Fixpoint hist (G : queue T -> op T -> Prop)
              (P : queue T -> op T -> out T -> moves T -> queue T -> Prop)
              (v : variant) (q : queue T) (ops : list (op T)) : Prop :=
  match ops with
  | [] => True
  | o :: ops' =>
    G q o -> exists q' r m, step T v q o = Ok (q', (r, m)) /\ P q o r m q' /\ hist G P v q' ops'
  end.

(* C05, contents: the bag of held elements is what was put in minus what was taken out, and the
   answers of the observers are those of the bag's current arrangement. *)
Definition conserved (q : queue T) (o : op T) (r : out T) (_ : moves T) (q' : queue T) : Prop :=
  let before := data q in
  let after := data q' in
  match o, r with
  | OAdd x, RIdx i => Permutation after (x :: before) /\ get after i = Some x
  | OPop, RVal (Some y) => Permutation before (y :: after) /\ get before 0 = Some y
  | OPop, RVal None => before = [] /\ after = []
  | ORemove i, RVal (Some y) => Permutation before (y :: after) /\ get before i = Some y
  | ORemove i, RVal None => len before <= i /\ after = before
  | ORemove i, RPanic => i < 0 /\ after = before
  | OPeek i, RVal r => after = before /\ r = get before i /\ 0 <= i
  | OPeek i, RPanic => after = before /\ i < 0
  | OFront, RVal r => after = before /\ r = get before 0
  | OSet vs, RUnit => Permutation after vs
  | OReorder c, RUnit => Permutation after before /\ qcmp q' = c
  | OClear, RUnit => after = []
  | ONew c, RUnit => after = [] /\ qcmp q' = c
  | ONewWithData c vs, RUnit => Permutation after vs /\ qcmp q' = c
  | OLen, RNum n => after = before /\ n = len before
  | OIsEmpty, RBool b => after = before /\ (b = true <-> before = [])
  | OEach k, RList l => after = before /\ l = match k with O => before | _ => firstn k before end
  | _, _ => False
  end.

(* the comparison changes only through Reorder/New/NewWithData *)
Definition cmp_kept (q : queue T) (o : op T) (q' : queue T) : Prop :=
  match o with
  | OReorder _ | ONew _ | ONewWithData _ _ => True
  | _ => qcmp q' = qcmp q
  end.

(* C05, order: Front and Pop answer with a minimal element of what is held. *)
Definition min_answer (q : queue T) (o : op T) (r : out T) (_ : moves T) (_ : queue T) : Prop :=
  match o, r with
  | OPop, RVal (Some y) | OFront, RVal (Some y) => minimal (qcmp q) y (data q)
  | _, _ => True
  end.

(* every comparison function a history brings in satisfies the contract *)
Definition op_wf (o : op T) : Prop :=
  match o with
  | OReorder c | ONew c | ONewWithData c _ => total_preorder c
  | _ => True
  end.

(* ops that never need an element to move towards the root: no Add into a non-empty queue, no
   Remove at an interior index *)
Definition down_only (q : queue T) (o : op T) : Prop :=
  match o with
  | OAdd _ => data q = []
  | ORemove i => i <= 0 \/ len (data q) <= i
  | _ => True
  end.

(* the values successive Pops returned *)
Fixpoint pop_values (outs : list (res (out T * moves T))) : list T :=
  match outs with
  | Ok (RVal (Some y), _) :: r => y :: pop_values r
  | _ :: r => pop_values r
  | [] => []
  end.

(* C06: positions.  [last_report L e i]: the last callback call for e in the log L says i. *)
Definition last_report (L : moves T) (e : T) (i : Z) : Prop :=
  exists l1 l2, L = l1 ++ (e, i) :: l2 /\ forall j, ~ In (e, j) l2.
Definition unreported (L : moves T) (e : T) : Prop := forall j, ~ In (e, j) L.

(* one operation's log m, read against the layouts before and after: every element of the new
   layout either has its last report in m at its new offset, or is not mentioned and did not move *)
Definition log_ok (l l' : list T) (m : moves T) : Prop :=
  forall e i, get l' i = Some e -> last_report m e i \/ (unreported m e /\ get l i = Some e).

(* the elements that entered through Add or Set since the queue was constructed/cleared *)
Definition tracked_after (tr : list T) (o : op T) : list T :=
  match o with
  | OAdd x => x :: tr
  | OSet vs => vs
  | OClear | ONew _ | ONewWithData _ _ => []
  | _ => tr
  end.

(* histories over distinct elements *)
Definition distinct_op (q : queue T) (o : op T) : Prop :=
  match o with
  | OAdd x => ~ In x (data q)
  | OSet vs | ONewWithData _ vs => NoDup vs
  | _ => True
  end.

(* the instrumented history of C06: the whole callback log L and the tracked elements tr ride
   along; after every op every tracked element still held is where its last report says. *)
Definition positions_ok (L : moves T) (tr : list T) (l : list T) : Prop :=
  forall e i, In e tr -> get l i = Some e -> last_report L e i.

Fixpoint hist_pos (v : variant) (q : queue T) (L : moves T) (tr : list T) (ops : list (op T)) : Prop :=
  match ops with
  | [] => True
  | o :: ops' =>
    distinct_op q o ->
    exists q' r m, step T v q o = Ok (q', (r, m)) /\
      let L' := L ++ m in
      let tr' := tracked_after tr o in
      NoDup (data q') /\
      positions_ok L' tr' (data q') /\
      (* Add returns the offset of the new element, which is also its reported position *)
      (match o, r with OAdd x, RIdx i => get (data q') i = Some x /\ last_report L' x i | _, _ => True end) /\
      (* Remove at the reported position of a tracked, held element removes exactly it *)
      (match o, r with
       | ORemove p, r => forall e, In e tr -> In e (data q) -> last_report L e p -> r = RVal (Some e) /\ ~ In e (data q')
       | _, _ => True end) /\
      hist_pos v q' L' tr' ops'
  end.

End Spec.

Arguments tp_sgn {T cmp}.
Arguments tp_trans {T cmp}.
