(* heapq model, part 6 — the code as it is (every variant, so the pinned switches too) keeps heap
   order on every operation outside the triggers of the known findings F1/F2
   (HeapqTriggerSpec.v), whole histories included; the F2 condition is exact; a drain of an
   ordered queue is sorted under every variant. *)
From Coq Require Import ZArith List Bool Lia Permutation Sorted.
Import ListNotations.
From Mds Require Import Gen.HeapqIdx Heapq.HeapqModel Heapq.HeapqSpec Heapq.HeapqArray Heapq.HeapqProofs
  Heapq.HeapqHeap Heapq.HeapqHist Heapq.HeapqOrder Heapq.HeapqRepaired Heapq.HeapqTriggerSpec.
Local Open Scope Z_scope.

(* ---- the first slot of a level: i/2 is its parent, and is again the first slot of a level ---- *)
Lemma left_spine_parent : forall i, left_spine i -> 0 < i ->
  Z.quot i 2 = (i - 1) / 2 /\ child ((i - 1) / 2) i /\ left_spine ((i - 1) / 2).
Proof.
  intros i [k Hk] Hi. destruct k as [|k]; [cbn in Hk; lia|].
  rewrite Nat2Z.inj_succ, Z.pow_succ_r in Hk by lia.
  set (p := 2 ^ Z.of_nat k) in *.
  assert (E1 : (i - 1) / 2 = p - 1).
  { pose proof (Z.div_mod (i - 1) 2). pose proof (Z.mod_pos_bound (i - 1) 2). lia. }
  split.
  { rewrite Z.quot_div_nonneg by lia. rewrite E1.
    pose proof (Z.div_mod i 2). pose proof (Z.mod_pos_bound i 2). lia. }
  split; [unfold child; lia|].
  exists k. fold p. lia.
Qed.

Lemma left_spine_0 : left_spine 0.
Proof. exists 0%nat. reflexivity. Qed.
Lemma left_spine_1 : left_spine 1.
Proof. exists 1%nat. reflexivity. Qed.

(* pushUp from i uses true parents all the way up *)
Definition up_ok (v : variant) (i : Z) : Prop := parent_halves v = false \/ left_spine i.

Lemma up_ok_parent : forall v i, up_ok v i -> 0 < i -> child (parent_of v i) i /\ up_ok v (parent_of v i).
Proof.
  intros v i [Hv|Hs] Hi.
  - split; [apply parent_repaired_child; assumption|left; assumption].
  - destruct (left_spine_parent i Hs Hi) as (Hq & Hc & Hs').
    destruct (parent_halves v) eqn:Hv.
    + rewrite parent_of_spec, Hv, Hq. split; [assumption|right; assumption].
    + split; [apply parent_repaired_child; assumption|left; assumption].
Qed.

Section Trig.
Variable T : Type.
Variable v : variant.
Implicit Types l : list T.

Section WithCmp.
Variable cmp : T -> T -> Z.
Hypothesis TP : total_preorder T cmp.

(* pushUp at i repairs a heap whose only defect is the pair (parent i, i), provided the indexes
   it visits are compared with their true parents *)
Lemma push_up_heap_gen : forall fuel l i l' m r, 0 <= i -> up_ok v i ->
  (forall j c, 0 <= j -> child j c -> c <> i -> pair_ok T cmp l j c) ->
  (forall p c, child p i -> child i c -> pair_ok T cmp l p c) ->
  push_up T v cmp fuel l i = Ok (l', m, r) -> heap_ok T cmp l'.
Proof.
  induction fuel as [|f IH]; intros l i l' m r Hi Hup Hex Hgr H; [discriminate|].
  cbn [push_up] in H. unfold pushup_continue in H. rewrite Z.gtb_ltb in H.
  destruct (0 <? i) eqn:E.
  2:{ apply Z.ltb_ge in E. assert (i = 0) by lia. subst i. inversion H; subst.
      intros j Hj c Hc. apply Hex; [assumption|assumption|unfold child in Hc; lia]. }
  apply Z.ltb_lt in E. pose proof (parent_range v i E) as Hpr.
  destruct (up_ok_parent v i Hup E) as [Hpc Hup']. set (par := parent_of v i) in *.
  destruct (get l i) as [a|] eqn:Ha; [|discriminate]. destruct (get l par) as [b|] eqn:Hb; [|discriminate].
  destruct (pushup_break (cmp a b)) eqn:Eb; unfold pushup_break in Eb; rewrite Z.geb_leb in Eb.
  - apply Z.leb_le in Eb. assert (Hba : cmp b a <= 0) by (apply (cmp_ge_le T cmp TP); assumption).
    injection H as El Em Er. rewrite <- El. intros j Hj c Hc. destruct (Z.eq_dec c i) as [->|Hci].
    + assert (j = par) by (unfold child in *; lia). subst j. intros x0 y0 Hx0 Hy0.
      assert (x0 = b) by congruence. assert (y0 = a) by congruence. subst. assumption.
    + apply Hex; assumption.
  - apply Z.leb_gt in Eb. assert (Hne : i <> par) by lia.
    rewrite (swap_ok T l i par a b Hne Ha Hb) in H. cbn [bind] in H.
    destruct (push_up T v cmp f (upd (upd l i b) par a) par) as [[[l2 m2] r2]| |] eqn:Erec; cbn [bind] in H; try discriminate.
    inversion H; subst. eapply (IH _ par); [lia|exact Hup'| | |exact Erec].
    + intros j c Hj Hc Hcp x0 y0 Hx0 Hy0.
      destruct (Z.eq_dec c i) as [->|Hci].
      * assert (j = par) by (unfold child in *; lia). subst j.
        rewrite get_swapped_j in Hx0 by assumption. rewrite get_swapped_i in Hy0 by assumption.
        inversion Hx0; inversion Hy0; subst. lia.
      * rewrite get_swapped_other in Hy0 by assumption.
        destruct (Z.eq_dec j i) as [->|Hji].
        -- rewrite get_swapped_i in Hx0 by assumption. inversion Hx0; subst x0.
           eapply (Hgr par c); eassumption.
        -- destruct (Z.eq_dec j par) as [->|Hjp].
           ++ rewrite get_swapped_j in Hx0 by assumption. inversion Hx0; subst x0.
              eapply (cmp_lt_le_trans T cmp TP); [exact Eb|]. eapply (Hex par c); eassumption.
           ++ rewrite get_swapped_other in Hx0 by assumption. eapply (Hex j c); eassumption.
    + intros p c Hp Hc x0 y0 Hx0 Hy0.
      pose proof (get_range _ _ _ _ Hx0) as Hrp.
      assert (Hpi : p <> i) by (unfold child in *; lia). assert (Hpp : p <> par) by (unfold child in *; lia).
      rewrite get_swapped_other in Hx0 by assumption.
      assert (Hpb : cmp x0 b <= 0).
      { eapply (Hex p par); [lia|exact Hp|lia|exact Hx0|exact Hb]. }
      destruct (Z.eq_dec c i) as [->|Hci].
      * rewrite get_swapped_i in Hy0 by assumption. inversion Hy0; subst. assumption.
      * assert (Hcp : c <> par) by (unfold child in *; lia).
        rewrite get_swapped_other in Hy0 by assumption.
        eapply (tp_trans TP); [exact Hpb|]. eapply (Hex par c); [lia|exact Hc|exact Hci|exact Hb|exact Hy0].
Qed.

(* Add at an offset from which pushUp only meets true parents *)
Lemma add_heap_gen : forall l x l' m r, heap_ok T cmp l -> up_ok v (len l) ->
  push_up T v cmp (S (length (l ++ [x]))) (l ++ [x]) (len l) = Ok (l', m, r) -> heap_ok T cmp l'.
Proof.
  intros l x l' m r Hh Hup H. pose proof (len_nonneg T l). eapply push_up_heap_gen; [|exact Hup| | |exact H]; [lia| |].
  - intros j c Hj Hc Hne x0 y0 Hx0 Hy0.
    assert (Hc' : c < len l).
    { apply get_range in Hy0. rewrite len_app in Hy0. cbn in Hy0. lia. }
    rewrite get_app_left in Hy0 by assumption. rewrite get_app_left in Hx0 by (unfold child in Hc; lia).
    eapply (Hh j); eassumption.
  - intros p c Hp Hc x0 y0 Hx0 Hy0. apply get_range in Hy0. rewrite len_app in Hy0. cbn in Hy0. unfold child in Hc. lia.
Qed.

(* one iteration of pushUp *)
Lemma push_up_step : forall f l i, 0 < i -> push_up T v cmp (S f) l i =
  match get l i, get l (parent_of v i) with
  | Some a, Some b =>
    if 0 <=? cmp a b then Ok (l, [], i)
    else do (l', m) <- swap T l i (parent_of v i);
         do (l'', m', r) <- push_up T v cmp f l' (parent_of v i);
         Ok (l'', m ++ m', r)
  | _, _ => IndexPanic
  end.
Proof.
  intros f l i Hi. cbn [push_up]. unfold pushup_continue, pushup_break. rewrite Z.gtb_ltb.
  destruct (0 <? i) eqn:E; [|apply Z.ltb_ge in E; lia].
  destruct (get l i) as [a|]; [|reflexivity]. destruct (get l (parent_of v i)) as [b|]; [|reflexivity].
  rewrite Z.geb_leb. reflexivity.
Qed.

Lemma push_up_root : forall f l, push_up T v cmp (S f) l 0 = Ok (l, [], 0).
Proof. intros f l. reflexivity. Qed.

(* an element that is not below the node pushUp compares it with stays where it is *)
Lemma push_up_noswap : forall f l i a b, 0 < i -> get l i = Some a -> get l (parent_of v i) = Some b ->
  cmp b a <= 0 -> push_up T v cmp (S f) l i = Ok (l, [], i).
Proof.
  intros f l i a b Hi Ha Hb Hba. rewrite push_up_step by assumption. rewrite Ha, Hb.
  apply (cmp_ge_le T cmp TP) in Hba. destruct (Z.leb_spec 0 (cmp a b)); [reflexivity|lia].
Qed.

(* appending an element that is not below its true parent keeps the heap *)
Lemma heap_ok_snoc : forall l x, heap_ok T cmp l ->
  (forall b, get l ((len l - 1) / 2) = Some b -> cmp b x <= 0) -> heap_ok T cmp (l ++ [x]).
Proof.
  intros l x Hh Hb j Hj c Hc x0 y0 Hx0 Hy0.
  pose proof (get_range T _ _ _ Hy0) as Hcr. rewrite len_app in Hcr. cbn in Hcr.
  assert (Hjc : j < c) by (unfold child in Hc; lia).
  destruct (Z_lt_dec c (len l)) as [Hlt|Hge].
  - rewrite get_app_left in Hy0 by assumption. rewrite get_app_left in Hx0 by lia.
    eapply (Hh j); eassumption.
  - assert (c = len l) by lia. subst c. rewrite get_app_last in Hy0. inversion Hy0; subst y0.
    rewrite get_app_left in Hx0 by lia. apply Hb.
    assert (Ej : j = (len l - 1) / 2).
    { unfold child in Hc. pose proof (Z.div_mod (len l - 1) 2). pose proof (Z.mod_pos_bound (len l - 1) 2). lia. }
    rewrite <- Ej. exact Hx0.
Qed.

Lemma heap_ok3 : forall p q0 r0, cmp p q0 <= 0 -> cmp p r0 <= 0 -> heap_ok T cmp [p; q0; r0].
Proof.
  intros p q0 r0 H1 H2 j Hj c Hc x0 y0 Hx0 Hy0.
  pose proof (get_range T _ _ _ Hy0) as Hr. change (len [p; q0; r0]) with 3 in Hr.
  assert (j = 0) by (unfold child in Hc; lia). subst j.
  change (get [p; q0; r0] 0) with (Some p) in Hx0. inversion Hx0; subst x0.
  destruct Hc as [Hc|Hc]; subst c.
  - change (get [p; q0; r0] (2 * 0 + 1)) with (Some q0) in Hy0. inversion Hy0; subst. assumption.
  - change (get [p; q0; r0] (2 * 0 + 2)) with (Some r0) in Hy0. inversion Hy0; subst. assumption.
Qed.

(* Add at offset 2 with the i/2 parent: compares with the sibling first, then with the root *)
Lemma add_two_halves : forall l x l' m r, parent_halves v = true -> heap_ok T cmp l -> len l = 2 ->
  push_up T v cmp (S (length (l ++ [x]))) (l ++ [x]) (len l) = Ok (l', m, r) -> heap_ok T cmp l'.
Proof.
  intros l x l' m r Hv Hh Hl H.
  destruct l as [|a [|b [|c t]]]; try (unfold len in Hl; cbn in Hl; lia).
  assert (Hab : cmp a b <= 0).
  { apply (Hh 0 (Z.le_refl 0) 1); [left; reflexivity|reflexivity|reflexivity]. }
  assert (P2 : parent_of v 2 = 1) by (rewrite parent_of_spec, Hv; reflexivity).
  assert (P1 : parent_of v 1 = 0) by (rewrite parent_of_spec, Hv; reflexivity).
  change (len [a; b]) with 2 in H. change ([a; b] ++ [x]) with [a; b; x] in H.
  rewrite push_up_step in H by lia. rewrite P2 in H.
  change (get [a; b; x] 2) with (Some x) in H. change (get [a; b; x] 1) with (Some b) in H. cbv iota beta in H.
  destruct (Z.leb_spec 0 (cmp x b)) as [E1|E1].
  - inversion H; subst. apply (cmp_ge_le T cmp TP) in E1.
    apply heap_ok3; [assumption|]. eapply (tp_trans TP); eassumption.
  - rewrite (swap_ok T [a; b; x] 2 1 x b) in H by (lia || reflexivity). cbn [bind] in H.
    change (upd (upd [a; b; x] 2 b) 1 x) with [a; x; b] in H.
    change (length [a; b; x]) with (S (S (S O))) in H.
    rewrite push_up_step in H by lia. rewrite P1 in H.
    change (get [a; x; b] 1) with (Some x) in H. change (get [a; x; b] 0) with (Some a) in H. cbv iota beta in H.
    destruct (Z.leb_spec 0 (cmp x a)) as [E2|E2].
    + cbn [bind] in H. inversion H; subst. apply (cmp_ge_le T cmp TP) in E2. apply heap_ok3; assumption.
    + rewrite (swap_ok T [a; x; b] 1 0 x a) in H by (lia || reflexivity). cbn [bind] in H.
      change (upd (upd [a; x; b] 1 a) 0 x) with [x; a; b] in H.
      rewrite push_up_root in H. cbn [bind] in H. inversion H; subst.
      apply heap_ok3; [lia|].
      eapply (cmp_lt_le_trans T cmp TP); eassumption.
Qed.

(* ---- pop(i) when no sift-up is needed ---- *)
Definition pop_needs_no_up l (i : Z) : Prop :=
  i = 0 \/ len l - 1 <= i \/
  exists last par, get l (len l - 1) = Some last /\ get l ((i - 1) / 2) = Some par /\ cmp par last <= 0.

Lemma true_parent_child : forall i, 0 < i -> child ((i - 1) / 2) i /\ 0 <= (i - 1) / 2 < i.
Proof.
  intros i Hi. unfold child. pose proof (Z.div_mod (i - 1) 2). pose proof (Z.mod_pos_bound (i - 1) 2). lia.
Qed.

Lemma pop_needs_no_up_dec : forall l i, 0 <= i < len l -> pop_needs_no_up l i \/ ~ pop_needs_no_up l i.
Proof.
  intros l i Hi. destruct (Z.eq_dec i 0) as [->|Hi0]; [left; left; reflexivity|].
  destruct (Z_le_dec (len l - 1) i) as [Hle|Hgt]; [left; right; left; assumption|].
  destruct (true_parent_child i) as [_ Hpr]; [lia|].
  destruct (get_some T l (len l - 1)) as [last Hlast]; [lia|].
  destruct (get_some T l ((i - 1) / 2)) as [par Hpar]; [lia|].
  destruct (Z_le_dec (cmp par last) 0) as [Hc|Hc].
  - left. right. right. exists last, par. auto.
  - right. intros [H|[H|(last' & par' & H1 & H2 & H3)]]; [contradiction|contradiction|].
    assert (last' = last) by congruence. assert (par' = par) by congruence. subst. contradiction.
Qed.

(* (after CacheHeapGuard.pop_heap_no_siftup, which the cache slice proved for its own use) *)
Lemma pop_heap_no_up : forall l i l' m out,
  pop_no_siftup v = true \/ len l - 1 <= i -> heap_ok T cmp l -> 0 <= i < len l -> pop_needs_no_up l i ->
  pop T v cmp l i = Ok (l', m, out) -> heap_ok T cmp l'.
Proof.
  intros l i l' m out Hv Hh Hi Hg H. destruct (Z.eq_dec (len l) 1) as [E1|E1].
  - rewrite (pop_single_nil T v cmp l i l' m out) by assumption. apply heap_ok_nil; assumption.
  - destruct (pop_shape T v cmp l i l' m out Hi E1 H) as (l2 & last & l3 & m1 & j & Hlast & Hl2 & Hfr & Hi1 & Hi2 & Hpd & Hend).
    assert (El : l' = l3).
    { destruct Hend as [[-> _]|(Hf & Hlt & _)]; [reflexivity|]. destruct Hv as [Hv|Hv]; [congruence|lia]. }
    subst l'. clear Hend.
    set (n := len l - 1) in *.
    destruct (get_some T l i Hi) as [oi Hoi].
    assert (Hfrom : forall k y, k <> i -> get l2 k = Some y -> get l k = Some y).
    { intros k y Hk Hgk. rewrite Hfr in Hgk by assumption. destruct (k <? n); [assumption|discriminate]. }
    assert (Hpairs : forall j0 c, 0 <= j0 -> child j0 c -> j0 <> i -> c <> i -> pair_ok T cmp l2 j0 c).
    { intros j0 c Hj0 Hc Hji Hci x0 y0 Hx0 Hy0. eapply (Hh j0); [lia|exact Hc|apply Hfrom; assumption|apply Hfrom; assumption]. }
    assert (Hgrand : forall p c, child p i -> child i c -> pair_ok T cmp l2 p c).
    { intros p c Hp Hc x0 y0 Hx0 Hy0. pose proof (get_range T _ _ _ Hx0).
      apply Hfrom in Hx0; [|unfold child in *; lia]. apply Hfrom in Hy0; [|unfold child in *; lia].
      eapply (tp_trans TP); [eapply (Hh p); [lia|exact Hp|exact Hx0|exact Hoi]|eapply (Hh i); [lia|exact Hc|exact Hoi|exact Hy0]]. }
    eapply (push_down_heap T cmp TP l2 i 0); [lia|lia| |intros p c _; apply Hgrand|exact Hpd].
    intros j0 Hj0 Hne c Hc. destruct (Z.eq_dec c i) as [->|Hci]; [|apply Hpairs; assumption].
    intros x0 y0 Hx0 Hy0.
    destruct (Z_lt_dec i n) as [Hin|Hin]; [|rewrite Hi2 in Hy0 by lia; discriminate].
    rewrite (Hi1 Hin) in Hy0. inversion Hy0; subst y0.
    destruct Hg as [->|[Hg|(last' & par & Hl' & Hp' & Hle)]]; [unfold child in Hc; lia|lia|].
    assert (last' = last) by (unfold n in Hlast; congruence). subst last'.
    assert (Hi0 : 0 < i) by (unfold child in Hc; lia).
    destruct (true_parent_child i Hi0) as [Hpc Hpr].
    assert (j0 = (i - 1) / 2) by (unfold child in *; lia). subst j0.
    apply Hfrom in Hx0; [|lia]. assert (x0 = par) by congruence. subst x0. exact Hle.
Qed.

(* (after CacheHeapGuard.pop_breaks_order) when the condition fails on a valid heap, the element
   moved into the hole stays there, strictly below its parent: heap order is lost *)
Lemma pop_no_up_breaks : forall l i l' m out,
  pop_no_siftup v = true -> heap_ok T cmp l -> 0 <= i < len l -> ~ pop_needs_no_up l i ->
  pop T v cmp l i = Ok (l', m, out) -> ~ heap_ok T cmp l'.
Proof.
  intros l i l' m out Hv Hh Hi Hg H.
  assert (Hi0 : 0 < i) by (destruct (Z.eq_dec i 0); [exfalso; apply Hg; left; assumption|lia]).
  assert (Hin : i < len l - 1) by (destruct (Z_lt_dec i (len l - 1)); [assumption|exfalso; apply Hg; right; left; lia]).
  assert (E1 : len l <> 1) by lia.
  destruct (pop_shape T v cmp l i l' m out Hi E1 H) as (l2 & last & l3 & m1 & j & Hlast & Hl2 & Hfr & Hi1 & Hi2 & Hpd & Hend).
  assert (El : l' = l3) by (destruct Hend as [[-> _]|(Hf & _)]; [reflexivity|congruence]). subst l'. clear Hend.
  specialize (Hi1 Hin). destruct (true_parent_child i Hi0) as [Hpc Hpr]. set (p := (i - 1) / 2) in *.
  destruct (get_some T l p) as [par Hpar]; [lia|].
  destruct (get_some T l i Hi) as [oi Hoi].
  assert (Hlt : cmp last par < 0).
  { destruct (Z_lt_dec (cmp last par) 0) as [|Hn]; [assumption|exfalso]. apply Hg. right. right.
    exists last, par. split; [exact Hlast|]. split; [exact Hpar|]. apply (cmp_ge_le T cmp TP). lia. }
  assert (Hfrom : forall k y, k <> i -> get l2 k = Some y -> get l k = Some y).
  { intros k y Hk Hgk. rewrite Hfr in Hgk by assumption. destruct (k <? len l - 1); [assumption|discriminate]. }
  assert (Hbelow : forall c y, child i c -> get l2 c = Some y -> cmp last y <= 0).
  { intros c y Hc Hy. apply Hfrom in Hy; [|unfold child in Hc; lia].
    eapply (cmp_lt_le_trans T cmp TP); [exact Hlt|].
    eapply (tp_trans TP); [eapply (Hh p); [lia|exact Hpc|exact Hpar|exact Hoi]|eapply (Hh i); [lia|exact Hc|exact Hoi|exact Hy]]. }
  assert (Hstay : l3 = l2).
  { unfold push_down in Hpd. rewrite push_down_loop_eq in Hpd.
    destruct (pd_choice_spec T cmp TP l2 i) as [[Hc _]|(c & xm & xi & Hc & Hch & Hgm & Hgi & Hlt' & _)]; [lia| |].
    - rewrite Hc in Hpd. cbn [bind] in Hpd. inversion Hpd; auto.
    - exfalso. rewrite Hi1 in Hgi. inversion Hgi; subst xi. specialize (Hbelow c xm Hch Hgm).
      apply (cmp_ge_le T cmp TP) in Hbelow. lia. }
  subst l3. intros Hh'.
  assert (Hp2 : get l2 p = Some par).
  { rewrite Hfr by lia. destruct (Z.ltb_spec p (len l - 1)); [exact Hpar|lia]. }
  pose proof (Hh' p (proj1 Hpr) i Hpc par last Hp2 Hi1) as Hle.
  apply (cmp_flip_lt T cmp TP) in Hlt. lia.
Qed.

(* the F2 condition is exact *)
Theorem pop_no_up_exact : forall l i l' m out,
  pop_no_siftup v = true -> heap_ok T cmp l -> 0 <= i < len l ->
  pop T v cmp l i = Ok (l', m, out) -> (heap_ok T cmp l' <-> pop_needs_no_up l i).
Proof.
  intros l i l' m out Hv Hh Hi H. split.
  - intros Hh'. destruct (pop_needs_no_up_dec l i Hi) as [Hy|Hn]; [assumption|].
    exfalso. exact (pop_no_up_breaks l i l' m out Hv Hh Hi Hn H Hh').
  - intros Hg. eapply pop_heap_no_up; [left; exact Hv|exact Hh|exact Hi|exact Hg|exact H].
Qed.

End WithCmp.
End Trig.

(* ---- whole histories ---- *)
Section TrigHist.
Variable T : Type.
Variable v : variant.
Implicit Types q : queue T.

Lemma add_ok_trig : forall q x l' m r, inv T q -> add_outside_F1 T v q x ->
  push_up T v (qcmp q) (S (length (data q ++ [x]))) (data q ++ [x]) (len (data q)) = Ok (l', m, r) ->
  heap_ok T (qcmp q) l'.
Proof.
  intros q x l' m r [TPq Hh] Hs Hpu. pose proof (len_nonneg T (data q)) as Hlen.
  destruct (parent_halves v) eqn:Hv.
  2:{ eapply add_heap_gen; [exact TPq|exact Hh|left; exact Hv|exact Hpu]. }
  destruct (Z.eq_dec (len (data q)) 0) as [E0|E0].
  { eapply add_heap_gen; [exact TPq|exact Hh|right; rewrite E0; exact left_spine_0|exact Hpu]. }
  destruct Hs as [Hs|[Hs|[Hs|Hs]]]; [congruence| | |].
  - assert (Hn : len (data q) = 1 \/ len (data q) = 2) by lia.
    destruct Hn as [E|E].
    + eapply add_heap_gen; [exact TPq|exact Hh|right; rewrite E; exact left_spine_1|exact Hpu].
    + eapply add_two_halves; [exact TPq|exact Hv|exact Hh|exact E|exact Hpu].
  - eapply add_heap_gen; [exact TPq|exact Hh|right; exact Hs|exact Hpu].
  - assert (Hn0 : 0 < len (data q)) by lia.
    pose proof (parent_range v (len (data q)) Hn0) as Hpr.
    destruct (true_parent_child (len (data q)) Hn0) as [_ Htr].
    destruct (get_some T (data q) (parent_of v (len (data q)))) as [a Ha]; [lia|].
    destruct (get_some T (data q) ((len (data q) - 1) / 2)) as [b Hb]; [lia|].
    destruct (Hs a b Ha Hb) as [Hax Hbx].
    rewrite (push_up_noswap T v (qcmp q) TPq _ (data q ++ [x]) (len (data q)) x a) in Hpu.
    + inversion Hpu; subst. eapply heap_ok_snoc; [exact Hh|]. intros b' Hb'. assert (b' = b) by congruence. subst. exact Hbx.
    + exact Hn0.
    + apply get_app_last.
    + rewrite get_app_left by lia. exact Ha.
    + exact Hax.
Qed.

Lemma remove_ok_trig : forall q i l' m out, inv T q -> remove_outside_F2 T v q i -> 0 <= i < len (data q) ->
  pop T v (qcmp q) (data q) i = Ok (l', m, out) -> heap_ok T (qcmp q) l'.
Proof.
  intros q i l' m out [TPq Hh] Hs Hi Hpop.
  destruct (Z.eq_dec i 0) as [->|Hi0].
  { eapply pop_root_heap; [exact TPq|exact Hh|lia|exact Hpop]. }
  destruct (Z_le_dec (len (data q) - 1) i) as [Hle|Hgt].
  { eapply pop_heap_no_up; [exact TPq|right; exact Hle|exact Hh|exact Hi|right; left; exact Hle|exact Hpop]. }
  destruct Hs as [Hs|[Hs|[[Hv1 Hv2]|[Hv2 Hs]]]]; [lia|lia| |].
  - exact (pop_heap T v Hv1 (qcmp q) TPq Hv2 _ _ _ _ _ Hh Hi Hpop).
  - destruct (true_parent_child i) as [_ Hpr]; [lia|].
    destruct (get_some T (data q) (len (data q) - 1)) as [last Hlast]; [lia|].
    destruct (get_some T (data q) ((i - 1) / 2)) as [par Hpar]; [lia|].
    eapply pop_heap_no_up; [exact TPq|left; exact Hv2|exact Hh|exact Hi| |exact Hpop].
    right. right. exists last, par. split; [exact Hlast|]. split; [exact Hpar|]. apply Hs; assumption.
Qed.

(* one step outside the triggers, from an ordered queue *)
Lemma step_trig : forall q o q' r m, inv T q -> op_wf T o -> outside_triggers T v q o ->
  step T v q o = Ok (q', (r, m)) -> min_answer T q o r m q' /\ inv T q'.
Proof.
  intros q o q' r m Hi Hwf Ht Hs.
  apply (step_inv T v (fun q o => op_wf T o /\ outside_triggers T v q o)); try assumption.
  - intros q0 o0 [H _]; exact H.
  - intros q0 x l' m0 r0 Hq [_ Hg]. apply add_ok_trig; assumption.
  - intros q0 i l' m0 out Hq [_ Hg]. apply remove_ok_trig; assumption.
  - split; assumption.
Qed.

(* the guarded form: every history whose operations are all outside the triggers *)
Theorem hist_min_outside_triggers : forall ops q, inv T q ->
  hist T (fun q o => op_wf T o /\ outside_triggers T v q o) (min_answer T) v q ops.
Proof.
  apply hist_min.
  - intros q o [H _]; exact H.
  - intros q x l' m r Hq [_ Hg]. apply add_ok_trig; assumption.
  - intros q i l' m out Hq [_ Hg]. apply remove_ok_trig; assumption.
Qed.

(* resetting operations order the queue whatever it held *)
Lemma step_resets : forall q o q' r m, total_preorder T (qcmp q) -> op_wf T o -> resets T o ->
  step T v q o = Ok (q', (r, m)) -> heap_ok T (qcmp q') (data q').
Proof.
  intros q o q' r m TPq Hwf Hr Hs. pose proof (len_nonneg T (data q)) as Hlen.
  destruct o; cbn [resets] in Hr; try contradiction; cbn [step] in Hs; cbn [op_wf] in Hwf.
  - (* Set *) unfold Set_, set_start in Hs.
    destruct (set_loop T (qcmp q) (S (length vs)) vs (len vs - 1)) as [[l' m']| |] eqn:Esl; cbn [bind] in Hs; try discriminate.
    inversion Hs; subst. cbn [data qcmp].
    pose proof (len_nonneg T vs). eapply (set_loop_heap T (qcmp q) TPq); [| |exact Esl]; [lia|].
    apply heap_from_beyond. lia.
  - (* Reorder *) unfold Reorder, heapify_start_reorder in Hs.
    change heapify_continue_reorder with (fun i => i >=? 0) in Hs. change heapify_next_reorder with (fun i => i - 1) in Hs.
    destruct (heapify_loop T c _ _ (S (S (length (data q)))) (data q) (Z.quot (len (data q)) 2)) as [[l' m']| |] eqn:Ehl;
      cbn [bind] in Hs; try discriminate.
    inversion Hs; subst. cbn [data qcmp].
    destruct (quot2_range (len (data q)) Hlen) as [Hq1 Hq2].
    eapply (heapify_loop_heap T c Hwf); [| |exact Ehl]; [lia|]. apply heap_from_beyond. lia.
  - (* Clear *) inversion Hs; subst. cbn [data qcmp Clear]. apply heap_from_beyond. cbn. lia.
  - (* New *) inversion Hs; subst. cbn [data qcmp New]. apply heap_from_beyond. cbn. lia.
  - (* NewWithData *) unfold NewWithData, heapify_start_new in Hs.
    change heapify_continue_new with (fun i => i >=? 0) in Hs. change heapify_next_new with (fun i => i - 1) in Hs.
    destruct (heapify_loop T c _ _ (S (S (length vs))) vs (Z.quot (len vs) 2)) as [[l' m']| |] eqn:Ehl;
      cbn [bind] in Hs; try discriminate.
    inversion Hs; subst. cbn [data qcmp].
    pose proof (len_nonneg T vs) as Hlv. destruct (quot2_range (len vs) Hlv) as [Hq1 Hq2].
    eapply (heapify_loop_heap T c Hwf); [| |exact Ehl]; [lia|]. apply heap_from_beyond. lia.
Qed.

(* the comparison keeps its contract *)
Lemma step_tp : forall q o q' r m, total_preorder T (qcmp q) -> op_wf T o ->
  step T v q o = Ok (q', (r, m)) -> total_preorder T (qcmp q').
Proof.
  intros q o q' r m TPq Hwf Hs.
  destruct (step_conserved T v q o) as (q2 & r2 & m2 & Hs2 & Hc & Hk & _).
  rewrite Hs in Hs2. inversion Hs2; subst q2 r2 m2. clear Hs2.
  destruct o; cbn [cmp_kept] in Hk; cbn [op_wf] in Hwf; try (rewrite Hk; exact TPq);
    unfold conserved in Hc; cbv beta iota zeta in Hc; destruct r; try contradiction.
  - destruct Hc as [_ ->]. exact Hwf.
  - destruct Hc as [_ ->]. exact Hwf.
  - destruct Hc as [_ ->]. exact Hwf.
Qed.

(* every history from every state, no guard *)
Theorem hist_since_reset_all : forall ops q, total_preorder T (qcmp q) -> hist_since_reset T v q ops.
Proof.
  induction ops as [|o ops IH]; intros q TPq; cbn [hist_since_reset]; [exact I|]. intros Hwf.
  destruct (step_conserved T v q o) as (q' & r & m & Hs & _).
  assert (TPq' : total_preorder T (qcmp q')) by exact (step_tp q o q' r m TPq Hwf Hs).
  exists q', r, m. split; [exact Hs|]. split; [exact TPq'|].
  split; [intros Hr; exact (step_resets q o q' r m TPq Hwf Hr Hs)|].
  split; [intros Hl; unfold ordered; apply heap_from_beyond; lia|].
  split; [|apply IH; exact TPq'].
  unfold ordered. intros Ho Ht.
  destruct (step_trig q o q' r m (conj TPq Ho) Hwf Ht Hs) as [Hm [_ Hh']]. split; assumption.
Qed.

(* a drain of an ordered queue is non-decreasing: every variant, so the code as it is *)
Theorem drain_sorted_any : forall n q, inv T q ->
  Sorted (fun a b => qcmp q a b <= 0) (pop_values T (run T v q (repeat OPop n))).
Proof.
  induction n as [|n IH]; intros q Hq; cbn [repeat run pop_values]; [constructor|].
  destruct (step_conserved T v q OPop) as (q' & r & m & Hs & Hc & Hk & _). rewrite Hs.
  destruct (step_trig q OPop q' r m Hq I I Hs) as [Hmin Hq'].
  cbn [cmp_kept] in Hk. specialize (IH q' Hq'). rewrite Hk in IH.
  unfold conserved in Hc; cbv beta iota zeta in Hc.
  destruct r as [| [y|] | | | | |]; try contradiction; cbn [pop_values]; [|exact IH].
  constructor; [exact IH|].
  destruct (pop_values T (run T v q' (repeat OPop n))) as [|z t] eqn:Ez; constructor.
  cbn in Hmin. apply Hmin. destruct Hc as [Hp _].
  assert (Hz : In z (data q')).
  { destruct n as [|n']; cbn [repeat run] in Ez; [discriminate|].
    destruct (step_conserved T v q' OPop) as (q2 & r2 & m2 & Hs2 & Hc2 & _). rewrite Hs2 in Ez.
    unfold conserved in Hc2; cbv beta iota zeta in Hc2.
    destruct r2 as [| [y2|] | | | | |]; try contradiction; cbn [pop_values] in Ez.
    - inversion Ez; subst. destruct Hc2 as [_ Hg]. eapply get_In; eassumption.
    - destruct Hc2 as [_ Hnil]. exfalso. clear -Ez Hnil Hs2.
      assert (Hall : forall k q3, data q3 = [] -> pop_values T (run T v q3 (repeat OPop k)) = []).
      { induction k as [|k IHk]; intros q3 Hd; cbn [repeat run pop_values]; [reflexivity|].
        destruct (step_conserved T v q3 OPop) as (q4 & r4 & m4 & Hs4 & Hc4 & _). rewrite Hs4.
        unfold conserved in Hc4; cbv beta iota zeta in Hc4. rewrite Hd in Hc4.
        destruct r4 as [| [y4|] | | | | |]; try contradiction; cbn [pop_values].
        - destruct Hc4 as [Hp4 _]. apply Permutation_nil_cons in Hp4. contradiction.
        - apply IHk. destruct Hc4; assumption. }
      rewrite (Hall n' q2 Hnil) in Ez. discriminate. }
  eapply Permutation_in; [apply Permutation_sym; exact Hp|right; exact Hz].
Qed.

(* the F2 condition is exact, at the level of the queue operation: under a pop that never sifts
   up, Remove(i) on an ordered queue leaves it ordered if and only if it is outside the trigger *)
Theorem remove_F2_exact : forall q i q' r m, pop_no_siftup v = true -> inv T q -> 0 <= i < len (data q) ->
  step T v q (ORemove i) = Ok (q', (r, m)) -> (ordered T q' <-> remove_outside_F2 T v q i).
Proof.
  intros q i q' r m Hv [TPq Hh] Hi Hs.
  cbn [step] in Hs. unfold Remove, Remove_negative, Remove_beyond in Hs.
  destruct (i <? 0) eqn:E1; [apply Z.ltb_lt in E1; lia|]. rewrite Z.geb_leb in Hs.
  destruct (len (data q) <=? i) eqn:E2; [apply Z.leb_le in E2; lia|].
  destruct (pop T v (qcmp q) (data q) i) as [[[l' m'] out]| |] eqn:Epop; cbn [bind] in Hs; try discriminate.
  inversion Hs; subst. unfold ordered; cbn [data qcmp].
  rewrite (pop_no_up_exact T v (qcmp q) TPq (data q) i l' m out Hv Hh Hi Epop).
  unfold pop_needs_no_up, remove_outside_F2. split.
  - intros [->|[H|(last & par & H1 & H2 & H3)]]; [left; lia|right; left; exact H|].
    right. right. right. split; [exact Hv|]. intros last' par' H1' H2'.
    assert (last' = last) by congruence. assert (par' = par) by congruence. subst. exact H3.
  - intros [H|[H|[[_ H]|[_ H]]]]; [left; lia|right; left; exact H|congruence|].
    destruct (Z.eq_dec i 0) as [->|Hi0]; [left; reflexivity|].
    destruct (Z_le_dec (len (data q) - 1) i) as [Hle|Hgt]; [right; left; exact Hle|].
    destruct (true_parent_child i) as [_ Hpr]; [lia|].
    destruct (get_some T (data q) (len (data q) - 1)) as [last Hlast]; [lia|].
    destruct (get_some T (data q) ((i - 1) / 2)) as [par Hpar]; [lia|].
    right. right. exists last, par. split; [exact Hlast|]. split; [exact Hpar|]. apply H; assumption.
Qed.

End TrigHist.

(* ---- the F1 condition is exact offset by offset (offsets 3..30): at every offset outside
   {0, 1, 2, 3, 7, 15} some ordered queue and some element lose heap order through Add ---- *)
Lemma heap_okb_from_false : forall cmp l f c, 1 <= c -> heap_okb_from cmp l f c = false -> ~ heap_ok Z cmp l.
Proof.
  induction f as [|f IH]; intros c Hc H Hh; cbn [heap_okb_from] in H; [discriminate|].
  destruct (len l <=? c) eqn:E; [discriminate|]. apply Z.leb_gt in E.
  destruct (true_parent_child c) as [Hch Hpr]; [lia|].
  destruct (get_some Z l ((c - 1) / 2)) as [p Hp]; [lia|]. destruct (get_some Z l c) as [y Hy]; [lia|].
  rewrite Hp, Hy in H. apply andb_false_iff in H. destruct H as [H|H].
  - apply Z.leb_gt in H. pose proof (Hh ((c - 1) / 2) (proj1 Hpr) c Hch p y Hp Hy). lia.
  - eapply (IH (c + 1)); [lia|exact H|exact Hh].
Qed.

Lemma heap_okb_from_true : forall cmp l f c, 1 <= c -> heap_okb_from cmp l f c = true ->
  forall c', c <= c' < c + Z.of_nat f -> forall p y, get l ((c' - 1) / 2) = Some p -> get l c' = Some y -> cmp p y <= 0.
Proof.
  induction f as [|f IH]; intros c Hc H c' Hc' p y Hp Hy; [lia|]. cbn [heap_okb_from] in H.
  destruct (len l <=? c) eqn:E.
  - apply Z.leb_le in E. apply get_range in Hy. lia.
  - destruct (get l ((c - 1) / 2)) as [p0|] eqn:Ep; [|discriminate]. destruct (get l c) as [y0|] eqn:Ey; [|discriminate].
    apply andb_prop in H. destruct H as [H1 H2].
    destruct (Z.eq_dec c' c) as [->|Hne].
    + rewrite Ep in Hp. rewrite Ey in Hy. inversion Hp; inversion Hy; subst. apply Z.leb_le. assumption.
    + eapply (IH (c + 1)); [lia|exact H2| |exact Hp|exact Hy]. lia.
Qed.

Lemma heap_okb_true : forall cmp l, heap_okb cmp l = true -> heap_ok Z cmp l.
Proof.
  intros cmp l H j Hj c Hc x y Hx Hy. pose proof (get_range Z _ _ _ Hy) as Hr.
  assert (Ej : j = (c - 1) / 2).
  { unfold child in Hc. pose proof (Z.div_mod (c - 1) 2). pose proof (Z.mod_pos_bound (c - 1) 2). lia. }
  subst j. eapply (heap_okb_from_true cmp l (length l) 1); [lia|exact H| |exact Hx|exact Hy].
  unfold len in Hr. unfold child in Hc. lia.
Qed.

Definition f1_witnesses : list (list Z * Z) :=
  [([0; 3; 0; 8], 2);
   ([1; 8; 4; 8; 9], 1);
   ([0; 4; 8; 6; 5; 9], 2);
   ([0; 0; 0; 5; 0; 4; 8; 8], 3);
   ([0; 3; 2; 4; 3; 3; 6; 5; 5], 2);
   ([2; 4; 2; 8; 6; 5; 7; 9; 9; 9], 2);
   ([0; 3; 1; 8; 3; 2; 6; 9; 9; 4; 4], 0);
   ([1; 2; 1; 7; 3; 3; 1; 7; 8; 4; 5; 5], 1);
   ([1; 2; 1; 3; 4; 1; 2; 4; 4; 6; 6; 3; 2], 1);
   ([0; 3; 1; 3; 3; 2; 7; 6; 6; 9; 6; 9; 9; 9], 6);
   ([0; 0; 1; 5; 4; 1; 4; 6; 6; 9; 4; 6; 3; 6; 6; 8], 3);
   ([1; 2; 3; 3; 7; 4; 4; 5; 5; 7; 8; 5; 6; 5; 8; 5; 9], 1);
   ([0; 1; 0; 1; 2; 2; 1; 1; 8; 3; 7; 3; 7; 5; 2; 4; 4; 9], 7);
   ([0; 1; 0; 2; 4; 2; 4; 5; 2; 6; 4; 3; 6; 7; 8; 6; 8; 3; 7], 0);
   ([0; 2; 0; 3; 3; 1; 2; 5; 4; 7; 4; 9; 8; 6; 3; 8; 9; 5; 4; 7], 1);
   ([0; 0; 0; 5; 2; 6; 5; 8; 5; 3; 5; 8; 9; 5; 6; 9; 9; 6; 8; 6; 5], 3);
   ([0; 0; 1; 2; 6; 3; 2; 3; 3; 6; 7; 4; 4; 5; 5; 9; 6; 5; 9; 8; 6; 9], 0);
   ([0; 3; 1; 3; 4; 8; 5; 8; 3; 4; 7; 9; 8; 8; 7; 9; 9; 8; 4; 6; 5; 9; 8], 0);
   ([0; 2; 0; 3; 2; 0; 3; 6; 4; 3; 2; 7; 6; 9; 7; 7; 6; 4; 6; 7; 7; 3; 3; 8], 1);
   ([0; 0; 1; 2; 2; 2; 4; 2; 6; 5; 4; 3; 3; 6; 8; 4; 4; 8; 7; 8; 6; 8; 7; 9; 4], 1);
   ([1; 2; 3; 5; 5; 6; 5; 8; 5; 6; 6; 6; 7; 6; 6; 9; 8; 9; 5; 7; 7; 9; 9; 7; 9; 7], 1);
   ([0; 1; 2; 1; 2; 2; 3; 2; 7; 6; 3; 4; 2; 8; 5; 4; 9; 8; 7; 8; 7; 8; 4; 6; 8; 9; 9], 0);
   ([0; 0; 1; 2; 1; 2; 2; 3; 2; 6; 2; 3; 8; 5; 2; 4; 7; 5; 4; 7; 9; 9; 2; 5; 8; 9; 9; 9], 1);
   ([0; 1; 0; 3; 4; 2; 3; 7; 6; 4; 4; 3; 2; 3; 6; 9; 8; 8; 6; 8; 7; 6; 8; 4; 6; 9; 5; 7; 4], 1);
   ([0; 0; 1; 2; 0; 2; 3; 3; 3; 4; 0; 4; 2; 3; 6; 4; 6; 8; 6; 9; 5; 8; 5; 5; 5; 7; 2; 8; 7; 9], 5)].

(* Set(l) (a reset: the queue is ordered, and holds l unchanged); Add(x): no longer ordered *)
Definition f1_breaks (v : variant) (w : list Z * Z) : Prop :=
  exists q1 q2, exec Z v (New Z zcmp) [OSet (fst w)] = Some q1 /\ data q1 = fst w /\ ordered Z q1 /\
                exec Z v (New Z zcmp) [OSet (fst w); OAdd (snd w)] = Some q2 /\ ~ ordered Z q2.

Definition f1_breaksb (v : variant) (w : list Z * Z) : bool :=
  match exec Z v (New Z zcmp) [OSet (fst w)], exec Z v (New Z zcmp) [OSet (fst w); OAdd (snd w)] with
  | Some q1, Some q2 =>
    (if list_eq_dec Z.eq_dec (data q1) (fst w) then true else false) &&
    (if Z.eq_dec (qcmp q2 0 1) (-1) then true else false) && negb (heap_okb zcmp (data q2))
  | _, _ => false
  end.

Lemma exec_qcmp_zcmp : forall v (w : list Z * Z) q2,
  exec Z v (New Z zcmp) [OSet (fst w); OAdd (snd w)] = Some q2 -> qcmp q2 = zcmp.
Proof.
  intros v w q2 H. cbn [exec] in H.
  destruct (step_conserved Z v (New Z zcmp) (OSet (fst w))) as (qa & ra & ma & Hsa & _ & Hka & _).
  rewrite Hsa in H.
  destruct (step_conserved Z v qa (OAdd (snd w))) as (qb & rb & mb & Hsb & _ & Hkb & _).
  rewrite Hsb in H. inversion H; subst. cbn [cmp_kept] in Hka, Hkb. rewrite Hkb, Hka. reflexivity.
Qed.

Lemma f1_breaksb_sound : forall v w, f1_breaksb v w = true -> f1_breaks v w.
Proof.
  intros v w H. unfold f1_breaksb in H.
  destruct (exec Z v (New Z zcmp) [OSet (fst w)]) as [q1|] eqn:E1; [|discriminate].
  destruct (exec Z v (New Z zcmp) [OSet (fst w); OAdd (snd w)]) as [q2|] eqn:E2; [|discriminate].
  apply andb_prop in H. destruct H as [H Hb]. apply andb_prop in H. destruct H as [Hd _].
  destruct (list_eq_dec Z.eq_dec (data q1) (fst w)) as [Ed|]; [|discriminate].
  exists q1, q2. split; [exact E1|]. split; [exact Ed|]. split; [|split; [exact E2|]].
  - cbn [exec] in E1.
    destruct (step Z v (New Z zcmp) (OSet (fst w))) as [[qa [ra ma]]| |] eqn:Es; try discriminate.
    inversion E1; subst qa. unfold ordered.
    exact (step_resets Z v (New Z zcmp) (OSet (fst w)) q1 ra ma zcmp_total_preorder I I Es).
  - unfold ordered. rewrite (exec_qcmp_zcmp v w q2 E2).
    apply negb_true_iff in Hb. unfold heap_okb in Hb. eapply heap_okb_from_false; [|exact Hb]. lia.
Qed.

Theorem add_F1_exact_small :
  map (fun w => len (fst w)) f1_witnesses = [4; 5; 6; 8; 9; 10; 11; 12; 13; 14; 16; 17; 18; 19; 20; 21; 22; 23; 24; 25; 26; 27; 28; 29; 30] /\
  map (fun w => add_index_safeb (len (fst w))) f1_witnesses = repeat false 25 /\
  map add_index_safeb [0; 1; 2; 3; 7; 15] = repeat true 6 /\
  Forall (f1_breaks pinned) f1_witnesses.
Proof.
  split; [vm_compute; reflexivity|]. split; [vm_compute; reflexivity|]. split; [vm_compute; reflexivity|].
  apply Forall_forall. intros w Hw. apply f1_breaksb_sound.
  assert (Hall : forallb (f1_breaksb pinned) f1_witnesses = true) by (vm_compute; reflexivity).
  rewrite forallb_forall in Hall. apply Hall. exact Hw.
Qed.
