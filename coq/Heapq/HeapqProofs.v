(* heapq model, part 1 — for EVERY variant and EVERY comparison function (no contract needed):
   no step ever fails (IndexPanic / OutOfFuel), contents are conserved (Permutation), and the
   move log tells where every element is (log_ok). *)
From Coq Require Import ZArith List Bool Lia Permutation.
Import ListNotations.
From Mds Require Import Gen.HeapqIdx Heapq.HeapqModel Heapq.HeapqSpec Heapq.HeapqArray.
Local Open Scope Z_scope.

(* ---- facts about the generated index arithmetic ---- *)
Lemma parent_of_spec : forall v i, parent_of v i = if parent_halves v then Z.quot i 2 else Z.quot (i - 1) 2.
Proof. intros v i. unfold parent_of. destruct (parent_halves v); reflexivity. Qed.

Lemma parent_range : forall v i, 0 < i -> 0 <= parent_of v i < i.
Proof.
  intros v i H. rewrite parent_of_spec. destruct (parent_halves v); rewrite Z.quot_div_nonneg by lia.
  - pose proof (Z.div_mod i 2). pose proof (Z.mod_pos_bound i 2). lia.
  - pose proof (Z.div_mod (i - 1) 2). pose proof (Z.mod_pos_bound (i - 1) 2). lia.
Qed.

Lemma parent_repaired_child : forall v i, parent_halves v = false -> 0 < i -> child (parent_of v i) i.
Proof.
  intros v i Hv H. rewrite parent_of_spec, Hv. rewrite Z.quot_div_nonneg by lia. unfold child.
  pose proof (Z.div_mod (i - 1) 2). pose proof (Z.mod_pos_bound (i - 1) 2). lia.
Qed.

Lemma lchild_eq : forall i, HeapqIdx.lchild i = 2 * i + 1.
Proof. reflexivity. Qed.
Lemma lchild_next_eq : forall i, HeapqIdx.lchild_next i = HeapqIdx.lchild i.
Proof. reflexivity. Qed.
Lemma rchild_eq : forall lc, HeapqIdx.rchild lc = lc + 1.
Proof. reflexivity. Qed.

Section P.
Variable T : Type.
Implicit Types l : list T.

Lemma NoDup_get_inj : forall l i j x, NoDup l -> get l i = Some x -> get l j = Some x -> i = j.
Proof.
  intros l i j x Hn Hi Hj. pose proof (get_range _ _ _ _ Hi). pose proof (get_range _ _ _ _ Hj).
  rewrite get_nat in Hi, Hj by lia. rewrite NoDup_nth_error in Hn.
  assert (Z.to_nat i = Z.to_nat j) by (apply Hn; [unfold len in *; lia|congruence]). lia.
Qed.

(* ---- logs ---- *)
Lemma log_ok_refl : forall l, log_ok T l l [].
Proof. intros l e i H. right. split; [intros j []|assumption]. Qed.

Lemma log_ok_trans : forall l l1 l2 m1 m2, log_ok T l l1 m1 -> log_ok T l1 l2 m2 -> log_ok T l l2 (m1 ++ m2).
Proof.
  intros l l1 l2 m1 m2 H1 H2 e i Hg.
  destruct (H2 e i Hg) as [[a [b [E Hn]]]|[Hu Hg1]].
  - left. exists (m1 ++ a), b. split; [rewrite E, app_assoc; reflexivity|exact Hn].
  - destruct (H1 e i Hg1) as [[a [b [E Hn]]]|[Hu1 Hg0]].
    + left. exists a, (b ++ m2). split; [rewrite E, <- app_assoc; reflexivity|].
      intros j Hin. apply in_app_or in Hin. destruct Hin as [Hin|Hin]; [exact (Hn j Hin)|exact (Hu j Hin)].
    + right. split; [|assumption]. intros j Hin. apply in_app_or in Hin.
      destruct Hin as [Hin|Hin]; [exact (Hu1 j Hin)|exact (Hu j Hin)].
Qed.

(* ---- swap ---- *)
Lemma swap_ok : forall l i j a b, i <> j -> get l i = Some a -> get l j = Some b ->
  swap T l i j = Ok (upd (upd l i b) j a, [(b, i); (a, j)]).
Proof.
  intros l i j a b Hne Hi Hj. unfold swap. rewrite Hi, Hj.
  rewrite (get_swapped T l i j a b i Hne Hi Hj). rewrite (get_swapped T l i j a b j Hne Hi Hj).
  rewrite Z.eqb_refl. destruct (i =? j) eqn:E; [apply Z.eqb_eq in E; contradiction|].
  rewrite Z.eqb_refl. reflexivity.
Qed.

Lemma swap_log : forall l i j a b, NoDup l -> i <> j -> get l i = Some a -> get l j = Some b ->
  log_ok T l (upd (upd l i b) j a) [(b, i); (a, j)].
Proof.
  intros l i j a b Hn Hne Hi Hj e k Hg. rewrite (get_swapped T l i j a b k Hne Hi Hj) in Hg.
  destruct (k =? j) eqn:Ekj.
  - apply Z.eqb_eq in Ekj. subst k. inversion Hg; subst e. left. exists [(b, i)], []. split; [reflexivity|intros ? []].
  - apply Z.eqb_neq in Ekj. destruct (k =? i) eqn:Eki.
    + apply Z.eqb_eq in Eki. subst k. inversion Hg; subst e. left. exists [], [(a, j)]. split; [reflexivity|].
      intros j0 [H|[]]. inversion H; subst. apply Hne. eapply NoDup_get_inj; eauto.
    + apply Z.eqb_neq in Eki. right. split; [|assumption].
      intros j0 [H|[H|[]]]; inversion H; subst.
      * apply Ekj. eapply NoDup_get_inj; eauto.
      * apply Eki. eapply NoDup_get_inj; eauto.
Qed.

Section C.
Variable cmp : T -> T -> Z.

(* ---- pushDown: which child (if any) the element at i is exchanged with ---- *)
Definition pd_choice (l : list T) (i : Z) : res (option Z) :=
  let lc := HeapqIdx.lchild i in
  if HeapqIdx.pushdown_continue lc (len l) then
    match get l lc, get l i with
    | Some x, Some y =>
      let '(min1, ymin) := if HeapqIdx.pushdown_left_less (cmp x y) then (lc, x) else (i, y) in
      let rc := HeapqIdx.rchild lc in
      do min2 <- match get l rc with
                 | Some z => Ok (if HeapqIdx.pushdown_right_less rc (len l) (cmp z ymin) then rc else min1)
                 | None => if HeapqIdx.pushdown_right_less rc (len l) (-1) then IndexPanic else Ok min1
                 end;
      if HeapqIdx.pushdown_done min2 i then Ok None else Ok (Some min2)
    | _, _ => IndexPanic
    end
  else Ok None.

Lemma push_down_loop_eq : forall f l i,
  push_down_loop T cmp (S f) l i (HeapqIdx.lchild i) =
  do c <- pd_choice l i;
  match c with
  | None => Ok (l, [], i)
  | Some m =>
    do (l', mv) <- swap T l i m;
    do (l'', m', r) <- push_down_loop T cmp f l' m (HeapqIdx.lchild m);
    Ok (l'', mv ++ m', r)
  end.
Proof.
  intros f l i. cbn [push_down_loop]. unfold pd_choice.
  destruct (pushdown_continue (lchild i) (len l)); [|reflexivity].
  destruct (get l (lchild i)) as [x|]; [|reflexivity].
  destruct (get l i) as [y|]; [|reflexivity].
  destruct (pushdown_left_less (cmp x y));
    (destruct (get l (rchild (lchild i))) as [z|];
     [ destruct (pushdown_right_less (rchild (lchild i)) (len l) (cmp z _)); cbn [bind];
       match goal with |- context [pushdown_done ?a ?b] => destruct (pushdown_done a b) end; reflexivity
     | destruct (pushdown_right_less (rchild (lchild i)) (len l) (-1)); cbn [bind]; [reflexivity|];
       match goal with |- context [pushdown_done ?a ?b] => destruct (pushdown_done a b) end; reflexivity ]).
Qed.

Lemma pd_choice_ok : forall l i, 0 <= i ->
  exists c, pd_choice l i = Ok c /\
    match c with
    | None => True
    | Some m => child i m /\ exists xm xi, get l m = Some xm /\ get l i = Some xi
    end.
Proof.
  intros l i Hi. unfold pd_choice. rewrite rchild_eq, lchild_eq.
  unfold pushdown_continue, pushdown_right_less, pushdown_done.
  destruct (2 * i + 1 <? len l) eqn:E; [|exists None; auto].
  apply Z.ltb_lt in E.
  destruct (get_some T l (2 * i + 1)) as [x Hx]; [lia|].
  destruct (get_some T l i) as [y Hy]; [lia|].
  rewrite Hx, Hy.
  assert (Hc1 : child i (2 * i + 1)) by (left; reflexivity).
  assert (Hc2 : child i (2 * i + 1 + 1)) by (right; lia).
  destruct (pushdown_left_less (cmp x y)).
  - destruct (get l (2 * i + 1 + 1)) as [z|] eqn:Ez.
    + destruct ((2 * i + 1 + 1 <? len l) && (cmp z x <? 0)); cbn [bind].
      * destruct (2 * i + 1 + 1 =? i) eqn:E2; [apply Z.eqb_eq in E2; lia|]. eexists; split; [reflexivity|]. (split; [assumption|eexists _, _; split; first [eassumption|reflexivity]]).
      * destruct (2 * i + 1 =? i) eqn:E2; [apply Z.eqb_eq in E2; lia|]. eexists; split; [reflexivity|]. (split; [assumption|eexists _, _; split; first [eassumption|reflexivity]]).
    + apply get_none in Ez. destruct (2 * i + 1 + 1 <? len l) eqn:E3; [apply Z.ltb_lt in E3; lia|].
      cbn [andb bind]. destruct (2 * i + 1 =? i) eqn:E2; [apply Z.eqb_eq in E2; lia|]. eexists; split; [reflexivity|]. (split; [assumption|eexists _, _; split; first [eassumption|reflexivity]]).
  - destruct (get l (2 * i + 1 + 1)) as [z|] eqn:Ez.
    + destruct ((2 * i + 1 + 1 <? len l) && (cmp z y <? 0)); cbn [bind].
      * destruct (2 * i + 1 + 1 =? i) eqn:E2; [apply Z.eqb_eq in E2; lia|]. eexists; split; [reflexivity|]. (split; [assumption|eexists _, _; split; first [eassumption|reflexivity]]).
      * rewrite Z.eqb_refl. exists None; auto.
    + apply get_none in Ez. destruct (2 * i + 1 + 1 <? len l) eqn:E3; [apply Z.ltb_lt in E3; lia|].
      cbn [andb bind]. rewrite Z.eqb_refl. exists None; auto.
Qed.

Lemma push_down_loop_total : forall fuel l i, 0 <= i -> Z.max 0 (len l - i) < Z.of_nat fuel ->
  exists l' m r, push_down_loop T cmp fuel l i (HeapqIdx.lchild i) = Ok (l', m, r) /\
    Permutation l' l /\ i <= r /\ (NoDup l -> log_ok T l l' m) /\ (forall k, k < i -> get l' k = get l k).
Proof.
  induction fuel as [|f IH]; intros l i Hi Hf; [lia|].
  rewrite push_down_loop_eq. destruct (pd_choice_ok l i Hi) as [c [Hc Hm]]. rewrite Hc. cbn [bind].
  destruct c as [m|].
  - destruct Hm as [Hch [xm [xi [Hgm Hgi]]]].
    assert (Hne : i <> m) by (destruct Hch; lia).
    pose proof (get_range _ _ _ _ Hgm) as Hrm.
    rewrite (swap_ok l i m xi xm Hne Hgi Hgm). cbn [bind].
    set (l1 := upd (upd l i xm) m xi).
    assert (Hl1 : len l1 = len l) by (unfold l1; rewrite !len_upd; reflexivity).
    destruct (IH l1 m) as (l'' & m' & r & Heq & Hp & Hr & Hlog & Hfr).
    { destruct Hch; lia. } { rewrite Hl1. destruct Hch; lia. }
    rewrite Heq. cbn [bind].
    assert (Hp1 : Permutation l1 l) by (apply perm_swap_get; assumption).
    eexists _, _, _. split; [reflexivity|]. split; [eapply perm_trans; eassumption|].
    split; [destruct Hch; lia|]. split.
    + intros Hn. eapply log_ok_trans; [apply swap_log; eassumption|]. apply Hlog.
      eapply Permutation_NoDup; [apply Permutation_sym; exact Hp1|exact Hn].
    + intros k Hk. rewrite Hfr by (destruct Hch; lia). unfold l1.
      rewrite (get_swapped T l i m xi xm k Hne Hgi Hgm).
      destruct (k =? m) eqn:E1; [apply Z.eqb_eq in E1; destruct Hch; lia|].
      destruct (k =? i) eqn:E2; [apply Z.eqb_eq in E2; lia|]. reflexivity.
  - exists l, [], i. split; [reflexivity|]. split; [apply Permutation_refl|]. split; [lia|].
    split; [intros _; apply log_ok_refl|reflexivity].
Qed.

Lemma push_down_total : forall l i, 0 <= i ->
  exists l' m r, push_down T cmp l i = Ok (l', m, r) /\
    Permutation l' l /\ i <= r /\ (NoDup l -> log_ok T l l' m) /\ (forall k, k < i -> get l' k = get l k).
Proof.
  intros l i Hi. unfold push_down. apply push_down_loop_total; [assumption|].
  pose proof (len_nonneg T l). unfold len in *. lia.
Qed.

(* ---- pushUp ---- *)
Variable v : variant.

Lemma push_up_total : forall fuel l i, 0 <= i < len l -> i < Z.of_nat fuel ->
  exists l' m r, push_up T v cmp fuel l i = Ok (l', m, r) /\
    Permutation l' l /\ 0 <= r <= i /\ (NoDup l -> log_ok T l l' m) /\
    (exists x, get l i = Some x /\ get l' r = Some x).
Proof.
  induction fuel as [|f IH]; intros l i Hi Hf; [lia|].
  cbn [push_up]. unfold pushup_continue. rewrite Z.gtb_ltb.
  destruct (get_some T l i Hi) as [a Ha].
  destruct (0 <? i) eqn:E.
  - apply Z.ltb_lt in E. pose proof (parent_range v i E) as Hpr.
    destruct (get_some T l (parent_of v i)) as [b Hb]; [lia|]. rewrite Ha, Hb.
    destruct (pushup_break (cmp a b)).
    + exists l, [], i. split; [reflexivity|]. split; [apply Permutation_refl|]. split; [lia|].
      split; [intros _; apply log_ok_refl|eauto].
    + assert (Hne : i <> parent_of v i) by lia.
      rewrite (swap_ok l i (parent_of v i) a b Hne Ha Hb). cbn [bind].
      set (l1 := upd (upd l i b) (parent_of v i) a).
      assert (Hl1 : len l1 = len l) by (unfold l1; rewrite !len_upd; reflexivity).
      assert (Hg1 : get l1 (parent_of v i) = Some a).
      { unfold l1. rewrite (get_swapped T l i _ a b _ Hne Ha Hb). rewrite Z.eqb_refl. reflexivity. }
      destruct (IH l1 (parent_of v i)) as (l'' & m' & r & Heq & Hp & Hr & Hlog & [x [Hx1 Hx2]]); [lia|lia|].
      rewrite Heq. cbn [bind].
      assert (Hp1 : Permutation l1 l) by (apply perm_swap_get; assumption).
      eexists _, _, _. split; [reflexivity|]. split; [eapply perm_trans; eassumption|]. split; [lia|]. split.
      * intros Hn. eapply log_ok_trans; [apply swap_log; eassumption|]. apply Hlog.
        eapply Permutation_NoDup; [apply Permutation_sym; exact Hp1|exact Hn].
      * exists a. split; [reflexivity|]. congruence.
  - exists l, [], i. split; [reflexivity|]. split; [apply Permutation_refl|]. split; [lia|].
    split; [intros _; apply log_ok_refl|eauto].
Qed.

(* ---- pop ---- *)
Lemma singleton_get : forall l x, len l = 1 -> get l 0 = Some x -> l = [x].
Proof.
  intros [|h [|h' t]] x Hl Hg; unfold len in Hl; cbn in Hl; try lia. cbn in Hg. congruence.
Qed.

Lemma pop_total : forall l i, 0 <= i < len l ->
  exists l' m out, pop T v cmp l i = Ok (l', m, out) /\ get l i = Some out /\
    Permutation l (out :: l') /\ (NoDup l -> log_ok T l l' m).
Proof.
  intros l i Hi. unfold pop. destruct (get_some T l i Hi) as [out Ho]. rewrite Ho.
  unfold pop_last, pop_single.
  destruct (len l - 1 =? 0) eqn:E0.
  - apply Z.eqb_eq in E0. assert (i = 0) by lia. subst i.
    exists [], [], out. split; [reflexivity|]. split; [reflexivity|].
    rewrite (singleton_get l out) by (assumption || lia). split; [apply Permutation_refl|].
    intros _ e k Hg. unfold get in Hg. destruct (k <? 0); [discriminate|]. destruct (Z.to_nat k); discriminate.
  - apply Z.eqb_neq in E0. set (n := len l - 1) in *.
    destruct (get_some T l n) as [last Hl]; [lia|]. rewrite Hl.
    set (l1 := upd (upd l i last) n out).
    assert (Hl1 : len l1 = len l) by (unfold l1; rewrite !len_upd; reflexivity).
    assert (Hp1 : Permutation l1 l) by (apply perm_swap_get; assumption).
    destruct (get_some T l1 i) as [moved Hmv]; [lia|]. rewrite Hmv.
    change (0 <? pop_ncalls_move) with true. change (0 <? pop_ncalls_pushDown) with true. cbv iota.
    destruct (n <? 0) eqn:En; [apply Z.ltb_lt in En; lia|].
    set (l2 := firstn (Z.to_nat n) l1).
    assert (Hgn : get l1 n = Some out) by (unfold l1; apply get_upd_same; rewrite len_upd; lia).
    assert (Hp2 : Permutation l1 (out :: l2)) by (apply firstn_removelast_perm; [assumption|lia]).
    assert (Hl2 : len l2 = n) by (unfold l2; apply len_firstn; lia).
    assert (Hlog0 : NoDup l -> log_ok T l l2 [(moved, i)]).
    { intros Hn e k Hg. unfold l2 in Hg. rewrite get_firstn in Hg by lia.
      destruct (k <? n) eqn:Ek; [|discriminate]. apply Z.ltb_lt in Ek.
      destruct (Z.eq_dec k i) as [->|Hki].
      - left. exists [], []. split; [|intros ? []]. cbn. congruence.
      - right. split.
        + intros j [H|[]]. inversion H; subst. apply Hki.
          eapply (NoDup_get_inj l1); eauto. eapply Permutation_NoDup; [apply Permutation_sym; exact Hp1|exact Hn].
        + unfold l1 in Hg. rewrite get_upd_other in Hg by lia. rewrite get_upd_other in Hg by lia. exact Hg. }
    destruct (push_down_total l2 i) as (l3 & m1 & j & Hpd & Hp3 & Hj & Hlog1 & _); [lia|].
    rewrite Hpd. cbn [bind].
    assert (HN2 : NoDup l -> NoDup l2).
    { intros Hn. assert (NoDup (out :: l2)) as H2.
      { eapply Permutation_NoDup; [exact Hp2|]. eapply Permutation_NoDup; [apply Permutation_sym; exact Hp1|exact Hn]. }
      inversion H2; assumption. }
    assert (Hperm3 : Permutation l (out :: l3)).
    { eapply perm_trans; [apply Permutation_sym; exact Hp1|]. eapply perm_trans; [exact Hp2|].
      apply perm_skip, Permutation_sym, Hp3. }
    destruct (pop_no_siftup v).
    + eexists _, _, _. split; [reflexivity|]. split; [reflexivity|]. split; [exact Hperm3|].
      intros Hn. eapply log_ok_trans; [apply Hlog0; exact Hn|apply Hlog1, HN2, Hn].
    + destruct ((j =? i) && (i <? n)) eqn:Eb.
      * apply andb_prop in Eb. destruct Eb as [_ Eb]. apply Z.ltb_lt in Eb.
        assert (Hl3 : len l3 = n) by (rewrite <- Hl2; unfold len; f_equal; apply Permutation_length; exact Hp3).
        destruct (push_up_total (S (length l3)) l3 i) as (l4 & m2 & r & Hpu & Hp4 & _ & Hlog2 & _).
        { lia. } { unfold len in Hl3. lia. }
        rewrite Hpu. cbn [bind]. eexists _, _, _. split; [reflexivity|]. split; [reflexivity|]. split.
        { eapply perm_trans; [exact Hperm3|]. apply perm_skip, Permutation_sym, Hp4. }
        intros Hn. eapply log_ok_trans; [apply Hlog0; exact Hn|].
        eapply log_ok_trans; [apply Hlog1, HN2, Hn|]. apply Hlog2.
        eapply Permutation_NoDup; [apply Permutation_sym; exact Hp3|apply HN2, Hn].
      * eexists _, _, _. split; [reflexivity|]. split; [reflexivity|]. split; [exact Hperm3|].
        intros Hn. eapply log_ok_trans; [apply Hlog0; exact Hn|apply Hlog1, HN2, Hn].
Qed.

End C.
End P.
