(* heapq model, part 4 — order over histories: what holds for every variant (root removal, Set,
   Reorder, NewWithData, Sort, histories that only sift down), and the refutations under the
   pinned switches. *)
From Coq Require Import ZArith List Bool Lia Permutation Sorted.
Import ListNotations.
From Mds Require Import Gen.HeapqIdx Heapq.HeapqModel Heapq.HeapqSpec Heapq.HeapqArray Heapq.HeapqProofs
  Heapq.HeapqHeap Heapq.HeapqHist.
Local Open Scope Z_scope.

Section Ord.
Variable T : Type.
Variable v : variant.
Implicit Types l : list T.

Section WithCmp.
Variable cmp : T -> T -> Z.
Hypothesis TP : total_preorder T cmp.

(* what pop(i) does, for a queue of at least two elements *)
Lemma pop_shape : forall l i l' m out, 0 <= i < len l -> len l <> 1 -> pop T v cmp l i = Ok (l', m, out) ->
  exists l2 last l3 m1 j,
    get l (len l - 1) = Some last /\ len l2 = len l - 1 /\
    (forall k, k <> i -> get l2 k = if k <? len l - 1 then get l k else None) /\
    (i < len l - 1 -> get l2 i = Some last) /\ (len l - 1 <= i -> get l2 i = None) /\
    push_down T cmp l2 i = Ok (l3, m1, j) /\
    ((l' = l3 /\ (pop_no_siftup v = true \/ j <> i \/ len l - 1 <= i)) \/
     (pop_no_siftup v = false /\ i < len l - 1 /\ exists m2 r, push_up T v cmp (S (length l3)) l3 i = Ok (l', m2, r))).
Proof.
  intros l i l' m out Hi Hl1 H. unfold pop in H.
  destruct (get l i) as [o|] eqn:Ho; [|discriminate]. unfold pop_last, pop_single in H.
  destruct (len l - 1 =? 0) eqn:E0; [apply Z.eqb_eq in E0; lia|]. set (n := len l - 1) in *.
  destruct (get l n) as [last|] eqn:El; [|discriminate].
  set (l1 := upd (upd l i last) n o) in *.
  assert (Hl1' : len l1 = len l) by (unfold l1; rewrite !len_upd; reflexivity).
  destruct (get l1 i) as [moved|] eqn:Emv; [|discriminate].
  change (0 <? pop_ncalls_move) with true in H. change (0 <? pop_ncalls_pushDown) with true in H. cbv iota in H.
  destruct (n <? 0) eqn:En; [discriminate|]. apply Z.ltb_ge in En.
  destruct (push_down T cmp (firstn (Z.to_nat n) l1) i) as [[[l3 m1] j]| |] eqn:Epd; cbn [bind] in H; try discriminate.
  exists (firstn (Z.to_nat n) l1), last, l3, m1, j.
  split; [reflexivity|]. split; [apply len_firstn; lia|]. split.
  { intros k Hk. rewrite get_firstn by lia. destruct (k <? n) eqn:Ek; [|reflexivity]. apply Z.ltb_lt in Ek.
    unfold l1. rewrite get_upd_other by lia. rewrite get_upd_other by lia. reflexivity. }
  split.
  { intros Hin. rewrite get_firstn by lia. destruct (i <? n) eqn:Ek; [|apply Z.ltb_ge in Ek; lia].
    unfold l1. rewrite get_upd_other by lia. apply get_upd_same. lia. }
  split.
  { intros Hin. apply get_beyond. rewrite len_firstn by lia. lia. }
  split; [exact Epd|].
  destruct (pop_no_siftup v).
  - inversion H; subst. left. auto.
  - destruct ((j =? i) && (i <? n)) eqn:Eb.
    + apply andb_prop in Eb. destruct Eb as [_ Eb]. apply Z.ltb_lt in Eb.
      destruct (push_up T v cmp (S (length l3)) l3 i) as [[[l4 m2] r]| |] eqn:Epu; cbn [bind] in H; try discriminate.
      inversion H; subst. right. split; [reflexivity|]. split; [assumption|]. eauto.
    + inversion H; subst. left. split; [reflexivity|]. right.
      apply andb_false_iff in Eb. destruct Eb as [Eb|Eb]; [left; apply Z.eqb_neq; assumption|right; apply Z.ltb_ge; assumption].
Qed.

Lemma pop_single_nil : forall l i l' m out, 0 <= i < len l -> len l = 1 -> pop T v cmp l i = Ok (l', m, out) -> l' = [].
Proof.
  intros l i l' m out Hi Hl H. unfold pop in H. destruct (get l i); [|discriminate].
  unfold pop_last, pop_single in H. rewrite Hl in H. cbn in H. inversion H; reflexivity.
Qed.

(* removing the root keeps a valid heap valid — every variant *)
Lemma pop_root_heap : forall l l' m out, heap_ok T cmp l -> 0 < len l ->
  pop T v cmp l 0 = Ok (l', m, out) -> heap_ok T cmp l'.
Proof.
  intros l l' m out Hh Hl H. destruct (Z.eq_dec (len l) 1) as [E1|E1].
  - rewrite (pop_single_nil l 0 l' m out) by (assumption || lia). apply heap_ok_nil.
  - destruct (pop_shape l 0 l' m out) as (l2 & last & l3 & m1 & j & Hlast & Hl2 & Hfr & Hi1 & Hi2 & Hpd & Hend);
      [lia|assumption|assumption|].
    assert (H3 : heap_ok T cmp l3).
    { eapply (push_down_heap T cmp TP l2 0 0); [lia|lia| | |exact Hpd].
      - intros j0 Hj0 Hne c Hc x0 y0 Hx0 Hy0.
        rewrite Hfr in Hx0 by assumption. rewrite Hfr in Hy0 by (unfold child in Hc; lia).
        destruct (j0 <? len l - 1); [|discriminate]. destruct (c <? len l - 1); [|discriminate].
        eapply (Hh j0); eassumption.
      - intros p c Hp Hc. unfold child in Hc. lia. }
    destruct Hend as [[-> _]|(_ & _ & m2 & r & Hpu)]; [assumption|].
    cbn [push_up] in Hpu. change (pushup_continue 0) with false in Hpu. cbv iota in Hpu. inversion Hpu; subst. assumption.
Qed.

End WithCmp.

(* ---- heapq.Sort: a sorted permutation, for every variant ---- *)
Lemma sort_drain_spec : forall (c : T -> T -> Z), total_preorder T c ->
  let rc := fun a b => - c a b in
  forall fuel q spill, qcmp q = rc -> heap_ok T rc (data q) -> Z.of_nat (length (data q)) < Z.of_nat fuel ->
    Sorted (fun a b => c a b <= 0) spill -> (forall y s, In y (data q) -> In s spill -> c y s <= 0) ->
    exists r, sort_drain T v fuel q spill = Ok r /\ Permutation r (data q ++ spill) /\ Sorted (fun a b => c a b <= 0) r.
Proof.
  intros c TPc rc. assert (TPr : total_preorder T rc) by (apply total_preorder_neg; assumption).
  induction fuel as [|f IH]; intros q spill Hq Hh Hf Hs Hx; [lia|].
  cbn [sort_drain]. unfold IsEmpty. destruct (len (data q) =? 0) eqn:E.
  - apply Z.eqb_eq in E. apply len_zero_nil in E. rewrite E. exists spill. split; [reflexivity|]. split; [apply Permutation_refl|assumption].
  - apply Z.eqb_neq in E. pose proof (len_nonneg T (data q)).
    unfold Pop, Pop_empty. destruct (len (data q) =? 0) eqn:E'; [apply Z.eqb_eq in E'; lia|]. change Pop_index with 0.
    destruct (pop_total T (qcmp q) v (data q) 0) as (l' & m & out & Hpop & Hg & Hp & _); [lia|].
    rewrite Hpop. cbn [bind].
    assert (Hh' : heap_ok T rc l') by (rewrite Hq in Hpop; eapply pop_root_heap; [exact TPr|exact Hh|lia|exact Hpop]).
    assert (Hmin : minimal T rc out (data q)) by (apply root_minimal; assumption).
    destruct (IH {| data := l'; qcmp := qcmp q |} (out :: spill)) as (r & Hr & Hpr & Hsr).
    + exact Hq.
    + exact Hh'.
    + cbn [data]. apply Permutation_length in Hp. cbn in Hp. lia.
    + constructor; [assumption|]. destruct spill as [|s t]; constructor. apply Hx; [eapply get_In; eassumption|left; reflexivity].
    + cbn [data]. intros y s Hy [<-|Hs'].
      * assert (Hy' : In y (data q)) by (eapply Permutation_in; [apply Permutation_sym; exact Hp|right; exact Hy]).
        specialize (Hmin y Hy'). unfold rc in Hmin. apply (cmp_ge_le T c TPc). lia.
      * apply Hx; [|assumption]. eapply Permutation_in; [apply Permutation_sym; exact Hp|right; exact Hy].
    + exists r. split; [exact Hr|]. split; [|assumption]. cbn [data] in Hpr.
      eapply perm_trans; [exact Hpr|]. eapply perm_trans; [apply Permutation_sym, Permutation_middle|].
      change (out :: l' ++ spill) with ((out :: l') ++ spill).
      apply Permutation_app_tail. apply Permutation_sym. exact Hp.
Qed.

Theorem sort_sorted_permutation : forall (c : T -> T -> Z) vs, total_preorder T c ->
  exists r, Sort T v c vs = Ok r /\ Permutation r vs /\ Sorted (fun a b => c a b <= 0) r.
Proof.
  intros c vs TPc. unfold Sort, sort_trivial. destruct (len vs <? 2) eqn:E.
  - apply Z.ltb_lt in E. exists vs. split; [reflexivity|]. split; [apply Permutation_refl|].
    destruct vs as [|a [|b t]]; [constructor|repeat constructor|]. unfold len in E. cbn in E. lia.
  - apply Z.ltb_ge in E.
    change (fun a b => sort_rcmp (c a b)) with (fun a b => - c a b).
    set (rc := fun a b => - c a b).
    assert (TPr : total_preorder T rc) by (apply total_preorder_neg; assumption).
    unfold NewWithData, heapify_start_new. pose proof (len_nonneg T vs) as Hlv.
    destruct (quot2_range (len vs) Hlv) as [Hq1 Hq2].
    destruct (heapify_loop_total T rc (S (S (length vs))) vs (Z.quot (len vs) 2)) as (l' & m & Heq & Hp & _).
    { lia. } { unfold len in *. lia. }
    change heapify_continue_new with (fun i => i >=? 0). change heapify_next_new with (fun i => i - 1).
    rewrite Heq. cbn [bind].
    assert (Hh : heap_ok T rc l').
    { eapply (heapify_loop_heap T rc TPr); [| |exact Heq]; [lia|]. apply heap_from_beyond. lia. }
    destruct (sort_drain_spec c TPc (S (length vs)) {| data := l'; qcmp := rc |} []) as (r & Hr & Hpr & Hsr).
    + reflexivity.
    + exact Hh.
    + cbn [data]. apply Permutation_length in Hp. lia.
    + constructor.
    + intros y s _ [].
    + exists r. split; [exact Hr|]. split; [|assumption]. cbn [data] in Hpr. rewrite app_nil_r in Hpr.
      eapply perm_trans; eassumption.
Qed.

(* ---- histories.  The invariant: the comparison satisfies its contract and the layout is a heap. *)
Definition inv (q : queue T) : Prop := total_preorder T (qcmp q) /\ heap_ok T (qcmp q) (data q).

Section Steps.
(* G: which ops are admitted.  The two places where an element may have to move towards the root
   are abstracted, so that the same history lemma serves every variant. *)
Variable G : queue T -> op T -> Prop.
Hypothesis G_wf : forall q o, G q o -> op_wf T o.
Hypothesis add_ok : forall q x l' m r, inv q -> G q (OAdd x) ->
  push_up T v (qcmp q) (S (length (data q ++ [x]))) (data q ++ [x]) (len (data q)) = Ok (l', m, r) ->
  heap_ok T (qcmp q) l'.
Hypothesis remove_ok : forall q i l' m out, inv q -> G q (ORemove i) -> 0 <= i < len (data q) ->
  pop T v (qcmp q) (data q) i = Ok (l', m, out) -> heap_ok T (qcmp q) l'.

Lemma step_inv : forall q o q' r m, inv q -> G q o -> step T v q o = Ok (q', (r, m)) ->
  min_answer T q o r m q' /\ inv q'.
Proof.
  intros q o q' r m [TPq Hh] Hg Hs. pose proof (G_wf q o Hg) as Hwf. pose proof (len_nonneg T (data q)) as Hlen.
  destruct (step_conserved T v q o) as (q2 & r2 & m2 & Hs2 & Hc & Hk & _).
  rewrite Hs in Hs2. inversion Hs2; subst q2 r2 m2. clear Hs2.
  destruct o; cbn [step] in Hs; cbn [cmp_kept] in Hk; cbn [op_wf] in Hwf.
  - (* Add *) split; [destruct r; exact I|]. unfold Add in Hs. rewrite get_app_last in Hs.
    change (0 <? add_ncalls_move) with true in Hs. change (0 <? add_ncalls_pushUp) with true in Hs. cbv iota in Hs.
    destruct (push_up T v (qcmp q) _ (data q ++ [x]) (len (data q))) as [[[l' m'] r']| |] eqn:Epu; cbn [bind] in Hs; try discriminate.
    inversion Hs; subst. unfold inv; cbn [data qcmp]. split; [assumption|]. eapply add_ok; [split; assumption|exact Hg|exact Epu].
  - (* Pop *) unfold Pop, Pop_empty in Hs. change Pop_index with 0 in Hs.
    destruct (len (data q) =? 0) eqn:E.
    + inversion Hs; subst. split; [exact I|split; assumption].
    + apply Z.eqb_neq in E.
      destruct (pop T v (qcmp q) (data q) 0) as [[[l' m'] out]| |] eqn:Epop; cbn [bind] in Hs; try discriminate.
      inversion Hs; subst. unfold conserved in Hc; cbv beta iota zeta in Hc. destruct Hc as [_ Hg0]. split.
      * cbn. apply root_minimal; assumption.
      * unfold inv; cbn [data qcmp]. split; [assumption|]. eapply pop_root_heap; [exact TPq|exact Hh|lia|exact Epop].
  - (* Remove *) unfold Remove, Remove_negative, Remove_beyond in Hs.
    destruct (i <? 0) eqn:E1; [inversion Hs; subst; split; [exact I|split; assumption]|]. apply Z.ltb_ge in E1.
    rewrite Z.geb_leb in Hs. destruct (len (data q) <=? i) eqn:E2; [inversion Hs; subst; split; [exact I|split; assumption]|].
    apply Z.leb_gt in E2.
    destruct (pop T v (qcmp q) (data q) i) as [[[l' m'] out]| |] eqn:Epop; cbn [bind] in Hs; try discriminate.
    inversion Hs; subst. split; [exact I|]. unfold inv; cbn [data qcmp]. split; [assumption|].
    eapply remove_ok; [split; assumption|exact Hg|lia|exact Epop].
  - (* Peek *) destruct (Peek T q i) as [pk| |]; cbn [bind] in Hs; try discriminate; inversion Hs; subst. split; [destruct pk; exact I|split; assumption].
  - (* Front *) unfold Front, Front_empty in Hs. change Front_index with 0 in Hs.
    destruct (len (data q) =? 0) eqn:E; cbn [bind] in Hs.
    + inversion Hs; subst. split; [exact I|split; assumption].
    + destruct (get (data q) 0) as [x|] eqn:Ex; cbn [bind] in Hs; [|discriminate]. inversion Hs; subst.
      split; [cbn; apply root_minimal; assumption|split; assumption].
  - (* Set *) unfold Set_, set_start in Hs.
    destruct (set_loop T (qcmp q) (S (length vs)) vs (len vs - 1)) as [[l' m']| |] eqn:Esl; cbn [bind] in Hs; try discriminate.
    inversion Hs; subst. split; [exact I|]. unfold inv; cbn [data qcmp]. split; [assumption|].
    pose proof (len_nonneg T vs). eapply (set_loop_heap T (qcmp q) TPq); [| |exact Esl]; [lia|].
    apply heap_from_beyond. lia.
  - (* Reorder *) unfold Reorder, heapify_start_reorder in Hs.
    change heapify_continue_reorder with (fun i => i >=? 0) in Hs. change heapify_next_reorder with (fun i => i - 1) in Hs.
    destruct (heapify_loop T c _ _ (S (S (length (data q)))) (data q) (Z.quot (len (data q)) 2)) as [[l' m']| |] eqn:Ehl;
      cbn [bind] in Hs; try discriminate.
    inversion Hs; subst. split; [exact I|]. unfold inv; cbn [data qcmp]. split; [assumption|].
    destruct (quot2_range (len (data q)) Hlen) as [Hq1 Hq2].
    eapply (heapify_loop_heap T c Hwf); [| |exact Ehl]; [lia|]. apply heap_from_beyond. lia.
  - (* Clear *) inversion Hs; subst. split; [exact I|]. unfold inv; cbn [data qcmp]. split; [assumption|apply heap_ok_nil].
  - (* New *) inversion Hs; subst. split; [exact I|]. unfold inv; cbn [data qcmp]. split; [assumption|apply heap_ok_nil].
  - (* NewWithData *) unfold NewWithData, heapify_start_new in Hs.
    change heapify_continue_new with (fun i => i >=? 0) in Hs. change heapify_next_new with (fun i => i - 1) in Hs.
    destruct (heapify_loop T c _ _ (S (S (length vs))) vs (Z.quot (len vs) 2)) as [[l' m']| |] eqn:Ehl;
      cbn [bind] in Hs; try discriminate.
    inversion Hs; subst. split; [exact I|]. unfold inv; cbn [data qcmp]. split; [assumption|].
    pose proof (len_nonneg T vs) as Hlv. destruct (quot2_range (len vs) Hlv) as [Hq1 Hq2].
    eapply (heapify_loop_heap T c Hwf); [| |exact Ehl]; [lia|]. apply heap_from_beyond. lia.
  - inversion Hs; subst. split; [exact I|split; assumption].
  - inversion Hs; subst. split; [exact I|split; assumption].
  - inversion Hs; subst. split; [exact I|split; assumption].
Qed.

Theorem hist_min : forall ops q, inv q -> hist T G (min_answer T) v q ops.
Proof.
  induction ops as [|o ops IH]; intros q Hi; cbn [hist]; [exact I|]. intros Hg.
  destruct (step_conserved T v q o) as (q' & r & m & Hs & _).
  destruct (step_inv q o q' r m Hi Hg Hs) as [Hm Hi'].
  exists q', r, m. split; [assumption|]. split; [assumption|apply IH; assumption].
Qed.

End Steps.

(* every variant: histories that only ever sift down *)
Theorem hist_min_down_only : forall ops q, inv q ->
  hist T (fun q o => op_wf T o /\ down_only T q o) (min_answer T) v q ops.
Proof.
  apply hist_min.
  - intros q o [H _]; exact H.
  - intros q x l' m r [TPq Hh] [_ Hd] Hpu. cbn in Hd. rewrite Hd in Hpu. cbn in Hpu.
    change (pushup_continue 0) with false in Hpu. cbv iota in Hpu. inversion Hpu; subst.
    apply heap_from_beyond. cbn. lia.
  - intros q i l' m out [TPq Hh] [_ Hd] Hi Hpop. cbn in Hd. assert (i = 0) by lia. subst i.
    eapply pop_root_heap; [exact TPq|exact Hh|lia|exact Hpop].
Qed.

End Ord.

(* ---- the pinned switches refute minimality: the F1 and F2 witnesses ---- *)
Definition zcmp (a b : Z) : Z := match Z.compare a b with Lt => -1 | Eq => 0 | Gt => 1 end.

Definition f1_history : list (op Z) :=
  [OAdd 8; OAdd 6; OAdd 7; OAdd 18; OPop; OAdd 18; OAdd 13; OAdd 19; OAdd 15; OPop; OPop].
Definition f2_history : list (op Z) := [OSet [1; 4; 2; 5; 6; 7; 3]; ORemove 3; OPop; OPop].

(* after the history, the queue holds d, and a further Pop answers y although z with z < y is in d *)
Definition pop_not_minimal (v : variant) (ops : list (op Z)) (y z : Z) : Prop :=
  exists d m, option_map (@data Z) (exec Z v (New Z zcmp) ops) = Some d /\
    last (run Z v (New Z zcmp) (ops ++ [OPop])) OutOfFuel = Ok (RVal (Some y), m) /\
    In z d /\ zcmp y z > 0.

Lemma f1_refutes : pop_not_minimal pinned f1_history 15 13.
Proof.
  exists [15; 13; 18; 18; 19], [(19, 0); (13, 0); (19, 1); (18, 1); (19, 3)].
  split; [vm_compute; reflexivity|]. split; [vm_compute; reflexivity|]. split; [cbn; auto 6|reflexivity].
Qed.

Lemma f2_refutes : pop_not_minimal pinned f2_history 4 3.
Proof.
  exists [4; 3; 7; 6], [(6, 0); (3, 0); (6, 1)].
  split; [vm_compute; reflexivity|]. split; [vm_compute; reflexivity|]. split; [cbn; auto 6|reflexivity].
Qed.

(* with the switches repaired the same histories are answered correctly *)
Lemma f1_repaired_ok : pop_values Z (run Z repaired (New Z zcmp) (f1_history ++ [OPop])) = [6; 7; 8; 13].
Proof. vm_compute. reflexivity. Qed.
Lemma f2_repaired_ok : pop_values Z (run Z repaired (New Z zcmp) (f2_history ++ [OPop])) = [5; 1; 2; 3].
Proof. vm_compute. reflexivity. Qed.

Lemma zcmp_total_preorder : total_preorder Z zcmp.
Proof.
  split.
  - intros a b. unfold zcmp. rewrite (Z.compare_antisym b a). destruct (b ?= a); reflexivity.
  - intros a b c. unfold zcmp.
    destruct (a ?= b) eqn:E1; destruct (b ?= c) eqn:E2; destruct (a ?= c) eqn:E3; try lia;
      try (apply Z.compare_eq in E1); try (apply Z.compare_eq in E2); try (apply Z.compare_eq in E3);
      rewrite ?Z.compare_lt_iff, ?Z.compare_gt_iff in *; lia.
Qed.
