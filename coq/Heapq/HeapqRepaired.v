(* heapq model, part 5 — with both switches repaired (pushUp's parent is (i-1)/2; pop sifts up as
   well as down) the heap invariant survives every Add and every Remove, so Front/Pop are minimal
   over all histories. *)
From Coq Require Import ZArith List Bool Lia Permutation Sorted.
Import ListNotations.
From Mds Require Import Gen.HeapqIdx Heapq.HeapqModel Heapq.HeapqSpec Heapq.HeapqArray Heapq.HeapqProofs
  Heapq.HeapqHeap Heapq.HeapqHist Heapq.HeapqOrder.
Local Open Scope Z_scope.

Section Rep.
Variable T : Type.
Variable v : variant.
Hypothesis Hv1 : parent_halves v = false.
Implicit Types l : list T.

Section WithCmp.
Variable cmp : T -> T -> Z.
Hypothesis TP : total_preorder T cmp.

(* pushUp at i repairs a heap whose only defect is the pair (parent i, i) *)
Lemma push_up_heap : forall fuel l i l' m r, 0 <= i ->
  (forall j c, 0 <= j -> child j c -> c <> i -> pair_ok T cmp l j c) ->
  (forall p c, child p i -> child i c -> pair_ok T cmp l p c) ->
  push_up T v cmp fuel l i = Ok (l', m, r) -> heap_ok T cmp l'.
Proof.
  induction fuel as [|f IH]; intros l i l' m r Hi Hex Hgr H; [discriminate|].
  cbn [push_up] in H. unfold pushup_continue in H. rewrite Z.gtb_ltb in H.
  destruct (0 <? i) eqn:E.
  2:{ apply Z.ltb_ge in E. assert (i = 0) by lia. subst i. inversion H; subst.
      intros j Hj c Hc. apply Hex; [assumption|assumption|unfold child in Hc; lia]. }
  apply Z.ltb_lt in E. pose proof (parent_range v i E) as Hpr.
  pose proof (parent_repaired_child v i Hv1 E) as Hpc. set (par := parent_of v i) in *.
  destruct (get l i) as [a|] eqn:Ha; [|discriminate]. destruct (get l par) as [b|] eqn:Hb; [|discriminate].
  destruct (pushup_break (cmp a b)) eqn:Eb; unfold pushup_break in Eb; rewrite Z.geb_leb in Eb.
  - apply Z.leb_le in Eb. assert (Hba : cmp b a <= 0) by (apply (cmp_ge_le T cmp TP); assumption).
    injection H as El Em Er. rewrite <- El. intros j Hj c Hc. destruct (Z.eq_dec c i) as [->|Hci].
    + assert (j = par) by (unfold child in *; lia). subst j. intros x0 y0 Hx0 Hy0.
      assert (x0 = b) by congruence. assert (y0 = a) by congruence. subst. assumption.
    + apply Hex; assumption.
  - apply Z.leb_gt in Eb. assert (Hne : i <> par) by lia.
    rewrite (swap_ok T l i par a b Hne Ha Hb) in H. cbn [bind] in H.
    destruct (push_up T v cmp f (upd (upd l i b) par a) par) as [[[l2 m2] r2]| |] eqn:Erec; cbn [bind] in H; try discriminate.
    inversion H; subst. eapply (IH _ par); [lia| | |exact Erec].
    + intros j c Hj Hc Hcp x0 y0 Hx0 Hy0.
      destruct (Z.eq_dec c i) as [->|Hci].
      * assert (j = par) by (unfold child in *; lia). subst j.
        rewrite get_swapped_j in Hx0 by assumption. rewrite get_swapped_i in Hy0 by assumption.
        inversion Hx0; inversion Hy0; subst. lia.
      * rewrite get_swapped_other in Hy0 by assumption.
        destruct (Z.eq_dec j i) as [->|Hji].
        -- rewrite get_swapped_i in Hx0 by assumption. inversion Hx0; subst x0.
           eapply (Hgr par c); eassumption.
        -- destruct (Z.eq_dec j par) as [->|Hjp].
           ++ rewrite get_swapped_j in Hx0 by assumption. inversion Hx0; subst x0.
              eapply (cmp_lt_le_trans T cmp TP); [exact Eb|]. eapply (Hex par c); eassumption.
           ++ rewrite get_swapped_other in Hx0 by assumption. eapply (Hex j c); eassumption.
    + intros p c Hp Hc x0 y0 Hx0 Hy0.
      pose proof (get_range _ _ _ _ Hx0) as Hrp.
      assert (Hpi : p <> i) by (unfold child in *; lia). assert (Hpp : p <> par) by (unfold child in *; lia).
      rewrite get_swapped_other in Hx0 by assumption.
      assert (Hpb : cmp x0 b <= 0).
      { eapply (Hex p par); [lia|exact Hp|lia|exact Hx0|exact Hb]. }
      destruct (Z.eq_dec c i) as [->|Hci].
      * rewrite get_swapped_i in Hy0 by assumption. inversion Hy0; subst. assumption.
      * assert (Hcp : c <> par) by (unfold child in *; lia).
        rewrite get_swapped_other in Hy0 by assumption.
        eapply (tp_trans TP); [exact Hpb|]. eapply (Hex par c); [lia|exact Hc|exact Hci|exact Hb|exact Hy0].
Qed.

(* on a valid heap whose last slot may be anything, pushUp of the last slot restores the heap *)
Lemma add_heap : forall l x l' m r, heap_ok T cmp l ->
  push_up T v cmp (S (length (l ++ [x]))) (l ++ [x]) (len l) = Ok (l', m, r) -> heap_ok T cmp l'.
Proof.
  intros l x l' m r Hh H. pose proof (len_nonneg T l). eapply push_up_heap; [| | |exact H]; [lia| |].
  - intros j c Hj Hc Hne x0 y0 Hx0 Hy0.
    assert (Hc' : c < len l).
    { apply get_range in Hy0. rewrite len_app in Hy0. cbn in Hy0. lia. }
    rewrite get_app_left in Hy0 by assumption. rewrite get_app_left in Hx0 by (unfold child in Hc; lia).
    eapply (Hh j); eassumption.
  - intros p c Hp Hc x0 y0 Hx0 Hy0. apply get_range in Hy0. rewrite len_app in Hy0. cbn in Hy0. unfold child in Hc. lia.
Qed.

Hypothesis Hv2 : pop_no_siftup v = false.

Lemma pop_heap : forall l i l' m out, heap_ok T cmp l -> 0 <= i < len l ->
  pop T v cmp l i = Ok (l', m, out) -> heap_ok T cmp l'.
Proof.
  intros l i l' m out Hh Hi H. destruct (Z.eq_dec (len l) 1) as [E1|E1].
  - rewrite (pop_single_nil T v cmp l i l' m out) by assumption. apply heap_ok_nil; assumption.
  - destruct (pop_shape T v cmp l i l' m out Hi E1 H) as (l2 & last & l3 & m1 & j & Hlast & Hl2 & Hfr & Hi1 & Hi2 & Hpd & Hend).
    set (n := len l - 1) in *.
    destruct (get_some T l i Hi) as [oi Hoi].
    (* what l2 holds away from i comes from l *)
    assert (Hfrom : forall k y, k <> i -> get l2 k = Some y -> get l k = Some y).
    { intros k y Hk Hg. rewrite Hfr in Hg by assumption. destruct (k <? n); [assumption|discriminate]. }
    (* pairs not touching i are in order *)
    assert (Hpairs : forall j0 c, 0 <= j0 -> child j0 c -> j0 <> i -> c <> i -> pair_ok T cmp l2 j0 c).
    { intros j0 c Hj0 Hc Hji Hci x0 y0 Hx0 Hy0. eapply (Hh j0); [lia|exact Hc|apply Hfrom; assumption|apply Hfrom; assumption]. }
    (* everything below i is above the old element at i, which is above i's parent *)
    assert (Hgrand : forall p c, child p i -> child i c -> pair_ok T cmp l2 p c).
    { intros p c Hp Hc x0 y0 Hx0 Hy0. pose proof (get_range _ _ _ _ Hx0).
      apply Hfrom in Hx0; [|unfold child in *; lia]. apply Hfrom in Hy0; [|unfold child in *; lia].
      eapply (tp_trans TP); [eapply (Hh p); [lia|exact Hp|exact Hx0|exact Hoi]|eapply (Hh i); [lia|exact Hc|exact Hoi|exact Hy0]]. }
    destruct (Z_lt_dec i n) as [Hin|Hin].
    2:{ (* the last slot was removed: l2 is a prefix of l *)
      assert (H3 : heap_ok T cmp l3).
      { eapply (push_down_heap T cmp TP l2 i 0); [lia|lia| |intros p c _; apply Hgrand|exact Hpd].
        intros j0 Hj0 Hne c Hc. destruct (Z.eq_dec c i) as [->|Hci].
        - intros x0 y0 _ Hy0. rewrite Hi2 in Hy0 by lia. discriminate.
        - apply Hpairs; assumption. }
      destruct Hend as [[-> _]|(_ & Hlt & _)]; [assumption|lia]. }
    specialize (Hi1 Hin).
    (* does the moved element belong above i's parent? *)
    assert (Hcase : (forall p xp, child p i -> get l p = Some xp -> cmp xp last <= 0) \/
                    (exists p xp, child p i /\ get l p = Some xp /\ cmp last xp < 0)).
    { destruct (Z.eq_dec i 0) as [->|Hi0].
      - left. intros p xp Hp Hg. apply get_range in Hg. unfold child in Hp. lia.
      - set (p := (i - 1) / 2).
        assert (Hp : child p i /\ 0 <= p < i).
        { unfold child, p. pose proof (Z.div_mod (i - 1) 2). pose proof (Z.mod_pos_bound (i - 1) 2). lia. }
        destruct Hp as [Hpc Hpr]. destruct (get_some T l p) as [xp Hxp]; [lia|].
        destruct (Z_lt_dec (cmp last xp) 0) as [Hlt|Hge].
        + right. exists p, xp. auto.
        + left. intros p' xp' Hp' Hg'. assert (p' = p) by (unfold child in *; lia). subst p'.
          assert (xp' = xp) by congruence. subst. apply (cmp_ge_le T cmp TP). lia. }
    destruct Hcase as [Hup|(p & xp & Hpc & Hxp & Hlt)].
    + (* pushDown restores the heap; a following pushUp keeps it *)
      assert (H3 : heap_ok T cmp l3).
      { eapply (push_down_heap T cmp TP l2 i 0); [lia|lia| |intros p c _; apply Hgrand|exact Hpd].
        intros j0 Hj0 Hne c Hc. destruct (Z.eq_dec c i) as [->|Hci].
        - intros x0 y0 Hx0 Hy0. rewrite Hi1 in Hy0. inversion Hy0; subst y0.
          apply (Hup j0); [exact Hc|apply Hfrom; assumption].
        - apply Hpairs; assumption. }
      destruct Hend as [[-> _]|(_ & _ & m2 & r & Hpu)]; [assumption|].
      eapply push_up_heap; [| | |exact Hpu]; [lia| |].
      * intros j0 c Hj0 Hc _. apply (H3 j0); assumption.
      * intros p c Hp Hc x0 y0 Hx0 Hy0. pose proof (get_range _ _ _ _ Hx0). pose proof (get_range _ _ _ _ Hy0).
        destruct (get_some T l3 i) as [z Hz]; [unfold child in *; lia|].
        eapply (tp_trans TP); [eapply (H3 p); [lia|exact Hp|exact Hx0|exact Hz]|eapply (H3 i); [lia|exact Hc|exact Hz|exact Hy0]].
    + (* the moved element is smaller than i's parent: nothing below i is smaller, pushDown leaves
         it where it is, and pushUp carries it up *)
      assert (Hbelow : forall c y, child i c -> get l2 c = Some y -> cmp last y <= 0).
      { intros c y Hc Hy. apply Hfrom in Hy; [|unfold child in Hc; lia].
        eapply (cmp_lt_le_trans T cmp TP); [exact Hlt|].
        eapply (tp_trans TP); [eapply (Hh p); [apply get_range in Hxp; lia|exact Hpc|exact Hxp|exact Hoi]|
                               eapply (Hh i); [lia|exact Hc|exact Hoi|exact Hy]]. }
      assert (Hstay : l3 = l2 /\ j = i).
      { unfold push_down in Hpd. rewrite push_down_loop_eq in Hpd.
        destruct (pd_choice_spec T cmp TP l2 i) as [[Hc _]|(c & xm & xi & Hc & Hch & Hgm & Hgi & Hlt' & _)]; [lia| |].
        - rewrite Hc in Hpd. cbn [bind] in Hpd. inversion Hpd; auto.
        - exfalso. rewrite Hi1 in Hgi. inversion Hgi; subst xi. specialize (Hbelow c xm Hch Hgm).
          apply (cmp_ge_le T cmp TP) in Hbelow. lia. }
      destruct Hstay as [-> ->].
      destruct Hend as [[_ [Hc|[Hc|Hc]]]|(_ & _ & m2 & r & Hpu)]; [congruence|congruence|lia|].
      eapply push_up_heap; [| | |exact Hpu]; [lia| |].
      * intros j0 c Hj0 Hc Hci. destruct (Z.eq_dec j0 i) as [->|Hji].
        -- intros x0 y0 Hx0 Hy0. rewrite Hi1 in Hx0. inversion Hx0; subst x0. eapply Hbelow; eassumption.
        -- apply Hpairs; assumption.
      * exact Hgrand.
Qed.

End WithCmp.

Hypothesis Hv2 : pop_no_siftup v = false.

(* C05, order, full strength under the repaired switches *)
Theorem hist_min_repaired : forall ops q, inv T q -> hist T (fun _ o => op_wf T o) (min_answer T) v q ops.
Proof.
  apply (hist_min T v (fun _ o => op_wf T o)).
  - intros q o H; exact H.
  - intros q x l' m r [TPq Hh] _ Hpu. eapply add_heap; eassumption.
  - intros q i l' m out [TPq Hh] _ Hi Hpop. eapply pop_heap; eassumption.
Qed.

(* hence a drain is non-decreasing *)
Theorem drain_sorted : forall n q, inv T q ->
  Sorted (fun a b => qcmp q a b <= 0) (pop_values T (run T v q (repeat OPop n))).
Proof.
  induction n as [|n IH]; intros q Hq; cbn [repeat run pop_values]; [constructor|].
  destruct (step_conserved T v q OPop) as (q' & r & m & Hs & Hc & Hk & _). rewrite Hs.
  destruct (step_inv T v (fun _ o => op_wf T o) (fun q o H => H)
              (fun q x l' m r Hi _ H => add_heap (qcmp q) (proj1 Hi) (data q) x l' m r (proj2 Hi) H)
              (fun q i l' m out Hi _ Hr H => pop_heap (qcmp q) (proj1 Hi) Hv2 (data q) i l' m out (proj2 Hi) Hr H)
              q OPop q' r m Hq I Hs) as [Hmin Hq'].
  cbn [cmp_kept] in Hk. specialize (IH q' Hq'). rewrite Hk in IH.
  unfold conserved in Hc; cbv beta iota zeta in Hc.
  destruct r as [| [y|] | | | | |]; try contradiction; cbn [pop_values]; [|exact IH].
  constructor; [exact IH|].
  destruct (pop_values T (run T v q' (repeat OPop n))) as [|z t] eqn:Ez; constructor.
  (* z was held in q' hence in q *)
  cbn in Hmin. apply Hmin. destruct Hc as [Hp _].
  assert (Hz : In z (data q')).
  { destruct n as [|n']; cbn [repeat run] in Ez; [discriminate|].
    destruct (step_conserved T v q' OPop) as (q2 & r2 & m2 & Hs2 & Hc2 & _). rewrite Hs2 in Ez.
    unfold conserved in Hc2; cbv beta iota zeta in Hc2.
    destruct r2 as [| [y2|] | | | | |]; try contradiction; cbn [pop_values] in Ez.
    - inversion Ez; subst. destruct Hc2 as [_ Hg]. eapply get_In; eassumption.
    - destruct Hc2 as [_ Hnil]. exfalso. clear -Ez Hnil Hs2.
      assert (Hall : forall k q3, data q3 = [] -> pop_values T (run T v q3 (repeat OPop k)) = []).
      { induction k as [|k IHk]; intros q3 Hd; cbn [repeat run pop_values]; [reflexivity|].
        destruct (step_conserved T v q3 OPop) as (q4 & r4 & m4 & Hs4 & Hc4 & _). rewrite Hs4.
        unfold conserved in Hc4; cbv beta iota zeta in Hc4. rewrite Hd in Hc4.
        destruct r4 as [| [y4|] | | | | |]; try contradiction; cbn [pop_values].
        - destruct Hc4 as [Hp4 _]. apply Permutation_nil_cons in Hp4. contradiction.
        - apply IHk. destruct Hc4; assumption. }
      rewrite (Hall n' q2 Hnil) in Ez. discriminate. }
  eapply Permutation_in; [apply Permutation_sym; exact Hp|right; exact Hz].
Qed.

End Rep.
