(* New and Of build exactly one fresh cycle; then the refinement theorem over histories. *)
From Coq Require Import ZArith List Bool Arith Lia Permutation.
Import ListNotations.
From Mds Require Import Gen.RingIdx Ring.RingBase Ring.RingPlain Ring.RingSpec Ring.RingProofsBase Ring.RingProofsRep Ring.RingProofsObs Ring.RingProofsOps.

Section NewSec.
Variable T : Type.
Variable zero : T.
Notation heap := (heap T).
Notation nx := (nx T).
Notation pv := (pv T).
Notation vl := (vl T).
Notation path := (path T).
Notation cyc := (cyc T).
Notation Rep := (Rep T).
Notation setn := (setn T).
Notation setp := (setp T).
Notation setv := (setv T).
Notation spliced := (spliced T).
Notation sim := (sim T).

Ltac sz := repeat (first [rewrite size_setn | rewrite size_setp | rewrite size_setv]); assumption.
Ltac mstep lem := repeat rewrite bind_bind; erewrite bind_ok by (apply lem; sz); cbv beta.

Lemma cyc_ext : forall (h h' : heap) c, cyc h c ->
  (forall x, In x c -> nx h' x = nx h x /\ pv h' x = pv h x) -> cyc h' c.
Proof.
  intros h h' [|a t] Hc Hs; [exact Hc|]. unfold cyc in *. apply (path_same T h h' _ Hc).
  intros x Hx. apply Hs. destruct Hx as [->|Hx]; [left; reflexivity|].
  apply in_app_or in Hx. destruct Hx as [Hx|[->|[]]]; [right; exact Hx|left; reflexivity].
Qed.

(* ---- allocation ---- *)
Lemma lookup_app_old : forall (h : heap) c x, x < size h -> lookup (h ++ [c]) x = lookup h x.
Proof. intros. unfold lookup. apply nth_error_app1. exact H. Qed.
Lemma lookup_app_new : forall (h : heap) c, lookup (h ++ [c]) (size h) = Some c.
Proof. intros. unfold lookup, size. rewrite nth_error_app2 by lia. rewrite Nat.sub_diag. reflexivity. Qed.

Lemma new_ring_spec : forall (h : heap), exists h3,
  new_ring T zero h = (h3, Ok (Some (size h))) /\ size h3 = S (size h) /\
  (forall x, x < size h -> nx h3 x = nx h x /\ pv h3 x = pv h x /\ vl h3 x = vl h x) /\
  nx h3 (size h) = Some (size h) /\ pv h3 (size h) = Some (size h) /\ vl h3 (size h) = Some zero.
Proof.
  intro h. set (e := size h). set (h1 := h ++ [mkCell zero None None]).
  assert (Hs1 : size h1 = S e) by (unfold h1, size, e; rewrite app_length; cbn; unfold size; lia).
  assert (He1 : e < size h1) by lia.
  exists (setp (setn h1 e (Some e)) e (Some e)).
  split; [|split; [|split; [|split; [|split]]]].
  - unfold new_ring. erewrite bind_ok by reflexivity. fold h1. fold e.
    mstep set_next_ok. mstep set_prev_ok. reflexivity.
  - rewrite size_setp, size_setn. exact Hs1.
  - intros x Hx. assert (Hne : x <> e) by lia.
    rewrite nx_setp by sz. rewrite nx_setn by sz. rewrite pv_setp by sz. rewrite pv_setn by sz.
    rewrite vl_setp by sz. rewrite vl_setn by sz.
    rewrite (proj2 (Nat.eqb_neq x e)) by assumption.
    unfold RingProofsBase.nx, RingProofsBase.pv, RingProofsBase.vl, h1.
    rewrite lookup_app_old by exact Hx. auto.
  - rewrite nx_setp by sz. rewrite nx_setn by sz. rewrite Nat.eqb_refl. reflexivity.
  - rewrite pv_setp by sz. rewrite Nat.eqb_refl. reflexivity.
  - rewrite vl_setp by sz. rewrite vl_setn by sz. unfold RingProofsBase.vl, h1, e.
    rewrite lookup_app_new. reflexivity.
Qed.

(* ---- the loop of New ---- *)
Lemma new_loop_spec : forall m (h : heap) (r : addr) A n fuel,
  n = (Z.of_nat m + 1)%Z -> m <= fuel ->
  cyc h (r :: A) -> NoDup (r :: A) -> (forall x, In x (r :: A) -> x < size h) ->
  exists h', new_loop T zero fuel (Some r) n h = (h', Ok tt) /\ size h' = size h + m /\
    cyc h' (r :: rev (seq (size h) m) ++ A) /\
    (forall c, cyc h c -> (forall x, In x c -> x < size h) -> (forall x, In x c -> ~ In x (r :: A)) -> cyc h' c) /\
    (forall x, x < size h -> vl h' x = vl h x) /\
    (forall x, size h <= x < size h' -> vl h' x = Some zero).
Proof.
  induction m as [|m IH]; intros h r A n fuel Hn Hf Hc Hnd Hlt.
  - exists h. subst n. split.
    + destruct fuel; reflexivity.
    + split; [lia|]. split; [exact Hc|]. split; [auto|]. split; [auto|]. intros x Hx. lia.
  - destruct fuel as [|fuel]; [lia|]. cbn [new_loop].
    assert (Hmore : new_more n = true) by (unfold new_more; apply Z.gtb_lt; lia).
    rewrite Hmore.
    destruct (new_ring_spec h) as [h3 [Hnr [Hs3 [Hold [Hne [Hpe Hve]]]]]].
    set (e := size h) in *.
    assert (Hr : r < e) by (apply Hlt; left; reflexivity).
    assert (Hre : r <> e) by lia.
    assert (Hnx : nx h r = Some (hd r A)) by (apply (cyc_nx T); exact Hc).
    set (rn := hd r A) in *.
    assert (Hrnin : In rn (r :: A)) by apply in_hd.
    assert (Hrn : rn < e) by (apply Hlt; exact Hrnin).
    assert (Hrne : rn <> e) by lia.
    assert (Hr3 : r < size h3) by lia. assert (He3 : e < size h3) by lia. assert (Hrn3 : rn < size h3) by lia.
    assert (Hnx3 : nx h3 r = Some rn) by (rewrite (proj1 (Hold r Hr)); exact Hnx).
    erewrite bind_ok by exact Hnr.
    mstep get_next_ok. rewrite Hnx3. mstep set_next_ok.
    mstep get_next_ok. rewrite nx_setn by sz. rewrite (proj2 (Nat.eqb_neq r e)) by assumption. rewrite Hnx3.
    mstep set_prev_ok. mstep set_prev_ok. mstep set_next_ok.
    set (h7 := setn (setp (setp (setn h3 e (Some rn)) rn (Some e)) e (Some r)) r (Some e)).
    assert (Hs7 : size h7 = S e) by (unfold h7; rewrite size_setn, !size_setp, size_setn; exact Hs3).
    assert (Hv7 : forall x, vl h7 x = vl h3 x).
    { intro x. unfold h7. rewrite vl_setn by sz. rewrite vl_setp by sz. rewrite vl_setp by sz. rewrite vl_setn by sz. reflexivity. }
    assert (HS : spliced h3 h7 r e rn e).
    { constructor; intro x; unfold h7.
      - rewrite nx_setn by sz. rewrite nx_setp by sz. rewrite nx_setp by sz. rewrite nx_setn by sz.
        destruct (Nat.eqb_spec x r); destruct (Nat.eqb_spec x e); try reflexivity. lia.
      - rewrite pv_setn by sz. rewrite pv_setp by sz. rewrite pv_setp by sz. rewrite pv_setn by sz.
        destruct (Nat.eqb_spec x rn); destruct (Nat.eqb_spec x e); try reflexivity. lia. }
    assert (Hc3 : cyc h3 (r :: A)).
    { apply (cyc_ext h h3 _ Hc). intros x Hx. destruct (Hold x (Hlt x Hx)) as [H1 [H2 _]]. auto. }
    assert (Hce : cyc h3 [e]) by (cbn; unfold link; auto).
    assert (Hnde : NoDup ((r :: A) ++ [e])).
    { apply nodup_snoc. constructor; [|exact Hnd]. intro Hi. apply Hlt in Hi. lia. }
    assert (HS' : spliced h3 h7 r e (hd r A) (last [] e)) by exact HS.
    pose proof (splice_diff T h3 h7 r e A [] HS' Hc3 Hce Hnde) as C7. cbn [app] in C7.
    destruct (IH h7 r (e :: A) (new_dec n) fuel) as [h' [Hrun [Hs' [Hc' [Hoth [Hvo Hvn]]]]]].
    + unfold new_dec. lia.
    + lia.
    + exact C7.
    + inversion Hnd as [|? ? Hra HndA]; subst. constructor.
      * intros [Hx|Hx]; [lia|contradiction].
      * constructor; [|exact HndA]. intro Hi. assert (e < e) by (apply Hlt; right; exact Hi). lia.
    + intros x [<-|[<-|Hx]]; [lia|lia|]. rewrite Hs7. assert (x < e) by (apply Hlt; right; exact Hx). lia.
    + exists h'. split; [exact Hrun|]. split; [lia|]. split; [|split; [|split]].
      * rewrite Hs7 in Hc'. cbn [seq rev]. rewrite <- app_assoc. exact Hc'.
      * intros c Hcc Hclt Hcdis. apply Hoth.
        -- apply (spliced_other T h3 h7 r e rn e c HS).
           ++ apply (cyc_ext h h3 _ Hcc). intros x Hx. destruct (Hold x (Hclt x Hx)) as [H1 [H2 _]]. auto.
           ++ intro Hi. apply (Hcdis r Hi). left; reflexivity.
           ++ intro Hi. apply Hclt in Hi. lia.
           ++ intro Hi. apply (Hcdis rn Hi). exact Hrnin.
           ++ intro Hi. apply Hclt in Hi. lia.
        -- intros x Hx. rewrite Hs7. apply Hclt in Hx. lia.
        -- intros x Hx [Hy|[Hy|Hy]].
           ++ apply (Hcdis x Hx). left. exact Hy.
           ++ apply Hclt in Hx. lia.
           ++ apply (Hcdis x Hx). right. exact Hy.
      * intros x Hx. rewrite Hvo by lia. rewrite Hv7. apply (Hold x Hx).
      * intros x Hx. destruct (Nat.eq_dec x e) as [->|Hxe].
        -- rewrite Hvo by lia. rewrite Hv7. exact Hve.
        -- apply Hvn. lia.
Qed.

Lemma fresh_cycle_perm : forall k n, Permutation (fresh_cycle k n) (seq k n).
Proof.
  intros k [|m]; [constructor|]. cbn [fresh_cycle seq]. apply perm_skip. apply Permutation_sym. apply Permutation_rev.
Qed.

Lemma new_spec : forall (h : heap) st n, Rep h st -> (0 < n)%Z ->
  exists h', new T zero n h = (h', Ok (Some (size h))) /\ size h' = size h + Z.to_nat n /\
    cyc h' (fresh_cycle (size h) (Z.to_nat n)) /\ Forall (cyc h') (cycles st) /\
    (forall x, x < size h -> vl h' x = vl h x) /\
    (forall x, size h <= x < size h' -> vl h' x = Some zero).
Proof.
  intros h st n R Hn. unfold new.
  assert (Hnp : new_nonpos n = false) by (unfold new_nonpos; apply Z.leb_gt; lia). rewrite Hnp.
  destruct (new_ring_spec h) as [h3 [Hnr [Hs3 [Hold [Hne [Hpe Hve]]]]]].
  set (e := size h) in *.
  destruct (Z.to_nat n) as [|m] eqn:Em; [lia|].
  destruct (new_loop_spec m h3 e [] n (S m)) as [h' [Hrun [Hs' [Hc' [Hoth [Hvo Hvn]]]]]].
  - lia.
  - lia.
  - cbn. unfold link. auto.
  - constructor; [intros []|constructor].
  - intros x [<-|[]]. lia.
  - exists h'. erewrite bind_ok by exact Hnr. erewrite bind_ok by exact Hrun.
    split; [reflexivity|]. split; [lia|]. split; [|split; [|split]].
    + rewrite Hs3, app_nil_r in Hc'. exact Hc'.
    + pose proof (rep_cyc _ _ _ R) as HF. rewrite Forall_forall in *. intros c Hc.
      assert (Hclt : forall x, In x c -> x < e).
      { intros x Hx. apply (rep_in_lt T h st x R). apply in_concat. exists c. split; assumption. }
      apply Hoth.
      * apply (cyc_ext h h3 _ (HF c Hc)). intros x Hx. destruct (Hold x (Hclt x Hx)) as [H1 [H2 _]]. auto.
      * intros x Hx. apply Hclt in Hx. lia.
      * intros x Hx [Hy|[]]. apply Hclt in Hx. lia.
    + intros x Hx. rewrite Hvo by lia. apply (Hold x Hx).
    + intros x Hx. destruct (Nat.eq_dec x e) as [->|Hxe].
      * rewrite Hvo by lia. exact Hve.
      * apply Hvn. lia.
Qed.

(* ---- assign ---- *)
Lemma assign_notin : forall (l : list (addr * T)) f x, ~ In x (map fst l) -> assign f l x = f x.
Proof.
  induction l as [|[a v] l IH]; intros f x Hni; [reflexivity|]. cbn [assign]. rewrite IH.
  - destruct (Nat.eqb_spec x a) as [->|]; [|reflexivity]. exfalso. apply Hni. left. reflexivity.
  - intro Hi. apply Hni. right. exact Hi.
Qed.

Lemma assign_in_const : forall (l : list (addr * T)) f x z,
  (forall p, In p l -> snd p = z) -> In x (map fst l) -> assign f l x = z.
Proof.
  induction l as [|[a v] l IH]; intros f x z Hz Hi; [destruct Hi|]. cbn [assign].
  destruct (in_dec Nat.eq_dec x (map fst l)) as [Hin|Hnin].
  - apply IH; [|exact Hin]. intros p Hp. apply Hz. right. exact Hp.
  - rewrite assign_notin by exact Hnin. destruct Hi as [Hi|Hi]; [|contradiction]. cbn in Hi. subst a.
    rewrite Nat.eqb_refl. apply (Hz (x, v)). left. reflexivity.
Qed.

Lemma assign_agree : forall (l : list (addr * T)) f g x,
  In x (map fst l) \/ f x = g x -> assign f l x = assign g l x.
Proof.
  induction l as [|[a v] l IH]; intros f g x H; cbn [assign].
  - destruct H as [[]|H]. exact H.
  - apply IH. destruct H as [[Hx|Hx]|Hx].
    + cbn in Hx. subst a. right. rewrite Nat.eqb_refl. reflexivity.
    + left. exact Hx.
    + right. rewrite Hx. reflexivity.
Qed.

Lemma map_fst_combine : forall (l : list addr) (vs : list T), length l = length vs -> map fst (combine l vs) = l.
Proof.
  induction l as [|a l IH]; intros [|v vs] H; cbn in *; try discriminate; [reflexivity|].
  f_equal. apply IH. lia.
Qed.

Lemma fresh_cycle_length : forall k n, length (fresh_cycle k n) = n.
Proof. intros k [|m]; [reflexivity|]. cbn. rewrite rev_length, seq_length. reflexivity. Qed.

Lemma fresh_cycle_in : forall k n x, In x (fresh_cycle k n) <-> k <= x < k + n.
Proof.
  intros k n x. split; intro H.
  - apply (Permutation_in _ (fresh_cycle_perm k n)) in H. apply in_seq in H. exact H.
  - apply (Permutation_in _ (Permutation_sym (fresh_cycle_perm k n))). apply in_seq. exact H.
Qed.

Lemma make_perm : forall (cs : list (list addr)) k n,
  Permutation (concat cs) (seq 0 k) -> Permutation (concat (fresh_cycle k n :: cs)) (seq 0 (k + n)).
Proof.
  intros cs k n P. cbn [concat]. rewrite seq_app. cbn [plus].
  eapply perm_trans; [apply Permutation_app_comm|]. apply Permutation_app; [exact P|apply fresh_cycle_perm].
Qed.

Lemma new_sim : forall h st n, Rep h st -> sim (to_out RPtr (new T zero n h)) (a_new T zero st n).
Proof.
  intros h st n R. unfold a_new, a_make.
  destruct (Z.leb_spec n 0) as [Hle|Hgt].
  - unfold new. assert (Hnp : new_nonpos n = true) by (unfold new_nonpos; apply Z.leb_le; lia). rewrite Hnp.
    replace (Z.to_nat n) with 0 by lia. split; [reflexivity|exact R].
  - destruct (new_spec h st n R Hgt) as [h' [Hrun [Hs' [Hc' [HF [Hvo Hvn]]]]]]. rewrite Hrun.
    destruct (Z.to_nat n) as [|m] eqn:Em; [lia|]. cbn [repeat].
    change (zero :: repeat zero m) with (repeat zero (S m)). rewrite repeat_length.
    rewrite (rep_count _ _ _ R). split; [reflexivity|]. cbn [fst to_out].
    constructor; cbn [acount cycles avals].
    + lia.
    + rewrite Hs'. apply make_perm. exact (rep_perm _ _ _ R).
    + constructor; assumption.
    + intros x Hx. destruct (Nat.lt_ge_cases x (size h)) as [Hlt|Hge].
      * rewrite Hvo by exact Hlt. rewrite (rep_val _ _ _ R x Hlt). f_equal. symmetry. apply assign_notin.
        rewrite map_fst_combine by (rewrite fresh_cycle_length, repeat_length; reflexivity).
        intro Hi. apply fresh_cycle_in in Hi. lia.
      * rewrite Hvn by lia. f_equal. symmetry. apply assign_in_const.
        -- intros [a v] Hp. apply in_combine_r in Hp. apply repeat_spec in Hp. exact Hp.
        -- rewrite map_fst_combine by (rewrite fresh_cycle_length, repeat_length; reflexivity).
           apply fresh_cycle_in. lia.
Qed.

(* ---- the loop of Of ---- *)
Lemma fpath_ext : forall (f g : addr -> ptr) l, (forall x, f x = g x) -> fpath f l -> fpath g l.
Proof.
  intros f g l Hfg. induction l as [|a l IH]; intros H; [exact I|].
  destruct l as [|b l]; [exact I|]. destruct H as [H1 H2]. split; [rewrite <- Hfg; exact H1|apply IH; exact H2].
Qed.

Lemma of_loop_spec : forall (l : list addr) vs (h : heap) f z,
  length l = length vs -> fpath (nx h) (l ++ [z]) -> (forall x, In x l -> x < size h) ->
  (forall x, x < size h -> vl h x = Some (f x)) ->
  exists h', of_loop vs (Some (hd z l)) h = (h', Ok tt) /\ size h' = size h /\
    (forall x, nx h' x = nx h x) /\ (forall x, pv h' x = pv h x) /\
    (forall x, x < size h -> vl h' x = Some (assign f (combine l vs) x)).
Proof.
  induction l as [|a l IH]; intros [|v vs] h f z Hlen Hp Hlt Hv; cbn in Hlen; try discriminate.
  - exists h. cbn. auto.
  - assert (Ha : a < size h) by (apply Hlt; left; reflexivity).
    cbn [of_loop hd]. mstep set_val_ok. mstep get_next_ok.
    rewrite nx_setv by sz.
    assert (Hnx : nx h a = Some (hd z l)).
    { cbn [app] in Hp. destruct (l ++ [z]) as [|p P] eqn:E; [destruct l; discriminate|].
      destruct Hp as [Hp _]. rewrite Hp. f_equal. rewrite <- (hd_snoc l z z). rewrite E. reflexivity. }
    rewrite Hnx.
    destruct (IH vs (setv h a v) (fun x => if Nat.eqb x a then v else f x) z) as [h' [Hrun [Hs [Hn [Hpv' Hv']]]]].
    + lia.
    + apply (fpath_ext (nx h)); [intro x; symmetry; apply nx_setv; exact Ha|].
      cbn [app] in Hp. destruct (l ++ [z]) as [|p P]; [exact I|]. destruct Hp as [_ Hp]. exact Hp.
    + intros x Hx. rewrite size_setv. apply Hlt. right. exact Hx.
    + intros x Hx. rewrite size_setv in Hx. rewrite vl_setv by exact Ha.
      destruct (Nat.eqb x a); [reflexivity|apply Hv; exact Hx].
    + exists h'. split; [exact Hrun|]. rewrite size_setv in *. split; [exact Hs|]. split; [|split].
      * intro x. rewrite Hn. apply nx_setv. exact Ha.
      * intro x. rewrite Hpv'. apply pv_setv. exact Ha.
      * intros x Hx. cbn [combine assign]. apply Hv'. exact Hx.
Qed.

Lemma of_sim : forall h st vs, Rep h st -> sim (to_out RPtr (of T zero vs h)) (a_of T st vs).
Proof.
  intros h st vs R. unfold a_of, a_make, of, of_len.
  destruct vs as [|v0 vs0].
  - cbn [length Z.of_nat]. unfold new. cbn. split; [reflexivity|exact R].
  - set (vs := v0 :: vs0) in *.
    assert (Hgt : (0 < Z.of_nat (length vs))%Z) by (unfold vs; cbn [length]; lia).
    destruct (new_spec h st _ R Hgt) as [h' [Hrun [Hs' [Hc' [HF [Hvo Hvn]]]]]].
    rewrite Nat2Z.id in *. set (k := size h) in *. set (c := fresh_cycle k (length vs)) in *.
    erewrite bind_ok by exact Hrun.
    assert (Hcl : length c = length vs) by apply fresh_cycle_length.
    assert (Ec : exists t, c = k :: t) by (unfold c, vs; cbn [length fresh_cycle]; eexists; reflexivity).
    destruct Ec as [t Ec].
    set (f0 := fun x => if Nat.ltb x k then avals st x else zero).
    destruct (of_loop_spec c vs h' f0 k Hcl) as [h'' [Hrun2 [Hs'' [Hn [Hp Hv]]]]].
    + rewrite Ec in *. apply (cyc_fwd T). exact Hc'.
    + intros x Hx. apply fresh_cycle_in in Hx. lia.
    + intros x Hx. unfold f0. destruct (Nat.ltb_spec x k) as [Hlt|Hge].
      * rewrite Hvo by exact Hlt. apply (rep_val _ _ _ R). exact Hlt.
      * apply Hvn. lia.
    + replace (hd k c) with k in Hrun2 by (rewrite Ec; reflexivity).
      erewrite bind_ok by exact Hrun2. unfold ret. cbn [to_out].
      rewrite (rep_count _ _ _ R). split; [reflexivity|]. cbn [fst].
      constructor; cbn [acount cycles avals].
      * fold k. lia.
      * rewrite Hs'', Hs'. apply make_perm. exact (rep_perm _ _ _ R).
      * constructor.
        -- apply (cyc_ext h' h'' _ Hc'). intros x _. auto.
        -- rewrite Forall_forall in *. intros c1 Hc1. apply (cyc_ext h' h'' _ (HF c1 Hc1)). intros x _. auto.
      * intros x Hx. rewrite Hs'' in Hx. rewrite Hv by exact Hx. f_equal. apply assign_agree.
        rewrite map_fst_combine by exact Hcl.
        destruct (Nat.ltb_spec x k) as [Hlt|Hge].
        -- right. unfold f0. destruct (Nat.ltb_spec x k); [reflexivity|lia].
        -- left. apply fresh_cycle_in. lia.
Qed.

End NewSec.
