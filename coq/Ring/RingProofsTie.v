(* The tie between the generated right-hand sides and the proofs.
   Ring/RingModel.v evaluates, for every pointer assignment and every return of ring.go, the
   definition the translator printed from the Go source (Gen/RingIdx.v); Ring/RingPlain.v has the
   same functions with those right-hand sides written out by hand, and all the proofs are about
   the latter.  Here: model = plain, function by function, by computation.  When an assignment in
   the Go source gets another right-hand side (r.next = rnext instead of r.next = s, Pop's
   rprev.next = r.prev, ...) the generated definition changes and the lemma of that function
   stops compiling. *)
From Coq Require Import ZArith List Bool Arith Lia.
Import ListNotations.
From Coq Require Import Permutation.
From Mds Require Import Gen.RingIdx Ring.RingBase Ring.RingSpec.
From Mds Require Ring.RingModel Ring.RingPlain.
From Mds Require Import Ring.RingProofsBase Ring.RingProofsRep Ring.RingProofs Ring.RingProofsPictures
  Ring.RingProofsInt.

Module Mo := RingModel.
Module Pl := RingPlain.

Section Tie.
Variable T : Type.
Variable zero : T.

Lemma new_ring_tie : Mo.new_ring T zero = Pl.new_ring T zero.
Proof. reflexivity. Qed.

Lemma new_loop_tie : Mo.new_loop T zero = Pl.new_loop T zero.
Proof. reflexivity. Qed.

Lemma new_tie : Mo.new T zero = Pl.new T zero.
Proof. reflexivity. Qed.

Lemma next_of_tie : @Mo.next_of T = @Pl.next_of T.
Proof. reflexivity. Qed.

Lemma prev_of_tie : @Mo.prev_of T = @Pl.prev_of T.
Proof. reflexivity. Qed.

Lemma of_loop_tie : @Mo.of_loop T = @Pl.of_loop T.
Proof. reflexivity. Qed.

Lemma of_tie : Mo.of T zero = Pl.of T zero.
Proof. reflexivity. Qed.

Lemma join_tie : @Mo.join T = @Pl.join T.
Proof. reflexivity. Qed.

Lemma pop_tie : @Mo.pop T = @Pl.pop T.
Proof. reflexivity. Qed.

Lemma at_loop_gen_tie : @Mo.at_loop_gen T = @Pl.at_loop_gen T.
Proof. reflexivity. Qed.

Lemma at_gen_tie : @Mo.at_gen T = @Pl.at_gen T.
Proof. reflexivity. Qed.

Lemma peek_gen_tie : Mo.peek_gen T zero = Pl.peek_gen T zero.
Proof. reflexivity. Qed.

Lemma scan_loop_tie : forall A, @Mo.scan_loop T A = @Pl.scan_loop T A.
Proof. reflexivity. Qed.

Lemma scan_tie : forall A, @Mo.scan T A = @Pl.scan T A.
Proof. reflexivity. Qed.

Lemma each_tie : @Mo.each T = @Pl.each T.
Proof. reflexivity. Qed.

Lemma len_tie : @Mo.len T = @Pl.len T.
Proof. reflexivity. Qed.

Lemma is_empty_tie : @Mo.is_empty T = @Pl.is_empty T.
Proof. reflexivity. Qed.

(* The statement skeletons of the functions (a hex digit per statement, see the translator): the
   ones this model and the plain functions were transcribed from.  An added, removed or re-nested
   statement in ring.go changes the generated number and this lemma. *)
Lemma shapes_tie :
  (shape_newring = 0xe5554f /\ shape_new = 0xe1e4f52e555558f4f /\ shape_of = 0xe553e55f4f /\
  shape_join = 0xe1e4f555554f /\ shape_pop = 0xe1e55555f4f /\ shape_next = 0xe4f /\ shape_prev = 0xe4f /\
  shape_at = 0xe1e4f51e5f52e51e4f5f4f /\ shape_peek = 0xe51e94f4f /\ shape_each = 0xe6f /\
  shape_len = 0xe1e4f964f /\ shape_isempty = 0xe4f /\ shape_scan = 0xe1e4f52e1e4f5ff)%Z.
Proof. repeat split; reflexivity. Qed.

Lemma exec_tie : Mo.exec T zero = Pl.exec T zero.
Proof. reflexivity. Qed.

Lemma step_tie : Mo.step T zero = Pl.step T zero.
Proof. reflexivity. Qed.

Lemma run_tie : Mo.run T zero = Pl.run T zero.
Proof. reflexivity. Qed.

(* ---- the theorems of RingProofs*.v, restated on the model ---- *)

(* the heap the model reaches by a history *)
Fixpoint run_heap (h : heap T) (ops : list (op T)) : heap T :=
  match ops with [] => h | o :: ops' => run_heap (fst (Mo.step T zero h o)) ops' end.

Lemma run_heap_tie : forall ops h, run_heap h ops = RingProofs.run_heap T zero h ops.
Proof. induction ops as [|o ops IH]; intro h; [reflexivity|]. cbn [run_heap RingProofs.run_heap]. rewrite step_tie. apply IH. Qed.

Theorem m_refinement : forall ops, Mo.run T zero empty_heap ops = a_run T zero (a_empty T zero) ops.
Proof. intro ops. rewrite run_tie. apply ring_refinement. Qed.

Theorem m_no_hang : forall ops, ~ In RFuel (Mo.run T zero empty_heap ops).
Proof. intro ops. rewrite run_tie. apply ring_no_hang. Qed.

Theorem m_reachable_rep : forall ops,
  Rep T (run_heap empty_heap ops) (a_run_state T zero (a_empty T zero) ops).
Proof. intro ops. rewrite run_heap_tie. apply ring_reachable_rep. Qed.

Theorem m_links_inverse : forall ops (a : addr), let h := run_heap empty_heap ops in a < size h ->
  (exists b, b < size h /\ nx T h a = Some b /\ pv T h b = Some a) /\
  (exists c, c < size h /\ pv T h a = Some c /\ nx T h c = Some a).
Proof. intros ops a h. unfold h. rewrite run_heap_tie. apply ring_links_inverse. Qed.

Theorem m_join_different : forall (h : heap T) vals n (r : addr) A (s : addr) B others,
  Rep T h (mkA ((r :: A) :: (s :: B) :: others) vals n) ->
  exists h', Mo.join (Some r) (Some s) h = (h', Ok (Some (hd r A))) /\
             Rep T h' (mkA ((r :: s :: B ++ A) :: others) vals n).
Proof. rewrite join_tie. apply join_different_picture. Qed.

Theorem m_join_same : forall (h : heap T) vals n (r x : addr) L1 (s : addr) L2 others,
  Rep T h (mkA ((r :: (x :: L1) ++ s :: L2) :: others) vals n) ->
  exists h', Mo.join (Some r) (Some s) h = (h', Ok (Some x)) /\
             Rep T h' (mkA ((r :: s :: L2) :: (x :: L1) :: others) vals n).
Proof. rewrite join_tie. apply join_same_picture. Qed.

Theorem m_join_nothing_between : forall (h : heap T) st (r s : addr),
  Rep T h st -> r < size h -> (s = r \/ nx T h r = Some s) ->
  Mo.join (Some r) (Some s) h = (h, Ok None).
Proof. rewrite join_tie. apply join_nothing_between_picture. Qed.

Theorem m_pop : forall (h : heap T) vals n (r y : addr) t others,
  Rep T h (mkA ((r :: y :: t) :: others) vals n) ->
  exists h', Mo.pop (Some r) h = (h', Ok (Some r)) /\
             Rep T h' (mkA ([r] :: (y :: t) :: others) vals n).
Proof. rewrite pop_tie. apply pop_picture. Qed.

Theorem m_observers : forall (h : heap T) vals n (r : addr) t others k lim,
  Rep T h (mkA ((r :: t) :: others) vals n) ->
  Mo.at_ (Some r) k h = (h, Ok (offset (r :: t) k)) /\
  Mo.peek T zero (Some r) k h =
    (h, Ok (match offset (r :: t) k with Some x => (vals x, true) | None => (zero, false) end)) /\
  Mo.len (Some r) h = (h, Ok (Z.of_nat (length (r :: t)))) /\
  Mo.each (Some r) lim h = (h, Ok (map vals (match lim with O => r :: t | _ => firstn lim (r :: t) end))) /\
  Mo.next_of (Some r) h = (h, Ok (Some (hd r t))) /\
  Mo.prev_of (Some r) h = (h, Ok (Some (last t r))).
Proof.
  unfold Mo.at_, Mo.peek. rewrite at_gen_tie, peek_gen_tie, len_tie, each_tie, next_of_tie, prev_of_tie.
  apply observers_picture.
Qed.

Theorem m_at_width : forall (r : ptr) n (h : heap T), int64 n ->
  Mo.at64 r n h = Mo.at_ r n h /\ Mo.peek64 T zero r n h = Mo.peek T zero r n h.
Proof.
  intros r n h Hn. unfold Mo.at64, Mo.at_, Mo.peek64, Mo.peek. rewrite at_gen_tie, peek_gen_tie.
  split; [exact (at_width T r n h Hn)|exact (peek_width T zero r n h Hn)].
Qed.

(* New(n) for n <= 0 (the minimum int included) and Of() return nil and allocate nothing *)
Theorem m_new_nonpos : forall n (h : heap T), (n <= 0)%Z ->
  Mo.new T zero n h = (h, Ok None) /\ Mo.of T zero [] h = (h, Ok None).
Proof.
  intros n h Hn. split.
  - unfold Mo.new. rewrite (new_nonpos_nil n Hn). reflexivity.
  - reflexivity.
Qed.

End Tie.
