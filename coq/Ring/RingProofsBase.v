(* Heap lemmas, linked paths, the representation relation between heaps and abstract states. *)
From Coq Require Import ZArith List Bool Arith Lia Permutation.
Import ListNotations.
From Mds Require Import Gen.RingIdx Ring.RingBase Ring.RingPlain Ring.RingSpec.

Section Base.
Variable T : Type.
Variable zero : T.
Notation heap := (heap T).
Notation cell := (cell T).

(* ---- observers of a heap ---- *)
Definition nx (h : heap) (a : addr) : ptr := match lookup h a with Some c => next c | None => None end.
Definition pv (h : heap) (a : addr) : ptr := match lookup h a with Some c => prev c | None => None end.
Definition vl (h : heap) (a : addr) : option T := match lookup h a with Some c => Some (val c) | None => None end.

Lemma upd_length : forall (h : heap) a c, length (upd h a c) = length h.
Proof. induction h as [|x h IH]; intros [|a] c; cbn; auto. Qed.

Lemma lookup_upd_same : forall (h : heap) a c, a < length h -> lookup (upd h a c) a = Some c.
Proof.
  unfold lookup. induction h as [|x h IH]; intros [|a] c Hl; cbn in *; try lia; auto.
  all: try (apply IH; lia).
Qed.

Lemma lookup_upd_other : forall (h : heap) a b c, a <> b -> lookup (upd h a c) b = lookup h b.
Proof.
  unfold lookup. induction h as [|x h IH]; intros [|a] [|b] c Hne; cbn; auto; try lia.
  all: try (apply IH; lia).
Qed.

Lemma lookup_lt : forall (h : heap) a, a < size h -> exists c, lookup h a = Some c.
Proof.
  intros h a Hl. unfold lookup, size in *. destruct (nth_error h a) eqn:E; eauto.
  apply nth_error_None in E. lia.
Qed.

Lemma lookup_some_lt : forall (h : heap) a c, lookup h a = Some c -> a < size h.
Proof. intros h a c E. unfold lookup, size in *. apply nth_error_Some. congruence. Qed.

(* pure field updates *)
Definition setn (h : heap) (a : addr) (q : ptr) : heap :=
  match lookup h a with Some c => upd h a (mkCell (val c) (prev c) q) | None => h end.
Definition setp (h : heap) (a : addr) (q : ptr) : heap :=
  match lookup h a with Some c => upd h a (mkCell (val c) q (next c)) | None => h end.
Definition setv (h : heap) (a : addr) (v : T) : heap :=
  match lookup h a with Some c => upd h a (mkCell v (prev c) (next c)) | None => h end.

Lemma size_setn : forall h a q, size (setn h a q) = size h.
Proof. intros. unfold setn. destruct (lookup h a); auto. apply upd_length. Qed.
Lemma size_setp : forall h a q, size (setp h a q) = size h.
Proof. intros. unfold setp. destruct (lookup h a); auto. apply upd_length. Qed.
Lemma size_setv : forall h a q, size (setv h a q) = size h.
Proof. intros. unfold setv. destruct (lookup h a); auto. apply upd_length. Qed.

Ltac field_tac h a x :=
  let c := fresh "c" in let E := fresh "E" in
  destruct (lookup_lt h a) as [c E]; [assumption|];
  rewrite E;
  destruct (Nat.eqb_spec x a) as [->|Hne];
  [ rewrite lookup_upd_same by assumption; try rewrite E; reflexivity
  | rewrite lookup_upd_other by congruence; reflexivity ].

Lemma nx_setn : forall h a q x, a < size h -> nx (setn h a q) x = if Nat.eqb x a then q else nx h x.
Proof. intros h a q x Ha. unfold nx, setn. field_tac h a x. Qed.
Lemma pv_setn : forall h a q x, a < size h -> pv (setn h a q) x = pv h x.
Proof. intros h a q x Ha. unfold pv, setn. field_tac h a x. Qed.
Lemma vl_setn : forall h a q x, a < size h -> vl (setn h a q) x = vl h x.
Proof. intros h a q x Ha. unfold vl, setn. field_tac h a x. Qed.
Lemma nx_setp : forall h a q x, a < size h -> nx (setp h a q) x = nx h x.
Proof. intros h a q x Ha. unfold nx, setp. field_tac h a x. Qed.
Lemma pv_setp : forall h a q x, a < size h -> pv (setp h a q) x = if Nat.eqb x a then q else pv h x.
Proof. intros h a q x Ha. unfold pv, setp. field_tac h a x. Qed.
Lemma vl_setp : forall h a q x, a < size h -> vl (setp h a q) x = vl h x.
Proof. intros h a q x Ha. unfold vl, setp. field_tac h a x. Qed.
Lemma nx_setv : forall h a q x, a < size h -> nx (setv h a q) x = nx h x.
Proof. intros h a q x Ha. unfold nx, setv. field_tac h a x. Qed.
Lemma pv_setv : forall h a q x, a < size h -> pv (setv h a q) x = pv h x.
Proof. intros h a q x Ha. unfold pv, setv. field_tac h a x. Qed.
Lemma vl_setv : forall h a v x, a < size h -> vl (setv h a v) x = if Nat.eqb x a then Some v else vl h x.
Proof. intros h a q x Ha. unfold vl, setv. field_tac h a x. Qed.

(* ---- running the heap-passing code on valid addresses ---- *)
Lemma bind_ok : forall A B (m : M T A) (f : A -> M T B) h h' a,
  m h = (h', Ok a) -> bind m f h = f a h'.
Proof. intros. unfold bind. rewrite H. reflexivity. Qed.

Lemma get_next_ok : forall h a, a < size h -> get_next (Some a) h = (h, Ok (nx h a)).
Proof.
  intros h a Ha. destruct (lookup_lt h a Ha) as [c E].
  unfold get_next, bind, load, ret, nx. rewrite E. reflexivity.
Qed.
Lemma get_prev_ok : forall h a, a < size h -> get_prev (Some a) h = (h, Ok (pv h a)).
Proof.
  intros h a Ha. destruct (lookup_lt h a Ha) as [c E].
  unfold get_prev, bind, load, ret, pv. rewrite E. reflexivity.
Qed.
Lemma get_val_ok : forall h a v, vl h a = Some v -> get_val (Some a) h = (h, Ok v).
Proof.
  intros h a v E. unfold vl in E. unfold get_val, bind, load, ret.
  destruct (lookup h a); inversion E; subst; reflexivity.
Qed.
Lemma set_next_ok : forall h a q, a < size h -> set_next (Some a) q h = (setn h a q, Ok tt).
Proof.
  intros h a q Ha. destruct (lookup_lt h a Ha) as [c E].
  unfold set_next, store, setn. rewrite E. reflexivity.
Qed.
Lemma set_prev_ok : forall h a q, a < size h -> set_prev (Some a) q h = (setp h a q, Ok tt).
Proof.
  intros h a q Ha. destruct (lookup_lt h a Ha) as [c E].
  unfold set_prev, store, setp. rewrite E. reflexivity.
Qed.
Lemma set_val_ok : forall h a v, a < size h -> set_val (Some a) v h = (setv h a v, Ok tt).
Proof.
  intros h a q Ha. destruct (lookup_lt h a Ha) as [c E].
  unfold set_val, store, setv. rewrite E. reflexivity.
Qed.

(* pointers as numbers *)
Lemma enc_eqb : forall p q, Z.eqb (enc p) (enc q) = ptr_eqb p q.
Proof.
  intros [a|] [b|]; try reflexivity.
  unfold enc, ptr_eqb. destruct (Nat.eqb_spec a b) as [->|Hne].
  - apply Z.eqb_refl.
  - apply Z.eqb_neq. intro E. apply Hne. injection E as E.
    apply SuccNat2Pos.inj in E. exact E.
Qed.
Lemma enc_nil : forall p, Z.eqb (enc p) znil = match p with None => true | Some _ => false end.
Proof. intros [a|]; reflexivity. Qed.

(* ---- linked paths ---- *)
Definition link (h : heap) (a b : addr) : Prop := nx h a = Some b /\ pv h b = Some a.

Fixpoint path (h : heap) (l : list addr) : Prop :=
  match l with
  | a :: ((b :: _) as t) => link h a b /\ path h t
  | _ => True
  end.

Lemma path_app : forall h l1 x l2, path h (l1 ++ x :: l2) <-> path h (l1 ++ [x]) /\ path h (x :: l2).
Proof.
  intros h l1. induction l1 as [|a l1 IH]; intros x l2.
  - cbn. tauto.
  - destruct l1 as [|b l1].
    + cbn. tauto.
    + specialize (IH x l2). cbn in *. tauto.
Qed.

Lemma path_frame : forall h h' l,
  path h l ->
  (forall x, In x (removelast l) -> nx h' x = nx h x) ->
  (forall y, In y (tl l) -> pv h' y = pv h y) ->
  path h' l.
Proof.
  intros h h' l. induction l as [|a l IH]; intros Hp Hn Hv; [exact I|].
  destruct l as [|b l]; [exact I|].
  destruct Hp as [[Hab Hba] Hp]. split.
  - split.
    + rewrite Hn; [exact Hab|]. left. reflexivity.
    + rewrite Hv; [exact Hba|]. left. reflexivity.
  - apply IH; [exact Hp| |].
    + intros x Hx. apply Hn. right. exact Hx.
    + intros y Hy. apply Hv. right. exact Hy.
Qed.

Lemma in_removelast : forall (l : list addr) x, In x (removelast l) -> In x l.
Proof.
  induction l as [|a l IH]; intros x Hx; [exact Hx|].
  destruct l as [|b l]; [destruct Hx|].
  destruct Hx as [->|Hx]; [left; reflexivity|right; apply IH; exact Hx].
Qed.

Lemma nodup_removelast_last : forall (l : list addr) x d, NoDup l -> In x (removelast l) -> x <> last l d.
Proof.
  induction l as [|a l IH]; intros x d Hnd Hx; [destruct Hx|].
  destruct l as [|b l]; [destruct Hx|].
  inversion Hnd as [|? ? Hna Hnd']; subst.
  change (last (a :: b :: l) d) with (last (b :: l) d).
  destruct Hx as [->|Hx].
  - intro E. apply Hna. rewrite E. destruct (exists_last (l:=b :: l)) as [l' [z Ez]]; [discriminate|].
    rewrite Ez. rewrite last_last. apply in_or_app. right. left. reflexivity.
  - apply IH; assumption.
Qed.

Lemma nodup_tl_hd : forall (l : list addr) y d, NoDup l -> In y (tl l) -> y <> hd d l.
Proof.
  intros [|a l] y d Hnd Hy; [destruct Hy|]. cbn in *. inversion Hnd; subst. intro E; subst. contradiction.
Qed.

Lemma path_same : forall h h' l,
  path h l ->
  (forall x, In x l -> nx h' x = nx h x /\ pv h' x = pv h x) ->
  path h' l.
Proof.
  intros h h' l Hp Hs. apply (path_frame h h' l Hp).
  - intros x Hx. apply Hs. destruct l; [destruct Hx|]. apply in_removelast. exact Hx.
  - intros y Hy. apply Hs. destruct l; [destruct Hy|]. right. exact Hy.
Qed.

End Base.
