(* Shared base of the ring model (ring/ring.go, creachadair/mds): Ring[T] as cells
   (Value, prev, next) in a heap indexed by address, nil = None; heap-passing computations where a
   nil dereference is [Panic], a dangling address (impossible in Go) is [Fault], an exhausted loop
   budget is [OutOfFuel]; the operations and outputs of histories.
   Used by Ring/RingModel.v (the model: every right-hand side, condition and counter update comes
   from Gen/RingIdx.v) and Ring/RingPlain.v (the same functions written out by hand, the form the
   proofs work on; Ring/RingProofsTie.v proves the two equal).
   Definitions only. *)
From Coq Require Import ZArith List Bool Arith.
Import ListNotations.

Definition addr := nat.
Definition ptr := option addr.

(* pointers as numbers for the generated conditions: nil = 0, address a = a+1 *)
Definition enc (p : ptr) : Z :=
  match p with None => 0%Z | Some a => Z.pos (Pos.of_succ_nat a) end.
Definition znil : Z := 0%Z.

Inductive res (A : Type) : Type :=
| Ok (a : A)
| Panic        (* nil pointer dereference *)
| Fault        (* an address that was never allocated: cannot happen in Go *)
| OutOfFuel.   (* a loop ran longer than its budget: a hang *)
Arguments Ok {A} a.
Arguments Panic {A}.
Arguments Fault {A}.
Arguments OutOfFuel {A}.

Section Base.
Variable T : Type.
Variable zero : T.   (* the zero value of T *)

Record cell := mkCell { val : T; prev : ptr; next : ptr }.

(* The heap: the list of cells allocated so far; the address of a cell is its index. *)
Definition heap := list cell.
Definition size (h : heap) : nat := length h.
Definition empty_heap : heap := [].
Definition lookup (h : heap) (a : addr) : option cell := nth_error h a.
Fixpoint upd (h : heap) (a : addr) (c : cell) : heap :=
  match h, a with
  | [], _ => []
  | _ :: t, O => c :: t
  | x :: t, S a' => x :: upd t a' c
  end.

(* Heap-passing computations; the heap reached so far survives a panic. *)
Definition M (A : Type) := heap -> heap * res A.
Definition ret {A} (a : A) : M A := fun h => (h, Ok a).
Definition bind {A B} (m : M A) (f : A -> M B) : M B :=
  fun h => match m h with
           | (h', Ok a) => f a h'
           | (h', Panic) => (h', Panic)
           | (h', Fault) => (h', Fault)
           | (h', OutOfFuel) => (h', OutOfFuel)
           end.
Definition out_of_fuel {A} : M A := fun h => (h, OutOfFuel).
Definition fault {A} : M A := fun h => (h, Fault).
Definition heap_size : M nat := fun h => (h, Ok (size h)).

(* p.field *)
Definition load (p : ptr) : M cell := fun h =>
  match p with
  | None => (h, Panic)
  | Some a => match lookup h a with Some c => (h, Ok c) | None => (h, Fault) end
  end.
(* p.field = ... *)
Definition store (p : ptr) (f : cell -> cell) : M unit := fun h =>
  match p with
  | None => (h, Panic)
  | Some a => match lookup h a with
              | Some c => (upd h a (f c), Ok tt)
              | None => (h, Fault)
              end
  end.

Definition get_next (p : ptr) : M ptr := bind (load p) (fun c => ret (next c)).
Definition get_prev (p : ptr) : M ptr := bind (load p) (fun c => ret (prev c)).
Definition get_val (p : ptr) : M T := bind (load p) (fun c => ret (val c)).
Definition set_next (p q : ptr) : M unit := store p (fun c => mkCell (val c) (prev c) q).
Definition set_prev (p q : ptr) : M unit := store p (fun c => mkCell (val c) q (next c)).
Definition set_val (p : ptr) (v : T) : M unit := store p (fun c => mkCell v (prev c) (next c)).

(* new(Ring[T]) *)
Definition alloc : M ptr := fun h =>
  (h ++ [mkCell zero None None], Ok (Some (size h))).

(* The value of a pointer expression of the Go source.  The translator prints the right-hand side
   of every pointer assignment / the result of every return as a function over the NAMES of the
   variables in scope (small numbers, 0 = nil); [pick env k] is the value of the variable named k
   in the environment [env] (the list of the variables' current values, nil first).  A name that
   is not in scope is a [Fault], never a normal-looking default. *)
Definition pick (env : list ptr) (k : Z) : M ptr :=
  if (k <? 0)%Z then fault
  else match nth_error env (Z.to_nat k) with Some p => ret p | None => fault end.

(* Straight-line statements in SOURCE ORDER.  A statement takes the values of the local variables
   (the environment of [pick]), acts on the heap and hands the environment, possibly updated, to
   the rest of the function.  The translator gives the position of every assignment statement in
   the Go source; [in_order] runs the statements by increasing position (statements with equal
   positions -- the parts of one multiple assignment -- in the order listed).  So a reordered
   source gives a reordered model. *)
Definition stmt (A : Type) := list ptr -> (list ptr -> M A) -> M A.

Fixpoint insert_stmt {A} (x : Z * stmt A) (l : list (Z * stmt A)) : list (Z * stmt A) :=
  match l with
  | [] => [x]
  | y :: t => if (fst y <=? fst x)%Z then y :: insert_stmt x t else x :: l
  end.
Definition sort_stmts {A} (l : list (Z * stmt A)) : list (Z * stmt A) :=
  fold_left (fun acc x => insert_stmt x acc) l [].
Fixpoint seq_stmts {A} (l : list (Z * stmt A)) (env : list ptr) (k : list ptr -> M A) : M A :=
  match l with
  | [] => k env
  | x :: t => snd x env (fun env' => seq_stmts t env' k)
  end.
Definition in_order {A} (l : list (Z * stmt A)) (env : list ptr) (k : list ptr -> M A) : M A :=
  seq_stmts (sort_stmts l) env k.

Definition ptr_eqb (p q : ptr) : bool :=
  match p, q with
  | None, None => true
  | Some a, Some b => Nat.eqb a b
  | _, _ => false
  end.

(* 64-bit two's-complement wrap-around *)
Definition wrap64 (z : Z) : Z := ((z + 2 ^ 63) mod 2 ^ 64 - 2 ^ 63)%Z.

(* ---- histories ---- *)
Inductive op :=
| ONew (n : Z) | OOf (vs : list T)
| OJoin (r s : ptr) | OPop (r : ptr)
| ONext (r : ptr) | OPrev (r : ptr)
| OAt (r : ptr) (n : Z) | OPeek (r : ptr) (n : Z)
| OLen (r : ptr) | OEach (r : ptr) (lim : nat) | OIsEmpty (r : ptr).

Inductive out :=
| RPtr (p : ptr) | RPeek (v : T) (ok : bool) | RLen (n : Z) | REach (vs : list T) | RBool (b : bool)
| RPanic | RFault | RFuel.

Definition to_out {A} (f : A -> out) (x : heap * res A) : heap * out :=
  match x with
  | (h, Ok a) => (h, f a)
  | (h, Panic) => (h, RPanic)
  | (h, Fault) => (h, RFault)
  | (h, OutOfFuel) => (h, RFuel)
  end.

(* Go pointers always refer to allocated cells: a history may only mention nil or addresses that
   New/Of have handed out.  Anything else is answered [RFault] without running the operation. *)
Definition ptr_ok (h : heap) (p : ptr) : bool :=
  match p with None => true | Some a => Nat.ltb a (size h) end.

Definition op_ptrs (o : op) : list ptr :=
  match o with
  | ONew _ | OOf _ => []
  | OJoin r s => [r; s]
  | OPop r | ONext r | OPrev r | OAt r _ | OPeek r _ | OLen r | OEach r _ | OIsEmpty r => [r]
  end.

End Base.

Arguments val {T}. Arguments prev {T}. Arguments next {T}. Arguments mkCell {T}.
Arguments size {T}. Arguments empty_heap {T}. Arguments lookup {T}. Arguments upd {T}.
Arguments ret {T A}. Arguments bind {T A B}. Arguments out_of_fuel {T A}. Arguments fault {T A}.
Arguments heap_size {T}. Arguments pick {T}.
Arguments insert_stmt {T A}. Arguments sort_stmts {T A}. Arguments seq_stmts {T A}. Arguments in_order {T A}.
Arguments load {T}. Arguments store {T}.
Arguments get_next {T}. Arguments get_prev {T}. Arguments get_val {T}.
Arguments set_next {T}. Arguments set_prev {T}. Arguments set_val {T}.
Arguments ONew {T}. Arguments OOf {T}. Arguments OJoin {T}. Arguments OPop {T}. Arguments ONext {T}.
Arguments OPrev {T}. Arguments OAt {T}. Arguments OPeek {T}. Arguments OLen {T}. Arguments OEach {T}.
Arguments OIsEmpty {T}.
Arguments RPtr {T}. Arguments RPeek {T}. Arguments RLen {T}. Arguments REach {T}. Arguments RBool {T}.
Arguments RPanic {T}. Arguments RFault {T}. Arguments RFuel {T}.
Arguments to_out {T A}. Arguments ptr_ok {T}. Arguments op_ptrs {T}.

Module RingNotations.
Notation "x <- m ;; f" := (bind m (fun x => f)) (at level 61, m at next level, right associativity).
Notation "m ;;; f" := (bind m (fun _ => f)) (at level 61, right associativity).
End RingNotations.
