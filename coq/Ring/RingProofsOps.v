(* The mutating operations Join and Pop refine their abstract pictures. *)
From Coq Require Import ZArith List Bool Arith Lia Permutation.
Import ListNotations.
From Mds Require Import Gen.RingIdx Ring.RingBase Ring.RingPlain Ring.RingSpec Ring.RingProofsBase Ring.RingProofsRep Ring.RingProofsObs.

Section Ops.
Variable T : Type.
Variable zero : T.
Notation heap := (heap T).
Notation nx := (nx T).
Notation pv := (pv T).
Notation vl := (vl T).
Notation path := (path T).
Notation cyc := (cyc T).
Notation Rep := (Rep T).
Notation setn := (setn T).
Notation setp := (setp T).
Notation spliced := (spliced T).

Ltac sz := repeat (first [rewrite size_setn | rewrite size_setp | rewrite size_setv]); assumption.
Lemma bind_bind : forall A B C (m : M T A) (f : A -> M T B) (g : B -> M T C) h,
  bind (bind m f) g h = bind m (fun x => bind (f x) g) h.
Proof. intros. unfold bind. destruct (m h) as [h' [a| | |]]; reflexivity. Qed.

Ltac mstep lem := repeat rewrite bind_bind; erewrite bind_ok by (apply lem; sz); cbv beta.

(* model and specification agree on an operation: same output, states still related *)
Definition sim (x : heap * out T) (y : astate T * out T) : Prop :=
  snd x = snd y /\ Rep (fst x) (fst y).

Lemma in_concat_of : forall (c : list addr) cs x, In c cs -> In x c -> In x (concat cs).
Proof. intros c cs x Hc Hx. apply in_concat. exists c. split; assumption. Qed.

Lemma others_preserved : forall h h' r s rn sp c0 others,
  spliced h h' r s rn sp -> Forall (cyc h) others -> NoDup (c0 ++ concat others) ->
  In r c0 -> In s c0 -> In rn c0 -> In sp c0 -> Forall (cyc h') others.
Proof.
  intros h h' r s rn sp c0 others HS HF Hnd Hr Hs Hrn Hsp.
  destruct (nodup_app _ _ Hnd) as [_ [_ Hdis]].
  rewrite Forall_forall in *. intros c Hc.
  apply (spliced_other T h h' r s rn sp c HS (HF c Hc)); intro Hi.
  - exact (Hdis r Hr (in_concat_of c others r Hc Hi)).
  - exact (Hdis s Hs (in_concat_of c others s Hc Hi)).
  - exact (Hdis rn Hrn (in_concat_of c others rn Hc Hi)).
  - exact (Hdis sp Hsp (in_concat_of c others sp Hc Hi)).
Qed.

(* ---- Join ---- *)
Definition join_heap (h : heap) (a b rn sp : addr) : heap :=
  setp (setn (setp (setn h a (Some b)) b (Some a)) sp (Some rn)) rn (Some sp).

Lemma join_run : forall (h : heap) (a b rn sp : addr),
  a < size h -> b < size h -> rn < size h -> sp < size h -> a <> b -> rn <> b ->
  nx h a = Some rn -> pv h b = Some sp ->
  join (Some a) (Some b) h = (join_heap h a b rn sp, Ok (Some rn)).
Proof.
  intros h a b rn sp Ha Hb Hrn Hsp Hab Hrb Hn Hp. unfold join, join_heap. cbn [ptr_eqb].
  rewrite (proj2 (Nat.eqb_neq a b)) by assumption.
  mstep get_next_ok. rewrite Hn. unfold join_early. rewrite !enc_eqb. cbn [ptr_eqb].
  rewrite (proj2 (Nat.eqb_neq a b)) by assumption. rewrite (proj2 (Nat.eqb_neq rn b)) by assumption.
  cbn [orb].
  mstep get_next_ok. mstep get_prev_ok. rewrite Hn, Hp.
  mstep set_next_ok. mstep set_prev_ok. mstep set_next_ok. mstep set_prev_ok.
  reflexivity.
Qed.

Lemma join_heap_facts : forall (h : heap) (a b rn sp : addr),
  a < size h -> b < size h -> rn < size h -> sp < size h ->
  size (join_heap h a b rn sp) = size h /\
  (forall x, vl (join_heap h a b rn sp) x = vl h x) /\
  spliced h (join_heap h a b rn sp) a b rn sp.
Proof.
  intros h a b rn sp Ha Hb Hrn Hsp. unfold join_heap. split; [|split].
  - rewrite !size_setp, !size_setn, !size_setp, !size_setn. reflexivity.
  - intro x. rewrite vl_setp by sz. rewrite vl_setn by sz. rewrite vl_setp by sz. rewrite vl_setn by sz. reflexivity.
  - constructor; intro x.
    + rewrite nx_setp by sz. rewrite nx_setn by sz. rewrite nx_setp by sz. rewrite nx_setn by sz. reflexivity.
    + rewrite pv_setp by sz. rewrite pv_setn by sz. rewrite pv_setp by sz. rewrite pv_setn by sz. reflexivity.
Qed.

Lemma rep_same_vals : forall h h' st cs,
  Rep h st -> size h' = size h -> (forall x, vl h' x = vl h x) ->
  Permutation (concat cs) (seq 0 (size h)) -> Forall (cyc h') cs ->
  Rep h' (mkA cs (avals st) (acount st)).
Proof.
  intros h h' st cs R Hs Hv P F. constructor; cbn.
  - rewrite Hs. exact (rep_count _ _ _ R).
  - rewrite Hs. exact P.
  - exact F.
  - intros a Ha. rewrite Hv. apply (rep_val _ _ _ R). rewrite <- Hs. exact Ha.
Qed.

Lemma join_sim : forall h st r s, Rep h st -> ptr_ok h r = true -> ptr_ok h s = true ->
  sim (to_out RPtr (join r s h)) (a_join T st r s).
Proof.
  intros h st [a|] [b|] R Hr Hs; cbn [ptr_ok] in *.
  2:{ (* s = nil *)
    apply Nat.ltb_lt in Hr. destruct (rep_cycle T h st a R Hr) as [t [rest [E [Hc _]]]].
    unfold join. cbn [ptr_eqb]. mstep get_next_ok. rewrite (cyc_nx T h a t Hc).
    unfold join_early. rewrite !enc_eqb. cbn [ptr_eqb orb].
    mstep get_next_ok. split; [reflexivity|exact R]. }
  2:{ split; [reflexivity|exact R]. }
  2:{ split; [reflexivity|exact R]. }
  apply Nat.ltb_lt in Hr, Hs. unfold a_join.
  destruct (Nat.eqb_spec a b) as [->|Hab].
  { unfold join. cbn [ptr_eqb]. rewrite Nat.eqb_refl. erewrite bind_ok by reflexivity.
    unfold join_early. rewrite !enc_eqb. cbn [ptr_eqb]. rewrite Nat.eqb_refl. cbn [orb].
    split; [reflexivity|exact R]. }
  destruct (rep_cycle T h st a R Hr) as [t [others [E [Hc [HF P]]]]]. rewrite E. cbn [tl].
  destruct (perm_seq_facts _ _ P) as [Hnd [Hin _]]. cbn [concat] in Hnd, Hin.
  destruct (nodup_app _ _ Hnd) as [Hndc [_ Hdis]].
  assert (Hnx : nx h a = Some (hd a t)) by (apply (cyc_nx T); exact Hc).
  assert (Hrnlt : hd a t < size h) by (apply Hin; apply in_or_app; left; apply in_hd).
  destruct (split_at b t) as [[l1 l2]|] eqn:Es.
  - apply split_at_some in Es. destruct Es as [Et Hbl1].
    destruct l1 as [|x between].
    + (* s follows r *)
      subst t. cbn [app hd] in *.
      unfold join. cbn [ptr_eqb]. rewrite (proj2 (Nat.eqb_neq a b)) by assumption.
      mstep get_next_ok. rewrite Hnx. unfold join_early. rewrite !enc_eqb. cbn [ptr_eqb].
      rewrite Nat.eqb_refl. rewrite orb_true_r. split; [reflexivity|exact R].
    + (* same ring: [x between] is cut out *)
      subst t. cbn [app hd] in Hnx, Hrnlt.
      set (l1 := x :: between) in *. set (sp := last l1 a).
      assert (Hxb : x <> b) by (intro Exb; apply Hbl1; left; exact Exb).
      assert (Hpv : pv h b = Some sp).
      { unfold cyc in Hc. change (a :: (x :: between ++ b :: l2) ++ [a]) with (a :: (l1 ++ b :: l2) ++ [a]) in Hc.
        apply path_snoc_assoc in Hc. destruct Hc as [Hc _].
        destruct (exists_last (l:=l1)) as [L0 [z Ez]]; [discriminate|].
        unfold sp. rewrite Ez. rewrite last_last.
        rewrite Ez in Hc. rewrite app_comm_cons in Hc. rewrite <- app_assoc in Hc. cbn [app] in Hc.
        change (a :: L0 ++ [z; b]) with ((a :: L0) ++ z :: [b]) in Hc.
        apply path_app in Hc. destruct Hc as [_ [[_ Hc] _]]. exact Hc. }
      assert (Hspin : In sp l1) by (unfold sp, l1; rewrite last_cons; apply in_last).
      assert (Hsplt : sp < size h).
      { apply Hin. apply in_or_app. left. right. apply in_or_app. left. exact Hspin. }
      rewrite (join_run h a b x sp) by assumption.
      destruct (join_heap_facts h a b x sp Hr Hs Hrnlt Hsplt) as [Hsz [Hvl HS]].
      split; [reflexivity|]. cbn [fst to_out].
      assert (HS' : spliced h (join_heap h a b x sp) a b (hd a l1) (last l1 a)) by exact HS.
      destruct (splice_same T h _ a b l1 (b :: l2) a ltac:(discriminate) HS' eq_refl Hc Hndc) as [C1 C2].
      apply (rep_same_vals h _ st _ R Hsz Hvl).
      * eapply perm_trans; [|exact P]. cbn [concat].
        change ((a :: b :: l2) ++ l1 ++ concat others) with (a :: ((b :: l2) ++ l1 ++ concat others)).
        change ((a :: l1 ++ b :: l2) ++ concat others) with (a :: ((l1 ++ b :: l2) ++ concat others)).
        apply perm_skip. rewrite app_assoc. apply Permutation_app_tail. apply Permutation_app_comm.
      * constructor; [exact C1|]. constructor; [exact C2|].
        apply (others_preserved h _ a b x sp (a :: l1 ++ b :: l2) others HS HF Hnd).
        -- left; reflexivity.
        -- right. apply in_or_app. right. left. reflexivity.
        -- right. apply in_or_app. left. left. reflexivity.
        -- right. apply in_or_app. left. exact Hspin.
  - (* different rings *)
    apply split_at_none in Es.
    assert (Hbc : ~ In b (a :: t)) by (intros [Hx|Hx]; [congruence|contradiction]).
    assert (Hbo : In b (concat others)).
    { assert (Hb' : In b ((a :: t) ++ concat others)) by (apply Hin; exact Hs).
      apply in_app_or in Hb'. destruct Hb' as [Hb'|Hb']; [contradiction|exact Hb']. }
    destruct (cycle_from others b) as [[cb others']|] eqn:Eb; [|exfalso; exact (cycle_from_none _ _ Eb Hbo)].
    destruct (cycle_from_some T h _ _ _ _ HF Eb) as [Hcb [HF' [P' [B ->]]]].
    assert (Hnd2 : NoDup ((a :: t) ++ (b :: B) ++ concat others')).
    { apply (Permutation_NoDup (l:=(a :: t) ++ concat others)); [|exact Hnd].
      apply Permutation_app_head. apply Permutation_sym. exact P'. }
    assert (Hin2 : forall y, In y ((a :: t) ++ (b :: B) ++ concat others') -> y < size h).
    { intros y Hy. apply Hin. apply in_app_or in Hy. apply in_or_app. destruct Hy as [Hy|Hy]; [left; exact Hy|right].
      apply (Permutation_in _ P'). exact Hy. }
    rewrite app_assoc in Hnd2.
    destruct (nodup_app _ _ Hnd2) as [Hndab _].
    set (rn := hd a t) in *. set (sp := last B b).
    assert (Hrnin : In rn (a :: t)) by apply in_hd.
    assert (Hspin : In sp (b :: B)) by apply in_last.
    assert (Hrnb : rn <> b) by (intro Ex; apply Hbc; rewrite <- Ex; exact Hrnin).
    assert (Hpv : pv h b = Some sp) by (apply (cyc_pv T); exact Hcb).
    assert (Hsplt : sp < size h).
    { apply Hin2. apply in_or_app. right. apply in_or_app. left. exact Hspin. }
    rewrite (join_run h a b rn sp) by assumption.
    destruct (join_heap_facts h a b rn sp Hr Hs Hrnlt Hsplt) as [Hsz [Hvl HS]].
    split; [reflexivity|]. cbn [fst to_out].
    pose proof (splice_diff T h _ a b t B HS Hc Hcb Hndab) as C1.
    apply (rep_same_vals h _ st _ R Hsz Hvl).
    + eapply perm_trans; [|exact P]. cbn [concat].
      eapply perm_trans; [|apply Permutation_app_head; exact P'].
      cbn [concat].
      change ((a :: (b :: B) ++ t) ++ concat others') with (a :: (((b :: B) ++ t) ++ concat others')).
      change ((a :: t) ++ (b :: B) ++ concat others') with (a :: (t ++ (b :: B) ++ concat others')).
      apply perm_skip. rewrite (app_assoc t). apply Permutation_app_tail. apply Permutation_app_comm.
    + constructor; [exact C1|].
      apply (others_preserved h _ a b rn sp ((a :: t) ++ b :: B) others' HS HF' Hnd2).
      * left; reflexivity.
      * apply in_or_app. right. left. reflexivity.
      * apply in_or_app. left. exact Hrnin.
      * apply in_or_app. right. exact Hspin.
Qed.

(* ---- Pop ---- *)
Definition pop_heap (h : heap) (a rprev rnext : addr) : heap :=
  setn (setp (setp (setn h rprev (Some rnext)) rnext (Some rprev)) a (Some a)) a (Some a).

Lemma pop_sim : forall h st r, Rep h st -> ptr_ok h r = true ->
  sim (to_out RPtr (pop r h)) (a_pop T st r).
Proof.
  intros h st [a|] R Hr; cbn [ptr_ok] in *; [|split; [reflexivity|exact R]].
  apply Nat.ltb_lt in Hr. unfold a_pop.
  destruct (rep_cycle T h st a R Hr) as [t [others [E [Hc [HF P]]]]]. rewrite E. cbn [tl].
  destruct (perm_seq_facts _ _ P) as [Hnd [Hin _]]. cbn [concat] in Hnd, Hin.
  destruct (nodup_app _ _ Hnd) as [Hndc [_ Hdis]].
  assert (Hnx : nx h a = Some (hd a t)) by (apply (cyc_nx T); exact Hc).
  assert (Hpv : pv h a = Some (last t a)) by (apply (cyc_pv T); exact Hc).
  unfold pop. cbn [ptr_eqb]. mstep get_prev_ok. rewrite Hpv.
  unfold pop_cond. rewrite enc_nil. rewrite enc_eqb. cbn [ptr_eqb negb andb].
  destruct t as [|y t0].
  - cbn [last]. rewrite Nat.eqb_refl. cbn [negb]. erewrite bind_ok by reflexivity.
    split; [reflexivity|exact R].
  - set (t := y :: t0) in *.
    destruct (exists_last (l:=t)) as [t' [rprev Et]]; [discriminate|].
    assert (Elast : last t a = rprev) by (rewrite Et; apply last_last).
    assert (Ehd : hd a t = hd rprev t') by (rewrite Et; apply hd_snoc).
    rewrite Elast in *. set (rnext := hd a t) in *.
    inversion Hndc as [|? ? Hat Hndt]; subst x l.
    assert (Hpin : In rprev t) by (rewrite Et; apply in_or_app; right; left; reflexivity).
    assert (Hpa : rprev <> a) by (intro Ex; apply Hat; rewrite <- Ex; exact Hpin).
    rewrite (proj2 (Nat.eqb_neq rprev a)) by assumption. cbn [negb].
    assert (Hplt : rprev < size h) by (apply Hin; apply in_or_app; left; right; exact Hpin).
    assert (Hnlt : rnext < size h) by (apply Hin; apply in_or_app; left; apply in_hd).
    mstep get_prev_ok. mstep get_next_ok. mstep get_next_ok. rewrite Hpv, Hnx.
    mstep set_next_ok. mstep get_prev_ok. rewrite pv_setn by sz. rewrite Hpv.
    mstep set_prev_ok. mstep set_prev_ok.
    mstep set_next_ok. unfold ret at 1. cbv beta.
    fold (pop_heap h a rprev rnext). unfold ret. cbn [to_out fst snd].
    split; [reflexivity|]. cbn [fst].
    assert (Hsz : size (pop_heap h a rprev rnext) = size h).
    { unfold pop_heap. rewrite size_setn, !size_setp, size_setn. reflexivity. }
    assert (Hvl : forall x, vl (pop_heap h a rprev rnext) x = vl h x).
    { intro x. unfold pop_heap. rewrite vl_setn by sz. rewrite vl_setp by sz. rewrite vl_setp by sz. rewrite vl_setn by sz. reflexivity. }
    assert (HS : spliced h (pop_heap h a rprev rnext) rprev rnext a a).
    { constructor; intro x; unfold pop_heap.
      - rewrite nx_setn by sz. rewrite nx_setp by sz. rewrite nx_setp by sz. rewrite nx_setn by sz. reflexivity.
      - rewrite pv_setn by sz. rewrite pv_setp by sz. rewrite pv_setp by sz. rewrite pv_setn by sz. reflexivity. }
    (* the cycle read from rprev: [rprev a t'] *)
    assert (Hc' : cyc h (rprev :: [a] ++ t')).
    { rewrite Et in Hc. change (a :: t' ++ [rprev]) with ((a :: t') ++ rprev :: []) in Hc.
      apply (cyc_rot T) in Hc. exact Hc. }
    assert (Hnd' : NoDup (rprev :: [a] ++ t')).
    { apply (Permutation_NoDup (l:=a :: t)); [|exact Hndc]. rewrite Et.
      change (rprev :: [a] ++ t') with ([rprev] ++ (a :: t')).
      change (a :: t' ++ [rprev]) with ((a :: t') ++ [rprev]). apply Permutation_app_comm. }
    assert (HS' : spliced h (pop_heap h a rprev rnext) rprev rnext (hd a [a]) (last [a] a)) by exact HS.
    destruct (splice_same T h _ rprev rnext [a] t' a ltac:(discriminate) HS' Ehd Hc' Hnd') as [C1 C2].
    apply (rep_same_vals h _ st _ R Hsz Hvl).
    + eapply perm_trans; [|exact P]. cbn [concat]. cbn [app]. apply perm_skip. reflexivity.
    + constructor; [exact C2|]. constructor.
      * change (y :: t0) with t. rewrite Et. destruct t' as [|z t'']; [exact C1|].
        change (rprev :: z :: t'') with ([rprev] ++ z :: t'') in C1. apply (cyc_rot T) in C1. exact C1.
      * apply (others_preserved h _ rprev rnext a a (a :: t) others HS HF Hnd).
        -- right; exact Hpin.
        -- apply in_hd.
        -- left; reflexivity.
        -- left; reflexivity.
Qed.

End Ops.
