(* Model of ring/ring.go (creachadair/mds) on the heap of Ring/RingBase.v.  Every exported function
   and the helpers newRing/scan are mirrored statement by statement as heap-passing computations.

   What comes from the Go source (Gen/RingIdx.v, regenerated on every run):
   - every branch and loop condition, the counter arithmetic and the sign handling of At
     (pointers are passed to conditions as numbers, [enc]: nil = 0, address a = a+1);
   - the RIGHT-HAND SIDE of every pointer assignment and the result of every return: the
     translator prints it as a function over the names of the variables in scope; here every
     variable of a function has a fixed small number (0 is always nil), the generated function is
     applied to these numbers and [pick env k] fetches the value of the variable it names from
     the list [env] of the current values.  Field reads a right-hand side may contain (r.next,
     r.prev, cur.next, the results of calls) are evaluated just before the statement and are
     variables of that statement.  So `r.next = s` turned into `r.next = rnext`, or a dropped
     assignment (its anchor is lost), changes this model.
   - the ORDER of the pointer statements of New's loop body, Join and Pop: each statement carries
     the position the translator found it at and [in_order] runs them by position;
   - the direction of At's walk (next := Next, next = Prev), as names of the two methods;
   - the statement skeleton of every function (shape_*; compared in Ring/RingProofsTie.v), so an
     added or removed statement is noticed at make.
   What is written by hand: which field of which variable a statement assigns (the anchor of the
   statement is selected by that very text, so changing it loses the anchor), and the nesting of
   the statements in ifs and loops (covered by shape_* and the generated conditions).

   Ring/RingPlain.v has the same functions with the right-hand sides written out; the proofs work
   on those and Ring/RingProofsTie.v proves model = plain.
   Definitions only. *)
From Coq Require Import ZArith List Bool Arith.
Import ListNotations.
From Mds Require Import Gen.RingIdx Ring.RingBase.
Import RingNotations.

Section Model.
Variable T : Type.
Variable zero : T.   (* the zero value of T *)
Notation M := (M T).
Notation alloc := (alloc T zero).
Notation heap := (heap T).
Notation op := (op T).
Notation out := (out T).

(* func newRing[T any]() *Ring[T] { r := new(Ring[T]); r.next = r; r.prev = r; return r }
   names: 0 nil, 1 r *)
Definition new_ring : M ptr :=
  r <- alloc ;;
  x <- pick [None; r] (newring_next 0 1) ;; set_next r x ;;;
  y <- pick [None; r] (newring_prev 0 1) ;; set_prev r y ;;;
  pick [None; r] (newring_ret 0 1).

(* the loop of New; the budget is the requested count.
   names: 0 nil, 1 r, 2 elt, 3 the r.next read by the statement *)
Fixpoint new_loop (fuel : nat) (r : ptr) (n : Z) : M unit :=
  match fuel with
  | O => if new_more n then out_of_fuel else ret tt
  | S f =>
    if new_more n then
      in_order
        [ (new_pos_elt, fun env k =>                                                (* elt := newRing() *)
             fresh <- new_ring ;; elt <- pick [None; r; fresh] (new_elt_init 0 1 2) ;; k [None; r; elt]);
          (new_pos_w0, fun env k =>                                                 (* elt.next = r.next *)
             elt <- pick env 2 ;; rn <- get_next r ;;
             x <- pick (env ++ [rn]) (new_w_elt_next 0 1 2 3) ;; set_next elt x ;;; k env);
          (new_pos_w1, fun env k =>                                                 (* r.next.prev = elt *)
             rn <- get_next r ;; y <- pick env (new_w_rnext_prev 0 1 2) ;; set_prev rn y ;;; k env);
          (new_pos_w2, fun env k =>                                                 (* elt.prev = r *)
             elt <- pick env 2 ;; z <- pick env (new_w_elt_prev 0 1 2) ;; set_prev elt z ;;; k env);
          (new_pos_w3, fun env k =>                                                 (* r.next = elt *)
             w <- pick env (new_w_r_next 0 1 2) ;; set_next r w ;;; k env) ]
        [None; r; None]
        (fun _ => new_loop f r (new_dec n))                                         (* n-- *)
    else ret tt
  end.

Definition new (n : Z) : M ptr :=
  if new_nonpos n then pick [None] (new_ret_nil 0)
  else
    fresh <- new_ring ;;
    r <- pick [None; fresh] (new_r_init 0 1) ;;                                      (* r := newRing() *)
    new_loop (Z.to_nat n) r n ;;;
    pick [None; r] (new_ret 0 1).

(* for _, v := range vs { cur.Value = v; cur = cur.Next() }
   names: 0 nil, 1 r, 2 cur, 3 the result of cur.Next() *)
Definition next_of (r : ptr) : M ptr :=
  c <- load r ;; pick [None; r; next c; prev c] (next_ret 0 1 2 3).                  (* return r.next *)
Definition prev_of (r : ptr) : M ptr :=
  c <- load r ;; pick [None; r; next c; prev c] (prev_ret 0 1 2 3).                  (* return r.prev *)

Fixpoint of_loop (vs : list T) (cur : ptr) : M unit :=
  match vs with
  | [] => ret tt
  | v :: vs' =>
    set_val cur v ;;;                                                               (* cur.Value = v *)
    cn <- next_of cur ;;
    cur' <- pick [None; cur; cn] (of_adv 0 1 2) ;;                                   (* cur = cur.Next() *)
    of_loop vs' cur'
  end.

(* names: 0 nil, 1 r *)
Definition of (vs : list T) : M ptr :=
  r <- new (of_len (Z.of_nat (length vs))) ;;
  cur <- pick [None; r] (of_cur_init 0 1) ;;                                         (* cur := r *)
  of_loop vs cur ;;;
  pick [None; r] (of_ret 0 1).

(* Join.  [r == s || r.next == s] short-circuits: r.next is read only when r != s.
   names: 0 nil, 1 r, 2 s, 3 rnext (r.next when it is read), 4 sprev (s.prev when it is read) *)
Definition join (r s : ptr) : M ptr :=
  rn <- (if ptr_eqb r s then ret r else get_next r) ;;
  if join_early (enc r) (enc s) (enc rn) then pick [None; r; s] (join_ret_early 0 1 2)
  else
    in_order
      [ (join_pos_rnext, fun env k =>                                               (* rnext, sprev := *)
           a <- get_next r ;; rnext <- pick [None; r; s; a] (join_rnext 0 1 2 3) ;; (*   r.next, s.prev *)
           sprev <- pick env 4 ;; k [None; r; s; rnext; sprev]);
        (join_pos_sprev, fun env k =>
           b <- get_prev s ;; sprev <- pick [None; r; s; b] (join_sprev 0 1 2 3) ;;
           rnext <- pick env 3 ;; k [None; r; s; rnext; sprev]);
        (join_pos_w0, fun env k =>                                                  (* r.next = s *)
           x <- pick env (join_w_r_next 0 1 2 3 4) ;; set_next r x ;;; k env);
        (join_pos_w1, fun env k =>                                                  (* s.prev = r *)
           y <- pick env (join_w_s_prev 0 1 2 3 4) ;; set_prev s y ;;; k env);
        (join_pos_w2, fun env k =>                                                  (* sprev.next = rnext *)
           sprev <- pick env 4 ;; z <- pick env (join_w_sprev_next 0 1 2 3 4) ;; set_next sprev z ;;; k env);
        (join_pos_w3, fun env k =>                                                  (* rnext.prev = sprev *)
           rnext <- pick env 3 ;; w <- pick env (join_w_rnext_prev 0 1 2 3 4) ;; set_prev rnext w ;;; k env) ]
      [None; r; s; None; None]
      (fun env => pick env (join_ret 0 1 2 3 4)).                                   (* return rnext *)

(* Pop.  [r != nil && r.prev != r] short-circuits: r.prev is read only when r != nil.
   names: 0 nil, 1 r, 2 rprev, 3 rnext, 4 the field of r read by the statement *)
Definition pop (r : ptr) : M ptr :=
  rp <- (if ptr_eqb r None then ret None else get_prev r) ;;
  (if pop_cond (enc r) (enc rp) znil then
     in_order
       [ (pop_pos_rprev, fun env k =>                                               (* rprev, rnext := *)
            a <- get_prev r ;; rprev <- pick [None; r; a] (pop_rprev 0 1 2) ;;      (*   r.prev, r.next *)
            rnext <- pick env 3 ;; k [None; r; rprev; rnext]);
         (pop_pos_rnext, fun env k =>
            b <- get_next r ;; rnext <- pick [None; r; b] (pop_rnext 0 1 2) ;;
            rprev <- pick env 2 ;; k [None; r; rprev; rnext]);
         (pop_pos_w0, fun env k =>                                                  (* rprev.next = r.next *)
            rprev <- pick env 2 ;; c <- get_next r ;;
            x <- pick (env ++ [c]) (pop_w_rprev_next 0 1 2 3 4) ;; set_next rprev x ;;; k env);
         (pop_pos_w1, fun env k =>                                                  (* rnext.prev = r.prev *)
            rnext <- pick env 3 ;; d <- get_prev r ;;
            y <- pick (env ++ [d]) (pop_w_rnext_prev 0 1 2 3 4) ;; set_prev rnext y ;;; k env);
         (pop_pos_w2, fun env k =>                                                  (* r.prev = r *)
            z <- pick env (pop_w_r_prev 0 1 2 3) ;; set_prev r z ;;; k env);
         (pop_pos_w3, fun env k =>                                                  (* r.next = r *)
            w <- pick env (pop_w_r_next 0 1 2 3) ;; set_next r w ;;; k env) ]
       [None; r; None; None]
       (fun _ => ret tt)
   else ret tt) ;;;
  pick [None; r] (pop_ret 0 1).

(* the loop of At; [back] selects Prev instead of Next, [step] is +1 or -1: the offset is counted
   toward zero and never negated; the budget is the heap size + 1.  [norm] is applied to the new
   counter value: the identity in the model proper, 64-bit two's-complement wrap-around in the
   machine-int variant below.
   names: 0 nil, 1 r, 2 cur, 3 the result of next(cur) *)
Fixpoint at_loop_gen (norm : Z -> Z) (fuel : nat) (back : bool) (step : Z) (r cur : ptr) (n : Z) : M ptr :=
  match fuel with
  | O => if at_more n then out_of_fuel else pick [None; r; cur] (at_ret 0 1 2)
  | S f =>
    if at_more n then
      stepped <- (if back then prev_of cur else next_of cur) ;;
      cur' <- pick [None; r; cur; stepped] (at_adv 0 1 2 3) ;;                       (* cur = next(cur) *)
      if at_wrapped (enc cur') (enc r) then pick [None; r; cur'] (at_ret_wrapped 0 1 2)
      else at_loop_gen norm f back step r cur' (norm (at_dec n step))               (* n -= step *)
    else pick [None; r; cur] (at_ret 0 1 2)
  end.

(* the method value held by At's variable [next]: 1 names Next, 2 names Prev *)
Definition dir_back (d : Z) : M bool :=
  if (d =? 1)%Z then ret false else if (d =? 2)%Z then ret true else fault.

Definition at_gen (norm : Z -> Z) (r : ptr) (n : Z) : M ptr :=
  if at_nil (enc r) znil then pick [None; r] (at_ret_nilrecv 0 1)
  else
    sz <- heap_size ;;
    cur <- pick [None; r] (at_cur_init 0 1) ;;                                       (* cur := r *)
    if at_neg n then                                       (* next, step = Prev, -1 *)
      back <- dir_back (at_dir_back 1 2) ;; at_loop_gen norm (S sz) back at_step_back r cur n
    else                                                   (* next, step := Next, 1 *)
      back <- dir_back (at_dir_fwd 1 2) ;; at_loop_gen norm (S sz) back at_step_fwd r cur n.

Definition at_loop := at_loop_gen (fun z => z).
Definition at_ (r : ptr) (n : Z) : M ptr := at_gen (fun z => z) r n.

(* the same code on 64-bit ints: every new counter value wraps around modulo 2^64 *)
Definition at64 (r : ptr) (n : Z) : M ptr := at_gen wrap64 r n.

Definition peek_gen (norm : Z -> Z) (r : ptr) (n : Z) : M (T * bool) :=
  cur <- at_gen norm r (peek_at_arg n) ;;
  if peek_nil (enc cur) znil then ret (zero, peek_ok_none)
  else v <- get_val cur ;; ret (v, peek_ok_some).
Definition peek (r : ptr) (n : Z) : M (T * bool) := peek_gen (fun z => z) r n.
Definition peek64 (r : ptr) (n : Z) : M (T * bool) := peek_gen wrap64 r n.

(* scan, with the callback as a heap-passing function over an accumulator
   names: 0 nil, 1 r, 2 cur, 3 cur.next *)
Fixpoint scan_loop {A} (fuel : nat) (r : ptr) (f : A -> ptr -> M (A * bool)) (cur : ptr) (acc : A) : M A :=
  match fuel with
  | O => out_of_fuel
  | S fu =>
    x <- f acc cur ;;
    if scan_more (snd x) then
      cn <- get_next cur ;;
      if scan_back (enc cn) (enc r) then ret (fst x)
      else
        cn' <- get_next cur ;;
        cur' <- pick [None; r; cur; cn'] (scan_adv 0 1 2 3) ;;                       (* cur = cur.next *)
        scan_loop fu r f cur' (fst x)
    else ret (fst x)
  end.

Definition scan {A} (r : ptr) (f : A -> ptr -> M (A * bool)) (acc : A) : M A :=
  if scan_nil (enc r) znil then ret acc
  else
    sz <- heap_size ;;
    cur <- pick [None; r] (scan_cur_init 0 1) ;;                                     (* cur := r *)
    scan_loop (S sz) r f cur acc.

(* Each, with a callback that returns false on its [lim]-th call (never, when lim = 0);
   the result is the list of values the callback received. *)
Definition each (r : ptr) (lim : nat) : M (list T) :=
  rr <- pick [None; r] (each_scan_arg 0 1) ;;                                        (* scan(r, ...) *)
  x <- scan rr (fun (acc : list T * nat) cur =>
                 v <- get_val cur ;;
                 ret ((fst acc ++ [v], S (snd acc)), each_cb_ret (negb (Nat.eqb (S (snd acc)) lim))))
            ([], O) ;;
  ret (fst x).

Definition len (r : ptr) : M Z :=
  if len_nil (enc r) znil then ret len_ret_nil
  else
    rr <- pick [None; r] (len_scan_arg 0 1) ;;                                       (* scan(r, ...) *)
    n <- scan rr (fun (n : Z) _ => ret (len_inc n, len_cb_ret)) 0%Z ;;               (* var n int; n++ *)
    ret (len_ret n).

Definition is_empty (r : ptr) : M bool := ret (isempty_ret (enc r) znil).

Definition exec (h : heap) (o : op) : heap * out :=
  match o with
  | ONew n => to_out RPtr (new n h)
  | OOf vs => to_out RPtr (of vs h)
  | OJoin r s => to_out RPtr (join r s h)
  | OPop r => to_out RPtr (pop r h)
  | ONext r => to_out RPtr (next_of r h)
  | OPrev r => to_out RPtr (prev_of r h)
  | OAt r n => to_out RPtr (at_ r n h)
  | OPeek r n => to_out (fun x => RPeek (fst x) (snd x)) (peek r n h)
  | OLen r => to_out RLen (len r h)
  | OEach r lim => to_out REach (each r lim h)
  | OIsEmpty r => to_out RBool (is_empty r h)
  end.

Definition step (h : heap) (o : op) : heap * out :=
  if forallb (ptr_ok h) (op_ptrs o) then exec h o else (h, RFault).

Fixpoint run (h : heap) (ops : list op) : list out :=
  match ops with
  | [] => []
  | o :: ops' => let (h', r) := step h o in r :: run h' ops'
  end.

End Model.

Arguments of_loop {T}. Arguments join {T}. Arguments pop {T}. Arguments next_of {T}. Arguments prev_of {T}.
Arguments at_loop_gen {T}. Arguments at_gen {T}. Arguments at_loop {T}. Arguments at_ {T}. Arguments at64 {T}. Arguments scan_loop {T A}. Arguments scan {T A}.
Arguments each {T}. Arguments len {T}. Arguments is_empty {T}.
