(* Machine ints in At/Peek: the model counts the offset in unbounded Z; the Go code counts it in
   int (64 bits).  The offset is moved toward zero one step at a time and never negated, so for
   every starting offset in [-2^63, 2^63) no counter value leaves that range, and the loop run with
   64-bit wrap-around arithmetic ([at64], [peek64]) is the loop of the model -- on every heap, for
   every receiver, including the minimum int. *)
From Coq Require Import ZArith List Bool Arith Lia.
Import ListNotations.
From Mds Require Import Gen.RingIdx Ring.RingBase Ring.RingPlain.

Definition int64 (z : Z) : Prop := (- 2 ^ 63 <= z < 2 ^ 63)%Z.

Lemma pow63 : (2 ^ 63 = 9223372036854775808)%Z. Proof. reflexivity. Qed.
Lemma pow64 : (2 ^ 64 = 18446744073709551616)%Z. Proof. reflexivity. Qed.

Lemma wrap64_id : forall z, int64 z -> wrap64 z = z.
Proof.
  intros z H. unfold int64, wrap64 in *. rewrite pow63, pow64 in *.
  rewrite Z.mod_small by lia. lia.
Qed.

(* the direction chosen for an offset and the invariant it maintains *)
Definition dir_ok (step n : Z) : Prop := ((step = 1 /\ 0 <= n) \/ (step = -1 /\ n <= 0))%Z.

Lemma at_counter_step : forall n step, int64 n -> dir_ok step n -> at_more n = true ->
  int64 (at_dec n step) /\ dir_ok step (at_dec n step).
Proof.
  intros n step Hn Hd Hm. unfold int64, dir_ok, at_more, at_dec in *. rewrite pow63 in *.
  apply negb_true_iff in Hm. apply Z.eqb_neq in Hm. lia.
Qed.

Lemma at_dir_initial : forall n, dir_ok (if at_neg n then at_step_back else at_step_fwd) n.
Proof.
  intro n. unfold dir_ok, at_neg, at_step_back, at_step_fwd. destruct (Z.ltb_spec n 0); lia.
Qed.

(* stated on the generated definitions alone: one iteration from an in-range counter yields an
   in-range counter that is zero or has the same sign (so the same step applies again) *)
Lemma at_counter_in_range : forall n, int64 n -> at_more n = true ->
  let step := if at_neg n then at_step_back else at_step_fwd in
  int64 (at_dec n step) /\ (at_dec n step = 0%Z \/ at_neg (at_dec n step) = at_neg n).
Proof.
  intros n Hn Hm step. destruct (at_counter_step n step Hn (at_dir_initial n) Hm) as [H1 H2].
  split; [exact H1|]. unfold step, dir_ok, at_neg, at_dec, at_step_back, at_step_fwd in *.
  apply negb_true_iff in Hm. apply Z.eqb_neq in Hm.
  destruct (Z.ltb_spec n 0).
  - destruct (Z.ltb_spec (n - - (1)) 0); [right; reflexivity|left; lia].
  - right. destruct (Z.ltb_spec (n - 1) 0); [lia|reflexivity].
Qed.

(* New: the counter n is only decremented while n > 1, so from an int64 argument every counter
   value is an int64 in [1, n]; Of passes a length, which is never negative. *)
Lemma new_counter_in_range : forall n, int64 n -> new_nonpos n = false -> new_more n = true ->
  int64 (new_dec n) /\ new_nonpos (new_dec n) = false /\ (1 <= new_dec n < n)%Z.
Proof.
  unfold int64, new_nonpos, new_more, new_dec. intros n Hn Hp Hm.
  apply Z.leb_gt in Hp. apply Z.gtb_lt in Hm. split; [lia|]. split; [apply Z.leb_gt; lia|lia].
Qed.

Lemma new_nonpos_nil : forall n, (n <= 0)%Z -> new_nonpos n = true.
Proof. intros n H. unfold new_nonpos. apply Z.leb_le. exact H. Qed.

Section Width.
Variable T : Type.
Variable zero : T.

Lemma at_loop_width : forall fuel back step (r cur : ptr) n (h : heap T),
  int64 n -> dir_ok step n ->
  at_loop_gen wrap64 fuel back step r cur n h = at_loop_gen (fun z => z) fuel back step r cur n h.
Proof.
  induction fuel as [|fuel IH]; intros back step r cur n h Hn Hd; [reflexivity|].
  cbn [at_loop_gen]. destruct (at_more n) eqn:Hm; [|reflexivity].
  unfold bind. destruct ((if back then prev_of cur else next_of cur) h) as [h' [c| | |]]; try reflexivity.
  destruct (at_wrapped (enc c) (enc r)); [reflexivity|].
  destruct (at_counter_step n step Hn Hd Hm) as [H1 H2].
  rewrite (wrap64_id _ H1). apply IH; assumption.
Qed.

Theorem at_width : forall (r : ptr) n (h : heap T), int64 n -> at64 r n h = at_ r n h.
Proof.
  intros r n h Hn. unfold at64, at_, at_gen. destruct (at_nil (enc r) znil); [reflexivity|].
  unfold bind, heap_size. pose proof (at_dir_initial n) as Hd.
  destruct (at_neg n); apply at_loop_width; assumption.
Qed.

Theorem peek_width : forall (r : ptr) n (h : heap T), int64 n -> peek64 T zero r n h = peek T zero r n h.
Proof.
  intros r n h Hn. unfold peek64, peek, peek_gen, bind.
  change (at_gen wrap64 r n h) with (at64 r n h). rewrite (at_width r n h Hn). reflexivity.
Qed.

End Width.
