(* The documented pictures as single steps, read off the refinement lemmas: on a heap represented
   by cycles listed with the handle's cycle first, each operation returns what the Go doc says and
   leaves a heap represented by the documented cycles (all other cycles and all values as before). *)
From Coq Require Import ZArith List Bool Arith Lia Permutation.
Import ListNotations.
From Mds Require Import Gen.RingIdx Ring.RingBase Ring.RingPlain Ring.RingSpec Ring.RingProofsBase Ring.RingProofsRep
  Ring.RingProofsObs Ring.RingProofsOps Ring.RingProofsNew Ring.RingProofs.

Section Pictures.
Variable T : Type.
Variable zero : T.
Notation heap := (heap T).
Notation Rep := (Rep T).

Lemma split_at_notin : forall x l, ~ In x l -> split_at x l = None.
Proof.
  intros x l. induction l as [|y t IH]; intros H; [reflexivity|]. cbn.
  destruct (Nat.eqb_spec y x) as [->|Hne]; [exfalso; apply H; left; reflexivity|].
  rewrite IH; [reflexivity|]. intro Hi. apply H. right. exact Hi.
Qed.

Lemma split_at_app : forall x l1 l2, ~ In x l1 -> split_at x (l1 ++ x :: l2) = Some (l1, l2).
Proof.
  intros x l1 l2. induction l1 as [|y t IH]; intros H; cbn.
  - rewrite Nat.eqb_refl. reflexivity.
  - destruct (Nat.eqb_spec y x) as [->|Hne]; [exfalso; apply H; left; reflexivity|].
    rewrite IH; [reflexivity|]. intro Hi. apply H. right. exact Hi.
Qed.

Lemma head_cycle : forall (r : addr) t others, cycle_from ((r :: t) :: others) r = Some (r :: t, others).
Proof. intros. cbn [cycle_from split_at]. rewrite Nat.eqb_refl. rewrite app_nil_r. reflexivity. Qed.

Lemma rep_head_facts : forall (h : heap) c others vals n, Rep h (mkA (c :: others) vals n) ->
  NoDup (c ++ concat others) /\ (forall x, In x (c ++ concat others) -> x < size h).
Proof.
  intros h c others vals n R. destruct (perm_seq_facts _ _ (rep_perm _ _ _ R)) as [Hnd [Hin _]].
  cbn [cycles concat] in *. split; [exact Hnd|]. intros x Hx. apply Hin. exact Hx.
Qed.

Lemma ok_of_lt : forall (h : heap) (a : addr), a < size h -> ptr_ok h (Some a) = true.
Proof. intros. cbn. apply Nat.ltb_lt. assumption. Qed.

(* Join, different rings: [r A] and [s B] become [r s B A]; the result is the old successor of r
   (r itself when A is empty) *)
Theorem join_different_picture : forall (h : heap) vals n (r : addr) A (s : addr) B others,
  Rep h (mkA ((r :: A) :: (s :: B) :: others) vals n) ->
  exists h', join (Some r) (Some s) h = (h', Ok (Some (hd r A))) /\
             Rep h' (mkA ((r :: s :: B ++ A) :: others) vals n).
Proof.
  intros h vals n r A s B others R.
  destruct (rep_head_facts _ _ _ _ _ R) as [Hnd Hlt]. cbn [concat] in Hnd, Hlt.
  assert (Hr : r < size h) by (apply Hlt; left; reflexivity).
  assert (Hs : s < size h) by (apply Hlt; apply in_or_app; right; left; reflexivity).
  destruct (nodup_app _ _ Hnd) as [_ [_ Hdis]].
  assert (Hsn : ~ In s (r :: A)).
  { intro Hi. apply (Hdis s Hi). apply in_or_app. left. left. reflexivity. }
  assert (Hrs : r <> s) by (intro E; apply Hsn; left; exact E).
  pose proof (join_sim T h _ (Some r) (Some s) R (ok_of_lt h r Hr) (ok_of_lt h s Hs)) as [Ho HR].
  assert (Ea : a_join T (mkA ((r :: A) :: (s :: B) :: others) vals n) (Some r) (Some s)
               = (mkA ((r :: s :: B ++ A) :: others) vals n, RPtr (Some (hd r A)))).
  { unfold a_join. cbn [cycles avals acount]. rewrite (proj2 (Nat.eqb_neq r s)) by assumption.
    rewrite (head_cycle r A). cbn [tl].
    rewrite (split_at_notin s A) by (intro Hi; apply Hsn; right; exact Hi).
    rewrite (head_cycle s B). reflexivity. }
  rewrite Ea in Ho, HR. cbn [snd fst] in *.
  destruct (join (Some r) (Some s) h) as [h' [p| | |]]; cbn [to_out snd fst] in *; try discriminate.
  inversion Ho; subst p. exists h'. split; [reflexivity|exact HR].
Qed.

(* Join, same ring: from [r x L1 s L2] the stretch [x L1] is cut out, leaving [r s L2]; the
   result is x *)
Theorem join_same_picture : forall (h : heap) vals n (r x : addr) L1 (s : addr) L2 others,
  Rep h (mkA ((r :: (x :: L1) ++ s :: L2) :: others) vals n) ->
  exists h', join (Some r) (Some s) h = (h', Ok (Some x)) /\
             Rep h' (mkA ((r :: s :: L2) :: (x :: L1) :: others) vals n).
Proof.
  intros h vals n r x L1 s L2 others R.
  destruct (rep_head_facts _ _ _ _ _ R) as [Hnd Hlt].
  destruct (nodup_app _ _ Hnd) as [Hndc _].
  assert (Hr : r < size h) by (apply Hlt; left; reflexivity).
  assert (Hs : s < size h).
  { apply Hlt. apply in_or_app. left. right. apply in_or_app. right. left. reflexivity. }
  inversion Hndc as [|? ? Hrn Hnd1]; subst.
  assert (Hrs : r <> s) by (intro E; apply Hrn; rewrite E; apply (in_or_app (x :: L1) (s :: L2)); right; left; reflexivity).
  destruct (nodup_app (x :: L1) (s :: L2) Hnd1) as [_ [Hnd2 Hdis]].
  assert (Hsn : ~ In s (x :: L1)).
  { intro Hi. apply (Hdis s Hi). left. reflexivity. }
  pose proof (join_sim T h _ (Some r) (Some s) R (ok_of_lt h r Hr) (ok_of_lt h s Hs)) as [Ho HR].
  assert (Ea : a_join T (mkA ((r :: (x :: L1) ++ s :: L2) :: others) vals n) (Some r) (Some s)
               = (mkA ((r :: s :: L2) :: (x :: L1) :: others) vals n, RPtr (Some x))).
  { unfold a_join. cbn [cycles avals acount]. rewrite (proj2 (Nat.eqb_neq r s)) by assumption.
    rewrite (head_cycle r). cbn [tl].
    rewrite (split_at_app s (x :: L1) L2 Hsn). reflexivity. }
  rewrite Ea in Ho, HR. cbn [snd fst] in *.
  destruct (join (Some r) (Some s) h) as [h' [p| | |]]; cbn [to_out snd fst] in *; try discriminate.
  inversion Ho; subst p. exists h'. split; [reflexivity|exact HR].
Qed.

(* Join returns nil and changes nothing when s is r or the successor of r *)
Theorem join_nothing_between_picture : forall (h : heap) st (r s : addr),
  Rep h st -> r < size h -> (s = r \/ nx T h r = Some s) ->
  join (Some r) (Some s) h = (h, Ok None).
Proof.
  intros h st r s R Hr Hcase.
  assert (Hs : s < size h).
  { destruct Hcase as [->|Hn]; [exact Hr|]. destruct (rep_inverse T h st R r Hr) as [[b [Hb [Hn' _]]] _]. congruence. }
  unfold join. destruct (Nat.eqb_spec r s) as [->|Hne].
  - cbn [ptr_eqb]. rewrite Nat.eqb_refl. erewrite bind_ok by reflexivity.
    unfold join_early. rewrite !enc_eqb. cbn [ptr_eqb]. rewrite Nat.eqb_refl. reflexivity.
  - destruct Hcase as [E|Hn]; [congruence|]. cbn [ptr_eqb]. rewrite (proj2 (Nat.eqb_neq r s)) by assumption.
    erewrite bind_ok by (apply get_next_ok; exact Hr). rewrite Hn.
    unfold join_early. rewrite !enc_eqb. cbn [ptr_eqb]. rewrite Nat.eqb_refl. rewrite orb_true_r. reflexivity.
Qed.

(* Pop: r leaves its cycle and becomes a cycle of its own; the rest keeps its order *)
Theorem pop_picture : forall (h : heap) vals n (r y : addr) t others,
  Rep h (mkA ((r :: y :: t) :: others) vals n) ->
  exists h', pop (Some r) h = (h', Ok (Some r)) /\
             Rep h' (mkA ([r] :: (y :: t) :: others) vals n).
Proof.
  intros h vals n r y t others R.
  destruct (rep_head_facts _ _ _ _ _ R) as [Hnd Hlt].
  assert (Hr : r < size h) by (apply Hlt; left; reflexivity).
  pose proof (pop_sim T h _ (Some r) R (ok_of_lt h r Hr)) as [Ho HR].
  assert (Ea : a_pop T (mkA ((r :: y :: t) :: others) vals n) (Some r)
               = (mkA ([r] :: (y :: t) :: others) vals n, RPtr (Some r))).
  { unfold a_pop. cbn [cycles avals acount]. rewrite (head_cycle r). reflexivity. }
  rewrite Ea in Ho, HR. cbn [snd fst] in *.
  destruct (pop (Some r) h) as [h' [p| | |]]; cbn [to_out snd fst] in *; try discriminate.
  inversion Ho; subst p. exists h'. split; [reflexivity|exact HR].
Qed.

(* At / Peek / Len / Each on the cycle [r t] read from r *)
Theorem observers_picture : forall (h : heap) vals n (r : addr) t others k lim,
  Rep h (mkA ((r :: t) :: others) vals n) ->
  at_ (Some r) k h = (h, Ok (offset (r :: t) k)) /\
  peek T zero (Some r) k h =
    (h, Ok (match offset (r :: t) k with Some x => (vals x, true) | None => (zero, false) end)) /\
  len (Some r) h = (h, Ok (Z.of_nat (length (r :: t)))) /\
  each (Some r) lim h = (h, Ok (map vals (match lim with O => r :: t | _ => firstn lim (r :: t) end))) /\
  next_of (Some r) h = (h, Ok (Some (hd r t))) /\
  prev_of (Some r) h = (h, Ok (Some (last t r))).
Proof.
  intros h vals n r t others k lim R.
  destruct (rep_head_facts _ _ _ _ _ R) as [Hnd Hlt].
  assert (Hr : r < size h) by (apply Hlt; left; reflexivity).
  pose proof (ok_of_lt h r Hr) as Hok.
  assert (E : cycle_from (cycles (mkA ((r :: t) :: others) vals n)) r = Some (r :: t, others)).
  { cbn [cycles]. apply head_cycle. }
  repeat split.
  - pose proof (at_sim T h _ (Some r) k R Hok) as [Ho HR]. unfold a_at, with_cycle in Ho. rewrite E in Ho.
    destruct (at_spec T h _ r k R Hr) as [t' [rest' [E' Hrun]]]. rewrite E in E'. inversion E'; subst. exact Hrun.
  - destruct (at_spec T h _ r k R Hr) as [t' [rest' [E' Hrun]]]. rewrite E in E'. inversion E'; subst t' rest'.
    unfold peek, peek_gen. erewrite bind_ok by exact Hrun. unfold peek_nil. rewrite enc_nil.
    destruct (offset (r :: t) k) as [x|] eqn:Eo; [|reflexivity].
    assert (Hx : x < size h) by (apply Hlt; apply in_or_app; left; apply (offset_in _ _ _ Eo)).
    erewrite bind_ok by (apply get_val_ok; apply (rep_val _ _ _ R); exact Hx). reflexivity.
  - pose proof (len_sim T h _ (Some r) R Hok) as [Ho HR]. unfold a_len, with_cycle in Ho. rewrite E in Ho.
    destruct (scan_spec T Z (fun n _ => (len_inc n, true)) (fun n _ => ret (len_inc n, true)) h _ r 0%Z R Hr)
      as [t' [rest' [E' Hrun]]]; [reflexivity|]. rewrite E in E'. inversion E'; subst t' rest'.
    unfold len, len_nil. rewrite enc_nil. erewrite bind_ok by exact Hrun. unfold ret. rewrite len_pure. reflexivity.
  - pose proof (each_sim T h _ (Some r) lim R Hok) as [Ho HR]. unfold a_each, with_cycle in Ho. rewrite E in Ho.
    cbn [avals] in Ho.
    destruct (each (Some r) lim h) as [h' [vs| | |]] eqn:Ee; cbn [to_out snd fst] in *; try discriminate.
    inversion Ho; subst vs.
    assert (h' = h); [|subst; reflexivity].
    unfold each in Ee.
    match type of Ee with context [scan _ ?g0 _] => set (g := g0) in * end.
    destruct (scan_spec T (list T * nat)
              (fun acc x => ((fst acc ++ [vals x], S (snd acc)), negb (Nat.eqb (S (snd acc)) lim)))
              g h _ r ([], 0) R Hr) as [t' [rest' [E' Hrun]]].
    + intros acc x Hx. unfold g. erewrite bind_ok by (apply get_val_ok; apply (rep_val _ _ _ R); exact Hx). reflexivity.
    + erewrite bind_ok in Ee by exact Hrun. unfold ret in Ee. inversion Ee. reflexivity.
  - pose proof (rep_cyc _ _ _ R) as F. cbn [cycles] in F. inversion F as [|? ? Hc _]; subst.
    unfold next_of. rewrite get_next_ok by exact Hr. rewrite (cyc_nx T h r t Hc). reflexivity.
  - pose proof (rep_cyc _ _ _ R) as F. cbn [cycles] in F. inversion F as [|? ? Hc _]; subst.
    unfold prev_of. rewrite get_prev_ok by exact Hr. rewrite (cyc_pv T h r t Hc). reflexivity.
Qed.

(* any listing of the cycles will do: rotating a cycle or permuting the list keeps Rep *)
Theorem rep_rotate : forall (h : heap) l1 x l2 others vals n,
  Rep h (mkA ((l1 ++ x :: l2) :: others) vals n) -> Rep h (mkA ((x :: l2 ++ l1) :: others) vals n).
Proof.
  intros h l1 x l2 others vals n R. constructor; cbn [acount cycles avals].
  - exact (rep_count _ _ _ R).
  - eapply perm_trans; [|exact (rep_perm _ _ _ R)]. cbn [cycles concat]. apply Permutation_app_tail.
    change (x :: l2 ++ l1) with ((x :: l2) ++ l1). apply Permutation_app_comm.
  - pose proof (rep_cyc _ _ _ R) as F. cbn [cycles] in F. inversion F; subst. constructor; [|assumption].
    apply cyc_rot. assumption.
  - exact (rep_val _ _ _ R).
Qed.

Theorem rep_permute : forall (h : heap) cs cs' vals n,
  Permutation cs cs' -> Rep h (mkA cs vals n) -> Rep h (mkA cs' vals n).
Proof.
  intros h cs cs' vals n P R. constructor; cbn [acount cycles avals].
  - exact (rep_count _ _ _ R).
  - eapply perm_trans; [|exact (rep_perm _ _ _ R)]. cbn [cycles].
    clear R. induction P; cbn [concat].
    + constructor.
    + apply Permutation_app_head. exact IHP.
    + rewrite !app_assoc. apply Permutation_app_tail. apply Permutation_app_comm.
    + eapply perm_trans; eassumption.
  - pose proof (rep_cyc _ _ _ R) as F. cbn [cycles] in F.
    apply (Permutation_Forall P). exact F.
  - exact (rep_val _ _ _ R).
Qed.

End Pictures.
