(* Cycles in a heap, the representation relation, and the four-pointer splice shared by Join, Pop
   and the loop body of New. *)
From Coq Require Import ZArith List Bool Arith Lia Permutation.
Import ListNotations.
From Mds Require Import Gen.RingIdx Ring.RingBase Ring.RingPlain Ring.RingSpec Ring.RingProofsBase.

Section RepSec.
Variable T : Type.
Variable zero : T.
Notation heap := (heap T).
Notation nx := (nx T).
Notation pv := (pv T).
Notation vl := (vl T).
Notation path := (path T).
Notation link := (link T).

(* c, read from its first element, is a cycle of the heap: consecutive elements are linked by
   next and prev, and the last one is linked back to the first *)
Definition cyc (h : heap) (c : list addr) : Prop :=
  match c with [] => False | a :: t => path h (a :: t ++ [a]) end.

(* the abstract state describes the heap: the cycles partition the allocated addresses, each is a
   cycle of the heap, and the values agree *)
Record Rep (h : heap) (st : astate T) : Prop := mkRep {
  rep_count : acount st = size h;
  rep_perm : Permutation (concat (cycles st)) (seq 0 (size h));
  rep_cyc : Forall (cyc h) (cycles st);
  rep_val : forall a, a < size h -> vl h a = Some (avals st a)
}.

(* ---- lists ---- *)
Lemma nodup_app : forall (l1 l2 : list addr), NoDup (l1 ++ l2) ->
  NoDup l1 /\ NoDup l2 /\ (forall x, In x l1 -> In x l2 -> False).
Proof.
  induction l1 as [|a l1 IH]; intros l2 H; cbn in *.
  - split; [constructor|]. split; [exact H|]. intros x [].
  - inversion H as [|? ? Hna Hnd]; subst. destruct (IH l2 Hnd) as [H1 [H2 H3]].
    split; [|split; [exact H2|]].
    + constructor; [|exact H1]. intro Hi. apply Hna. apply in_or_app. left. exact Hi.
    + intros x [->|Hx] Hx2.
      * apply Hna. apply in_or_app. right. exact Hx2.
      * exact (H3 x Hx Hx2).
Qed.

Lemma nodup_snoc : forall (l : list addr) a, NoDup (a :: l) -> NoDup (l ++ [a]).
Proof.
  intros l a H. apply (Permutation_NoDup (l:=a :: l)); [|exact H].
  change (a :: l) with ([a] ++ l). apply Permutation_app_comm.
Qed.

Lemma last_cons : forall (l : list addr) a d, last (a :: l) d = last l a.
Proof.
  induction l as [|b l IH]; intros a d; [reflexivity|].
  change (last (a :: b :: l) d) with (last (b :: l) d). rewrite (IH b d). rewrite (IH b a). reflexivity.
Qed.

Lemma hd_snoc : forall (l : list addr) a d, hd d (l ++ [a]) = hd a l.
Proof. intros [|b l] a d; reflexivity. Qed.

Lemma in_last : forall (l : list addr) d, In (last l d) (d :: l).
Proof.
  induction l as [|a l IH]; intros d; [left; reflexivity|].
  right. rewrite last_cons. apply IH.
Qed.

Lemma in_hd : forall (l : list addr) d, In (hd d l) (d :: l).
Proof. intros [|a l] d; cbn; auto. Qed.

(* ---- split_at / cycle_from ---- *)
Lemma split_at_some : forall x l l1 l2, split_at x l = Some (l1, l2) -> l = l1 ++ x :: l2 /\ ~ In x l1.
Proof.
  intros x l. induction l as [|y t IH]; intros l1 l2 E; cbn in E; [discriminate|].
  destruct (Nat.eqb_spec y x) as [->|Hne].
  - inversion E; subst. split; [reflexivity|]. intros [].
  - destruct (split_at x t) as [[m1 m2]|]; [|discriminate]. inversion E; subst.
    destruct (IH m1 l2 eq_refl) as [-> Hni]. split; [reflexivity|].
    intros [Hy|Hi]; [congruence|contradiction].
Qed.

Lemma split_at_none : forall x l, split_at x l = None -> ~ In x l.
Proof.
  intros x l. induction l as [|y t IH]; intros E; cbn in E; [intros []|].
  destruct (Nat.eqb_spec y x) as [->|Hne]; [discriminate|].
  destruct (split_at x t) as [[m1 m2]|]; [discriminate|].
  intros [Hy|Hi]; [congruence|]. exact (IH eq_refl Hi).
Qed.

Lemma split_at_in : forall x l, In x l -> split_at x l <> None.
Proof. intros x l Hi E. exact (split_at_none x l E Hi). Qed.

Lemma path_snoc_assoc : forall h (a : addr) l1 x l2 b,
  path h (a :: (l1 ++ x :: l2) ++ [b]) <-> path h ((a :: l1) ++ [x]) /\ path h (x :: l2 ++ [b]).
Proof.
  intros. replace (a :: (l1 ++ x :: l2) ++ [b]) with ((a :: l1) ++ x :: (l2 ++ [b])).
  - apply path_app.
  - cbn. rewrite <- app_assoc. reflexivity.
Qed.

Lemma cyc_rot : forall h l1 x l2, cyc h (l1 ++ x :: l2) -> cyc h (x :: l2 ++ l1).
Proof.
  intros h [|a l1] x l2 H.
  - rewrite app_nil_r. exact H.
  - cbn in H. apply path_snoc_assoc in H. destruct H as [H1 H2].
    unfold cyc. apply path_snoc_assoc. split; assumption.
Qed.

Lemma cycle_from_some : forall h cs x c rest,
  Forall (cyc h) cs -> cycle_from cs x = Some (c, rest) ->
  cyc h c /\ Forall (cyc h) rest /\ Permutation (concat (c :: rest)) (concat cs) /\ exists t, c = x :: t.
Proof.
  intros h cs x. induction cs as [|c0 cs IH]; intros c rest HF E; cbn in E; [discriminate|].
  inversion HF as [|? ? Hc0 HF']; subst.
  destruct (split_at x c0) as [[l1 l2]|] eqn:Es.
  - inversion E; subst. apply split_at_some in Es. destruct Es as [-> _].
    split; [apply cyc_rot; exact Hc0|]. split; [exact HF'|]. split; [|eexists; reflexivity].
    cbn [concat]. apply Permutation_app_tail.
    change (x :: l2 ++ l1) with ((x :: l2) ++ l1). apply Permutation_app_comm.
  - destruct (cycle_from cs x) as [[c' rest']|]; [|discriminate]. inversion E; subst.
    destruct (IH c rest' HF' eq_refl) as [H1 [H2 [H3 H4]]].
    split; [exact H1|]. split; [constructor; assumption|]. split; [|exact H4].
    cbn [concat] in *. rewrite !app_assoc.
    eapply perm_trans; [apply Permutation_app_tail; apply Permutation_app_comm|].
    rewrite <- !app_assoc. apply Permutation_app_head. exact H3.
Qed.

Lemma cycle_from_none : forall cs x, cycle_from cs x = None -> ~ In x (concat cs).
Proof.
  intros cs x. induction cs as [|c0 cs IH]; intros E; cbn in *; [intros []|].
  destruct (split_at x c0) as [[l1 l2]|] eqn:Es; [discriminate|].
  destruct (cycle_from cs x) as [[c' rest']|]; [discriminate|].
  intro Hi. apply in_app_or in Hi. destruct Hi as [Hi|Hi].
  - exact (split_at_none _ _ Es Hi).
  - exact (IH eq_refl Hi).
Qed.

(* ---- facts read off a representation ---- *)
Lemma rep_in_lt : forall h st a, Rep h st -> (In a (concat (cycles st)) <-> a < size h).
Proof.
  intros h st a R. split; intro H.
  - apply (Permutation_in _ (rep_perm _ _ R)) in H. apply in_seq in H. lia.
  - apply (Permutation_in _ (Permutation_sym (rep_perm _ _ R))). apply in_seq. lia.
Qed.

Lemma rep_nodup : forall h st, Rep h st -> NoDup (concat (cycles st)).
Proof.
  intros h st R. apply (Permutation_NoDup (Permutation_sym (rep_perm _ _ R))). apply seq_NoDup.
Qed.

Lemma cyc_nx : forall h a t, cyc h (a :: t) -> nx h a = Some (hd a t).
Proof. intros h a [|b t] H; cbn in H; destruct H as [[H _] _]; exact H. Qed.

Lemma cyc_pv : forall h a t, cyc h (a :: t) -> pv h a = Some (last t a).
Proof.
  intros h a t H. unfold cyc in H.
  destruct t as [|b t]; [cbn in H; destruct H as [[_ H] _]; exact H|].
  destruct (exists_last (l:=b :: t)) as [t' [z Ez]]; [discriminate|]. rewrite Ez in *.
  rewrite last_last.
  replace (a :: (t' ++ [z]) ++ [a]) with ((a :: t') ++ z :: [a]) in H by (cbn; rewrite <- app_assoc; reflexivity).
  apply path_app in H. destruct H as [_ [[_ H] _]]. exact H.
Qed.

(* ---- the splice ----
   h' is h after the writes  r.next = s, s.prev = r, sp.next = rn, rn.prev = sp  *)
Record spliced (h h' : heap) (r s rn sp : addr) : Prop := mkSpliced {
  sp_nx : forall x, nx h' x = if Nat.eqb x sp then Some rn else if Nat.eqb x r then Some s else nx h x;
  sp_pv : forall x, pv h' x = if Nat.eqb x rn then Some sp else if Nat.eqb x s then Some r else pv h x
}.

Lemma spliced_links : forall h h' r s rn sp, spliced h h' r s rn sp -> r <> sp -> s <> rn ->
  link h' r s /\ link h' sp rn.
Proof.
  intros h h' r s rn sp [Hn Hp] H1 H2. unfold link. rewrite !Hn, !Hp.
  rewrite !Nat.eqb_refl.
  destruct (Nat.eqb_spec r sp); [contradiction|]. destruct (Nat.eqb_spec s rn); [contradiction|].
  auto.
Qed.

Lemma spliced_frame : forall h h' r s rn sp l, spliced h h' r s rn sp -> path h l ->
  (forall x, In x (removelast l) -> x <> sp /\ x <> r) ->
  (forall y, In y (tl l) -> y <> rn /\ y <> s) ->
  path h' l.
Proof.
  intros h h' r s rn sp l [Hn Hp] Hl H1 H2. apply (path_frame T h h' l Hl).
  - intros x Hx. destruct (H1 x Hx) as [Ha Hb]. rewrite Hn.
    destruct (Nat.eqb_spec x sp); [contradiction|]. destruct (Nat.eqb_spec x r); [contradiction|]. reflexivity.
  - intros y Hy. destruct (H2 y Hy) as [Ha Hb]. rewrite Hp.
    destruct (Nat.eqb_spec y rn); [contradiction|]. destruct (Nat.eqb_spec y s); [contradiction|]. reflexivity.
Qed.

Lemma spliced_other : forall h h' r s rn sp c, spliced h h' r s rn sp -> cyc h c ->
  ~ In r c -> ~ In s c -> ~ In rn c -> ~ In sp c -> cyc h' c.
Proof.
  intros h h' r s rn sp [|a t] [Hn Hp] Hc H1 H2 H3 H4; [exact Hc|].
  unfold cyc in *. apply (path_same T h h' _ Hc). intros x Hx.
  assert (Hin : In x (a :: t)).
  { destruct Hx as [->|Hx]; [left; reflexivity|]. apply in_app_or in Hx. destruct Hx as [Hx|[->|[]]]; [right; exact Hx|left; reflexivity]. }
  rewrite Hn, Hp.
  destruct (Nat.eqb_spec x sp); [subst; contradiction|]. destruct (Nat.eqb_spec x r); [subst; contradiction|].
  destruct (Nat.eqb_spec x rn); [subst; contradiction|]. destruct (Nat.eqb_spec x s); [subst; contradiction|].
  auto.
Qed.

(* different cycles: [r A] and [s B] become [r s B A] *)
Lemma splice_diff : forall h h' r s A B,
  spliced h h' r s (hd r A) (last B s) ->
  cyc h (r :: A) -> cyc h (s :: B) -> NoDup ((r :: A) ++ (s :: B)) ->
  cyc h' (r :: (s :: B) ++ A).
Proof.
  intros h h' r s A B HS HcA HcB Hnd.
  destruct (nodup_app _ _ Hnd) as [HndA [HndB Hdis]].
  set (rn := hd r A) in *. set (sp := last B s) in *.
  assert (Hrn : In rn (r :: A)) by apply in_hd.
  assert (Hsp : In sp (s :: B)) by apply in_last.
  assert (Hr : In r (r :: A)) by (left; reflexivity).
  assert (Hs : In s (s :: B)) by (left; reflexivity).
  assert (Hne1 : r <> sp) by (intro E; apply (Hdis r Hr); rewrite E; exact Hsp).
  assert (Hne2 : s <> rn) by (intro E; apply (Hdis rn Hrn); rewrite <- E; exact Hs).
  destruct (spliced_links _ _ _ _ _ _ HS Hne1 Hne2) as [Lrs Lsr].
  (* old paths *)
  unfold cyc in HcA, HcB.
  assert (PA : path h (A ++ [r])).
  { destruct A as [|a A]; [exact I|]. cbn in HcA. destruct HcA as [_ HcA]. exact HcA. }
  destruct (exists_last (l:=s :: B)) as [B0 [z Ez]]; [discriminate|].
  assert (Ezsp : z = sp).
  { unfold sp. rewrite <- (last_cons B s s). rewrite Ez. rewrite last_last. reflexivity. }
  subst z.
  assert (PB : path h (s :: B)).
  { change (s :: B ++ [s]) with ((s :: B) ++ [s]) in HcB. rewrite Ez in HcB. rewrite <- app_assoc in HcB.
    cbn [app] in HcB. apply path_app in HcB. destruct HcB as [HcB _]. rewrite <- Ez in HcB. exact HcB. }
  (* new cycle *)
  unfold cyc.
  replace (r :: ((s :: B) ++ A) ++ [r]) with ([r] ++ s :: (B ++ A ++ [r])) by (cbn; rewrite <- app_assoc; reflexivity).
  apply path_app. split; [cbn; auto|].
  change (s :: B ++ A ++ [r]) with ((s :: B) ++ (A ++ [r])). rewrite Ez. rewrite <- app_assoc. cbn [app].
  apply path_app. rewrite <- Ez. split.
  - apply (spliced_frame _ _ _ _ _ _ _ HS PB).
    + intros x Hx. split.
      * apply (nodup_removelast_last _ x s HndB) in Hx. rewrite last_cons in Hx. exact Hx.
      * intro E; subst x. apply in_removelast in Hx. exact (Hdis r Hr Hx).
    + intros y Hy. cbn in Hy. split.
      * intro E; subst y. exact (Hdis rn Hrn (or_intror Hy)).
      * intro E; subst y. inversion HndB; contradiction.
  - assert (HndP : NoDup (A ++ [r])) by (apply nodup_snoc; exact HndA).
    assert (Ehd : hd r (A ++ [r]) = rn) by (apply hd_snoc).
    destruct (A ++ [r]) as [|p P] eqn:EP; [destruct A; discriminate|].
    cbn in Ehd. subst p. split; [exact Lsr|]. fold (path h' (rn :: P)).
    apply (spliced_frame _ _ _ _ _ _ _ HS PA).
    + intros x Hx. rewrite <- EP in Hx. rewrite removelast_last in Hx. split.
      * intro E; subst x. exact (Hdis sp (or_intror Hx) Hsp).
      * intro E; subst x. inversion HndA; contradiction.
    + intros y Hy. split.
      * apply (nodup_tl_hd _ y r HndP Hy).
      * intro E; subst y. apply (Hdis s); [|exact Hs].
        assert (In s (A ++ [r])) by (rewrite EP; right; exact Hy).
        apply in_app_or in H. destruct H as [H|[<-|[]]]; [right; exact H|left; reflexivity].
Qed.

(* same cycle: [r l1 l2] with s the element after l1 (r itself when l2 is empty) becomes
   [r l2] and [l1] *)
Lemma splice_same : forall h h' r s l1 l2 d,
  l1 <> [] ->
  spliced h h' r s (hd d l1) (last l1 d) ->
  s = hd r l2 ->
  cyc h (r :: l1 ++ l2) -> NoDup (r :: l1 ++ l2) ->
  cyc h' (r :: l2) /\ cyc h' l1.
Proof.
  intros h h' r s l1 l2 d Hne HS Es Hc Hnd.
  inversion Hnd as [|? ? Hrni Hnd12]; subst x l.
  destruct (nodup_app _ _ Hnd12) as [Hnd1 [Hnd2 Hdis]].
  assert (Hr1 : ~ In r l1) by (intro Hi; apply Hrni; apply in_or_app; left; exact Hi).
  assert (Hr2 : ~ In r l2) by (intro Hi; apply Hrni; apply in_or_app; right; exact Hi).
  destruct l1 as [|x l1']; [contradiction|]. clear Hne.
  set (l1 := x :: l1') in *.
  assert (Ern : hd d l1 = x) by reflexivity. rewrite Ern in HS.
  set (sp := last l1 d) in *.
  assert (Hsp : In sp l1).
  { unfold sp, l1. rewrite last_cons. apply in_last. }
  assert (Hx : In x l1) by (left; reflexivity).
  assert (HsP : In s (l2 ++ [r])).
  { rewrite Es. rewrite <- (hd_snoc l2 r r). destruct (l2 ++ [r]) eqn:E; [destruct l2; discriminate|]. left. reflexivity. }
  assert (Hdis' : forall z, In z l1 -> In z (l2 ++ [r]) -> False).
  { intros z Hz1 Hz2. apply in_app_or in Hz2. destruct Hz2 as [Hz2|[<-|[]]]; [exact (Hdis z Hz1 Hz2)|exact (Hr1 Hz1)]. }
  assert (Hne1 : r <> sp) by (intro E; apply Hr1; rewrite E; exact Hsp).
  assert (Hne2 : s <> x) by (intro E; apply (Hdis' x Hx); rewrite <- E; exact HsP).
  destruct (spliced_links _ _ _ _ _ _ HS Hne1 Hne2) as [Lrs Lsx].
  assert (HndP : NoDup (l2 ++ [r])) by (apply nodup_snoc; constructor; assumption).
  (* old paths *)
  unfold cyc in Hc.
  replace (r :: (l1 ++ l2) ++ [r]) with (r :: l1 ++ (l2 ++ [r])) in Hc by (rewrite <- app_assoc; reflexivity).
  assert (Ehd : hd r (l2 ++ [r]) = s) by (rewrite Es; apply hd_snoc).
  destruct (l2 ++ [r]) as [|p P] eqn:EP; [destruct l2; discriminate|].
  cbn in Ehd. subst p.
  unfold l1 in Hc. cbn [app] in Hc.
  change (path h (r :: x :: l1' ++ s :: P)) with (link h r x /\ path h ((x :: l1') ++ s :: P)) in Hc.
  destruct Hc as [_ Hc]. fold l1 in Hc. apply path_app in Hc. destruct Hc as [Hc1 PP].
  destruct (exists_last (l:=l1)) as [L0 [z Ez]]; [discriminate|].
  assert (Ezsp : z = sp) by (unfold sp; rewrite Ez; rewrite last_last; reflexivity). subst z.
  assert (P1 : path h l1).
  { rewrite Ez in Hc1. rewrite <- app_assoc in Hc1. cbn [app] in Hc1. apply path_app in Hc1.
    destruct Hc1 as [Hc1 _]. rewrite <- Ez in Hc1. exact Hc1. }
  split.
  - unfold cyc. rewrite EP.
    change (path h' (r :: s :: P)) with (link h' r s /\ path h' (s :: P)). split; [exact Lrs|].
    apply (spliced_frame _ _ _ _ _ _ _ HS PP).
    + intros y Hy. rewrite <- EP in Hy. rewrite removelast_last in Hy. split.
      * intro E; subst y. exact (Hdis sp Hsp Hy).
      * intro E; subst y. exact (Hr2 Hy).
    + intros y Hy. split.
      * intro E; subst y. apply (Hdis' x Hx). right. exact Hy.
      * apply (nodup_tl_hd _ y s HndP Hy).
  - unfold cyc, l1.
    change (x :: l1' ++ [x]) with (l1 ++ [x]). rewrite Ez. rewrite <- app_assoc. cbn [app].
    apply path_app. rewrite <- Ez. split; [|cbn; auto].
    apply (spliced_frame _ _ _ _ _ _ _ HS P1).
    + intros y Hy. split.
      * apply (nodup_removelast_last _ y d Hnd1 Hy).
      * intro E; subst y. apply Hr1. apply in_removelast. exact Hy.
    + intros y Hy. split.
      * apply (nodup_tl_hd _ y d Hnd1 Hy).
      * intro E; subst y. apply (Hdis' s); [right; exact Hy|left; reflexivity].
Qed.

End RepSec.
