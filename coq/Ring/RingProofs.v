(* Every operation refines the abstract cyclic-sequence semantics; refinement over histories;
   consequences (no hang, Next/Prev mutually inverse in every reachable heap, the pictures of
   Join and Pop as single steps). *)
From Coq Require Import ZArith List Bool Arith Lia Permutation.
Import ListNotations.
From Mds Require Import Gen.RingIdx Ring.RingBase Ring.RingPlain Ring.RingSpec Ring.RingProofsBase Ring.RingProofsRep
  Ring.RingProofsObs Ring.RingProofsOps Ring.RingProofsNew.

Section Main.
Variable T : Type.
Variable zero : T.
Notation heap := (heap T).
Notation nx := (nx T).
Notation pv := (pv T).
Notation vl := (vl T).
Notation cyc := (cyc T).
Notation Rep := (Rep T).
Notation sim := (sim T).

Lemma next_sim : forall h st r, Rep h st -> ptr_ok h r = true ->
  sim (to_out RPtr (next_of r h)) (a_next T st r).
Proof.
  intros h st [a|] R Hr; cbn [ptr_ok] in *; [|split; [reflexivity|exact R]].
  apply Nat.ltb_lt in Hr. destruct (rep_cycle T h st a R Hr) as [t [rest [E [Hc _]]]].
  unfold a_next, with_cycle, next_of. rewrite E. rewrite get_next_ok by exact Hr.
  rewrite (cyc_nx T h a t Hc). split; [reflexivity|exact R].
Qed.

Lemma prev_sim : forall h st r, Rep h st -> ptr_ok h r = true ->
  sim (to_out RPtr (prev_of r h)) (a_prev T st r).
Proof.
  intros h st [a|] R Hr; cbn [ptr_ok] in *; [|split; [reflexivity|exact R]].
  apply Nat.ltb_lt in Hr. destruct (rep_cycle T h st a R Hr) as [t [rest [E [Hc _]]]].
  unfold a_prev, with_cycle, prev_of. rewrite E. rewrite get_prev_ok by exact Hr.
  rewrite (cyc_pv T h a t Hc). rewrite last_cons. split; [reflexivity|exact R].
Qed.

Lemma at_sim : forall h st r n, Rep h st -> ptr_ok h r = true ->
  sim (to_out RPtr (at_ r n h)) (a_at T st r n).
Proof.
  intros h st [a|] n R Hr; cbn [ptr_ok] in *; [|split; [reflexivity|exact R]].
  apply Nat.ltb_lt in Hr. destruct (at_spec T h st a n R Hr) as [t [rest [E Hrun]]].
  unfold a_at, with_cycle. rewrite E, Hrun. split; [reflexivity|exact R].
Qed.

Lemma peek_sim : forall h st r n, Rep h st -> ptr_ok h r = true ->
  sim (to_out (fun x => RPeek (fst x) (snd x)) (peek T zero r n h)) (a_peek T zero st r n).
Proof.
  intros h st [a|] n R Hr; cbn [ptr_ok] in *; [|split; [reflexivity|exact R]].
  apply Nat.ltb_lt in Hr. destruct (at_spec T h st a n R Hr) as [t [rest [E Hrun]]].
  destruct (rep_cycle T h st a R Hr) as [t' [rest' [E' [_ [_ P]]]]].
  rewrite E in E'. inversion E'; subst t' rest'. clear E'.
  destruct (cycle_facts T h a t rest P) as [_ [Hlt _]].
  unfold a_peek, with_cycle, peek, peek_gen. rewrite E. erewrite bind_ok by exact Hrun.
  unfold peek_nil. rewrite enc_nil.
  destruct (offset (a :: t) n) as [x|] eqn:Eo.
  - assert (Hx : x < size h) by (apply Hlt; apply (offset_in _ _ _ Eo)).
    erewrite bind_ok by (apply get_val_ok; apply (rep_val _ _ _ R); exact Hx).
    split; [reflexivity|exact R].
  - split; [reflexivity|exact R].
Qed.

Lemma len_sim : forall h st r, Rep h st -> ptr_ok h r = true ->
  sim (to_out RLen (len r h)) (a_len T st r).
Proof.
  intros h st [a|] R Hr; cbn [ptr_ok] in *; [|split; [reflexivity|exact R]].
  apply Nat.ltb_lt in Hr.
  destruct (scan_spec T Z (fun n _ => (len_inc n, true)) (fun n _ => ret (len_inc n, true)) h st a 0%Z R Hr)
    as [t [rest [E Hrun]]]; [reflexivity|].
  unfold a_len, with_cycle, len, len_nil. rewrite enc_nil, E. erewrite bind_ok by exact Hrun.
  unfold ret. cbn [to_out]. rewrite len_pure.
  split; [reflexivity|exact R].
Qed.

Lemma each_sim : forall h st r lim, Rep h st -> ptr_ok h r = true ->
  sim (to_out REach (each r lim h)) (a_each T st r lim).
Proof.
  intros h st [a|] lim R Hr; cbn [ptr_ok] in *; [|split; [reflexivity|exact R]].
  apply Nat.ltb_lt in Hr. unfold each.
  match goal with |- context [scan _ ?g0 _] => set (g := g0) end.
  destruct (scan_spec T (list T * nat)
              (fun acc x => ((fst acc ++ [avals st x], S (snd acc)), negb (Nat.eqb (S (snd acc)) lim)))
              g h st a ([], 0) R Hr) as [t [rest [E Hrun]]].
  - intros acc x Hx. unfold g. erewrite bind_ok by (apply get_val_ok; apply (rep_val _ _ _ R); exact Hx).
    reflexivity.
  - unfold a_each, with_cycle. rewrite E. erewrite bind_ok by exact Hrun. unfold ret. cbn [to_out].
    rewrite each_pure. cbn [app]. rewrite Nat.sub_0_r.
    split; [|exact R]. cbn [snd]. destruct lim; reflexivity.
Qed.

Lemma ok_agree : forall h st p, Rep h st -> ptr_ok h p = a_ok st p.
Proof. intros h st [a|] R; [|reflexivity]. cbn. rewrite (rep_count _ _ _ R). reflexivity. Qed.

Lemma forallb_agree : forall (f g : ptr -> bool) l, (forall p, f p = g p) -> forallb f l = forallb g l.
Proof. intros f g l H. induction l as [|p l IH]; [reflexivity|]. cbn. rewrite H, IH. reflexivity. Qed.

Lemma step_sim : forall h st o, Rep h st -> sim (step T zero h o) (a_step T zero st o).
Proof.
  intros h st o R. unfold step, a_step.
  assert (Hg : forallb (ptr_ok h) (op_ptrs o) = forallb (a_ok st) (op_ptrs o)).
  { apply forallb_agree. intro p. apply ok_agree. exact R. }
  rewrite <- Hg. destruct (forallb (ptr_ok h) (op_ptrs o)) eqn:Eg; [|split; [reflexivity|exact R]].
  destruct o; cbn [op_ptrs forallb] in Eg; cbn [exec a_exec];
    repeat (apply andb_prop in Eg; destruct Eg as [? Eg]).
  - apply new_sim. exact R.
  - apply of_sim. exact R.
  - apply join_sim; assumption.
  - apply pop_sim; assumption.
  - apply next_sim; assumption.
  - apply prev_sim; assumption.
  - apply at_sim; assumption.
  - apply peek_sim; assumption.
  - apply len_sim; assumption.
  - apply each_sim; assumption.
  - unfold is_empty, a_is_empty, ret, isempty_ret. rewrite enc_nil. split; [reflexivity|exact R].
Qed.

Lemma rep_empty : Rep empty_heap (a_empty T zero).
Proof. constructor; cbn; auto. intros a Ha. lia. Qed.

Lemma run_sim : forall ops h st, Rep h st -> run T zero h ops = a_run T zero st ops.
Proof.
  induction ops as [|o ops IH]; intros h st R; [reflexivity|]. cbn [run a_run].
  pose proof (step_sim h st o R) as [Ho HR].
  destruct (step T zero h o) as [h' r]. destruct (a_step T zero st o) as [st' r']. cbn [fst snd] in *.
  subst r'. f_equal. apply IH. exact HR.
Qed.

(* the outputs of every history are those of the abstract cyclic sequences *)
Theorem ring_refinement : forall ops, run T zero empty_heap ops = a_run T zero (a_empty T zero) ops.
Proof. intro ops. apply run_sim. apply rep_empty. Qed.

(* the heap reached by a history *)
Fixpoint run_heap (h : heap) (ops : list (op T)) : heap :=
  match ops with [] => h | o :: ops' => run_heap (fst (step T zero h o)) ops' end.
Fixpoint a_run_state (st : astate T) (ops : list (op T)) : astate T :=
  match ops with [] => st | o :: ops' => a_run_state (fst (a_step T zero st o)) ops' end.

Lemma run_heap_rep : forall ops h st, Rep h st -> Rep (run_heap h ops) (a_run_state st ops).
Proof.
  induction ops as [|o ops IH]; intros h st R; [exact R|]. cbn [run_heap a_run_state].
  apply IH. apply (step_sim h st o R).
Qed.

Theorem ring_reachable_rep : forall ops,
  Rep (run_heap empty_heap ops) (a_run_state (a_empty T zero) ops).
Proof. intro ops. apply run_heap_rep. apply rep_empty. Qed.

(* in every represented heap, next and prev are mutually inverse total maps on the allocated cells *)
Lemma rep_inverse : forall h st, Rep h st -> forall a : addr, a < size h ->
  (exists b, b < size h /\ nx h a = Some b /\ pv h b = Some a) /\
  (exists c, c < size h /\ pv h a = Some c /\ nx h c = Some a).
Proof.
  intros h st R a Ha. destruct (rep_cycle T h st a R Ha) as [t [rest [E [Hc [_ P]]]]].
  destruct (cycle_facts T h a t rest P) as [_ [Hlt _]].
  split.
  - exists (hd a t). split; [apply Hlt; apply in_hd|].
    unfold RingProofsRep.cyc in Hc. destruct t as [|b t]; cbn in Hc; destruct Hc as [[H1 H2] _]; auto.
  - exists (last t a). split; [apply Hlt; apply in_last|].
    unfold RingProofsRep.cyc in Hc.
    destruct t as [|b t]; [cbn in Hc; destruct Hc as [[H1 H2] _]; auto|].
    destruct (exists_last (l:=b :: t)) as [t' [z Ez]]; [discriminate|]. rewrite Ez in *. rewrite last_last.
    replace (a :: (t' ++ [z]) ++ [a]) with ((a :: t') ++ z :: [a]) in Hc by (cbn; rewrite <- app_assoc; reflexivity).
    apply path_app in Hc. destruct Hc as [_ [[H1 H2] _]]. auto.
Qed.

Theorem ring_links_inverse : forall ops (a : addr), let h := run_heap empty_heap ops in a < size h ->
  (exists b, b < size h /\ nx h a = Some b /\ pv h b = Some a) /\
  (exists c, c < size h /\ pv h a = Some c /\ nx h c = Some a).
Proof. intros ops a h Ha. apply (rep_inverse h _ (ring_reachable_rep ops) a Ha). Qed.

(* the abstract state is always a partition of the names handed out: nothing lost or duplicated *)
Theorem ring_partition : forall ops, let st := a_run_state (a_empty T zero) ops in
  Permutation (concat (cycles st)) (seq 0 (acount st)) /\ Forall (fun c => c <> []) (cycles st).
Proof.
  intros ops st. pose proof (ring_reachable_rep ops) as R. fold st in R. split.
  - rewrite (rep_count _ _ _ R). exact (rep_perm _ _ _ R).
  - pose proof (rep_cyc _ _ _ R) as F. rewrite Forall_forall in *. intros c Hc E. subst c. exact (F [] Hc).
Qed.

(* no operation of any history runs out of its loop budget *)
Lemma a_step_nofuel : forall st o, snd (a_step T zero st o) <> RFuel.
Proof.
  intros st o. unfold a_step. destruct (forallb (a_ok st) (op_ptrs o)); [|discriminate].
  destruct o; cbn [a_exec];
    unfold a_new, a_of, a_make, a_join, a_pop, a_next, a_prev, a_at, a_peek, a_len, a_each, a_is_empty, with_cycle;
    repeat match goal with |- context [match ?x with _ => _ end] => destruct x end;
    cbn [snd]; discriminate.
Qed.

Lemma a_run_nofuel : forall ops st, ~ In RFuel (a_run T zero st ops).
Proof.
  induction ops as [|o ops IH]; intros st; [intros []|]. cbn [a_run].
  pose proof (a_step_nofuel st o) as H. destruct (a_step T zero st o) as [st' r]. cbn [snd] in H.
  intros [E|Hi]; [congruence|exact (IH st' Hi)].
Qed.

Theorem ring_no_hang : forall ops, ~ In RFuel (run T zero empty_heap ops).
Proof. intro ops. rewrite ring_refinement. apply a_run_nofuel. Qed.

End Main.
