(* The abstract reference for ring.Ring: a set of disjoint cyclic sequences.
   Every element ever created has a name (a natural number; names are handed out consecutively);
   the state is the list of cycles -- each a list of names read in Next order from an arbitrary
   entry point -- and the value of every name.  Each operation is the picture in the Go
   documentation, written on lists. *)
From Coq Require Import ZArith List Bool Arith.
Import ListNotations.
From Mds Require Import Ring.RingBase.

Section Spec.
Variable T : Type.
Variable zero : T.

Record astate := mkA { cycles : list (list addr); avals : addr -> T; acount : nat }.

Definition a_empty : astate := mkA [] (fun _ => zero) 0.

(* l = l1 ++ x :: l2 with x not in l1 *)
Fixpoint split_at (x : addr) (l : list addr) : option (list addr * list addr) :=
  match l with
  | [] => None
  | y :: t =>
    if Nat.eqb y x then Some ([], t)
    else match split_at x t with Some (l1, l2) => Some (y :: l1, l2) | None => None end
  end.

(* the cycle through x listed from x, and the other cycles *)
Fixpoint cycle_from (cs : list (list addr)) (x : addr) : option (list addr * list (list addr)) :=
  match cs with
  | [] => None
  | c :: rest =>
    match split_at x c with
    | Some (l1, l2) => Some (x :: l2 ++ l1, rest)
    | None => match cycle_from rest x with
              | Some (c', rest') => Some (c', c :: rest')
              | None => None
              end
    end
  end.

Definition a_ok (st : astate) (p : ptr) : bool :=
  match p with None => true | Some a => Nat.ltb a (acount st) end.

(* New/Of: a fresh cycle of n elements carrying vs.  The names follow the order in which the
   cells are created (the handle first, then the element that ends up last, ... ): the cycle read
   from the returned handle k is k, k+n-1, k+n-2, ..., k+1 and its values in that order are vs. *)
Definition fresh_cycle (k n : nat) : list addr :=
  match n with O => [] | S m => k :: rev (seq (S k) m) end.

Fixpoint assign (f : addr -> T) (l : list (addr * T)) : addr -> T :=
  match l with
  | [] => f
  | (a, v) :: t => assign (fun x => if Nat.eqb x a then v else f x) t
  end.

Definition a_make (st : astate) (vs : list T) : astate * out T :=
  match vs with
  | [] => (st, RPtr None)
  | _ =>
    let c := fresh_cycle (acount st) (length vs) in
    (mkA (c :: cycles st) (assign (avals st) (combine c vs)) (acount st + length vs),
     RPtr (Some (acount st)))
  end.

Definition a_new (st : astate) (n : Z) : astate * out T := a_make st (repeat zero (Z.to_nat n)).
Definition a_of (st : astate) (vs : list T) : astate * out T := a_make st vs.

(* Join.  r on the cycle [r1 r2 ... rn] (r = r1):
   - s on another cycle [s1 ... sm] (s = s1): the result is [r1 s1 ... sm r2 ... rn]; returns r2
     (r1 itself when n = 1);
   - s = ri+1 on the same cycle: [r2 ... ri] is cut out, leaving [r1 s1 ... ]; returns r2, or nil
     when nothing lies between (s = r2) or s = r.
   A nil r or s: the code dereferences it (except r = s = nil, which returns nil). *)
Definition a_join (st : astate) (r s : ptr) : astate * out T :=
  match r, s with
  | None, None => (st, RPtr None)
  | None, Some _ => (st, RPanic)
  | Some _, None => (st, RPanic)
  | Some a, Some b =>
    if Nat.eqb a b then (st, RPtr None)
    else match cycle_from (cycles st) a with
    | None => (st, RFault)
    | Some (c, others) =>
      let rest := tl c in
      match split_at b rest with
      | Some ([], _) => (st, RPtr None)
      | Some (x :: between, after) =>
        (mkA ((a :: b :: after) :: (x :: between) :: others) (avals st) (acount st), RPtr (Some x))
      | None =>
        match cycle_from others b with
        | None => (st, RFault)
        | Some (cs, others') =>
          (mkA ((a :: cs ++ rest) :: others') (avals st) (acount st), RPtr (Some (hd a rest)))
        end
      end
    end
  end.

(* Pop: r becomes a cycle of its own, the rest of its cycle stays in order; returns r. *)
Definition a_pop (st : astate) (r : ptr) : astate * out T :=
  match r with
  | None => (st, RPtr None)
  | Some a =>
    match cycle_from (cycles st) a with
    | None => (st, RFault)
    | Some (c, others) =>
      match tl c with
      | [] => (st, RPtr r)
      | rest => (mkA ([a] :: rest :: others) (avals st) (acount st), RPtr r)
      end
    end
  end.

(* observers: [c] is the cycle listed from the handle *)
Definition with_cycle (st : astate) (r : ptr) (ifnil : out T) (f : addr -> list addr -> out T) : astate * out T :=
  match r with
  | None => (st, ifnil)
  | Some a => match cycle_from (cycles st) a with
              | None => (st, RFault)
              | Some (c, _) => (st, f a c)
              end
  end.

Definition a_next st r := with_cycle st r RPanic (fun a c => RPtr (Some (hd a (tl c)))).
Definition a_prev st r := with_cycle st r RPanic (fun a c => RPtr (Some (last c a))).

(* the element at offset n: forwards for n >= 0, backwards for n < 0, none when |n| >= length *)
Definition offset (c : list addr) (n : Z) : option addr :=
  if (Z.of_nat (length c) <=? Z.abs n)%Z then None
  else if (0 <=? n)%Z then nth_error c (Z.to_nat n)
  else nth_error c (length c - Z.to_nat (- n)).

Definition a_at st r n := with_cycle st r (RPtr None) (fun _ c => RPtr (offset c n)).
Definition a_peek st r n :=
  with_cycle st r (RPeek zero false)
    (fun _ c => match offset c n with Some x => RPeek (avals st x) true | None => RPeek zero false end).
Definition a_len st r := with_cycle st r (RLen 0) (fun _ c => RLen (Z.of_nat (length c))).
Definition a_each st r (lim : nat) :=
  with_cycle st r (REach [])
    (fun _ c => REach (map (avals st) (match lim with O => c | _ => firstn lim c end))).
Definition a_is_empty (st : astate) (r : ptr) : astate * out T :=
  (st, RBool (match r with None => true | Some _ => false end)).

Definition a_exec (st : astate) (o : op T) : astate * out T :=
  match o with
  | ONew n => a_new st n
  | OOf vs => a_of st vs
  | OJoin r s => a_join st r s
  | OPop r => a_pop st r
  | ONext r => a_next st r
  | OPrev r => a_prev st r
  | OAt r n => a_at st r n
  | OPeek r n => a_peek st r n
  | OLen r => a_len st r
  | OEach r lim => a_each st r lim
  | OIsEmpty r => a_is_empty st r
  end.

Definition a_step (st : astate) (o : op T) : astate * out T :=
  if forallb (a_ok st) (op_ptrs o) then a_exec st o else (st, RFault).

Fixpoint a_run (st : astate) (ops : list (op T)) : list (out T) :=
  match ops with
  | [] => []
  | o :: ops' => let (st', r) := a_step st o in r :: a_run st' ops'
  end.

End Spec.

Arguments cycles {T}. Arguments avals {T}. Arguments acount {T}. Arguments mkA {T}.
Arguments a_ok {T}. Arguments assign {T}.
