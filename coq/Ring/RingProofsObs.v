(* The read-only operations: Next, Prev, At, Peek, Len, Each, IsEmpty walk the current cycle. *)
From Coq Require Import ZArith List Bool Arith Lia Permutation.
Import ListNotations.
From Mds Require Import Gen.RingIdx Ring.RingBase Ring.RingPlain Ring.RingSpec Ring.RingProofsBase Ring.RingProofsRep.

Section Obs.
Variable T : Type.
Variable zero : T.
Notation heap := (heap T).
Notation nx := (nx T).
Notation pv := (pv T).
Notation vl := (vl T).
Notation path := (path T).
Notation cyc := (cyc T).
Notation Rep := (Rep T).

(* walking with one field *)
Fixpoint fpath (f : addr -> ptr) (l : list addr) : Prop :=
  match l with
  | a :: ((b :: _) as t) => f a = Some b /\ fpath f t
  | _ => True
  end.

Lemma fpath_app : forall f l1 x l2, fpath f (l1 ++ x :: l2) <-> fpath f (l1 ++ [x]) /\ fpath f (x :: l2).
Proof.
  intros f l1. induction l1 as [|a l1 IH]; intros x l2.
  - cbn. tauto.
  - destruct l1 as [|b l1].
    + cbn. tauto.
    + specialize (IH x l2). cbn in *. tauto.
Qed.

Lemma path_fwd : forall h l, path h l -> fpath (nx h) l.
Proof.
  intros h l. induction l as [|a l IH]; intros H; [exact I|].
  destruct l as [|b l]; [exact I|]. destruct H as [[H1 _] H2]. split; [exact H1|apply IH; exact H2].
Qed.

Lemma path_bwd : forall h l, path h l -> fpath (pv h) (rev l).
Proof.
  intros h l. induction l as [|a l IH]; intros H; [exact I|].
  destruct l as [|b l]; [exact I|]. destruct H as [[_ H1] H2].
  specialize (IH H2). cbn [rev] in *. rewrite <- app_assoc. cbn [app].
  apply fpath_app. split; [exact IH|]. cbn. auto.
Qed.

Lemma cyc_fwd : forall h a t, cyc h (a :: t) -> fpath (nx h) (a :: t ++ [a]).
Proof. intros h a t H. apply path_fwd. exact H. Qed.

Lemma cyc_bwd : forall h a t, cyc h (a :: t) -> fpath (pv h) (a :: rev t ++ [a]).
Proof.
  intros h a t H. apply path_bwd in H. cbn [rev] in H. rewrite rev_app_distr in H. cbn in H. exact H.
Qed.

Lemma nth_error_rev : forall (l : list addr) i, i < length l -> nth_error (rev l) i = nth_error l (length l - S i).
Proof.
  induction l as [|a l IH]; intros i Hi; cbn in *; [lia|].
  destruct (Nat.eq_dec i (length l)) as [->|Hne].
  - rewrite nth_error_app2 by (rewrite rev_length; lia). rewrite rev_length, Nat.sub_diag.
    reflexivity.
  - rewrite nth_error_app1 by (rewrite rev_length; lia). rewrite IH by lia.
    destruct (length l - i) eqn:E; [lia|]. cbn. f_equal. lia.
Qed.

(* ---- the cycle of a valid handle ---- *)
Lemma rep_cycle : forall h st (a : addr), Rep h st -> a < size h ->
  exists (t : list addr) rest, cycle_from (cycles st) a = Some (a :: t, rest) /\ cyc h (a :: t) /\ Forall (cyc h) rest /\
                 Permutation (concat ((a :: t) :: rest)) (seq 0 (size h)).
Proof.
  intros h st a R Ha.
  destruct (cycle_from (cycles st) a) as [[c rest]|] eqn:E.
  - destruct (cycle_from_some T h _ _ _ _ (rep_cyc _ _ _ R) E) as [H1 [H2 [H3 [t ->]]]].
    exists t, rest. split; [reflexivity|]. split; [exact H1|]. split; [exact H2|].
    eapply perm_trans; [exact H3|]. exact (rep_perm _ _ _ R).
  - exfalso. apply (cycle_from_none _ _ E). apply (rep_in_lt T h st a R). exact Ha.
Qed.

Lemma perm_seq_facts : forall (l : list addr) n, Permutation l (seq 0 n) ->
  NoDup l /\ (forall x, In x l <-> x < n) /\ length l = n.
Proof.
  intros l n P. split; [|split].
  - apply (Permutation_NoDup (Permutation_sym P)). apply seq_NoDup.
  - intro x. split; intro H.
    + apply (Permutation_in _ P) in H. apply in_seq in H. lia.
    + apply (Permutation_in _ (Permutation_sym P)). apply in_seq. lia.
  - rewrite (Permutation_length P). apply seq_length.
Qed.

(* ---- At ---- *)
Lemma at_loop_spec : forall (f : addr -> ptr) (back : bool) (step : Z) (h : heap) r,
  (forall x, x < size h -> (if back then prev_of (Some x) else next_of (Some x)) h = (h, Ok (f x))) ->
  forall post cur fuel n,
    fpath f (cur :: post ++ [r]) -> ~ In r post -> (forall x, In x (cur :: post) -> x < size h) ->
    ((step = 1 /\ 0 <= n) \/ (step = -1 /\ n <= 0))%Z -> length post < fuel ->
    at_loop_gen (fun z => z) fuel back step (Some r) (Some cur) n h = (h, Ok (nth_error (cur :: post) (Z.to_nat (Z.abs n)))).
Proof.
  intros f back step h r Hstep post.
  induction post as [|p post IH]; intros cur fuel n Hp Hni Hlt Hn Hf.
  - destruct fuel as [|fuel]; [cbn in Hf; lia|]. cbn [at_loop_gen]. unfold at_more.
    destruct (Z.eqb_spec n 0) as [Hz|Hnz]; cbn [negb].
    + subst n. reflexivity.
    + erewrite bind_ok by (apply Hstep; apply Hlt; left; reflexivity). cbn in Hp. destruct Hp as [Hp _]. rewrite Hp.
      unfold at_wrapped. rewrite enc_eqb. cbn [ptr_eqb]. rewrite Nat.eqb_refl.
      destruct (Z.to_nat (Z.abs n)) eqn:E; [lia|]. cbn. destruct n0; reflexivity.
  - destruct fuel as [|fuel]; [cbn in Hf; lia|]. cbn [at_loop_gen]. unfold at_more.
    destruct (Z.eqb_spec n 0) as [Hz|Hnz]; cbn [negb].
    + subst n. reflexivity.
    + erewrite bind_ok by (apply Hstep; apply Hlt; left; reflexivity).
      cbn [app] in Hp. destruct Hp as [Hp Hp']. rewrite Hp.
      unfold at_wrapped. rewrite enc_eqb. cbn [ptr_eqb].
      destruct (Nat.eqb_spec p r) as [->|Hne]; [exfalso; apply Hni; left; reflexivity|].
      unfold at_dec. rewrite (IH p fuel (n - step)%Z).
      * replace (Z.to_nat (Z.abs n)) with (S (Z.to_nat (Z.abs (n - step)))) by lia. reflexivity.
      * exact Hp'.
      * intro Hi. apply Hni. right. exact Hi.
      * intros x Hx. apply Hlt. right. exact Hx.
      * lia.
      * cbn in Hf. lia.
Qed.

Lemma offset_fwd : forall (c : list addr) n, (0 <= n)%Z -> offset c n = nth_error c (Z.to_nat n).
Proof.
  intros c n Hn. unfold offset. rewrite Z.abs_eq by lia.
  destruct (Z.leb_spec (Z.of_nat (length c)) n) as [H|H].
  - symmetry. apply nth_error_None. lia.
  - destruct (Z.leb_spec 0 n); [reflexivity|lia].
Qed.

Lemma offset_bwd : forall a (t : list addr) n, (n < 0)%Z ->
  offset (a :: t) n = nth_error (a :: rev t) (Z.to_nat (- n)).
Proof.
  intros a t n Hn. unfold offset. rewrite Z.abs_neq by lia.
  cbn [length].
  destruct (Z.leb_spec (Z.of_nat (S (length t))) (- n)) as [H|H].
  - symmetry. apply nth_error_None. cbn [length]. rewrite rev_length. lia.
  - destruct (Z.leb_spec 0 n); [lia|].
    destruct (Z.to_nat (- n)) as [|m] eqn:E; [lia|].
    cbn [nth_error]. rewrite nth_error_rev by lia.
    replace (S (length t) - S m) with (S (length t - S m)) by lia. reflexivity.
Qed.

Lemma cycle_facts : forall (h : heap) a t rest, Permutation (concat ((a :: t) :: rest)) (seq 0 (size h)) ->
  NoDup (a :: t) /\ (forall x, In x (a :: t) -> x < size h) /\ length t < size h.
Proof.
  intros h a t rest P. destruct (perm_seq_facts _ _ P) as [Hnd [Hin Hlen]].
  cbn [concat] in *. destruct (nodup_app _ _ Hnd) as [H1 _]. split; [exact H1|]. split.
  - intros x Hx. apply Hin. apply in_or_app. left. exact Hx.
  - rewrite app_length in Hlen. cbn [length] in Hlen. lia.
Qed.

Lemma at_spec : forall h st (a : addr) n, Rep h st -> a < size h ->
  exists (t : list addr) rest, cycle_from (cycles st) a = Some (a :: t, rest) /\
                 at_ (Some a) n h = (h, Ok (offset (a :: t) n)).
Proof.
  intros h st a n R Ha. destruct (rep_cycle h st a R Ha) as [t [rest [E [Hc [_ P]]]]].
  exists t, rest. split; [exact E|].
  destruct (cycle_facts h a t rest P) as [Hnd [Hlt Hlen]].
  inversion Hnd as [|? ? Hni _]; subst.
  unfold at_, at_gen, at_nil. rewrite enc_nil.
  erewrite bind_ok by reflexivity.
  unfold at_neg. destruct (Z.ltb_spec n 0) as [Hneg|Hpos].
  - rewrite offset_bwd by lia. rewrite <- (Z.abs_neq n) by lia.
    apply (at_loop_spec (pv h) true at_step_back h a).
    + intros x Hx. apply get_prev_ok. exact Hx.
    + apply cyc_bwd. exact Hc.
    + intro Hi. apply Hni. apply in_rev. exact Hi.
    + intros x [<-|Hx]; [exact Ha|]. apply Hlt. right. apply in_rev. exact Hx.
    + right. unfold at_step_back. lia.
    + rewrite rev_length. unfold addr in *. lia.
  - rewrite offset_fwd by lia. rewrite <- (Z.abs_eq n) at 2 by lia.
    apply (at_loop_spec (nx h) false at_step_fwd h a).
    + intros x Hx. apply get_next_ok. exact Hx.
    + apply cyc_fwd. exact Hc.
    + exact Hni.
    + exact Hlt.
    + left. unfold at_step_fwd. lia.
    + unfold addr in *. lia.
Qed.

Lemma offset_in : forall (c : list addr) n x, offset c n = Some x -> In x c.
Proof.
  intros c n x. unfold offset.
  destruct (Z.of_nat (length c) <=? Z.abs n)%Z; [discriminate|].
  destruct (0 <=? n)%Z; apply nth_error_In.
Qed.

(* ---- scan ---- *)
Section Scan.
Variable A : Type.
Variable gp : A -> addr -> A * bool.

Fixpoint scan_pure (l : list addr) (acc : A) : A :=
  match l with
  | [] => acc
  | x :: t => let r := gp acc x in if snd r then scan_pure t (fst r) else fst r
  end.

Lemma scan_loop_spec : forall (g : A -> ptr -> M T (A * bool)) (h : heap) r,
  r < size h ->
  forall post cur fuel acc,
    (forall acc x, In x (cur :: post) -> g acc (Some x) h = (h, Ok (gp acc x))) ->
    fpath (nx h) (cur :: post ++ [r]) -> ~ In r post -> (forall x, In x (cur :: post) -> x < size h) ->
    length post < fuel ->
    scan_loop fuel (Some r) g (Some cur) acc h = (h, Ok (scan_pure (cur :: post) acc)).
Proof.
  intros g h r Hr post. induction post as [|p post IH]; intros cur fuel acc Hg Hp Hni Hlt Hf.
  - destruct fuel as [|fuel]; [cbn in Hf; lia|]. cbn [scan_loop scan_pure].
    erewrite bind_ok by (apply Hg; left; reflexivity).
    destruct (snd (gp acc cur)); [|reflexivity].
    erewrite bind_ok by (apply get_next_ok; apply Hlt; left; reflexivity).
    cbn in Hp. destruct Hp as [Hp _]. rewrite Hp. unfold scan_back. rewrite enc_eqb. cbn [ptr_eqb].
    rewrite Nat.eqb_refl. reflexivity.
  - destruct fuel as [|fuel]; [cbn in Hf; lia|]. cbn [scan_loop]. cbn [scan_pure].
    erewrite bind_ok by (apply Hg; left; reflexivity).
    destruct (snd (gp acc cur)); [|reflexivity].
    erewrite bind_ok by (apply get_next_ok; apply Hlt; left; reflexivity).
    cbn [app] in Hp. destruct Hp as [Hp Hp']. rewrite Hp. unfold scan_back. rewrite enc_eqb. cbn [ptr_eqb].
    destruct (Nat.eqb_spec p r) as [->|Hne]; [exfalso; apply Hni; left; reflexivity|].
    erewrite bind_ok by (apply get_next_ok; apply Hlt; left; reflexivity).
    rewrite Hp. apply IH.
    + intros acc' x Hx. apply Hg. right. exact Hx.
    + exact Hp'.
    + intro Hi. apply Hni. right. exact Hi.
    + intros x Hx. apply Hlt. right. exact Hx.
    + cbn in Hf. lia.
Qed.
End Scan.

Lemma scan_spec : forall A (gp : A -> addr -> A * bool) (g : A -> ptr -> M T (A * bool)) h st (a : addr) acc,
  Rep h st -> a < size h ->
  (forall acc x, x < size h -> g acc (Some x) h = (h, Ok (gp acc x))) ->
  exists (t : list addr) rest, cycle_from (cycles st) a = Some (a :: t, rest) /\
                 scan (Some a) g acc h = (h, Ok (scan_pure A gp (a :: t) acc)).
Proof.
  intros A gp g h st a acc R Ha Hg. destruct (rep_cycle h st a R Ha) as [t [rest [E [Hc [_ P]]]]].
  exists t, rest. split; [exact E|].
  destruct (cycle_facts h a t rest P) as [Hnd [Hlt Hlen]].
  inversion Hnd as [|? ? Hni _]; subst.
  unfold scan, scan_nil. rewrite enc_nil. erewrite bind_ok by reflexivity.
  apply scan_loop_spec.
  - exact Ha.
  - intros acc' x Hx. apply Hg. apply Hlt. exact Hx.
  - apply cyc_fwd. exact Hc.
  - exact Hni.
  - exact Hlt.
  - unfold addr in *. lia.
Qed.

Lemma len_pure : forall (l : list addr) n,
  scan_pure Z (fun n _ => (len_inc n, true)) l n = (n + Z.of_nat (length l))%Z.
Proof.
  induction l as [|x l IH]; intros n; cbn [scan_pure snd fst length].
  - lia.
  - rewrite IH. unfold len_inc. lia.
Qed.

Lemma each_pure : forall (v : addr -> T) lim (l : list addr) vs k,
  fst (scan_pure (list T * nat) (fun acc x => ((fst acc ++ [v x], S (snd acc)), negb (Nat.eqb (S (snd acc)) lim))) l (vs, k))
  = vs ++ map v (if Nat.leb lim k then l else firstn (lim - k) l).
Proof.
  intros v lim l. induction l as [|x l IH]; intros vs k; cbn [scan_pure snd fst].
  - destruct (Nat.leb lim k); [|rewrite firstn_nil]; cbn; rewrite app_nil_r; reflexivity.
  - destruct (Nat.eqb_spec (S k) lim) as [E|Hne]; cbn [negb].
    + cbn [fst]. destruct (Nat.leb_spec lim k); [lia|].
      replace (lim - k) with 1 by lia. cbn. reflexivity.
    + rewrite IH. destruct (Nat.leb_spec lim k) as [H1|H1].
      * destruct (Nat.leb_spec lim (S k)); [|lia]. cbn [map]. rewrite <- app_assoc. reflexivity.
      * destruct (Nat.leb_spec lim (S k)); [lia|].
        replace (lim - k) with (S (lim - S k)) by lia. cbn [firstn map]. rewrite <- app_assoc. reflexivity.
Qed.

End Obs.
