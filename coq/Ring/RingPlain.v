(* The functions of ring/ring.go written out by hand on the heap of Ring/RingBase.v, statement by
   statement (pointer assignments included): the form the proofs of Ring/RingProofs*.v work on.
   This is NOT the model: the model is Ring/RingModel.v, where every right-hand side and return
   value is the definition the translator generates from the Go source; Ring/RingProofsTie.v proves
   that the model equals these functions (and stops compiling when the source changes).
   Conditions and counter arithmetic come from Gen/RingIdx.v here too.
   Definitions only. *)
From Coq Require Import ZArith List Bool Arith.
Import ListNotations.
From Mds Require Import Gen.RingIdx Ring.RingBase.
Import RingNotations.

Section Plain.
Variable T : Type.
Variable zero : T.   (* the zero value of T *)
Notation M := (M T).
Notation alloc := (alloc T zero).
Notation heap := (heap T).
Notation op := (op T).
Notation out := (out T).

(* func newRing[T any]() *Ring[T] { r := new(Ring[T]); r.next = r; r.prev = r; return r } *)
Definition new_ring : M ptr :=
  r <- alloc ;; set_next r r ;;; set_prev r r ;;; ret r.

(* the loop of New; the budget is the requested count *)
Fixpoint new_loop (fuel : nat) (r : ptr) (n : Z) : M unit :=
  match fuel with
  | O => if new_more n then out_of_fuel else ret tt
  | S f =>
    if new_more n then
      elt <- new_ring ;;
      rn <- get_next r ;; set_next elt rn ;;;          (* elt.next = r.next *)
      rn' <- get_next r ;; set_prev rn' elt ;;;        (* r.next.prev = elt *)
      set_prev elt r ;;;                               (* elt.prev = r *)
      set_next r elt ;;;                               (* r.next = elt *)
      new_loop f r (new_dec n)                         (* n-- *)
    else ret tt
  end.

Definition new (n : Z) : M ptr :=
  if new_nonpos n then ret None
  else r <- new_ring ;; new_loop (Z.to_nat n) r n ;;; ret r.

(* for _, v := range vs { cur.Value = v; cur = cur.Next() } *)
Fixpoint of_loop (vs : list T) (cur : ptr) : M unit :=
  match vs with
  | [] => ret tt
  | v :: vs' => set_val cur v ;;; cur' <- get_next cur ;; of_loop vs' cur'
  end.

Definition of (vs : list T) : M ptr :=
  r <- new (of_len (Z.of_nat (length vs))) ;; of_loop vs r ;;; ret r.

(* Join.  [r == s || r.next == s] short-circuits: r.next is read only when r != s. *)
Definition join (r s : ptr) : M ptr :=
  rn <- (if ptr_eqb r s then ret r else get_next r) ;;
  if join_early (enc r) (enc s) (enc rn) then ret None
  else
    rnext <- get_next r ;; sprev <- get_prev s ;;
    set_next r s ;;;
    set_prev s r ;;;
    set_next sprev rnext ;;;
    set_prev rnext sprev ;;;
    ret rnext.

(* Pop.  [r != nil && r.prev != r] short-circuits: r.prev is read only when r != nil. *)
Definition pop (r : ptr) : M ptr :=
  rp <- (if ptr_eqb r None then ret None else get_prev r) ;;
  (if pop_cond (enc r) (enc rp) znil then
     rprev <- get_prev r ;; rnext <- get_next r ;;
     x <- get_next r ;; set_next rprev x ;;;     (* rprev.next = r.next *)
     y <- get_prev r ;; set_prev rnext y ;;;     (* rnext.prev = r.prev *)
     set_prev r r ;;;
     set_next r r ;;;
     ret tt
   else ret tt) ;;;
  ret r.

Definition next_of (r : ptr) : M ptr := get_next r.
Definition prev_of (r : ptr) : M ptr := get_prev r.

(* the loop of At; [back] selects Prev instead of Next, [step] is +1 or -1: the offset is counted
   toward zero and never negated; the budget is the heap size + 1.  [norm] is applied to the new
   counter value: the identity in the model proper, 64-bit two's-complement wrap-around in the
   machine-int variant below. *)
Fixpoint at_loop_gen (norm : Z -> Z) (fuel : nat) (back : bool) (step : Z) (r cur : ptr) (n : Z) : M ptr :=
  match fuel with
  | O => if at_more n then out_of_fuel else ret cur
  | S f =>
    if at_more n then
      cur' <- (if back then prev_of cur else next_of cur) ;;
      if at_wrapped (enc cur') (enc r) then ret None
      else at_loop_gen norm f back step r cur' (norm (at_dec n step))     (* n -= step *)
    else ret cur
  end.

Definition at_gen (norm : Z -> Z) (r : ptr) (n : Z) : M ptr :=
  if at_nil (enc r) znil then ret None
  else
    sz <- heap_size ;;
    if at_neg n then at_loop_gen norm (S sz) true at_step_back r r n
    else at_loop_gen norm (S sz) false at_step_fwd r r n.

Definition at_loop := at_loop_gen (fun z => z).
Definition at_ (r : ptr) (n : Z) : M ptr := at_gen (fun z => z) r n.

(* the same code on 64-bit ints: every new counter value wraps around modulo 2^64 *)
Definition at64 (r : ptr) (n : Z) : M ptr := at_gen wrap64 r n.

Definition peek_gen (norm : Z -> Z) (r : ptr) (n : Z) : M (T * bool) :=
  cur <- at_gen norm r n ;;
  if peek_nil (enc cur) znil then ret (zero, false)
  else v <- get_val cur ;; ret (v, true).
Definition peek (r : ptr) (n : Z) : M (T * bool) := peek_gen (fun z => z) r n.
Definition peek64 (r : ptr) (n : Z) : M (T * bool) := peek_gen wrap64 r n.

(* scan, with the callback as a heap-passing function over an accumulator *)
Fixpoint scan_loop {A} (fuel : nat) (r : ptr) (f : A -> ptr -> M (A * bool)) (cur : ptr) (acc : A) : M A :=
  match fuel with
  | O => out_of_fuel
  | S fu =>
    x <- f acc cur ;;
    if snd x then
      cn <- get_next cur ;;
      if scan_back (enc cn) (enc r) then ret (fst x)
      else cn' <- get_next cur ;; scan_loop fu r f cn' (fst x)     (* cur = cur.next *)
    else ret (fst x)
  end.

Definition scan {A} (r : ptr) (f : A -> ptr -> M (A * bool)) (acc : A) : M A :=
  if scan_nil (enc r) znil then ret acc
  else sz <- heap_size ;; scan_loop (S sz) r f r acc.

(* Each, with a callback that returns false on its [lim]-th call (never, when lim = 0);
   the result is the list of values the callback received. *)
Definition each (r : ptr) (lim : nat) : M (list T) :=
  x <- scan r (fun (acc : list T * nat) cur =>
                 v <- get_val cur ;;
                 ret ((fst acc ++ [v], S (snd acc)), negb (Nat.eqb (S (snd acc)) lim)))
            ([], O) ;;
  ret (fst x).

Definition len (r : ptr) : M Z :=
  if len_nil (enc r) znil then ret 0%Z
  else n <- scan r (fun (n : Z) _ => ret (len_inc n, true)) 0%Z ;; ret n.

Definition is_empty (r : ptr) : M bool := ret (isempty_ret (enc r) znil).

Definition exec (h : heap) (o : op) : heap * out :=
  match o with
  | ONew n => to_out RPtr (new n h)
  | OOf vs => to_out RPtr (of vs h)
  | OJoin r s => to_out RPtr (join r s h)
  | OPop r => to_out RPtr (pop r h)
  | ONext r => to_out RPtr (next_of r h)
  | OPrev r => to_out RPtr (prev_of r h)
  | OAt r n => to_out RPtr (at_ r n h)
  | OPeek r n => to_out (fun x => RPeek (fst x) (snd x)) (peek r n h)
  | OLen r => to_out RLen (len r h)
  | OEach r lim => to_out REach (each r lim h)
  | OIsEmpty r => to_out RBool (is_empty r h)
  end.

Definition step (h : heap) (o : op) : heap * out :=
  if forallb (ptr_ok h) (op_ptrs o) then exec h o else (h, RFault).

Fixpoint run (h : heap) (ops : list op) : list out :=
  match ops with
  | [] => []
  | o :: ops' => let (h', r) := step h o in r :: run h' ops'
  end.

End Plain.

Arguments of_loop {T}. Arguments join {T}. Arguments pop {T}. Arguments next_of {T}. Arguments prev_of {T}.
Arguments at_loop_gen {T}. Arguments at_gen {T}. Arguments at_loop {T}. Arguments at_ {T}. Arguments at64 {T}. Arguments scan_loop {T A}. Arguments scan {T A}.
Arguments each {T}. Arguments len {T}. Arguments is_empty {T}.
