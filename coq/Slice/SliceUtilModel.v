(* Model of slice/slice.go: Partition, Rotate (+ gcd, sliceCheck), Chunks, Batches, Head, Tail,
   Stripe, At, PtrAt (+ indexCheck).  Definitions only.

   A Go slice is a *view* (offset, len, cap) into a backing array (the "base", a list).  Indexing
   s[i] is bounds-checked against len (runtime panic PRtIndex), re-slicing s[lo:hi:max] against cap
   (PRtSlice), integer division against 0 (PRtDiv); explicit panic(...) calls are the PDoc*
   results.  Loops that are not structurally bounded carry fuel and return OutOfFuel when it runs
   out (proved never to happen in the SliceUtilProofs files).  The in-place functions (Partition, Rotate)
   only ever touch vs[0..len): their loop models work on the window of the base the view denotes
   ([window]) and the result is put back with [splice].

   Every comparison, index expression, increment and slice bound below is a definition of
   Gen/SliceIdx.v, regenerated from slice/slice.go on every run. *)
From Coq Require Import ZArith List Bool.
Import ListNotations.
From Mds Require Import Gen.SliceIdx.
Local Open Scope Z_scope.

Inductive panic :=
| PRtIndex    (* runtime: index out of range *)
| PRtSlice    (* runtime: slice bounds out of range *)
| PRtDiv      (* runtime: integer divide by zero *)
| PRtMake     (* runtime: makeslice: cap out of range *)
| PDocIndex   (* At: panic("index out of range") *)
| PDocOffset  (* Rotate: panic("offset out of range") *)
| PDocMax     (* Chunks: panic("max must be positive") *)
| PDocN.      (* Batches: panic("n out of range") *)

Inductive res (A : Type) :=
| Ok (a : A)
| Panic (p : panic)
| OutOfFuel.
Arguments Ok {A} a.
Arguments Panic {A} p.
Arguments OutOfFuel {A}.

Definition bind {A B : Type} (r : res A) (f : A -> res B) : res B :=
  match r with
  | Ok a => f a
  | Panic p => Panic p
  | OutOfFuel => OutOfFuel
  end.
Notation "'do' x <- r ; k" := (bind r (fun x => k)) (at level 200, x name, r at level 100, k at level 200).

(* ---- views ---- *)
Record view := mkView { voff : Z; vlen : Z; vcap : Z }.

Definition zlen {T : Type} (l : list T) : Z := Z.of_nat (length l).

(* v[lo:hi:max] *)
Definition slice3 (v : view) (lo hi max : Z) : res view :=
  if (0 <=? lo) && (lo <=? hi) && (hi <=? max) && (max <=? vcap v)
  then Ok (mkView (voff v + lo) (hi - lo) (max - lo))
  else Panic PRtSlice.

(* "Appending to r can overwrite an element of w": r has spare capacity and the slot after its
   last element lies inside w's elements.  This is the only way capacities are compared. *)
Definition can_overwrite (w r : view) : bool :=
  (vlen r <? vcap r) && (voff w <=? voff r + vlen r) && (voff r + vlen r <? voff w + vlen w).

(* sliceCheck / indexCheck *)
Definition slice_check (i n : Z) : Z * bool :=
  let i := if sc_neg i n then sc_adj i n else i in
  (sc_pos i n, sc_ok i n).

Definition index_check (i n : Z) : Z * bool :=
  let i := if ic_neg i n then ic_adj i n else i in
  (ic_pos i n, ic_ok i n).

(* func gcd(a, b int) int { for b != 0 { a, b = b, a%b }; return a } *)
Fixpoint gcd_loop (fuel : nat) (a b : Z) : res Z :=
  match fuel with
  | O => OutOfFuel
  | S f =>
    if gcd_cond a b then
      if b =? 0 then Panic PRtDiv
      else gcd_loop f (gcd_a a b) (gcd_b a b)
    else Ok (gcd_ret a b)
  end.
Definition gcd_impl (a b : Z) : res Z := gcd_loop (S (S (Z.to_nat (Z.abs b)))) a b.

(* ---- Chunks ---- *)
Fixpoint chunks_loop (fuel : nat) (v : view) (n i : Z) (out : list view) : res (list view) :=
  match fuel with
  | O => OutOfFuel
  | S f =>
    let len := vlen v in
    if ch_loop i len then
      let e := ch_end i n len in
      do c <- slice3 v (ch_lo i e) (ch_hi i e) (ch_max i e);
      chunks_loop f v n (ch_i_next e) (out ++ [c])
    else Ok out
  end.

Definition chunks (v : view) (n : Z) : res (list view) :=
  let len := vlen v in
  if ch_neg n then Panic PDocMax
  else if ch_single n len then Ok [v]
  else if n =? 0 then Panic PRtDiv                    (* the capacity hint of make divides by n *)
  else if ch_hint n len <? 0 then Panic PRtMake
  else chunks_loop (S (Z.to_nat len)) v n ch_i0 [].

(* ---- Batches ---- *)
Fixpoint batches_loop (fuel : nat) (v : view) (size i rem : Z) (out : list view) : res (list view) :=
  match fuel with
  | O => OutOfFuel
  | S f =>
    let len := vlen v in
    if ba_loop i len then
      let e := ba_end i size in
      let er := if ba_rem_pos rem then (ba_end_inc e, ba_rem_dec rem) else (e, rem) in
      let e := fst er in
      let rem := snd er in
      do c <- slice3 v (ba_lo i e) (ba_hi i e) (ba_max i e);
      batches_loop f v size (ba_i_next e) rem (out ++ [c])
    else Ok out
  end.

(* nil and the empty result are both [] *)
Definition batches (v : view) (n : Z) : res (list view) :=
  let len := vlen v in
  if ba_neg n then Panic PDocN
  else if ba_zero n then Ok []
  else
    let n := if ba_over n len then ba_capped len else n in
    if ba_zero2 n then Ok []
    else if ba_hint n <? 0 then Panic PRtMake
    else if n =? 0 then Panic PRtDiv
    else batches_loop (S (Z.to_nat len)) v (ba_size len n) ba_i0 (ba_rem len n) [].

(* ---- Head / Tail ---- *)
Definition head (v : view) (n : Z) : res view :=
  if hd_short (vlen v) n then Ok v else slice3 v 0 (hd_hi n) (vcap v).

Definition tail (v : view) (n : Z) : res view :=
  if tl_short (vlen v) n then Ok v else slice3 v (tl_lo (vlen v) n) (vlen v) (vcap v).

Section Elem.
Variable T : Type.

(* the elements a view denotes, and writing them back *)
Definition window (b : list T) (v : view) : list T :=
  firstn (Z.to_nat (vlen v)) (skipn (Z.to_nat (voff v)) b).
Definition splice (b : list T) (v : view) (l : list T) : list T :=
  firstn (Z.to_nat (voff v)) b ++ l ++ skipn (Z.to_nat (voff v + vlen v)) b.

(* s[i] and s[i] = x on a slice whose elements are l *)
Definition get (l : list T) (i : Z) : res T :=
  if (0 <=? i) && (i <? zlen l) then
    match nth_error l (Z.to_nat i) with
    | Some x => Ok x
    | None => Panic PRtIndex
    end
  else Panic PRtIndex.

Fixpoint upd (l : list T) (n : nat) (x : T) : list T :=
  match l, n with
  | [], _ => []
  | _ :: t, O => x :: t
  | h :: t, S m => h :: upd t m x
  end.

Definition set (l : list T) (i : Z) (x : T) : res (list T) :=
  if (0 <=? i) && (i <? zlen l) then Ok (upd l (Z.to_nat i) x) else Panic PRtIndex.

(* ---- At / PtrAt ---- *)
Definition at_ (l : list T) (i : Z) : res T :=
  let n := zlen l in
  let bo := index_check (at_arg_i i n) (at_arg_n i n) in
  if at_bad (snd bo) then Panic PDocIndex else get l (at_idx (fst bo)).

(* Some p: the pointer &ss[p]; None: nil *)
Definition ptr_at (l : list T) (i : Z) : res (option Z) :=
  let n := zlen l in
  let po := index_check (ptrat_arg_i i n) (ptrat_arg_n i n) in
  if ptrat_good (snd po) then
    do _x <- get l (ptrat_idx (fst po)); Ok (Some (ptrat_idx (fst po)))
  else Ok None.

(* ---- Stripe ---- *)
Fixpoint stripe_loop (vs : list (list T)) (i : Z) (out : list T) : res (list T) :=
  match vs with
  | [] => Ok out
  | v :: r =>
    if st_has i (zlen v) then
      do x <- get v (st_idx i); stripe_loop r i (out ++ [x])
    else stripe_loop r i out
  end.
Definition stripe (vs : list (list T)) (i : Z) : res (list T) := stripe_loop vs i [].

(* ---- Partition ---- *)
Variable keep : T -> bool.

(* for i < len(vs) && keep(vs[i]) { i++ }
   The condition has the shape A && keep(vs[i]); evaluating it with [true] in place of the call
   says whether the call (and the indexing) is reached at all. *)
Fixpoint scan_i (fuel : nat) (l : list T) (i : Z) : res Z :=
  match fuel with
  | O => OutOfFuel
  | S f =>
    let n := zlen l in
    if part_scan_i i n true then
      do x <- get l (part_scan_i_idx i);
      if part_scan_i i n (keep x) then scan_i f l (part_i_inc i) else Ok i
    else Ok i
  end.

(* for j < len(vs) && !keep(vs[j]) { j++ } *)
Fixpoint scan_j (fuel : nat) (l : list T) (j : Z) : res Z :=
  match fuel with
  | O => OutOfFuel
  | S f =>
    let n := zlen l in
    if part_scan_j j n false then
      do x <- get l (part_scan_j_idx j);
      if part_scan_j j n (keep x) then scan_j f l (part_j_inc j) else Ok j
    else Ok j
  end.

(* the outer loop; result: the elements and the (hi, max) of the returned vs[:hi:max] *)
Fixpoint part_loop (fuel : nat) (l : list T) (i j : Z) : res (list T * (Z * Z)) :=
  match fuel with
  | O => OutOfFuel
  | S f =>
    let n := zlen l in
    if part_outer i n then
      do j <- scan_j (S (length l)) l j;
      if part_done j n then Ok (l, (part_ret0_hi i, part_ret0_max i))
      else
        (* vs[i], vs[j] = vs[j], vs[i]: operands first, then the two stores left to right *)
        do a <- get l (part_swap_r0 i j);
        do b <- get l (part_swap_r1 i j);
        do l1 <- set l (part_swap_l0 i j) a;
        do l2 <- set l1 (part_swap_l1 i j) b;
        part_loop f l2 (part_i_inc2 i) (part_j_inc2 j)
    else Ok (l, (part_ret1_hi i, part_ret1_max i))
  end.

(* on the elements of vs; None = "return vs" itself *)
Definition partition_win (l : list T) : res (list T * option (Z * Z)) :=
  let n := zlen l in
  if part_empty n then Ok (l, None)
  else
    do i <- scan_i (S (length l)) l part_i0;
    do r <- part_loop (S (length l)) l i (part_j0 i);
    Ok (fst r, Some (snd r)).

(* on a base: the new base and the returned view *)
Definition partition (b : list T) (v : view) : res (list T * view) :=
  do r <- partition_win (window b v);
  let b' := splice b v (fst r) in
  match snd r with
  | None => Ok (b', v)
  | Some hm => do rv <- slice3 v 0 (fst hm) (snd hm); Ok (b', rv)
  end.

(* ---- Rotate ---- *)
(* for { next := (i + k) % len(ss); nextv := ss[next]; ss[next] = cur
         if next == j { break }; i, cur = next, nextv } *)
Fixpoint cycle (fuel : nat) (l : list T) (k j i : Z) (cur : T) : res (list T) :=
  match fuel with
  | O => OutOfFuel
  | S f =>
    if rot_inner_cond then
      let n := zlen l in
      if n =? 0 then Panic PRtDiv
      else
        let next := rot_next i k n in
        do nextv <- get l (rot_read_idx next);
        do l' <- set l (rot_write_idx next) cur;
        if rot_break next j then Ok l'
        else cycle f l' k j (rot_i_step next) nextv
    else Ok l
  end.

(* for j := range g { i, cur := j, ss[j]; <cycle> }  -- [count] iterations remain *)
Fixpoint cycles (count : nat) (l : list T) (k j : Z) : res (list T) :=
  match count with
  | O => Ok l
  | S c =>
    do cur <- get l (rot_cur0_idx j);
    do l' <- cycle (S (length l)) l k j (rot_i0 j) cur;
    cycles c l' k (j + 1)
  end.

(* the faithful gcd / cycle-chasing model, on the elements of ss *)
Definition rotate_impl (l : list T) (k : Z) : res (list T) :=
  let n := zlen l in
  let ko := slice_check (rot_arg_k k n) (rot_arg_n k n) in
  let k := fst ko in
  if rot_bad (snd ko) then Panic PDocOffset
  else if rot_noop k n then Ok l
  else
    do g <- gcd_impl (rot_gcd_a k n) (rot_gcd_b k n);
    cycles (Z.to_nat (rot_ncycles (rot_g g))) l k 0.

Definition rotate (b : list T) (v : view) (k : Z) : res (list T) :=
  do l' <- rotate_impl (window b v) k; Ok (splice b v l').

End Elem.

Arguments window {T} b v.
Arguments splice {T} b v l.
Arguments get {T} l i.
Arguments upd {T} l n x.
Arguments set {T} l i x.
Arguments at_ {T} l i.
Arguments ptr_at {T} l i.
Arguments stripe_loop {T} vs i out.
Arguments stripe {T} vs i.
Arguments scan_i {T} keep fuel l i.
Arguments scan_j {T} keep fuel l j.
Arguments part_loop {T} keep fuel l i j.
Arguments partition_win {T} keep l.
Arguments partition {T} keep b v.
Arguments cycle {T} fuel l k j i cur.
Arguments cycles {T} count l k j.
Arguments rotate_impl {T} l k.
Arguments rotate {T} b v k.
