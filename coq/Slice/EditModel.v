(* Model of slice.EditScript / editScriptFunc (slice/edit.go): the model of LCSFunc
   (Slice/LcsModel.v, owned by C12) followed by the loop of Slice/EditLoop.v.  Definitions only.

   Names other slices rely on (keep stable):
     op (Drop | Emit | Copy | Replace), edit (mkEdit; eop, X, Y), eres (EOk | EPanic | EOutOfFuel)
                                                   -- Slice/EditLoop.v
     edit_script_run  eqb lhs rhs : eres (list (edit T))   the faithful result
     edit_script_func eqb lhs rhs : list (edit T)          its value (see below)
     Valid, ValidScript, kept, canonical, alternating, valid_edits, valid_script,
     valid_edits_gen, valid_script_gen, eq_lists      -- Slice/EditSpec.v *)
From Coq Require Import ZArith List Bool.
Import ListNotations.
From Mds Require Export Slice.EditLoop Slice.EditSpec.
From Mds Require Import Slice.LcsModel.

Section EditModel.
  Variable T : Type.
  Variable eqb : T -> T -> bool.

  (* editScriptFunc(eq, lhs, rhs).  LCSFunc's model returns None for "panic or out of fuel"
     (LcsProofs.lcs_func_total: never); here that is reported as a panic. *)
  Definition edit_script_run (lhs rhs : list T) : eres (list (edit T)) :=
    match lcs_func T eqb lhs rhs with
    | Some lcs => edit_script_of_lcs T eqb lcs lhs rhs
    | None => EPanic
    end.

  (* The returned script as a plain list.  This projection is meaningful only together with
     EditProofs.edit_script_run_ok : edit_script_run eqb lhs rhs = EOk (edit_script_func eqb lhs rhs)
     (for every equivalence eqb), which says the [_ => []] branch is never taken. *)
  Definition edit_script_func (lhs rhs : list T) : list (edit T) :=
    match edit_script_run lhs rhs with
    | EOk es => es
    | _ => []
    end.

  (* EditScript(lhs, rhs) on a comparable type is editScriptFunc(equal, lhs, rhs): instantiate
     [eqb] with a decision procedure for equality. *)
End EditModel.

Arguments edit_script_run {T} eqb lhs rhs.
Arguments edit_script_func {T} eqb lhs rhs.
