(* Model of slice.EditScript / editScriptFunc (slice/edit.go): the model of LCSFunc
   (Slice/LcsModel.v, owned by C12) followed by the loop of Slice/EditLoop.v.  Definitions only.

   Names other slices rely on (keep stable):
     op (Drop | Emit | Copy | Replace), edit (mkEdit; eop, X, Y), eres (EOk | EPanic | EOutOfFuel)
                                                   -- Slice/EditLoop.v
     edit_script_run  eqb lhs rhs : eres (list (edit T))   the faithful result
     edit_script_func eqb lhs rhs : list (edit T)          its value (see below)
     Valid, ValidScript, kept, canonical, alternating, valid_edits, valid_script,
     valid_edits_gen, valid_script_gen, eq_lists      -- Slice/EditSpec.v *)
From Coq Require Import ZArith List Bool.
Import ListNotations.
From Mds Require Import Gen.EditIdx.
From Mds Require Export Slice.EditLoop Slice.EditSpec.
From Mds Require Import Slice.LcsModel.
Local Open Scope Z_scope.

Section EditModel.
  Variable T : Type.
  Variable eqb : T -> T -> bool.

  (* lcs := LCSFunc(lhs, rhs, eq).  Which parameter of editScriptFunc stands in which argument
     position is read off the call (Gen: es_lcs_arg0/1 applied to the codes lhs=0, rhs=1, eq=2);
     [pick_arg] turns a code back into the list.  (The third argument being eq is pinned by
     EditProofs.skeleton_calls.)  A code that names neither list gives None. *)
  Definition pick_arg (code : Z) (lhs rhs : list T) : option (list T) :=
    if code =? 0 then Some lhs else if code =? 1 then Some rhs else None.

  (* editScriptFunc(eq, lhs, rhs) on inputs whose backing arrays continue with lx / rx beyond
     their lengths (EditLoop.v header).  LCSFunc's model returns None for "panic or out of fuel"
     (LcsProofs.lcs_func_total: never); here that is reported as a panic.  LCSFunc contains no
     slice expression on its arguments, so it does not see the spare capacity. *)
  Definition edit_script_run_cap (lx rx lhs rhs : list T) : eres (list (edit T)) :=
    match pick_arg (es_lcs_arg0 0 1 2) lhs rhs, pick_arg (es_lcs_arg1 0 1 2) lhs rhs with
    | Some a, Some b =>
      match lcs_func T eqb a b with
      | Some lcs => edit_script_of_lcs T eqb lx rx lcs lhs rhs
      | None => EPanic
      end
    | _, _ => EPanic
    end.

  (* the inputs without spare capacity (cap = len).  EditTheorems.edit_script_run_cap_indep: for
     every equivalence eqb the result is the same whatever the spare capacity holds. *)
  Definition edit_script_run (lhs rhs : list T) : eres (list (edit T)) :=
    edit_script_run_cap [] [] lhs rhs.

  (* The returned script as a plain list.  This projection is meaningful only together with
     EditProofs.edit_script_run_ok : edit_script_run eqb lhs rhs = EOk (edit_script_func eqb lhs rhs)
     (for every equivalence eqb), which says the [_ => []] branch is never taken. *)
  Definition edit_script_func (lhs rhs : list T) : list (edit T) :=
    match edit_script_run lhs rhs with
    | EOk es => es
    | _ => []
    end.

  (* EditScript(lhs, rhs) on a comparable type is editScriptFunc(equal, lhs, rhs): instantiate
     [eqb] with a decision procedure for equality (Gen: es_pub_arg0/1/2, es_equal;
     EditProofs.skeleton_calls, es_equal_decides). *)
End EditModel.

Arguments edit_script_run_cap {T} eqb lx rx lhs rhs.
Arguments edit_script_run {T} eqb lhs rhs.
Arguments edit_script_func {T} eqb lhs rhs.
