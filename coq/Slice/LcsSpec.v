(* Reference definitions for LCS, independent of the model: the textbook length-only dynamic
   programme (one row of numbers per element of [l]) and a greedy subsequence test.  Used by the
   OCaml driver to evaluate the property on the implementation's own output. *)
From Coq Require Import List Arith.
Import ListNotations.

Section LcsSpec.
  Variable T : Type.
  Variable eqb : T -> T -> bool.

  (* next row of the LCS-length table for element [x]: [old] is the row for the prefix before
     [x] (old[j] = optimum for that prefix against the first j elements of [r]); [left] is the
     entry just computed to the left, [diag] the old entry above-left. *)
  Fixpoint lcs_row (x : T) (r : list T) (old : list nat) (diag left : nat) : list nat :=
    match r, old with
    | y :: r', up :: old' =>
      let v := if eqb x y then S diag else Nat.max left up in
      v :: lcs_row x r' old' up v
    | _, _ => []
    end.

  (* rows carry the entries for j = 1..|r| (the j = 0 entry is always 0) *)
  Fixpoint lcs_rows_ref (l r : list T) (old : list nat) : list nat :=
    match l with
    | [] => old
    | x :: l' => lcs_rows_ref l' r (lcs_row x r old 0 0)
    end.

  Definition lcs_len_ref (l r : list T) : nat :=
    last (lcs_rows_ref l r (repeat 0 (length r))) 0.

  (* is [s] a subsequence of [l] up to eqb (test applied as eqb s_elem l_elem)?  Greedy leftmost
     matching, which is complete when eqb is an equivalence. *)
  Fixpoint subseq_b (s l : list T) : bool :=
    match s, l with
    | [], _ => true
    | _ :: _, [] => false
    | x :: s', y :: l' => if eqb x y then subseq_b s' l' else subseq_b s l'
    end.
End LcsSpec.
