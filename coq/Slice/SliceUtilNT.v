(* The number theory behind slice.Rotate's gcd cycle chasing (C17): the step map
   phi i = (i + k) mod n is injective on [0,n), preserves residues mod gcd(k,n), has a closed form
   for its iterates, returns to its start after n steps, and every position is reached from the
   representative of its residue class (Bezout).  From design-spikes/RotateNumberTheorySpike.v. *)
From Coq Require Import ZArith Znumtheory Lia List Arith.
Import ListNotations.
Open Scope Z_scope.

Definition phi (n k i : Z) : Z := (i + k) mod n.
Fixpoint iter (n k : Z) (m : nat) (i : Z) : Z :=
  match m with O => i | S m' => phi n k (iter n k m' i) end.

Section NT.
Variables n k : Z.
Hypothesis Hn : 0 < n.
Local Notation g := (Z.gcd k n).
Local Notation phi := (phi n k).
Local Notation iter := (iter n k).

Lemma g_pos : 0 < g.
Proof.
  pose proof (Z.gcd_nonneg k n) as H.
  assert (Z.gcd k n <> 0). { intro E. apply Z.gcd_eq_0_r in E. lia. } lia.
Qed.

Lemma g_le_n : g <= n.
Proof.
  pose proof g_pos as Hg. destruct (Z.gcd_divide_r k n) as [c Hc].
  assert (0 < c) by nia. nia.
Qed.

Lemma phi_range i : 0 <= phi i < n.
Proof. unfold SliceUtilNT.phi. apply Z.mod_pos_bound. exact Hn. Qed.

Lemma phi_inj i i' : 0 <= i < n -> 0 <= i' < n -> phi i = phi i' -> i = i'.
Proof.
  unfold SliceUtilNT.phi. intros Hi Hi' E.
  assert (D: ((i + k) - (i' + k)) mod n = 0).
  { rewrite Zminus_mod, E, Z.sub_diag. apply Z.mod_0_l. lia. }
  replace (i + k - (i' + k)) with (i - i') in D by lia.
  apply Z.mod_divide in D; [|lia]. destruct D as [c Hc].
  assert (c = 0) by nia. subst c. lia.
Qed.

Lemma phi_class i : (phi i) mod g = i mod g.
Proof.
  unfold SliceUtilNT.phi. pose proof g_pos as Hg.
  rewrite <- Zmod_div_mod; [| exact Hg | exact Hn | apply Z.gcd_divide_r ].
  destruct (Z.gcd_divide_l k n) as [c Hc].
  rewrite Hc at 1. rewrite Z.mod_add by lia. reflexivity.
Qed.

(* the inverse step *)
Lemma phi_inv i : 0 <= i < n -> (phi i - k) mod n = i.
Proof.
  intros Hi. unfold SliceUtilNT.phi. rewrite Zminus_mod_idemp_l.
  replace (i + k - k) with i by lia. apply Z.mod_small. exact Hi.
Qed.

Lemma iter_range m i : 0 <= i < n -> 0 <= iter m i < n.
Proof. intros Hi. destruct m; cbn [SliceUtilNT.iter]; [exact Hi | apply phi_range]. Qed.

Lemma iter_add a b i : iter (a + b) i = iter a (iter b i).
Proof. induction a as [|a IH]; cbn [SliceUtilNT.iter plus]; [reflexivity|]. rewrite IH. reflexivity. Qed.

Lemma iter_inj m i i' : 0 <= i < n -> 0 <= i' < n -> iter m i = iter m i' -> i = i'.
Proof.
  intros Hi Hi'. induction m as [|m IH]; cbn [SliceUtilNT.iter]; [auto|].
  intros E. apply IH. apply phi_inj; [apply iter_range | apply iter_range |]; assumption.
Qed.

Lemma iter_class m i : (iter m i) mod g = i mod g.
Proof. induction m as [|m IH]; cbn [SliceUtilNT.iter]; [reflexivity|]. rewrite phi_class. exact IH. Qed.

Lemma iter_closed m i : 0 <= i < n -> (iter m i = (i + Z.of_nat m * k) mod n).
Proof.
  intros Hi. induction m as [|m IH].
  - cbn [SliceUtilNT.iter]. rewrite Z.add_0_r. symmetry. apply Z.mod_small. exact Hi.
  - cbn [SliceUtilNT.iter]. rewrite IH. unfold SliceUtilNT.phi. rewrite Zplus_mod_idemp_l. f_equal. lia.
Qed.

(* after n steps every position is back where it started *)
Lemma iter_n i : 0 <= i < n -> iter (Z.to_nat n) i = i.
Proof.
  intros Hi. rewrite iter_closed by exact Hi. rewrite Z2Nat.id by lia.
  rewrite Z.mul_comm, Z.mod_add by lia. apply Z.mod_small. exact Hi.
Qed.

(* a point that returns after t steps has its whole orbit among the first t iterates *)
Lemma iter_period (t : nat) j m : (0 < t)%nat -> iter t j = j -> exists r, (r < t)%nat /\ iter m j = iter r j.
Proof.
  intros Ht E.
  assert (P : forall q, iter (q * t) j = j).
  { induction q as [|q IH]; [reflexivity|]. cbn [mult]. rewrite iter_add, IH. exact E. }
  exists (m mod t)%nat. split; [apply Nat.mod_upper_bound; lia|].
  rewrite (Nat.div_mod m t) at 1 by lia.
  rewrite Nat.add_comm, iter_add, (Nat.mul_comm t), P. reflexivity.
Qed.

(* coverage: every position is reached from the representative of its class *)
Lemma coverage q : 0 <= q < n -> exists m : nat, iter m (q mod g) = q.
Proof.
  intros Hq. pose proof g_pos as Hg.
  destruct (Z.gcd_bezout k n g eq_refl) as [u [v Huv]].
  set (t := q / g). set (r := q mod g).
  assert (Hqr: q = r + t * g) by (unfold r, t; rewrite (Z.div_mod q g) at 1 by lia; lia).
  set (m := (t * u) mod n).
  assert (Hm: 0 <= m < n) by (apply Z.mod_pos_bound; exact Hn).
  exists (Z.to_nat m).
  assert (Hr: 0 <= r < n).
  { unfold r. pose proof (Z.mod_pos_bound q g Hg). pose proof g_le_n. lia. }
  rewrite iter_closed by exact Hr. rewrite Z2Nat.id by lia.
  unfold m. rewrite <- Zplus_mod_idemp_r. rewrite Zmult_mod_idemp_l. rewrite Zplus_mod_idemp_r.
  replace (r + t * u * k) with (q + (- (t * v)) * n) by (rewrite Hqr at 1; rewrite <- Huv; ring).
  rewrite Z.mod_add by lia. apply Z.mod_small. exact Hq.
Qed.
End NT.
