(* Facts about the specification of edit scripts (Slice/EditSpec.v) that do not depend on how a
   script is computed: composition, the checkers decide [Valid], length accounting, and the
   common subsequence a valid script exhibits (the bridge to "no script keeps more than an
   LCS"). *)
From Coq Require Import ZArith List Bool Lia.
Import ListNotations.
From Mds Require Import Slice.Subseq Slice.EditLoop Slice.EditSpec.

Section EditSpecProofs.
  Variable T : Type.
  Variable eqb : T -> T -> bool.
  Local Notation edit := (EditLoop.edit T).
  Local Notation Valid := (Valid eqb).

  Lemma Forall2_len : forall {A B} (R : A -> B -> Prop) x y, Forall2 R x y -> length x = length y.
  Proof. induction 1; cbn; congruence. Qed.

  (* ---- composition ------------------------------------------------------------------- *)

  Lemma Valid_app : forall es1 l1 r1 es2 l2 r2,
      Valid l1 r1 es1 -> Valid l2 r2 es2 -> Valid (l1 ++ l2) (r1 ++ r2) (es1 ++ es2).
  Proof.
    induction es1 as [|e es1 IH]; intros l1 r1 es2 l2 r2 H1 H2; cbn in *.
    - destruct H1 as [-> ->]. exact H2.
    - destruct (eop e).
      + destruct H1 as (l' & -> & Hy & H1). exists (l' ++ l2). rewrite app_assoc. auto.
      + destruct H1 as (l' & y & r' & -> & -> & Hy & Hf & H1).
        exists (l' ++ l2), y, (r' ++ r2). rewrite !app_assoc. auto 6.
      + destruct H1 as (r' & -> & Hx & H1). exists (r' ++ r2). rewrite app_assoc. auto.
      + destruct H1 as (l' & r' & -> & -> & H1). exists (l' ++ l2), (r' ++ r2).
        rewrite !app_assoc. auto.
  Qed.

  Lemma Valid_nil : Valid [] [] [].
  Proof. cbn. auto. Qed.

  Lemma Valid_drop : forall x, Valid x [] [mkEdit Drop x []].
  Proof. intros x. cbn. exists []. rewrite app_nil_r. auto. Qed.

  Lemma Valid_copy : forall y, Valid [] y [mkEdit Copy [] y].
  Proof. intros y. cbn. exists []. rewrite app_nil_r. auto. Qed.

  Lemma Valid_replace : forall x y, Valid x y [mkEdit Replace x y].
  Proof. intros x y. cbn. exists [], []. rewrite !app_nil_r. auto. Qed.

  Lemma Valid_emit : forall x y,
      Forall2 (fun a b => eqb a b = true) x y -> Valid x y [mkEdit Emit x []].
  Proof. intros x y H. cbn. exists [], y, []. rewrite !app_nil_r. auto 6. Qed.

  (* ---- execution --------------------------------------------------------------------- *)

  (* no law of eqb needed: the output is rhs, position by position either the very element (Copy,
     Replace) or an equivalent one (Emit) *)
  Theorem Valid_exec_gen : forall es l r,
      Valid l r es ->
      consumed es = l /\ Forall2 (fun a b => a = b \/ eqb a b = true) (produced es) r.
  Proof.
    assert (Hid : forall y : list T, Forall2 (fun a b => a = b \/ eqb a b = true) y y)
      by (induction y; constructor; auto).
    induction es as [|e es IH]; intros l r H; cbn in *.
    - destruct H as [-> ->]. split; [reflexivity | constructor].
    - destruct (eop e).
      + destruct H as (l' & -> & Hy & H). destruct (IH _ _ H) as [<- H2]. auto.
      + destruct H as (l' & y & r' & -> & -> & Hy & Hf & H). destruct (IH _ _ H) as [<- H2].
        split; [reflexivity|]. apply Forall2_app; [|assumption].
        clear -Hf. induction Hf; constructor; auto.
      + destruct H as (r' & -> & Hx & H). destruct (IH _ _ H) as [<- H2].
        split; [reflexivity|]. apply Forall2_app; [apply Hid | assumption].
      + destruct H as (l' & r' & -> & -> & H). destruct (IH _ _ H) as [<- H2].
        split; [reflexivity|]. apply Forall2_app; [apply Hid | assumption].
  Qed.

  Section Exec.
  Hypothesis eqb_refl : forall x, eqb x x = true.

  (* a valid script consumes exactly l; its output is r up to eqb, position by position *)
  Theorem Valid_exec : forall es l r,
      Valid l r es -> consumed es = l /\ EqLists eqb (produced es) r.
  Proof.
    unfold EqLists. induction es as [|e es IH]; intros l r H; cbn in *.
    - destruct H as [-> ->]. split; [reflexivity | constructor].
    - destruct (eop e).
      + destruct H as (l' & -> & Hy & H). destruct (IH _ _ H) as [<- H2]. auto.
      + destruct H as (l' & y & r' & -> & -> & Hy & Hf & H). destruct (IH _ _ H) as [<- H2].
        split; [reflexivity | now apply Forall2_app].
      + destruct H as (r' & -> & Hx & H). destruct (IH _ _ H) as [<- H2].
        split; [reflexivity|]. apply Forall2_app; [|assumption].
        clear -eqb_refl. induction (Y e); constructor; [apply eqb_refl | assumption].
      + destruct H as (l' & r' & -> & -> & H). destruct (IH _ _ H) as [<- H2].
        split; [reflexivity|]. apply Forall2_app; [|assumption].
        clear -eqb_refl. induction (Y e); constructor; [apply eqb_refl | assumption].
  Qed.
  End Exec.

  (* ---- the checkers ------------------------------------------------------------------ *)

  Lemma take_span_iff : forall (f : T -> T -> bool) x l l',
      take_span f x l = Some l' <->
      exists p, l = p ++ l' /\ Forall2 (fun a b => f a b = true) x p.
  Proof.
    induction x as [|a x IH]; intros l l'; cbn.
    - split.
      + intros [= ->]. exists []. auto.
      + intros (p & -> & Hp). inversion Hp. reflexivity.
    - destruct l as [|b l].
      + split; [discriminate|]. intros (p & Hl & Hp). inversion Hp; subst. discriminate.
      + destruct (f a b) eqn:Hab.
        * rewrite IH. split.
          -- intros (p & -> & Hp). exists (b :: p). auto.
          -- intros (p & Hl & Hp). inversion Hp; subst. cbn in Hl. injection Hl as -> ->. eauto.
        * split; [discriminate|]. intros (p & Hl & Hp). inversion Hp; subst.
          cbn in Hl. injection Hl as -> ->. congruence.
  Qed.

  Lemma Forall2_same_eq : forall (same : T -> T -> bool),
      (forall a b, same a b = true <-> a = b) ->
      forall x p, Forall2 (fun a b => same a b = true) x p <-> x = p.
  Proof.
    intros same Hs x p. split.
    - induction 1; [reflexivity|]. f_equal; [now apply Hs | assumption].
    - intros <-. induction x; constructor; [now apply Hs | assumption].
  Qed.

  Lemma take_span_same : forall (same : T -> T -> bool),
      (forall a b, same a b = true <-> a = b) ->
      forall x l l', take_span same x l = Some l' <-> l = x ++ l'.
  Proof.
    intros same Hs x l l'. rewrite take_span_iff. split.
    - intros (p & -> & Hp). apply (Forall2_same_eq same Hs) in Hp. now subst.
    - intros ->. exists x. split; [reflexivity | now apply (Forall2_same_eq same Hs)].
  Qed.

  Lemma is_nil_true : forall {A} (l : list A), is_nil l = true <-> l = [].
  Proof. intros A [|a l]; cbn; split; congruence. Qed.

  (* with [same] deciding identity of elements, the checker decides [Valid] *)
  Theorem valid_edits_gen_iff : forall (same : T -> T -> bool),
      (forall a b, same a b = true <-> a = b) ->
      forall es l r, valid_edits_gen eqb same l r es = true <-> Valid l r es.
  Proof.
    intros same Hs. induction es as [|e es IH]; intros l r; cbn.
    - rewrite andb_true_iff, !is_nil_true. tauto.
    - destruct (eop e).
      + destruct (take_span same (X e) l) as [l'|] eqn:Hx.
        * apply (take_span_same same Hs) in Hx. rewrite andb_true_iff, is_nil_true, IH. split.
          -- intros [Hy Hv]. eauto.
          -- intros (l'' & Hl & Hy & Hv). subst l. apply app_inv_head in Hl. subst. auto.
        * split; [discriminate|]. intros (l' & Hl & _).
          apply (take_span_same same Hs) in Hl. congruence.
      + destruct (take_span same (X e) l) as [l'|] eqn:Hx.
        * apply (take_span_same same Hs) in Hx.
          destruct (take_span eqb (X e) r) as [r'|] eqn:Hr.
          -- apply take_span_iff in Hr. destruct Hr as (p & Hr & Hp).
             rewrite andb_true_iff, is_nil_true, IH. split.
             ++ intros [Hy Hv]. exists l', p, r'. auto 6.
             ++ intros (l'' & y & r'' & Hl & Hr' & Hy & Hf & Hv). subst l.
                apply app_inv_head in Hl. subst l''. split; [assumption|].
                assert (Hlen : length y = length p).
                { apply Forall2_len in Hf. apply Forall2_len in Hp. lia. }
                subst r. assert (y = p /\ r'' = r') as [-> ->]; [|assumption].
                { clear -Hr' Hlen. revert p Hr' Hlen. induction y as [|a y IHy]; intros [|b p] H Hl; cbn in *; try discriminate.
                  - auto.
                  - injection H as -> H. injection Hl as Hl. destruct (IHy p H Hl) as [-> ->]. auto. }
          -- split; [discriminate|]. intros (l'' & y & r'' & Hl & Hr' & Hy & Hf & Hv).
             assert (take_span eqb (X e) r = Some r'') by (apply take_span_iff; eauto). congruence.
        * split; [destruct (take_span eqb (X e) r); discriminate|].
          intros (l' & y & r' & Hl & _). apply (take_span_same same Hs) in Hl. congruence.
      + destruct (take_span same (Y e) r) as [r'|] eqn:Hy.
        * apply (take_span_same same Hs) in Hy. rewrite andb_true_iff, is_nil_true, IH. split.
          -- intros [Hx Hv]. eauto.
          -- intros (r'' & Hr & Hx & Hv). subst r. apply app_inv_head in Hr. subst. auto.
        * split; [discriminate|]. intros (r' & Hr & _).
          apply (take_span_same same Hs) in Hr. congruence.
      + destruct (take_span same (X e) l) as [l'|] eqn:Hx.
        * apply (take_span_same same Hs) in Hx.
          destruct (take_span same (Y e) r) as [r'|] eqn:Hy.
          -- apply (take_span_same same Hs) in Hy. rewrite IH. split.
             ++ intros Hv. eauto.
             ++ intros (l'' & r'' & Hl & Hr & Hv). subst l r.
                apply app_inv_head in Hl. apply app_inv_head in Hr. subst. assumption.
          -- split; [discriminate|]. intros (l'' & r'' & _ & Hr & _).
             apply (take_span_same same Hs) in Hr. congruence.
        * split; [destruct (take_span same (Y e) r); discriminate|].
          intros (l' & r' & Hl & _). apply (take_span_same same Hs) in Hl. congruence.
  Qed.

  (* whatever [same] is, as long as it accepts identical elements, a Valid script passes *)
  Lemma take_span_refl : forall (same : T -> T -> bool),
      (forall a, same a a = true) -> forall x l', take_span same x (x ++ l') = Some l'.
  Proof. intros same Hs. induction x as [|a x IH]; intros l'; cbn; [reflexivity|]. now rewrite Hs. Qed.

  Theorem Valid_valid_edits_gen : forall (same : T -> T -> bool),
      (forall a, same a a = true) ->
      forall es l r, Valid l r es -> valid_edits_gen eqb same l r es = true.
  Proof.
    intros same Hs. induction es as [|e es IH]; intros l r H; cbn in *.
    - destruct H as [-> ->]. reflexivity.
    - destruct (eop e).
      + destruct H as (l' & -> & -> & H). rewrite (take_span_refl same Hs). cbn. auto.
      + destruct H as (l' & y & r' & -> & -> & -> & Hf & H). rewrite (take_span_refl same Hs).
        assert (Hr : take_span eqb (X e) (y ++ r') = Some r') by (apply take_span_iff; eauto).
        rewrite Hr. cbn. auto.
      + destruct H as (r' & -> & -> & H). rewrite (take_span_refl same Hs). cbn. auto.
      + destruct H as (l' & r' & -> & -> & H). rewrite !(take_span_refl same Hs). auto.
  Qed.

  Lemma eq_lists_iff : forall l r, eq_lists eqb l r = true <-> EqLists eqb l r.
  Proof.
    unfold EqLists. induction l as [|a l IH]; intros [|b r]; cbn.
    - split; auto.
    - split; [discriminate | inversion 1].
    - split; [discriminate | inversion 1].
    - rewrite andb_true_iff, IH. split.
      + intros [? ?]. constructor; assumption.
      + inversion 1; subst. auto.
  Qed.

  (* ---- accounting -------------------------------------------------------------------- *)

  Lemma kept_app : forall es1 es2 : list edit, kept (es1 ++ es2) = kept es1 + kept es2.
  Proof. induction es1; intros; cbn; [reflexivity|]. rewrite IHes1. lia. Qed.

  Lemma Valid_lengths : forall es l r,
      Valid l r es -> length l = kept es + dropped es /\ length r = kept es + copied es.
  Proof.
    induction es as [|e es IH]; intros l r H; cbn in *.
    - destruct H as [-> ->]. auto.
    - destruct (eop e).
      + destruct H as (l' & -> & Hy & H). apply IH in H. rewrite app_length. lia.
      + destruct H as (l' & y & r' & -> & -> & Hy & Hf & H). apply IH in H.
        apply Forall2_len in Hf. rewrite !app_length. lia.
      + destruct H as (r' & -> & Hx & H). apply IH in H. rewrite app_length. lia.
      + destruct H as (l' & r' & -> & -> & H). apply IH in H. rewrite !app_length. lia.
  Qed.

  (* The elements a valid script keeps form a common subsequence: an exact subsequence of lhs,
     and a subsequence of rhs up to eqb (kept element on the left of eqb). *)
  Lemma Forall2_SubseqR : forall (R : T -> T -> Prop) x y, Forall2 R x y -> SubseqR R x y.
  Proof. induction 1; [apply sr_nil | now apply sr_take]. Qed.

  Theorem Valid_common_subseq : forall es l r,
      Valid l r es ->
      exists c, length c = kept es /\ Subseq c l /\ SubseqB eqb c r.
  Proof.
    induction es as [|e es IH]; intros l r H; cbn in *.
    - exists []. repeat split; apply sr_nil.
    - destruct (eop e).
      + destruct H as (l' & -> & Hy & H). destruct (IH _ _ H) as (c & Hc & H1 & H2).
        exists c. repeat split; [assumption | now apply SubseqR_app_l | assumption].
      + destruct H as (l' & y & r' & -> & -> & Hy & Hf & H).
        destruct (IH _ _ H) as (c & Hc & H1 & H2).
        exists (X e ++ c). rewrite app_length. repeat split.
        * lia.
        * apply SubseqR_app; [apply Subseq_refl | assumption].
        * apply SubseqR_app; [now apply Forall2_SubseqR | assumption].
      + destruct H as (r' & -> & Hx & H). destruct (IH _ _ H) as (c & Hc & H1 & H2).
        exists c. repeat split; [assumption | assumption | now apply SubseqR_app_l].
      + destruct H as (l' & r' & -> & -> & H). destruct (IH _ _ H) as (c & Hc & H1 & H2).
        exists c. repeat split; [assumption | now apply SubseqR_app_l | now apply SubseqR_app_l].
  Qed.

  (* ---- the general reading ------------------------------------------------------------ *)

  Lemma Valid_Exec : forall es l r, Valid l r es -> Exec eqb l r es.
  Proof.
    induction es as [|e es IH]; intros l r H; cbn in *; [exact H|].
    destruct (eop e).
    - destruct H as (l' & -> & _ & H). eauto.
    - destruct H as (l' & y & r' & -> & -> & _ & Hf & H). eauto 8.
    - destruct H as (r' & -> & _ & H). eauto.
    - destruct H as (l' & r' & -> & -> & H). eauto 6.
  Qed.

  (* emptying the unused fields turns any executable script into a Valid one that keeps, drops
     and copies the same numbers of elements *)
  Lemma Exec_clean : forall es l r,
      Exec eqb l r es ->
      Valid l r (map clean es) /\ kept (map clean es) = kept es /\
      dropped (map clean es) = dropped es /\ copied (map clean es) = copied es.
  Proof.
    induction es as [|e es IH]; intros l r H; cbn [map Exec] in *.
    - cbn. auto.
    - unfold clean at 1 3 5 7. cbn [Valid kept dropped copied].
      destruct (eop e) eqn:He; cbn [eop X Y]; rewrite ?He.
      + destruct H as (l' & -> & H). destruct (IH _ _ H) as (Hv & -> & -> & ->). eauto 8.
      + destruct H as (l' & y & r' & -> & -> & Hf & H). destruct (IH _ _ H) as (Hv & -> & -> & ->).
        repeat split; auto. exists l', y, r'. auto 6.
      + destruct H as (r' & -> & H). destruct (IH _ _ H) as (Hv & -> & -> & ->). eauto 8.
      + destruct H as (l' & r' & -> & -> & H). destruct (IH _ _ H) as (Hv & -> & -> & ->). eauto 8.
  Qed.

  Theorem Exec_common_subseq : forall es l r,
      Exec eqb l r es ->
      exists c, length c = kept es /\ Subseq c l /\ SubseqB eqb c r.
  Proof.
    intros es l r H. destruct (Exec_clean es l r H) as (Hv & Hk & _).
    destruct (Valid_common_subseq _ _ _ Hv) as (c & Hc & H1 & H2).
    exists c. repeat split; [congruence | assumption | assumption].
  Qed.

  (* |lhs| = kept + dropped, |rhs| = kept + copied: so the size of the change is
     |lhs| + |rhs| - 2 kept, and keeping the most is changing the least *)
  Lemma Exec_lengths : forall es l r,
      Exec eqb l r es -> length l = kept es + dropped es /\ length r = kept es + copied es.
  Proof.
    intros es l r H. destruct (Exec_clean es l r H) as (Hv & Hk & Hd & Hc).
    destruct (Valid_lengths _ _ _ Hv). lia.
  Qed.

  Lemma Exec_cost : forall es l r,
      Exec eqb l r es -> cost es + 2 * kept es = length l + length r.
  Proof. intros es l r H. destruct (Exec_lengths es l r H). unfold cost. lia. Qed.

  (* ---- shape ------------------------------------------------------------------------- *)

  (* strict alternation implies the two adjacency clauses of the property text *)
  Lemma alternating_adjacent_ok : forall es : list edit,
      alternating es = true -> all_adjacent adjacent_ok es = true.
  Proof.
    unfold alternating. induction es as [|a [|b es] IH]; intros H; try reflexivity.
    cbn [all_adjacent] in *. apply andb_true_iff in H. destruct H as [Hab H].
    rewrite (IH H), andb_true_r. clear -Hab.
    unfold adjacent_ok, is_op in *. destruct (eop a), (eop b); cbn in *; congruence.
  Qed.

  Lemma all_adjacent_snoc : forall (f : edit -> edit -> bool) es a b,
      all_adjacent f (es ++ [a]) = true -> f a b = true -> all_adjacent f ((es ++ [a]) ++ [b]) = true.
  Proof.
    intros f. induction es as [|c es IH]; intros a b H Hab.
    - cbn. now rewrite Hab.
    - destruct es as [|d es].
      + cbn in *. apply andb_true_iff in H. destruct H as [H _]. now rewrite H, Hab.
      + change (all_adjacent f (c :: ((d :: es) ++ [a]) ++ [b]) = true).
        change (all_adjacent f (c :: (d :: es) ++ [a]) = true) in H.
        cbn [all_adjacent app] in *. apply andb_true_iff in H. destruct H as [Hcd H].
        rewrite Hcd. cbn [andb]. apply (IH a b); assumption.
  Qed.

  Lemma forallb_snoc : forall {A} (f : A -> bool) l a,
      forallb f (l ++ [a]) = forallb f l && f a.
  Proof. intros. rewrite forallb_app. cbn. now rewrite andb_true_r. Qed.
End EditSpecProofs.
