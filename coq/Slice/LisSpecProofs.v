(* The reference definition [lis_len_ref] of LisSpec.v (used by the OCaml driver to judge the
   implementation's outputs) is the optimum: the largest length of an ordered subsequence.  No
   law on cmp is needed for that (orderedness is adjacency).  Under the total-preorder laws it
   equals the length of what [lnds_func] / [lis_func] return. *)
From Coq Require Import ZArith List Bool Lia Arith.
Import ListNotations.
From Mds Require Import Slice.Subseq Slice.LcsLisUtil Slice.LisModel Slice.LisSpec Slice.LisProofs.

Section LisSpecProofs.
  Variable T : Type.
  Variable cmp : T -> T -> Z.
  Variable strict : bool.
  Notation fol := (follows T cmp strict).
  Notation ord := (ordered_b T cmp strict).

  (* k is the largest length of an ordered subsequence of vs *)
  Definition OptLis (vs : list T) (k : nat) : Prop :=
    (exists t, Subseq t vs /\ ord t = true /\ length t = k) /\
    (forall t, Subseq t vs -> ord t = true -> length t <= k).

  (* k is the largest length of an ordered subsequence of pre ++ [v] that ends in this v *)
  Definition EndOpt (pre : list T) (v : T) (k : nat) : Prop :=
    (exists u, Subseq u pre /\ ord (u ++ [v]) = true /\ S (length u) = k) /\
    (forall u, Subseq u pre -> ord (u ++ [v]) = true -> S (length u) <= k).

  Inductive TableOK : list T -> list (T * nat) -> Prop :=
  | tk_nil : TableOK [] []
  | tk_snoc : forall P done v k,
      TableOK P done -> EndOpt P v k -> TableOK (P ++ [v]) (done ++ [(v, k)]).

  Lemma ord_snoc2 : forall u w v, ord ((u ++ [w]) ++ [v]) = true <-> ord (u ++ [w]) = true /\ fol w v = true.
  Proof.
    intros u w v. rewrite (ordered_snoc T cmp strict (u ++ [w]) v w).
    - now rewrite last_last.
    - intros E. apply app_eq_nil in E. destruct E; discriminate.
  Qed.

  (* the inner fold: best chain that v can extend *)
  Lemma best_before : forall P done v, TableOK P done ->
    let m := fold_left (fun m (uk : T * nat) => if fol (fst uk) v then Nat.max m (snd uk) else m) done 0 in
    (exists u, Subseq u P /\ ord (u ++ [v]) = true /\ length u = m) /\
    (forall u, Subseq u P -> ord (u ++ [v]) = true -> length u <= m).
  Proof.
    intros P done v H. induction H as [|P done w k H IH [(uw & W1 & W2 & W3) WB]]; cbn zeta.
    - cbn. split.
      + exists []. repeat split. apply sr_nil.
      + intros u Hu _. apply SubseqR_nil_r in Hu. subst. cbn; lia.
    - rewrite fold_left_app. cbn [fold_left fst snd].
      set (m' := fold_left _ done 0) in *. cbn zeta in IH. destruct IH as [(u0 & A1 & A2 & A3) B].
      assert (Hold : forall u, Subseq u (P ++ [w]) -> ord (u ++ [v]) = true ->
                length u <= m' \/ (fol w v = true /\ length u <= k)).
      { intros u Hu Ho. destruct (SubseqR_snoc_inv _ _ _ _ Hu) as [H1 | (u' & x & -> & <- & H1)].
        - left. now apply B.
        - right. apply ord_snoc2 in Ho. destruct Ho as [Ho1 Ho2]. split; [exact Ho2|].
          specialize (WB _ H1 Ho1). rewrite app_length; cbn; lia. }
      destruct (fol w v) eqn:Ef.
      + split.
        * destruct (Nat.max_spec m' k) as [[_ ->]|[_ ->]].
          -- exists (uw ++ [w]). repeat split.
             ++ apply SubseqR_snoc; auto.
             ++ apply ord_snoc2. split; assumption.
             ++ rewrite app_length; cbn; lia.
          -- exists u0. repeat split; auto; now apply SubseqR_app_r.
        * intros u Hu Ho. destruct (Hold u Hu Ho) as [|[_ ?]]; lia.
      + split.
        * exists u0. repeat split; auto; now apply SubseqR_app_r.
        * intros u Hu Ho. destruct (Hold u Hu Ho) as [|[? _]]; [lia | discriminate].
  Qed.

  Lemma lis_table_ok : forall rest P done, TableOK P done ->
    TableOK (P ++ rest) (lis_table T cmp strict done rest).
  Proof.
    induction rest as [|v rest IH]; intros P done H; cbn [lis_table].
    - now rewrite app_nil_r.
    - replace (P ++ v :: rest) with ((P ++ [v]) ++ rest) by (now rewrite <- app_assoc).
      apply IH. apply tk_snoc; [exact H|].
      destruct (best_before P done v H) as [(u & U1 & U2 & U3) B]. split.
      + exists u. repeat split; auto; now rewrite U3.
      + intros u' H1 H2. specialize (B _ H1 H2). lia.
  Qed.

  Lemma table_max : forall P table, TableOK P table ->
    OptLis P (fold_left (fun m (uk : T * nat) => Nat.max m (snd uk)) table 0).
  Proof.
    intros P table H. induction H as [|P done w k H [(t0 & A1 & A2 & A3) B] [(uw & W1 & W2 & W3) WB]].
    - cbn. split.
      + exists []. repeat split. apply sr_nil.
      + intros t Ht _. apply SubseqR_nil_r in Ht. subst. cbn; lia.
    - rewrite fold_left_app. cbn [fold_left snd]. set (M := fold_left _ done 0) in *. split.
      + destruct (Nat.max_spec M k) as [[_ ->]|[_ ->]].
        * exists (uw ++ [w]). repeat split; auto.
          -- apply SubseqR_snoc; auto.
          -- rewrite app_length; cbn; lia.
        * exists t0. repeat split; auto; now apply SubseqR_app_r.
      + intros t Ht Ho. destruct (SubseqR_snoc_inv _ _ _ _ Ht) as [H1 | (t' & x & -> & <- & H1)].
        * specialize (B _ H1 Ho). lia.
        * specialize (WB _ H1 Ho). rewrite app_length; cbn; lia.
  Qed.

  Theorem lis_len_ref_optimal : forall vs, OptLis vs (lis_len_ref T cmp strict vs).
  Proof.
    intros vs. unfold lis_len_ref. apply table_max.
    apply (lis_table_ok vs [] [] tk_nil).
  Qed.

  Lemma OptLis_unique : forall vs k k', OptLis vs k -> OptLis vs k' -> k = k'.
  Proof.
    intros vs k k' [(t & A1 & A2 & A3) B] [(t' & A1' & A2' & A3') B'].
    specialize (B _ A1' A2'). specialize (B' _ A1 A2). lia.
  Qed.
End LisSpecProofs.

(* ---- agreement with the models ---- *)
Section Agreement.
  Variable T : Type.
  Variable cmp : T -> T -> Z.
  Hypothesis cmp_flip : forall a b, (Z.sgn (cmp b a) = - Z.sgn (cmp a b))%Z.
  Hypothesis cmp_trans : forall a b c, (cmp a b <= 0 -> cmp b c <= 0 -> cmp a c <= 0)%Z.

  Theorem lnds_func_length_is_ref : forall vs s,
    lnds_func T cmp vs = Some s -> length s = lis_len_ref T cmp false vs.
  Proof.
    intros vs s H. destruct (lnds_func_optimal T cmp cmp_flip cmp_trans vs) as (s' & E & S1 & S2 & S3).
    rewrite H in E. inversion E; subst s'. apply (OptLis_unique T cmp false vs).
    - split; [exists s; auto | exact S3].
    - apply lis_len_ref_optimal.
  Qed.

  Theorem lis_func_length_is_ref : forall vs s,
    lis_func T cmp vs = Some s -> length s = lis_len_ref T cmp true vs.
  Proof.
    intros vs s H. destruct (lis_func_optimal T cmp cmp_flip cmp_trans vs) as (s' & E & S1 & S2 & S3).
    rewrite H in E. inversion E; subst s'. apply (OptLis_unique T cmp true vs).
    - split; [exists s; auto | exact S3].
    - apply lis_len_ref_optimal.
  Qed.
End Agreement.
