(* C17: Chunks and Batches. *)
From Coq Require Import ZArith List Bool Lia.
Import ListNotations.
From Mds Require Import Gen.SliceIdx Slice.SliceUtilModel Slice.SliceUtilSpec Slice.SliceUtilProofs.
Local Open Scope Z_scope.

Lemma clipped_cannot_overwrite w c : clipped c -> can_overwrite w c = false.
Proof. unfold clipped, can_overwrite. intros ->. rewrite Z.ltb_irrefl. reflexivity. Qed.

Lemma self_cannot_overwrite v : can_overwrite v v = false.
Proof. unfold can_overwrite. rewrite Z.ltb_irrefl. apply andb_false_r. Qed.

Lemma tiles_le o cs e : tiles o cs e -> o <= e.
Proof. revert o. induction cs as [|c r IH]; cbn [tiles]; intros o H; [lia|]. destruct H as (_ & H1 & H2). apply IH in H2. lia. Qed.

Lemma tiles_app o cs1 m cs2 e : tiles o cs1 m -> tiles m cs2 e -> tiles o (cs1 ++ cs2) e.
Proof.
  revert o. induction cs1 as [|c r IH]; cbn [tiles app]; intros o H1 H2; [subst; exact H2|].
  destruct H1 as (A & B & C). repeat split; auto.
Qed.

Lemma firstn_add_split {T} (a b : nat) (x : list T) : firstn (a + b) x = firstn a x ++ firstn b (skipn a x).
Proof.
  revert x. induction a as [|a IH]; intros x; [reflexivity|].
  destruct x as [|h t]; [cbn [skipn]; rewrite !firstn_nil; reflexivity|]. cbn [plus firstn skipn app]. rewrite IH. reflexivity.
Qed.

(* consecutive views denote consecutive pieces of the base: their concatenation is the range *)
Lemma tiles_concat {T} (b : list T) o cs e : 0 <= o -> tiles o cs e ->
  concat (map (window b) cs) = firstn (Z.to_nat (e - o)) (skipn (Z.to_nat o) b).
Proof.
  revert o. induction cs as [|c r IH]; cbn [tiles map concat]; intros o Ho H.
  - subst. rewrite Z.sub_diag. reflexivity.
  - destruct H as (A & B & C). pose proof (tiles_le _ _ _ C) as Le.
    rewrite (IH (o + vlen c)) by (lia || exact C).
    unfold window. rewrite A.
    replace (Z.to_nat (e - o)) with (Z.to_nat (vlen c) + Z.to_nat (e - (o + vlen c)))%nat by lia.
    rewrite firstn_add_split. f_equal. rewrite skipn_skipn. f_equal. f_equal. lia.
Qed.

(* ---- Chunks ---- *)
Section ChunksLoop.
Variable v : view.
Variable n : Z.
Hypothesis Hv : 0 <= vlen v <= vcap v.
Hypothesis Hn : 0 < n.

Lemma chunks_loop_ok : forall fuel i out,
  0 <= i <= vlen v -> (Z.to_nat (vlen v - i) < fuel)%nat ->
  exists cs, chunks_loop fuel v n i out = Ok (out ++ cs) /\
    tiles (voff v + i) cs (voff v + vlen v) /\ Forall clipped cs /\
    (i = vlen v -> cs = []) /\
    (i < vlen v -> exists m last, map vlen cs = repeat n m ++ [last] /\ 0 < last <= n).
Proof.
  induction fuel as [|f IH]; intros i out Hi Hf; [lia|].
  cbn [chunks_loop]. unfold ch_loop, ch_end, ch_lo, ch_hi, ch_max, ch_i_next.
  destruct (i <? vlen v) eqn:E; zb.
  - set (e := Z.min (i + n) (vlen v)).
    assert (He : i < e <= vlen v) by (unfold e; lia).
    unfold slice3. destruct ((0 <=? i) && (i <=? e) && (e <=? e) && (e <=? vcap v)) eqn:Es; zb; try lia.
    cbn [bind].
    destruct (IH e (out ++ [mkView (voff v + i) (e - i) (e - i)]) ltac:(lia) ltac:(lia)) as (cs & C & Tl & Cl & Emp & Lens).
    exists (mkView (voff v + i) (e - i) (e - i) :: cs). rewrite C, <- app_assoc. split; [reflexivity|].
    split; [cbn [tiles voff vlen]; repeat split; try lia; replace (voff v + i + (e - i)) with (voff v + e) by lia; exact Tl|].
    split; [constructor; [reflexivity | exact Cl]|].
    split; [lia|]. intros _. cbn [map vlen].
    destruct (Z.eq_dec e (vlen v)) as [Ee|Ne].
    + rewrite (Emp Ee). exists O, (e - i). cbn [map repeat app]. split; [reflexivity|]. unfold e in *. lia.
    + destruct (Lens ltac:(lia)) as (m & last & L1 & L2). exists (S m), last. rewrite L1. cbn [repeat app].
      split; [f_equal; unfold e in *; lia | exact L2].
  - exists []. rewrite app_nil_r. split; [reflexivity|]. cbn [tiles].
    split; [lia|]. split; [constructor|]. split; [reflexivity|]. intros; lia.
Qed.
End ChunksLoop.

Theorem chunks_correct v n : 0 <= vlen v <= vcap v -> 0 <= n ->
  exists cs, chunks v n = Ok cs /\
    tiles (voff v) cs (voff v + vlen v) /\
    Forall (fun c => can_overwrite v c = false) cs /\
    (0 < n -> chunk_lens_ok (vlen v) n (map vlen cs)) /\
    (n = 0 -> cs = [v]) /\
    (Forall clipped cs \/ (cs = [v] /\ (n = 0 \/ vlen v <= n))).
Proof.
  intros Hv Hn. unfold chunks, ch_neg, ch_i0.
  destruct (n <? 0) eqn:E0; zb; [lia|].
  destruct (ch_single n (vlen v)) eqn:E1; unfold ch_single in E1.
  - (* the single chunk is vs itself; only n = 0 \/ vlen v <= n is used *)
    assert (Hc : n = 0 \/ vlen v <= n) by (zb; lia). clear E1.
    exists [v]. split; [reflexivity|]. split; [cbn [tiles]; repeat split; lia|].
    split; [constructor; [apply self_cannot_overwrite | constructor]|].
    split; [|split; [reflexivity | right; split; [reflexivity | exact Hc]]].
    intros Hp. exists O, (vlen v). cbn [map repeat app]. repeat split; lia.
  - (* the loop; only 0 < n and 0 < len are used *)
    assert (Hp : 0 < n) by (zb; lia). assert (Hl : 0 < vlen v) by (zb; lia). clear E1.
    destruct (n =? 0) eqn:E2; zb; [lia|].
    unfold ch_hint. destruct ((vlen v + n - 1) ÷ n <? 0) eqn:E3; zb.
    { pose proof (Z.quot_pos (vlen v + n - 1) n ltac:(lia) ltac:(lia)). lia. }
    destruct (chunks_loop_ok v n Hv Hp (S (Z.to_nat (vlen v))) 0 [] ltac:(lia) ltac:(lia)) as (cs & C & Tl & Cl & Emp & Lens).
    exists cs. rewrite C. cbn [app]. split; [reflexivity|]. rewrite Z.add_0_r in Tl. split; [exact Tl|].
    split; [eapply Forall_impl; [|exact Cl]; intros c Hc; apply clipped_cannot_overwrite; exact Hc|].
    split; [|split; [lia | left; exact Cl]]. intros _.
    destruct (Lens ltac:(lia)) as (m & last & L1 & L2). exists m, last. rewrite L1. repeat split; lia.
Qed.

Theorem chunks_negative v n : n < 0 -> chunks v n = Panic PDocMax.
Proof. intros H. unfold chunks, ch_neg. decide_if. reflexivity. Qed.

(* ---- Batches ---- *)
Section BatchesLoop.
Variable v : view.
Variable q : Z.
Hypothesis Hv : 0 <= vlen v <= vcap v.
Hypothesis Hq : 1 <= q.

(* c batches remain, the first rem of them one longer *)
Lemma batches_loop_ok : forall (c : nat) fuel i rem out,
  0 <= i -> 0 <= rem <= Z.of_nat c -> vlen v - i = Z.of_nat c * q + rem -> (c < fuel)%nat ->
  exists cs, batches_loop fuel v q i rem out = Ok (out ++ cs) /\
    tiles (voff v + i) cs (voff v + vlen v) /\ Forall clipped cs /\
    map vlen cs = repeat (q + 1) (Z.to_nat rem) ++ repeat q (c - Z.to_nat rem).
Proof.
  induction c as [|c IH]; intros fuel i rem out Hi Hr Hl Hf; (destruct fuel as [|f]; [lia|]);
    cbn [batches_loop]; unfold ba_loop, ba_end, ba_rem_pos, ba_end_inc, ba_rem_dec, ba_lo, ba_hi, ba_max, ba_i_next.
  - assert (rem = 0) by lia. subst rem. destruct (i <? vlen v) eqn:E; zb; [lia|].
    exists []. rewrite app_nil_r. split; [reflexivity|]. cbn [tiles]. repeat split; [lia | constructor].
  - assert (Hcq : q <= Z.of_nat (S c) * q) by nia.
    destruct (i <? vlen v) eqn:E; zb; [|nia].
    destruct (rem >? 0) eqn:Er; rewrite Z.gtb_ltb in Er; zb; cbn [fst snd].
    + set (e := i + q + 1).
      unfold slice3. destruct ((0 <=? i) && (i <=? e) && (e <=? e) && (e <=? vcap v)) eqn:Es; zb; try (unfold e in *; nia).
      cbn [bind].
      destruct (IH f e (rem - 1) (out ++ [mkView (voff v + i) (e - i) (e - i)])) as (cs & C & Tl & Cl & Lens); try (unfold e; nia).
      exists (mkView (voff v + i) (e - i) (e - i) :: cs). rewrite C, <- app_assoc. split; [reflexivity|].
      split; [cbn [tiles voff vlen]; repeat split; try (unfold e; lia); replace (voff v + i + (e - i)) with (voff v + e) by lia; exact Tl|].
      split; [constructor; [reflexivity | exact Cl]|].
      cbn [map vlen]. rewrite Lens.
      replace (Z.to_nat rem) with (S (Z.to_nat (rem - 1))) by lia. cbn [repeat app].
      f_equal. unfold e; lia.
    + assert (rem = 0) by lia. subst rem.
      set (e := i + q).
      unfold slice3. destruct ((0 <=? i) && (i <=? e) && (e <=? e) && (e <=? vcap v)) eqn:Es; zb; try (unfold e in *; nia).
      cbn [bind].
      destruct (IH f e 0 (out ++ [mkView (voff v + i) (e - i) (e - i)])) as (cs & C & Tl & Cl & Lens); try (unfold e; nia).
      exists (mkView (voff v + i) (e - i) (e - i) :: cs). rewrite C, <- app_assoc. split; [reflexivity|].
      split; [cbn [tiles voff vlen]; repeat split; try (unfold e; lia); replace (voff v + i + (e - i)) with (voff v + e) by lia; exact Tl|].
      split; [constructor; [reflexivity | exact Cl]|].
      cbn [map vlen]. rewrite Lens. cbn [Z.to_nat repeat app]. rewrite !Nat.sub_0_r. cbn [repeat].
      f_equal. unfold e. lia.
Qed.
End BatchesLoop.

Theorem batches_correct v n : 0 <= vlen v <= vcap v -> 0 <= n ->
  exists cs, batches v n = Ok cs /\
    zlen cs = Z.min n (vlen v) /\
    (0 < n -> tiles (voff v) cs (voff v + vlen v)) /\
    Forall (fun c => can_overwrite v c = false) cs /\
    Forall clipped cs /\
    (0 < n -> 0 < vlen v -> map vlen cs = batch_lens (vlen v) (Z.min n (vlen v))).
Proof.
  intros Hv Hn. unfold batches, ba_neg, ba_zero, ba_zero2, ba_hint, ba_i0, ba_size, ba_rem.
  destruct (n <? 0) eqn:E0; zb; [lia|].
  destruct (n =? 0) eqn:E1; zb.
  { exists []. split; [reflexivity|]. split; [cbn; lia|]. split; [lia|]. split; [constructor|]. split; [constructor|lia]. }
  (* the cap: only  m = min n len  is used, so  n > len  and  n >= len  both check *)
  set (m := if ba_over n (vlen v) then ba_capped (vlen v) else n).
  assert (Hm : m = Z.min n (vlen v)) by (unfold m, ba_capped; destruct (ba_over n (vlen v)) eqn:E; unfold ba_over in E; zb; lia).
  clearbody m.
  destruct (m =? 0) eqn:E2; zb.
  { exists []. split; [reflexivity|]. split; [cbn; lia|]. split; [intros _; cbn [tiles]; lia|]. split; [constructor|]. split; [constructor|lia]. }
  destruct (m <? 0) eqn:E3; zb; [lia|].
  assert (Hm1 : 0 < m <= vlen v) by lia.
  rewrite Z.quot_div_nonneg, Z.rem_mod_nonneg by lia.
  pose proof (Z.div_mod (vlen v) m ltac:(lia)) as DM.
  pose proof (Z.mod_pos_bound (vlen v) m ltac:(lia)) as MB.
  assert (Hq : 1 <= vlen v / m) by (pose proof (Z.div_str_pos (vlen v) m ltac:(lia)); lia).
  destruct (batches_loop_ok v (vlen v / m) Hv Hq (Z.to_nat m) (S (Z.to_nat (vlen v))) 0 (vlen v mod m) [])
    as (cs & C & Tl & Cl & Lens); try lia.
  exists cs. rewrite C. cbn [app]. split; [reflexivity|].
  assert (Hlen : zlen cs = m).
  { unfold zlen. rewrite <- (map_length vlen), Lens, app_length, !repeat_length. lia. }
  split; [lia|]. rewrite Z.add_0_r in Tl. split; [intros _; exact Tl|].
  split; [eapply Forall_impl; [|exact Cl]; intros c Hc; apply clipped_cannot_overwrite; exact Hc|].
  split; [exact Cl|].
  intros _ _. rewrite Lens, <- Hm. unfold batch_lens. f_equal. f_equal. lia.
Qed.

Theorem batches_negative v n : n < 0 -> batches v n = Panic PDocN.
Proof. intros H. unfold batches, ba_neg. decide_if. reflexivity. Qed.

(* consequences in the words of the documentation *)
Lemma batch_lens_near len m x y : In x (batch_lens len m) -> In y (batch_lens len m) -> - 1 <= x - y <= 1.
Proof.
  unfold batch_lens. rewrite !in_app_iff. intros [Hx|Hx] [Hy|Hy]; apply repeat_spec in Hx, Hy; lia.
Qed.

Theorem batches_doc {T} (b : list T) v n : valid_view b v -> 0 <= n ->
  exists cs, batches v n = Ok cs /\
    zlen cs = Z.min n (vlen v) /\
    (0 < n -> concat (map (window b) cs) = window b v) /\
    (0 < n -> tiles (voff v) cs (voff v + vlen v)) /\
    Forall (fun c => can_overwrite v c = false) cs /\
    Forall clipped cs /\
    (forall c c', In c cs -> In c' cs -> - 1 <= vlen c - vlen c' <= 1).
Proof.
  intros (V1 & V2 & V3) Hn. destruct (batches_correct v n V2 Hn) as (cs & B & L & Tl & Cl & Cp & Lens).
  exists cs. split; [exact B|]. split; [exact L|].
  split; [intros Hp; rewrite (tiles_concat b (voff v) cs (voff v + vlen v) V1 (Tl Hp)); unfold window; do 2 f_equal; lia|].
  split; [exact Tl|]. split; [exact Cl|]. split; [exact Cp|].
  intros c c' Hc Hc'.
  destruct (Z.eq_dec n 0) as [->|Nn].
  { destruct cs; [destruct Hc|]. unfold zlen in L. cbn [length] in L. lia. }
  destruct (Z.eq_dec (vlen v) 0) as [Zl|Nl].
  { destruct cs; [destruct Hc|]. unfold zlen in L. cbn [length] in L. lia. }
  specialize (Lens ltac:(lia) ltac:(lia)).
  apply (batch_lens_near (vlen v) (Z.min n (vlen v))); rewrite <- Lens; apply in_map; assumption.
Qed.

Theorem chunks_doc {T} (b : list T) v n : valid_view b v -> 0 <= n ->
  exists cs, chunks v n = Ok cs /\
    concat (map (window b) cs) = window b v /\
    tiles (voff v) cs (voff v + vlen v) /\
    Forall (fun c => can_overwrite v c = false) cs /\
    (0 < n -> chunk_lens_ok (vlen v) n (map vlen cs)) /\
    (n = 0 -> cs = [v]) /\
    (Forall clipped cs \/ (cs = [v] /\ (n = 0 \/ vlen v <= n))).
Proof.
  intros (V1 & V2 & V3) Hn. destruct (chunks_correct v n V2 Hn) as (cs & C & Tl & Cl & Lens & Z0 & Cp).
  exists cs. split; [exact C|].
  split; [rewrite (tiles_concat b (voff v) cs (voff v + vlen v) V1 Tl); unfold window; do 2 f_equal; lia|].
  repeat split; assumption.
Qed.

(* Where the strict reading "every chunk has cap = len" fails: the early return hands back vs
   itself, so a slice with spare capacity comes back with it.  Stated for n = 0 or n > len, which
   is an early return under both  n >= len  (the pinned code, where n = len returns vs as well) and
   n > len  (the equivalent variant, where n = len goes through the loop and is clipped). *)
Theorem chunks_single_keeps_capacity v n : 0 <= n -> n = 0 \/ vlen v < n -> chunks v n = Ok [v].
Proof.
  intros Hn H. unfold chunks, ch_neg. decide_if.
  destruct (ch_single n (vlen v)) eqn:E1; [reflexivity|]. unfold ch_single in E1. zb. lia.
Qed.
