(* The linear-time replay functions of SliceUtilFastModel.v are equal to the loop models. *)
From Coq Require Import ZArith List Bool Lia.
Import ListNotations.
From Mds Require Import Slice.SliceUtilModel Slice.SliceUtilSpec Slice.SliceUtilProofs Slice.SliceUtilProofsRotate
  Slice.SliceUtilFastModel.
Local Open Scope Z_scope.

Theorem rotate_fast_eq {T : Type} (l : list T) (k : Z) : rotate_fast l k = rotate_impl l k.
Proof.
  unfold rotate_fast.
  destruct ((- zlen l <=? k) && (k <=? zlen l)) eqn:E.
  - apply andb_true_iff in E. destruct E as [E1 E2]. apply Z.leb_le in E1, E2.
    symmetry. apply rotate_impl_spec. lia.
  - symmetry. apply rotate_impl_out_of_range.
    apply andb_false_iff in E. destruct E as [E|E]; apply Z.leb_gt in E; lia.
Qed.

Theorem rotate_view_fast_eq {T : Type} (b : list T) (v : view) (k : Z) :
  rotate_view_fast b v k = rotate b v k.
Proof. unfold rotate_view_fast, rotate. rewrite rotate_fast_eq. reflexivity. Qed.

(* ---- Partition ---- *)
From Coq Require Import Permutation.
From Mds Require Import Gen.SliceIdx Slice.SliceUtilProofsPartition.

Section PartFastProofs.
Context {T : Type}.
Variable keep : T -> bool.
Notation kept := (kept keep).
Notation unkept := (unkept keep).

(* the same story with the block as a plain list (quadratic, but one step per element) *)
Fixpoint part_ref (a blk c : list T) : list T * list T :=
  match c with
  | [] => (a, blk)
  | x :: c' =>
    if keep x then
      match blk with
      | b :: bs => part_ref (a ++ [x]) (bs ++ [b]) c'
      | [] => part_ref (a ++ [x]) [] c'
      end
    else part_ref a (blk ++ [x]) c'
  end.

Lemma part_ref_unkept (u : list T) : Forall unkept u -> forall a blk r,
  part_ref a blk (u ++ r) = part_ref a (blk ++ u) r.
Proof.
  induction 1 as [|x u Hx _ IH]; intros a blk r; cbn [app part_ref].
  - rewrite app_nil_r. reflexivity.
  - unfold SliceUtilProofsPartition.unkept in Hx. rewrite Hx. rewrite IH, <- app_assoc. reflexivity.
Qed.

(* the outer loop computes part_ref: a kept, b :: bs the block, c not yet looked at *)
Lemma part_loop_ref : forall fuel (a : list T) b bs c,
  Forall kept a -> Forall unkept (b :: bs) -> (length c < fuel)%nat ->
  part_loop keep fuel (a ++ b :: bs ++ c) (zlen a) (zlen a + 1 + zlen bs)
    = Ok (fst (part_ref a (b :: bs) c) ++ snd (part_ref a (b :: bs) c),
          (zlen (fst (part_ref a (b :: bs) c)), zlen (fst (part_ref a (b :: bs) c)))).
Proof.
  induction fuel as [|f IH]; intros a b bs c Ka Ub Hf; [lia|].
  cbn [part_loop]. unfold part_outer, part_done, part_ret0_hi, part_ret0_max, part_swap_l0, part_swap_l1,
    part_swap_r0, part_swap_r1, part_i_inc2, part_j_inc2.
  remember (a ++ b :: bs ++ c) as l eqn:Dl.
  assert (Ll : zlen l = zlen a + 1 + zlen bs + zlen c) by (rewrite Dl; rewrite zlen_app, zlen_cons, zlen_app; lia).
  pose proof (zlen_nonneg a) as Na. pose proof (zlen_nonneg bs) as Nb. pose proof (zlen_nonneg c) as Nc.
  destruct (zlen a <? zlen l) eqn:E1; zb; [|lia].
  assert (El : l = (a ++ b :: bs) ++ c) by (rewrite Dl; rewrite <- app_assoc; reflexivity).
  assert (Zj : zlen a + 1 + zlen bs = zlen (a ++ b :: bs)) by (rewrite zlen_app, zlen_cons; lia).
  destruct (scan_j_ok keep c (a ++ b :: bs) (S (length l))) as (u & c' & Ec & Uu & Hd & Sj).
  { rewrite Dl. rewrite !app_length. cbn [length]. rewrite app_length. lia. }
  rewrite <- El in Sj. rewrite Zj, Sj. cbn [bind].
  destruct Hd as [->|(x & c'' & -> & Kx)].
  - (* nothing kept remains *)
    rewrite app_nil_r in Ec. subst u.
    replace (zlen ((a ++ b :: bs) ++ c) =? zlen l) with true by (symmetry; apply Z.eqb_eq; rewrite <- El; reflexivity).
    assert (Pr : part_ref a (b :: bs) c = (a, (b :: bs) ++ c)).
    { rewrite <- (app_nil_r c) at 1. rewrite (part_ref_unkept c Uu). reflexivity. }
    rewrite Pr. cbn [fst snd]. rewrite Dl. reflexivity.
  - (* swap and continue *)
    subst c.
    assert (Zl2 : zlen ((a ++ b :: bs) ++ u) <> zlen l).
    { rewrite Ll, !zlen_app, !zlen_cons. pose proof (zlen_nonneg u). pose proof (zlen_nonneg c''). lia. }
    destruct (zlen ((a ++ b :: bs) ++ u) =? zlen l) eqn:E2; zb; [contradiction|].
    assert (F1 : l = ((a ++ b :: bs) ++ u) ++ x :: c'') by (rewrite Dl; rewrite <- !app_assoc; reflexivity).
    assert (F2 : l = a ++ b :: (bs ++ u ++ x :: c'')) by (rewrite Dl; reflexivity).
    assert (F3 : a ++ x :: bs ++ u ++ x :: c'' = ((a ++ x :: bs) ++ u) ++ x :: c'') by (rewrite <- !app_assoc; reflexivity).
    assert (Zs : zlen ((a ++ b :: bs) ++ u) = zlen ((a ++ x :: bs) ++ u)) by (rewrite !zlen_app, !zlen_cons; reflexivity).
    assert (G1 : get l (zlen ((a ++ b :: bs) ++ u)) = Ok x) by (rewrite F1; apply get_app_mid).
    assert (G2 : get l (zlen a) = Ok b) by (rewrite F2; apply get_app_mid).
    assert (S1 : set l (zlen a) x = Ok (a ++ x :: bs ++ u ++ x :: c'')) by (rewrite F2; apply set_app_mid).
    assert (S2 : set (a ++ x :: bs ++ u ++ x :: c'') (zlen ((a ++ b :: bs) ++ u)) b = Ok (((a ++ x :: bs) ++ u) ++ b :: c''))
      by (rewrite Zs, F3; apply set_app_mid).
    rewrite G1. cbn [bind]. rewrite G2. cbn [bind]. rewrite S1. cbn [bind]. rewrite S2. cbn [bind].
    destruct (bs ++ u ++ [b]) as [|b' bs'] eqn:Eb.
    { exfalso. destruct bs; [destruct u|]; discriminate. }
    assert (Ub' : Forall unkept (b' :: bs')).
    { rewrite <- Eb. apply Forall_app. split; [inversion Ub; assumption|]. apply Forall_app. split; [exact Uu|]. constructor; [inversion Ub; assumption|constructor]. }
    assert (F4 : ((a ++ x :: bs) ++ u) ++ b :: c'' = (a ++ [x]) ++ b' :: bs' ++ c'').
    { rewrite <- !app_assoc. cbn [app]. f_equal. f_equal.
      change (b' :: bs' ++ c'') with ((b' :: bs') ++ c''). rewrite <- Eb. rewrite <- !app_assoc. reflexivity. }
    assert (Zi : zlen a + 1 = zlen (a ++ [x])) by (rewrite zlen_app; reflexivity).
    assert (Zj2 : zlen ((a ++ x :: bs) ++ u) + 1 = zlen (a ++ [x]) + 1 + zlen bs').
    { assert (zlen (bs ++ u ++ [b]) = zlen (b' :: bs')) by (rewrite Eb; reflexivity).
      rewrite !zlen_app, !zlen_cons in *. change (zlen (@nil T)) with 0 in *. lia. }
    rewrite F4, Zi, Zs, Zj2.
    rewrite (IH (a ++ [x]) b' bs' c'').
    + (* part_ref takes the same step *)
      rewrite (part_ref_unkept u Uu). cbn [app part_ref].
      unfold SliceUtilProofsPartition.kept in Kx. rewrite Kx.
      rewrite <- app_assoc, Eb. reflexivity.
    + apply Forall_app. split; [exact Ka|]. constructor; [exact Kx|constructor].
    + exact Ub'.
    + rewrite app_length in Hf. cbn [length] in Hf. lia.
Qed.

(* the queue is the list *)
Lemma part_fast_ref : forall c ka f bk,
  part_ref (rev ka) (f ++ rev bk) c
    = (rev (fst (part_fast_loop keep ka f bk c)), snd (part_fast_loop keep ka f bk c)).
Proof.
  induction c as [|x c IH]; intros ka f bk; cbn [part_ref part_fast_loop]; rewrite <- ?rev_alt.
  - reflexivity.
  - destruct (keep x).
    + destruct f as [|b f'].
      * cbn [app]. destruct (rev bk) as [|b f''] eqn:Er.
        -- rewrite <- (IH (x :: ka) [] []). reflexivity.
        -- rewrite <- (IH (x :: ka) f'' [b]). reflexivity.
      * cbn [app]. rewrite <- (IH (x :: ka) f' (b :: bk)). cbn [rev]. rewrite <- app_assoc. reflexivity.
    + rewrite <- (IH ka f (x :: bk)). cbn [rev]. rewrite <- app_assoc. reflexivity.
Qed.

Lemma span_kept_spec : forall (k : list T) acc r, Forall kept k ->
  (r = [] \/ exists x r', r = x :: r' /\ unkept x) ->
  span_kept keep acc (k ++ r) = (rev k ++ acc, r).
Proof.
  induction k as [|y k IH]; intros acc r Kk Hr.
  - cbn [app rev]. destruct Hr as [->|(x & r' & -> & Ux)]; cbn [span_kept]; [reflexivity|].
    unfold SliceUtilProofsPartition.unkept in Ux. rewrite Ux. reflexivity.
  - inversion Kk as [|? ? Ky Kk']; subst. cbn [app span_kept rev].
    unfold SliceUtilProofsPartition.kept in Ky. rewrite Ky.
    rewrite (IH (y :: acc) r Kk' Hr), <- app_assoc. reflexivity.
Qed.

Theorem partition_win_fast_eq (l : list T) : partition_win_fast keep l = partition_win keep l.
Proof.
  unfold partition_win, part_empty, part_i0, part_j0.
  destruct (zlen l =? 0) eqn:E0; zb.
  - destruct l; [reflexivity | rewrite zlen_cons in E0; pose proof (zlen_nonneg l); lia].
  - destruct (scan_i_ok keep l [] (S (length l)) ltac:(lia)) as (k & r' & E & Kk & Hd & Sc).
    cbn [app] in Sc. change (zlen (@nil T)) with 0 in Sc. rewrite Sc. cbn [bind].
    assert (Sp : span_kept keep [] l = (rev k, r')).
    { rewrite E, (span_kept_spec k [] r' Kk Hd), app_nil_r. reflexivity. }
    unfold partition_win_fast. rewrite Sp.
    destruct l as [|y l0]; [unfold zlen in E0; cbn in E0; lia|].
    remember (y :: l0) as l eqn:Dl.
    destruct Hd as [->|(x & r'' & -> & Ux)].
    + (* everything is kept: the outer loop does not run *)
      rewrite app_nil_r in E. subst k. rewrite Dl at 1. rewrite <- Dl.
      destruct (length l) eqn:Ln; [rewrite Dl in Ln; discriminate|].
      cbn [part_loop]. unfold part_outer, part_ret1_hi, part_ret1_max. rewrite Z.ltb_irrefl. cbn [bind fst snd].
      reflexivity.
    + rewrite Dl at 1. rewrite <- Dl.
      rewrite E.
      pose proof (part_loop_ref (S (length (k ++ x :: r''))) k x [] r'' Kk) as P.
      cbn [app] in P. change (zlen (@nil T)) with 0 in P. rewrite Z.add_0_r in P. rewrite P; clear P.
      2:{ constructor; [exact Ux|constructor]. }
      2:{ rewrite app_length. cbn [length]. lia. }
      cbn [bind fst snd].
      pose proof (part_fast_ref r'' (rev k) [x] []) as R. rewrite rev_involutive in R. cbn [rev app] in R.
      rewrite R. cbn [fst snd]. rewrite rev_append_rev.
      unfold zlen. rewrite rev_length. reflexivity.
Qed.

Theorem partition_fast_eq (b : list T) (v : view) : partition_fast keep b v = partition keep b v.
Proof. unfold partition_fast, partition. rewrite partition_win_fast_eq. reflexivity. Qed.

End PartFastProofs.
