(* Model of slice/edit.go: editScriptFunc, everything after the call of LCSFunc.
   Definitions only.  The value [lcs] returned by LCSFunc is an argument here; EditModel.v plugs
   in the model of LCSFunc (Slice/LcsModel.v).

   Statement by statement: the outer loop over the LCS, the two leftmost re-matching loops, the
   drop/copy fusion, the run-extension loop, the tail, the single-Emit elision.  Machine ints are
   [Z]; every loop condition, index, slice bound, increment and initial value is the definition
   the translator regenerates from the Go source into Gen/EditIdx.v.  An index or slice bound
   out of range is the explicit result [EPanic]; running out of the loop fuel is [EOutOfFuel]
   (Slice/EditProofs.v proves that neither happens).

   Capacity.  Go checks an index against len(s) but the bounds of a slice expression s[lo:hi]
   against cap(s), and the result may expose elements of the backing array beyond len(s).  The
   inputs therefore come with the contents of their spare capacity: [lx] / [rx] are the elements
   of the backing arrays of lhs / rhs after their last element (cap(lhs) = len(lhs) + len(lx));
   indexing uses lhs / rhs, slicing uses lhs ++ lx / rhs ++ rx ([zslice_cap]).  EditProofs.v proves
   the result does not depend on lx, rx (no slice ever reaches into the spare capacity).

   The Op constant of every appended Edit literal is the value the translator reads off the
   literal (Gen: es_*_op), decoded with [op_of_code]; a value that is none of the four constants
   gives [EPanic] (no such edit exists in the model; proved not to happen). *)
From Coq Require Import ZArith List Bool.
Import ListNotations.
From Mds Require Import Gen.EditIdx.
Local Open Scope Z_scope.

(* EditOp *)
Inductive op := Drop | Emit | Copy | Replace.

Definition op_code (o : op) : Z :=
  match o with
  | Drop => op_drop_code
  | Emit => op_emit_code
  | Copy => op_copy_code
  | Replace => op_replace_code
  end.

(* the EditOp with a given byte value, if any *)
Definition op_of_code (c : Z) : option op :=
  if c =? op_drop_code then Some Drop
  else if c =? op_emit_code then Some Emit
  else if c =? op_copy_code then Some Copy
  else if c =? op_replace_code then Some Replace
  else None.

Definition op_eqb (a b : op) : bool :=
  match a, b with
  | Drop, Drop | Emit, Emit | Copy, Copy | Replace, Replace => true
  | _, _ => false
  end.

(* result of a computation that can panic (index / slice bounds out of range) *)
Inductive eres (A : Type) :=
| EOk (a : A)
| EPanic
| EOutOfFuel.
Arguments EOk {A} a.
Arguments EPanic {A}.
Arguments EOutOfFuel {A}.

Section EditLoop.
  Variable T : Type.
  Variable eqb : T -> T -> bool.   (* the eq argument of editScriptFunc *)

  (* Edit[T]; a nil slice and an empty slice are both [] *)
  Record edit := mkEdit { eop : op; X : list T; Y : list T }.

  Definition zlen {A} (s : list A) : Z := Z.of_nat (length s).

  (* s[k]: None = index out of range *)
  Definition zth {A} (s : list A) (k : Z) : option A :=
    if k <? 0 then None else nth_error s (Z.to_nat k).

  (* s[lo:hi] on a slice without spare capacity (cap(s) = len(s)): None = slice bounds out of
     range *)
  Definition zslice {A} (s : list A) (lo hi : Z) : option (list A) :=
    if (0 <=? lo) && (lo <=? hi) && (hi <=? zlen s)
    then Some (firstn (Z.to_nat (hi - lo)) (skipn (Z.to_nat lo) s))
    else None.

  (* s[lo:hi] on a slice whose backing array continues with [extra] after s's last element
     (cap(s) = len(s) + len(extra)): Go panics iff not 0 <= lo <= hi <= cap(s), and otherwise
     returns the array elements lo..hi-1 -- beyond len(s) these are elements of [extra]. *)
  Definition zslice_cap {A} (s extra : list A) (lo hi : Z) : option (list A) :=
    zslice (s ++ extra) lo hi.

  (* for !eq(s[pos], lcs[i]) { pos++ }   -- the two re-matching loops share this shape; the
     condition, the two index expressions and the increment are passed in from Gen. *)
  Fixpoint scan (cond : bool -> bool) (sidx lidx step : Z -> Z)
           (fuel : nat) (s lcs : list T) (i pos : Z) : eres Z :=
    match fuel with
    | O => EOutOfFuel
    | S f =>
      match zth s (sidx pos), zth lcs (lidx i) with
      | Some a, Some x =>
        if cond (eqb a x) then scan cond sidx lidx step f s lcs i (step pos) else EOk pos
      | _, _ => EPanic
      end
    end.

  (* for i+m < len(lcs) && eq(lhs[lpos+m], rhs[rpos+m]) { m++ }
     [&&] evaluates its right operand (and so the two index expressions) only when the left one
     holds: when an index is out of range the loop panics iff the condition with the call
     replaced by [true] holds. *)
  Fixpoint run_ext (fuel : nat) (lhs rhs : list T) (nlcs i lpos rpos m : Z) : eres Z :=
    match fuel with
    | O => EOutOfFuel
    | S f =>
      match zth lhs (es_run_lidx lpos m), zth rhs (es_run_ridx rpos m) with
      | Some a, Some b =>
        if es_run_cond i m nlcs (eqb a b)
        then run_ext f lhs rhs nlcs i lpos rpos (es_m_step m)
        else EOk m
      | _, _ => if es_run_cond i m nlcs true then EPanic else EOk m
      end
    end.

  Definition ebind {A B} (r : eres A) (k : A -> eres B) : eres B :=
    match r with
    | EOk a => k a
    | EPanic => EPanic
    | EOutOfFuel => EOutOfFuel
    end.

  Definition of_opt {A} (o : option A) : eres A :=
    match o with Some a => EOk a | None => EPanic end.

  (* an Edit[T]{Op: c, ...} literal with the Op constant c read off the source *)
  Definition lit (c : Z) (x y : list T) : eres edit :=
    match op_of_code c with Some o => EOk (mkEdit o x y) | None => EPanic end.

  (* contents of the spare capacity of lhs and rhs (see the header) *)
  Variables lx rx : list T.

  (* the if / else-if / if block that records what lies before the next match *)
  Definition gap_edits (lhs rhs : list T) (lpos lend rpos rend : Z) (out : list edit)
    : eres (list edit) :=
    ebind
      (if es_fuse_cond lpos lend rpos rend then
         ebind (of_opt (zslice_cap lhs lx (es_fuse_x_lo lpos lend) (es_fuse_x_hi lpos lend))) (fun x =>
         ebind (of_opt (zslice_cap rhs rx (es_fuse_y_lo rpos rend) (es_fuse_y_hi rpos rend))) (fun y =>
         ebind (lit es_fuse_op x y) (fun e =>
         EOk (out ++ [e], es_fuse_rpos rend))))
       else if es_drop_cond lpos lend then
         ebind (of_opt (zslice_cap lhs lx (es_drop_x_lo lpos lend) (es_drop_x_hi lpos lend))) (fun x =>
         ebind (lit es_drop_op x []) (fun e =>
         EOk (out ++ [e], rpos)))
       else EOk (out, rpos))
      (fun '(out1, rpos1) =>
       if es_copy_cond rpos1 rend then
         ebind (of_opt (zslice_cap rhs rx (es_copy_y_lo rpos1 rend) (es_copy_y_hi rpos1 rend))) (fun y =>
         ebind (lit es_copy_op [] y) (fun e =>
         EOk (out1 ++ [e])))
       else EOk out1).

  (* one iteration of the outer loop body: (lpos, rpos, i, out) -> (lpos, rpos, i, out) *)
  Definition iter_body (lhs rhs lcs : list T) (lpos rpos i : Z) (out : list edit)
    : eres (Z * Z * Z * list edit) :=
    ebind (scan es_lscan_cond es_lscan_idx es_lscan_lcs_idx es_lend_step
                (S (length lhs)) lhs lcs i (es_lend_init lpos)) (fun lend =>
    ebind (scan es_rscan_cond es_rscan_idx es_rscan_lcs_idx es_rend_step
                (S (length rhs)) rhs lcs i (es_rend_init rpos)) (fun rend =>
    ebind (gap_edits lhs rhs lpos lend rpos rend out) (fun out2 =>
    let lpos2 := es_lpos_sync lend in
    let rpos2 := es_rpos_sync rend in
    ebind (run_ext (S (length lcs)) lhs rhs (zlen lcs) i lpos2 rpos2 es_m_init) (fun m =>
    ebind (of_opt (zslice_cap lhs lx (es_emit_x_lo lpos2 m) (es_emit_x_hi lpos2 m))) (fun x =>
    ebind (lit es_emit_op x []) (fun e =>
    EOk (es_lpos_step lpos2 m, es_rpos_step rpos2 m, es_i_step i m, out2 ++ [e]))))))).

  (* for i < len(lcs) { body } *)
  Fixpoint outer (fuel : nat) (lhs rhs lcs : list T) (lpos rpos i : Z) (out : list edit)
    : eres (Z * Z * list edit) :=
    match fuel with
    | O => EOutOfFuel
    | S f =>
      if es_outer_cond i (zlen lcs) then
        match iter_body lhs rhs lcs lpos rpos i out with
        | EOk (lpos', rpos', i', out') => outer f lhs rhs lcs lpos' rpos' i' out'
        | EPanic => EPanic
        | EOutOfFuel => EOutOfFuel
        end
      else EOk (lpos, rpos, out)
    end.

  (* the if / else-if / if block after the loop (lhs[lpos:], rhs[rpos:]) *)
  Definition tail_edits (lhs rhs : list T) (lpos rpos : Z) (out : list edit) : eres (list edit) :=
    let nl := zlen lhs in
    let nr := zlen rhs in
    ebind
      (if es_tail_fuse_cond nl lpos nr rpos then
         ebind (of_opt (zslice_cap lhs lx (es_tail_fuse_x_lo lpos) (es_tail_fuse_x_hi nl))) (fun x =>
         ebind (of_opt (zslice_cap rhs rx (es_tail_fuse_y_lo rpos) (es_tail_fuse_y_hi nr))) (fun y =>
         ebind (lit es_tail_fuse_op x y) (fun e =>
         EOk (out ++ [e], es_tail_fuse_rpos nr))))
       else if es_tail_drop_cond nl lpos then
         ebind (of_opt (zslice_cap lhs lx (es_tail_drop_x_lo lpos) (es_tail_drop_x_hi nl))) (fun x =>
         ebind (lit es_tail_drop_op x []) (fun e =>
         EOk (out ++ [e], rpos)))
       else EOk (out, rpos))
      (fun '(out1, rpos1) =>
       if es_tail_copy_cond nr rpos1 then
         ebind (of_opt (zslice_cap rhs rx (es_tail_copy_y_lo rpos1) (es_tail_copy_y_hi nr))) (fun y =>
         ebind (lit es_tail_copy_op [] y) (fun e =>
         EOk (out1 ++ [e])))
       else EOk out1).

  (* if len(out) == 1 && out[0].Op == OpEmit { return nil } ; return out *)
  Definition elide (out : list edit) : eres (list edit) :=
    match zth out es_elide_idx with
    | Some e => if es_elide_cond (zlen out) (op_code (eop e)) then EOk [] else EOk out
    | None => if es_elide_cond (zlen out) op_emit_code then EPanic else EOk out
    end.

  (* editScriptFunc after [lcs := LCSFunc(...)] *)
  Definition edit_script_of_lcs (lcs lhs rhs : list T) : eres (list edit) :=
    ebind (outer (S (length lcs)) lhs rhs lcs es_lpos_init es_rpos_init es_i_init [])
          (fun '(lpos, rpos, out) =>
    ebind (tail_edits lhs rhs lpos rpos out) elide).

End EditLoop.

Arguments mkEdit {T} eop X Y.
Arguments eop {T} e.
Arguments X {T} e.
Arguments Y {T} e.
Arguments zlen {A} s.
Arguments zth {A} s k.
Arguments zslice {A} s lo hi.
Arguments zslice_cap {A} s extra lo hi.
Arguments ebind {A B} r k.
Arguments of_opt {A} o.
