(* SUPPLEMENTARY, OUTSIDE PROPERTY C17: models of the two exported functions of slice/slice.go
   that only call the standard library -- Reverse (slices.Reverse) and Dedup (slices.Compact).
   Definitions only.  Each model mirrors, statement by statement, the loop of the installed
   go1.23 GOROOT/src/slices/slices.go that the one-line wrapper in slice.go calls:

     func Reverse[S ~[]E, E any](s S) {
         for i, j := 0, len(s)-1; i < j; i, j = i+1, j-1 { s[i], s[j] = s[j], s[i] }
     }

     func Compact[S ~[]E, E comparable](s S) S {
         if len(s) < 2 { return s }
         for k := 1; k < len(s); k++ {
             if s[k] == s[k-1] {
                 s2 := s[k:]
                 for k2 := 1; k2 < len(s2); k2++ {
                     if s2[k2] != s2[k2-1] { s[k] = s2[k2]; k++ }
                 }
                 clear(s[k:])
                 return s[:k]
             }
         }
         return s
     }

   Reverse is tied to the source (slice.go AND slices.go are translated: GenTie/SliceTieMore.v).
   Compact's body is outside the translator's subset (s2 aliases s), so compact_impl is a hand
   copy; what is tied for Dedup is that it hands its argument to slices.Compact and returns what
   that returns. *)
From Coq Require Import ZArith List Bool.
Import ListNotations.
From Mds Require Import Slice.SliceUtilModel.
Local Open Scope Z_scope.

Section More.
Context {T : Type}.

(* ---- Reverse ---- *)
Fixpoint reverse_loop (gas : nat) (s : list T) (i j : Z) : res (list T) :=
  match gas with
  | O => OutOfFuel
  | S g =>
    if i <? j then
      do a <- get s j;
      do b <- get s i;
      do s <- set s i a;
      do s <- set s j b;
      reverse_loop g s (i + 1) (j - 1)
    else Ok s
  end.

Definition reverse_impl (s : list T) : res (list T) :=
  reverse_loop (S (length s)) s 0 (zlen s - 1).

(* ---- Dedup = slices.Compact ----
   s2 = s[k0:] shares the array of s: s2[k2] is s[k0 + k2].  The inner loop never leaves through
   the outer one (it returns), so it is a loop of its own over (k, k2) with k0 fixed.
   Result: the new length k (the returned slice is s[:k], same array, same capacity) and the
   content of all len(s) slots afterwards (s[k:] cleared to the zero value). *)
Variable eqb : T -> T -> bool.
Variable zero : T.

Fixpoint compact_inner (gas : nat) (s : list T) (k0 k k2 : Z) : res (list T * Z) :=
  match gas with
  | O => OutOfFuel
  | S g =>
    if k2 <? zlen s - k0 then
      do a <- get s (k0 + k2);
      do b <- get s (k0 + k2 - 1);
      if negb (eqb a b) then
        do s <- set s k a;
        compact_inner g s k0 (k + 1) (k2 + 1)
      else compact_inner g s k0 k (k2 + 1)
    else Ok (s, k)
  end.

(* clear(s[k:]) *)
Definition clear_from (s : list T) (k : Z) : list T :=
  firstn (Z.to_nat k) s ++ repeat zero (length s - Z.to_nat k).

Fixpoint compact_outer (gas : nat) (s : list T) (k : Z) : res (list T * Z) :=
  match gas with
  | O => OutOfFuel
  | S g =>
    if k <? zlen s then
      do a <- get s k;
      do b <- get s (k - 1);
      if eqb a b then
        do sk <- compact_inner (S (length s)) s k k 1;
        Ok (clear_from (fst sk) (snd sk), snd sk)
      else compact_outer g s (k + 1)
    else Ok (s, zlen s)
  end.

Definition compact_impl (s : list T) : res (list T * Z) :=
  if zlen s <? 2 then Ok (s, zlen s) else compact_outer (S (length s)) s 1.

(* Dedup on a view v of the argument whose elements are s: the result slice s[:k] (same offset,
   same capacity) and the new elements *)
Definition dedup_view (s : list T) (v : view) : res (view * list T) :=
  do sk <- compact_impl s;
  do w <- slice3 v 0 (snd sk) (vcap v);
  Ok (w, fst sk).

(* ---- the reference: drop every element that equals (eqb cur prev) its predecessor ---- *)
Fixpoint dedup_from (prev : T) (l : list T) : list T :=
  match l with
  | [] => []
  | y :: r => if eqb y prev then dedup_from y r else y :: dedup_from y r
  end.
Definition dedup_spec (l : list T) : list T :=
  match l with [] => [] | x :: r => x :: dedup_from x r end.

End More.
