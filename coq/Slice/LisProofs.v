(* Proofs about the model of slice.LNDSFunc / slice.LISFunc: for every comparison function that
   is a total preorder, the function returns (no panic, no fuel exhaustion) an ordered
   subsequence of its input and no ordered subsequence is longer.

   One proof for both functions, over a [strict] flag; [gen_ok g strict] collects what the
   generated definitions of the function must be for the proof to go through (checked by
   reflexivity for [lnds_gen] with strict = false and [lis_gen_] with strict = true).

   Invariant after the first n elements (tl = tails, L = length tl):
     mono    the values at tails are ordered: follows V(tl[a]) V(tl[b]) for a < b
     chains  from tl[m] the prev links describe an ordered subsequence of length m+1
     dom     every non-empty ordered subsequence t of the first n elements has
             length t <= L and V(tl[length t - 1]) <= last t. *)
From Coq Require Import ZArith List Bool Lia Arith.
Import ListNotations.
From Mds Require Import Gen.LisIdx Slice.Subseq Slice.LcsModel Slice.LcsLisUtil Slice.LisModel Slice.LisSpec.
Local Open Scope Z_scope.

Record gen_ok (g : lis_gen) (strict : bool) : Prop := {
  ok_empty : forall n, g_empty_cond g n = (n =? 0);
  ok_tails_len0 : g_tails_len0 g = 1;
  ok_prev_len : forall n, g_prev_len g n = n;
  ok_prev0_idx : g_prev0_idx g = 0;
  ok_tails0_idx : g_tails0_idx g = 0;
  ok_tails0_val : g_tails0_val g = 0;
  ok_range_lo : g_range_lo g = 1;
  ok_i_incr : forall i, g_i_incr g i = i + 1;
  ok_best_idx : forall lt, g_best_idx g lt = lt - 1;
  ok_fast : forall c, g_fast_cond g c = if strict then c >? 0 else c >=? 0;
  ok_search_hi : forall lt, g_search_hi g lt = lt - 1;
  ok_first : forall ri, g_first_cond g ri = (ri =? 0);
  ok_pred_idx : forall ri, g_pred_idx g ri = ri - 1;
  ok_repl_idx : forall ri, g_repl_idx g ri = ri;
  ok_ret_len : forall lt, g_ret_len g lt = lt;
  ok_start_idx : forall lt, g_start_idx g lt = lt - 1;
  ok_ret_idx : forall lr i, g_ret_idx g lr i = lr - 1 - i;
  ok_nsearch : g_nsearch g = 1;
  ok_right : g_right g = negb strict
}.

Lemma lnds_gen_ok : gen_ok lnds_gen false.
Proof. split; intros; reflexivity. Qed.

Lemma lis_gen_ok : gen_ok lis_gen_ true.
Proof. split; intros; reflexivity. Qed.

(* ---- small list facts ---- *)
Lemma znth_map_of_nat : forall (sl : list nat) m, (m < length sl)%nat ->
  znth (map Z.of_nat sl) (Z.of_nat m) = Some (Z.of_nat (nth m sl 0%nat)).
Proof.
  intros sl m H. rewrite znth_nat.
  rewrite (nth_error_nth' _ (Z.of_nat 0)) by (now rewrite map_length).
  now rewrite map_nth.
Qed.

Lemma all_some_map : forall {A} (l : list A), all_some (map Some l) = Some l.
Proof. induction l; cbn; [reflexivity|]. now rewrite IHl. Qed.

Lemma upd_nat_middle : forall {A} (l1 l2 : list A) x v,
  upd_nat (l1 ++ x :: l2) (length l1) v = Some (l1 ++ v :: l2).
Proof. induction l1; intros; cbn; [reflexivity|]. now rewrite IHl1. Qed.

Lemma repeat_snoc : forall {A} (a : A) n, repeat a (S n) = repeat a n ++ [a].
Proof. induction n; cbn; [reflexivity|]. f_equal. exact IHn. Qed.

Lemma firstn_prefix : forall {A} (l : list A) a b, (a <= b)%nat ->
  exists rest, firstn b l = firstn a l ++ rest.
Proof.
  induction l as [|h t IH]; intros a b H.
  - exists []. now rewrite !firstn_nil.
  - destruct a; [eexists; reflexivity|]. destruct b; [lia|].
    destruct (IH a b ltac:(lia)) as [rest E]. exists rest. cbn. now rewrite E.
Qed.

Lemma Subseq_firstn_mono : forall {A} (s l : list A) a b, (a <= b)%nat ->
  Subseq s (firstn a l) -> Subseq s (firstn b l).
Proof.
  intros A s l a b H Hs. destruct (firstn_prefix l a b H) as [rest ->].
  now apply SubseqR_app_r.
Qed.

Lemma firstn_snoc_nth : forall {A} (l : list A) k d, (k < length l)%nat ->
  firstn (S k) l = firstn k l ++ [nth k l d].
Proof. intros. apply firstn_snoc. now apply nth_error_nth'. Qed.


(* replacing position r (or appending when r = length) *)
Definition tl_upd (tl : list nat) (r n : nat) : list nat := firstn r tl ++ n :: skipn (S r) tl.

Lemma tl_upd_nth : forall tl r n m, (r <= length tl)%nat ->
  nth m (tl_upd tl r n) 0%nat = if (m =? r)%nat then n else nth m tl 0%nat.
Proof.
  unfold tl_upd. induction tl as [|h t IH]; intros r n m Hr.
  - cbn in Hr. replace r with 0%nat by lia. destruct m as [|[|m]]; reflexivity.
  - destruct r.
    + destruct m; reflexivity.
    + destruct m; [reflexivity|]. cbn in Hr. cbn [firstn skipn app nth Nat.eqb].
      change (skipn (S r) t) with (skipn (S r) t). rewrite <- IH by lia. reflexivity.
Qed.

Lemma tl_upd_length : forall tl r n, (r <= length tl)%nat ->
  length (tl_upd tl r n) = Nat.max (length tl) (S r).
Proof.
  intros. unfold tl_upd. rewrite app_length, firstn_length. cbn [length]. rewrite skipn_length. lia.
Qed.

Lemma tl_upd_app : forall tl n, tl ++ [n] = tl_upd tl (length tl) n.
Proof. intros. unfold tl_upd. rewrite firstn_all, skipn_all2 by lia. reflexivity. Qed.

Lemma upd_nat_tl_upd : forall tl r n, (r < length tl)%nat ->
  upd_nat (map Z.of_nat tl) r (Z.of_nat n) = Some (map Z.of_nat (tl_upd tl r n)).
Proof.
  unfold tl_upd. induction tl as [|h t IH]; intros r n Hr; cbn in Hr; [lia|].
  destruct r; [reflexivity|]. cbn [map upd_nat firstn skipn app]. rewrite IH by lia. reflexivity.
Qed.

Lemma nth_firstn_lt : forall {A} (l : list A) k m d, (m < k)%nat -> nth m (firstn k l) d = nth m l d.
Proof.
  induction l as [|h t IH]; intros k m d H; [now rewrite firstn_nil|].
  destruct k; [lia|]. destruct m; [reflexivity|]. cbn. apply IH. lia.
Qed.

Lemma upd_nat_middle' : forall {A} (l1 l2 : list A) x v k, k = length l1 ->
  upd_nat (l1 ++ x :: l2) k v = Some (l1 ++ v :: l2).
Proof. intros; subst. apply upd_nat_middle. Qed.

Lemma Subseq_singleton : forall {A} (t : list A) x, Subseq t [x] -> t = [] \/ t = [x].
Proof.
  intros A t x H. inversion H; subst.
  - now left.
  - apply SubseqR_nil_r in H2. now left.
  - apply SubseqR_nil_r in H4. subst. now right.
Qed.

Section LisProofs.
  Variable T : Type.
  Variable cmp : T -> T -> Z.
  (* cmp is a total preorder presented as a three-way comparison: swapping the arguments flips
     the sign, and <= is transitive *)
  Hypothesis cmp_flip : forall a b, Z.sgn (cmp b a) = - Z.sgn (cmp a b).
  Hypothesis cmp_trans : forall a b c, cmp a b <= 0 -> cmp b c <= 0 -> cmp a c <= 0.

  Variable strict : bool.
  Notation fol := (follows T cmp strict).

  (* ---- order facts ---- *)
  Lemma flip_lt : forall a b, cmp a b < 0 <-> cmp b a > 0.
  Proof. intros a b. pose proof (cmp_flip a b). destruct (cmp a b), (cmp b a); cbn in H; try lia; discriminate. Qed.

  Lemma flip_le : forall a b, cmp a b <= 0 <-> cmp b a >= 0.
  Proof. intros a b. pose proof (cmp_flip a b). destruct (cmp a b), (cmp b a); cbn in H; try lia; discriminate. Qed.

  Lemma le_refl : forall a, cmp a a <= 0.
  Proof. intros a. pose proof (cmp_flip a a). destruct (cmp a a); cbn in H; try lia; discriminate. Qed.

  Lemma lt_le_trans : forall a b c, cmp a b < 0 -> cmp b c <= 0 -> cmp a c < 0.
  Proof.
    intros a b c H1 H2. destruct (Z_lt_ge_dec (cmp a c) 0) as [|H3]; [assumption|].
    apply flip_le in H3. pose proof (cmp_trans _ _ _ H2 H3) as H4. apply flip_lt in H1. lia.
  Qed.

  Lemma le_lt_trans : forall a b c, cmp a b <= 0 -> cmp b c < 0 -> cmp a c < 0.
  Proof.
    intros a b c H1 H2. destruct (Z_lt_ge_dec (cmp a c) 0) as [|H3]; [assumption|].
    apply flip_le in H3. pose proof (cmp_trans _ _ _ H3 H1) as H4. apply flip_lt in H2. lia.
  Qed.

  Lemma fol_true : forall a b, fol a b = true <-> (if strict then cmp a b < 0 else cmp a b <= 0).
  Proof. intros; unfold follows; destruct strict; [apply Z.ltb_lt | apply Z.leb_le]. Qed.

  Lemma fol_false : forall a b, fol a b = false <-> (if strict then cmp a b >= 0 else cmp a b > 0).
  Proof.
    intros; unfold follows; destruct strict; [rewrite Z.ltb_ge | rewrite Z.leb_gt]; lia.
  Qed.

  Lemma fol_le : forall a b, fol a b = true -> cmp a b <= 0.
  Proof. intros a b H. apply fol_true in H. destruct strict; lia. Qed.

  Lemma fol_trans : forall a b c, fol a b = true -> fol b c = true -> fol a c = true.
  Proof.
    intros a b c H1 H2. apply fol_true in H1, H2. apply fol_true. destruct strict.
    - apply (lt_le_trans a b c); lia.
    - eapply cmp_trans; eauto.
  Qed.

  Lemma le_fol_trans : forall a b c, cmp a b <= 0 -> fol b c = true -> fol a c = true.
  Proof.
    intros a b c H1 H2. apply fol_true in H2. apply fol_true. destruct strict.
    - eapply le_lt_trans; eauto.
    - eapply cmp_trans; eauto.
  Qed.

  Lemma nfol_le : forall a v, fol a v = false -> cmp v a <= 0.
  Proof.
    intros a v H. apply fol_false in H. destruct strict.
    - apply flip_le. lia.
    - assert (cmp v a < 0) by (apply flip_lt; lia). lia.
  Qed.

  Lemma nfol_fol : forall a v b, fol a v = false -> fol a b = true -> fol v b = true.
  Proof.
    intros a v b H1 H2. pose proof (nfol_le _ _ H1) as Hva.
    apply fol_true in H2. apply fol_true. apply fol_false in H1. destruct strict.
    - eapply le_lt_trans; eauto.
    - eapply cmp_trans; eauto.
  Qed.

  Lemma fast_is_fol : forall g, gen_ok g strict -> forall vi vb,
    g_fast_cond g (cmp vi vb) = fol vb vi.
  Proof.
    intros g Hg vi vb. rewrite (ok_fast _ _ Hg). unfold follows. destruct strict.
    - destruct (Z.ltb_spec (cmp vb vi) 0) as [H|H].
      + apply flip_lt in H. apply Z.gtb_lt. lia.
      + rewrite Z.gtb_ltb. apply Z.ltb_ge. apply flip_le. lia.
    - destruct (Z.leb_spec (cmp vb vi) 0) as [H|H].
      + apply flip_le in H. rewrite Z.geb_leb. apply Z.leb_le. lia.
      + rewrite Z.geb_leb. apply Z.leb_gt. assert (cmp vb vi > 0) as H' by lia.
        apply flip_lt in H'. lia.
  Qed.

  (* ---- ordered_b facts ---- *)
  Lemma ordered_snoc : forall s x d, s <> [] ->
    ordered_b T cmp strict (s ++ [x]) = true <->
    ordered_b T cmp strict s = true /\ fol (last s d) x = true.
  Proof.
    induction s as [|a s IH]; intros x d Hne; [congruence|].
    destruct s as [|b s].
    - cbn. rewrite andb_true_r. tauto.
    - change ((a :: b :: s) ++ [x]) with (a :: (b :: s) ++ [x]).
      change (ordered_b T cmp strict (a :: (b :: s) ++ [x]))
        with (fol a b && ordered_b T cmp strict ((b :: s) ++ [x])).
      change (ordered_b T cmp strict (a :: b :: s))
        with (fol a b && ordered_b T cmp strict (b :: s)).
      change (last (a :: b :: s) d) with (last (b :: s) d).
      rewrite !andb_true_iff, (IH x d) by congruence. tauto.
  Qed.

  (* ================= the algorithm on a fixed input ================= *)
  Section Run.
    Variable g : lis_gen.
    Hypothesis Hg : gen_ok g strict.
    Variable vs : list T.
    Variable d : T.
    Notation N := (length vs).
    Notation V j := (nth j vs d).

    Lemma znth_vs : forall j, (j < N)%nat -> znth vs (Z.of_nat j) = Some (V j).
    Proof. intros. rewrite znth_nat. now apply nth_error_nth'. Qed.

    Lemma key_cmp_vs : forall j t, (j < N)%nat -> key_cmp T cmp vs (Z.of_nat j) t = Some (cmp (V j) t).
    Proof. intros. unfold key_cmp. now rewrite znth_vs. Qed.

    (* ---- the two binary searches: first position whose value may not precede the target ---- *)
    Section Search.
      Variable sl : list nat.
      Variable target : T.
      Hypothesis sl_lt : forall m, (m < length sl)%nat -> (nth m sl 0 < N)%nat.
      Notation q m := (fol (V (nth m sl 0%nat)) target).
      Hypothesis q_mono : forall a b, (a <= b)%nat -> (b < length sl)%nat -> q b = true -> q a = true.

      Definition search_post (lo hi r : nat) : Prop :=
        (lo <= r <= hi)%nat /\ (forall m, (m < r)%nat -> q m = true) /\
        (forall m, (r <= m)%nat -> (m < length sl)%nat -> q m = false).

      Lemma mid_facts : forall lo hi, (lo < hi)%nat ->
        (lo <= (lo + hi) / 2)%nat /\ ((lo + hi) / 2 < hi)%nat.
      Proof.
        intros lo hi H. pose proof (Nat.div_mod (lo + hi) 2 ltac:(lia)).
        pose proof (Nat.mod_upper_bound (lo + hi) 2 ltac:(lia)). lia.
      Qed.

      Lemma bisect_loop_spec : strict = false -> forall fuel lo hi,
        (lo <= hi)%nat -> (hi <= length sl)%nat -> (fuel > hi - lo)%nat ->
        (forall m, (m < lo)%nat -> q m = true) ->
        (forall m, (hi <= m)%nat -> (m < length sl)%nat -> q m = false) ->
        exists r, bisect_loop T cmp fuel vs (map Z.of_nat sl) target (Z.of_nat lo) (Z.of_nat hi)
                  = Some (Z.of_nat r) /\ search_post lo hi r.
      Proof.
        intros Hs. induction fuel as [|fuel IH]; intros lo hi Hlh Hhi Hf Hlo Hhigh; [lia|].
        cbn [bisect_loop]. unfold bis_cond, bis_mid, bis_gt, bis_high_upd, bis_low_upd, bis_ret.
        destruct (Z.ltb_spec (Z.of_nat lo) (Z.of_nat hi)) as [Hlt|Hge].
        2:{ exists lo. split; [reflexivity|]. unfold search_post. repeat split; auto; try lia.
            intros m H1 H2. apply Hhigh; lia. }
        assert (Hlt' : (lo < hi)%nat) by lia. destruct (mid_facts lo hi Hlt') as [M1 M2].
        set (mid := ((lo + hi) / 2)%nat) in *.
        assert (Emid : Z.quot (Z.of_nat lo + Z.of_nat hi) 2 = Z.of_nat mid).
        { rewrite Z.quot_div_nonneg by lia. unfold mid. rewrite (Nat2Z.inj_div _ 2), Nat2Z.inj_add. reflexivity. }
        rewrite Emid, znth_map_of_nat by lia.
        rewrite key_cmp_vs by (apply sl_lt; lia).
        assert (Hq : q mid = (cmp (V (nth mid sl 0%nat)) target <=? 0)) by (unfold follows; now rewrite Hs).
        destruct (Z.gtb_spec (cmp (V (nth mid sl 0%nat)) target) 0) as [Hgt|Hle].
        - (* high = mid *)
          assert (Hqm : q mid = false) by (rewrite Hq; apply Z.leb_gt; lia).
          destruct (IH lo mid ltac:(lia) ltac:(lia) ltac:(lia) Hlo) as (r & Er & P1 & P2 & P3).
          + intros m H1 H2. destruct (q m) eqn:Eq; [|reflexivity].
            rewrite (q_mono mid m H1 H2 Eq) in Hqm. discriminate.
          + exists r. split; [exact Er|]. unfold search_post. repeat split; auto; lia.
        - (* low = mid + 1 *)
          assert (Hqm : q mid = true) by (rewrite Hq; apply Z.leb_le; lia).
          replace (Z.of_nat mid + 1) with (Z.of_nat (S mid)) by lia.
          destruct (IH (S mid) hi ltac:(lia) ltac:(lia) ltac:(lia)) as (r & Er & P1 & P2 & P3); auto.
          + intros m H1. apply (q_mono m mid); auto; lia.
          + exists r. split; [exact Er|]. unfold search_post. repeat split; auto; lia.
      Qed.

      Lemma std_loop_spec : strict = true -> forall fuel lo hi,
        (lo <= hi)%nat -> (hi <= length sl)%nat -> (fuel > hi - lo)%nat ->
        (forall m, (m < lo)%nat -> q m = true) ->
        (forall m, (hi <= m)%nat -> (m < length sl)%nat -> q m = false) ->
        exists r, std_binsearch_loop T cmp fuel vs (map Z.of_nat sl) target (Z.of_nat lo) (Z.of_nat hi)
                  = Some (Z.of_nat r) /\ search_post lo hi r.
      Proof.
        intros Hs. induction fuel as [|fuel IH]; intros lo hi Hlh Hhi Hf Hlo Hhigh; [lia|].
        cbn [std_binsearch_loop].
        destruct (Z.ltb_spec (Z.of_nat lo) (Z.of_nat hi)) as [Hlt|Hge].
        2:{ exists lo. split; [reflexivity|]. unfold search_post. repeat split; auto; try lia.
            intros m H1 H2. apply Hhigh; lia. }
        assert (Hlt' : (lo < hi)%nat) by lia. destruct (mid_facts lo hi Hlt') as [M1 M2].
        set (mid := ((lo + hi) / 2)%nat) in *.
        assert (Emid : Z.shiftr (Z.of_nat lo + Z.of_nat hi) 1 = Z.of_nat mid).
        { rewrite Z.shiftr_div_pow2 by lia. change (2 ^ 1) with 2.
          unfold mid. rewrite (Nat2Z.inj_div _ 2), Nat2Z.inj_add. reflexivity. }
        rewrite Emid, znth_map_of_nat by lia.
        rewrite key_cmp_vs by (apply sl_lt; lia).
        assert (Hq : q mid = (cmp (V (nth mid sl 0%nat)) target <? 0)) by (unfold follows; now rewrite Hs).
        rewrite <- Hq. destruct (q mid) eqn:Hqm.
        - replace (Z.of_nat mid + 1) with (Z.of_nat (S mid)) by lia.
          destruct (IH (S mid) hi ltac:(lia) ltac:(lia) ltac:(lia)) as (r & Er & P1 & P2 & P3); auto.
          + intros m H1. apply (q_mono m mid); auto; lia.
          + exists r. split; [exact Er|]. unfold search_post. repeat split; auto; lia.
        - destruct (IH lo mid ltac:(lia) ltac:(lia) ltac:(lia) Hlo) as (r & Er & P1 & P2 & P3).
          + intros m H1 H2. destruct (q m) eqn:Eq; [|reflexivity].
            rewrite (q_mono mid m H1 H2 Eq) in Hqm. discriminate.
          + exists r. split; [exact Er|]. unfold search_post. repeat split; auto; lia.
      Qed.

      Lemma search_spec :
        exists r, search T cmp g vs (map Z.of_nat sl) target = Some (Z.of_nat r)
                  /\ search_post 0 (length sl) r.
      Proof.
        unfold search. rewrite (ok_nsearch _ _ Hg), (ok_right _ _ Hg). cbn [Z.eqb Pos.eqb].
        destruct (Bool.bool_dec strict true) as [Hs|Hs];
          [|apply Bool.not_true_is_false in Hs]; rewrite Hs; cbn [negb].
        - unfold std_binsearch, zlen. rewrite map_length. change 0 with (Z.of_nat 0).
          apply std_loop_spec; auto; try lia; intros; lia.
        - unfold bisect_right, zlen, bis_ln, bis_low0, bis_high0. rewrite map_length.
          change 0 with (Z.of_nat 0).
          apply bisect_loop_spec; auto; try lia; intros; lia.
      Qed.
    End Search.

    (* ---- chains through prev ---- *)
    Inductive GoodChain (prev : list Z) : nat -> list T -> Prop :=
    | gc_first : forall idx, (idx < N)%nat -> GoodChain prev idx [V idx]
    | gc_next : forall idx p s,
        nth_error prev idx = Some (Z.of_nat p) -> (p < idx)%nat -> (idx < N)%nat ->
        GoodChain prev p s -> fol (V p) (V idx) = true ->
        GoodChain prev idx (s ++ [V idx]).

    Lemma gc_last : forall prev idx s, GoodChain prev idx s -> s <> [] /\ last s d = V idx.
    Proof.
      induction 1; split; try congruence; try reflexivity.
      - intros E. apply app_eq_nil in E. destruct E; discriminate.
      - apply last_last.
    Qed.

    Lemma gc_sub : forall prev idx s, GoodChain prev idx s -> Subseq s (firstn (S idx) vs).
    Proof.
      induction 1 as [idx Hi | idx p s Hp Hlt Hi Hc IH Hf].
      - rewrite (firstn_snoc_nth vs idx d Hi). apply SubseqR_app_l. apply Subseq_refl.
      - rewrite (firstn_snoc_nth vs idx d Hi). apply SubseqR_snoc; [|reflexivity].
        apply (Subseq_firstn_mono s vs (S p) idx); [lia | exact IH].
    Qed.

    Lemma gc_ord : forall prev idx s, GoodChain prev idx s -> ordered_b T cmp strict s = true.
    Proof.
      induction 1 as [idx Hi | idx p s Hp Hlt Hi Hc IH Hf]; [reflexivity|].
      destruct (gc_last _ _ _ Hc) as [Hne Hl].
      apply (ordered_snoc s (V idx) d Hne). split; [exact IH|]. now rewrite Hl.
    Qed.

    Lemma gc_frame : forall prev prev' n idx s, GoodChain prev idx s -> (idx < n)%nat ->
      (forall j, j <> n -> nth_error prev' j = nth_error prev j) -> GoodChain prev' idx s.
    Proof.
      intros prev prev' n idx s H. induction H as [idx Hi | idx p s Hp Hlt Hi Hc IH Hf]; intros Hn Hfr.
      - now apply gc_first.
      - apply gc_next with p; auto.
        + rewrite Hfr by lia. exact Hp.
        + apply IH; [lia | exact Hfr].
    Qed.

    Lemma back_walk_spec : forall prev, length prev = N -> forall idx s, GoodChain prev idx s ->
      forall (done : list T),
        back_walk T g (length s) vs prev (Z.of_nat (length done))
                  (repeat None (length s) ++ map Some done) (Z.of_nat idx)
        = Some (map Some (s ++ done)).
    Proof.
      intros prev Hpl idx s H. induction H as [idx Hi | idx p s Hp Hlt Hi Hc IH Hf]; intros done.
      - cbn [length back_walk repeat app]. rewrite (znth_vs idx Hi), (ok_ret_idx _ _ Hg).
        unfold zlen. cbn [length]. rewrite map_length.
        replace (Z.of_nat (S (length done)) - 1 - Z.of_nat (length done)) with (Z.of_nat 0) by lia.
        rewrite zupd_nat. cbn [upd_nat]. rewrite znth_nat.
        destruct (nth_error_some_lt prev idx ltac:(lia)) as [z ->]. reflexivity.
      - rewrite app_length. cbn [length]. rewrite Nat.add_1_r. cbn [back_walk].
        rewrite (znth_vs idx Hi), (ok_ret_idx _ _ Hg).
        unfold zlen. rewrite app_length, repeat_length, map_length.
        replace (Z.of_nat (S (length s) + length done) - 1 - Z.of_nat (length done))
          with (Z.of_nat (length s)) by lia.
        rewrite zupd_nat, repeat_snoc, <- app_assoc. cbn [app].
        rewrite (upd_nat_middle' _ _ _ _ (length s)) by (now rewrite repeat_length).
        rewrite znth_nat, Hp.
        replace (Z.of_nat (length done) + 1) with (Z.of_nat (length (V idx :: done))) by (cbn [length]; lia).
        change (Some (V idx) :: map Some done) with (map Some (V idx :: done)).
        rewrite IH, <- app_assoc. reflexivity.
    Qed.

    (* ---- the invariant ---- *)
    Record Inv (n : nat) (tl : list nat) (prev : list Z) : Prop := {
      inv_n : (1 <= n <= N)%nat;
      inv_ne : (1 <= length tl)%nat;
      inv_lt : forall m, (m < length tl)%nat -> (nth m tl 0 < n)%nat;
      inv_prev : length prev = N;
      inv_mono : forall a b, (a < b)%nat -> (b < length tl)%nat ->
                             fol (V (nth a tl 0%nat)) (V (nth b tl 0%nat)) = true;
      inv_chains : forall m, (m < length tl)%nat ->
                             exists s, GoodChain prev (nth m tl 0%nat) s /\ length s = S m;
      inv_dom : forall t, t <> [] -> Subseq t (firstn n vs) -> ordered_b T cmp strict t = true ->
                          (length t <= length tl)%nat /\
                          cmp (V (nth (length t - 1) tl 0%nat)) (last t d) <= 0
    }.

    Lemma inv_step : forall n tl prev r prev',
      Inv n tl prev -> (n < N)%nat -> (r <= length tl)%nat ->
      (forall m, (m < r)%nat -> fol (V (nth m tl 0%nat)) (V n) = true) ->
      (forall m, (r <= m)%nat -> (m < length tl)%nat -> fol (V (nth m tl 0%nat)) (V n) = false) ->
      length prev' = N ->
      (forall j, j <> n -> nth_error prev' j = nth_error prev j) ->
      ((0 < r)%nat -> nth_error prev' n = Some (Z.of_nat (nth (r - 1) tl 0%nat))) ->
      Inv (S n) (tl_upd tl r n) prev'.
    Proof.
      intros n tl prev r prev' I Hn Hr Hbefore Hafter Hpl Hframe Hlink.
      destruct I as [In Ine Ilt Iprev Imono Ichains Idom].
      pose proof (tl_upd_length tl r n Hr) as Hlen.
      assert (Hnth : forall m, nth m (tl_upd tl r n) 0%nat = if (m =? r)%nat then n else nth m tl 0%nat)
        by (intros; now apply tl_upd_nth).
      split.
      - lia.
      - lia.
      - intros m Hm. rewrite Hnth. destruct (Nat.eqb_spec m r); [lia|].
        assert (m < length tl)%nat by lia. specialize (Ilt m ltac:(lia)). lia.
      - exact Hpl.
      - intros a b Hab Hb. rewrite !Hnth.
        destruct (Nat.eqb_spec a r) as [->|Ha]; destruct (Nat.eqb_spec b r) as [->|Hb'].
        + lia.
        + apply (nfol_fol (V (nth r tl 0%nat))).
          * apply Hafter; lia.
          * apply Imono; lia.
        + apply Hbefore; lia.
        + apply Imono; lia.
      - intros m Hm. rewrite Hnth. destruct (Nat.eqb_spec m r) as [->|Hmr].
        + destruct r as [|r'].
          * exists [V n]. split; [now apply gc_first | reflexivity].
          * destruct (Ichains r' ltac:(lia)) as (s & Hc & Hs).
            exists (s ++ [V n]). split.
            -- apply gc_next with (p := nth r' tl 0%nat).
               ++ rewrite Hlink by lia. now replace (S r' - 1)%nat with r' by lia.
               ++ apply Ilt; lia.
               ++ exact Hn.
               ++ apply (gc_frame prev prev' n); auto; apply Ilt; lia.
               ++ apply Hbefore; lia.
            -- rewrite app_length; cbn; lia.
        + destruct (Ichains m ltac:(lia)) as (s & Hc & Hs). exists s. split; [|exact Hs].
          apply (gc_frame prev prev' n); auto; apply Ilt; lia.
      - intros t Hne Hsub Hord.
        rewrite (firstn_snoc_nth vs n d Hn) in Hsub.
        destruct (SubseqR_snoc_inv _ _ _ _ Hsub) as [Hold | (t' & x & -> & Hx & Hold)].
        + (* t does not use position n *)
          destruct (Idom t Hne Hold Hord) as [Hl Hd]. split; [lia|].
          rewrite Hnth. destruct (Nat.eqb_spec (length t - 1) r) as [E|E]; [|exact Hd].
          assert (length t >= 1)%nat by (destruct t; [congruence | cbn; lia]).
          rewrite E in Hd. eapply cmp_trans; [|exact Hd]. apply nfol_le. apply Hafter; lia.
        + (* t = t' ++ [V n] *)
          subst x. rewrite app_length. cbn [length]. rewrite last_last.
          replace (length t' + 1 - 1)%nat with (length t') by lia. rewrite Hnth.
          destruct t' as [|y t''].
          * cbn [length]. split; [lia|]. destruct (Nat.eqb_spec 0 r) as [E|E]; [apply le_refl|].
            apply fol_le. apply Hbefore. lia.
          * set (t' := y :: t'') in *. assert (Hne' : t' <> []) by (unfold t'; congruence).
            apply (ordered_snoc t' (V n) d Hne') in Hord. destruct Hord as [Hord' Hlast].
            destruct (Idom t' Hne' Hold Hord') as [Hl Hd].
            assert (Hk : (length t' >= 1)%nat) by (unfold t'; cbn; lia).
            pose proof (le_fol_trans _ _ _ Hd Hlast) as Hf.
            assert (Hkr : (length t' - 1 < r)%nat).
            { destruct (Nat.lt_ge_cases (length t' - 1) r) as [|Hge]; [assumption|].
              rewrite (Hafter (length t' - 1)%nat Hge ltac:(lia)) in Hf. discriminate. }
            split; [lia|]. destruct (Nat.eqb_spec (length t') r) as [E|E]; [apply le_refl|].
            apply fol_le. apply Hbefore. lia.
    Qed.

    (* ---- one iteration of the model establishes the invariant for one more element ---- *)
    Lemma zlen_map : forall tl : list nat, zlen (map Z.of_nat tl) = Z.of_nat (length tl).
    Proof. intros; unfold zlen; now rewrite map_length. Qed.

    Lemma step_spec : forall n tl prev, Inv n tl prev -> (n < N)%nat ->
      exists tl' prev', step T cmp g vs (Z.of_nat n - 1) (map Z.of_nat tl, prev)
                        = Some (map Z.of_nat tl', prev') /\ Inv (S n) tl' prev'.
    Proof.
      intros n tl prev I Hn. pose proof I as [In Ine Ilt Iprev Imono Ichains Idom].
      unfold step. rewrite (ok_i_incr _ _ Hg), (ok_best_idx _ _ Hg), zlen_map.
      replace (Z.of_nat n - 1 + 1) with (Z.of_nat n) by lia.
      set (L := length tl) in *.
      replace (Z.of_nat L - 1) with (Z.of_nat (L - 1)) by lia.
      rewrite znth_map_of_nat by lia.
      set (best := nth (L - 1) tl 0%nat).
      assert (Hbest : (best < n)%nat) by (apply Ilt; lia).
      rewrite (znth_vs n Hn), (znth_vs best ltac:(lia)), (fast_is_fol g Hg).
      destruct (fol (V best) (V n)) eqn:Ef.
      - (* fast path: append *)
        rewrite zupd_nat. destruct (upd_nat_some prev n (Z.of_nat best) ltac:(lia)) as [prev' E].
        rewrite E. destruct (upd_nat_spec _ _ _ _ E) as (Pl & Pn & Po).
        exists (tl ++ [n]), prev'. split.
        + rewrite map_app. reflexivity.
        + rewrite tl_upd_app. apply (inv_step n tl prev (length tl) prev' I Hn (le_n _)).
          * intros m Hm. destruct (Nat.eq_dec m (L - 1)) as [->|Hne]; [exact Ef|].
            apply (fol_trans _ (V best)); [|exact Ef]. apply Imono; lia.
          * intros; lia.
          * lia.
          * exact Po.
          * intros _. rewrite Pn. reflexivity.
      - (* search and replace *)
        rewrite (ok_search_hi _ _ Hg). unfold zslice_hi. rewrite zlen_map. fold L.
        replace (Z.of_nat L - 1) with (Z.of_nat (L - 1)) by lia.
        destruct (Z.ltb_spec (Z.of_nat (L - 1)) 0) as [|_]; [lia|].
        destruct (Z.ltb_spec (Z.of_nat L) (Z.of_nat (L - 1))) as [|_]; [lia|]. cbn [orb].
        rewrite Nat2Z.id, firstn_map.
        set (sl := firstn (L - 1) tl).
        assert (Hsl_len : length sl = (L - 1)%nat) by (unfold sl; rewrite firstn_length; lia).
        assert (Hsl_nth : forall m, (m < L - 1)%nat -> nth m sl 0%nat = nth m tl 0%nat)
          by (intros; unfold sl; now apply nth_firstn_lt).
        destruct (search_spec sl (V n)) as (r & Es & (R1 & R2 & R3)).
        { intros m Hm. rewrite Hsl_nth by lia. specialize (Ilt m ltac:(lia)). lia. }
        { intros a b Hab Hb Hq. rewrite Hsl_len in Hb. rewrite Hsl_nth in * by lia.
          destruct (Nat.eq_dec a b) as [->|]; [exact Hq|].
          apply (fol_trans _ (V (nth b tl 0%nat))); [|exact Hq]. apply Imono; lia. }
        rewrite Es, (ok_first _ _ Hg), (ok_pred_idx _ _ Hg), (ok_repl_idx _ _ Hg).
        rewrite Hsl_len in R1, R3.
        assert (Hpv : exists pv,
          (if Z.of_nat r =? 0 then Some (g_neg1 g) else znth (map Z.of_nat tl) (Z.of_nat r - 1)) = Some pv
          /\ ((0 < r)%nat -> pv = Z.of_nat (nth (r - 1) tl 0%nat))).
        { destruct r as [|r'].
          - exists (g_neg1 g). split; [reflexivity | lia].
          - replace (Z.of_nat (S r') =? 0) with false by (symmetry; apply Z.eqb_neq; lia).
            replace (Z.of_nat (S r') - 1) with (Z.of_nat r') by lia.
            rewrite znth_map_of_nat by lia. eexists; split; [reflexivity|].
            intros _. now replace (S r' - 1)%nat with r' by lia. }
        destruct Hpv as (pv & -> & Hpv).
        rewrite zupd_nat. destruct (upd_nat_some prev n pv ltac:(lia)) as [prev' E].
        rewrite E. destruct (upd_nat_spec _ _ _ _ E) as (Pl & Pn & Po).
        rewrite zupd_nat, upd_nat_tl_upd by lia.
        exists (tl_upd tl r n), prev'. split; [reflexivity|].
        apply (inv_step n tl prev r prev' I Hn ltac:(lia)).
        + intros m Hm. rewrite <- Hsl_nth by lia. now apply R2.
        + intros m H1 H2. destruct (Nat.eq_dec m (L - 1)) as [->|Hne]; [exact Ef|].
          rewrite <- Hsl_nth by lia. apply R3; lia.
        + lia.
        + exact Po.
        + intros Hr. rewrite Pn, Hpv by lia. reflexivity.
    Qed.

    Lemma main_loop_spec : forall rng n tl prev, Inv n tl prev -> length rng = (N - n)%nat ->
      exists tl' prev', main_loop T cmp g vs rng (Z.of_nat n - 1) (map Z.of_nat tl, prev)
                        = Some (map Z.of_nat tl', prev') /\ Inv N tl' prev'.
    Proof.
      induction rng as [|x rng IH]; intros n tl prev I Hl; cbn [main_loop length] in *.
      - exists tl, prev. split; [reflexivity|]. pose proof (inv_n _ _ _ I).
        replace N with n by lia. exact I.
      - pose proof (inv_n _ _ _ I). destruct (step_spec n tl prev I ltac:(lia)) as (tl1 & prev1 & E & I1).
        rewrite E. replace (Z.of_nat n - 1 + 1) with (Z.of_nat (S n) - 1) by lia.
        apply IH; [exact I1 | lia].
    Qed.

    Lemma init_spec : (1 <= N)%nat ->
      exists prev0, init_state T g vs = Some (map Z.of_nat [0%nat], prev0) /\ Inv 1 [0%nat] prev0.
    Proof.
      intros HN. unfold init_state.
      rewrite (ok_tails_len0 _ _ Hg), (ok_prev_len _ _ Hg), (ok_prev0_idx _ _ Hg),
        (ok_tails0_idx _ _ Hg), (ok_tails0_val _ _ Hg).
      unfold zlen. rewrite Nat2Z.id. change (Z.to_nat 1) with 1%nat. cbn [repeat].
      change (zupd (repeat 0 N) 0 (g_prev0_val g)) with (upd_nat (repeat 0 N) 0 (g_prev0_val g)).
      destruct (upd_nat_some (repeat 0 N) 0%nat (g_prev0_val g)) as [prev0 E];
        [rewrite repeat_length; lia|].
      rewrite E. destruct (upd_nat_spec _ _ _ _ E) as (Pl & _ & _). rewrite repeat_length in Pl.
      exists prev0. split; [reflexivity|]. split.
      - lia.
      - cbn; lia.
      - intros m Hm. cbn in Hm. destruct m; cbn; lia.
      - exact Pl.
      - intros a b Hab Hb. cbn in Hb. lia.
      - intros m Hm. cbn in Hm. replace m with 0%nat by lia. exists [V 0%nat].
        split; [apply gc_first; lia | reflexivity].
      - intros t Hne Hsub _. rewrite (firstn_snoc_nth vs 0 d HN) in Hsub. cbn [firstn app] in Hsub.
        destruct (Subseq_singleton _ _ Hsub) as [->| ->]; [congruence|].
        cbn [length last Nat.sub nth]. split; [lia | apply le_refl].
    Qed.

    Theorem run_nonempty : (1 <= N)%nat ->
      exists s, run_func T cmp g vs = Some s /\ Subseq s vs /\ ordered_b T cmp strict s = true /\
        forall t, Subseq t vs -> ordered_b T cmp strict t = true -> (length t <= length s)%nat.
    Proof.
      intros HN. unfold run_func. rewrite (ok_empty _ _ Hg).
      replace (zlen vs =? 0) with false by (symmetry; apply Z.eqb_neq; unfold zlen; lia).
      destruct (init_spec HN) as (prev0 & -> & I0).
      rewrite (ok_range_lo _ _ Hg). unfold zslice_lo.
      destruct (Z.ltb_spec 1 0) as [|_]; [lia|].
      destruct (Z.ltb_spec (zlen vs) 1) as [Hc|_]; [unfold zlen in Hc; lia|]. cbn [orb].
      change (Z.to_nat 1) with 1%nat.
      destruct (main_loop_spec (skipn 1 vs) 1 [0%nat] prev0 I0) as (tl & prev & E & I).
      { rewrite skipn_length. reflexivity. }
      change (Z.of_nat 1 - 1) with 0 in E. rewrite E.
      destruct I as [In Ine Ilt Iprev Imono Ichains Idom].
      rewrite (ok_ret_len _ _ Hg), (ok_start_idx _ _ Hg), zlen_map, Nat2Z.id.
      replace (Z.of_nat (length tl) - 1) with (Z.of_nat (length tl - 1)) by lia.
      rewrite znth_map_of_nat by lia. rewrite repeat_length.
      destruct (Ichains (length tl - 1)%nat ltac:(lia)) as (s & Hc & Hs).
      replace (S (length tl - 1)) with (length tl) in Hs by lia.
      pose proof (back_walk_spec prev Iprev _ _ Hc []) as W. cbn [length map] in W.
      rewrite app_nil_r, app_nil_r, Hs in W. change (Z.of_nat 0) with 0 in W.
      rewrite W, all_some_map.
      exists s. split; [reflexivity|]. split; [|split].
      - pose proof (gc_sub _ _ _ Hc) as Hsub.
        apply (Subseq_firstn_mono s vs _ N) in Hsub.
        + now rewrite firstn_all in Hsub.
        + specialize (Ilt (length tl - 1)%nat ltac:(lia)). lia.
      - exact (gc_ord _ _ _ Hc).
      - intros t Ht Hord. destruct t as [|y t']; [cbn; lia|].
        rewrite <- (firstn_all vs) in Ht.
        destruct (Idom (y :: t') ltac:(congruence) Ht Hord) as [Hl _]. lia.
    Qed.
  End Run.

  (* ---- for every input ---- *)
  Theorem run_func_spec : forall g, gen_ok g strict -> forall vs,
    exists s, run_func T cmp g vs = Some s /\ Subseq s vs /\ ordered_b T cmp strict s = true /\
      forall t, Subseq t vs -> ordered_b T cmp strict t = true -> (length t <= length s)%nat.
  Proof.
    intros g Hg vs. destruct vs as [|x vs'].
    - exists []. unfold run_func. rewrite (ok_empty _ _ Hg). cbn. repeat split.
      + apply sr_nil.
      + intros t Ht _. apply SubseqR_nil_r in Ht. subst. cbn; lia.
    - apply (run_nonempty g Hg (x :: vs') x). cbn; lia.
  Qed.
End LisProofs.

(* ---- the two public functions ---- *)
Section Public.
  Variable T : Type.
  Variable cmp : T -> T -> Z.
  Hypothesis cmp_flip : forall a b, Z.sgn (cmp b a) = - Z.sgn (cmp a b).
  Hypothesis cmp_trans : forall a b c, cmp a b <= 0 -> cmp b c <= 0 -> cmp a c <= 0.

  Theorem lnds_func_optimal : forall vs, exists s,
    lnds_func T cmp vs = Some s /\ Subseq s vs /\ ordered_b T cmp false s = true /\
    forall t, Subseq t vs -> ordered_b T cmp false t = true -> (length t <= length s)%nat.
  Proof. exact (run_func_spec T cmp cmp_flip cmp_trans false lnds_gen lnds_gen_ok). Qed.

  Theorem lis_func_optimal : forall vs, exists s,
    lis_func T cmp vs = Some s /\ Subseq s vs /\ ordered_b T cmp true s = true /\
    forall t, Subseq t vs -> ordered_b T cmp true t = true -> (length t <= length s)%nat.
  Proof. exact (run_func_spec T cmp cmp_flip cmp_trans true lis_gen_ lis_gen_ok). Qed.
End Public.
