(* Proofs about the model of slice.LNDSFunc / slice.LISFunc: for every comparison function that
   is a total preorder, the function returns (no panic, no fuel exhaustion) an ordered
   subsequence of its input and no ordered subsequence is longer.

   One proof for both functions, over a [strict] flag; [gen_ok g strict] collects what the
   generated definitions of the function must be for the proof to go through (checked by
   reflexivity for [lnds_gen] with strict = false and [lis_gen_] with strict = true).

   Invariant after the first n elements (tl = tails, L = length tl):
     mono    the values at tails are ordered: follows V(tl[a]) V(tl[b]) for a < b
     chains  from tl[m] the prev links describe an ordered subsequence of length m+1
     dom     every non-empty ordered subsequence t of the first n elements has
             length t <= L and V(tl[length t - 1]) <= last t. *)
From Coq Require Import ZArith List Bool Lia Arith.
Import ListNotations.
From Mds Require Import Gen.LisIdx Slice.Subseq Slice.LcsModel Slice.LcsLisUtil Slice.LisModel Slice.LisSpec.
Local Open Scope Z_scope.

Record gen_ok (g : lis_gen) (strict : bool) : Prop := {
  ok_empty : forall n, g_empty_cond g n = (n =? 0);
  ok_tails_len0 : g_tails_len0 g = 1;
  ok_prev_len : forall n, g_prev_len g n = n;
  ok_prev0_idx : g_prev0_idx g = 0;
  ok_tails0_idx : g_tails0_idx g = 0;
  ok_tails0_val : g_tails0_val g = 0;
  ok_range_lo : g_range_lo g = 1;
  ok_i_incr : forall i, g_i_incr g i = i + 1;
  ok_best_idx : forall lt, g_best_idx g lt = lt - 1;
  ok_fast_arg0 : g_fast_arg0 g = 0;
  ok_fast_arg1 : g_fast_arg1 g = 1;
  ok_clo_arg0 : g_clo_arg0 g = 0;
  ok_clo_arg1 : g_clo_arg1 g = 1;
  ok_fast : forall c, g_fast_cond g c = if strict then c >? 0 else c >=? 0;
  (* the search may run over tails minus its final element (as the code does) or over all of
     tails: the fast path has already excluded the position beyond the end *)
  ok_search_hi : (forall lt, g_search_hi g lt = lt - 1) \/ (forall lt, g_search_hi g lt = lt);
  ok_first : forall ri, g_first_cond g ri = (ri =? 0);
  ok_pred_idx : forall ri, g_pred_idx g ri = ri - 1;
  ok_repl_idx : forall ri, g_repl_idx g ri = ri;
  ok_ret_len : forall lt, g_ret_len g lt = lt;
  ok_start_idx : forall lt, g_start_idx g lt = lt - 1;
  ok_ret_idx : forall lr i, g_ret_idx g lr i = lr - 1 - i;
  ok_nsearch : g_nsearch g = 1;
  ok_right : g_right g = negb strict
}.

Ltac gen_ok_tac :=
  split; intros; try reflexivity;
  first [left; intros; reflexivity | right; intros; reflexivity].

Lemma lnds_gen_ok : gen_ok lnds_gen false.
Proof. gen_ok_tac. Qed.

Lemma lis_gen_ok : gen_ok lis_gen_ true.
Proof. gen_ok_tac. Qed.

(* ---- small list facts ---- *)
Lemma znth_map_of_nat : forall (sl : list nat) m, (m < length sl)%nat ->
  znth (map Z.of_nat sl) (Z.of_nat m) = Some (Z.of_nat (nth m sl 0%nat)).
Proof.
  intros sl m H. rewrite znth_nat.
  rewrite (nth_error_nth' _ (Z.of_nat 0)) by (now rewrite map_length).
  now rewrite map_nth.
Qed.

Lemma all_some_map : forall {A} (l : list A), all_some (map Some l) = Some l.
Proof. induction l; cbn; [reflexivity|]. now rewrite IHl. Qed.

Lemma upd_nat_middle : forall {A} (l1 l2 : list A) x v,
  upd_nat (l1 ++ x :: l2) (length l1) v = Some (l1 ++ v :: l2).
Proof. induction l1; intros; cbn; [reflexivity|]. now rewrite IHl1. Qed.

Lemma repeat_snoc : forall {A} (a : A) n, repeat a (S n) = repeat a n ++ [a].
Proof. induction n; cbn; [reflexivity|]. f_equal. exact IHn. Qed.

Lemma firstn_prefix : forall {A} (l : list A) a b, (a <= b)%nat ->
  exists rest, firstn b l = firstn a l ++ rest.
Proof.
  induction l as [|h t IH]; intros a b H.
  - exists []. now rewrite !firstn_nil.
  - destruct a; [eexists; reflexivity|]. destruct b; [lia|].
    destruct (IH a b ltac:(lia)) as [rest E]. exists rest. cbn. now rewrite E.
Qed.

Lemma Subseq_firstn_mono : forall {A} (s l : list A) a b, (a <= b)%nat ->
  Subseq s (firstn a l) -> Subseq s (firstn b l).
Proof.
  intros A s l a b H Hs. destruct (firstn_prefix l a b H) as [rest ->].
  now apply SubseqR_app_r.
Qed.

Lemma firstn_snoc_nth : forall {A} (l : list A) k d, (k < length l)%nat ->
  firstn (S k) l = firstn k l ++ [nth k l d].
Proof. intros. apply firstn_snoc. now apply nth_error_nth'. Qed.


(* replacing position r (or appending when r = length) *)
Definition tl_upd (tl : list nat) (r n : nat) : list nat := firstn r tl ++ n :: skipn (S r) tl.

Lemma tl_upd_nth : forall tl r n m, (r <= length tl)%nat ->
  nth m (tl_upd tl r n) 0%nat = if (m =? r)%nat then n else nth m tl 0%nat.
Proof.
  unfold tl_upd. induction tl as [|h t IH]; intros r n m Hr.
  - cbn in Hr. replace r with 0%nat by lia. destruct m as [|[|m]]; reflexivity.
  - destruct r.
    + destruct m; reflexivity.
    + destruct m; [reflexivity|]. cbn in Hr. cbn [firstn skipn app nth Nat.eqb].
      change (skipn (S r) t) with (skipn (S r) t). rewrite <- IH by lia. reflexivity.
Qed.

Lemma tl_upd_length : forall tl r n, (r <= length tl)%nat ->
  length (tl_upd tl r n) = Nat.max (length tl) (S r).
Proof.
  intros. unfold tl_upd. rewrite app_length, firstn_length. cbn [length]. rewrite skipn_length. lia.
Qed.

Lemma tl_upd_app : forall tl n, tl ++ [n] = tl_upd tl (length tl) n.
Proof. intros. unfold tl_upd. rewrite firstn_all, skipn_all2 by lia. reflexivity. Qed.

Lemma upd_nat_tl_upd : forall tl r n, (r < length tl)%nat ->
  upd_nat (map Z.of_nat tl) r (Z.of_nat n) = Some (map Z.of_nat (tl_upd tl r n)).
Proof.
  unfold tl_upd. induction tl as [|h t IH]; intros r n Hr; cbn in Hr; [lia|].
  destruct r; [reflexivity|]. cbn [map upd_nat firstn skipn app]. rewrite IH by lia. reflexivity.
Qed.

Lemma nth_firstn_lt : forall {A} (l : list A) k m d, (m < k)%nat -> nth m (firstn k l) d = nth m l d.
Proof.
  induction l as [|h t IH]; intros k m d H; [now rewrite firstn_nil|].
  destruct k; [lia|]. destruct m; [reflexivity|]. cbn. apply IH. lia.
Qed.

Lemma upd_nat_middle' : forall {A} (l1 l2 : list A) x v k, k = length l1 ->
  upd_nat (l1 ++ x :: l2) k v = Some (l1 ++ v :: l2).
Proof. intros; subst. apply upd_nat_middle. Qed.

Lemma Subseq_singleton : forall {A} (t : list A) x, Subseq t [x] -> t = [] \/ t = [x].
Proof.
  intros A t x H. inversion H; subst.
  - now left.
  - apply SubseqR_nil_r in H2. now left.
  - apply SubseqR_nil_r in H4. subst. now right.
Qed.

Section LisProofs.
  Variable T : Type.
  Variable cmp : T -> T -> Z.
  (* cmp is a total preorder presented as a three-way comparison: swapping the arguments flips
     the sign, and <= is transitive *)
  Hypothesis cmp_flip : forall a b, Z.sgn (cmp b a) = - Z.sgn (cmp a b).
  Hypothesis cmp_trans : forall a b c, cmp a b <= 0 -> cmp b c <= 0 -> cmp a c <= 0.

  Variable strict : bool.
  Notation fol := (follows T cmp strict).

  (* ---- order facts ---- *)
  Lemma flip_lt : forall a b, cmp a b < 0 <-> cmp b a > 0.
  Proof. intros a b. pose proof (cmp_flip a b). destruct (cmp a b), (cmp b a); cbn in H; try lia; discriminate. Qed.

  Lemma flip_le : forall a b, cmp a b <= 0 <-> cmp b a >= 0.
  Proof. intros a b. pose proof (cmp_flip a b). destruct (cmp a b), (cmp b a); cbn in H; try lia; discriminate. Qed.

  Lemma le_refl : forall a, cmp a a <= 0.
  Proof. intros a. pose proof (cmp_flip a a). destruct (cmp a a); cbn in H; try lia; discriminate. Qed.

  Lemma lt_le_trans : forall a b c, cmp a b < 0 -> cmp b c <= 0 -> cmp a c < 0.
  Proof.
    intros a b c H1 H2. destruct (Z_lt_ge_dec (cmp a c) 0) as [|H3]; [assumption|].
    apply flip_le in H3. pose proof (cmp_trans _ _ _ H2 H3) as H4. apply flip_lt in H1. lia.
  Qed.

  Lemma le_lt_trans : forall a b c, cmp a b <= 0 -> cmp b c < 0 -> cmp a c < 0.
  Proof.
    intros a b c H1 H2. destruct (Z_lt_ge_dec (cmp a c) 0) as [|H3]; [assumption|].
    apply flip_le in H3. pose proof (cmp_trans _ _ _ H3 H1) as H4. apply flip_lt in H2. lia.
  Qed.

  Lemma fol_true : forall a b, fol a b = true <-> (if strict then cmp a b < 0 else cmp a b <= 0).
  Proof. intros; unfold follows; destruct strict; [apply Z.ltb_lt | apply Z.leb_le]. Qed.

  Lemma fol_false : forall a b, fol a b = false <-> (if strict then cmp a b >= 0 else cmp a b > 0).
  Proof.
    intros; unfold follows; destruct strict; [rewrite Z.ltb_ge | rewrite Z.leb_gt]; lia.
  Qed.

  Lemma fol_le : forall a b, fol a b = true -> cmp a b <= 0.
  Proof. intros a b H. apply fol_true in H. destruct strict; lia. Qed.

  Lemma fol_trans : forall a b c, fol a b = true -> fol b c = true -> fol a c = true.
  Proof.
    intros a b c H1 H2. apply fol_true in H1, H2. apply fol_true. destruct strict.
    - apply (lt_le_trans a b c); lia.
    - eapply cmp_trans; eauto.
  Qed.

  Lemma le_fol_trans : forall a b c, cmp a b <= 0 -> fol b c = true -> fol a c = true.
  Proof.
    intros a b c H1 H2. apply fol_true in H2. apply fol_true. destruct strict.
    - eapply le_lt_trans; eauto.
    - eapply cmp_trans; eauto.
  Qed.

  Lemma nfol_le : forall a v, fol a v = false -> cmp v a <= 0.
  Proof.
    intros a v H. apply fol_false in H. destruct strict.
    - apply flip_le. lia.
    - assert (cmp v a < 0) by (apply flip_lt; lia). lia.
  Qed.

  Lemma nfol_fol : forall a v b, fol a v = false -> fol a b = true -> fol v b = true.
  Proof.
    intros a v b H1 H2. pose proof (nfol_le _ _ H1) as Hva.
    apply fol_true in H2. apply fol_true. apply fol_false in H1. destruct strict.
    - eapply le_lt_trans; eauto.
    - eapply cmp_trans; eauto.
  Qed.

  Lemma fast_is_fol : forall g, gen_ok g strict -> forall vi vb,
    g_fast_cond g (cmp vi vb) = fol vb vi.
  Proof.
    intros g Hg vi vb. rewrite (ok_fast _ _ Hg). unfold follows. destruct strict.
    - destruct (Z.ltb_spec (cmp vb vi) 0) as [H|H].
      + apply flip_lt in H. apply Z.gtb_lt. lia.
      + rewrite Z.gtb_ltb. apply Z.ltb_ge. apply flip_le. lia.
    - destruct (Z.leb_spec (cmp vb vi) 0) as [H|H].
      + apply flip_le in H. rewrite Z.geb_leb. apply Z.leb_le. lia.
      + rewrite Z.geb_leb. apply Z.leb_gt. assert (cmp vb vi > 0) as H' by lia.
        apply flip_lt in H'. lia.
  Qed.

  (* ---- ordered_b facts ---- *)
  Lemma ordered_snoc : forall s x d, s <> [] ->
    ordered_b T cmp strict (s ++ [x]) = true <->
    ordered_b T cmp strict s = true /\ fol (last s d) x = true.
  Proof.
    induction s as [|a s IH]; intros x d Hne; [congruence|].
    destruct s as [|b s].
    - cbn. rewrite andb_true_r. tauto.
    - change ((a :: b :: s) ++ [x]) with (a :: (b :: s) ++ [x]).
      change (ordered_b T cmp strict (a :: (b :: s) ++ [x]))
        with (fol a b && ordered_b T cmp strict ((b :: s) ++ [x])).
      change (ordered_b T cmp strict (a :: b :: s))
        with (fol a b && ordered_b T cmp strict (b :: s)).
      change (last (a :: b :: s) d) with (last (b :: s) d).
      rewrite !andb_true_iff, (IH x d) by congruence. tauto.
  Qed.

  (* ================= the algorithm on a fixed input ================= *)
  Section Run.
    Variable g : lis_gen.
    Hypothesis Hg : gen_ok g strict.
    Variable vs : list T.
    Variable d : T.
    Notation N := (length vs).
    Notation V j := (nth j vs d).

    Lemma znth_vs : forall j, (j < N)%nat -> znth vs (Z.of_nat j) = Some (V j).
    Proof. intros. rewrite znth_nat. now apply nth_error_nth'. Qed.

    Lemma key_cmp_vs : forall j t, (j < N)%nat -> key_cmp T cmp g vs (Z.of_nat j) t = Some (cmp (V j) t).
    Proof.
      intros. unfold key_cmp. rewrite znth_vs by assumption.
      rewrite (ok_clo_arg0 _ _ Hg), (ok_clo_arg1 _ _ Hg). reflexivity.
    Qed.

    (* ---- the two binary searches: first position whose value may not precede the target ---- *)
    Section Search.
      Variable sl : list nat.
      Variable target : T.
      Hypothesis sl_lt : forall m, (m < length sl)%nat -> (nth m sl 0 < N)%nat.
      Notation q m := (fol (V (nth m sl 0%nat)) target).
      Hypothesis q_mono : forall a b, (a <= b)%nat -> (b < length sl)%nat -> q b = true -> q a = true.

      Definition search_post (lo hi r : nat) : Prop :=
        (lo <= r <= hi)%nat /\ (forall m, (m < r)%nat -> q m = true) /\
        (forall m, (r <= m)%nat -> (m < length sl)%nat -> q m = false).

      Lemma mid_facts : forall lo hi, (lo < hi)%nat ->
        (lo <= (lo + hi) / 2)%nat /\ ((lo + hi) / 2 < hi)%nat.
      Proof.
        intros lo hi H. pose proof (Nat.div_mod (lo + hi) 2 ltac:(lia)).
        pose proof (Nat.mod_upper_bound (lo + hi) 2 ltac:(lia)). lia.
      Qed.

      Lemma bisect_loop_spec : strict = false -> forall fuel lo hi,
        (lo <= hi)%nat -> (hi <= length sl)%nat -> (fuel > hi - lo)%nat ->
        (forall m, (m < lo)%nat -> q m = true) ->
        (forall m, (hi <= m)%nat -> (m < length sl)%nat -> q m = false) ->
        exists r, bisect_loop T cmp g fuel vs (map Z.of_nat sl) target (Z.of_nat lo) (Z.of_nat hi)
                  = Some (Z.of_nat r) /\ search_post lo hi r.
      Proof.
        intros Hs. induction fuel as [|fuel IH]; intros lo hi Hlh Hhi Hf Hlo Hhigh; [lia|].
        cbn [bisect_loop]. unfold bis_cond, bis_mid, bis_gt, bis_high_upd, bis_low_upd, bis_ret.
        destruct (Z.ltb_spec (Z.of_nat lo) (Z.of_nat hi)) as [Hlt|Hge].
        2:{ exists lo. split; [reflexivity|]. unfold search_post. repeat split; auto; try lia.
            intros m H1 H2. apply Hhigh; lia. }
        assert (Hlt' : (lo < hi)%nat) by lia. destruct (mid_facts lo hi Hlt') as [M1 M2].
        set (mid := ((lo + hi) / 2)%nat) in *.
        assert (Emid : Z.quot (Z.of_nat lo + Z.of_nat hi) 2 = Z.of_nat mid).
        { rewrite Z.quot_div_nonneg by lia. unfold mid. rewrite (Nat2Z.inj_div _ 2), Nat2Z.inj_add. reflexivity. }
        rewrite Emid, znth_map_of_nat by lia.
        rewrite key_cmp_vs by (apply sl_lt; lia).
        assert (Hq : q mid = (cmp (V (nth mid sl 0%nat)) target <=? 0)) by (unfold follows; now rewrite Hs).
        destruct (Z.gtb_spec (cmp (V (nth mid sl 0%nat)) target) 0) as [Hgt|Hle].
        - (* high = mid *)
          assert (Hqm : q mid = false) by (rewrite Hq; apply Z.leb_gt; lia).
          destruct (IH lo mid ltac:(lia) ltac:(lia) ltac:(lia) Hlo) as (r & Er & P1 & P2 & P3).
          + intros m H1 H2. destruct (q m) eqn:Eq; [|reflexivity].
            rewrite (q_mono mid m H1 H2 Eq) in Hqm. discriminate.
          + exists r. split; [exact Er|]. unfold search_post. repeat split; auto; lia.
        - (* low = mid + 1 *)
          assert (Hqm : q mid = true) by (rewrite Hq; apply Z.leb_le; lia).
          replace (Z.of_nat mid + 1) with (Z.of_nat (S mid)) by lia.
          destruct (IH (S mid) hi ltac:(lia) ltac:(lia) ltac:(lia)) as (r & Er & P1 & P2 & P3); auto.
          + intros m H1. apply (q_mono m mid); auto; lia.
          + exists r. split; [exact Er|]. unfold search_post. repeat split; auto; lia.
      Qed.

      Lemma std_loop_spec : strict = true -> forall fuel lo hi,
        (lo <= hi)%nat -> (hi <= length sl)%nat -> (fuel > hi - lo)%nat ->
        (forall m, (m < lo)%nat -> q m = true) ->
        (forall m, (hi <= m)%nat -> (m < length sl)%nat -> q m = false) ->
        exists r, std_binsearch_loop T cmp g fuel vs (map Z.of_nat sl) target (Z.of_nat lo) (Z.of_nat hi)
                  = Some (Z.of_nat r) /\ search_post lo hi r.
      Proof.
        intros Hs. induction fuel as [|fuel IH]; intros lo hi Hlh Hhi Hf Hlo Hhigh; [lia|].
        cbn [std_binsearch_loop].
        destruct (Z.ltb_spec (Z.of_nat lo) (Z.of_nat hi)) as [Hlt|Hge].
        2:{ exists lo. split; [reflexivity|]. unfold search_post. repeat split; auto; try lia.
            intros m H1 H2. apply Hhigh; lia. }
        assert (Hlt' : (lo < hi)%nat) by lia. destruct (mid_facts lo hi Hlt') as [M1 M2].
        set (mid := ((lo + hi) / 2)%nat) in *.
        assert (Emid : Z.shiftr (Z.of_nat lo + Z.of_nat hi) 1 = Z.of_nat mid).
        { rewrite Z.shiftr_div_pow2 by lia. change (2 ^ 1) with 2.
          unfold mid. rewrite (Nat2Z.inj_div _ 2), Nat2Z.inj_add. reflexivity. }
        rewrite Emid, znth_map_of_nat by lia.
        rewrite key_cmp_vs by (apply sl_lt; lia).
        assert (Hq : q mid = (cmp (V (nth mid sl 0%nat)) target <? 0)) by (unfold follows; now rewrite Hs).
        rewrite <- Hq. destruct (q mid) eqn:Hqm.
        - replace (Z.of_nat mid + 1) with (Z.of_nat (S mid)) by lia.
          destruct (IH (S mid) hi ltac:(lia) ltac:(lia) ltac:(lia)) as (r & Er & P1 & P2 & P3); auto.
          + intros m H1. apply (q_mono m mid); auto; lia.
          + exists r. split; [exact Er|]. unfold search_post. repeat split; auto; lia.
        - destruct (IH lo mid ltac:(lia) ltac:(lia) ltac:(lia) Hlo) as (r & Er & P1 & P2 & P3).
          + intros m H1 H2. destruct (q m) eqn:Eq; [|reflexivity].
            rewrite (q_mono mid m H1 H2 Eq) in Hqm. discriminate.
          + exists r. split; [exact Er|]. unfold search_post. repeat split; auto; lia.
      Qed.

    End Search.

    (* what the proof needs of the standard library's search: on a slice whose comparison results
       against the target are monotone it returns the boundary *)
    Definition std_ok (std : std_search T) : Prop :=
      forall sl target,
        (forall m, (m < length sl)%nat -> (nth m sl 0 < N)%nat) ->
        (forall a b, (a <= b)%nat -> (b < length sl)%nat ->
                     fol (V (nth b sl 0%nat)) target = true -> fol (V (nth a sl 0%nat)) target = true) ->
        exists r, std vs (map Z.of_nat sl) target = Some (Z.of_nat r)
                  /\ search_post sl target 0 (length sl) r.

    Lemma std_binsearch_ok : strict = true -> std_ok (std_binsearch T cmp g).
    Proof.
      intros Hs sl target Hlt Hmono. unfold std_binsearch, zlen. rewrite map_length.
      change 0 with (Z.of_nat 0).
      apply std_loop_spec; auto; try lia; intros; lia.
    Qed.

    (* the boundary is unique *)
    Lemma search_post_unique : forall sl target r r',
      search_post sl target 0 (length sl) r -> search_post sl target 0 (length sl) r' -> r = r'.
    Proof.
      intros sl target r r' (A1 & A2 & A3) (B1 & B2 & B3).
      destruct (Nat.lt_trichotomy r r') as [H|[H|H]]; [|exact H|].
      - pose proof (B2 r H) as X. rewrite (A3 r (le_n _) ltac:(lia)) in X. discriminate.
      - pose proof (A2 r' H) as X. rewrite (B3 r' (le_n _) ltac:(lia)) in X. discriminate.
    Qed.

    Variable std : std_search T.
    Hypothesis Hstd : strict = true -> std_ok std.

    Lemma search_spec : forall sl target,
      (forall m, (m < length sl)%nat -> (nth m sl 0 < N)%nat) ->
      (forall a b, (a <= b)%nat -> (b < length sl)%nat ->
                   fol (V (nth b sl 0%nat)) target = true -> fol (V (nth a sl 0%nat)) target = true) ->
      exists r, search T cmp std g vs (map Z.of_nat sl) target = Some (Z.of_nat r)
                /\ search_post sl target 0 (length sl) r.
    Proof.
      intros sl target sl_lt q_mono.
      unfold search. rewrite (ok_nsearch _ _ Hg), (ok_right _ _ Hg). cbn [Z.eqb Pos.eqb].
      destruct (Bool.bool_dec strict true) as [Hs|Hs];
        [|apply Bool.not_true_is_false in Hs]; rewrite Hs; cbn [negb].
      - apply (Hstd Hs); assumption.
      - unfold bisect_right, zlen, bis_ln, bis_low0, bis_high0. rewrite map_length.
        change 0 with (Z.of_nat 0).
        apply bisect_loop_spec; auto; try lia; intros; lia.
    Qed.

    (* ---- chains through prev ---- *)
    Inductive GoodChain (prev : list Z) : nat -> list T -> Prop :=
    | gc_first : forall idx, (idx < N)%nat -> GoodChain prev idx [V idx]
    | gc_next : forall idx p s,
        nth_error prev idx = Some (Z.of_nat p) -> (p < idx)%nat -> (idx < N)%nat ->
        GoodChain prev p s -> fol (V p) (V idx) = true ->
        GoodChain prev idx (s ++ [V idx]).

    Lemma gc_last : forall prev idx s, GoodChain prev idx s -> s <> [] /\ last s d = V idx.
    Proof.
      induction 1; split; try congruence; try reflexivity.
      - intros E. apply app_eq_nil in E. destruct E; discriminate.
      - apply last_last.
    Qed.

    Lemma gc_sub : forall prev idx s, GoodChain prev idx s -> Subseq s (firstn (S idx) vs).
    Proof.
      induction 1 as [idx Hi | idx p s Hp Hlt Hi Hc IH Hf].
      - rewrite (firstn_snoc_nth vs idx d Hi). apply SubseqR_app_l. apply Subseq_refl.
      - rewrite (firstn_snoc_nth vs idx d Hi). apply SubseqR_snoc; [|reflexivity].
        apply (Subseq_firstn_mono s vs (S p) idx); [lia | exact IH].
    Qed.

    Lemma gc_ord : forall prev idx s, GoodChain prev idx s -> ordered_b T cmp strict s = true.
    Proof.
      induction 1 as [idx Hi | idx p s Hp Hlt Hi Hc IH Hf]; [reflexivity|].
      destruct (gc_last _ _ _ Hc) as [Hne Hl].
      apply (ordered_snoc s (V idx) d Hne). split; [exact IH|]. now rewrite Hl.
    Qed.

    Lemma gc_frame : forall prev prev' n idx s, GoodChain prev idx s -> (idx < n)%nat ->
      (forall j, j <> n -> nth_error prev' j = nth_error prev j) -> GoodChain prev' idx s.
    Proof.
      intros prev prev' n idx s H. induction H as [idx Hi | idx p s Hp Hlt Hi Hc IH Hf]; intros Hn Hfr.
      - now apply gc_first.
      - apply gc_next with p; auto.
        + rewrite Hfr by lia. exact Hp.
        + apply IH; [lia | exact Hfr].
    Qed.

    Lemma back_walk_spec : forall prev, length prev = N -> forall idx s, GoodChain prev idx s ->
      forall (done : list T),
        back_walk T g (length s) vs prev (Z.of_nat (length done))
                  (repeat None (length s) ++ map Some done) (Z.of_nat idx)
        = Some (map Some (s ++ done)).
    Proof.
      intros prev Hpl idx s H. induction H as [idx Hi | idx p s Hp Hlt Hi Hc IH Hf]; intros done.
      - cbn [length back_walk repeat app]. rewrite (znth_vs idx Hi), (ok_ret_idx _ _ Hg).
        unfold zlen. cbn [length]. rewrite map_length.
        replace (Z.of_nat (S (length done)) - 1 - Z.of_nat (length done)) with (Z.of_nat 0) by lia.
        rewrite zupd_nat. cbn [upd_nat]. rewrite znth_nat.
        destruct (nth_error_some_lt prev idx ltac:(lia)) as [z ->]. reflexivity.
      - rewrite app_length. cbn [length]. rewrite Nat.add_1_r. cbn [back_walk].
        rewrite (znth_vs idx Hi), (ok_ret_idx _ _ Hg).
        unfold zlen. rewrite app_length, repeat_length, map_length.
        replace (Z.of_nat (S (length s) + length done) - 1 - Z.of_nat (length done))
          with (Z.of_nat (length s)) by lia.
        rewrite zupd_nat, repeat_snoc, <- app_assoc. cbn [app].
        rewrite (upd_nat_middle' _ _ _ _ (length s)) by (now rewrite repeat_length).
        rewrite znth_nat, Hp.
        replace (Z.of_nat (length done) + 1) with (Z.of_nat (length (V idx :: done))) by (cbn [length]; lia).
        change (Some (V idx) :: map Some done) with (map Some (V idx :: done)).
        rewrite IH, <- app_assoc. reflexivity.
    Qed.

    (* ---- the invariant ---- *)
    Record Inv (n : nat) (tl : list nat) (prev : list Z) : Prop := {
      inv_n : (1 <= n <= N)%nat;
      inv_ne : (1 <= length tl)%nat;
      inv_lt : forall m, (m < length tl)%nat -> (nth m tl 0 < n)%nat;
      inv_prev : length prev = N;
      inv_mono : forall a b, (a < b)%nat -> (b < length tl)%nat ->
                             fol (V (nth a tl 0%nat)) (V (nth b tl 0%nat)) = true;
      inv_chains : forall m, (m < length tl)%nat ->
                             exists s, GoodChain prev (nth m tl 0%nat) s /\ length s = S m;
      inv_dom : forall t, t <> [] -> Subseq t (firstn n vs) -> ordered_b T cmp strict t = true ->
                          (length t <= length tl)%nat /\
                          cmp (V (nth (length t - 1) tl 0%nat)) (last t d) <= 0
    }.

    Lemma inv_step : forall n tl prev r prev',
      Inv n tl prev -> (n < N)%nat -> (r <= length tl)%nat ->
      (forall m, (m < r)%nat -> fol (V (nth m tl 0%nat)) (V n) = true) ->
      (forall m, (r <= m)%nat -> (m < length tl)%nat -> fol (V (nth m tl 0%nat)) (V n) = false) ->
      length prev' = N ->
      (forall j, j <> n -> nth_error prev' j = nth_error prev j) ->
      ((0 < r)%nat -> nth_error prev' n = Some (Z.of_nat (nth (r - 1) tl 0%nat))) ->
      Inv (S n) (tl_upd tl r n) prev'.
    Proof.
      intros n tl prev r prev' I Hn Hr Hbefore Hafter Hpl Hframe Hlink.
      destruct I as [In Ine Ilt Iprev Imono Ichains Idom].
      pose proof (tl_upd_length tl r n Hr) as Hlen.
      assert (Hnth : forall m, nth m (tl_upd tl r n) 0%nat = if (m =? r)%nat then n else nth m tl 0%nat)
        by (intros; now apply tl_upd_nth).
      split.
      - lia.
      - lia.
      - intros m Hm. rewrite Hnth. destruct (Nat.eqb_spec m r); [lia|].
        assert (m < length tl)%nat by lia. specialize (Ilt m ltac:(lia)). lia.
      - exact Hpl.
      - intros a b Hab Hb. rewrite !Hnth.
        destruct (Nat.eqb_spec a r) as [->|Ha]; destruct (Nat.eqb_spec b r) as [->|Hb'].
        + lia.
        + apply (nfol_fol (V (nth r tl 0%nat))).
          * apply Hafter; lia.
          * apply Imono; lia.
        + apply Hbefore; lia.
        + apply Imono; lia.
      - intros m Hm. rewrite Hnth. destruct (Nat.eqb_spec m r) as [->|Hmr].
        + destruct r as [|r'].
          * exists [V n]. split; [now apply gc_first | reflexivity].
          * destruct (Ichains r' ltac:(lia)) as (s & Hc & Hs).
            exists (s ++ [V n]). split.
            -- apply gc_next with (p := nth r' tl 0%nat).
               ++ rewrite Hlink by lia. now replace (S r' - 1)%nat with r' by lia.
               ++ apply Ilt; lia.
               ++ exact Hn.
               ++ apply (gc_frame prev prev' n); auto; apply Ilt; lia.
               ++ apply Hbefore; lia.
            -- rewrite app_length; cbn; lia.
        + destruct (Ichains m ltac:(lia)) as (s & Hc & Hs). exists s. split; [|exact Hs].
          apply (gc_frame prev prev' n); auto; apply Ilt; lia.
      - intros t Hne Hsub Hord.
        rewrite (firstn_snoc_nth vs n d Hn) in Hsub.
        destruct (SubseqR_snoc_inv _ _ _ _ Hsub) as [Hold | (t' & x & -> & Hx & Hold)].
        + (* t does not use position n *)
          destruct (Idom t Hne Hold Hord) as [Hl Hd]. split; [lia|].
          rewrite Hnth. destruct (Nat.eqb_spec (length t - 1) r) as [E|E]; [|exact Hd].
          assert (length t >= 1)%nat by (destruct t; [congruence | cbn; lia]).
          rewrite E in Hd. eapply cmp_trans; [|exact Hd]. apply nfol_le. apply Hafter; lia.
        + (* t = t' ++ [V n] *)
          subst x. rewrite app_length. cbn [length]. rewrite last_last.
          replace (length t' + 1 - 1)%nat with (length t') by lia. rewrite Hnth.
          destruct t' as [|y t''].
          * cbn [length]. split; [lia|]. destruct (Nat.eqb_spec 0 r) as [E|E]; [apply le_refl|].
            apply fol_le. apply Hbefore. lia.
          * set (t' := y :: t'') in *. assert (Hne' : t' <> []) by (unfold t'; congruence).
            apply (ordered_snoc t' (V n) d Hne') in Hord. destruct Hord as [Hord' Hlast].
            destruct (Idom t' Hne' Hold Hord') as [Hl Hd].
            assert (Hk : (length t' >= 1)%nat) by (unfold t'; cbn; lia).
            pose proof (le_fol_trans _ _ _ Hd Hlast) as Hf.
            assert (Hkr : (length t' - 1 < r)%nat).
            { destruct (Nat.lt_ge_cases (length t' - 1) r) as [|Hge]; [assumption|].
              rewrite (Hafter (length t' - 1)%nat Hge ltac:(lia)) in Hf. discriminate. }
            split; [lia|]. destruct (Nat.eqb_spec (length t') r) as [E|E]; [apply le_refl|].
            apply fol_le. apply Hbefore. lia.
    Qed.

    (* ---- one iteration of the model establishes the invariant for one more element ---- *)
    Lemma zlen_map : forall tl : list nat, zlen (map Z.of_nat tl) = Z.of_nat (length tl).
    Proof. intros; unfold zlen; now rewrite map_length. Qed.

    Lemma step_spec : forall n tl prev, Inv n tl prev -> (n < N)%nat ->
      exists tl' prev', step T cmp std g vs (Z.of_nat n - 1) (map Z.of_nat tl, prev)
                        = Some (map Z.of_nat tl', prev') /\ Inv (S n) tl' prev'.
    Proof.
      intros n tl prev I Hn. pose proof I as [In Ine Ilt Iprev Imono Ichains Idom].
      unfold step. rewrite (ok_i_incr _ _ Hg), (ok_best_idx _ _ Hg), zlen_map.
      replace (Z.of_nat n - 1 + 1) with (Z.of_nat n) by lia.
      set (L := length tl) in *.
      replace (Z.of_nat L - 1) with (Z.of_nat (L - 1)) by lia.
      rewrite znth_map_of_nat by lia.
      set (best := nth (L - 1) tl 0%nat).
      assert (Hbest : (best < n)%nat) by (apply Ilt; lia).
      rewrite (znth_vs n Hn), (znth_vs best ltac:(lia)).
      rewrite (ok_fast_arg0 _ _ Hg), (ok_fast_arg1 _ _ Hg).
      change (cmp_sel T cmp 0 1 (V n) (V best)) with (Some (cmp (V n) (V best))). cbv beta iota.
      rewrite (fast_is_fol g Hg).
      destruct (fol (V best) (V n)) eqn:Ef.
      - (* fast path: append *)
        rewrite zupd_nat. destruct (upd_nat_some prev n (Z.of_nat best) ltac:(lia)) as [prev' E].
        rewrite E. destruct (upd_nat_spec _ _ _ _ E) as (Pl & Pn & Po).
        exists (tl ++ [n]), prev'. split.
        + rewrite map_app. reflexivity.
        + rewrite tl_upd_app. apply (inv_step n tl prev (length tl) prev' I Hn (le_n _)).
          * intros m Hm. destruct (Nat.eq_dec m (L - 1)) as [->|Hne]; [exact Ef|].
            apply (fol_trans _ (V best)); [|exact Ef]. apply Imono; lia.
          * intros; lia.
          * lia.
          * exact Po.
          * intros _. rewrite Pn. reflexivity.
      - (* search and replace *)
        assert (Hhi : exists K, (K = L - 1 \/ K = L)%nat /\ g_search_hi g (Z.of_nat L) = Z.of_nat K).
        { destruct (ok_search_hi _ _ Hg) as [E|E]; rewrite E.
          - exists (L - 1)%nat. split; [now left | lia].
          - exists L. split; [now right | reflexivity]. }
        destruct Hhi as (K & HK & EK).
        unfold zslice_hi. rewrite zlen_map. fold L. rewrite EK.
        destruct (Z.ltb_spec (Z.of_nat K) 0) as [|_]; [lia|].
        destruct (Z.ltb_spec (Z.of_nat L) (Z.of_nat K)) as [|_]; [lia|]. cbn [orb].
        rewrite Nat2Z.id, firstn_map.
        set (sl := firstn K tl).
        assert (Hsl_len : length sl = K) by (unfold sl; rewrite firstn_length; lia).
        assert (Hsl_nth : forall m, (m < K)%nat -> nth m sl 0%nat = nth m tl 0%nat)
          by (intros; unfold sl; now apply nth_firstn_lt).
        destruct (search_spec sl (V n)) as (r & Es & (R1 & R2 & R3)).
        { intros m Hm. rewrite Hsl_nth by lia. specialize (Ilt m ltac:(lia)). lia. }
        { intros a b Hab Hb Hq. rewrite Hsl_len in Hb. rewrite Hsl_nth in * by lia.
          destruct (Nat.eq_dec a b) as [->|]; [exact Hq|].
          apply (fol_trans _ (V (nth b tl 0%nat))); [|exact Hq]. apply Imono; lia. }
        rewrite Es, (ok_first _ _ Hg), (ok_pred_idx _ _ Hg), (ok_repl_idx _ _ Hg).
        rewrite Hsl_len in R1, R3.
        assert (Hr_lt : (r < L)%nat).
        { destruct (Nat.lt_ge_cases r L) as [|Hge]; [assumption|]. exfalso.
          assert (EKL : K = L) by lia.
          pose proof (R2 (L - 1)%nat ltac:(lia)) as X. rewrite Hsl_nth in X by lia.
          fold best in X. rewrite Ef in X. discriminate. }
        assert (Hpv : exists pv,
          (if Z.of_nat r =? 0 then Some (g_neg1 g) else znth (map Z.of_nat tl) (Z.of_nat r - 1)) = Some pv
          /\ ((0 < r)%nat -> pv = Z.of_nat (nth (r - 1) tl 0%nat))).
        { destruct r as [|r'].
          - exists (g_neg1 g). split; [reflexivity | lia].
          - replace (Z.of_nat (S r') =? 0) with false by (symmetry; apply Z.eqb_neq; lia).
            replace (Z.of_nat (S r') - 1) with (Z.of_nat r') by lia.
            rewrite znth_map_of_nat by lia. eexists; split; [reflexivity|].
            intros _. now replace (S r' - 1)%nat with r' by lia. }
        destruct Hpv as (pv & -> & Hpv).
        rewrite zupd_nat. destruct (upd_nat_some prev n pv ltac:(lia)) as [prev' E].
        rewrite E. destruct (upd_nat_spec _ _ _ _ E) as (Pl & Pn & Po).
        rewrite zupd_nat, upd_nat_tl_upd by lia.
        exists (tl_upd tl r n), prev'. split; [reflexivity|].
        apply (inv_step n tl prev r prev' I Hn ltac:(lia)).
        + intros m Hm. rewrite <- Hsl_nth by lia. now apply R2.
        + intros m H1 H2. destruct (Nat.eq_dec m (L - 1)) as [->|Hne]; [exact Ef|].
          rewrite <- Hsl_nth by lia. apply R3; lia.
        + lia.
        + exact Po.
        + intros Hr. rewrite Pn, Hpv by lia. reflexivity.
    Qed.

    Lemma main_loop_spec : forall rng n tl prev, Inv n tl prev -> length rng = (N - n)%nat ->
      exists tl' prev', main_loop T cmp std g vs rng (Z.of_nat n - 1) (map Z.of_nat tl, prev)
                        = Some (map Z.of_nat tl', prev') /\ Inv N tl' prev'.
    Proof.
      induction rng as [|x rng IH]; intros n tl prev I Hl; cbn [main_loop length] in *.
      - exists tl, prev. split; [reflexivity|]. pose proof (inv_n _ _ _ I).
        replace N with n by lia. exact I.
      - pose proof (inv_n _ _ _ I). destruct (step_spec n tl prev I ltac:(lia)) as (tl1 & prev1 & E & I1).
        rewrite E. replace (Z.of_nat n - 1 + 1) with (Z.of_nat (S n) - 1) by lia.
        apply IH; [exact I1 | lia].
    Qed.

    Lemma init_spec : (1 <= N)%nat ->
      exists prev0, init_state T g vs = Some (map Z.of_nat [0%nat], prev0) /\ Inv 1 [0%nat] prev0.
    Proof.
      intros HN. unfold init_state.
      rewrite (ok_tails_len0 _ _ Hg), (ok_prev_len _ _ Hg), (ok_prev0_idx _ _ Hg),
        (ok_tails0_idx _ _ Hg), (ok_tails0_val _ _ Hg).
      unfold zlen. rewrite Nat2Z.id. change (Z.to_nat 1) with 1%nat. cbn [repeat].
      change (zupd (repeat 0 N) 0 (g_prev0_val g)) with (upd_nat (repeat 0 N) 0 (g_prev0_val g)).
      destruct (upd_nat_some (repeat 0 N) 0%nat (g_prev0_val g)) as [prev0 E];
        [rewrite repeat_length; lia|].
      rewrite E. destruct (upd_nat_spec _ _ _ _ E) as (Pl & _ & _). rewrite repeat_length in Pl.
      exists prev0. split; [reflexivity|]. split.
      - lia.
      - cbn; lia.
      - intros m Hm. cbn in Hm. destruct m; cbn; lia.
      - exact Pl.
      - intros a b Hab Hb. cbn in Hb. lia.
      - intros m Hm. cbn in Hm. replace m with 0%nat by lia. exists [V 0%nat].
        split; [apply gc_first; lia | reflexivity].
      - intros t Hne Hsub _. rewrite (firstn_snoc_nth vs 0 d HN) in Hsub. cbn [firstn app] in Hsub.
        destruct (Subseq_singleton _ _ Hsub) as [->| ->]; [congruence|].
        cbn [length last Nat.sub nth]. split; [lia | apply le_refl].
    Qed.

    Theorem run_nonempty : (1 <= N)%nat ->
      exists s, run_func T cmp std g vs = Some s /\ Subseq s vs /\ ordered_b T cmp strict s = true /\
        forall t, Subseq t vs -> ordered_b T cmp strict t = true -> (length t <= length s)%nat.
    Proof.
      intros HN. unfold run_func. rewrite (ok_empty _ _ Hg).
      replace (zlen vs =? 0) with false by (symmetry; apply Z.eqb_neq; unfold zlen; lia).
      destruct (init_spec HN) as (prev0 & -> & I0).
      rewrite (ok_range_lo _ _ Hg). unfold zslice_lo.
      destruct (Z.ltb_spec 1 0) as [|_]; [lia|].
      destruct (Z.ltb_spec (zlen vs) 1) as [Hc|_]; [unfold zlen in Hc; lia|]. cbn [orb].
      change (Z.to_nat 1) with 1%nat.
      destruct (main_loop_spec (skipn 1 vs) 1 [0%nat] prev0 I0) as (tl & prev & E & I).
      { rewrite skipn_length. reflexivity. }
      change (Z.of_nat 1 - 1) with 0 in E. rewrite E.
      destruct I as [In Ine Ilt Iprev Imono Ichains Idom].
      rewrite (ok_ret_len _ _ Hg), (ok_start_idx _ _ Hg), zlen_map, Nat2Z.id.
      replace (Z.of_nat (length tl) - 1) with (Z.of_nat (length tl - 1)) by lia.
      rewrite znth_map_of_nat by lia. rewrite repeat_length.
      destruct (Ichains (length tl - 1)%nat ltac:(lia)) as (s & Hc & Hs).
      replace (S (length tl - 1)) with (length tl) in Hs by lia.
      pose proof (back_walk_spec prev Iprev _ _ Hc []) as W. cbn [length map] in W.
      rewrite app_nil_r, app_nil_r, Hs in W. change (Z.of_nat 0) with 0 in W.
      rewrite W, all_some_map.
      exists s. split; [reflexivity|]. split; [|split].
      - pose proof (gc_sub _ _ _ Hc) as Hsub.
        apply (Subseq_firstn_mono s vs _ N) in Hsub.
        + now rewrite firstn_all in Hsub.
        + specialize (Ilt (length tl - 1)%nat ltac:(lia)). lia.
      - exact (gc_ord _ _ _ Hc).
      - intros t Ht Hord. destruct t as [|y t']; [cbn; lia|].
        rewrite <- (firstn_all vs) in Ht.
        destruct (Idom (y :: t') ltac:(congruence) Ht Hord) as [Hl _]. lia.
    Qed.
  End Run.

  (* ---- which implementation of the standard search is used cannot matter ---- *)
  Section Irrelevance.
    Variable g : lis_gen.
    Hypothesis Hg : gen_ok g strict.
    Variable vs : list T.
    Variable d : T.
    Variables std1 std2 : std_search T.
    Hypothesis Hstd1 : strict = true -> std_ok vs d std1.
    Hypothesis Hstd2 : strict = true -> std_ok vs d std2.
    Notation N := (length vs).
    Notation V j := (nth j vs d).

    Lemma search_irrel : forall sl target,
      (forall m, (m < length sl)%nat -> (nth m sl 0 < N)%nat) ->
      (forall a b, (a <= b)%nat -> (b < length sl)%nat ->
                   fol (V (nth b sl 0%nat)) target = true -> fol (V (nth a sl 0%nat)) target = true) ->
      search T cmp std1 g vs (map Z.of_nat sl) target = search T cmp std2 g vs (map Z.of_nat sl) target.
    Proof.
      intros sl target Hlt Hmono.
      destruct (search_spec g Hg vs d std1 Hstd1 sl target Hlt Hmono) as (r1 & E1 & P1).
      destruct (search_spec g Hg vs d std2 Hstd2 sl target Hlt Hmono) as (r2 & E2 & P2).
      rewrite E1, E2. now rewrite (search_post_unique vs d sl target r1 r2 P1 P2).
    Qed.

    Lemma step_irrel : forall n tl prev, Inv vs d n tl prev -> (n < N)%nat ->
      step T cmp std1 g vs (Z.of_nat n - 1) (map Z.of_nat tl, prev)
      = step T cmp std2 g vs (Z.of_nat n - 1) (map Z.of_nat tl, prev).
    Proof.
      intros n tl prev I Hn. pose proof I as [In Ine Ilt Iprev Imono Ichains Idom].
      unfold step. rewrite (ok_i_incr _ _ Hg).
      replace (Z.of_nat n - 1 + 1) with (Z.of_nat n) by lia.
      destruct (znth (map Z.of_nat tl) _) as [best|]; [|reflexivity].
      rewrite (znth_vs vs d n Hn).
      destruct (znth vs best) as [vb|]; [|reflexivity].
      destruct (cmp_sel T cmp _ _ _ _) as [c0|]; [|reflexivity].
      destruct (g_fast_cond g _); [reflexivity|].
      destruct (zslice_hi _ _) as [sub|] eqn:Esub; [|reflexivity].
      assert (Hsub : exists K, (K <= length tl)%nat /\ sub = map Z.of_nat (firstn K tl)).
      { unfold zslice_hi in Esub. rewrite zlen_map in Esub.
        destruct ((g_search_hi g (Z.of_nat (length tl)) <? 0) || _) eqn:Eb; [discriminate|].
        apply orb_false_elim in Eb. destruct Eb as [Eb1 Eb2].
        apply Z.ltb_ge in Eb1, Eb2.
        inversion Esub; subst sub. exists (Z.to_nat (g_search_hi g (Z.of_nat (length tl)))).
        split; [lia | now rewrite firstn_map]. }
      destruct Hsub as (K & HK & ->).
      assert (Hsl_nth : forall m, (m < K)%nat -> nth m (firstn K tl) 0%nat = nth m tl 0%nat)
        by (intros; now apply nth_firstn_lt).
      assert (Hsl_len : length (firstn K tl) = K) by (rewrite firstn_length; lia).
      rewrite (search_irrel (firstn K tl) (V n)); [reflexivity| |].
      - intros m Hm. rewrite Hsl_len in Hm. rewrite Hsl_nth by lia.
        specialize (Ilt m ltac:(lia)). lia.
      - intros a b Hab Hb Hq. rewrite Hsl_len in Hb. rewrite Hsl_nth in * by lia.
        destruct (Nat.eq_dec a b) as [->|]; [exact Hq|].
        apply (fol_trans _ (V (nth b tl 0%nat))); [|exact Hq]. apply Imono; lia.
    Qed.

    Lemma main_loop_irrel : forall rng n tl prev, Inv vs d n tl prev -> length rng = (N - n)%nat ->
      main_loop T cmp std1 g vs rng (Z.of_nat n - 1) (map Z.of_nat tl, prev)
      = main_loop T cmp std2 g vs rng (Z.of_nat n - 1) (map Z.of_nat tl, prev).
    Proof.
      induction rng as [|x rng IH]; intros n tl prev I Hl; cbn [main_loop length] in *; [reflexivity|].
      pose proof (inv_n _ _ _ _ _ I).
      rewrite (step_irrel n tl prev I ltac:(lia)).
      destruct (step_spec g Hg vs d std2 Hstd2 n tl prev I ltac:(lia)) as (tl1 & prev1 & E & I1).
      rewrite E. replace (Z.of_nat n - 1 + 1) with (Z.of_nat (S n) - 1) by lia.
      apply IH; [exact I1 | lia].
    Qed.

    Lemma run_nonempty_irrel : (1 <= N)%nat ->
      run_func T cmp std1 g vs = run_func T cmp std2 g vs.
    Proof.
      intros HN. unfold run_func. destruct (g_empty_cond g (zlen vs)); [reflexivity|].
      destruct (init_spec g Hg vs d HN) as (prev0 & -> & I0).
      rewrite (ok_range_lo _ _ Hg). unfold zslice_lo.
      destruct ((1 <? 0) || (zlen vs <? 1)); [reflexivity|].
      change (Z.to_nat 1) with 1%nat. change 0 with (Z.of_nat 1 - 1).
      rewrite (main_loop_irrel (skipn 1 vs) 1 [0%nat] prev0 I0); [reflexivity|].
      rewrite skipn_length. reflexivity.
    Qed.
  End Irrelevance.

  Theorem run_func_irrel : forall g std1 std2, gen_ok g strict ->
    (strict = true -> forall vs d, std_ok vs d std1) ->
    (strict = true -> forall vs d, std_ok vs d std2) ->
    forall vs, run_func T cmp std1 g vs = run_func T cmp std2 g vs.
  Proof.
    intros g std1 std2 Hg H1 H2 vs. destruct vs as [|x vs'].
    - unfold run_func. rewrite (ok_empty _ _ Hg). reflexivity.
    - apply (run_nonempty_irrel g Hg (x :: vs') x std1 std2); [| |cbn; lia].
      + intros Hs. apply H1. exact Hs.
      + intros Hs. apply H2. exact Hs.
  Qed.

  (* ---- for every input ---- *)
  Theorem run_func_spec : forall g std, gen_ok g strict ->
    (strict = true -> forall vs d, std_ok vs d std) -> forall vs,
    exists s, run_func T cmp std g vs = Some s /\ Subseq s vs /\ ordered_b T cmp strict s = true /\
      forall t, Subseq t vs -> ordered_b T cmp strict t = true -> (length t <= length s)%nat.
  Proof.
    intros g std Hg Hstd vs. destruct vs as [|x vs'].
    - exists []. unfold run_func. rewrite (ok_empty _ _ Hg). cbn. repeat split.
      + apply sr_nil.
      + intros t Ht _. apply SubseqR_nil_r in Ht. subst. cbn; lia.
    - apply (run_nonempty g Hg (x :: vs') x std); [|cbn; lia].
      intros Hs. apply Hstd. exact Hs.
  Qed.
End LisProofs.

(* ---- the documented contract of slices.BinarySearchFunc is all the proof needs ---- *)
Lemma first_nonneg_le : forall ks, (first_nonneg ks <= length ks)%nat.
Proof. induction ks as [|k ks IH]; cbn; [lia|]. destruct (k <? 0); cbn; lia. Qed.

Lemma first_nonneg_before : forall ks m, (m < first_nonneg ks)%nat ->
  exists k, nth_error ks m = Some k /\ k < 0.
Proof.
  induction ks as [|k ks IH]; intros m Hm; cbn in Hm; [lia|].
  destruct (Z.ltb_spec k 0) as [Hk|Hk]; [|lia].
  destruct m; [exists k; split; [reflexivity | exact Hk]|]. cbn. apply IH. lia.
Qed.

Lemma first_nonneg_at : forall ks, (first_nonneg ks < length ks)%nat ->
  exists k, nth_error ks (first_nonneg ks) = Some k /\ 0 <= k.
Proof.
  induction ks as [|k ks IH]; cbn; intros H; [lia|].
  destruct (Z.ltb_spec k 0) as [Hk|Hk].
  - cbn. apply IH. lia.
  - exists k. split; [reflexivity | exact Hk].
Qed.

Section Contract.
  Variable T : Type.
  Variable cmp : T -> T -> Z.
  Variable vs : list T.
  Variable d : T.
  Variable g : lis_gen.
  Variable strict0 : bool.
  Hypothesis Hg : gen_ok g strict0.

  Lemma all_some_keys : forall (tg : T) (sl : list nat),
    (forall m, (m < length sl)%nat -> (nth m sl 0 < length vs)%nat) ->
    all_some (map (fun idx => key_cmp T cmp g vs idx tg) (map Z.of_nat sl))
    = Some (map (fun x => cmp (nth x vs d) tg) sl).
  Proof.
    intros tg sl Hlt. induction sl as [|x sl IH]; [reflexivity|].
    cbn [map all_some]. rewrite (key_cmp_vs T cmp strict0 g Hg vs d x tg) by (apply (Hlt 0%nat); cbn; lia).
    rewrite IH; [reflexivity|]. intros m Hm. apply (Hlt (S m)). cbn; lia.
  Qed.

  (* every implementation that meets the contract is good enough for the LIS proof *)
  Lemma contract_std_ok : forall impl, bsf_meets_contract impl ->
    std_ok T cmp true vs d (std_of T cmp g impl).
  Proof.
    intros impl Himpl sl tg Hlt Hmono. unfold std_of.
    set (ks := map (fun x => cmp (nth x vs d) tg) sl).
    assert (Hks : forall m, (m < length sl)%nat ->
              nth_error ks m = Some (cmp (nth (nth m sl 0%nat) vs d) tg)).
    { intros m Hm. unfold ks. rewrite nth_error_map, (nth_error_nth' sl 0%nat Hm). reflexivity. }
    assert (Hq : forall m, (m < length sl)%nat ->
              follows T cmp true (nth (nth m sl 0%nat) vs d) tg
              = (cmp (nth (nth m sl 0%nat) vs d) tg <? 0)) by reflexivity.
    assert (Hlen : length ks = length sl) by (unfold ks; apply map_length).
    assert (Hsorted : bsf_sorted ks).
    { intros a b ka kb Ha Hb Hka Hkb.
      assert (La : (a < length sl)%nat) by (rewrite <- Hlen; apply nth_error_Some; congruence).
      assert (Lb : (b < length sl)%nat) by (rewrite <- Hlen; apply nth_error_Some; congruence).
      rewrite (Hks a La) in Ha. rewrite (Hks b Lb) in Hb. inversion Ha; inversion Hb; subst ka kb.
      destruct (Nat.lt_ge_cases a b) as [|Hge]; [assumption|]. exfalso.
      assert (X : follows T cmp true (nth (nth b sl 0%nat) vs d) tg = true).
      { apply (Hmono b a Hge La). rewrite (Hq a La). apply Z.ltb_lt. exact Hka. }
      rewrite (Hq b Lb) in X. apply Z.ltb_lt in X. lia. }
    rewrite (all_some_keys tg sl Hlt). fold ks.
    rewrite (Himpl ks Hsorted). exists (first_nonneg ks). split; [reflexivity|].
    pose proof (first_nonneg_le ks) as Hle. rewrite Hlen in Hle.
    assert (Hbefore : forall m, (m < first_nonneg ks)%nat ->
              follows T cmp true (nth (nth m sl 0%nat) vs d) tg = true).
    { intros m Hm. destruct (first_nonneg_before ks m Hm) as (k & Hk & Hneg).
      assert (Lm : (m < length sl)%nat) by lia. rewrite (Hks m Lm) in Hk. inversion Hk; subst k.
      rewrite (Hq m Lm). apply Z.ltb_lt. exact Hneg. }
    unfold search_post. repeat split; try lia; [exact Hbefore|].
    intros m Hm1 Hm2.
    destruct (follows T cmp true (nth (nth m sl 0%nat) vs d) tg) eqn:Em; [exfalso|reflexivity].
    assert (Lr : (first_nonneg ks < length ks)%nat) by lia.
    destruct (first_nonneg_at ks Lr) as (k & Hk & Hpos).
    rewrite Hlen in Lr. rewrite (Hks _ Lr) in Hk. inversion Hk; subst k.
    pose proof (Hmono _ m Hm1 Hm2 Em) as X. rewrite (Hq _ Lr) in X. apply Z.ltb_lt in X. lia.
  Qed.
End Contract.

(* The go1.23 loop of slices.BinarySearchFunc, run directly on the comparison results, meets the
   contract as formalised in LisSpec (so the contract is satisfiable, and is read the way the
   actual standard library behaves). *)
Definition go123_on_keys (ks : list Z) : option Z :=
  std_binsearch Z (fun k _ => k) lis_gen_ ks (map Z.of_nat (seq 0 (length ks))) 0.

Lemma map_nth_seq_id : forall {A} (l : list A) d, map (fun x => nth x l d) (seq 0 (length l)) = l.
Proof.
  induction l as [|a l IH]; intros d; [reflexivity|].
  cbn [length seq map nth]. f_equal. rewrite <- seq_shift, map_map. apply IH.
Qed.

Lemma linear_scan_meets_contract :
  bsf_meets_contract (fun ks => Some (Z.of_nat (first_nonneg ks))).
Proof. intros ks _. reflexivity. Qed.

Lemma go123_meets_contract : bsf_meets_contract go123_on_keys.
Proof.
  intros ks Hsorted. unfold go123_on_keys.
  set (cmpk := fun k _ : Z => k). set (sl := seq 0 (length ks)).
  assert (Hnth : forall m, (m < length sl)%nat -> nth m sl 0%nat = m).
  { intros m Hm. unfold sl in *. rewrite seq_length in Hm. now rewrite seq_nth. }
  assert (Hlen : length sl = length ks) by (unfold sl; apply seq_length).
  assert (Hlt : forall m, (m < length sl)%nat -> (nth m sl 0 < length ks)%nat).
  { intros m Hm. rewrite (Hnth m Hm). lia. }
  assert (Hmono : forall a b, (a <= b)%nat -> (b < length sl)%nat ->
            follows Z cmpk true (nth (nth b sl 0%nat) ks 0) 0 = true ->
            follows Z cmpk true (nth (nth a sl 0%nat) ks 0) 0 = true).
  { intros a b Hab Hb Hq. rewrite Hnth in * by lia. unfold follows, cmpk in *.
    apply Z.ltb_lt in Hq. apply Z.ltb_lt.
    destruct (Z_lt_ge_dec (nth a ks 0) 0) as [|Hge]; [assumption|]. exfalso.
    assert (b < a)%nat; [|lia].
    apply (Hsorted b a (nth b ks 0) (nth a ks 0)); try lia; apply nth_error_nth'; lia. }
  destruct (std_binsearch_ok Z cmpk true lis_gen_ lis_gen_ok ks 0 eq_refl sl 0 Hlt Hmono) as (r & Er & Pr).
  destruct (contract_std_ok Z cmpk ks 0 lis_gen_ true lis_gen_ok _ linear_scan_meets_contract sl 0 Hlt Hmono)
    as (r' & Er' & Pr').
  rewrite Er. f_equal. f_equal.
  rewrite (search_post_unique Z cmpk true ks 0 sl 0 r r' Pr Pr').
  unfold std_of in Er'. rewrite (all_some_keys Z cmpk ks 0 lis_gen_ true lis_gen_ok 0 sl Hlt) in Er'.
  unfold cmpk, sl in Er'. rewrite map_nth_seq_id in Er'. inversion Er' as [E].
  apply Nat2Z.inj in E. congruence.
Qed.

(* Machine integers: bisectRight computes (low + high) / 2 on uint and the standard library
   int(uint(i+j) >> 1); for every slice length an int can hold the sum stays below 2^64, so the
   unsigned arithmetic does not wrap and the unbounded-Z model is faithful; the midpoint stays
   inside [low, high).  (All other arithmetic in lis.go / LCSFunc is +1 / -1 on values between -1
   and a slice length.) *)
Lemma search_mid_in_range : forall low high n,
  0 <= low -> low < high -> high <= n -> n < 2 ^ 63 ->
  0 <= low + high < 2 ^ 64 /\
  low <= bis_mid low high < high /\
  low <= Z.shiftr (low + high) 1 < high.
Proof.
  intros low high n H0 H1 H2 H3. unfold bis_mid.
  rewrite Z.quot_div_nonneg by lia. rewrite Z.shiftr_div_pow2 by lia. change (2 ^ 1) with 2.
  assert (2 ^ 64 = 2 * 2 ^ 63) by reflexivity.
  pose proof (Z.div_mod (low + high) 2 ltac:(lia)). pose proof (Z.mod_pos_bound (low + high) 2 ltac:(lia)).
  lia.
Qed.

(* ---- the public functions ---- *)
Section Public.
  Variable T : Type.
  Variable cmp : T -> T -> Z.
  Hypothesis cmp_flip : forall a b, Z.sgn (cmp b a) = - Z.sgn (cmp a b).
  Hypothesis cmp_trans : forall a b c, cmp a b <= 0 -> cmp b c <= 0 -> cmp a c <= 0.

  Theorem lnds_func_optimal : forall vs, exists s,
    lnds_func T cmp vs = Some s /\ Subseq s vs /\ ordered_b T cmp false s = true /\
    forall t, Subseq t vs -> ordered_b T cmp false t = true -> (length t <= length s)%nat.
  Proof.
    apply (run_func_spec T cmp cmp_flip cmp_trans false lnds_gen (no_std T) lnds_gen_ok).
    intros; discriminate.
  Qed.

  (* LISFunc over ANY implementation of slices.BinarySearchFunc that meets the documented
     contract *)
  Theorem lis_func_std_optimal : forall impl, bsf_meets_contract impl -> forall vs, exists s,
    lis_func_std T cmp impl vs = Some s /\ Subseq s vs /\ ordered_b T cmp true s = true /\
    forall t, Subseq t vs -> ordered_b T cmp true t = true -> (length t <= length s)%nat.
  Proof.
    intros impl Himpl.
    apply (run_func_spec T cmp cmp_flip cmp_trans true lis_gen_ (std_of T cmp lis_gen_ impl) lis_gen_ok).
    intros _ vs d. apply (contract_std_ok T cmp vs d lis_gen_ true lis_gen_ok). exact Himpl.
  Qed.

  (* ... and every such implementation gives the very same result as the hand copy of the go1.23
     loop (which the correspondence runs compare with the real package) *)
  Theorem lis_func_std_same : forall impl, bsf_meets_contract impl -> forall vs,
    lis_func_std T cmp impl vs = lis_func T cmp vs.
  Proof.
    intros impl Himpl.
    apply (run_func_irrel T cmp cmp_flip cmp_trans true lis_gen_ _ _ lis_gen_ok).
    - intros _ vs d. apply (contract_std_ok T cmp vs d lis_gen_ true lis_gen_ok). exact Himpl.
    - intros _ vs d. apply std_binsearch_ok; [exact lis_gen_ok | reflexivity].
  Qed.

  (* LISFunc over the hand copy of the go1.23 loop *)
  Theorem lis_func_optimal : forall vs, exists s,
    lis_func T cmp vs = Some s /\ Subseq s vs /\ ordered_b T cmp true s = true /\
    forall t, Subseq t vs -> ordered_b T cmp true t = true -> (length t <= length s)%nat.
  Proof.
    apply (run_func_spec T cmp cmp_flip cmp_trans true lis_gen_ (std_binsearch T cmp lis_gen_) lis_gen_ok).
    intros _ vs d. apply std_binsearch_ok; [exact lis_gen_ok | reflexivity].
  Qed.
End Public.
