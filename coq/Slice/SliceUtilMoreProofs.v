(* Specification lemmas for Slice/SliceUtilMoreModel.v (Reverse; Dedup = slices.Compact). *)
From Coq Require Import ZArith List Bool Lia.
Import ListNotations.
From Mds Require Import Slice.SliceUtilModel Slice.SliceUtilMoreModel.
Local Open Scope Z_scope.

Section More.
Context {T : Type}.

Lemma zlen_app (a b : list T) : zlen (a ++ b) = zlen a + zlen b.
Proof. unfold zlen. rewrite app_length. lia. Qed.

Lemma zlen_cons (x : T) (a : list T) : zlen (x :: a) = 1 + zlen a.
Proof. unfold zlen. simpl length. lia. Qed.

Lemma zlen_nonneg (a : list T) : 0 <= zlen a.
Proof. unfold zlen. lia. Qed.

Lemma get_mid (a c : list T) (x : T) i : i = zlen a -> get (a ++ x :: c) i = Ok x.
Proof.
  intros ->. unfold get.
  assert (C : (0 <=? zlen a) && (zlen a <? zlen (a ++ x :: c)) = true).
  { apply andb_true_intro. rewrite zlen_app, zlen_cons. pose proof (zlen_nonneg a). pose proof (zlen_nonneg c).
    split; [apply Z.leb_le|apply Z.ltb_lt]; lia. }
  rewrite C. unfold zlen. rewrite Nat2Z.id, nth_error_app2 by lia. rewrite Nat.sub_diag. reflexivity.
Qed.

Lemma upd_mid (a c : list T) (x y : T) : upd (a ++ x :: c) (length a) y = a ++ y :: c.
Proof. induction a as [|h a IH]; simpl; [reflexivity|]. rewrite IH. reflexivity. Qed.

Lemma set_mid (a c : list T) (x y : T) i : i = zlen a -> set (a ++ x :: c) i y = Ok (a ++ y :: c).
Proof.
  intros ->. unfold set.
  assert (C : (0 <=? zlen a) && (zlen a <? zlen (a ++ x :: c)) = true).
  { apply andb_true_intro. rewrite zlen_app, zlen_cons. pose proof (zlen_nonneg a). pose proof (zlen_nonneg c).
    split; [apply Z.leb_le|apply Z.ltb_lt]; lia. }
  rewrite C. unfold zlen. rewrite Nat2Z.id, upd_mid. reflexivity.
Qed.

(* the loop reverses the part between the two cursors and touches nothing else *)
Lemma reverse_loop_spec : forall (gas : nat) (m a b : list T),
  (gas > length m)%nat ->
  reverse_loop gas (a ++ m ++ b) (zlen a) (zlen a + zlen m - 1) = Ok (a ++ rev m ++ b).
Proof.
  induction gas as [|g IH]; intros m a b Hg; [exfalso; inversion Hg|].
  cbn [reverse_loop].
  destruct m as [|x m1].
  - replace (zlen a <? zlen a + zlen (@nil T) - 1) with false by (symmetry; apply Z.ltb_ge; unfold zlen; simpl; lia).
    reflexivity.
  - destruct (exists_last (l := x :: m1) ltac:(discriminate)) as [m0 [y E]].
    destruct m0 as [|x0 m'].
    + simpl in E. injection E as E1 E2. subst.
      replace (zlen a <? zlen a + zlen [y] - 1) with false by (symmetry; apply Z.ltb_ge; unfold zlen; simpl; lia).
      reflexivity.
    + simpl in E. injection E as E1 E2. subst x0 m1.
      assert (L : zlen (x :: m' ++ [y]) = zlen m' + 2) by (rewrite zlen_cons, zlen_app; change (zlen [y]) with 1; lia).
      rewrite L. pose proof (zlen_nonneg m').
      replace (zlen a <? zlen a + (zlen m' + 2) - 1) with true by (symmetry; apply Z.ltb_lt; lia).
      replace (a ++ (x :: m' ++ [y]) ++ b) with ((a ++ x :: m') ++ y :: b)
        by (rewrite <- !app_assoc; simpl; rewrite <- app_assoc; reflexivity).
      rewrite (get_mid (a ++ x :: m') b y) by (rewrite zlen_app, zlen_cons; lia).
      cbn [bind].
      replace ((a ++ x :: m') ++ y :: b) with (a ++ x :: (m' ++ y :: b)) by (rewrite <- app_assoc; reflexivity).
      rewrite (get_mid a _ x) by reflexivity. cbn [bind].
      rewrite (set_mid a _ x y) by reflexivity. cbn [bind].
      replace (a ++ y :: m' ++ y :: b) with ((a ++ y :: m') ++ y :: b) by (rewrite <- app_assoc; reflexivity).
      rewrite (set_mid (a ++ y :: m') b y x) by (rewrite zlen_app, zlen_cons; lia).
      cbn [bind].
      replace ((a ++ y :: m') ++ x :: b) with ((a ++ [y]) ++ m' ++ ([x] ++ b))
        by (rewrite <- !app_assoc; reflexivity).
      replace (zlen a + 1) with (zlen (a ++ [y])) by (rewrite zlen_app; unfold zlen; simpl; lia).
      replace (zlen a + (zlen m' + 2) - 1 - 1) with (zlen (a ++ [y]) + zlen m' - 1)
        by (rewrite zlen_app; unfold zlen; simpl; lia).
      rewrite IH by (simpl in Hg; rewrite app_length in Hg; simpl in Hg; lia).
      f_equal. simpl rev. rewrite rev_app_distr. simpl.
      rewrite <- !app_assoc. reflexivity.
Qed.

(* Reverse: the reversed list, never a panic, never out of fuel *)
Theorem reverse_impl_spec (s : list T) : reverse_impl s = Ok (rev s).
Proof.
  unfold reverse_impl.
  pose proof (reverse_loop_spec (S (length s)) s [] []) as H.
  rewrite !app_nil_r in H. cbn [app] in H. change (zlen (@nil T)) with 0 in H.
  rewrite Z.add_0_l in H. apply H. lia.
Qed.

Corollary reverse_impl_length (s s' : list T) : reverse_impl s = Ok s' -> length s' = length s.
Proof. rewrite reverse_impl_spec. intros [= <-]. apply rev_length. Qed.

Corollary reverse_impl_involutive (s : list T) :
  bind (reverse_impl s) reverse_impl = Ok s.
Proof. rewrite reverse_impl_spec. cbn [bind]. rewrite reverse_impl_spec, rev_involutive. reflexivity. Qed.

Corollary reverse_impl_nth (s : list T) (i : nat) (d : T) : (i < length s)%nat ->
  exists s', reverse_impl s = Ok s' /\ nth i s' d = nth (length s - S i) s d.
Proof. intros H. exists (rev s). split; [apply reverse_impl_spec|]. apply rev_nth. exact H. Qed.

End More.
