(* Specification lemmas for Slice/SliceUtilMoreModel.v (Reverse; Dedup = slices.Compact). *)
From Coq Require Import ZArith List Bool Lia.
Import ListNotations.
From Mds Require Import Slice.SliceUtilModel Slice.SliceUtilMoreModel.
Local Open Scope Z_scope.

Section More.
Context {T : Type}.

Lemma zlen_app (a b : list T) : zlen (a ++ b) = zlen a + zlen b.
Proof. unfold zlen. rewrite app_length. lia. Qed.

Lemma zlen_cons (x : T) (a : list T) : zlen (x :: a) = 1 + zlen a.
Proof. unfold zlen. simpl length. lia. Qed.

Lemma zlen_nonneg (a : list T) : 0 <= zlen a.
Proof. unfold zlen. lia. Qed.

Lemma get_mid (a c : list T) (x : T) i : i = zlen a -> get (a ++ x :: c) i = Ok x.
Proof.
  intros ->. unfold get.
  assert (C : (0 <=? zlen a) && (zlen a <? zlen (a ++ x :: c)) = true).
  { apply andb_true_intro. rewrite zlen_app, zlen_cons. pose proof (zlen_nonneg a). pose proof (zlen_nonneg c).
    split; [apply Z.leb_le|apply Z.ltb_lt]; lia. }
  rewrite C. unfold zlen. rewrite Nat2Z.id, nth_error_app2 by lia. rewrite Nat.sub_diag. reflexivity.
Qed.

Lemma upd_mid (a c : list T) (x y : T) : upd (a ++ x :: c) (length a) y = a ++ y :: c.
Proof. induction a as [|h a IH]; simpl; [reflexivity|]. rewrite IH. reflexivity. Qed.

Lemma set_mid (a c : list T) (x y : T) i : i = zlen a -> set (a ++ x :: c) i y = Ok (a ++ y :: c).
Proof.
  intros ->. unfold set.
  assert (C : (0 <=? zlen a) && (zlen a <? zlen (a ++ x :: c)) = true).
  { apply andb_true_intro. rewrite zlen_app, zlen_cons. pose proof (zlen_nonneg a). pose proof (zlen_nonneg c).
    split; [apply Z.leb_le|apply Z.ltb_lt]; lia. }
  rewrite C. unfold zlen. rewrite Nat2Z.id, upd_mid. reflexivity.
Qed.

(* the loop reverses the part between the two cursors and touches nothing else *)
Lemma reverse_loop_spec : forall (gas : nat) (m a b : list T),
  (gas > length m)%nat ->
  reverse_loop gas (a ++ m ++ b) (zlen a) (zlen a + zlen m - 1) = Ok (a ++ rev m ++ b).
Proof.
  induction gas as [|g IH]; intros m a b Hg; [exfalso; inversion Hg|].
  cbn [reverse_loop].
  destruct m as [|x m1].
  - replace (zlen a <? zlen a + zlen (@nil T) - 1) with false by (symmetry; apply Z.ltb_ge; unfold zlen; simpl; lia).
    reflexivity.
  - destruct (exists_last (l := x :: m1) ltac:(discriminate)) as [m0 [y E]].
    destruct m0 as [|x0 m'].
    + simpl in E. injection E as E1 E2. subst.
      replace (zlen a <? zlen a + zlen [y] - 1) with false by (symmetry; apply Z.ltb_ge; unfold zlen; simpl; lia).
      reflexivity.
    + simpl in E. injection E as E1 E2. subst x0 m1.
      assert (L : zlen (x :: m' ++ [y]) = zlen m' + 2) by (rewrite zlen_cons, zlen_app; change (zlen [y]) with 1; lia).
      rewrite L. pose proof (zlen_nonneg m').
      replace (zlen a <? zlen a + (zlen m' + 2) - 1) with true by (symmetry; apply Z.ltb_lt; lia).
      replace (a ++ (x :: m' ++ [y]) ++ b) with ((a ++ x :: m') ++ y :: b)
        by (rewrite <- !app_assoc; simpl; rewrite <- app_assoc; reflexivity).
      rewrite (get_mid (a ++ x :: m') b y) by (rewrite zlen_app, zlen_cons; lia).
      cbn [bind].
      replace ((a ++ x :: m') ++ y :: b) with (a ++ x :: (m' ++ y :: b)) by (rewrite <- app_assoc; reflexivity).
      rewrite (get_mid a _ x) by reflexivity. cbn [bind].
      rewrite (set_mid a _ x y) by reflexivity. cbn [bind].
      replace (a ++ y :: m' ++ y :: b) with ((a ++ y :: m') ++ y :: b) by (rewrite <- app_assoc; reflexivity).
      rewrite (set_mid (a ++ y :: m') b y x) by (rewrite zlen_app, zlen_cons; lia).
      cbn [bind].
      replace ((a ++ y :: m') ++ x :: b) with ((a ++ [y]) ++ m' ++ ([x] ++ b))
        by (rewrite <- !app_assoc; reflexivity).
      replace (zlen a + 1) with (zlen (a ++ [y])) by (rewrite zlen_app; unfold zlen; simpl; lia).
      replace (zlen a + (zlen m' + 2) - 1 - 1) with (zlen (a ++ [y]) + zlen m' - 1)
        by (rewrite zlen_app; unfold zlen; simpl; lia).
      rewrite IH by (simpl in Hg; rewrite app_length in Hg; simpl in Hg; lia).
      f_equal. simpl rev. rewrite rev_app_distr. simpl.
      rewrite <- !app_assoc. reflexivity.
Qed.

(* Reverse: the reversed list, never a panic, never out of fuel *)
Theorem reverse_impl_spec (s : list T) : reverse_impl s = Ok (rev s).
Proof.
  unfold reverse_impl.
  pose proof (reverse_loop_spec (S (length s)) s [] []) as H.
  rewrite !app_nil_r in H. cbn [app] in H. change (zlen (@nil T)) with 0 in H.
  rewrite Z.add_0_l in H. apply H. lia.
Qed.

Corollary reverse_impl_length (s s' : list T) : reverse_impl s = Ok s' -> length s' = length s.
Proof. rewrite reverse_impl_spec. intros [= <-]. apply rev_length. Qed.

Corollary reverse_impl_involutive (s : list T) :
  bind (reverse_impl s) reverse_impl = Ok s.
Proof. rewrite reverse_impl_spec. cbn [bind]. rewrite reverse_impl_spec, rev_involutive. reflexivity. Qed.

Corollary reverse_impl_nth (s : list T) (i : nat) (d : T) : (i < length s)%nat ->
  exists s', reverse_impl s = Ok s' /\ nth i s' d = nth (length s - S i) s d.
Proof. intros H. exists (rev s). split; [apply reverse_impl_spec|]. apply rev_nth. exact H. Qed.


(* ---------------------------------------------------------------- Dedup = slices.Compact *)
Variable eqb : T -> T -> bool.
Variable zero : T.
Notation dfrom := (dedup_from eqb).
Notation dspec := (dedup_spec eqb).

Lemma length_zlen (a b : list T) : zlen a = zlen b -> length a = length b.
Proof. unfold zlen. lia. Qed.

(* the inner loop: s = kept ++ J ++ [q] ++ rest, where kept (k elements) is the output so far,
   J ++ [q] are slots already read (q = the element read last, still in place), rest is unread *)
Lemma compact_inner_spec : forall (rest : list T) (gas : nat) (kept J : list T) (q : T) (k0 k2 : Z),
  (gas > length rest)%nat ->
  k0 + k2 = zlen kept + zlen J + 1 ->
  exists X,
    compact_inner eqb gas (kept ++ J ++ [q] ++ rest) k0 (zlen kept) k2
    = Ok ((kept ++ dfrom q rest) ++ X, zlen (kept ++ dfrom q rest))
    /\ length ((kept ++ dfrom q rest) ++ X) = length (kept ++ J ++ [q] ++ rest).
Proof.
  induction rest as [|y rest IH]; intros gas kept J q k0 k2 Hg Hk.
  - destruct gas; [simpl in Hg; lia|]. cbn [compact_inner dedup_from].
    assert (L : zlen (kept ++ J ++ [q] ++ []) = k0 + k2).
    { rewrite !zlen_app. change (zlen [q]) with 1. change (zlen (@nil T)) with 0. lia. }
    rewrite L. replace (k2 <? k0 + k2 - k0) with false by (symmetry; apply Z.ltb_ge; lia).
    exists (J ++ [q]). rewrite !app_nil_r. split; [|rewrite <- ?app_assoc; reflexivity].
    rewrite <- ?app_assoc. reflexivity.
  - destruct gas; [simpl in Hg; lia|]. cbn [compact_inner].
    assert (L : zlen (kept ++ J ++ [q] ++ y :: rest) = k0 + k2 + 1 + zlen rest).
    { rewrite !zlen_app. change (zlen [q]) with 1. rewrite zlen_cons. lia. }
    rewrite L. pose proof (zlen_nonneg rest).
    replace (k2 <? k0 + k2 + 1 + zlen rest - k0) with true by (symmetry; apply Z.ltb_lt; lia).
    assert (G1 : get (kept ++ J ++ [q] ++ y :: rest) (k0 + k2) = Ok y).
    { replace (kept ++ J ++ [q] ++ y :: rest) with ((kept ++ J ++ [q]) ++ y :: rest)
        by (rewrite <- !app_assoc; reflexivity).
      apply get_mid. rewrite !zlen_app. change (zlen [q]) with 1. lia. }
    assert (G2 : get (kept ++ J ++ [q] ++ y :: rest) (k0 + k2 - 1) = Ok q).
    { replace (kept ++ J ++ [q] ++ y :: rest) with ((kept ++ J) ++ q :: (y :: rest))
        by (rewrite <- !app_assoc; reflexivity).
      apply get_mid. rewrite !zlen_app. lia. }
    rewrite G1. cbn [bind]. rewrite G2.
    cbn [bind dedup_from].
    destruct (eqb y q); cbn [negb].
    + (* a duplicate of its predecessor: skipped, the slot joins the junk *)
      destruct (IH gas kept (J ++ [q]) y k0 (k2 + 1)) as [X [E Len]].
      * simpl in Hg; lia.
      * rewrite zlen_app. change (zlen [q]) with 1. lia.
      * exists X. rewrite <- !app_assoc in E. rewrite <- !app_assoc in Len. cbn [app] in E, Len.
        cbn [app]. rewrite <- ?app_assoc. split; [exact E|exact Len].
    + (* kept: stored at slot k = |kept|, the first junk slot *)
      destruct (J ++ [q]) as [|j Jt] eqn:EJ; [destruct J; discriminate|].
      assert (LJ : zlen Jt = zlen J).
      { assert (H1 : zlen (J ++ [q]) = zlen (j :: Jt)) by (rewrite EJ; reflexivity).
        rewrite zlen_app in H1. change (zlen [q]) with 1 in H1. rewrite zlen_cons in H1. lia. }
      replace (kept ++ J ++ [q] ++ y :: rest) with (kept ++ j :: (Jt ++ y :: rest)).
      2:{ replace (J ++ [q] ++ y :: rest) with ((J ++ [q]) ++ y :: rest) by (rewrite <- app_assoc; reflexivity).
          rewrite EJ. reflexivity. }
      rewrite (set_mid kept _ j y) by reflexivity. cbn [bind].
      destruct (IH gas (kept ++ [y]) Jt y k0 (k2 + 1)) as [X [E Len]].
      * simpl in Hg; lia.
      * rewrite zlen_app. change (zlen [y]) with 1. lia.
      * exists X.
        replace (zlen kept + 1) with (zlen (kept ++ [y])) by (rewrite zlen_app; reflexivity).
        replace (kept ++ y :: Jt ++ y :: rest) with ((kept ++ [y]) ++ Jt ++ [y] ++ rest)
          by (rewrite <- !app_assoc; reflexivity).
        replace (kept ++ y :: dfrom y rest) with ((kept ++ [y]) ++ dfrom y rest)
          by (rewrite <- !app_assoc; reflexivity).
        split; [exact E|].
        rewrite Len. rewrite !app_length. cbn [length]. rewrite !app_length. cbn [length]. lia.
Qed.

Lemma clear_from_prefix (a X : list T) :
  clear_from zero (a ++ X) (zlen a) = a ++ repeat zero (length X).
Proof.
  unfold clear_from, zlen. rewrite Nat2Z.id, firstn_app, Nat.sub_diag, firstn_all. cbn [firstn].
  rewrite app_nil_r, app_length. f_equal. f_equal. lia.
Qed.

(* the outer loop at position |pre|+1: pre ++ [p] is the duplicate-free prefix scanned so far *)
Lemma compact_outer_spec : forall (rest : list T) (gas : nat) (pre : list T) (p : T),
  (gas > length rest)%nat ->
  compact_outer eqb zero gas (pre ++ p :: rest) (zlen pre + 1)
  = Ok ((pre ++ p :: dfrom p rest) ++ repeat zero (length rest - length (dfrom p rest)),
        zlen (pre ++ p :: dfrom p rest)).
Proof.
  induction rest as [|y rest IH]; intros gas pre p Hg.
  - destruct gas; [simpl in Hg; lia|]. cbn [compact_outer dedup_from].
    rewrite zlen_app, zlen_cons. change (zlen (@nil T)) with 0.
    replace (zlen pre + 1 <? zlen pre + (1 + 0)) with false by (symmetry; apply Z.ltb_ge; lia).
    cbn [length Nat.sub repeat]. rewrite app_nil_r. reflexivity.
  - destruct gas; [simpl in Hg; lia|]. cbn [compact_outer].
    pose proof (zlen_nonneg rest).
    replace (zlen pre + 1 <? zlen (pre ++ p :: y :: rest)) with true
      by (symmetry; apply Z.ltb_lt; rewrite zlen_app, !zlen_cons; lia).
    assert (G1 : get (pre ++ p :: y :: rest) (zlen pre + 1) = Ok y).
    { replace (pre ++ p :: y :: rest) with ((pre ++ [p]) ++ y :: rest) by (rewrite <- app_assoc; reflexivity).
      apply get_mid. rewrite zlen_app. reflexivity. }
    assert (G2 : get (pre ++ p :: y :: rest) (zlen pre + 1 - 1) = Ok p) by (apply get_mid; lia).
    rewrite G1. cbn [bind]. rewrite G2.
    cbn [bind dedup_from].
    destruct (eqb y p).
    + (* the first duplicate: the inner loop takes over with kept = pre ++ [p], no junk, q = y *)
      destruct (compact_inner_spec rest (S (length (pre ++ p :: y :: rest))) (pre ++ [p]) [] y (zlen pre + 1) 1) as [X [E Len]].
      * rewrite app_length. cbn [length]. lia.
      * rewrite zlen_app. change (zlen [p]) with 1. change (zlen (@nil T)) with 0. lia.
      * replace (zlen (pre ++ [p])) with (zlen pre + 1) in E by (rewrite zlen_app; reflexivity).
        replace ((pre ++ [p]) ++ [] ++ [y] ++ rest) with (pre ++ p :: y :: rest) in E
          by (rewrite <- !app_assoc; reflexivity).
        rewrite E. cbn [bind fst snd].
        rewrite clear_from_prefix.
        replace ((pre ++ [p]) ++ dfrom y rest) with (pre ++ p :: dfrom y rest) by (rewrite <- app_assoc; reflexivity).
        f_equal. f_equal. f_equal. f_equal.
        replace ((pre ++ [p]) ++ [] ++ [y] ++ rest) with (pre ++ p :: y :: rest) in Len
          by (rewrite <- !app_assoc; reflexivity).
        rewrite ?app_length in Len. cbn [length] in Len. rewrite ?app_length in Len. cbn [length] in Len.
        rewrite ?app_length in Len. cbn [length] in Len. cbn [length]. lia.
    + replace (pre ++ p :: y :: rest) with ((pre ++ [p]) ++ y :: rest) by (rewrite <- app_assoc; reflexivity).
      replace (zlen pre + 1 + 1) with (zlen (pre ++ [p]) + 1) by (rewrite zlen_app; reflexivity).
      rewrite IH by (simpl in Hg; lia).
      replace ((pre ++ [p]) ++ y :: dfrom y rest) with (pre ++ p :: y :: dfrom y rest) by (rewrite <- app_assoc; reflexivity).
      reflexivity.
Qed.

Lemma dedup_from_length q l : (length (dfrom q l) <= length l)%nat.
Proof. revert q. induction l as [|y l IH]; intros q; cbn [dedup_from length]; [lia|]. destruct (eqb y q); cbn [length]; specialize (IH y); lia. Qed.

(* Dedup: the elements that differ from their predecessor, in order (the first of every run),
   as the first k slots; the other slots zeroed; the length of the array unchanged; no panic *)
Theorem compact_impl_spec (s : list T) :
  compact_impl eqb zero s
  = Ok (dspec s ++ repeat zero (length s - length (dspec s)), zlen (dspec s)).
Proof.
  unfold compact_impl. destruct s as [|x r].
  - reflexivity.
  - destruct r as [|y r].
    + reflexivity.
    + replace (zlen (x :: y :: r) <? 2) with false
        by (symmetry; apply Z.ltb_ge; rewrite !zlen_cons; pose proof (zlen_nonneg r); lia).
      pose proof (compact_outer_spec (y :: r) (S (length (x :: y :: r))) [] x) as H.
      cbn [app] in H. change (zlen (@nil T)) with 0 in H. rewrite Z.add_0_l in H.
      rewrite H by (cbn [length]; lia).
      cbn [dedup_spec length]. reflexivity.
Qed.

Corollary compact_impl_length s s' k :
  compact_impl eqb zero s = Ok (s', k) -> length s' = length s /\ 0 <= k <= zlen s.
Proof.
  rewrite compact_impl_spec. intros [= <- <-].
  assert (L : (length (dspec s) <= length s)%nat).
  { destruct s as [|x r]; cbn [dedup_spec length]; [lia|]. pose proof (dedup_from_length x r). lia. }
  rewrite app_length, repeat_length. unfold zlen. lia.
Qed.

(* the result slice s[:k] holds exactly the reference *)
Corollary compact_impl_prefix s s' k :
  compact_impl eqb zero s = Ok (s', k) -> firstn (Z.to_nat k) s' = dspec s.
Proof.
  rewrite compact_impl_spec. intros [= <- <-]. unfold zlen. rewrite Nat2Z.id, firstn_app, Nat.sub_diag, firstn_all.
  cbn [firstn]. apply app_nil_r.
Qed.

(* a list in which nothing equals its predecessor is left as it is *)
Lemma dedup_from_id q l :
  (forall pre a b suf, q :: l = pre ++ a :: b :: suf -> eqb b a = false) -> dfrom q l = l.
Proof.
  revert q. induction l as [|y l IH]; intros q H; cbn [dedup_from]; [reflexivity|].
  rewrite (H [] q y l eq_refl). f_equal. apply IH.
  intros pre a b suf E. apply (H (q :: pre) a b suf). cbn [app]. rewrite E. reflexivity.
Qed.

End More.
