(* SUPPLEMENTARY, OUTSIDE PROPERTY C17: models of the remaining exported functions of
   slice/slice.go that have a body of their own -- Zero, Select, MatchingKeys, MapKeys.  (Dedup and
   Reverse only call slices.Compact / slices.Reverse.)  Definitions only.  These models are
   hand-written from the source (no translator anchors): a change of those functions does not
   touch the check of C17; they are tied to the code by the supplementary correspondence run
   `sliceutiltrace -prop C17x` only (see notes/C17-audit.md).

   Iterators (iter.Seq) are modelled against an arbitrary consumer: a state machine
   [yield : S -> T -> S * bool] whose boolean is what the Go yield function returns (false = the
   range loop was left).  A map is the list of its entries in the order the runtime happens to
   iterate them (an oracle input of the trace). *)
From Coq Require Import ZArith List Bool.
Import ListNotations.
From Mds Require Import Slice.SliceUtilModel.
Local Open Scope Z_scope.

Section Extra.
Variable T : Type.

(* func Zero(vs) { var zero T; for i := range vs { vs[i] = zero } } *)
Fixpoint zero_loop (count : nat) (l : list T) (i : Z) (zero : T) : res (list T) :=
  match count with
  | O => Ok l
  | S c => do l' <- set l i zero; zero_loop c l' (i + 1) zero
  end.
Definition zero_impl (zero : T) (l : list T) : res (list T) := zero_loop (length l) l 0 zero.
Definition zero_view (zero : T) (b : list T) (v : view) : res (list T) :=
  do l' <- zero_impl zero (window b v); Ok (splice b v l').

Section Consumer.
Variable S : Type.
Variable K : Type.
Variable yieldT : S -> T -> S * bool.
Variable yieldK : S -> K -> S * bool.
Variable f : T -> bool.

(* func Select(vs, f) iter.Seq[T] { return func(yield) { for _, v := range vs { if f(v) && !yield(v) { return } } } }
   result: the consumer's state and the number of calls of f *)
Fixpoint select_loop (l : list T) (s : S) (calls : Z) : S * Z :=
  match l with
  | [] => (s, calls)
  | v :: r =>
    if f v then
      let sc := yieldT s v in
      if negb (snd sc) then (fst sc, calls + 1) else select_loop r (fst sc) (calls + 1)
    else select_loop r s (calls + 1)
  end.

(* func MatchingKeys(m, f) iter.Seq[K] { ... for k, v := range m { if f(v) { if !yield(k) { return } } } } *)
Fixpoint matching_loop (kvs : list (K * T)) (s : S) (calls : Z) : S * Z :=
  match kvs with
  | [] => (s, calls)
  | (k, v) :: r =>
    if f v then
      let sc := yieldK s k in
      if negb (snd sc) then (fst sc, calls + 1) else matching_loop r (fst sc) (calls + 1)
    else matching_loop r s (calls + 1)
  end.

End Consumer.

(* func MapKeys(m) []K { if len(m) == 0 { return nil }; keys := make(..); for key := range m { append }; return keys }
   None = nil *)
Definition map_keys {K : Type} (kvs : list (K * T)) : option (list K) :=
  if zlen kvs =? 0 then None else Some (map fst kvs).

End Extra.

(* the consumer `for x := range seq { out = append(out, x); if len(out) == m { break } }`
   (m <= 0: never breaks) *)
Definition take_consumer {A : Type} (m : Z) (s : list A * Z) (x : A) : (list A * Z) * bool :=
  ((fst s ++ [x], snd s + 1), negb (snd s + 1 =? m)).

Arguments zero_loop {T} count l i zero.
Arguments zero_impl {T} zero l.
Arguments zero_view {T} zero b v.
Arguments select_loop {T S} yieldT f l s calls.
Arguments matching_loop {T S K} yieldK f kvs s calls.
Arguments map_keys {T K} kvs.
