(* Spare capacity never matters when the run without it returns normally -- for ANY eq function,
   no laws assumed.  Go checks slice bounds against cap(s), the run with cap = len checks them
   against len(s) (stricter); every slice expression that passes the stricter check yields the
   same elements whatever lies behind the slice.  So: if editScriptFunc's model returns EOk es on
   inputs without spare capacity, it returns the same EOk es on inputs with any spare capacity
   [lx], [rx].  (Together with EditTheorems.edit_script_run_ok -- the cap = len run never panics
   for an equivalence -- this makes the property independent of the capacity of the inputs.) *)
From Coq Require Import ZArith List Bool Lia.
Import ListNotations.
From Mds Require Import Gen.EditIdx Slice.EditLoop Slice.EditSpec Slice.EditModel.
Local Open Scope Z_scope.

(* r2 returns whatever r1 returns normally *)
Definition ele {A} (r1 r2 : eres A) : Prop := forall v, r1 = EOk v -> r2 = EOk v.

Lemma ele_refl : forall {A} (r : eres A), ele r r.
Proof. intros A r v H. exact H. Qed.

Lemma ele_ebind : forall {A B} (r1 r2 : eres A) (k1 k2 : A -> eres B),
    ele r1 r2 -> (forall a, ele (k1 a) (k2 a)) -> ele (ebind r1 k1) (ebind r2 k2).
Proof.
  intros A B r1 r2 k1 k2 Hr Hk v H. destruct r1 as [a| |]; cbn in H; try discriminate.
  rewrite (Hr a eq_refl). cbn. now apply Hk.
Qed.

Lemma ele_of_opt : forall {A} (o1 o2 : option A),
    (forall x, o1 = Some x -> o2 = Some x) -> ele (of_opt o1) (of_opt o2).
Proof.
  intros A o1 o2 H v Hv. destruct o1 as [x|]; cbn in Hv; try discriminate.
  rewrite (H x eq_refl). exact Hv.
Qed.

Lemma zslice_cap_mono : forall {A} (s extra : list A) lo hi x,
    zslice_cap s [] lo hi = Some x -> zslice_cap s extra lo hi = Some x.
Proof.
  intros A s extra lo hi x. unfold zslice_cap, zslice. rewrite app_nil_r.
  destruct ((0 <=? lo) && (lo <=? hi) && (hi <=? zlen s)) eqn:E; [|discriminate].
  apply andb_true_iff in E. destruct E as [E E3]. apply andb_true_iff in E. destruct E as [E1 E2].
  apply Z.leb_le in E1, E2, E3.
  assert (E4 : hi <= zlen (s ++ extra)) by (unfold zlen in *; rewrite app_length; lia).
  apply Z.leb_le in E4. apply Z.leb_le in E1, E2. rewrite E1, E2, E4. cbn [andb].
  apply Z.leb_le in E1, E2. intros [= <-]. f_equal.
  rewrite skipn_app, firstn_app.
  replace (Z.to_nat (hi - lo) - length (skipn (Z.to_nat lo) s))%nat with 0%nat
    by (rewrite skipn_length; unfold zlen in E3; lia).
  cbn [firstn]. now rewrite app_nil_r.
Qed.

Section EditCap.
  Variable T : Type.
  Variable eqb : T -> T -> bool.
  Variables lx rx : list T.

  Ltac mono :=
    repeat first
      [ apply ele_refl
      | apply ele_ebind; [| intros ?]
      | apply ele_of_opt; intros ?; apply zslice_cap_mono
      | match goal with
        | |- ele (if ?c then _ else _) (if ?c then _ else _) => destruct c
        | |- ele (let '(_, _) := ?p in _) _ => destruct p
        end ].

  Lemma gap_edits_mono : forall lhs rhs lpos lend rpos rend out,
      ele (gap_edits T [] [] lhs rhs lpos lend rpos rend out)
          (gap_edits T lx rx lhs rhs lpos lend rpos rend out).
  Proof. intros. unfold gap_edits. mono. Qed.

  Lemma tail_edits_mono : forall lhs rhs lpos rpos out,
      ele (tail_edits T [] [] lhs rhs lpos rpos out) (tail_edits T lx rx lhs rhs lpos rpos out).
  Proof. intros. unfold tail_edits. cbv zeta. mono. Qed.

  Lemma iter_body_mono : forall lhs rhs lcs lpos rpos i out,
      ele (iter_body T eqb [] [] lhs rhs lcs lpos rpos i out)
          (iter_body T eqb lx rx lhs rhs lcs lpos rpos i out).
  Proof.
    intros. unfold iter_body. cbv zeta.
    apply ele_ebind; [apply ele_refl | intros lend].
    apply ele_ebind; [apply ele_refl | intros rend].
    apply ele_ebind; [apply gap_edits_mono | intros out2].
    mono.
  Qed.

  Lemma outer_mono : forall fuel lhs rhs lcs lpos rpos i out,
      ele (outer T eqb [] [] fuel lhs rhs lcs lpos rpos i out)
          (outer T eqb lx rx fuel lhs rhs lcs lpos rpos i out).
  Proof.
    induction fuel as [|f IH]; intros lhs rhs lcs lpos rpos i out; cbn [outer]; [apply ele_refl|].
    destruct (es_outer_cond i (zlen lcs)); [|apply ele_refl].
    pose proof (iter_body_mono lhs rhs lcs lpos rpos i out) as Hb.
    destruct (iter_body T eqb [] [] lhs rhs lcs lpos rpos i out) as [[[[lp' rp'] i'] out']| |].
    - rewrite (Hb _ eq_refl). apply IH.
    - intros v [=].
    - intros v [=].
  Qed.

  Lemma edit_script_of_lcs_mono : forall lcs lhs rhs,
      ele (edit_script_of_lcs T eqb [] [] lcs lhs rhs) (edit_script_of_lcs T eqb lx rx lcs lhs rhs).
  Proof.
    intros. unfold edit_script_of_lcs.
    apply ele_ebind; [apply outer_mono | intros [[lpos rpos] out]].
    apply ele_ebind; [apply tail_edits_mono | intros ?; apply ele_refl].
  Qed.

  (* any eq function: a normal return without spare capacity is the return with any *)
  Theorem edit_script_run_cap_mono : forall lhs rhs es,
      edit_script_run eqb lhs rhs = EOk es -> edit_script_run_cap eqb lx rx lhs rhs = EOk es.
  Proof.
    intros lhs rhs es. unfold edit_script_run, edit_script_run_cap.
    destruct (pick_arg T (es_lcs_arg0 0 1 2) lhs rhs) as [a|]; [|discriminate].
    destruct (pick_arg T (es_lcs_arg1 0 1 2) lhs rhs) as [b|]; [|discriminate].
    destruct (LcsModel.lcs_func T eqb a b) as [lcs|]; [|discriminate].
    apply edit_script_of_lcs_mono.
  Qed.
End EditCap.
