(* C17, machine integers.  The model computes in unbounded Z, the Go code in int (64 bits).  The
   only arithmetic in slice/slice.go on values a caller controls is

     sliceCheck/indexCheck  i += n          Rotate   (i + k) % len(ss), range g
     Chunks  (len(vs)+n-1)/n, i+n           Batches  len/n, len%n, i+size, end++, rem--
     Tail    len(vs)-n                      Partition  i++, j := i+1, j++        gcd  a % b

   (all of them definitions of Gen/SliceIdx.v: sc_adj ic_adj rot_next ch_hint ch_end ba_size ba_rem
   ba_end ba_end_inc ba_rem_dec tl_lo part_i_inc part_j0 part_j_inc part_i_inc2 part_j_inc2 gcd_b;
   the shape lemmas below pin each one, so a changed operator breaks this file).

   This file re-states the functions with 64-bit two's-complement wrap-around after every addition
   and subtraction ([slice_check64], [rotate_impl64], [chunks64], [batches64], [tail64], [at64],
   [ptr_at64]) and proves them EQUAL to the model's functions

     - for every int64 argument (math.MinInt and math.MaxInt included, inside or outside the
       documented range), and
     - every slice of length below 2^62.

   The length bound is met by every Go slice whose element type has a non-zero size (the runtime
   caps allocations far below 2^62 bytes; the exact threshold of the first overflow is 2^62 + 1
   elements).  It is NOT vacuous for zero-size element types:
   make([]struct{}, math.MaxInt) is legal, and there i+k in Rotate and i+n, len+n-1 in Chunks do
   overflow ([rotate_overflow_witness], [chunks_overflow_witness]; observed on the real code, see
   notes/C17-audit.md).  Division: every divisor is positive, so MinInt / -1 cannot occur.  *)
From Coq Require Import ZArith List Bool Lia.
Import ListNotations.
From Mds Require Import Gen.SliceIdx Slice.SliceUtilModel Slice.SliceUtilSpec Slice.SliceUtilProofs Slice.SliceUtilModel64.
Local Open Scope Z_scope.

Definition int64 (z : Z) : Prop := - 2 ^ 63 <= z < 2 ^ 63.
Definition wrap64 (z : Z) : Z := (z + 2 ^ 63) mod 2 ^ 64 - 2 ^ 63.
(* a slice length for which the model is faithful *)
Definition len62 (n : Z) : Prop := 0 <= n < 2 ^ 62.

Lemma pow62 : 2 ^ 62 = 4611686018427387904. Proof. reflexivity. Qed.
Lemma pow63 : 2 ^ 63 = 9223372036854775808. Proof. reflexivity. Qed.
Lemma pow64 : 2 ^ 64 = 18446744073709551616. Proof. reflexivity. Qed.

Lemma wrap64_id z : int64 z -> wrap64 z = z.
Proof. unfold int64, wrap64. rewrite pow63, pow64. intros H. rewrite Z.mod_small by lia. lia. Qed.

Lemma wrap64_range z : int64 (wrap64 z).
Proof. unfold int64, wrap64. rewrite pow63, pow64. pose proof (Z.mod_pos_bound (z + 9223372036854775808) 18446744073709551616 ltac:(lia)). lia. Qed.

(* one overflow upwards lands on the negative side *)
Lemma wrap64_over z : 2 ^ 63 <= z < 2 ^ 64 -> wrap64 z < 0.
Proof.
  unfold wrap64. rewrite pow63, pow64. intros H.
  replace (z + 9223372036854775808) with ((z - 9223372036854775808) + 1 * 18446744073709551616) by lia.
  rewrite Z.mod_add by lia. rewrite Z.mod_small by lia. lia.
Qed.

Ltac i64 := unfold int64, len62 in *; rewrite ?pow62, ?pow63 in *.

(* ---- the shapes of the generated arithmetic (what the 64-bit variants below wrap) ---- *)
Lemma shapes :
  (forall i n, sc_adj i n = i + n) /\ (forall i n, ic_adj i n = i + n) /\
  (forall i k n, rot_next i k n = Z.rem (i + k) n) /\ (forall a b, gcd_b a b = Z.rem a b) /\
  (forall n len, ch_hint n len = Z.quot (len + n - 1) n) /\ (forall i n len, ch_end i n len = Z.min (i + n) len) /\
  (forall len n, ba_size len n = Z.quot len n) /\ (forall len n, ba_rem len n = Z.rem len n) /\
  (forall i size, ba_end i size = i + size) /\ (forall e, ba_end_inc e = e + 1) /\ (forall r, ba_rem_dec r = r - 1) /\
  (forall len n, tl_lo len n = len - n) /\
  (forall i, part_i_inc i = i + 1) /\ (forall i, part_j0 i = i + 1) /\ (forall j, part_j_inc j = j + 1) /\
  (forall i, part_i_inc2 i = i + 1) /\ (forall j, part_j_inc2 j = j + 1).
Proof. repeat split. Qed.

(* ---- sliceCheck / indexCheck, At, PtrAt ---- *)
Definition slice_check64 (i n : Z) : Z * bool :=
  let i := if sc_neg i n then wrap64 (sc_adj i n) else i in
  (sc_pos i n, sc_ok i n).

Definition index_check64 (i n : Z) : Z * bool :=
  let i := if ic_neg i n then wrap64 (ic_adj i n) else i in
  (ic_pos i n, ic_ok i n).

(* i += n happens only for i < 0 (or i <= 0): a negative plus a length cannot overflow *)
Lemma slice_check64_eq i n : int64 i -> 0 <= n < 2 ^ 63 -> slice_check64 i n = slice_check i n.
Proof.
  intros Hi Hn. unfold slice_check64, slice_check.
  destruct (sc_neg i n) eqn:E; [|reflexivity]. unfold sc_neg in E.
  assert (i <= 0) by (zb; lia). rewrite wrap64_id; [reflexivity|]. unfold sc_adj. i64. lia.
Qed.

Lemma index_check64_eq i n : int64 i -> 0 <= n < 2 ^ 63 -> index_check64 i n = index_check i n.
Proof.
  intros Hi Hn. unfold index_check64, index_check.
  destruct (ic_neg i n) eqn:E; [|reflexivity]. unfold ic_neg in E.
  assert (i <= 0) by (zb; lia). rewrite wrap64_id; [reflexivity|]. unfold ic_adj. i64. lia.
Qed.

Section Elem.
Context {T : Type}.

Definition at64 (l : list T) (i : Z) : res T :=
  let n := zlen l in
  let bo := index_check64 (at_arg_i i n) (at_arg_n i n) in
  if at_bad (snd bo) then Panic PDocIndex else get l (at_idx (fst bo)).

Definition ptr_at64 (l : list T) (i : Z) : res (option Z) :=
  let n := zlen l in
  let po := index_check64 (ptrat_arg_i i n) (ptrat_arg_n i n) in
  if ptrat_good (snd po) then
    do _x <- get l (ptrat_idx (fst po)); Ok (Some (ptrat_idx (fst po)))
  else Ok None.

Theorem at64_eq (l : list T) i : int64 i -> zlen l < 2 ^ 63 -> at64 l i = at_ l i.
Proof.
  intros Hi Hn. unfold at64, at_, at_arg_i, at_arg_n. pose proof (zlen_nonneg l).
  rewrite index_check64_eq by (assumption || lia). reflexivity.
Qed.

Theorem ptr_at64_eq (l : list T) i : int64 i -> zlen l < 2 ^ 63 -> ptr_at64 l i = ptr_at l i.
Proof.
  intros Hi Hn. unfold ptr_at64, ptr_at, ptrat_arg_i, ptrat_arg_n. pose proof (zlen_nonneg l).
  rewrite index_check64_eq by (assumption || lia). reflexivity.
Qed.

(* ---- Rotate ---- *)
Fixpoint cycle64 (fuel : nat) (l : list T) (k j i : Z) (cur : T) : res (list T) :=
  match fuel with
  | O => OutOfFuel
  | S f =>
    if rot_inner_cond then
      let n := zlen l in
      if n =? 0 then Panic PRtDiv
      else
        let next := Z.rem (wrap64 (i + k)) n in
        do nextv <- get l (rot_read_idx next);
        do l' <- set l (rot_write_idx next) cur;
        if rot_break next j then Ok l'
        else cycle64 f l' k j (rot_i_step next) nextv
    else Ok l
  end.

Fixpoint cycles64 (count : nat) (l : list T) (k j : Z) : res (list T) :=
  match count with
  | O => Ok l
  | S c =>
    do cur <- get l (rot_cur0_idx j);
    do l' <- cycle64 (S (length l)) l k j (rot_i0 j) cur;
    cycles64 c l' k (wrap64 (j + 1))
  end.

Definition rotate_impl64 (l : list T) (k : Z) : res (list T) :=
  let n := zlen l in
  let ko := slice_check64 (rot_arg_k k n) (rot_arg_n k n) in
  let k := fst ko in
  if rot_bad (snd ko) then Panic PDocOffset
  else if rot_noop k n then Ok l
  else
    do g <- gcd_impl (rot_gcd_a k n) (rot_gcd_b k n);
    cycles64 (Z.to_nat (rot_ncycles (rot_g g))) l k 0.

Lemma set_zlen (l l' : list T) i x : set l i x = Ok l' -> zlen l' = zlen l.
Proof.
  unfold set. destruct ((0 <=? i) && (i <? zlen l)); [|discriminate].
  intros H; inversion H; subst. unfold zlen. rewrite upd_length. reflexivity.
Qed.

Lemma cycle64_eq : forall fuel (l : list T) k j i cur,
  len62 (zlen l) -> 0 < k < zlen l -> 0 <= i < zlen l ->
  cycle64 fuel l k j i cur = cycle fuel l k j i cur.
Proof.
  induction fuel as [|f IH]; intros l k j i cur Hl Hk Hi; [reflexivity|].
  cbn [cycle64 cycle]. destruct rot_inner_cond; [|reflexivity].
  destruct (zlen l =? 0); [reflexivity|].
  assert (Hw : wrap64 (i + k) = i + k) by (apply wrap64_id; i64; lia).
  rewrite Hw. change (Z.rem (i + k) (zlen l)) with (rot_next i k (zlen l)).
  set (next := rot_next i k (zlen l)).
  destruct (get l (rot_read_idx next)) as [nextv| |] eqn:G; cbn [bind]; try reflexivity.
  destruct (set l (rot_write_idx next) cur) as [l'| |] eqn:St; cbn [bind]; try reflexivity.
  destruct (rot_break next j); [reflexivity|].
  pose proof (set_zlen _ _ _ _ St) as L'.
  unfold set in St. destruct ((0 <=? rot_write_idx next) && (rot_write_idx next <? zlen l)) eqn:B; [|discriminate].
  unfold rot_write_idx in B. zb.
  apply IH; rewrite ?L'; unfold rot_i_step; (assumption || lia).
Qed.

Lemma cycle_zlen : forall fuel (l l' : list T) k j i cur, cycle fuel l k j i cur = Ok l' -> zlen l' = zlen l.
Proof.
  induction fuel as [|f IHf]; intros l l' k j i cur C; cbn [cycle] in C; [discriminate|].
  destruct rot_inner_cond; [|inversion C; reflexivity].
  destruct (zlen l =? 0); [discriminate|].
  destruct (get l (rot_read_idx (rot_next i k (zlen l)))); cbn [bind] in C; try discriminate.
  destruct (set l (rot_write_idx (rot_next i k (zlen l))) cur) as [l1| |] eqn:St; cbn [bind] in C; try discriminate.
  pose proof (set_zlen _ _ _ _ St) as L1.
  destruct (rot_break (rot_next i k (zlen l)) j); [inversion C; subst; exact L1|].
  rewrite <- L1. eapply IHf. exact C.
Qed.

Lemma cycles64_eq : forall count (l : list T) k j,
  len62 (zlen l) -> 0 < k < zlen l -> 0 <= j ->
  cycles64 count l k j = cycles count l k j.
Proof.
  induction count as [|c IH]; intros l k j Hl Hk Hj; [reflexivity|].
  cbn [cycles64 cycles].
  destruct (get l (rot_cur0_idx j)) as [cur| |] eqn:G; cbn [bind]; try reflexivity.
  apply get_inv in G. destruct G as [Gj _]. unfold rot_cur0_idx in Gj.
  rewrite cycle64_eq by (unfold rot_i0; assumption || lia).
  destruct (cycle (S (length l)) l k j (rot_i0 j) cur) as [l'| |] eqn:C; cbn [bind]; try reflexivity.
  rewrite wrap64_id by (i64; lia).
  pose proof (cycle_zlen _ _ _ _ _ _ _ C) as L'.
  apply IH; rewrite ?L'; (assumption || lia).
Qed.

(* Rotate: for EVERY int64 k (in range or not) on a slice of fewer than 2^62 elements the 64-bit
   code is the model *)
Theorem rotate_impl64_eq (l : list T) k : int64 k -> len62 (zlen l) -> rotate_impl64 l k = rotate_impl l k.
Proof.
  intros Hk Hl. unfold rotate_impl64, rotate_impl, rot_arg_k, rot_arg_n.
  rewrite slice_check64_eq by (assumption || (i64; lia)).
  destruct (slice_check k (zlen l)) as [k' ok] eqn:Sc. cbn [fst snd].
  destruct (rot_bad ok) eqn:Eb; [reflexivity|].
  destruct (rot_noop k' (zlen l)) eqn:En; [reflexivity|].
  destruct (gcd_impl (rot_gcd_a k' (zlen l)) (rot_gcd_b k' (zlen l))) as [g| |]; cbn [bind]; try reflexivity.
  apply cycles64_eq; [exact Hl| |lia].
  (* ok and not a no-op: 0 < k' < len *)
  unfold rot_bad in Eb. apply negb_false_iff in Eb. subst ok.
  unfold slice_check in Sc. inversion Sc as [[Ek Eok]]. clear Sc.
  unfold sc_pos in *. rewrite Ek in Eok. unfold sc_ok in Eok. unfold rot_noop in En. zb. lia.
Qed.

End Elem.

(* ---- Chunks ---- *)
Fixpoint chunks_loop64 (fuel : nat) (v : view) (n i : Z) (out : list view) : res (list view) :=
  match fuel with
  | O => OutOfFuel
  | S f =>
    let len := vlen v in
    if ch_loop i len then
      let e := Z.min (wrap64 (i + n)) len in
      do c <- slice3 v (ch_lo i e) (ch_hi i e) (ch_max i e);
      chunks_loop64 f v n (ch_i_next e) (out ++ [c])
    else Ok out
  end.

Definition chunks64 (v : view) (n : Z) : res (list view) :=
  let len := vlen v in
  if ch_neg n then Panic PDocMax
  else if ch_single n len then Ok [v]
  else if n =? 0 then Panic PRtDiv
  else if Z.quot (wrap64 (wrap64 (len + n) - 1)) n <? 0 then Panic PRtMake
  else chunks_loop64 (S (Z.to_nat len)) v n ch_i0 [].

Lemma chunks_loop64_eq v n : len62 (vlen v) -> 0 < n <= vlen v ->
  forall fuel i out, 0 <= i -> chunks_loop64 fuel v n i out = chunks_loop fuel v n i out.
Proof.
  intros Hl Hn. induction fuel as [|f IH]; intros i out Hi; [reflexivity|].
  cbn [chunks_loop64 chunks_loop]. destruct (ch_loop i (vlen v)) eqn:E; [|reflexivity].
  unfold ch_loop in E. zb.
  rewrite wrap64_id by (i64; lia). change (Z.min (i + n) (vlen v)) with (ch_end i n (vlen v)).
  destruct (slice3 v _ _ _); cbn [bind]; try reflexivity.
  apply IH. unfold ch_i_next, ch_end. lia.
Qed.

(* Chunks: every int64 n (math.MaxInt takes the early return, no arithmetic at all) *)
Theorem chunks64_eq v n : int64 n -> len62 (vlen v) -> chunks64 v n = chunks v n.
Proof.
  intros Hn Hl. unfold chunks64, chunks.
  destruct (ch_neg n) eqn:E0; [reflexivity|]. destruct (ch_single n (vlen v)) eqn:E1; [reflexivity|].
  destruct (n =? 0) eqn:E2; [reflexivity|].
  unfold ch_neg in E0. unfold ch_single in E1. zb.
  assert (Hr : 0 < n <= vlen v) by lia.
  rewrite (wrap64_id (vlen v + n)) by (i64; lia). rewrite wrap64_id by (i64; lia).
  change (Z.quot (vlen v + n - 1) n) with (ch_hint n (vlen v)).
  destruct (ch_hint n (vlen v) <? 0); [reflexivity|].
  apply chunks_loop64_eq; try assumption. unfold ch_i0. lia.
Qed.

(* ---- Batches ---- *)
Fixpoint batches_loop64 (fuel : nat) (v : view) (size i rem : Z) (out : list view) : res (list view) :=
  match fuel with
  | O => OutOfFuel
  | S f =>
    let len := vlen v in
    if ba_loop i len then
      let e := wrap64 (i + size) in
      let er := if ba_rem_pos rem then (wrap64 (e + 1), wrap64 (rem - 1)) else (e, rem) in
      let e := fst er in
      let rem := snd er in
      do c <- slice3 v (ba_lo i e) (ba_hi i e) (ba_max i e);
      batches_loop64 f v size (ba_i_next e) rem (out ++ [c])
    else Ok out
  end.

Definition batches64 (v : view) (n : Z) : res (list view) :=
  let len := vlen v in
  if ba_neg n then Panic PDocN
  else if ba_zero n then Ok []
  else
    let n := if ba_over n len then ba_capped len else n in
    if ba_zero2 n then Ok []
    else if ba_hint n <? 0 then Panic PRtMake
    else if n =? 0 then Panic PRtDiv
    else batches_loop64 (S (Z.to_nat len)) v (ba_size len n) ba_i0 (ba_rem len n) [].

Lemma batches_loop64_eq v size : len62 (vlen v) -> 0 <= size <= vlen v ->
  forall fuel i rem out, 0 <= i -> 0 <= rem <= vlen v ->
  batches_loop64 fuel v size i rem out = batches_loop fuel v size i rem out.
Proof.
  intros Hl Hs. induction fuel as [|f IH]; intros i rem out Hi Hr; [reflexivity|].
  cbn [batches_loop64 batches_loop]. destruct (ba_loop i (vlen v)) eqn:E; [|reflexivity].
  unfold ba_loop in E. zb.
  rewrite (wrap64_id (i + size)) by (i64; lia). change (i + size) with (ba_end i size).
  destruct (ba_rem_pos rem) eqn:Er; cbn [fst snd].
  - unfold ba_rem_pos in Er. zb.
    rewrite (wrap64_id (ba_end i size + 1)) by (unfold ba_end; i64; lia).
    rewrite (wrap64_id (rem - 1)) by (i64; lia).
    change (ba_end i size + 1) with (ba_end_inc (ba_end i size)). change (rem - 1) with (ba_rem_dec rem).
    destruct (slice3 v _ _ _); cbn [bind]; try reflexivity.
    apply IH; unfold ba_i_next, ba_end_inc, ba_end, ba_rem_dec; lia.
  - destruct (slice3 v _ _ _); cbn [bind]; try reflexivity.
    apply IH; unfold ba_i_next, ba_end; lia.
Qed.

Theorem batches64_eq v n : int64 n -> len62 (vlen v) -> batches64 v n = batches v n.
Proof.
  intros Hn Hl. unfold batches64, batches.
  destruct (ba_neg n) eqn:E0; [reflexivity|]. destruct (ba_zero n) eqn:E1; [reflexivity|].
  set (m := if ba_over n (vlen v) then ba_capped (vlen v) else n).
  destruct (ba_zero2 m) eqn:E2; [reflexivity|]. destruct (ba_hint m <? 0); [reflexivity|].
  destruct (m =? 0) eqn:E3; [reflexivity|].
  assert (Hm : 0 < m <= vlen v).
  { unfold m, ba_neg, ba_zero, ba_zero2, ba_capped in *. zb.
    destruct (ba_over n (vlen v)) eqn:E; unfold ba_over in E; zb; unfold len62 in Hl; lia. }
  apply batches_loop64_eq; try assumption.
  - unfold ba_size. rewrite Z.quot_div_nonneg by (unfold len62 in Hl; lia).
    split; [apply Z.div_pos; unfold len62 in Hl; lia|].
    apply Z.div_le_upper_bound; [lia|]. unfold len62 in Hl. nia.
  - unfold ba_i0. lia.
  - unfold ba_rem. rewrite Z.rem_mod_nonneg by (unfold len62 in Hl; lia).
    pose proof (Z.mod_pos_bound (vlen v) m ltac:(lia)). lia.
Qed.

(* ---- Tail ---- *)
Definition tail64 (v : view) (n : Z) : res view :=
  if tl_short (vlen v) n then Ok v else slice3 v (wrap64 (tl_lo (vlen v) n)) (vlen v) (vcap v).

(* Tail: every int64 n.  For n below len - MaxInt (far outside the documented n >= 0) the
   subtraction does overflow in Go; the wrapped offset is negative, the exact one exceeds len, and
   both are refused by the same runtime check. *)
Theorem tail64_eq v n : int64 n -> len62 (vlen v) -> vlen v <= vcap v -> tail64 v n = tail v n.
Proof.
  intros Hn Hl Hc. unfold tail64, tail. destruct (tl_short (vlen v) n) eqn:E; [reflexivity|].
  unfold tl_short in E. zb. unfold tl_lo.
  destruct (Z_lt_dec (vlen v - n) (2 ^ 63)) as [In|Out].
  - rewrite wrap64_id by (i64; lia). reflexivity.
  - pose proof (wrap64_over (vlen v - n) ltac:(i64; rewrite pow64; lia)) as W.
    unfold slice3. destruct (0 <=? wrap64 (vlen v - n)) eqn:A; zb; [lia|]. cbn [andb].
    destruct (0 <=? vlen v - n) eqn:B; cbn [andb]; [|reflexivity].
    destruct (vlen v - n <=? vlen v) eqn:C; zb; [i64; lia|]. reflexivity.
Qed.

(* ---- Partition: the cursors only count up to len (+1) ---- *)
Lemma partition_counters_in_range len i : len62 len -> 0 <= i <= len ->
  int64 (part_i_inc i) /\ int64 (part_j0 i) /\ int64 (part_j_inc i) /\ int64 (part_i_inc2 i) /\ int64 (part_j_inc2 i).
Proof. intros Hl Hi. unfold part_i_inc, part_j0, part_j_inc, part_i_inc2, part_j_inc2. i64. lia. Qed.

(* ---- beyond 2^62 elements (zero-size element types only) the arithmetic does overflow ---- *)
(* Rotate(make([]struct{}, MaxInt), MaxInt-1): after the first step i = k = MaxInt-1 and i + k wraps
   to -4; the real code panics with "index out of range [-4]". *)
Example rotate_overflow_witness :
  let n := 2 ^ 63 - 1 in let k := n - 1 in
  Z.rem (wrap64 (0 + k)) n = k /\ Z.rem (wrap64 (k + k)) n = -4.
Proof. vm_compute. split; reflexivity. Qed.

(* Chunks(make([]struct{}, MaxInt), MaxInt-1): the capacity hint wraps to -4/n = 0, the first chunk
   ends at n, the second at min(n + n, len) = -4: "slice bounds out of range [::-4]". *)
Example chunks_overflow_witness :
  let len := 2 ^ 63 - 1 in let n := len - 1 in
  Z.quot (wrap64 (wrap64 (len + n) - 1)) n = 0 /\ Z.min (wrap64 (0 + n)) len = n /\ Z.min (wrap64 (n + n)) len = -4.
Proof. vm_compute. repeat split; reflexivity. Qed.

(* ---- known finding F13: the length-only models of SliceUtilModel64.v ---- *)
Lemma w64_is_wrap64 z : w64 z = wrap64 z. Proof. reflexivity. Qed.

(* on views the length-only Chunks with the identity for w and the model's fuel IS the model's
   Chunks, and with w64 it is chunks64 *)
Lemma chunks_loopz_id : forall fuel v n i out, chunks_loopz wid fuel v n i out = chunks_loop fuel v n i out.
Proof.
  induction fuel as [|f IH]; intros v n i out; [reflexivity|]. cbn [chunks_loopz chunks_loop]. unfold wid.
  destruct (ch_loop i (vlen v)); [|reflexivity]. change (Z.min (i + n) (vlen v)) with (ch_end i n (vlen v)).
  destruct (slice3 v _ _ _); cbn [bind]; try reflexivity; apply IH.
Qed.

Lemma chunksz_id v n : chunksz wid (S (Z.to_nat (vlen v))) v n = chunks v n.
Proof. unfold chunksz, chunks, wid. rewrite chunks_loopz_id. reflexivity. Qed.

Lemma chunks_loopz_64 : forall fuel v n i out, chunks_loopz w64 fuel v n i out = chunks_loop64 fuel v n i out.
Proof.
  induction fuel as [|f IH]; intros v n i out; [reflexivity|]. cbn [chunks_loopz chunks_loop64].
  destruct (ch_loop i (vlen v)); [|reflexivity].
  destruct (slice3 v _ _ _); cbn [bind]; try reflexivity; apply IH.
Qed.

Lemma chunksz_64 v n : chunksz w64 (S (Z.to_nat (vlen v))) v n = chunks64 v n.
Proof. unfold chunksz, chunks64. rewrite chunks_loopz_64. reflexivity. Qed.

(* the witnesses of KNOWN_FINDINGS F13, len = MaxInt, k = n = MaxInt - 1: the 64-bit code panics
   at its second step; the unbounded code does not (Rotate: still running after 64 steps, and
   C17_rotate says it never panics; Chunks: the two chunks the documentation promises) *)
Example F13_rotate_witness :
  rotatez w64 64 (2 ^ 63 - 1) (2 ^ 63 - 2) = Panic PRtIndex /\ rotatez wid 64 (2 ^ 63 - 1) (2 ^ 63 - 2) = OutOfFuel.
Proof. split; vm_compute; reflexivity. Qed.

Example F13_chunks_witness :
  let len := 2 ^ 63 - 1 in
  chunksz w64 64 (mkView 0 len len) (len - 1) = Panic PRtSlice /\
  chunksz wid 64 (mkView 0 len len) (len - 1) = Ok [mkView 0 (len - 1) (len - 1); mkView (len - 1) 1 1].
Proof. split; vm_compute; reflexivity. Qed.
