(* Known finding F13: Rotate and Chunks on slices of more than 2^62 elements.  Definitions only.

   Such slices exist only for element types of size zero (make([]struct{}, math.MaxInt)); all their
   elements are the same value, so a slice is modelled by its LENGTH alone: s[i] and s[i] = x are
   just the bounds check [getz].  The loops are those of SliceUtilModel.v (same generated
   conditions and index expressions), with a function [w] applied to the result of every addition
   and subtraction -- the identity for the unbounded model, [w64] (two's-complement wrap-around)
   for the pinned code -- and with explicit small fuel, because lengths near 2^63 cannot be turned
   into unary numbers.  Used by ocaml/sliceutil_driver.ml for the trace lines "E ..." only. *)
From Coq Require Import ZArith List Bool.
Import ListNotations.
From Mds Require Import Gen.SliceIdx Slice.SliceUtilModel.
Local Open Scope Z_scope.

Definition w64 (z : Z) : Z := (z + 2 ^ 63) mod 2 ^ 64 - 2 ^ 63.
Definition wid (z : Z) : Z := z.
Definition above62 (n : Z) : bool := 2 ^ 62 <? n.

Section W.
Variable w : Z -> Z.

Definition getz (n i : Z) : res unit :=
  if (0 <=? i) && (i <? n) then Ok tt else Panic PRtIndex.

Definition slice_check_w (i n : Z) : Z * bool :=
  let i := if sc_neg i n then w (sc_adj i n) else i in
  (sc_pos i n, sc_ok i n).

(* the inner for {} of Rotate; rot_next = (i + k) % n with the sum passed through w *)
Fixpoint cyclez (fuel : nat) (n k j i : Z) : res unit :=
  match fuel with
  | O => OutOfFuel
  | S f =>
    if rot_inner_cond then
      if n =? 0 then Panic PRtDiv
      else
        let next := Z.rem (w (i + k)) n in
        do _r <- getz n (rot_read_idx next);
        do _s <- getz n (rot_write_idx next);
        if rot_break next j then Ok tt
        else cyclez f n k j (rot_i_step next)
    else Ok tt
  end.

(* for j := range g *)
Fixpoint cyclesz (fuel : nat) (n k g j : Z) : res unit :=
  match fuel with
  | O => OutOfFuel
  | S f =>
    if j <? g then
      do _c <- getz n (rot_cur0_idx j);
      do _l <- cyclez f n k j (rot_i0 j);
      cyclesz f n k g (w (j + 1))
    else Ok tt
  end.

Definition rotatez (fuel : nat) (n k : Z) : res unit :=
  let ko := slice_check_w (rot_arg_k k n) (rot_arg_n k n) in
  let k := fst ko in
  if rot_bad (snd ko) then Panic PDocOffset
  else if rot_noop k n then Ok tt
  else
    do g <- gcd_loop 200 (rot_gcd_a k n) (rot_gcd_b k n);
    cyclesz fuel n k (rot_ncycles (rot_g g)) 0.

(* Chunks on views (as in SliceUtilModel.chunks), sums passed through w, explicit fuel *)
Fixpoint chunks_loopz (fuel : nat) (v : view) (n i : Z) (out : list view) : res (list view) :=
  match fuel with
  | O => OutOfFuel
  | S f =>
    let len := vlen v in
    if ch_loop i len then
      let e := Z.min (w (i + n)) len in
      do c <- slice3 v (ch_lo i e) (ch_hi i e) (ch_max i e);
      chunks_loopz f v n (ch_i_next e) (out ++ [c])
    else Ok out
  end.

Definition chunksz (fuel : nat) (v : view) (n : Z) : res (list view) :=
  let len := vlen v in
  if ch_neg n then Panic PDocMax
  else if ch_single n len then Ok [v]
  else if n =? 0 then Panic PRtDiv
  else if Z.quot (w (w (len + n) - 1)) n <? 0 then Panic PRtMake
  else chunks_loopz fuel v n ch_i0 [].

End W.
