(* The theorems of property C11 about the full model (LCSFunc's model followed by the edit
   loop): Slice/EditProofs.v instantiated with the facts C12 proves about lcs_func
   (Slice/LcsProofs.v: total, an exact subsequence of one input and an eqb-subsequence of the
   other, of maximum length).

   Part 1 (Section EditTheoremsPer): for every element type and every PARTIAL equivalence eqb
   (symmetric and transitive; reflexivity not needed).  This is what == is on every comparable Go
   type, floating-point NaN included (NaN == NaN is false: such elements are related to nothing,
   never enter the LCS and are dropped / copied).
   Part 2: the same under the names and signatures of the first round (reflexive, symmetric,
   transitive) -- other slices (Mdiff/MdiffCompose.v) call these positionally; keep them stable.
   Part 3: eqb decides equality (the public EditScript on ints, strings, ...). *)
From Coq Require Import ZArith List Bool Lia.
Import ListNotations.
From Mds Require Import Gen.EditIdx Slice.Subseq Slice.LcsModel Slice.LcsProofs
     Slice.EditModel Slice.EditSpecProofs Slice.EditProofs Slice.EditCapProofs.

Section EditTheoremsPer.
  Variable T : Type.
  Variable eqb : T -> T -> bool.
  Hypothesis eqb_sym : forall x y, eqb x y = true -> eqb y x = true.
  Hypothesis eqb_trans : forall x y z, eqb x y = true -> eqb y z = true -> eqb x z = true.

  (* C12's lcs_func_exact (no law needed): the value is an exact subsequence of one input and
     an eqb-subsequence of the other; under a partial equivalence its elements are related to
     themselves, so it is an eqb-subsequence of both *)
  Lemma lcs_func_common_per : forall l r s,
      lcs_func T eqb l r = Some s -> SubseqB eqb s l /\ SubseqB eqb s r.
  Proof.
    intros l r s H. pose proof (lcs_func_exact T eqb l r s H) as E. unfold lcs_swap in E.
    destruct (Gen.LcsIdx.lcs_swap_cond (LcsModel.zlen l) (LcsModel.zlen r)); destruct E as [E1 E2];
      pose proof (SubB_self T eqb eqb_sym eqb_trans _ _ E2) as Hs;
      pose proof (Subseq_SubB_self T eqb _ _ E1 Hs); tauto.
  Qed.

  (* lcs := LCSFunc(a, b, eq) where (a, b) is (lhs, rhs) in the order the call passes them
     (EditProofs.skeleton_calls: one of the two orders): in either order the value is a common
     subsequence of lhs and rhs that no common subsequence exceeds *)
  Lemma lcs_call_facts : forall lhs rhs,
      exists a b L,
        pick_arg T (es_lcs_arg0 0 1 2) lhs rhs = Some a /\
        pick_arg T (es_lcs_arg1 0 1 2) lhs rhs = Some b /\
        lcs_func T eqb a b = Some L /\
        SubseqB eqb L lhs /\ SubseqB eqb L rhs /\
        (forall t, SubseqB eqb t lhs -> SubseqB eqb t rhs -> (length t <= length L)%nat).
  Proof.
    intros lhs rhs. destruct skeleton_calls as [Ho _]. revert Ho.
    generalize (es_lcs_arg0 0 1 2) (es_lcs_arg1 0 1 2).
    intros c0 c1 [[= -> ->] | [= -> ->]]; cbn [pick_arg Z.eqb].
    - destruct (lcs_func_total T eqb lhs rhs) as [L HL].
      destruct (lcs_func_common_per lhs rhs L HL) as [Hl Hr].
      pose proof (lcs_func_optimal T eqb eqb_sym eqb_trans lhs rhs L HL) as Hopt.
      exists lhs, rhs, L. auto 7.
    - destruct (lcs_func_total T eqb rhs lhs) as [L HL].
      destruct (lcs_func_common_per rhs lhs L HL) as [Hr Hl].
      pose proof (lcs_func_optimal T eqb eqb_sym eqb_trans rhs lhs L HL) as Hopt.
      exists rhs, lhs, L. repeat split; auto.
  Qed.

  (* everything at once, about the faithful result on inputs without spare capacity *)
  Theorem edit_script_run_spec_per : forall lhs rhs,
      exists L es,
        lcs_func T eqb lhs rhs = Some L /\
        CommonSubseq eqb L lhs rhs /\
        (forall t, CommonSubseq eqb t lhs rhs -> (length t <= length L)%nat) /\
        edit_script_run eqb lhs rhs = EOk es /\
        ValidScript eqb lhs rhs es /\
        kept (expand lhs es) = length L /\
        (forall es', Valid eqb lhs rhs es' -> (kept es' <= kept (expand lhs es))%nat) /\
        canonical es = true /\ alternating es = true /\
        (es = [] <-> EqLists eqb lhs rhs).
  Proof.
    intros lhs rhs.
    destruct (lcs_func_total T eqb lhs rhs) as [L HL].
    destruct (lcs_func_common_per lhs rhs L HL) as [Hl Hr].
    pose proof (lcs_func_optimal T eqb eqb_sym eqb_trans lhs rhs L HL) as Hopt.
    destruct (lcs_call_facts lhs rhs) as (a & b & L' & Ha & Hb & HL' & Hl' & Hr' & Hopt').
    assert (Hlen : length L' = length L)
      by (apply Nat.le_antisymm; [now apply Hopt | now apply Hopt']).
    destruct (of_lcs_main T eqb eqb_sym eqb_trans [] [] lhs rhs L' Hl' Hr')
      as (es & Hrun & Hv & Hk & Hc & Hal & He).
    exists L, es. unfold edit_script_run, edit_script_run_cap. rewrite Ha, Hb, HL'.
    repeat split; try assumption.
    - intros t [H1 H2]. exact (Hopt t H1 H2).
    - congruence.
    - intros es' Hv'. rewrite Hk.
      exact (Valid_kept_le T eqb eqb_sym eqb_trans lhs rhs L' Hopt' es' Hv').
    - intros Heq.
      pose proof (of_lcs_equal_inputs T eqb eqb_sym eqb_trans [] [] lhs rhs L' Hl' Hr' Hopt' Heq) as H0.
      congruence.
  Qed.

  (* no index out of range, no slice bound out of range, no loop out of fuel *)
  Theorem edit_script_run_ok_per : forall lhs rhs,
      edit_script_run eqb lhs rhs = EOk (edit_script_func eqb lhs rhs).
  Proof.
    intros lhs rhs. destruct (edit_script_run_spec_per lhs rhs) as (L & es & _ & _ & _ & Hrun & _).
    unfold edit_script_func. now rewrite Hrun.
  Qed.

  (* whatever the spare capacity of the inputs holds (Go checks slice bounds against cap, and a
     slice could expose what lies beyond len): the same script *)
  Theorem edit_script_run_cap_indep_per : forall lx rx lhs rhs,
      edit_script_run_cap eqb lx rx lhs rhs = EOk (edit_script_func eqb lhs rhs).
  Proof.
    intros lx rx lhs rhs. apply edit_script_run_cap_mono. apply edit_script_run_ok_per.
  Qed.

  Lemma func_spec_per : forall lhs rhs,
      exists L, lcs_func T eqb lhs rhs = Some L /\
        let es := edit_script_func eqb lhs rhs in
        ValidScript eqb lhs rhs es /\
        kept (expand lhs es) = length L /\
        (forall es', Valid eqb lhs rhs es' -> (kept es' <= kept (expand lhs es))%nat) /\
        canonical es = true /\ alternating es = true /\
        (es = [] <-> EqLists eqb lhs rhs).
  Proof.
    intros lhs rhs. destruct (edit_script_run_spec_per lhs rhs) as (L & es & HL & _ & _ & Hrun & H).
    exists L. split; [assumption|]. unfold edit_script_func. rewrite Hrun. exact H.
  Qed.

  Theorem edit_script_valid_per : forall lhs rhs,
      ValidScript eqb lhs rhs (edit_script_func eqb lhs rhs).
  Proof. intros lhs rhs. destruct (func_spec_per lhs rhs) as (L & _ & H & _). exact H. Qed.

  Theorem edit_script_kept_per : forall lhs rhs,
      exists L, lcs_func T eqb lhs rhs = Some L /\
                kept (expand lhs (edit_script_func eqb lhs rhs)) = length L.
  Proof. intros lhs rhs. destruct (func_spec_per lhs rhs) as (L & HL & _ & H & _). eauto. Qed.

  Theorem edit_script_minimal_per : forall lhs rhs es',
      Valid eqb lhs rhs es' ->
      (kept es' <= kept (expand lhs (edit_script_func eqb lhs rhs)))%nat.
  Proof. intros lhs rhs. destruct (func_spec_per lhs rhs) as (L & _ & _ & _ & H & _). exact H. Qed.

  (* the same against the most general class of scripts (any sequence of edits that executes
     from lhs to rhs, unused fields ignored) ... *)
  Theorem edit_script_minimal_exec_per : forall lhs rhs es',
      Exec eqb lhs rhs es' ->
      (kept es' <= kept (expand lhs (edit_script_func eqb lhs rhs)))%nat.
  Proof.
    intros lhs rhs es' H. destruct (Exec_clean T eqb es' lhs rhs H) as (Hv & <- & _).
    now apply edit_script_minimal_per.
  Qed.

  (* ... and read as the size of the change: no script removes + inserts fewer elements *)
  Theorem edit_script_least_cost_per : forall lhs rhs es',
      Exec eqb lhs rhs es' ->
      (cost (expand lhs (edit_script_func eqb lhs rhs)) <= cost es')%nat.
  Proof.
    intros lhs rhs es' H.
    pose proof (edit_script_minimal_exec_per lhs rhs es' H) as Hk.
    pose proof (Exec_cost T eqb es' lhs rhs H) as H1.
    pose proof (Exec_cost T eqb _ lhs rhs (Valid_Exec T eqb _ _ _ (edit_script_valid_per lhs rhs))) as H2.
    lia.
  Qed.

  Theorem edit_script_canonical_per : forall lhs rhs,
      canonical (edit_script_func eqb lhs rhs) = true /\
      alternating (edit_script_func eqb lhs rhs) = true.
  Proof. intros lhs rhs. destruct (func_spec_per lhs rhs) as (L & _ & _ & _ & _ & H1 & H2 & _). auto. Qed.

  Theorem edit_script_empty_iff_per : forall lhs rhs,
      edit_script_func eqb lhs rhs = [] <-> EqLists eqb lhs rhs.
  Proof. intros lhs rhs. destruct (func_spec_per lhs rhs) as (L & _ & _ & _ & _ & _ & _ & H). exact H. Qed.

  (* read as an execution: the script consumes exactly lhs; its output is rhs, position by
     position the very element of rhs (Copy, Replace) or an element of lhs equivalent to it
     (Emit) *)
  Theorem edit_script_exec_per : forall lhs rhs,
      let es := expand lhs (edit_script_func eqb lhs rhs) in
      consumed es = lhs /\ Forall2 (fun a b => a = b \/ eqb a b = true) (produced es) rhs.
  Proof. intros lhs rhs. exact (Valid_exec_gen T eqb _ lhs rhs (edit_script_valid_per lhs rhs)). Qed.

  (* the whole property in one statement, at full strength: any spare capacity behind the
     inputs, minimality against every executable script, in kept elements and in size of change *)
  Theorem edit_script_full_spec : forall lhs rhs,
      exists L es,
        lcs_func T eqb lhs rhs = Some L /\
        CommonSubseq eqb L lhs rhs /\
        (forall t, CommonSubseq eqb t lhs rhs -> (length t <= length L)%nat) /\
        (forall lx rx, edit_script_run_cap eqb lx rx lhs rhs = EOk es) /\
        ValidScript eqb lhs rhs es /\
        kept (expand lhs es) = length L /\
        (forall es', Exec eqb lhs rhs es' ->
                     (kept es' <= kept (expand lhs es))%nat /\
                     (cost (expand lhs es) <= cost es')%nat) /\
        canonical es = true /\ alternating es = true /\
        (es = [] <-> EqLists eqb lhs rhs).
  Proof.
    intros lhs rhs.
    destruct (edit_script_run_spec_per lhs rhs) as (L & es & HL & Hc & Ho & Hrun & Hv & Hk & _ & Hcan & Halt & He).
    assert (Hes : es = edit_script_func eqb lhs rhs) by (unfold edit_script_func; now rewrite Hrun).
    exists L, es. subst es.
    split; [exact HL|]. split; [exact Hc|]. split; [exact Ho|].
    split; [intros lx rx; apply edit_script_run_cap_indep_per|].
    split; [exact Hv|]. split; [exact Hk|].
    split; [intros es' He'; split;
            [now apply edit_script_minimal_exec_per | now apply edit_script_least_cost_per]|].
    split; [exact Hcan|]. split; [exact Halt | exact He].
  Qed.
End EditTheoremsPer.

(* ---- Part 2: the first round's names, for an equivalence (explicit hypotheses: callers pass
   T eqb refl sym trans positionally) --------------------------------------------------------- *)
Section EditTheorems.
  Variable T : Type.
  Variable eqb : T -> T -> bool.

  Local Notation Refl := (forall x, eqb x x = true).
  Local Notation Sym := (forall x y, eqb x y = true -> eqb y x = true).
  Local Notation Trans := (forall x y z, eqb x y = true -> eqb y z = true -> eqb x z = true).

  Theorem edit_script_run_spec : Refl -> Sym -> Trans -> forall lhs rhs,
      exists L es,
        lcs_func T eqb lhs rhs = Some L /\
        CommonSubseq eqb L lhs rhs /\
        (forall t, CommonSubseq eqb t lhs rhs -> (length t <= length L)%nat) /\
        edit_script_run eqb lhs rhs = EOk es /\
        ValidScript eqb lhs rhs es /\
        kept (expand lhs es) = length L /\
        (forall es', Valid eqb lhs rhs es' -> (kept es' <= kept (expand lhs es))%nat) /\
        canonical es = true /\ alternating es = true /\
        (es = [] <-> EqLists eqb lhs rhs).
  Proof. intros _ Hs Ht. exact (edit_script_run_spec_per T eqb Hs Ht). Qed.

  Theorem edit_script_run_ok : Refl -> Sym -> Trans -> forall lhs rhs,
      edit_script_run eqb lhs rhs = EOk (edit_script_func eqb lhs rhs).
  Proof. intros _ Hs Ht. exact (edit_script_run_ok_per T eqb Hs Ht). Qed.

  Theorem edit_script_run_cap_indep : Refl -> Sym -> Trans -> forall lx rx lhs rhs,
      edit_script_run_cap eqb lx rx lhs rhs = EOk (edit_script_func eqb lhs rhs).
  Proof. intros _ Hs Ht. exact (edit_script_run_cap_indep_per T eqb Hs Ht). Qed.

  Theorem edit_script_valid : Refl -> Sym -> Trans -> forall lhs rhs,
      ValidScript eqb lhs rhs (edit_script_func eqb lhs rhs).
  Proof. intros _ Hs Ht. exact (edit_script_valid_per T eqb Hs Ht). Qed.

  Theorem edit_script_kept : Refl -> Sym -> Trans -> forall lhs rhs,
      exists L, lcs_func T eqb lhs rhs = Some L /\
                kept (expand lhs (edit_script_func eqb lhs rhs)) = length L.
  Proof. intros _ Hs Ht. exact (edit_script_kept_per T eqb Hs Ht). Qed.

  Theorem edit_script_minimal : Refl -> Sym -> Trans -> forall lhs rhs es',
      Valid eqb lhs rhs es' ->
      (kept es' <= kept (expand lhs (edit_script_func eqb lhs rhs)))%nat.
  Proof. intros _ Hs Ht. exact (edit_script_minimal_per T eqb Hs Ht). Qed.

  Theorem edit_script_minimal_exec : Refl -> Sym -> Trans -> forall lhs rhs es',
      Exec eqb lhs rhs es' ->
      (kept es' <= kept (expand lhs (edit_script_func eqb lhs rhs)))%nat.
  Proof. intros _ Hs Ht. exact (edit_script_minimal_exec_per T eqb Hs Ht). Qed.

  Theorem edit_script_least_cost : Refl -> Sym -> Trans -> forall lhs rhs es',
      Exec eqb lhs rhs es' ->
      (cost (expand lhs (edit_script_func eqb lhs rhs)) <= cost es')%nat.
  Proof. intros _ Hs Ht. exact (edit_script_least_cost_per T eqb Hs Ht). Qed.

  Theorem edit_script_canonical : Refl -> Sym -> Trans -> forall lhs rhs,
      canonical (edit_script_func eqb lhs rhs) = true /\
      alternating (edit_script_func eqb lhs rhs) = true.
  Proof. intros _ Hs Ht. exact (edit_script_canonical_per T eqb Hs Ht). Qed.

  Theorem edit_script_empty_iff : Refl -> Sym -> Trans -> forall lhs rhs,
      edit_script_func eqb lhs rhs = [] <-> EqLists eqb lhs rhs.
  Proof. intros _ Hs Ht. exact (edit_script_empty_iff_per T eqb Hs Ht). Qed.

  (* read as an execution: the script consumes exactly lhs and outputs rhs (up to eqb) *)
  Theorem edit_script_exec : Refl -> Sym -> Trans -> forall lhs rhs,
      let es := expand lhs (edit_script_func eqb lhs rhs) in
      consumed es = lhs /\ EqLists eqb (produced es) rhs.
  Proof.
    intros Hr Hs Ht lhs rhs.
    exact (Valid_exec T eqb Hr _ lhs rhs (edit_script_valid_per T eqb Hs Ht lhs rhs)).
  Qed.
End EditTheorems.

(* ---- Part 3: the public EditScript: eq is ==, i.e. eqb decides equality; the output is rhs
   itself. ------------------------------------------------------------------------------------ *)
Section EditScriptComparable.
  Variable T : Type.
  Variable eqb : T -> T -> bool.
  Hypothesis eqb_eq : forall a b, eqb a b = true <-> a = b.

  Lemma dec_refl : forall x, eqb x x = true.
  Proof. intros x. now apply eqb_eq. Qed.
  Lemma dec_sym : forall x y, eqb x y = true -> eqb y x = true.
  Proof. intros x y H. apply eqb_eq in H. subst. apply dec_refl. Qed.
  Lemma dec_trans : forall x y z, eqb x y = true -> eqb y z = true -> eqb x z = true.
  Proof. intros x y z H1 H2. apply eqb_eq in H1. now subst. Qed.

  Lemma EqLists_eq : forall l r, EqLists eqb l r -> l = r.
  Proof. unfold EqLists. induction 1; [reflexivity|]. f_equal; [now apply eqb_eq | assumption]. Qed.

  Theorem edit_script_exec_exact : forall lhs rhs,
      let es := expand lhs (edit_script_func eqb lhs rhs) in
      consumed es = lhs /\ produced es = rhs.
  Proof.
    intros lhs rhs es. destruct (edit_script_exec T eqb dec_refl dec_sym dec_trans lhs rhs) as [H1 H2].
    split; [exact H1 | exact (EqLists_eq _ _ H2)].
  Qed.

  Theorem edit_script_empty_iff_eq : forall lhs rhs,
      edit_script_func eqb lhs rhs = [] <-> lhs = rhs.
  Proof.
    intros lhs rhs. rewrite (edit_script_empty_iff T eqb dec_refl dec_sym dec_trans). split.
    - apply EqLists_eq.
    - intros ->. unfold EqLists. induction rhs; constructor; [apply dec_refl | assumption].
  Qed.
End EditScriptComparable.
