(* The theorems of property C11 about the full model (LCSFunc's model followed by the edit
   loop), for every element type and every equivalence eqb: Slice/EditProofs.v instantiated
   with the facts C12 proves about lcs_func (Slice/LcsProofs.v: total, a common subsequence,
   of maximum length). *)
From Coq Require Import ZArith List Bool Lia.
Import ListNotations.
From Mds Require Import Gen.EditIdx Slice.Subseq Slice.LcsModel Slice.LcsProofs
     Slice.EditModel Slice.EditSpecProofs Slice.EditProofs Slice.EditCapProofs.

Section EditTheorems.
  Variable T : Type.
  Variable eqb : T -> T -> bool.
  Hypothesis eqb_refl : forall x, eqb x x = true.
  Hypothesis eqb_sym : forall x y, eqb x y = true -> eqb y x = true.
  Hypothesis eqb_trans : forall x y z, eqb x y = true -> eqb y z = true -> eqb x z = true.

  (* lcs := LCSFunc(a, b, eq) where (a, b) is (lhs, rhs) in the order the call passes them
     (EditProofs.skeleton_calls: one of the two orders): in either order the value is a common
     subsequence of lhs and rhs that no common subsequence exceeds *)
  Lemma lcs_call_facts : forall lhs rhs,
      exists a b L,
        pick_arg T (es_lcs_arg0 0 1 2) lhs rhs = Some a /\
        pick_arg T (es_lcs_arg1 0 1 2) lhs rhs = Some b /\
        lcs_func T eqb a b = Some L /\
        SubseqB eqb L lhs /\ SubseqB eqb L rhs /\
        (forall t, SubseqB eqb t lhs -> SubseqB eqb t rhs -> (length t <= length L)%nat).
  Proof.
    intros lhs rhs. destruct skeleton_calls as [Ho _]. revert Ho.
    generalize (es_lcs_arg0 0 1 2) (es_lcs_arg1 0 1 2).
    intros c0 c1 [[= -> ->] | [= -> ->]]; cbn [pick_arg Z.eqb].
    - destruct (lcs_func_total T eqb lhs rhs) as [L HL].
      destruct (lcs_func_common T eqb eqb_refl lhs rhs L HL) as [Hl Hr].
      pose proof (lcs_func_optimal T eqb eqb_sym eqb_trans lhs rhs L HL) as Hopt.
      exists lhs, rhs, L. auto 7.
    - destruct (lcs_func_total T eqb rhs lhs) as [L HL].
      destruct (lcs_func_common T eqb eqb_refl rhs lhs L HL) as [Hr Hl].
      pose proof (lcs_func_optimal T eqb eqb_sym eqb_trans rhs lhs L HL) as Hopt.
      exists rhs, lhs, L. repeat split; auto.
  Qed.

  (* everything at once, about the faithful result *)
  Theorem edit_script_run_spec : forall lhs rhs,
      exists L es,
        lcs_func T eqb lhs rhs = Some L /\
        CommonSubseq eqb L lhs rhs /\
        (forall t, CommonSubseq eqb t lhs rhs -> (length t <= length L)%nat) /\
        edit_script_run eqb lhs rhs = EOk es /\
        ValidScript eqb lhs rhs es /\
        kept (expand lhs es) = length L /\
        (forall es', Valid eqb lhs rhs es' -> (kept es' <= kept (expand lhs es))%nat) /\
        canonical es = true /\ alternating es = true /\
        (es = [] <-> EqLists eqb lhs rhs).
  Proof.
    intros lhs rhs.
    destruct (lcs_func_total T eqb lhs rhs) as [L HL].
    destruct (lcs_func_common T eqb eqb_refl lhs rhs L HL) as [Hl Hr].
    pose proof (lcs_func_optimal T eqb eqb_sym eqb_trans lhs rhs L HL) as Hopt.
    destruct (lcs_call_facts lhs rhs) as (a & b & L' & Ha & Hb & HL' & Hl' & Hr' & Hopt').
    assert (Hlen : length L' = length L)
      by (apply Nat.le_antisymm; [now apply Hopt | now apply Hopt']).
    destruct (of_lcs_main T eqb eqb_sym eqb_trans [] [] lhs rhs L' Hl' Hr')
      as (es & Hrun & Hv & Hk & Hc & Hal & He).
    exists L, es. unfold edit_script_run, edit_script_run_cap. rewrite Ha, Hb, HL'.
    repeat split; try assumption.
    - intros t [H1 H2]. exact (Hopt t H1 H2).
    - congruence.
    - intros es' Hv'. rewrite Hk.
      exact (Valid_kept_le T eqb eqb_refl lhs rhs L' Hopt' es' Hv').
    - intros Heq.
      pose proof (of_lcs_equal_inputs T eqb eqb_refl eqb_sym eqb_trans [] [] lhs rhs L' Hl' Hr' Hopt' Heq) as H0.
      congruence.
  Qed.

  (* no index out of range, no slice bound out of range, no loop out of fuel *)
  Theorem edit_script_run_ok : forall lhs rhs,
      edit_script_run eqb lhs rhs = EOk (edit_script_func eqb lhs rhs).
  Proof.
    intros lhs rhs. destruct (edit_script_run_spec lhs rhs) as (L & es & _ & _ & _ & Hrun & _).
    unfold edit_script_func. now rewrite Hrun.
  Qed.

  (* whatever the spare capacity of the inputs holds (Go checks slice bounds against cap, and a
     slice could expose what lies beyond len): the same script *)
  Theorem edit_script_run_cap_indep : forall lx rx lhs rhs,
      edit_script_run_cap eqb lx rx lhs rhs = EOk (edit_script_func eqb lhs rhs).
  Proof.
    intros lx rx lhs rhs. apply edit_script_run_cap_mono. apply edit_script_run_ok.
  Qed.

  Lemma func_spec : forall lhs rhs,
      exists L, lcs_func T eqb lhs rhs = Some L /\
        let es := edit_script_func eqb lhs rhs in
        ValidScript eqb lhs rhs es /\
        kept (expand lhs es) = length L /\
        (forall es', Valid eqb lhs rhs es' -> (kept es' <= kept (expand lhs es))%nat) /\
        canonical es = true /\ alternating es = true /\
        (es = [] <-> EqLists eqb lhs rhs).
  Proof.
    intros lhs rhs. destruct (edit_script_run_spec lhs rhs) as (L & es & HL & _ & _ & Hrun & H).
    exists L. split; [assumption|]. unfold edit_script_func. rewrite Hrun. exact H.
  Qed.

  Theorem edit_script_valid : forall lhs rhs,
      ValidScript eqb lhs rhs (edit_script_func eqb lhs rhs).
  Proof. intros lhs rhs. destruct (func_spec lhs rhs) as (L & _ & H & _). exact H. Qed.

  Theorem edit_script_kept : forall lhs rhs,
      exists L, lcs_func T eqb lhs rhs = Some L /\
                kept (expand lhs (edit_script_func eqb lhs rhs)) = length L.
  Proof. intros lhs rhs. destruct (func_spec lhs rhs) as (L & HL & _ & H & _). eauto. Qed.

  Theorem edit_script_minimal : forall lhs rhs es',
      Valid eqb lhs rhs es' ->
      (kept es' <= kept (expand lhs (edit_script_func eqb lhs rhs)))%nat.
  Proof. intros lhs rhs. destruct (func_spec lhs rhs) as (L & _ & _ & _ & H & _). exact H. Qed.

  (* the same against the most general class of scripts (any sequence of edits that executes
     from lhs to rhs, unused fields ignored) ... *)
  Theorem edit_script_minimal_exec : forall lhs rhs es',
      Exec eqb lhs rhs es' ->
      (kept es' <= kept (expand lhs (edit_script_func eqb lhs rhs)))%nat.
  Proof.
    intros lhs rhs es' H. destruct (Exec_clean T eqb es' lhs rhs H) as (Hv & <- & _).
    now apply edit_script_minimal.
  Qed.

  (* ... and read as the size of the change: no script removes + inserts fewer elements *)
  Theorem edit_script_least_cost : forall lhs rhs es',
      Exec eqb lhs rhs es' ->
      (cost (expand lhs (edit_script_func eqb lhs rhs)) <= cost es')%nat.
  Proof.
    intros lhs rhs es' H.
    pose proof (edit_script_minimal_exec lhs rhs es' H) as Hk.
    pose proof (Exec_cost T eqb es' lhs rhs H) as H1.
    pose proof (Exec_cost T eqb _ lhs rhs (Valid_Exec T eqb _ _ _ (edit_script_valid lhs rhs))) as H2.
    lia.
  Qed.

  Theorem edit_script_canonical : forall lhs rhs,
      canonical (edit_script_func eqb lhs rhs) = true /\
      alternating (edit_script_func eqb lhs rhs) = true.
  Proof. intros lhs rhs. destruct (func_spec lhs rhs) as (L & _ & _ & _ & _ & H1 & H2 & _). auto. Qed.

  Theorem edit_script_empty_iff : forall lhs rhs,
      edit_script_func eqb lhs rhs = [] <-> EqLists eqb lhs rhs.
  Proof. intros lhs rhs. destruct (func_spec lhs rhs) as (L & _ & _ & _ & _ & _ & _ & H). exact H. Qed.

  (* the whole property in one statement, at full strength: any spare capacity behind the
     inputs, minimality against every executable script, in kept elements and in size of change *)
  Theorem edit_script_full_spec : forall lhs rhs,
      exists L es,
        lcs_func T eqb lhs rhs = Some L /\
        CommonSubseq eqb L lhs rhs /\
        (forall t, CommonSubseq eqb t lhs rhs -> (length t <= length L)%nat) /\
        (forall lx rx, edit_script_run_cap eqb lx rx lhs rhs = EOk es) /\
        ValidScript eqb lhs rhs es /\
        kept (expand lhs es) = length L /\
        (forall es', Exec eqb lhs rhs es' ->
                     (kept es' <= kept (expand lhs es))%nat /\
                     (cost (expand lhs es) <= cost es')%nat) /\
        canonical es = true /\ alternating es = true /\
        (es = [] <-> EqLists eqb lhs rhs).
  Proof.
    intros lhs rhs.
    destruct (edit_script_run_spec lhs rhs) as (L & es & HL & Hc & Ho & Hrun & Hv & Hk & _ & Hcan & Halt & He).
    assert (Hes : es = edit_script_func eqb lhs rhs) by (unfold edit_script_func; now rewrite Hrun).
    exists L, es. subst es.
    split; [exact HL|]. split; [exact Hc|]. split; [exact Ho|].
    split; [intros lx rx; apply edit_script_run_cap_indep|].
    split; [exact Hv|]. split; [exact Hk|].
    split; [intros es' He'; split;
            [now apply edit_script_minimal_exec | now apply edit_script_least_cost]|].
    split; [exact Hcan|]. split; [exact Halt | exact He].
  Qed.

  (* read as an execution: the script consumes exactly lhs and outputs rhs (up to eqb) *)
  Theorem edit_script_exec : forall lhs rhs,
      let es := expand lhs (edit_script_func eqb lhs rhs) in
      consumed es = lhs /\ EqLists eqb (produced es) rhs.
  Proof. intros lhs rhs. exact (Valid_exec T eqb eqb_refl _ lhs rhs (edit_script_valid lhs rhs)). Qed.
End EditTheorems.

(* The public EditScript: eq is ==, i.e. eqb decides equality; the output is rhs itself. *)
Section EditScriptComparable.
  Variable T : Type.
  Variable eqb : T -> T -> bool.
  Hypothesis eqb_eq : forall a b, eqb a b = true <-> a = b.

  Lemma dec_refl : forall x, eqb x x = true.
  Proof. intros x. now apply eqb_eq. Qed.
  Lemma dec_sym : forall x y, eqb x y = true -> eqb y x = true.
  Proof. intros x y H. apply eqb_eq in H. subst. apply dec_refl. Qed.
  Lemma dec_trans : forall x y z, eqb x y = true -> eqb y z = true -> eqb x z = true.
  Proof. intros x y z H1 H2. apply eqb_eq in H1. now subst. Qed.

  Lemma EqLists_eq : forall l r, EqLists eqb l r -> l = r.
  Proof. unfold EqLists. induction 1; [reflexivity|]. f_equal; [now apply eqb_eq | assumption]. Qed.

  Theorem edit_script_exec_exact : forall lhs rhs,
      let es := expand lhs (edit_script_func eqb lhs rhs) in
      consumed es = lhs /\ produced es = rhs.
  Proof.
    intros lhs rhs es. destruct (edit_script_exec T eqb dec_refl dec_sym dec_trans lhs rhs) as [H1 H2].
    split; [exact H1 | exact (EqLists_eq _ _ H2)].
  Qed.

  Theorem edit_script_empty_iff_eq : forall lhs rhs,
      edit_script_func eqb lhs rhs = [] <-> lhs = rhs.
  Proof.
    intros lhs rhs. rewrite (edit_script_empty_iff T eqb dec_refl dec_sym dec_trans). split.
    - apply EqLists_eq.
    - intros ->. unfold EqLists. induction rhs; constructor; [apply dec_refl | assumption].
  Qed.
End EditScriptComparable.
