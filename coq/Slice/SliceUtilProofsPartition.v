(* C17: Partition.  The two-cursor loop returns exactly the kept elements in order, as a
   capacity-clipped prefix, and leaves the slice a permutation of its original contents. *)
From Coq Require Import ZArith List Bool Lia Permutation.
Import ListNotations.
From Mds Require Import Gen.SliceIdx Slice.SliceUtilModel Slice.SliceUtilSpec Slice.SliceUtilProofs.
Local Open Scope Z_scope.

Section Part.
Context {T : Type}.
Variable keep : T -> bool.

Definition kept (x : T) : Prop := keep x = true.
Definition unkept (x : T) : Prop := keep x = false.

Lemma filter_unkept (u : list T) : Forall unkept u -> filter keep u = [].
Proof. induction 1 as [|x u Hx _ IH]; cbn [filter]; [reflexivity|]. rewrite Hx. exact IH. Qed.

Lemma filter_kept (u : list T) : Forall kept u -> filter keep u = u.
Proof. induction 1 as [|x u Hx _ IH]; cbn [filter]; [reflexivity|]. rewrite Hx, IH. reflexivity. Qed.

(* for i < len(vs) && keep(vs[i]) { i++ }  started at the end of a, with r still ahead *)
Lemma scan_i_ok : forall (r a : list T) fuel, (length r < fuel)%nat ->
  exists k r', r = k ++ r' /\ Forall kept k /\
    (r' = [] \/ exists x r'', r' = x :: r'' /\ unkept x) /\
    scan_i keep fuel (a ++ r) (zlen a) = Ok (zlen (a ++ k)).
Proof.
  induction r as [|x r IH]; intros a fuel Hf; (destruct fuel as [|f]; [cbn [length] in Hf; lia|]);
    cbn [scan_i]; unfold part_scan_i, part_scan_i_idx, part_i_inc.
  - exists [], []. rewrite !app_nil_r, Z.ltb_irrefl. cbn [andb]. repeat split; auto.
  - assert (L : zlen a <? zlen (a ++ x :: r) = true) by (apply Z.ltb_lt; rewrite zlen_app, zlen_cons; pose proof (zlen_nonneg r); lia).
    rewrite L, get_app_mid. cbn [andb bind].
    destruct (keep x) eqn:Kx.
    + destruct (IH (a ++ [x]) f ltac:(cbn [length] in Hf; lia)) as (k & r' & E & Fk & Hd & S).
      exists (x :: k), r'. split; [cbn [app]; f_equal; exact E|]. split; [constructor; assumption|]. split; [exact Hd|].
      rewrite <- app_assoc in S. cbn [app] in S. rewrite zlen_app in S. change (zlen [x]) with 1 in S. rewrite S.
      rewrite <- app_assoc. reflexivity.
    + exists [], (x :: r). rewrite app_nil_r. repeat split; auto. right. exists x, r. split; [reflexivity|exact Kx].
Qed.

(* for j < len(vs) && !keep(vs[j]) { j++ } *)
Lemma scan_j_ok : forall (r a : list T) fuel, (length r < fuel)%nat ->
  exists u r', r = u ++ r' /\ Forall unkept u /\
    (r' = [] \/ exists x r'', r' = x :: r'' /\ kept x) /\
    scan_j keep fuel (a ++ r) (zlen a) = Ok (zlen (a ++ u)).
Proof.
  induction r as [|x r IH]; intros a fuel Hf; (destruct fuel as [|f]; [cbn [length] in Hf; lia|]);
    cbn [scan_j]; unfold part_scan_j, part_scan_j_idx, part_j_inc.
  - exists [], []. rewrite !app_nil_r, Z.ltb_irrefl. cbn [andb]. repeat split; auto.
  - assert (L : zlen a <? zlen (a ++ x :: r) = true) by (apply Z.ltb_lt; rewrite zlen_app, zlen_cons; pose proof (zlen_nonneg r); lia).
    rewrite L, get_app_mid. cbn [andb negb bind].
    destruct (keep x) eqn:Kx; cbn [negb].
    + exists [], (x :: r). rewrite app_nil_r. repeat split; auto. right. exists x, r. split; [reflexivity|exact Kx].
    + destruct (IH (a ++ [x]) f ltac:(cbn [length] in Hf; lia)) as (u & r' & E & Fu & Hd & S).
      exists (x :: u), r'. split; [cbn [app]; f_equal; exact E|]. split; [constructor; assumption|]. split; [exact Hd|].
      rewrite <- app_assoc in S. cbn [app] in S. rewrite zlen_app in S. change (zlen [x]) with 1 in S. rewrite S.
      rewrite <- app_assoc. reflexivity.
Qed.

Lemma swap_perm (x y : list T) (b c : T) p : Permutation (p ++ c :: x ++ b :: y) (p ++ b :: x ++ c :: y).
Proof.
  apply Permutation_app_head.
  eapply perm_trans; [apply perm_skip, Permutation_sym, Permutation_middle|].
  eapply perm_trans; [apply perm_swap|].
  apply perm_skip, Permutation_middle.
Qed.

(* the outer loop: a kept, b :: bs unkept and out of place, c not yet looked at;
   i = |a|, j = |a| + 1 + |bs| *)
Lemma part_loop_ok : forall fuel (a : list T) b bs c,
  Forall kept a -> Forall unkept (b :: bs) -> (length c < fuel)%nat ->
  exists l', part_loop keep fuel (a ++ b :: bs ++ c) (zlen a) (zlen a + 1 + zlen bs)
               = Ok (l', (zlen (a ++ filter keep c), zlen (a ++ filter keep c))) /\
    firstn (length (a ++ filter keep c)) l' = a ++ filter keep c /\
    Permutation l' (a ++ b :: bs ++ c).
Proof.
  induction fuel as [|f IH]; intros a b bs c Ka Ub Hf; [lia|].
  cbn [part_loop]. unfold part_outer, part_done, part_ret0_hi, part_ret0_max, part_swap_l0, part_swap_l1,
    part_swap_r0, part_swap_r1, part_i_inc2, part_j_inc2.
  remember (a ++ b :: bs ++ c) as l eqn:Dl.
  assert (Ll : zlen l = zlen a + 1 + zlen bs + zlen c) by (rewrite Dl; rewrite zlen_app, zlen_cons, zlen_app; lia).
  pose proof (zlen_nonneg a) as Na. pose proof (zlen_nonneg bs) as Nb. pose proof (zlen_nonneg c) as Nc.
  destruct (zlen a <? zlen l) eqn:E1; zb; [|lia].
  (* the scan for the next kept element *)
  assert (El : l = (a ++ b :: bs) ++ c) by (rewrite Dl; rewrite <- app_assoc; reflexivity).
  assert (Zj : zlen a + 1 + zlen bs = zlen (a ++ b :: bs)) by (rewrite zlen_app, zlen_cons; lia).
  destruct (scan_j_ok c (a ++ b :: bs) (S (length l))) as (u & c' & Ec & Uu & Hd & Sj).
  { rewrite Dl. rewrite !app_length. cbn [length]. rewrite app_length. lia. }
  rewrite <- El in Sj. rewrite Zj, Sj. cbn [bind].
  destruct Hd as [->|(x & c'' & -> & Kx)].
  - (* nothing kept remains *)
    rewrite app_nil_r in Ec. subst u.
    replace (zlen ((a ++ b :: bs) ++ c) =? zlen l) with true by (symmetry; apply Z.eqb_eq; rewrite <- El; reflexivity).
    rewrite (filter_unkept c Uu), app_nil_r.
    exists l. split; [reflexivity|]. split; [|apply Permutation_refl].
    rewrite Dl. rewrite firstn_app, firstn_all, Nat.sub_diag. cbn [firstn]. apply app_nil_r.
  - (* swap and continue *)
    subst c.
    assert (Zl2 : zlen ((a ++ b :: bs) ++ u) <> zlen l).
    { rewrite Ll, !zlen_app, !zlen_cons. pose proof (zlen_nonneg u). pose proof (zlen_nonneg c''). lia. }
    destruct (zlen ((a ++ b :: bs) ++ u) =? zlen l) eqn:E2; zb; [contradiction|].
    assert (F1 : l = ((a ++ b :: bs) ++ u) ++ x :: c'') by (rewrite Dl; rewrite <- !app_assoc; reflexivity).
    assert (F2 : l = a ++ b :: (bs ++ u ++ x :: c'')) by (rewrite Dl; reflexivity).
    assert (F3 : a ++ x :: bs ++ u ++ x :: c'' = ((a ++ x :: bs) ++ u) ++ x :: c'') by (rewrite <- !app_assoc; reflexivity).
    assert (Zs : zlen ((a ++ b :: bs) ++ u) = zlen ((a ++ x :: bs) ++ u)) by (rewrite !zlen_app, !zlen_cons; reflexivity).
    assert (G1 : get l (zlen ((a ++ b :: bs) ++ u)) = Ok x) by (rewrite F1; apply get_app_mid).
    assert (G2 : get l (zlen a) = Ok b) by (rewrite F2; apply get_app_mid).
    assert (S1 : set l (zlen a) x = Ok (a ++ x :: bs ++ u ++ x :: c'')) by (rewrite F2; apply set_app_mid).
    assert (S2 : set (a ++ x :: bs ++ u ++ x :: c'') (zlen ((a ++ b :: bs) ++ u)) b = Ok (((a ++ x :: bs) ++ u) ++ b :: c''))
      by (rewrite Zs, F3; apply set_app_mid).
    rewrite G1. cbn [bind]. rewrite G2. cbn [bind]. rewrite S1. cbn [bind]. rewrite S2. cbn [bind].
    (* new decomposition: a ++ [x] kept; bs ++ u ++ [b] unkept *)
    destruct (bs ++ u ++ [b]) as [|b' bs'] eqn:Eb.
    { exfalso. destruct bs; [destruct u|]; discriminate. }
    assert (Ub' : Forall unkept (b' :: bs')).
    { rewrite <- Eb. apply Forall_app. split; [inversion Ub; assumption|]. apply Forall_app. split; [exact Uu|]. constructor; [inversion Ub; assumption|constructor]. }
    assert (F4 : ((a ++ x :: bs) ++ u) ++ b :: c'' = (a ++ [x]) ++ b' :: bs' ++ c'').
    { rewrite <- !app_assoc. cbn [app]. f_equal. f_equal.
      change (b' :: bs' ++ c'') with ((b' :: bs') ++ c''). rewrite <- Eb. rewrite <- !app_assoc. reflexivity. }
    assert (Zi : zlen a + 1 = zlen (a ++ [x])) by (rewrite zlen_app; reflexivity).
    assert (Zj2 : zlen ((a ++ x :: bs) ++ u) + 1 = zlen (a ++ [x]) + 1 + zlen bs').
    { assert (zlen (bs ++ u ++ [b]) = zlen (b' :: bs')) by (rewrite Eb; reflexivity).
      rewrite !zlen_app, !zlen_cons in *. change (zlen (@nil T)) with 0 in *. lia. }
    rewrite F4, Zi, Zs, Zj2.
    destruct (IH (a ++ [x]) b' bs' c'') as (l' & P & Fn & Pm).
    { apply Forall_app. split; [exact Ka|]. constructor; [exact Kx|constructor]. }
    { exact Ub'. }
    { rewrite app_length in Hf. cbn [length] in Hf. lia. }
    assert (Ef : a ++ filter keep (u ++ x :: c'') = (a ++ [x]) ++ filter keep c'').
    { rewrite filter_app, (filter_unkept u Uu). cbn [app filter]. rewrite Kx. rewrite <- app_assoc. reflexivity. }
    exists l'. rewrite Ef. split; [exact P|]. split; [exact Fn|].
    eapply perm_trans; [exact Pm|]. rewrite <- F4. rewrite Dl.
    replace (((a ++ x :: bs) ++ u) ++ b :: c'') with (a ++ x :: (bs ++ u) ++ b :: c'') by (rewrite <- !app_assoc; reflexivity).
    replace (a ++ b :: bs ++ u ++ x :: c'') with (a ++ b :: (bs ++ u) ++ x :: c'') by (rewrite <- !app_assoc; reflexivity).
    apply swap_perm.
Qed.

(* Partition on the elements of vs *)
Theorem partition_win_ok (l : list T) :
  exists l', Permutation l' l /\
    firstn (length (filter keep l)) l' = filter keep l /\
    partition_win keep l =
      Ok (l', if zlen l =? 0 then None else Some (zlen (filter keep l), zlen (filter keep l))).
Proof.
  unfold partition_win, part_empty, part_i0, part_j0.
  destruct (zlen l =? 0) eqn:E0; zb.
  - exists l. destruct l; [|rewrite zlen_cons in E0; pose proof (zlen_nonneg l); lia].
    split; [constructor|]. split; reflexivity.
  - destruct (scan_i_ok l [] (S (length l)) ltac:(lia)) as (k & r' & E & Kk & Hd & Sc).
    cbn [app] in Sc. change (zlen (@nil T)) with 0 in Sc. rewrite Sc. cbn [bind].
    destruct Hd as [->|(x & r'' & -> & Ux)].
    + (* everything is kept: the outer loop does not run *)
      rewrite app_nil_r in E. subst k.
      destruct (length l) eqn:Ln; [unfold zlen in E0; lia|].
      cbn [part_loop]. unfold part_outer, part_ret1_hi, part_ret1_max. rewrite Z.ltb_irrefl. cbn [bind fst snd].
      rewrite (filter_kept l Kk). exists l. split; [apply Permutation_refl|]. split; [apply firstn_all|reflexivity].
    + subst l.
      destruct (part_loop_ok (S (length (k ++ x :: r''))) k x [] r'' Kk) as (l' & P & Fn & Pm).
      { constructor; [exact Ux|constructor]. }
      { rewrite app_length. cbn [length]. lia. }
      cbn [app] in P. change (zlen (@nil T)) with 0 in P. rewrite Z.add_0_r in P. rewrite P. cbn [bind fst snd].
      assert (Ef : filter keep (k ++ x :: r'') = k ++ filter keep r'').
      { rewrite filter_app, (filter_kept k Kk). cbn [filter]. rewrite Ux. reflexivity. }
      rewrite Ef. exists l'. split; [exact Pm|]. split; [exact Fn|reflexivity].
Qed.

Lemma filter_length_le (l : list T) : (length (filter keep l) <= length l)%nat.
Proof. induction l as [|x l IH]; cbn [filter length]; [lia|]. destruct (keep x); cbn [length]; lia. Qed.

(* Partition on a base array *)
Theorem partition_correct (b : list T) v : valid_view b v ->
  exists b' r, partition keep b v = Ok (b', r) /\
    voff r = voff v /\
    window b' r = filter keep (window b v) /\
    can_overwrite v r = false /\
    (0 < vlen v -> clipped r) /\
    (vlen v = 0 -> r = v) /\
    Permutation (window b' v) (window b v) /\
    firstn (Z.to_nat (voff v)) b' = firstn (Z.to_nat (voff v)) b /\
    skipn (Z.to_nat (voff v + vlen v)) b' = skipn (Z.to_nat (voff v + vlen v)) b.
Proof.
  intros V. pose proof V as (V1 & V2 & V3). pose proof (window_length b v V) as WL.
  set (w := window b v) in *.
  destruct (partition_win_ok w) as (l' & Pm & Fn & P).
  unfold partition. fold w. rewrite P. cbn [bind fst snd].
  assert (Ll : zlen l' = vlen v) by (unfold zlen in *; rewrite (Permutation_length Pm); exact WL).
  destruct (splice_spec b v l' V Ll) as (S1 & S2 & S3).
  pose proof (filter_length_le w) as FL.
  destruct (zlen w =? 0) eqn:E0; zb.
  - exists (splice b v l'), v. split; [reflexivity|]. split; [reflexivity|].
    assert (w = []) by (destruct w; [reflexivity | rewrite zlen_cons in E0; pose proof (zlen_nonneg w); lia]).
    split; [unfold window at 1; replace (vlen v) with 0 by lia; rewrite H; reflexivity|].
    split; [unfold can_overwrite; rewrite Z.ltb_irrefl; apply andb_false_r|]. split; [lia|].
    split; [reflexivity|].
    split; [rewrite S1; exact Pm|]. split; assumption.
  - set (h := zlen (filter keep w)).
    assert (Hh : 0 <= h <= vlen v) by (unfold h, zlen in *; lia).
    unfold slice3. cbn [fst snd]. fold h. destruct ((0 <=? 0) && (0 <=? h) && (h <=? h) && (h <=? vcap v)) eqn:Es; zb; try lia.
    cbn [bind]. rewrite Z.sub_0_r, Z.add_0_r.
    exists (splice b v l'), (mkView (voff v) h h). split; [reflexivity|]. split; [reflexivity|].
    split.
    { unfold window at 1. cbn [voff vlen]. rewrite <- Fn.
      transitivity (firstn (Z.to_nat h) (window (splice b v l') v)).
      - unfold window. rewrite firstn_firstn. f_equal. lia.
      - rewrite S1. f_equal. unfold h, zlen. lia. }
    split; [unfold can_overwrite; cbn [vlen vcap]; rewrite Z.ltb_irrefl; reflexivity|].
    split; [reflexivity|]. split; [lia|]. split; [rewrite S1; exact Pm|]. split; assumption.
Qed.

End Part.
