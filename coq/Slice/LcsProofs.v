(* Proofs about the model of slice.LCSFunc: it never panics or runs out of fuel, its result is an
   exact subsequence of the (post-swap) first input, an eqb-subsequence of the other, and no
   common subsequence is longer.  The invariant is the classical DP one, row by row. *)
From Coq Require Import ZArith List Bool Lia.
Import ListNotations.
From Mds Require Import Gen.LcsIdx Slice.Subseq Slice.LcsModel.
From Mds Require Export Slice.LcsLisUtil.
Local Open Scope Z_scope.

Ltac gen_unfold :=
  unfold lcs_empty_cond, lcs_swap_cond, lcs_row_len, lcs_row_len_c, lcs_j_init, lcs_j_cond,
    lcs_j_next, lcs_i_init, lcs_i_cond, lcs_i_next, lcs_as_idx, lcs_bs_idx, lcs_match_dst,
    lcs_diag_idx_n, lcs_diag_idx, lcs_left_idx_n, lcs_up_idx_n, lcs_left_dst,
    lcs_left_idx, lcs_up_dst, lcs_up_idx, lcs_last_idx, lcs_out_idx, lcs_walk_cond,
    lcs_ncalls_reverse, lcs_cell_i, lcs_cell_n in *.

(* the third literal field designates the diagonal neighbour p[i-1] *)
Lemma cell_pick_diag : forall i p c, lcs_cell_pick i p c = znth p (lcs_diag_idx i).
Proof. intros. unfold lcs_cell_pick. reflexivity. Qed.

(* all the optimality proof needs of the tie rule: it picks a neighbour that is not the shorter
   one (holds for `>=` and equally for `>`) *)
Lemma tie_cond_sound : forall a b,
  (lcs_tie_cond a b = true -> a >= b) /\ (lcs_tie_cond a b = false -> b >= a).
Proof.
  intros a b. unfold lcs_tie_cond. split; intro H.
  - first [apply Z.geb_le in H | apply Z.gtb_lt in H]; lia.
  - first [rewrite Z.geb_leb in H; apply Z.leb_gt in H | rewrite Z.gtb_ltb in H; apply Z.ltb_ge in H]; lia.
Qed.

(* the test is called as eq(as[i-1], bs[j-1]) *)
Lemma eq_args_ok : forall {A} (a b : A),
  pick2 (lcs_eq_arg0 0 1) a b = Some a /\ pick2 (lcs_eq_arg1 0 1) a b = Some b.
Proof. intros. split; reflexivity. Qed.

Section LcsProofs.
  Variable T : Type.
  Variable eqb : T -> T -> bool.

  Notation SubB := (SubseqB eqb).

  (* [Opt X Y s]: nothing that is an exact subsequence of X and matches a subsequence of Y
     (test applied as eqb x y, as the code does) is longer than s *)
  Definition Opt (X Y s : list T) : Prop :=
    forall u, Subseq u X -> SubB u Y -> (length u <= length s)%nat.

  Section Core.
    Variables xs ys : list T.

    (* the list of elements a chain of cells denotes, oldest first *)
    Inductive CellVal : cell -> list T -> Prop :=
    | cv_zero : CellVal Zero []
    | cv_cell : forall i n prev s a,
        CellVal prev s -> znth xs i = Some a -> n = zlen s + 1 ->
        CellVal (Cell i n prev) (s ++ [a]).

    Lemma CellVal_n : forall c s, CellVal c s -> cell_n c = zlen s.
    Proof.
      induction 1; cbn; [reflexivity|]. subst. unfold zlen. rewrite app_length; cbn; lia.
    Qed.

    Lemma walk_spec : forall c s, CellVal c s -> forall out, lcs_walk T xs c out = Some (out ++ rev s).
    Proof.
      induction 1 as [|i n prev s a Hp IH Ha Hn]; intros out.
      - cbn. now rewrite app_nil_r.
      - cbn [lcs_walk cell_n cell_i]. gen_unfold.
        replace (n >? 0) with true by (unfold zlen in Hn; lia).
        rewrite Ha, IH, rev_app_distr, <- app_assoc. reflexivity.
    Qed.

    Definition Good (j k : nat) (cl : cell) : Prop :=
      exists s, CellVal cl s /\ Subseq s (firstn k xs) /\ SubB s (firstn j ys)
                /\ Opt (firstn k xs) (firstn j ys) s.

    Definition RowGood (j : nat) (row : list cell) : Prop :=
      length row = S (length xs) /\ forall k cl, nth_error row k = Some cl -> Good j k cl.

    Lemma Good_col0 : forall j j' cl, Good j 0 cl -> Good j' 0 cl.
    Proof.
      intros j j' cl (s & Hv & Hx & Hy & Ho). cbn in Hx. apply SubseqR_nil_r in Hx; subst.
      exists []. repeat split; auto; try apply sr_nil.
      intros u Hu _. cbn in Hu. apply SubseqR_nil_r in Hu; subst; cbn; lia.
    Qed.

    Lemma Good_zero_row0 : forall k, Good 0 k Zero.
    Proof.
      intros k. exists []. repeat split; try apply sr_nil; [constructor|].
      intros u _ Hu. cbn in Hu. apply SubseqR_nil_r in Hu; subst; cbn; lia.
    Qed.

    Lemma good_match : forall j k a b d,
      nth_error xs k = Some a -> nth_error ys j = Some b -> eqb a b = true ->
      Good j k d -> Good (S j) (S k) (Cell (Z.of_nat k) (cell_n d + 1) d).
    Proof.
      intros j k a b d Ha Hb Hab (s & Hv & Hx & Hy & Ho).
      unfold Good. rewrite (firstn_snoc _ _ _ Ha), (firstn_snoc _ _ _ Hb).
      exists (s ++ [a]). repeat split.
      - constructor; auto. now rewrite znth_nat. now rewrite (CellVal_n _ _ Hv).
      - apply SubseqR_snoc; auto.
      - apply SubseqR_snoc; auto.
      - intros u Hux Huy.
        apply SubseqR_removelast in Hux, Huy. specialize (Ho _ Hux Huy).
        pose proof (length_removelast_le u). rewrite app_length; cbn; lia.
    Qed.

    Lemma good_nomatch : forall j k a b l u (pick : bool),
      nth_error xs k = Some a -> nth_error ys j = Some b -> eqb a b = false ->
      Good (S j) k l -> Good j (S k) u ->
      (pick = true -> cell_n l >= cell_n u) -> (pick = false -> cell_n u >= cell_n l) ->
      Good (S j) (S k) (if pick then l else u).
    Proof.
      intros j k a b l u pick Ha Hb Hab (sl & Hvl & Hxl & Hyl & Hol) (su & Hvu & Hxu & Hyu & Hou).
      rewrite (CellVal_n _ _ Hvl), (CellVal_n _ _ Hvu). intros Ht Hf.
      assert (Hopt : forall w, Subseq w (firstn (S k) xs) -> SubB w (firstn (S j) ys) ->
                (length w <= length sl)%nat \/ (length w <= length su)%nat).
      { intros w Hwx Hwy. rewrite (firstn_snoc _ _ _ Ha) in Hwx.
        destruct (SubseqR_snoc_inv _ _ _ _ Hwx) as [H1 | (w' & x & -> & <- & H1)].
        - left. apply Hol; auto.
        - rewrite (firstn_snoc _ _ _ Hb) in Hwy.
          destruct (SubseqR_snoc_inv _ _ _ _ Hwy) as [H2 | (w'' & x' & E & Hx' & H2)].
          + right. apply Hou; auto. rewrite (firstn_snoc _ _ _ Ha). exact Hwx.
          + apply app_inj_tail in E. destruct E as [_ <-]. cbv beta in Hx'. congruence. }
      destruct pick.
      - specialize (Ht eq_refl). exists sl. repeat split; auto.
        + rewrite (firstn_snoc _ _ _ Ha). now apply SubseqR_app_r.
        + intros w Hwx Hwy. destruct (Hopt w Hwx Hwy); unfold zlen in Ht; lia.
      - specialize (Hf eq_refl). exists su. repeat split; auto.
        + rewrite (firstn_snoc _ _ _ Hb). now apply SubseqR_app_r.
        + intros w Hwx Hwy. destruct (Hopt w Hwx Hwy); unfold zlen in Hf; lia.
    Qed.

    (* the inner loop: columns 0..k of c are already right for row S j; fills the rest *)
    Lemma fill_spec : forall p j, (j < length ys)%nat -> RowGood j p ->
      forall fuel k c, (k <= length xs)%nat -> (fuel + k > length xs)%nat ->
        length c = S (length xs) ->
        (forall m cl, (m <= k)%nat -> nth_error c m = Some cl -> Good (S j) m cl) ->
        exists c', lcs_fill T eqb fuel xs ys (Z.of_nat (S j)) (Z.of_nat (S k)) p c = Some c'
                   /\ RowGood (S j) c'.
    Proof.
      intros p j Hj [Hpl Hp]. induction fuel as [|fuel IH]; intros k c Hk Hf Hcl Hc; [lia|].
      cbn [lcs_fill]. rewrite cell_pick_diag. gen_unfold. unfold zlen.
      destruct (Z.leb_spec (Z.of_nat (S k)) (Z.of_nat (length xs))) as [Ecol|Ecol].
      2:{ exists c; split; [reflexivity|]. split; [exact Hcl|].
          intros m cl Hm. apply Hc; auto.
          assert (m < length c)%nat by (apply nth_error_Some; congruence). lia. }
      assert (Hk' : (k < length xs)%nat) by lia.
      replace (Z.of_nat (S k) - 1) with (Z.of_nat k) by lia.
      replace (Z.of_nat (S j) - 1) with (Z.of_nat j) by lia.
      rewrite !znth_nat.
      destruct (nth_error_some_lt xs k Hk') as [a Ha]. destruct (nth_error_some_lt ys j Hj) as [b Hb].
      rewrite Ha, Hb. destruct (eq_args_ok a b) as [-> ->].
      destruct (nth_error_some_lt p k ltac:(lia)) as [d Hd].
      destruct (nth_error_some_lt p (S k) ltac:(lia)) as [u Hu].
      destruct (nth_error_some_lt c k ltac:(lia)) as [l Hl].
      assert (Hfin : forall v, Good (S j) (S k) v ->
        exists c2, zupd c (Z.of_nat (S k)) v = Some c2 /\
          exists c', lcs_fill T eqb fuel xs ys (Z.of_nat (S j)) (Z.of_nat (S k) + 1) p c2 = Some c'
                     /\ RowGood (S j) c').
      { intros v Hv. destruct (upd_nat_some c (S k) v ltac:(lia)) as [c2 E2].
        exists c2; split; [now rewrite zupd_nat|]. destruct (upd_nat_spec _ _ _ _ E2) as (L2 & N2 & O2).
        replace (Z.of_nat (S k) + 1) with (Z.of_nat (S (S k))) by lia.
        apply IH; try lia.
        intros m cl Hm Hnth. destruct (Nat.eq_dec m (S k)) as [->|Hne].
        - rewrite N2 in Hnth. inversion Hnth; subst. exact Hv.
        - rewrite (O2 _ Hne) in Hnth. apply Hc; auto. lia. }
      destruct (eqb a b) eqn:Eab.
      - rewrite Hd.
        destruct (Hfin _ (good_match _ _ _ _ _ Ha Hb Eab (Hp _ _ Hd))) as (c2 & -> & R). exact R.
      - rewrite Hl, Hu.
        destruct (tie_cond_sound (cell_n l) (cell_n u)) as [Htt Htf].
        pose proof (good_nomatch _ _ _ _ _ _ _ Ha Hb Eab (Hc _ _ (le_n k) Hl) (Hp _ _ Hu) Htt Htf) as G.
        destruct (lcs_tie_cond (cell_n l) (cell_n u)).
        + destruct (Hfin _ G) as (c2 & -> & R). exact R.
        + destruct (Hfin _ G) as (c2 & -> & R). exact R.
    Qed.

    Lemma rows_spec : forall fuel j p c jp, (j <= length ys)%nat -> (fuel + j > length ys)%nat ->
      RowGood jp p -> RowGood j c ->
      exists p' c', lcs_rows T eqb fuel xs ys (Z.of_nat (S j)) p c = Some (p', c')
                    /\ RowGood (length ys) c'.
    Proof.
      induction fuel as [|fuel IH]; intros j p c jp Hj Hf Hp Hc; [lia|].
      cbn [lcs_rows]. gen_unfold. unfold zlen.
      destruct (Z.leb_spec (Z.of_nat (S j)) (Z.of_nat (length ys))) as [Erow|Erow].
      2:{ exists p, c. split; [reflexivity|]. replace (length ys) with j by lia. exact Hc. }
      assert (Hj' : (j < length ys)%nat) by lia.
      destruct (fill_spec c j Hj' Hc (S (length xs)) 0%nat p) as (c2 & E2 & R2); try lia.
      - apply Hp.
      - intros m cl Hm Hn. replace m with 0%nat in * by lia.
        apply (Good_col0 jp). now apply Hp.
      - change (Z.of_nat 1) with 1 in E2. rewrite E2.
        replace (Z.of_nat (S j) + 1) with (Z.of_nat (S (S j))) by lia.
        apply (IH (S j) c c2 j); auto; lia.
    Qed.

    Lemma row0_good : RowGood 0 (repeat Zero (S (length xs))).
    Proof.
      split; [apply repeat_length|]. intros k cl H.
      assert (cl = Zero) by (eapply repeat_spec, nth_error_In; eauto). subst. apply Good_zero_row0.
    Qed.

    Lemma lcs_core_spec :
      exists s, lcs_core T eqb xs ys = Some s /\ Subseq s xs /\ SubB s ys /\ Opt xs ys s.
    Proof.
      unfold lcs_core. gen_unfold. unfold zlen.
      replace (Z.to_nat (Z.of_nat (length xs) + 1)) with (S (length xs)) by lia.
      destruct (rows_spec (S (length ys)) 0%nat _ _ 0%nat ltac:(lia) ltac:(lia) row0_good row0_good)
        as (p' & c' & E & [Hl Hg]).
      change (Z.of_nat 1) with 1 in E. rewrite E. rewrite znth_nat.
      destruct (nth_error_some_lt c' (length xs) ltac:(lia)) as [st Hst]. rewrite Hst.
      destruct (Hg _ _ Hst) as (s & Hv & Hx & Hy & Ho).
      rewrite (walk_spec _ _ Hv). cbn [app]. rewrite rev_involutive. cbn.
      rewrite !firstn_all in *. eauto.
    Qed.
  End Core.

  (* ---- the public function ---- *)
  Lemma lcs_func_spec : forall l r,
    exists s, lcs_func T eqb l r = Some s /\
      let (xs, ys) := lcs_swap T l r in Subseq s xs /\ SubB s ys /\ Opt xs ys s.
  Proof.
    intros l r. unfold lcs_func.
    destruct (lcs_empty_cond (zlen l) (zlen r)) eqn:Ee.
    - exists []. split; [reflexivity|].
      assert (Hlr : l = [] \/ r = []).
      { gen_unfold. unfold zlen in Ee. destruct l, r; auto; cbn in Ee; discriminate. }
      unfold lcs_swap. destruct (lcs_swap_cond (zlen l) (zlen r)); repeat split; try apply sr_nil;
        intros u Hx Hy; destruct Hlr; subst;
        try (apply SubseqR_nil_r in Hx); try (apply SubseqR_nil_r in Hy); subst; cbn; lia.
    - destruct (lcs_swap T l r) as [xs ys]. apply lcs_core_spec.
  Qed.

  Theorem lcs_func_total : forall l r, exists s, lcs_func T eqb l r = Some s.
  Proof. intros l r. destruct (lcs_func_spec l r) as (s & H & _). eauto. Qed.

  Theorem lcs_func_exact : forall l r s, lcs_func T eqb l r = Some s ->
    let (xs, ys) := lcs_swap T l r in Subseq s xs /\ SubB s ys.
  Proof.
    intros l r s H. destruct (lcs_func_spec l r) as (s' & H' & Hs). rewrite H in H'. inversion H'; subst.
    destruct (lcs_swap T l r); tauto.
  Qed.

  Theorem lcs_func_nil : forall l r, lcs_is_nil T l r = true -> lcs_func T eqb l r = Some [].
  Proof. intros l r H. unfold lcs_func, lcs_is_nil in *. now rewrite H. Qed.

  Section Equivalence.
    Hypothesis eqb_refl : forall x, eqb x x = true.
    Hypothesis eqb_sym : forall x y, eqb x y = true -> eqb y x = true.
    Hypothesis eqb_trans : forall x y z, eqb x y = true -> eqb y z = true -> eqb x z = true.

    Lemma Subseq_SubB : forall s l, Subseq s l -> SubB s l.
    Proof. intros s l. apply SubseqR_mono. intros x y ->. apply eqb_refl. Qed.

    (* an eqb-subsequence is pointwise equivalent to an exact one *)
    Lemma SubB_exact : forall t l, SubB t l ->
      exists u, Subseq u l /\ length u = length t /\ forall m, SubB t m -> SubB u m.
    Proof.
      induction 1 as [l | t y l _ (u & H1 & H2 & H3) | x t y l Hxy _ (u & H1 & H2 & H3)].
      - exists []. repeat split; auto. apply sr_nil.
      - exists u. repeat split; auto. now apply sr_skip.
      - exists (y :: u). repeat split; [now apply sr_take | cbn; lia |].
        intros m Hm. remember (x :: t) as xt eqn:Ext. induction Hm; try discriminate.
        + apply sr_skip. apply IHHm. exact Ext.
        + inversion Ext; subst. apply sr_take; [|now apply H3].
          cbv beta in *. eauto.
    Qed.

    Theorem lcs_func_common : forall l r s, lcs_func T eqb l r = Some s ->
      SubB s l /\ SubB s r.
    Proof.
      intros l r s H. pose proof (lcs_func_exact _ _ _ H) as E. unfold lcs_swap in E.
      destruct (lcs_swap_cond (zlen l) (zlen r)); destruct E as [E1 E2];
        apply Subseq_SubB in E1; tauto.
    Qed.

    Theorem lcs_func_optimal : forall l r s, lcs_func T eqb l r = Some s ->
      forall t, SubB t l -> SubB t r -> (length t <= length s)%nat.
    Proof.
      intros l r s H t Hl Hr. destruct (lcs_func_spec l r) as (s' & H' & Hs).
      rewrite H in H'. inversion H'; subst s'. clear H'. unfold lcs_swap in Hs.
      destruct (lcs_swap_cond (zlen l) (zlen r)); destruct Hs as (_ & _ & Ho).
      - destruct (SubB_exact _ _ Hr) as (u & U1 & U2 & U3). rewrite <- U2. apply Ho; auto.
      - destruct (SubB_exact _ _ Hl) as (u & U1 & U2 & U3). rewrite <- U2. apply Ho; auto.
    Qed.

    (* the length of the result is THE optimum: attained and not exceeded *)
    Corollary lcs_func_is_optimum : forall l r, exists s,
      lcs_func T eqb l r = Some s /\ CommonSubseq eqb s l r /\
      forall t, CommonSubseq eqb t l r -> (length t <= length s)%nat.
    Proof.
      intros l r. destruct (lcs_func_total l r) as [s H]. exists s. split; [exact H|]. split.
      - exact (lcs_func_common _ _ _ H).
      - intros t [H1 H2]. exact (lcs_func_optimal _ _ _ H t H1 H2).
    Qed.
  End Equivalence.
End LcsProofs.
