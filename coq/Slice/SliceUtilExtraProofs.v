(* SUPPLEMENTARY, OUTSIDE PROPERTY C17: Zero, Select, MatchingKeys, MapKeys do what their
   documentation says (models in SliceUtilExtraModel.v, hand-written, see there). *)
From Coq Require Import ZArith List Bool Lia Permutation.
Import ListNotations.
From Mds Require Import Slice.SliceUtilModel Slice.SliceUtilSpec Slice.SliceUtilProofs Slice.SliceUtilExtraModel.
Local Open Scope Z_scope.

(* pushing a sequence of values into a consumer until it declines: what `for x := range seq` does
   with a sequence; [feed] is the reference the iterators are compared with *)
Fixpoint feed {A S : Type} (yield : S -> A -> S * bool) (xs : list A) (s : S) : S :=
  match xs with
  | [] => s
  | x :: r => let sc := yield s x in if snd sc then feed yield r (fst sc) else fst sc
  end.

Section Extra.
Context {T : Type}.

(* ---- Zero ---- *)
Lemma zero_loop_spec (zero : T) : forall (r a : list T),
  zero_loop (length r) (a ++ r) (zlen a) zero = Ok (a ++ repeat zero (length r)).
Proof.
  induction r as [|x r IH]; intros a; cbn [length zero_loop repeat]; [reflexivity|].
  rewrite set_app_mid. cbn [bind].
  replace (zlen a + 1) with (zlen (a ++ [zero])) by (rewrite zlen_app; reflexivity).
  change (a ++ zero :: r) with (a ++ [zero] ++ r). rewrite app_assoc, IH, <- app_assoc. reflexivity.
Qed.

Theorem zero_impl_spec (zero : T) (l : list T) : zero_impl zero l = Ok (repeat zero (length l)).
Proof. unfold zero_impl. apply (zero_loop_spec zero l []). Qed.

(* on a base array: every element of vs is the zero value, nothing outside vs changes *)
Theorem zero_view_spec (zero : T) (b : list T) v : valid_view b v ->
  exists b', zero_view zero b v = Ok b' /\ window b' v = repeat zero (Z.to_nat (vlen v)) /\
    firstn (Z.to_nat (voff v)) b' = firstn (Z.to_nat (voff v)) b /\
    skipn (Z.to_nat (voff v + vlen v)) b' = skipn (Z.to_nat (voff v + vlen v)) b.
Proof.
  intros V. pose proof (window_length b v V) as WL. unfold zero_view. rewrite zero_impl_spec. cbn [bind].
  eexists. split; [reflexivity|].
  assert (L : zlen (repeat zero (length (window b v))) = vlen v) by (unfold zlen in *; rewrite repeat_length; exact WL).
  destruct (splice_spec b v _ V L) as (S1 & S2 & S3). rewrite S1.
  split; [f_equal; unfold zlen in WL; lia|]. split; assumption.
Qed.

(* ---- Select / MatchingKeys: for EVERY consumer ---- *)
Section Consumer.
Context {S K : Type}.
Variable yieldT : S -> T -> S * bool.
Variable yieldK : S -> K -> S * bool.
Variable f : T -> bool.

(* Select(vs, f) is the sequence of the elements of vs satisfying f, in order: whatever the
   consumer does (including leaving the loop early), it ends in the state it reaches when fed
   filter f vs *)
Theorem select_spec : forall (l : list T) (s : S) calls,
  fst (select_loop yieldT f l s calls) = feed yieldT (filter f l) s.
Proof.
  induction l as [|v r IH]; intros s calls; cbn [select_loop filter feed]; [reflexivity|].
  destruct (f v); [|apply IH]. cbn [feed].
  destruct (yieldT s v) as [s' c]. cbn [fst snd]. destruct c; cbn [negb]; [apply IH | reflexivity].
Qed.

(* f is called once per element, in order, and not at all after the consumer has left *)
Theorem select_calls_bound : forall (l : list T) (s : S) calls,
  calls <= snd (select_loop yieldT f l s calls) <= calls + zlen l.
Proof.
  induction l as [|v r IH]; intros s calls; cbn [select_loop]; [cbn; unfold zlen; cbn; lia|].
  rewrite zlen_cons. pose proof (zlen_nonneg r).
  destruct (f v).
  - destruct (yieldT s v) as [s' c]. cbn [fst snd]. destruct c; cbn [negb snd]; [|lia].
    specialize (IH s' (calls + 1)). lia.
  - specialize (IH s (calls + 1)). lia.
Qed.

Theorem select_calls_all : forall (l : list T) (s : S) calls,
  (forall s x, snd (yieldT s x) = true) -> snd (select_loop yieldT f l s calls) = calls + zlen l.
Proof.
  intros l s calls Hy. revert s calls. induction l as [|v r IH]; intros s calls; cbn [select_loop]; [unfold zlen; cbn; lia|].
  rewrite zlen_cons. destruct (f v).
  - rewrite Hy. cbn [negb]. rewrite IH. lia.
  - rewrite IH. lia.
Qed.

(* MatchingKeys(m, f), with the entries of m in the order the runtime iterates them: the keys
   whose value satisfies f, in that order *)
Theorem matching_spec : forall (kvs : list (K * T)) (s : S) calls,
  fst (matching_loop yieldK f kvs s calls) = feed yieldK (map fst (filter (fun kv => f (snd kv)) kvs)) s.
Proof.
  induction kvs as [|[k v] r IH]; intros s calls; cbn [matching_loop filter map feed snd]; [reflexivity|].
  destruct (f v); [|apply IH]. cbn [map fst feed].
  destruct (yieldK s k) as [s' c]. cbn [fst snd]. destruct c; cbn [negb]; [apply IH | reflexivity].
Qed.

End Consumer.

(* consumed completely by `for k := range seq { out = append(out, k) }`: in whatever order the
   runtime iterates the map, the collected keys are a permutation of the matching keys *)
Lemma feed_take_all {A} (xs : list A) acc c : feed (take_consumer 0) xs (acc, c) = (acc ++ xs, c + zlen xs) \/ exists i, 0 <= i < zlen xs /\ c + i + 1 = 0.
Proof.
  revert acc c. induction xs as [|x r IH]; intros acc c.
  - left. cbn [feed]. rewrite app_nil_r. unfold zlen. cbn. f_equal. lia.
  - change (feed (take_consumer 0) (x :: r) (acc, c))
      with (if negb (c + 1 =? 0) then feed (take_consumer 0) r (acc ++ [x], c + 1) else (acc ++ [x], c + 1)).
    destruct (c + 1 =? 0) eqn:E; cbn [negb].
    + right. exists 0. rewrite zlen_cons. pose proof (zlen_nonneg r). apply Z.eqb_eq in E. lia.
    + destruct (IH (acc ++ [x]) (c + 1)) as [H|(i & Hi & Hc)].
      * left. rewrite H, <- app_assoc, zlen_cons. f_equal. lia.
      * right. exists (i + 1). rewrite zlen_cons. lia.
Qed.

Theorem matching_keys_any_order {K} (f : T -> bool) (kvs ref : list (K * T)) :
  Permutation kvs ref ->
  exists ks, fst (fst (matching_loop (take_consumer 0) f kvs ([], 0) 0)) = ks /\
             Permutation ks (map fst (filter (fun kv => f (snd kv)) ref)).
Proof.
  intros P. eexists. split; [reflexivity|]. rewrite matching_spec.
  destruct (feed_take_all (map fst (filter (fun kv => f (snd kv)) kvs)) [] 0) as [H|(i & Hi & Hc)]; [|lia].
  rewrite H. cbn [fst app]. apply Permutation_map. clear H.
  induction P as [|x l l' P IH|x y l|l l' l'' P1 IH1 P2 IH2]; cbn [filter].
  - constructor.
  - destruct (f (snd x)); [constructor|]; exact IH.
  - destruct (f (snd x)), (f (snd y)); try apply perm_swap; apply Permutation_refl.
  - eapply perm_trans; eassumption.
Qed.

(* ---- MapKeys ---- *)
Theorem map_keys_spec {K} (kvs ref : list (K * T)) : Permutation kvs ref ->
  (ref = [] -> map_keys kvs = None) /\
  (ref <> [] -> exists ks, map_keys kvs = Some ks /\ Permutation ks (map fst ref) /\ length ks = length ref).
Proof.
  intros P. unfold map_keys. split.
  - intros ->. apply Permutation_sym, Permutation_nil in P. subst. reflexivity.
  - intros N. destruct kvs as [|kv r].
    + apply Permutation_nil in P. congruence.
    + rewrite zlen_cons. pose proof (zlen_nonneg r). destruct (1 + zlen r =? 0) eqn:E; [apply Z.eqb_eq in E; lia|].
      eexists. split; [reflexivity|]. split; [apply Permutation_map; exact P|].
      rewrite map_length. apply Permutation_length. exact P.
Qed.

End Extra.

(* concrete, non-trivial instances *)
Example zero_ex : zero_view 0 [9; 1; 2; 3; 8] (mkView 1 3 4) = Ok [9; 0; 0; 0; 8].
Proof. reflexivity. Qed.
Example select_ex :
  select_loop (take_consumer 2) Z.even [1; 2; 3; 4; 5; 6] ([], 0) 0 = (([2; 4], 2), 4) /\
  select_loop (take_consumer 0) Z.even [1; 2; 3; 4; 5; 6] ([], 0) 0 = (([2; 4; 6], 3), 6).
Proof. split; reflexivity. Qed.
Example matching_ex :
  matching_loop (take_consumer 1) Z.even [(10, 1); (11, 2); (12, 4)] ([], 0) 0 = (([11], 1), 2).
Proof. reflexivity. Qed.
Example map_keys_ex : map_keys [(10, 1); (11, 2)] = Some [10; 11] /\ map_keys (@nil (Z * Z)) = None.
Proof. split; reflexivity. Qed.
