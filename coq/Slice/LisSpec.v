(* Reference definitions for LIS/LNDS, independent of the model: the quadratic "best chain
   ending here" table and an orderedness test. *)
From Coq Require Import List Arith ZArith Bool.
Import ListNotations.

Section LisSpec.
  Variable T : Type.
  Variable cmp : T -> T -> Z.
  Variable strict : bool.

  (* may [v] follow [u] in an ordered subsequence? *)
  Definition follows (u v : T) : bool :=
    if strict then (cmp u v <? 0)%Z else (cmp u v <=? 0)%Z.

  (* [done]: the elements seen so far, each with the length of the longest ordered subsequence
     ending in it *)
  Fixpoint lis_table (done : list (T * nat)) (rest : list T) : list (T * nat) :=
    match rest with
    | [] => done
    | v :: rest' =>
      let b := S (fold_left (fun m uk => if follows (fst uk) v then Nat.max m (snd uk) else m) done 0) in
      lis_table (done ++ [(v, b)]) rest'
    end.

  Definition lis_len_ref (vs : list T) : nat :=
    fold_left (fun m uk => Nat.max m (snd uk)) (lis_table [] vs) 0.

  Fixpoint ordered_b (s : list T) : bool :=
    match s with
    | u :: ((v :: _) as s') => follows u v && ordered_b s'
    | _ => true
    end.
End LisSpec.

(* The documented contract of slices.BinarySearchFunc(x, target, cmp) (Go standard library):
   "The slice must be sorted in increasing order, where increasing is defined by cmp.  cmp should
   return 0 if the slice element matches the target, a negative number if the slice element
   precedes the target, or a positive number if the slice element follows the target.  cmp must
   implement the same ordering as the slice, such that if cmp(a, t) < 0 and cmp(b, t) >= 0, then a
   must precede b in the slice."  It "returns the earliest position where target is found, or the
   position where target would appear in the sort order".
   Stated on ks = [cmp(x[0],target); cmp(x[1],target); ...]: *)
Local Open Scope Z_scope.

(* number of leading negative entries = the smallest index whose entry is >= 0 (length if none) *)
Fixpoint first_nonneg (ks : list Z) : nat :=
  match ks with
  | k :: ks' => if k <? 0 then S (first_nonneg ks') else O
  | [] => O
  end.

Definition bsf_sorted (ks : list Z) : Prop :=
  forall a b ka kb, nth_error ks a = Some ka -> nth_error ks b = Some kb ->
                    ka < 0 -> 0 <= kb -> (a < b)%nat.

(* [impl] returns (does not panic) the documented position whenever the precondition holds; on
   other inputs nothing is required of it *)
Definition bsf_meets_contract (impl : list Z -> option Z) : Prop :=
  forall ks, bsf_sorted ks -> impl ks = Some (Z.of_nat (first_nonneg ks)).
