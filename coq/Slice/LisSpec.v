(* Reference definitions for LIS/LNDS, independent of the model: the quadratic "best chain
   ending here" table and an orderedness test. *)
From Coq Require Import List Arith ZArith Bool.
Import ListNotations.

Section LisSpec.
  Variable T : Type.
  Variable cmp : T -> T -> Z.
  Variable strict : bool.

  (* may [v] follow [u] in an ordered subsequence? *)
  Definition follows (u v : T) : bool :=
    if strict then (cmp u v <? 0)%Z else (cmp u v <=? 0)%Z.

  (* [done]: the elements seen so far, each with the length of the longest ordered subsequence
     ending in it *)
  Fixpoint lis_table (done : list (T * nat)) (rest : list T) : list (T * nat) :=
    match rest with
    | [] => done
    | v :: rest' =>
      let b := S (fold_left (fun m uk => if follows (fst uk) v then Nat.max m (snd uk) else m) done 0) in
      lis_table (done ++ [(v, b)]) rest'
    end.

  Definition lis_len_ref (vs : list T) : nat :=
    fold_left (fun m uk => Nat.max m (snd uk)) (lis_table [] vs) 0.

  Fixpoint ordered_b (s : list T) : bool :=
    match s with
    | u :: ((v :: _) as s') => follows u v && ordered_b s'
    | _ => true
    end.
End LisSpec.
