(* Reference notions for slice utilities (C17): what the documentation of slice/slice.go promises,
   written on plain lists and integers.  Readable without the model. *)
From Coq Require Import ZArith List Bool Permutation.
Import ListNotations.
From Mds Require Import Slice.SliceUtilModel.
Local Open Scope Z_scope.

(* A view lies inside its base array. *)
Definition valid_view {T : Type} (b : list T) (v : view) : Prop :=
  0 <= voff v /\ 0 <= vlen v <= vcap v /\ voff v + vcap v <= zlen b.

(* Rotation by k positions (rightward for k > 0): the element at index i ends at (i + k) mod n.
   As a list: the last (k mod n) elements come first. *)
Definition rotate_list {T : Type} (l : list T) (k : Z) : list T :=
  let n := zlen l in
  if n =? 0 then l
  else
    let m := Z.to_nat (n - k mod n) in
    skipn m l ++ firstn m l.

(* Capacity clipped to the length: the slice's capacity ends at its own end, so appending to it
   never writes into the array it was cut from. *)
Definition clipped (c : view) : Prop := vcap c = vlen c.

(* Consecutive views: cs tile the index range [o, e) of the base, in order, without gaps. *)
Fixpoint tiles (o : Z) (cs : list view) (e : Z) : Prop :=
  match cs with
  | [] => o = e
  | c :: r => voff c = o /\ 0 <= vlen c /\ tiles (o + vlen c) r e
  end.

(* "All slices except the last have length exactly n; the last may have fewer" (and is not empty
   unless the input is). *)
Definition chunk_lens_ok (len n : Z) (ls : list Z) : Prop :=
  exists m last, ls = repeat n m ++ [last] /\ 0 <= last <= n /\ (0 < len -> 0 < last).

(* Exact lengths Batches produces: len mod m batches of size len/m + 1, then the rest of len/m. *)
Definition batch_lens (len m : Z) : list Z :=
  repeat (len / m + 1) (Z.to_nat (len mod m)) ++ repeat (len / m) (Z.to_nat (m - len mod m)).

(* The i-th elements of the lists that have one. *)
Definition stripe_spec {T : Type} (ls : list (list T)) (i : Z) : list T :=
  flat_map (fun l => match nth_error l (Z.to_nat i) with Some x => [x] | None => [] end) ls.

(* Index with negative offsets counting from the end; None = out of range. *)
Definition at_pos (n i : Z) : option Z :=
  if (0 <=? i) && (i <? n) then Some i
  else if (- n <=? i) && (i <? 0) then Some (n + i)
  else None.
