(* Helper lemmas shared by LcsProofs and LisProofs: Go slice access (znth/zupd) at nat positions,
   prefixes, removelast.  Independent of any generated file. *)
From Coq Require Import ZArith List Bool Lia.
Import ListNotations.
From Mds Require Import Slice.Subseq Slice.LcsModel.
Local Open Scope Z_scope.

(* ---- Go slice access at nat positions ---- *)
Lemma znth_nat : forall {A} (l : list A) k, znth l (Z.of_nat k) = nth_error l k.
Proof.
  intros; unfold znth. destruct (Z.ltb_spec (Z.of_nat k) 0); [lia|]. now rewrite Nat2Z.id.
Qed.

Lemma zupd_nat : forall {A} (l : list A) k v, zupd l (Z.of_nat k) v = upd_nat l k v.
Proof.
  intros; unfold zupd. destruct (Z.ltb_spec (Z.of_nat k) 0); [lia|]. now rewrite Nat2Z.id.
Qed.

Lemma upd_nat_some : forall {A} (l : list A) k v, (k < length l)%nat -> exists l', upd_nat l k v = Some l'.
Proof.
  induction l as [|h t IH]; intros k v Hk; cbn in *; [lia|].
  destruct k; [eauto|]. destruct (IH k v ltac:(lia)) as [t' ->]. eauto.
Qed.

Lemma upd_nat_spec : forall {A} (l : list A) k v l', upd_nat l k v = Some l' ->
  length l' = length l /\ nth_error l' k = Some v /\ forall m, m <> k -> nth_error l' m = nth_error l m.
Proof.
  induction l as [|h t IH]; intros k v l' H; cbn in H; [discriminate|].
  destruct k.
  - inversion H; subst; cbn. repeat split; auto. intros [|m] Hm; [congruence | reflexivity].
  - destruct (upd_nat t k v) as [t'|] eqn:E; [|discriminate]. inversion H; subst.
    destruct (IH _ _ _ E) as (Hl & Hk & Ho). cbn. repeat split; auto.
    intros [|m] Hm; cbn; [reflexivity | apply Ho; congruence].
Qed.

Lemma nth_error_some_lt : forall {A} (l : list A) k, (k < length l)%nat -> exists a, nth_error l k = Some a.
Proof.
  intros A l k H. destruct (nth_error l k) eqn:E; [eauto|]. apply nth_error_None in E; lia.
Qed.

Lemma firstn_snoc : forall {A} (l : list A) k a, nth_error l k = Some a -> firstn (S k) l = firstn k l ++ [a].
Proof.
  induction l as [|h t IH]; intros [|k] a H; cbn in *; try discriminate.
  - now inversion H.
  - f_equal. now apply IH.
Qed.

Lemma SubseqR_removelast : forall {A B} (R : A -> B -> Prop) s l y,
  SubseqR R s (l ++ [y]) -> SubseqR R (removelast s) l.
Proof.
  intros A B R s l y H. destruct (SubseqR_snoc_inv R _ _ _ H) as [H1 | (s' & x & -> & _ & H1)].
  - clear H. induction H1.
    + apply sr_nil.
    + now apply sr_skip.
    + destruct s as [|x' s']; [apply sr_nil|].
      change (removelast (x :: x' :: s')) with (x :: removelast (x' :: s')). now apply sr_take.
  - now rewrite removelast_last.
Qed.

Lemma length_removelast_le : forall {A} (s : list A), (length s <= S (length (removelast s)))%nat.
Proof.
  intros A s. destruct s as [|x s] using rev_ind; [cbn; lia|].
  rewrite removelast_last, app_length; cbn; lia.
Qed.

