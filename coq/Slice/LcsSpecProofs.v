(* The reference definitions of LcsSpec.v (used by the OCaml driver to judge the implementation's
   outputs) mean what they should: [subseq_b] decides "is a subsequence up to eqb", and
   [lcs_len_ref] is the optimum; under an equivalence it equals the length of what [lcs_func]
   returns. *)
From Coq Require Import ZArith List Bool Lia Arith.
Import ListNotations.
From Mds Require Import Slice.Subseq Slice.LcsModel Slice.LcsLisUtil Slice.LcsSpec Slice.LcsProofs.

Section LcsSpecProofs.
  Variable T : Type.
  Variable eqb : T -> T -> bool.
  Notation SubB := (SubseqB eqb).

  (* ---- the greedy test ---- *)
  Lemma subseq_b_sound : forall l s, subseq_b T eqb s l = true -> SubB s l.
  Proof.
    induction l as [|y l IH]; intros [|x s] H; cbn in H; try discriminate; try apply sr_nil.
    destruct (eqb x y) eqn:E.
    - apply sr_take; [exact E | now apply IH].
    - apply sr_skip. now apply IH.
  Qed.

  Lemma subseq_b_complete : forall l s, SubB s l -> subseq_b T eqb s l = true.
  Proof.
    induction l as [|y l IH]; intros [|x s] H; cbn; try reflexivity.
    - apply SubseqR_nil_r in H. discriminate.
    - destruct (eqb x y) eqn:E.
      + apply IH. inversion H; subst; [|assumption]. eapply SubseqR_cons_l; eauto.
      + apply IH. inversion H; subst; [assumption|]. cbv beta in *. congruence.
  Qed.

  Theorem subseq_b_iff : forall s l, subseq_b T eqb s l = true <-> SubB s l.
  Proof. intros; split; [apply subseq_b_sound | apply subseq_b_complete]. Qed.

  (* ---- the length table ---- *)
  (* k is the largest length of a list that is an exact subsequence of X and matches a
     subsequence of Y under eqb *)
  Definition OptLen (X Y : list T) (k : nat) : Prop :=
    (exists u, Subseq u X /\ SubB u Y /\ length u = k) /\
    (forall u, Subseq u X -> SubB u Y -> length u <= k).

  Lemma OptLen_nil_l : forall Y, OptLen [] Y 0.
  Proof.
    intros Y. split.
    - exists []. repeat split; apply sr_nil.
    - intros u Hu _. apply SubseqR_nil_r in Hu. subst. cbn; lia.
  Qed.

  Lemma OptLen_nil_r : forall X, OptLen X [] 0.
  Proof.
    intros X. split.
    - exists []. repeat split; apply sr_nil.
    - intros u _ Hu. apply SubseqR_nil_r in Hu. subst. cbn; lia.
  Qed.

  Lemma OptLen_unique : forall X Y k k', OptLen X Y k -> OptLen X Y k' -> k = k'.
  Proof.
    intros X Y k k' [(u & U1 & U2 & U3) B] [(u' & U1' & U2' & U3') B'].
    specialize (B _ U1' U2'). specialize (B' _ U1 U2). lia.
  Qed.

  Lemma rec_match : forall X Y x y kd, eqb x y = true ->
    OptLen X Y kd -> OptLen (X ++ [x]) (Y ++ [y]) (S kd).
  Proof.
    intros X Y x y kd E [(u & U1 & U2 & U3) B]. split.
    - exists (u ++ [x]). repeat split.
      + apply SubseqR_snoc; auto.
      + apply SubseqR_snoc; auto.
      + rewrite app_length; cbn; lia.
    - intros w W1 W2. apply SubseqR_removelast in W1, W2. specialize (B _ W1 W2).
      pose proof (length_removelast_le w). lia.
  Qed.

  Lemma rec_nomatch : forall X Y x y kl ku, eqb x y = false ->
    OptLen (X ++ [x]) Y kl -> OptLen X (Y ++ [y]) ku ->
    OptLen (X ++ [x]) (Y ++ [y]) (Nat.max kl ku).
  Proof.
    intros X Y x y kl ku E [(ul & L1 & L2 & L3) BL] [(uu & U1 & U2 & U3) BU]. split.
    - destruct (Nat.max_spec kl ku) as [[_ ->]|[_ ->]].
      + exists uu. repeat split; auto. now apply SubseqR_app_r.
      + exists ul. repeat split; auto. now apply SubseqR_app_r.
    - intros w W1 W2.
      destruct (SubseqR_snoc_inv _ _ _ _ W1) as [H1 | (w' & a & -> & <- & H1)].
      + specialize (BU _ H1 W2). lia.
      + destruct (SubseqR_snoc_inv _ _ _ _ W2) as [H2 | (w'' & a' & E' & Ha' & H2)].
        * specialize (BL _ W1 H2). lia.
        * apply app_inj_tail in E'. destruct E' as [_ <-]. cbv beta in Ha'. congruence.
  Qed.

  (* one row: entries for Ypre ++ first m+1 elements of r, m = 0 .. |r|-1 *)
  Lemma lcs_row_spec : forall X x r Ypre old diag left,
    length old = length r ->
    (forall m, m < length r -> OptLen X (Ypre ++ firstn (S m) r) (nth m old 0)) ->
    OptLen X Ypre diag -> OptLen (X ++ [x]) Ypre left ->
    length (lcs_row T eqb x r old diag left) = length r /\
    forall m, m < length r ->
      OptLen (X ++ [x]) (Ypre ++ firstn (S m) r) (nth m (lcs_row T eqb x r old diag left) 0).
  Proof.
    intros X x. induction r as [|y r IH]; intros Ypre old diag left Hl Hold Hd Hleft.
    - cbn. split; [reflexivity | intros; lia].
    - destruct old as [|up old]; [discriminate|]. cbn [lcs_row].
      set (v := if eqb x y then S diag else Nat.max left up).
      assert (Hup : OptLen X (Ypre ++ [y]) up) by (apply (Hold 0); cbn; lia).
      assert (Hv : OptLen (X ++ [x]) (Ypre ++ [y]) v).
      { unfold v. destruct (eqb x y) eqn:E; [now apply rec_match | now apply rec_nomatch]. }
      assert (Hl' : length old = length r) by (cbn in Hl; lia).
      assert (Hold' : forall m, m < length r ->
                OptLen X ((Ypre ++ [y]) ++ firstn (S m) r) (nth m old 0)).
      { intros m Hm. rewrite <- app_assoc. cbn [app]. apply (Hold (S m)). cbn; lia. }
      destruct (IH (Ypre ++ [y]) old up v Hl' Hold' Hup Hv) as [L R].
      split; [cbn; now rewrite L|].
      intros [|m] Hm; cbn [nth firstn].
      + exact Hv.
      + specialize (R m ltac:(cbn in Hm; lia)). rewrite <- app_assoc in R. exact R.
  Qed.

  Definition RowOK (X r : list T) (row : list nat) : Prop :=
    length row = length r /\ forall m, m < length r -> OptLen X (firstn (S m) r) (nth m row 0).

  Lemma lcs_rows_ref_spec : forall l r X old, RowOK X r old ->
    RowOK (X ++ l) r (lcs_rows_ref T eqb l r old).
  Proof.
    induction l as [|x l IH]; intros r X old H; cbn [lcs_rows_ref].
    - now rewrite app_nil_r.
    - replace (X ++ x :: l) with ((X ++ [x]) ++ l) by (now rewrite <- app_assoc).
      apply IH. destruct H as [Hl Ho].
      destruct (lcs_row_spec X x r [] old 0 0 Hl) as [L R]; auto.
      + apply OptLen_nil_r.
      + apply OptLen_nil_r.
      + split; assumption.
  Qed.

  Theorem lcs_len_ref_optimal : forall l r, OptLen l r (lcs_len_ref T eqb l r).
  Proof.
    intros l r. unfold lcs_len_ref.
    destruct (lcs_rows_ref_spec l r [] (repeat 0 (length r))) as [Hl Ho].
    - split; [apply repeat_length|]. intros m Hm.
      replace (nth m (repeat 0 (length r)) 0) with 0 by (symmetry; apply nth_repeat).
      apply OptLen_nil_l.
    - cbn [app] in *. set (row := lcs_rows_ref T eqb l r (repeat 0 (length r))) in *.
      destruct (Nat.eq_dec (length r) 0) as [E|E].
      + destruct r; [|discriminate]. destruct row; [|discriminate]. apply OptLen_nil_r.
      + specialize (Ho (length r - 1) ltac:(lia)).
        replace (S (length r - 1)) with (length r) in Ho by lia. rewrite firstn_all in Ho.
        assert (Hlast : forall (rw : list nat), rw <> [] -> last rw 0 = nth (length rw - 1) rw 0).
        { induction rw as [|a [|b rw] IHrw]; intros Hne; [congruence | reflexivity |].
          change (last (a :: b :: rw) 0) with (last (b :: rw) 0). rewrite IHrw by congruence.
          cbn [length]. replace (S (S (length rw)) - 1) with (S (S (length rw) - 1)) by lia. reflexivity. }
        rewrite Hlast by (intros ->; cbn in Hl; lia). now rewrite Hl.
  Qed.

  (* ---- agreement with the model, for ANY boolean test (no law: not reflexive such as == on
     NaN, not symmetric, ...): the result is an exact subsequence of the shorter input xs that
     matches a subsequence of the other input ys under the test called as eqb x y, nothing of that
     kind is longer, and its length is the reference optimum of (xs, ys) ---- *)
  Theorem lcs_func_any_test : forall l r, exists s, lcs_func T eqb l r = Some s /\
    let (xs, ys) := lcs_swap T l r in
    Subseq s xs /\ SubseqB eqb s ys /\
    (forall u, Subseq u xs -> SubseqB eqb u ys -> length u <= length s) /\
    length s = lcs_len_ref T eqb xs ys.
  Proof.
    intros l r. destruct (lcs_func_spec T eqb l r) as (s & H & Hs). exists s. split; [exact H|].
    destruct (lcs_swap T l r) as [xs ys]. destruct Hs as (A & B & C). unfold Opt in C.
    repeat split; auto.
    destruct (lcs_len_ref_optimal xs ys) as [(u & U1 & U2 & U3) Bd].
    specialize (C u U1 U2). specialize (Bd s A B). lia.
  Qed.

  (* ---- agreement with the model ---- *)
  Section Equivalence.
    Hypothesis eqb_refl : forall x, eqb x x = true.
    Hypothesis eqb_sym : forall x y, eqb x y = true -> eqb y x = true.
    Hypothesis eqb_trans : forall x y z, eqb x y = true -> eqb y z = true -> eqb x z = true.

    Theorem lcs_func_length_is_ref : forall l r s,
      lcs_func T eqb l r = Some s -> length s = lcs_len_ref T eqb l r.
    Proof.
      intros l r s H.
      destruct (lcs_len_ref_optimal l r) as [(u & U1 & U2 & U3) B].
      destruct (lcs_func_common T eqb eqb_refl _ _ _ H) as [S1 S2].
      pose proof (lcs_func_optimal T eqb eqb_sym eqb_trans _ _ _ H u
                    (Subseq_SubB T eqb eqb_refl _ _ U1) U2) as Hle.
      destruct (SubB_exact T eqb eqb_sym eqb_trans _ _ S1) as (w & W1 & W2 & W3).
      specialize (B w W1 (W3 _ S2)). lia.
    Qed.
  End Equivalence.
End LcsSpecProofs.
