(* C17: basic lemmas (bounds-checked get/set, windows) and the theorems for At, PtrAt, Head, Tail,
   Stripe, Chunks and Batches. *)
From Coq Require Import ZArith List Bool Lia Permutation.
Import ListNotations.
From Mds Require Import Gen.SliceIdx Slice.SliceUtilModel Slice.SliceUtilSpec.
Local Open Scope Z_scope.

Ltac zb := repeat match goal with
  | H : (_ <? _) = true |- _ => apply Z.ltb_lt in H
  | H : (_ <? _) = false |- _ => apply Z.ltb_ge in H
  | H : (_ <=? _) = true |- _ => apply Z.leb_le in H
  | H : (_ <=? _) = false |- _ => apply Z.leb_gt in H
  | H : (_ =? _) = true |- _ => apply Z.eqb_eq in H
  | H : (_ =? _) = false |- _ => apply Z.eqb_neq in H
  | H : (_ >? _) = _ |- _ => rewrite Z.gtb_ltb in H
  | H : (_ >=? _) = _ |- _ => rewrite Z.geb_leb in H
  | H : andb _ _ = true |- _ => apply andb_true_iff in H; destruct H
  | H : andb _ _ = false |- _ => apply andb_false_iff in H; destruct H
  | H : orb _ _ = true |- _ => apply orb_true_iff in H; destruct H
  | H : orb _ _ = false |- _ => apply orb_false_iff in H; destruct H
  | H : negb _ = true |- _ => apply negb_true_iff in H
  | H : negb _ = false |- _ => apply negb_false_iff in H
  end.

(* decide a boolean condition in the goal from the context *)
Ltac decide_if :=
  match goal with
  | |- context [if ?c then _ else _] => let E := fresh "E" in destruct c eqn:E; zb; try lia
  end.

(* The statement skeleton that the hand-written loop models copy, pinned by counts taken from the
   Go AST: two calls of keep in Partition (the two scans), one gcd and one sliceCheck in Rotate, one
   indexCheck in At and in PtrAt, one append in each of Chunks / Batches / Stripe, one explicit
   panic in each of At / Rotate / Chunks / Batches and none in Partition / PtrAt.  An added fast
   path that calls keep or append again, or a new panic, breaks this lemma. *)
Lemma structure_counts :
  n_part_keep_calls = 2 /\ n_rot_gcd_calls = 1 /\ n_rot_check_calls = 1 /\ n_at_check_calls = 1 /\
  n_ptrat_check_calls = 1 /\ n_chunks_append_calls = 1 /\ n_batches_append_calls = 1 /\
  n_stripe_append_calls = 1 /\ n_chunks_panic_calls = 1 /\ n_batches_panic_calls = 1 /\
  n_rot_panic_calls = 1 /\ n_at_panic_calls = 1 /\ n_part_panic_calls = 0 /\ n_ptrat_panic_calls = 0.
Proof. repeat split. Qed.

Lemma zlen_nonneg {T} (l : list T) : 0 <= zlen l.
Proof. unfold zlen. lia. Qed.

Lemma zlen_app {T} (a b : list T) : zlen (a ++ b) = zlen a + zlen b.
Proof. unfold zlen. rewrite app_length. lia. Qed.

Lemma zlen_cons {T} (x : T) l : zlen (x :: l) = 1 + zlen l.
Proof. unfold zlen. cbn [length]. lia. Qed.

Lemma skipn_skipn {T} (a b : nat) (l : list T) : skipn a (skipn b l) = skipn (b + a) l.
Proof.
  revert l. induction b as [|b IH]; intros l; [reflexivity|].
  destruct l as [|x l]; [rewrite !skipn_nil; reflexivity|]. cbn [skipn plus]. apply IH.
Qed.

Section Basic.
Context {T : Type}.

Lemma get_some (l : list T) i :
  0 <= i < zlen l -> exists x, get l i = Ok x /\ nth_error l (Z.to_nat i) = Some x.
Proof.
  intros H. unfold get.
  destruct ((0 <=? i) && (i <? zlen l)) eqn:E; zb; try lia.
  destruct (nth_error l (Z.to_nat i)) eqn:N.
  - eauto.
  - apply nth_error_None in N. unfold zlen in H. lia.
Qed.

Lemma get_nth (l : list T) i x :
  0 <= i -> nth_error l (Z.to_nat i) = Some x -> get l i = Ok x.
Proof.
  intros Hi N. unfold get.
  assert (Z.to_nat i < length l)%nat by (apply nth_error_Some; congruence).
  destruct ((0 <=? i) && (i <? zlen l)) eqn:E; zb; unfold zlen in *; try lia.
  rewrite N. reflexivity.
Qed.

Lemma get_out (l : list T) i : i < 0 \/ zlen l <= i -> get l i = Panic PRtIndex.
Proof. intros H. unfold get. destruct ((0 <=? i) && (i <? zlen l)) eqn:E; zb; try lia; reflexivity. Qed.

Lemma get_inv (l : list T) i x : get l i = Ok x -> 0 <= i < zlen l /\ nth_error l (Z.to_nat i) = Some x.
Proof.
  unfold get. destruct ((0 <=? i) && (i <? zlen l)) eqn:E; [|discriminate]. zb.
  destruct (nth_error l (Z.to_nat i)); [|discriminate]. intros Hx; inversion Hx; subst. split; [lia|reflexivity].
Qed.

Lemma upd_length (l : list T) n x : length (upd l n x) = length l.
Proof. revert n. induction l as [|h t IH]; intros [|n]; cbn [upd length]; auto. Qed.

Lemma upd_nth_same (l : list T) n x : (n < length l)%nat -> nth_error (upd l n x) n = Some x.
Proof. revert n. induction l as [|h t IH]; intros [|n] H; cbn [upd length nth_error] in *; try lia; auto. apply IH. lia. Qed.

Lemma upd_nth_other (l : list T) n m x : n <> m -> nth_error (upd l n x) m = nth_error l m.
Proof. revert n m. induction l as [|h t IH]; intros [|n] [|m] H; cbn [upd nth_error]; auto; try congruence. Qed.

Lemma upd_app_mid (a : list T) y r x : upd (a ++ y :: r) (length a) x = a ++ x :: r.
Proof. induction a as [|h t IH]; cbn [app length upd]; [reflexivity|]. rewrite IH. reflexivity. Qed.

Lemma set_ok (l : list T) i x : 0 <= i < zlen l -> set l i x = Ok (upd l (Z.to_nat i) x).
Proof. intros H. unfold set. destruct ((0 <=? i) && (i <? zlen l)) eqn:E; zb; try lia. reflexivity. Qed.

Lemma get_app_mid (a : list T) y r : get (a ++ y :: r) (zlen a) = Ok y.
Proof.
  apply get_nth; [apply zlen_nonneg|]. unfold zlen. rewrite Nat2Z.id.
  rewrite nth_error_app2 by lia. rewrite Nat.sub_diag. reflexivity.
Qed.

Lemma set_app_mid (a : list T) y r x : set (a ++ y :: r) (zlen a) x = Ok (a ++ x :: r).
Proof.
  rewrite set_ok.
  - unfold zlen. rewrite Nat2Z.id, upd_app_mid. reflexivity.
  - rewrite zlen_app, zlen_cons. pose proof (zlen_nonneg a). pose proof (zlen_nonneg r). lia.
Qed.

Lemma nth_error_ext_eq (l1 l2 : list T) :
  length l1 = length l2 -> (forall i, (i < length l1)%nat -> nth_error l1 i = nth_error l2 i) -> l1 = l2.
Proof.
  revert l2. induction l1 as [|a l1 IH]; intros [|b l2] L H; cbn [length] in *; try lia; auto.
  f_equal.
  - specialize (H O ltac:(lia)). cbn in H. congruence.
  - apply IH; [lia|]. intros i Hi. apply (H (S i)). lia.
Qed.

(* ---- windows ---- *)
Lemma window_length (b : list T) v : valid_view b v -> zlen (window b v) = vlen v.
Proof.
  intros (H1 & H2 & H3). unfold window, zlen in *. rewrite firstn_length, skipn_length. lia.
Qed.

Lemma splice_window (b : list T) v : valid_view b v -> splice b v (window b v) = b.
Proof.
  intros (H1 & H2 & H3). unfold splice, window.
  rewrite Z2Nat.inj_add by lia. rewrite <- skipn_skipn.
  rewrite firstn_skipn. apply firstn_skipn.
Qed.

Lemma splice_length (b : list T) v l : valid_view b v -> zlen l = vlen v -> zlen (splice b v l) = zlen b.
Proof.
  intros (H1 & H2 & H3) L. unfold splice, zlen in *. rewrite !app_length, firstn_length, skipn_length. lia.
Qed.

(* what a splice leaves alone, and what it puts in the window *)
Lemma splice_spec (b : list T) v l : valid_view b v -> zlen l = vlen v ->
  window (splice b v l) v = l /\
  firstn (Z.to_nat (voff v)) (splice b v l) = firstn (Z.to_nat (voff v)) b /\
  skipn (Z.to_nat (voff v + vlen v)) (splice b v l) = skipn (Z.to_nat (voff v + vlen v)) b.
Proof.
  intros (H1 & H2 & H3) L. unfold splice, window, zlen in *.
  set (p := firstn (Z.to_nat (voff v)) b).
  assert (Lp : length p = Z.to_nat (voff v)) by (unfold p; rewrite firstn_length; lia).
  repeat split.
  - rewrite skipn_app, <- Lp, skipn_all, Nat.sub_diag. cbn [skipn app].
    rewrite firstn_app. replace (Z.to_nat (vlen v) - length l)%nat with O by lia.
    rewrite firstn_all2 by lia. cbn [firstn]. apply app_nil_r.
  - rewrite firstn_app, <- Lp, firstn_all, Nat.sub_diag. cbn [firstn]. apply app_nil_r.
  - rewrite app_assoc, skipn_app.
    rewrite skipn_all2 by (rewrite app_length; lia).
    rewrite app_length. replace (Z.to_nat (voff v + vlen v) - (length p + length l))%nat with O by lia.
    reflexivity.
Qed.

(* ---- At / PtrAt ---- *)
Theorem at_in_range (l : list T) i :
  - zlen l <= i < zlen l ->
  exists x, at_ l i = Ok x /\ nth_error l (Z.to_nat (if i <? 0 then zlen l + i else i)) = Some x.
Proof.
  intros H. unfold at_, index_check, at_arg_i, at_arg_n, at_bad, at_idx, ic_neg, ic_adj, ic_pos, ic_ok.
  cbn [fst snd].
  destruct (i <? 0) eqn:E; zb.
  - destruct (get_some l (i + zlen l) ltac:(lia)) as (x & G & N).
    exists x. decide_if. rewrite G. split; [reflexivity|]. rewrite <- N. f_equal. lia.
  - destruct (get_some l i ltac:(lia)) as (x & G & N).
    exists x. decide_if. auto.
Qed.

Theorem at_out_of_range (l : list T) i :
  i < - zlen l \/ zlen l <= i -> at_ l i = Panic PDocIndex.
Proof.
  intros H. unfold at_, index_check, at_arg_i, at_arg_n, at_bad, at_idx, ic_neg, ic_adj, ic_pos, ic_ok.
  cbn [fst snd]. pose proof (zlen_nonneg l).
  destruct (i <? 0) eqn:E; zb; decide_if; reflexivity.
Qed.

Theorem ptr_at_spec (l : list T) i : ptr_at l i = Ok (at_pos (zlen l) i).
Proof.
  unfold ptr_at, index_check, ptrat_arg_i, ptrat_arg_n, ptrat_good, ptrat_idx, ic_neg, ic_adj, ic_pos, ic_ok, at_pos.
  cbn [fst snd]. pose proof (zlen_nonneg l).
  destruct (i <? 0) eqn:E; zb.
  - destruct ((i + zlen l >=? 0) && (i + zlen l <? zlen l)) eqn:E1; zb.
    + destruct (get_some l (i + zlen l) ltac:(lia)) as (x & G & N). rewrite G. cbn [bind].
      repeat decide_if. f_equal. f_equal. lia.
    + repeat decide_if. reflexivity.
    + repeat decide_if.
  - destruct ((i >=? 0) && (i <? zlen l)) eqn:E1; zb.
    + destruct (get_some l i ltac:(lia)) as (x & G & N). rewrite G. cbn [bind].
      repeat decide_if. reflexivity.
    + lia.
    + repeat decide_if. reflexivity.
Qed.

(* ---- Stripe ---- *)
Lemma stripe_loop_spec (vs : list (list T)) i out :
  0 <= i -> stripe_loop vs i out = Ok (out ++ stripe_spec vs i).
Proof.
  intros Hi. revert out. induction vs as [|v r IH]; intros out; cbn [stripe_loop stripe_spec flat_map].
  - rewrite app_nil_r. reflexivity.
  - unfold st_has, st_idx. destruct (i <? zlen v) eqn:E; zb.
    + destruct (get_some v i ltac:(lia)) as (x & G & N). rewrite G, N. cbn [bind].
      rewrite IH. unfold stripe_spec. rewrite <- app_assoc. reflexivity.
    + assert (N : nth_error v (Z.to_nat i) = None) by (apply nth_error_None; unfold zlen in E; lia).
      rewrite N. cbn [app]. apply IH.
Qed.

Theorem stripe_correct (vs : list (list T)) i : 0 <= i -> stripe vs i = Ok (stripe_spec vs i).
Proof. intros H. unfold stripe. rewrite stripe_loop_spec by exact H. reflexivity. Qed.

(* a negative index is not a documented argument: the code indexes v[i] and the runtime panics
   as soon as there is a slice at all *)
Theorem stripe_negative (v : list T) (r : list (list T)) i : i < 0 -> stripe (v :: r) i = Panic PRtIndex.
Proof.
  intros H. unfold stripe. cbn [stripe_loop]. unfold st_has, st_idx. pose proof (zlen_nonneg v).
  decide_if. rewrite get_out by lia. reflexivity.
Qed.

End Basic.

(* ---- Head / Tail ---- *)
Theorem head_correct v n : 0 <= vlen v <= vcap v -> 0 <= n ->
  head v n = Ok (mkView (voff v) (Z.min n (vlen v)) (vcap v)).
Proof.
  intros H Hn. unfold head, hd_hi, slice3. destruct v as [o l c]. cbn [voff vlen vcap] in *.
  destruct (hd_short l n) eqn:E; unfold hd_short in E; zb.
  - rewrite Z.min_r by lia. reflexivity.
  - decide_if. rewrite Z.min_l by lia. do 2 f_equal; lia.
Qed.

(* both theorems use from the early-return test only  len <= n  (taken) and  n <= len  (not taken),
   so  len < n  and the equivalent  len <= n  both check *)
Theorem tail_correct v n : 0 <= vlen v <= vcap v -> 0 <= n ->
  tail v n = Ok (mkView (voff v + (vlen v - Z.min n (vlen v))) (Z.min n (vlen v))
                        (vcap v - (vlen v - Z.min n (vlen v)))).
Proof.
  intros H Hn. unfold tail, tl_lo, slice3. destruct v as [o l c]. cbn [voff vlen vcap] in *.
  destruct (tl_short l n) eqn:E; unfold tl_short in E; zb.
  - rewrite Z.min_r by lia. do 2 f_equal; lia.
  - decide_if. rewrite Z.min_l by lia. do 2 f_equal; lia.
Qed.

Theorem head_negative v n : 0 <= vlen v -> n < 0 -> head v n = Panic PRtSlice.
Proof. intros H Hn. unfold head, hd_short, hd_hi, slice3. repeat decide_if; reflexivity. Qed.

Theorem tail_negative v n : 0 <= vlen v -> n < 0 -> tail v n = Panic PRtSlice.
Proof. intros H Hn. unfold tail, tl_short, tl_lo, slice3. repeat decide_if; reflexivity. Qed.

(* the elements Head and Tail denote *)
Lemma head_window {T} (b : list T) v n : valid_view b v -> 0 <= n ->
  window b (mkView (voff v) (Z.min n (vlen v)) (vcap v)) = firstn (Z.to_nat n) (window b v).
Proof.
  intros (H1 & H2 & H3) Hn. unfold window. cbn [voff vlen].
  rewrite firstn_firstn. f_equal. lia.
Qed.

Lemma tail_window {T} (b : list T) v n c : valid_view b v -> 0 <= n ->
  window b (mkView (voff v + (vlen v - Z.min n (vlen v))) (Z.min n (vlen v)) c)
  = skipn (Z.to_nat (vlen v - Z.min n (vlen v))) (window b v).
Proof.
  intros (H1 & H2 & H3) Hn. unfold window, zlen in *. cbn [voff vlen].
  set (d := vlen v - Z.min n (vlen v)).
  assert (0 <= d <= vlen v) by (unfold d; lia).
  rewrite Z2Nat.inj_add by lia.
  rewrite skipn_firstn_comm, skipn_skipn. f_equal. unfold d. lia.
Qed.

Theorem head_view {T} (b : list T) v n : valid_view b v -> 0 <= n ->
  exists r, head v n = Ok r /\ voff r = voff v /\ vlen r = Z.min n (vlen v) /\ vcap r = vcap v /\
            window b r = firstn (Z.to_nat n) (window b v).
Proof.
  intros V Hn. pose proof V as (H1 & H2 & H3).
  eexists. split; [apply head_correct; lia|]. do 3 (split; [reflexivity|]). apply head_window; assumption.
Qed.

Theorem tail_view {T} (b : list T) v n : valid_view b v -> 0 <= n ->
  exists r, tail v n = Ok r /\ voff r + vlen r = voff v + vlen v /\ vlen r = Z.min n (vlen v) /\
            voff r + vcap r = voff v + vcap v /\
            window b r = skipn (Z.to_nat (vlen v - Z.min n (vlen v))) (window b v).
Proof.
  intros V Hn. pose proof V as (H1 & H2 & H3).
  eexists. split; [apply tail_correct; lia|]. cbn [voff vlen vcap]. split; [lia|]. split; [reflexivity|].
  split; [lia|]. apply tail_window; assumption.
Qed.

Theorem negative_arguments {T} (v : view) (n : Z) (x : list T) (r : list (list T)) :
  0 <= vlen v -> n < 0 ->
  head v n = Panic PRtSlice /\ tail v n = Panic PRtSlice /\ stripe (x :: r) n = Panic PRtIndex.
Proof. intros Hv Hn. repeat split; [apply head_negative | apply tail_negative | apply stripe_negative]; assumption. Qed.
