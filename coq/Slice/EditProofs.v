(* Proofs about the model of editScriptFunc (Slice/EditLoop.v, Slice/EditModel.v), for every
   element type and every equivalence [eqb]:
     - no index or slice bound is ever out of range, no loop runs out of fuel (EOk);
     - the returned script is Valid (consumes lhs, produces rhs, X/Y the spans at the current
       offsets), keeps exactly |LCS| elements, and no valid script keeps more;
     - it is canonical (no empty edit, Emit and non-Emit edits strictly alternate);
     - it is empty exactly when lhs and rhs are equal under eqb.
   The loop invariant: with lhs = lp ++ ls, rhs = rp ++ rs, lcs = cp ++ cs at the positions
   (lpos, rpos, i), the rest [cs] of the LCS is a subsequence (up to eqb) of both rests [ls] and
   [rs]; the edits so far are a valid script from lp to rp keeping |cp| elements. *)
From Coq Require Import ZArith List Bool Lia.
Import ListNotations.
From Mds Require Import Gen.EditIdx Slice.Subseq Slice.EditLoop Slice.EditSpec Slice.EditSpecProofs.
Local Open Scope Z_scope.

(* The statement skeleton of editScriptFunc the model was written against (regenerated from the
   Go source): which of the if/for statements are loops, one call of LCSFunc, seven appends. *)
Lemma skeleton :
  (es_outer_is_for, es_lscan_is_for, es_rscan_is_for, es_fuse_is_for, es_run_is_for, es_tail_is_for,
   es_ncalls_lcs, es_ncalls_append, es_elide_idx)
  = (true, true, true, false, true, false, 1, 7, 0).
Proof. reflexivity. Qed.

(* the whole statement skeletons (kind and nesting of every statement, in source order) of
   editScriptFunc, of the exported wrapper EditScript -- a single return of the one call of
   editScriptFunc, nothing in front of it (no fast path) -- and of equal *)
Lemma skeleton_shape :
  (es_shape, es_pub_shape, es_equal_shape, es_pub_ncalls)
  = (25326467634256389612761582159554072032967164649697477260849120661034913615, 3663, 3663, 1).
Proof. reflexivity. Qed.

(* every slice expression is a two-index one (no capacity limit s[lo:hi:max]) *)
Lemma skeleton_slices : forall z,
  (es_fuse_x_max z, es_fuse_y_max z, es_drop_x_max z, es_copy_y_max z, es_emit_x_max z,
   es_tail_fuse_x_max z, es_tail_fuse_y_max z, es_tail_drop_x_max z, es_tail_copy_y_max z)
  = (z, z, z, z, z, z, z, z, z).
Proof. reflexivity. Qed.

(* the calls: lcs := LCSFunc(<lhs or rhs>, <the other one>, eq) -- the model follows the order of
   the first two (EditModel.pick_arg), the third is eq; EditScript(lhs, rhs) is
   editScriptFunc(equal, lhs, rhs) with equal(a, b) = (a == b); every append extends out; the two
   returns are nil (inside the elision test) and out *)
Lemma skeleton_calls :
  ((es_lcs_arg0 0 1 2, es_lcs_arg1 0 1 2) = (0, 1) \/ (es_lcs_arg0 0 1 2, es_lcs_arg1 0 1 2) = (1, 0)) /\
  es_lcs_arg2 0 1 2 = 2 /\
  (es_pub_arg0 0 1 2, es_pub_arg1 0 1 2, es_pub_arg2 0 1 2) = (0, 1, 2) /\
  (forall o, (es_append0_dst o, es_append1_dst o, es_append2_dst o, es_append3_dst o,
              es_append4_dst o, es_append5_dst o, es_append6_dst o) = (o, o, o, o, o, o, o)) /\
  (forall n o, (es_ret_elided n, es_ret_out o) = (n, o)).
Proof. repeat split; try reflexivity. first [left; reflexivity | right; reflexivity]. Qed.

Lemma es_equal_decides : forall a b, es_equal a b = true <-> a = b.
Proof. intros a b. unfold es_equal. apply Z.eqb_eq. Qed.

(* the seven Edit[T]{...} literals: the Op constant of each, and which field is set to which
   slice expression (X always a slice of lhs, Y of rhs; the other field of a Drop / Copy / Emit
   is not set) *)
Lemma skeleton_lits :
  (op_of_code es_fuse_op, op_of_code es_drop_op, op_of_code es_copy_op, op_of_code es_emit_op,
   op_of_code es_tail_fuse_op, op_of_code es_tail_drop_op, op_of_code es_tail_copy_op)
  = (Some Replace, Some Drop, Some Copy, Some Emit, Some Replace, Some Drop, Some Copy) /\
  (forall z, (es_fuse_lit_x z, es_fuse_lit_y z, es_drop_lit_x z, es_drop_lit_y z,
              es_copy_lit_x z, es_copy_lit_y z, es_emit_lit_x z, es_emit_lit_y z)
             = (z, z, z, z, z, z, z, z)) /\
  (forall z, (es_tail_fuse_lit_x z, es_tail_fuse_lit_y z, es_tail_drop_lit_x z, es_tail_drop_lit_y z,
              es_tail_copy_lit_x z, es_tail_copy_lit_y z) = (z, z, z, z, z, z)).
Proof. repeat split; reflexivity. Qed.

(* op_of_code inverts op_code: the four constants are distinct *)
Lemma op_of_code_code : forall o, op_of_code (op_code o) = Some o.
Proof. intros []; reflexivity. Qed.

(* ---- indices and slices on lists split at the position ------------------------------- *)

Lemma zlen_app : forall {A} (p s : list A), zlen (p ++ s) = zlen p + zlen s.
Proof. intros. unfold zlen. rewrite app_length. lia. Qed.

Lemma zlen_nonneg : forall {A} (s : list A), 0 <= zlen s.
Proof. intros. unfold zlen. lia. Qed.

Lemma zlen_cons : forall {A} (a : A) s, zlen (a :: s) = 1 + zlen s.
Proof. intros. unfold zlen. cbn [length]. lia. Qed.

Lemma zlen_nil : forall {A}, zlen (@nil A) = 0.
Proof. reflexivity. Qed.

Lemma zth_at : forall {A} (p : list A) a s, zth (p ++ a :: s) (zlen p) = Some a.
Proof.
  intros. unfold zth. pose proof (zlen_nonneg p).
  destruct (zlen p <? 0) eqn:E; [apply Z.ltb_lt in E; lia|].
  unfold zlen. rewrite Nat2Z.id. rewrite nth_error_app2 by lia.
  replace (length p - length p)%nat with 0%nat by lia. reflexivity.
Qed.

Lemma zth_end : forall {A} (p : list A), zth p (zlen p) = None.
Proof.
  intros. unfold zth. pose proof (zlen_nonneg p).
  destruct (zlen p <? 0) eqn:E; [reflexivity|].
  unfold zlen. rewrite Nat2Z.id. apply nth_error_None. lia.
Qed.

Lemma zslice_mid : forall {A} (p x s : list A) lo hi,
    lo = zlen p -> hi = zlen p + zlen x -> zslice (p ++ x ++ s) lo hi = Some x.
Proof.
  intros A p x s lo hi -> ->. unfold zslice.
  pose proof (zlen_nonneg p). pose proof (zlen_nonneg x). pose proof (zlen_nonneg s).
  rewrite !zlen_app.
  replace (0 <=? zlen p) with true by (symmetry; apply Z.leb_le; lia).
  replace (zlen p <=? zlen p + zlen x) with true by (symmetry; apply Z.leb_le; lia).
  replace (zlen p + zlen x <=? zlen p + (zlen x + zlen s)) with true by (symmetry; apply Z.leb_le; lia).
  cbn [andb]. f_equal.
  replace (zlen p + zlen x - zlen p) with (zlen x) by lia.
  unfold zlen. rewrite !Nat2Z.id.
  rewrite skipn_app, skipn_all, Nat.sub_diag. cbn [skipn app].
  rewrite firstn_app, firstn_all, Nat.sub_diag. cbn [firstn]. now rewrite app_nil_r.
Qed.

(* the same with spare capacity behind the slice: nothing of [extra] is reached *)
Lemma zslice_cap_mid : forall {A} (p x s extra : list A) lo hi,
    lo = zlen p -> hi = zlen p + zlen x -> zslice_cap (p ++ x ++ s) extra lo hi = Some x.
Proof.
  intros A p x s extra lo hi Hlo Hhi. unfold zslice_cap.
  rewrite <- !app_assoc. now apply zslice_mid.
Qed.

(* rewrite the visible closed comparisons of machine ints to true / false *)
Ltac zb :=
  repeat match goal with |- context [?a >? ?b] => rewrite (Z.gtb_ltb a b) end;
  repeat match goal with
         | |- context [?a <? ?b] =>
           first [ replace (a <? b) with true by (symmetry; apply Z.ltb_lt; lia)
                 | replace (a <? b) with false by (symmetry; apply Z.ltb_ge; lia) ]
         end.

Section EditProofs.
  Variable T : Type.
  Variable eqb : T -> T -> bool.
  (* a partial equivalence: symmetric and transitive.  Reflexivity is not needed: an element that
     is related to anything is related to itself, and elements related to nothing (as NaN under
     ==) never enter the LCS. *)
  Hypothesis eqb_sym : forall x y, eqb x y = true -> eqb y x = true.
  Hypothesis eqb_trans : forall x y z, eqb x y = true -> eqb y z = true -> eqb x z = true.

  (* what the spare capacity of the two inputs holds: arbitrary *)
  Variables lx rx : list T.

  Local Notation edit := (EditLoop.edit T).
  Local Notation SubB := (SubseqB eqb).
  Local Notation EqT := (fun a b : T => eqb a b = true).

  (* ---- subsequences up to eqb ---------------------------------------------------------- *)

  Lemma self_l : forall x y, eqb x y = true -> eqb x x = true.
  Proof. intros x y H. eapply eqb_trans; [exact H | now apply eqb_sym]. Qed.

  (* the elements of an eqb-subsequence are related to themselves ... *)
  Lemma SubB_self : forall s l, SubB s l -> Forall (fun x => eqb x x = true) s.
  Proof.
    induction 1 as [l | s y l _ IH | x s y l Hxy _ IH]; [constructor | exact IH |].
    constructor; [exact (self_l x y Hxy) | exact IH].
  Qed.

  (* ... so an exact subsequence of such elements is an eqb-subsequence *)
  Lemma Subseq_SubB_self : forall s l,
      Subseq s l -> Forall (fun x => eqb x x = true) s -> SubB s l.
  Proof.
    induction 1 as [l | s y l _ IH | x s y l Hxy _ IH]; intros Hs.
    - apply sr_nil.
    - apply sr_skip. now apply IH.
    - inversion Hs; subst. apply sr_take; [assumption | now apply IH].
  Qed.

  Lemma Forall2_self_l : forall x y, Forall2 EqT x y -> Forall (fun a => eqb a a = true) x.
  Proof. induction 1; constructor; [eapply self_l; eassumption | assumption]. Qed.

  (* dropping the heads of both keeps the subsequence: this is why the run extension may
     consume LCS elements without looking at them *)
  Lemma SubB_drop : forall x cs a s, SubB (x :: cs) (a :: s) -> SubB cs s.
  Proof.
    intros x cs a s H. inversion H; subst.
    - eapply SubseqR_cons_l. eassumption.
    - assumption.
  Qed.

  Lemma SubB_nonempty : forall x cs s, SubB (x :: cs) s -> exists a s', s = a :: s'.
  Proof. intros x cs s H. inversion H; subst; eauto. Qed.

  (* leftmost match of the next LCS element *)
  Lemma SubB_leftmost : forall x cs s,
      SubB (x :: cs) s ->
      exists d a s', s = d ++ a :: s' /\ Forall (fun b => eqb b x = false) d /\
                     eqb a x = true /\ SubB cs s'.
  Proof.
    intros x cs s. induction s as [|b s IH]; intros H.
    - inversion H.
    - destruct (eqb b x) eqn:Hb.
      + exists [], b, s. repeat split; [constructor | assumption | eapply SubB_drop; eassumption].
      + inversion H; subst.
        * destruct (IH H2) as (d & a & s' & -> & Hd & Ha & Hs).
          exists (b :: d), a, s'. repeat split; [constructor; assumption | assumption | assumption].
        * apply eqb_sym in H3. congruence.
  Qed.

  (* ---- the re-matching loops ----------------------------------------------------------- *)

  Lemma scan_spec : forall (cond : bool -> bool) (sidx lidx step : Z -> Z),
      (forall e, cond e = negb e) -> (forall z, sidx z = z) -> (forall z, lidx z = z) ->
      (forall z, step z = z + 1) ->
      forall d p a s' cp x cs fuel,
        Forall (fun b => eqb b x = false) d -> eqb a x = true -> (fuel > length d)%nat ->
        scan T eqb cond sidx lidx step fuel (p ++ d ++ a :: s') (cp ++ x :: cs) (zlen cp) (zlen p)
        = EOk (zlen p + zlen d).
  Proof.
    intros cond sidx lidx step Hc Hs Hl Hst. induction d as [|b d IH]; intros p a s' cp x cs fuel Hd Ha Hf.
    - destruct fuel as [|f]; [cbn in Hf; lia|]. cbn [scan app].
      rewrite Hs, Hl, !zth_at, Hc, Ha. cbn [negb]. rewrite zlen_nil. f_equal. lia.
    - destruct fuel as [|f]; [cbn in Hf; lia|]. cbn [scan].
      rewrite Hs, Hl. cbn [app]. rewrite !zth_at, Hc.
      inversion Hd; subst. rewrite H1. cbn [negb]. rewrite Hst.
      replace (p ++ b :: d ++ a :: s') with ((p ++ [b]) ++ d ++ a :: s') by (now rewrite <- app_assoc).
      replace (zlen p + 1) with (zlen (p ++ [b])) by (rewrite zlen_app, zlen_cons, zlen_nil; lia).
      rewrite IH; [| assumption | assumption | cbn in Hf; lia].
      f_equal. rewrite zlen_app, !zlen_cons, zlen_nil. lia.
  Qed.

  (* ---- the run extension --------------------------------------------------------------- *)

  (* how many further positions the run covers: while LCS elements remain and the next
     elements of both sides are equivalent *)
  Fixpoint run_len (cs ls rs : list T) : nat :=
    match cs, ls, rs with
    | _ :: cs', a :: ls', b :: rs' => if eqb a b then S (run_len cs' ls' rs') else 0
    | _, _, _ => 0
    end.

  Lemma run_ext_spec : forall cs1 cq lq ls1 rq rs1 fuel i lpos rpos m,
      zlen lq = lpos + m -> zlen rq = rpos + m -> zlen cq = i + m ->
      SubB cs1 ls1 -> SubB cs1 rs1 -> (fuel > length cs1)%nat ->
      run_ext T eqb fuel (lq ++ ls1) (rq ++ rs1) (zlen (cq ++ cs1)) i lpos rpos m
      = EOk (m + Z.of_nat (run_len cs1 ls1 rs1)).
  Proof.
    induction cs1 as [|c cs2 IH]; intros cq lq ls1 rq rs1 fuel i lpos rpos m Hl Hr Hc Sl Sr Hf.
    - destruct fuel as [|f]; [cbn in Hf; lia|]. cbn [run_ext run_len].
      rewrite app_nil_r. unfold es_run_cond.
      replace (i + m <? zlen cq) with false by (symmetry; apply Z.ltb_ge; lia). cbn [andb].
      destruct (zth (lq ++ ls1) (es_run_lidx lpos m)), (zth (rq ++ rs1) (es_run_ridx rpos m));
        f_equal; lia.
    - destruct fuel as [|f]; [cbn in Hf; lia|].
      destruct (SubB_nonempty _ _ _ Sl) as (a1 & ls2 & ->).
      destruct (SubB_nonempty _ _ _ Sr) as (b1 & rs2 & ->).
      cbn [run_ext run_len]. unfold es_run_lidx, es_run_ridx, es_run_cond, es_m_step.
      rewrite <- Hl, <- Hr, !zth_at.
      replace (i + m <? zlen (cq ++ c :: cs2)) with true
        by (symmetry; apply Z.ltb_lt; rewrite zlen_app, zlen_cons; pose proof (zlen_nonneg cs2); lia).
      cbn [andb]. destruct (eqb a1 b1) eqn:Hab.
      + replace (lq ++ a1 :: ls2) with ((lq ++ [a1]) ++ ls2) by (now rewrite <- app_assoc).
        replace (rq ++ b1 :: rs2) with ((rq ++ [b1]) ++ rs2) by (now rewrite <- app_assoc).
        replace (cq ++ c :: cs2) with ((cq ++ [c]) ++ cs2) by (now rewrite <- app_assoc).
        rewrite (IH (cq ++ [c]) (lq ++ [a1]) ls2 (rq ++ [b1]) rs2 f i lpos rpos (m + 1)).
        * f_equal. lia.
        * rewrite zlen_app, zlen_cons, zlen_nil. lia.
        * rewrite zlen_app, zlen_cons, zlen_nil. lia.
        * rewrite zlen_app, zlen_cons, zlen_nil. lia.
        * eapply SubB_drop; eassumption.
        * eapply SubB_drop; eassumption.
        * cbn in Hf. lia.
      + f_equal. lia.
  Qed.

  (* where the run stops, the next elements of the two sides differ (if LCS elements remain) *)
  Definition HeadsDiffer (cs ls rs : list T) : Prop :=
    match cs, ls, rs with
    | _ :: _, a :: _, b :: _ => eqb a b = false
    | _, _, _ => True
    end.

  Lemma run_len_spec : forall cs ls rs,
      SubB cs ls -> SubB cs rs ->
      exists e1 e2 c1 ls2 rs2 cs2,
        ls = e1 ++ ls2 /\ rs = e2 ++ rs2 /\ cs = c1 ++ cs2 /\
        length e1 = run_len cs ls rs /\ length c1 = run_len cs ls rs /\
        Forall2 EqT e1 e2 /\ SubB cs2 ls2 /\ SubB cs2 rs2 /\ HeadsDiffer cs2 ls2 rs2.
  Proof.
    induction cs as [|c cs IH]; intros ls rs Sl Sr.
    - exists [], [], [], ls, rs, []. cbn. repeat split; auto; try constructor.
    - destruct (SubB_nonempty _ _ _ Sl) as (a & ls' & ->).
      destruct (SubB_nonempty _ _ _ Sr) as (b & rs' & ->).
      cbn [run_len]. destruct (eqb a b) eqn:Hab.
      + destruct (IH ls' rs' (SubB_drop _ _ _ _ Sl) (SubB_drop _ _ _ _ Sr))
          as (e1 & e2 & c1 & ls2 & rs2 & cs2 & -> & -> & -> & He & Hc & Hf & S1 & S2 & Hd).
        exists (a :: e1), (b :: e2), (c :: c1), ls2, rs2, cs2. cbn [length app].
        repeat split; auto.
      + exists [], [], [], (a :: ls'), (b :: rs'), (c :: cs). cbn. repeat split; auto; try constructor.
  Qed.

  (* ---- what lies before a match: Replace / Drop / Copy / nothing ------------------------ *)

  Definition gap_list (d1 d2 : list T) : list edit :=
    match d1, d2 with
    | [], [] => []
    | _ :: _, [] => [mkEdit Drop d1 []]
    | [], _ :: _ => [mkEdit Copy [] d2]
    | _ :: _, _ :: _ => [mkEdit Replace d1 d2]
    end.

  Lemma zlen_pos : forall {A} (a : A) s, 0 < zlen (a :: s).
  Proof. intros. rewrite zlen_cons. pose proof (zlen_nonneg s). lia. Qed.

  Lemma gap_edits_spec : forall lp d1 ls1 rp d2 rs1 out,
      gap_edits T lx rx (lp ++ d1 ++ ls1) (rp ++ d2 ++ rs1)
                (zlen lp) (zlen lp + zlen d1) (zlen rp) (zlen rp + zlen d2) out
      = EOk (out ++ gap_list d1 d2).
  Proof.
    intros lp d1 ls1 rp d2 rs1 out. unfold gap_edits.
    assert (Lf : forall x y, lit T es_fuse_op x y = EOk (mkEdit Replace x y)) by reflexivity.
    assert (Ld : forall x y, lit T es_drop_op x y = EOk (mkEdit Drop x y)) by reflexivity.
    assert (Lc : forall x y, lit T es_copy_op x y = EOk (mkEdit Copy x y)) by reflexivity.
    unfold es_fuse_cond, es_drop_cond, es_copy_cond, es_fuse_rpos,
      es_fuse_x_lo, es_fuse_x_hi, es_fuse_y_lo, es_fuse_y_hi,
      es_drop_x_lo, es_drop_x_hi, es_copy_y_lo, es_copy_y_hi.
    assert (HL : zslice_cap (lp ++ d1 ++ ls1) lx (zlen lp) (zlen lp + zlen d1) = Some d1)
      by (now apply zslice_cap_mid).
    assert (HR : zslice_cap (rp ++ d2 ++ rs1) rx (zlen rp) (zlen rp + zlen d2) = Some d2)
      by (now apply zslice_cap_mid).
    destruct d1 as [|a1 d1], d2 as [|a2 d2];
      try pose proof (zlen_pos a1 d1); try pose proof (zlen_pos a2 d2);
      rewrite ?zlen_nil, ?Z.add_0_r in *.
    - zb. cbn [andb ebind]. zb. cbn [gap_list]. now rewrite app_nil_r.
    - zb. cbn [andb ebind]. zb. rewrite HR. cbn [of_opt ebind]. now rewrite Lc.
    - zb. cbn [andb]. rewrite HL. cbn [of_opt ebind]. rewrite Ld. cbn [ebind]. zb. reflexivity.
    - zb. cbn [andb]. rewrite HL, HR. cbn [of_opt ebind]. rewrite Lf. cbn [ebind]. zb. reflexivity.
  Qed.

  Lemma tail_edits_spec : forall lp ls rp rs out,
      tail_edits T lx rx (lp ++ ls) (rp ++ rs) (zlen lp) (zlen rp) out = EOk (out ++ gap_list ls rs).
  Proof.
    intros lp ls rp rs out. unfold tail_edits.
    assert (Ltf : forall x y, lit T es_tail_fuse_op x y = EOk (mkEdit Replace x y)) by reflexivity.
    assert (Ltd : forall x y, lit T es_tail_drop_op x y = EOk (mkEdit Drop x y)) by reflexivity.
    assert (Ltc : forall x y, lit T es_tail_copy_op x y = EOk (mkEdit Copy x y)) by reflexivity.
    unfold es_tail_fuse_cond, es_tail_drop_cond, es_tail_copy_cond, es_tail_fuse_rpos,
      es_tail_fuse_x_lo, es_tail_fuse_x_hi, es_tail_fuse_y_lo, es_tail_fuse_y_hi,
      es_tail_drop_x_lo, es_tail_drop_x_hi, es_tail_copy_y_lo, es_tail_copy_y_hi.
    rewrite !zlen_app.
    assert (HL : zslice_cap (lp ++ ls) lx (zlen lp) (zlen lp + zlen ls) = Some ls).
    { rewrite <- (app_nil_r ls) at 1. now apply zslice_cap_mid. }
    assert (HR : zslice_cap (rp ++ rs) rx (zlen rp) (zlen rp + zlen rs) = Some rs).
    { rewrite <- (app_nil_r rs) at 1. now apply zslice_cap_mid. }
    destruct ls as [|a1 d1], rs as [|a2 d2];
      try pose proof (zlen_pos a1 d1); try pose proof (zlen_pos a2 d2);
      rewrite ?zlen_nil, ?Z.add_0_r in *.
    - zb. cbn [andb ebind]. zb. cbn [gap_list]. now rewrite app_nil_r.
    - zb. cbn [andb ebind]. zb. rewrite HR. cbn [of_opt ebind]. now rewrite Ltc.
    - zb. cbn [andb]. rewrite HL. cbn [of_opt ebind]. rewrite Ltd. cbn [ebind]. zb. reflexivity.
    - zb. cbn [andb]. rewrite HL, HR. cbn [of_opt ebind]. rewrite Ltf. cbn [ebind]. zb. reflexivity.
  Qed.

  (* ---- one iteration of the outer loop ------------------------------------------------- *)

  Lemma zslice_mid' : forall {A} (p x s l extra : list A) lo hi,
      l = p ++ x ++ s -> lo = zlen p -> hi = zlen p + zlen x -> zslice_cap l extra lo hi = Some x.
  Proof. intros; subst; now apply zslice_cap_mid. Qed.

  Lemma run_ext_spec1 : forall lp d1 a ls' rp d2 b rs' cp x cs,
      SubB cs ls' -> SubB cs rs' ->
      run_ext T eqb (S (length (cp ++ x :: cs))) (lp ++ d1 ++ a :: ls') (rp ++ d2 ++ b :: rs')
              (zlen (cp ++ x :: cs)) (zlen cp) (zlen lp + zlen d1) (zlen rp + zlen d2) 1
      = EOk (1 + Z.of_nat (run_len cs ls' rs')).
  Proof.
    intros lp d1 a ls' rp d2 b rs' cp x cs Sl Sr.
    replace (lp ++ d1 ++ a :: ls') with ((lp ++ d1 ++ [a]) ++ ls') by (now rewrite <- !app_assoc).
    replace (rp ++ d2 ++ b :: rs') with ((rp ++ d2 ++ [b]) ++ rs') by (now rewrite <- !app_assoc).
    replace (cp ++ x :: cs) with ((cp ++ [x]) ++ cs) by (now rewrite <- !app_assoc).
    apply run_ext_spec; try assumption.
    - rewrite !zlen_app, zlen_cons, zlen_nil. lia.
    - rewrite !zlen_app, zlen_cons, zlen_nil. lia.
    - rewrite !zlen_app, zlen_cons, zlen_nil. lia.
    - rewrite app_length. lia.
  Qed.

  Lemma iter_body_spec : forall lp ls rp rs cp x cs out,
      SubB (x :: cs) ls -> SubB (x :: cs) rs ->
      exists d1 e1 ls2 d2 e2 rs2 c1 cs2,
        ls = d1 ++ e1 ++ ls2 /\ rs = d2 ++ e2 ++ rs2 /\ x :: cs = c1 ++ cs2 /\
        e1 <> [] /\ length c1 = length e1 /\ Forall2 EqT e1 e2 /\
        SubB cs2 ls2 /\ SubB cs2 rs2 /\ HeadsDiffer cs2 ls2 rs2 /\
        (d1 = [] -> d2 = [] ->
         exists a b ls' rs', ls = a :: ls' /\ rs = b :: rs' /\ eqb a b = true) /\
        iter_body T eqb lx rx (lp ++ ls) (rp ++ rs) (cp ++ x :: cs) (zlen lp) (zlen rp) (zlen cp) out
        = EOk (zlen (lp ++ d1 ++ e1), zlen (rp ++ d2 ++ e2), zlen (cp ++ c1),
               out ++ gap_list d1 d2 ++ [mkEdit Emit e1 []]).
  Proof.
    intros lp ls rp rs cp x cs out Sl Sr.
    destruct (SubB_leftmost x cs ls Sl) as (d1 & a & ls' & -> & Hd1 & Ha & Sl').
    destruct (SubB_leftmost x cs rs Sr) as (d2 & b & rs' & -> & Hd2 & Hb & Sr').
    assert (Hab : eqb a b = true) by (eapply eqb_trans; [exact Ha | now apply eqb_sym]).
    (* the computation, up to the slice of the Emit *)
    unfold iter_body, es_lend_init, es_rend_init.
    rewrite (scan_spec es_lscan_cond es_lscan_idx es_lscan_lcs_idx es_lend_step
               (fun _ => eq_refl) (fun _ => eq_refl) (fun _ => eq_refl) (fun _ => eq_refl)
               d1 lp a ls' cp x cs _ Hd1 Ha)
      by (rewrite !app_length; lia).
    cbn [ebind].
    rewrite (scan_spec es_rscan_cond es_rscan_idx es_rscan_lcs_idx es_rend_step
               (fun _ => eq_refl) (fun _ => eq_refl) (fun _ => eq_refl) (fun _ => eq_refl)
               d2 rp b rs' cp x cs _ Hd2 Hb)
      by (rewrite !app_length; lia).
    cbn [ebind].
    rewrite gap_edits_spec. cbn [ebind].
    unfold es_lpos_sync, es_rpos_sync, es_m_init.
    rewrite (run_ext_spec1 lp d1 a ls' rp d2 b rs' cp x cs Sl' Sr'). cbn [ebind].
    unfold es_emit_x_lo, es_emit_x_hi, es_lpos_step, es_rpos_step, es_i_step.
    (* the shape of the run *)
    destruct (run_len_spec cs ls' rs' Sl' Sr')
      as (e1 & e2 & c1 & ls2 & rs2 & cs2 & -> & -> & -> & He & Hc & Hf & S1 & S2 & HD).
    pose proof (Forall2_len _ _ _ Hf) as He2.
    set (n := run_len (c1 ++ cs2) (e1 ++ ls2) (e2 ++ rs2)) in *.
    rewrite (zslice_mid' (lp ++ d1) (a :: e1) ls2)
      by (first [ now rewrite <- !app_assoc
                | now rewrite zlen_app
                | rewrite zlen_app, zlen_cons; unfold zlen; lia ]).
    cbn [of_opt ebind].
    replace (lit T es_emit_op (a :: e1) []) with (EOk (mkEdit Emit (a :: e1) [])) by reflexivity.
    cbn [ebind].
    exists d1, (a :: e1), ls2, d2, (b :: e2), rs2, (x :: c1), cs2.
    repeat split; try assumption.
    - discriminate.
    - cbn [length]. lia.
    - constructor; assumption.
    - intros -> ->. exists a, b, (e1 ++ ls2), (e2 ++ rs2). auto.
    - f_equal. f_equal; [f_equal; [f_equal|]|].
      + rewrite !zlen_app, zlen_cons. unfold zlen. lia.
      + rewrite !zlen_app, zlen_cons. unfold zlen. lia.
      + rewrite !zlen_app, zlen_cons. unfold zlen. lia.
      + now rewrite <- app_assoc.
  Qed.

  (* ---- the invariant on the edits produced so far --------------------------------------- *)

  Definition LastEmit (out : list edit) : Prop :=
    out = [] \/ exists o e, out = o ++ [e] /\ eop e = Emit.

  Definition OutInv (lp rp : list T) (k : nat) (out : list edit) : Prop :=
    Valid eqb lp rp out /\ kept out = k /\ forallb nonempty_edit out = true /\
    alternating out = true /\ LastEmit out.

  Lemma gap_list_cases : forall d1 d2,
      (gap_list d1 d2 = [] /\ d1 = [] /\ d2 = []) \/
      (exists g, gap_list d1 d2 = [g] /\ is_op Emit g = false /\ nonempty_edit g = true /\
                 kept [g] = 0%nat).
  Proof.
    intros [|a1 d1] [|a2 d2]; cbn; [left; auto | right | right | right];
      eexists; repeat split; reflexivity.
  Qed.

  Lemma Valid_gap : forall d1 d2, Valid eqb d1 d2 (gap_list d1 d2).
  Proof.
    intros [|a1 d1] [|a2 d2]; cbn [gap_list];
      [apply Valid_nil | apply Valid_copy | apply Valid_drop | apply Valid_replace].
  Qed.

  Lemma alternating_single : forall e : edit, alternating [e] = true.
  Proof. reflexivity. Qed.

  (* appending what an iteration (or the tail) produces *)
  Lemma OutInv_gap : forall lp rp k out d1 d2,
      OutInv lp rp k out -> (out <> [] -> gap_list d1 d2 <> []) ->
      Valid eqb (lp ++ d1) (rp ++ d2) (out ++ gap_list d1 d2) /\
      kept (out ++ gap_list d1 d2) = k /\
      forallb nonempty_edit (out ++ gap_list d1 d2) = true /\
      alternating (out ++ gap_list d1 d2) = true /\
      (gap_list d1 d2 = [] -> out = []) /\
      (forall g, gap_list d1 d2 = [g] -> is_op Emit g = false).
  Proof.
    intros lp rp k out d1 d2 (Hv & Hk & Hn & Ha & Hl) Hg.
    split; [apply Valid_app; [assumption | apply Valid_gap]|].
    destruct (gap_list_cases d1 d2) as [(Hgl & -> & ->) | (g & Hgl & Hge & Hgn & Hgk)]; rewrite Hgl in *.
    - rewrite app_nil_r. repeat split; auto.
      + intros _. destruct out; [reflexivity|]. exfalso. apply Hg; [discriminate | reflexivity].
      + intros g [=].
    - repeat split.
      + rewrite kept_app, Hgk. lia.
      + rewrite forallb_app, Hn. cbn. now rewrite Hgn.
      + destruct Hl as [-> | (o & e & -> & He)]; [reflexivity|].
        apply all_adjacent_snoc; [exact Ha|]. unfold is_op in *. rewrite He, Hge. reflexivity.
      + intros [=].
      + intros g' [= <-]. assumption.
  Qed.

  Lemma OutInv_step : forall lp rp k out d1 d2 e1 e2,
      OutInv lp rp k out -> (out <> [] -> gap_list d1 d2 <> []) ->
      e1 <> [] -> Forall2 EqT e1 e2 ->
      OutInv (lp ++ d1 ++ e1) (rp ++ d2 ++ e2) (k + length e1)
             (out ++ gap_list d1 d2 ++ [mkEdit Emit e1 []]).
  Proof.
    intros lp rp k out d1 d2 e1 e2 HI Hg He Hf.
    destruct (OutInv_gap lp rp k out d1 d2 HI Hg) as (Hv & Hk & Hn & Ha & Hge & Hgg).
    rewrite !app_assoc. repeat split.
    - apply Valid_app; [assumption | now apply Valid_emit].
    - rewrite kept_app, Hk. cbn. lia.
    - rewrite forallb_app, Hn. cbn. destruct e1; [congruence | reflexivity].
    - destruct (gap_list_cases d1 d2) as [(Hgl & _ & _) | (g & Hgl & Hgem & _ & _)].
      + rewrite Hgl in *. rewrite (Hge eq_refl). reflexivity.
      + rewrite Hgl in *.
        apply all_adjacent_snoc; [exact Ha|].
        unfold is_op in *. cbn [eop op_eqb]. rewrite Hgem. reflexivity.
    - right. exists (out ++ gap_list d1 d2), (mkEdit Emit e1 []). auto.
  Qed.

  (* ---- the outer loop ------------------------------------------------------------------- *)

  Lemma outer_spec : forall fuel cs cp lp ls rp rs out,
      SubB cs ls -> SubB cs rs -> (fuel > length cs)%nat ->
      OutInv lp rp (length cp) out -> (out <> [] -> HeadsDiffer cs ls rs) ->
      exists lp' ls' rp' rs' out',
        lp ++ ls = lp' ++ ls' /\ rp ++ rs = rp' ++ rs' /\
        outer T eqb lx rx fuel (lp ++ ls) (rp ++ rs) (cp ++ cs) (zlen lp) (zlen rp) (zlen cp) out
        = EOk (zlen lp', zlen rp', out') /\
        OutInv lp' rp' (length (cp ++ cs)) out'.
  Proof.
    induction fuel as [|f IH]; intros cs cp lp ls rp rs out Sl Sr Hf HI HD; [lia|].
    destruct cs as [|x cs].
    - cbn [outer]. unfold es_outer_cond. rewrite app_nil_r. zb.
      exists lp, ls, rp, rs, out. auto.
    - cbn [outer]. unfold es_outer_cond.
      pose proof (zlen_pos x cs). rewrite zlen_app. zb.
      destruct (iter_body_spec lp ls rp rs cp x cs out Sl Sr)
        as (d1 & e1 & ls2 & d2 & e2 & rs2 & c1 & cs2 & Hls & Hrs & Hcs & He1 & Hc1 & Hf2 &
            S1 & S2 & HD2 & Hgap & Hit).
      rewrite Hit. rewrite Hcs, Hls, Hrs.
      replace (lp ++ d1 ++ e1 ++ ls2) with ((lp ++ d1 ++ e1) ++ ls2) by (now rewrite <- !app_assoc).
      replace (rp ++ d2 ++ e2 ++ rs2) with ((rp ++ d2 ++ e2) ++ rs2) by (now rewrite <- !app_assoc).
      replace (cp ++ c1 ++ cs2) with ((cp ++ c1) ++ cs2) by (now rewrite <- !app_assoc).
      apply IH; try assumption.
      + assert (length (x :: cs) = length c1 + length cs2)%nat by (rewrite Hcs, app_length; reflexivity).
        destruct e1; [congruence|]. cbn [length] in *. lia.
      + rewrite app_length, Hc1. apply OutInv_step; try assumption.
        intros Ho Hg. destruct (gap_list_cases d1 d2) as [(_ & -> & ->) | (g & Hg' & _)]; [|congruence].
        destruct (Hgap eq_refl eq_refl) as (a & b & ls' & rs' & -> & -> & Hab).
        specialize (HD Ho). cbn in HD. congruence.
      + intros _. exact HD2.
  Qed.

  (* ---- the elision ---------------------------------------------------------------------- *)

  Definition elided (F : list edit) : list edit :=
    match F with
    | [e] => if is_op Emit e then [] else F
    | _ => F
    end.

  Lemma elide_spec : forall F, elide T F = EOk (elided F).
  Proof.
    intros [|e [|e' F]]; unfold elide, es_elide_idx, es_elide_cond, elided.
    - reflexivity.
    - cbn [zth Z.ltb Z.compare Z.to_nat nth_error]. unfold is_op.
      destruct (eop e); reflexivity.
    - cbn [zth Z.ltb Z.compare Z.to_nat nth_error].
      replace (zlen (e :: e' :: F) =? 1) with false; [reflexivity|].
      symmetry. apply Z.eqb_neq. rewrite !zlen_cons. pose proof (zlen_nonneg F). lia.
  Qed.

  Lemma expand_elided : forall lhs rhs F,
      Valid eqb lhs rhs F -> forallb nonempty_edit F = true -> expand lhs (elided F) = F.
  Proof.
    intros lhs rhs [|e [|e' F]] Hv Hn.
    - cbn in Hv. destruct Hv as [-> _]. reflexivity.
    - cbn [elided]. unfold is_op. destruct (eop e) eqn:He; try reflexivity.
      cbn [op_eqb]. cbn in Hv. rewrite He in Hv.
      destruct Hv as (l' & y & r' & -> & _ & Hy & _ & -> & _).
      cbn in Hn. unfold nonempty_edit in Hn. rewrite He in Hn.
      rewrite app_nil_r. destruct e as [o x y0]. cbn in *. subst.
      destruct x; [discriminate | reflexivity].
    - reflexivity.
  Qed.

  (* ---- editScriptFunc after LCSFunc, for any lcs that is a common subsequence ------------ *)

  Section WithLcs.
    Variables lhs rhs lcs : list T.
    Hypothesis Hl : SubB lcs lhs.
    Hypothesis Hr : SubB lcs rhs.

    (* F is the script before the single-Emit elision *)
    Lemma of_lcs_spec :
      exists F, edit_script_of_lcs T eqb lx rx lcs lhs rhs = EOk (elided F) /\
                Valid eqb lhs rhs F /\ kept F = length lcs /\
                forallb nonempty_edit F = true /\ alternating F = true.
    Proof.
      unfold edit_script_of_lcs, es_lpos_init, es_rpos_init, es_i_init.
      destruct (outer_spec (S (length lcs)) lcs [] [] lhs [] rhs [] Hl Hr)
        as (lp & ls & rp & rs & out & Hlhs & Hrhs & Hout & HI).
      - lia.
      - repeat split; auto. left; reflexivity.
      - intros H; congruence.
      - cbn [app] in Hlhs, Hrhs, Hout, HI. change 0 with (@zlen T []). rewrite Hout. cbn [ebind].
        rewrite Hlhs, Hrhs, tail_edits_spec. cbn [ebind]. rewrite elide_spec.
        exists (out ++ gap_list ls rs). split; [reflexivity|].
        assert (Hg : out <> [] -> gap_list ls rs <> [] \/ gap_list ls rs = []) by (intros _; destruct (gap_list ls rs); [right|left]; congruence).
        destruct HI as (Hv & Hk & Hn & Ha & HL).
        split; [apply Valid_app; [assumption | apply Valid_gap]|].
        destruct (gap_list_cases ls rs) as [(Hgl & _ & _) | (g & Hgl & Hge & Hgn & Hgk)]; rewrite Hgl.
        + rewrite app_nil_r. auto.
        + repeat split.
          * rewrite kept_app, Hgk, Hk. lia.
          * rewrite forallb_app, Hn. cbn. now rewrite Hgn.
          * destruct HL as [-> | (o & e & -> & He)]; [reflexivity|].
            apply all_adjacent_snoc; [exact Ha|]. unfold is_op in *. rewrite He, Hge. reflexivity.
    Qed.

    Lemma elided_cases : forall F, elided F = F \/ elided F = [].
    Proof. intros [|e [|e' F]]; cbn; auto. destruct (is_op Emit e); auto. Qed.

    Lemma of_lcs_main :
      exists es, edit_script_of_lcs T eqb lx rx lcs lhs rhs = EOk es /\
                 ValidScript eqb lhs rhs es /\
                 kept (expand lhs es) = length lcs /\
                 canonical es = true /\ alternating es = true /\
                 (es = [] -> EqLists eqb lhs rhs).
    Proof.
      destruct of_lcs_spec as (F & Hrun & Hv & Hk & Hn & Ha).
      exists (elided F). split; [assumption|].
      pose proof (expand_elided lhs rhs F Hv Hn) as Hex.
      unfold ValidScript. rewrite Hex. repeat split; try assumption.
      - destruct (elided_cases F) as [-> | ->]; [|reflexivity].
        unfold canonical. now rewrite Hn, (alternating_adjacent_ok T F Ha).
      - destruct (elided_cases F) as [-> | ->]; [assumption | reflexivity].
      - intros He. rewrite He in Hex. unfold expand in Hex. destruct lhs as [|a l].
        + subst F. cbn in Hv. destruct Hv as [_ ->]. constructor.
        + subst F. cbn in Hv. destruct Hv as (l' & y & r' & Hl' & -> & _ & Hf & -> & ->).
          rewrite app_nil_r. exact Hf.
    Qed.

    (* the converse needs that lcs is as long as any common subsequence *)
    Hypothesis Hopt : forall t, SubB t lhs -> SubB t rhs -> (length t <= length lcs)%nat.

    Lemma all_emit : forall F : list edit,
        forallb nonempty_edit F = true -> dropped F = 0%nat -> copied F = 0%nat ->
        forallb (is_op Emit) F = true.
    Proof.
      induction F as [|e F IH]; intros Hn Hd Hc; [reflexivity|].
      cbn in *. apply andb_true_iff in Hn. destruct Hn as [Hne Hn].
      unfold nonempty_edit, is_op in *.
      destruct (eop e); cbn [op_eqb andb].
      - destruct (X e); [discriminate | cbn in Hd; lia].
      - apply IH; [assumption | lia | lia].
      - destruct (Y e); [discriminate | cbn in Hc; lia].
      - destruct (X e); [discriminate | cbn in Hd; lia].
    Qed.

    Lemma all_emit_short : forall F : list edit,
        forallb (is_op Emit) F = true -> alternating F = true -> elided F = [].
    Proof.
      intros [|e [|e' F]] He Ha; [reflexivity | |].
      - cbn in *. apply andb_true_iff in He. destruct He as [-> _]. reflexivity.
      - exfalso. cbn in He, Ha. apply andb_true_iff in He. destruct He as [H1 He].
        apply andb_true_iff in He. destruct He as [H2 _].
        apply andb_true_iff in Ha. destruct Ha as [Ha _].
        rewrite H1, H2 in Ha. discriminate.
    Qed.

    Lemma of_lcs_equal_inputs :
      EqLists eqb lhs rhs -> edit_script_of_lcs T eqb lx rx lcs lhs rhs = EOk [].
    Proof.
      intros Heq. destruct of_lcs_spec as (F & Hrun & Hv & Hk & Hn & Ha).
      rewrite Hrun. f_equal. apply all_emit_short; [|assumption].
      assert (Hlen : (length lhs <= length lcs)%nat).
      { apply Hopt.
        - apply Subseq_SubB_self; [apply Subseq_refl | exact (Forall2_self_l _ _ Heq)].
        - apply Forall2_SubseqR. exact Heq. }
      pose proof (Forall2_len _ _ _ Heq) as Hlr.
      destruct (Valid_lengths T eqb F lhs rhs Hv) as [H1 H2].
      apply all_emit; [assumption | lia | lia].
    Qed.

    (* no valid script keeps more *)
    Lemma Valid_kept_le : forall es', Valid eqb lhs rhs es' -> (kept es' <= length lcs)%nat.
    Proof.
      intros es' Hv. destruct (Valid_common_subseq T eqb es' lhs rhs Hv) as (c & Hc & H1 & H2).
      rewrite <- Hc. apply Hopt; [|assumption].
      apply Subseq_SubB_self; [exact H1 | exact (SubB_self _ _ H2)].
    Qed.
  End WithLcs.
End EditProofs.
