(* Linear-time functions for replaying the long lines of the scale stream (X lines of
   sliceutiltrace).  The loop models of SliceUtilModel.v walk a list for every element they touch
   (zlen, nth_error, upd), so a slice of 8192 elements costs seconds per call in the extracted
   code; the functions below compute the same results in one pass.  Definitions only;
   Slice/SliceUtilFastProofs.v proves each of them EQUAL to the loop model for all arguments, so
   replaying a line on one or the other is the same prediction. *)
From Coq Require Import ZArith List Bool.
Import ListNotations.
From Mds Require Import Slice.SliceUtilModel Slice.SliceUtilSpec.
Local Open Scope Z_scope.

(* Rotate: the documented panic outside [-n, n], the rotated list inside *)
Definition rotate_fast {T : Type} (l : list T) (k : Z) : res (list T) :=
  let n := zlen l in
  if (- n <=? k) && (k <=? n) then Ok (rotate_list l k) else Panic PDocOffset.

Definition rotate_view_fast {T : Type} (b : list T) (v : view) (k : Z) : res (list T) :=
  do l' <- rotate_fast (window b v) k; Ok (splice b v l').

(* Partition.  What the two-cursor loop does, told on lists: the slice is [kept prefix] ++ [block of
   unkept elements] ++ [rest]; an unkept element of the rest joins the block at its end; a kept one
   is swapped with the FIRST element of the block, which thereby moves to the block's end.  The
   block is a queue: front f, back bk (reversed), block = f ++ rev bk (rev_append: List.rev is quadratic); the kept prefix is
   accumulated in reverse. *)
Section PartFast.
Variable T : Type.
Variable keep : T -> bool.

Fixpoint part_fast_loop (ka f bk c : list T) : list T * list T :=
  match c with
  | [] => (ka, f ++ rev_append bk [])
  | x :: c' =>
    if keep x then
      match f with
      | b :: f' => part_fast_loop (x :: ka) f' (b :: bk) c'
      | [] =>
        match rev_append bk [] with
        | b :: f' => part_fast_loop (x :: ka) f' [b] c'
        | [] => part_fast_loop (x :: ka) [] [] c'
        end
      end
    else part_fast_loop ka f (x :: bk) c'
  end.

(* the longest kept prefix (reversed, onto acc) and what follows it *)
Fixpoint span_kept (acc l : list T) : list T * list T :=
  match l with
  | [] => (acc, [])
  | x :: r => if keep x then span_kept (x :: acc) r else (acc, l)
  end.

Definition partition_win_fast (l : list T) : res (list T * option (Z * Z)) :=
  match l with
  | [] => Ok (l, None)
  | _ :: _ =>
    match span_kept [] l with
    | (_, []) => Ok (l, Some (zlen l, zlen l))
    | (ka, x :: r) =>
      let kb := part_fast_loop ka [x] [] r in
      Ok (rev_append (fst kb) (snd kb), Some (zlen (fst kb), zlen (fst kb)))
    end
  end.

Definition partition_fast (b : list T) (v : view) : res (list T * view) :=
  do r <- partition_win_fast (window b v);
  let b' := splice b v (fst r) in
  match snd r with
  | None => Ok (b', v)
  | Some hm => do rv <- slice3 v 0 (fst hm) (snd hm); Ok (b', rv)
  end.
End PartFast.
Arguments part_fast_loop {T} keep ka f bk c.
Arguments span_kept {T} keep acc l.
Arguments partition_win_fast {T} keep l.
Arguments partition_fast {T} keep b v.
