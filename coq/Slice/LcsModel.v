(* Model of slice.LCSFunc (slice/edit.go), statement by statement: the early return, the swap to
   the shorter input, the two row buffers p and c of pointers to (i, n, prev) cells with the
   shared zero sentinel, the buffer swap at the start of every row, the three-way cell rule, the
   walk back from c[len(as)] while p.n > 0, and the final reverse.  Every index expression, loop
   bound and comparison comes from Gen/LcsIdx.v (regenerated from the Go source on every run).
   Definitions only.

   Result: [Some out] is the returned slice; [None] stands for "a panic (index out of range or
   nil dereference) or loop fuel exhausted" -- LcsProofs.lcs_func_total proves it never happens.

   The fields of the cell constructor [&seq{i - 1, p[i-1].n + 1, p[i-1]}] are generated too
   (lit:seq#0@0..2).  Not expressed: the order of the fields in `type seq struct` (the literal is
   positional), `p = p.prev` of the walk; the initialisation loop `for i := range p` is
   [repeat Zero].  Those are tied by the correspondence runs only. *)
From Coq Require Import ZArith List Bool.
Import ListNotations.
From Mds Require Import Gen.LcsIdx.
Local Open Scope Z_scope.

(* Go slice read/write at a machine-int index; None = index out of range *)
Definition zlen {A} (l : list A) : Z := Z.of_nat (length l).

Definition znth {A} (l : list A) (i : Z) : option A :=
  if i <? 0 then None else nth_error l (Z.to_nat i).

Fixpoint upd_nat {A} (l : list A) (n : nat) (v : A) : option (list A) :=
  match l, n with
  | [], _ => None
  | _ :: t, O => Some (v :: t)
  | h :: t, S n' => match upd_nat t n' v with Some t' => Some (h :: t') | None => None end
  end.

Definition zupd {A} (l : list A) (i : Z) (v : A) : option (list A) :=
  if i <? 0 then None else upd_nat l (Z.to_nat i) v.

(* selection by a generated argument-position function: the translator emits, for an argument
   expression, a function that returns its first argument when the expression is the first
   candidate and its second when it is the second; the model applies it to 0 1 *)
Definition pick2 {A} (sel : Z) (x y : A) : option A :=
  if sel =? 0 then Some x else if sel =? 1 then Some y else None.

(* `type seq struct { i, n int; prev *seq }`; a *seq is either the sentinel &zero (i = n = 0,
   prev = nil) or a cell allocated in the loop. *)
Inductive cell : Set :=
| Zero
| Cell (i n : Z) (prev : cell).

Definition cell_n (c : cell) : Z := match c with Zero => 0 | Cell _ n _ => n end.
Definition cell_i (c : cell) : Z := match c with Zero => 0 | Cell i _ _ => i end.

Section Lcs.
  Variable T : Type.
  Variable eqb : T -> T -> bool.

  (* the third field of the cell literal: the generated lcs_cell_prev returns its first argument
     for `p[i-1]`, its second for `c[i-1]`, its third for `p[i]`; anything else has no model *)
  Definition lcs_cell_pick (i : Z) (p c : list cell) : option cell :=
    let sel := lcs_cell_prev 0 1 2 in
    if sel =? 0 then znth p (lcs_diag_idx i)
    else if sel =? 1 then znth c (lcs_left_idx i)
    else if sel =? 2 then znth p (lcs_up_idx i)
    else None.

  (* for i := 1; i <= len(as); i++ { ... } on row j; returns the filled buffer c *)
  Fixpoint lcs_fill (fuel : nat) (xs ys : list T) (j i : Z) (p c : list cell)
    : option (list cell) :=
    match fuel with
    | O => None
    | S fuel' =>
      if lcs_i_cond i (zlen xs) then
        match znth xs (lcs_as_idx i), znth ys (lcs_bs_idx j) with
        | Some a, Some b =>
          (* eq(as[i-1], bs[j-1]): the argument order is generated *)
          match pick2 (lcs_eq_arg0 0 1) a b, pick2 (lcs_eq_arg1 0 1) a b with
          | Some ea, Some eb =>
          let step :=
            if eqb ea eb then
              (* c[i] = &seq{i - 1, p[i-1].n + 1, p[i-1]}: the three fields are the generated
                 lcs_cell_i, lcs_cell_n and (a selector among the neighbour cells) lcs_cell_prev *)
              match znth p (lcs_diag_idx_n i), lcs_cell_pick i p c with
              | Some dn, Some d =>
                zupd c (lcs_match_dst i) (Cell (lcs_cell_i i) (lcs_cell_n (cell_n dn)) d)
              | _, _ => None
              end
            else
              match znth c (lcs_left_idx_n i), znth p (lcs_up_idx_n i) with
              | Some ln, Some un =>
                if lcs_tie_cond (cell_n ln) (cell_n un) then
                  (* c[i] = c[i-1] *)
                  match znth c (lcs_left_idx i) with
                  | Some l => zupd c (lcs_left_dst i) l
                  | None => None
                  end
                else
                  (* c[i] = p[i] *)
                  match znth p (lcs_up_idx i) with
                  | Some u => zupd c (lcs_up_dst i) u
                  | None => None
                  end
              | _, _ => None
              end
          in
          match step with
          | Some c' => lcs_fill fuel' xs ys j (lcs_i_next i) p c'
          | None => None
          end
          | _, _ => None
          end
        | _, _ => None
        end
      else Some c
    end.

  (* for j := 1; j <= len(bs); j++ { p, c = c, p; fill } ; returns the final (p, c) *)
  Fixpoint lcs_rows (fuel : nat) (xs ys : list T) (j : Z) (p c : list cell)
    : option (list cell * list cell) :=
    match fuel with
    | O => None
    | S fuel' =>
      if lcs_j_cond j (zlen ys) then
        let p1 := c in
        let c1 := p in
        match lcs_fill (S (length xs)) xs ys j lcs_i_init p1 c1 with
        | Some c2 => lcs_rows fuel' xs ys (lcs_j_next j) p1 c2
        | None => None
        end
      else Some (p, c)
    end.

  (* for p := start; p.n > 0; p = p.prev { out = append(out, as[p.i]) }.  The sentinel's prev
     is nil, so stepping past it would dereference nil. *)
  Fixpoint lcs_walk (xs : list T) (p : cell) (out : list T) : option (list T) :=
    if lcs_walk_cond (cell_n p) then
      match znth xs (lcs_out_idx (cell_i p)) with
      | Some a =>
        match p with
        | Zero => None
        | Cell _ _ prev => lcs_walk xs prev (out ++ [a])
        end
      | None => None
      end
    else Some out.

  (* after the swap: xs is `as` (the shorter input, or the first on equal lengths), ys is `bs` *)
  Definition lcs_swap (l r : list T) : list T * list T :=
    if lcs_swap_cond (zlen l) (zlen r) then (r, l) else (l, r).

  Definition lcs_core (xs ys : list T) : option (list T) :=
    let p := repeat Zero (Z.to_nat (lcs_row_len (zlen xs))) in
    let c := repeat Zero (Z.to_nat (lcs_row_len_c (zlen xs))) in
    match lcs_rows (S (length ys)) xs ys lcs_j_init p c with
    | Some (_, c') =>
      match znth c' (lcs_last_idx (zlen xs)) with
      | Some start =>
        match lcs_walk xs start [] with
        | Some out => Some (if lcs_ncalls_reverse =? 1 then rev out else out)
        | None => None
        end
      | None => None
      end
    | None => None
    end.

  Definition lcs_func (l r : list T) : option (list T) :=
    if lcs_empty_cond (zlen l) (zlen r) then Some []
    else let (xs, ys) := lcs_swap l r in lcs_core xs ys.

  (* LCSFunc returns a nil slice exactly on the early return *)
  Definition lcs_is_nil (l r : list T) : bool := lcs_empty_cond (zlen l) (zlen r).
End Lcs.
