(* Model of slice.LNDSFunc, slice.LISFunc and bisectRight (slice/lis.go), statement by statement:
   the early return, the index slices `tails` and `prev`, the lifted first iteration, the range
   loop with its `i++`, the fast path, the binary search over tails[:len(tails)-1], the
   replacement, and the walk back through prev.  The two Go functions are textually the same
   except for the fast-path comparison and the search; the model is one skeleton [run_func]
   instantiated with two records of generated definitions ([lnds_gen], [lis_gen]) from
   Gen/LisIdx.v, so each function keeps its own anchors.  Definitions only.

   slices.BinarySearchFunc is standard library, not part of the repo.  The skeleton therefore takes
   the standard search as an argument [std]; it is instantiated twice:
     - [lis_func]: with [std_binsearch], a hand copy of the go1.23 loop (slices/sort.go).  This is
       the extracted model the correspondence runs replay.
     - [lis_func_std impl]: with ANY function [impl] on the list of comparison results
       cmp(x[0],target), cmp(x[1],target), ...  LisProofs proves LISFunc optimal for every [impl]
       that meets the DOCUMENTED contract of slices.BinarySearchFunc (LisSpec.bsf_meets_contract:
       on a slice sorted with respect to cmp it returns the smallest index i with
       cmp(x[i],target) >= 0, len(x) if there is none), proves that the hand copy meets that
       contract, and that all such instantiations return the same result.

   Result: [Some out]; [None] = a panic (index out of range) or exhausted loop fuel or an unwritten
   slot of `ret` -- LisProofs proves it never happens. *)
From Coq Require Import ZArith List Bool.
Import ListNotations.
From Mds Require Import Gen.LisIdx Slice.LcsModel.
Local Open Scope Z_scope.

(* s[:hi] on a slice whose capacity is at least its length; None = slice bounds out of range *)
Definition zslice_hi {A} (l : list A) (hi : Z) : option (list A) :=
  if (hi <? 0) || (zlen l <? hi) then None else Some (firstn (Z.to_nat hi) l).

(* s[lo:] *)
Definition zslice_lo {A} (l : list A) (lo : Z) : option (list A) :=
  if (lo <? 0) || (zlen l <? lo) then None else Some (skipn (Z.to_nat lo) l).

Fixpoint all_some {A} (l : list (option A)) : option (list A) :=
  match l with
  | [] => Some []
  | Some a :: t => match all_some t with Some t' => Some (a :: t') | None => None end
  | None :: _ => None
  end.

(* the generated pieces one of the two functions is made of *)
Record lis_gen : Set := {
  g_empty_cond : Z -> bool;
  g_tails_len0 : Z;
  g_prev_len : Z -> Z;
  g_prev0_idx : Z;
  g_prev0_val : Z;
  g_tails0_idx : Z;
  g_tails0_val : Z;
  g_range_lo : Z;
  g_i_incr : Z -> Z;
  g_best_idx : Z -> Z;
  g_fast_arg0 : Z;  (* argument order of the fast-path cmp(vs[i], vs[idxOfBestTail]) *)
  g_fast_arg1 : Z;
  g_fast_cond : Z -> bool;
  g_clo_arg0 : Z;   (* argument order in the closure cmp(vs[idx], target) *)
  g_clo_arg1 : Z;
  g_search_hi : Z -> Z;
  g_first_cond : Z -> bool;
  g_neg1 : Z;
  g_pred_idx : Z -> Z;
  g_repl_idx : Z -> Z;
  g_ret_len : Z -> Z;
  g_start_idx : Z -> Z;
  g_ret_idx : Z -> Z -> Z;
  g_nsearch : Z;
  g_right : bool  (* true: bisectRight; false: slices.BinarySearchFunc *)
}.

Definition lnds_gen : lis_gen := {|
  g_empty_cond := lnds_empty_cond; g_tails_len0 := lnds_tails_len0; g_prev_len := lnds_prev_len;
  g_prev0_idx := lnds_prev0_idx; g_prev0_val := lnds_prev0_val; g_tails0_idx := lnds_tails0_idx;
  g_tails0_val := lnds_tails0_val; g_range_lo := lnds_range_lo; g_i_incr := lnds_i_incr;
  g_best_idx := lnds_best_idx; g_fast_arg0 := lnds_fast_arg0 0 1; g_fast_arg1 := lnds_fast_arg1 0 1;
  g_clo_arg0 := lnds_clo_arg0 0 1; g_clo_arg1 := lnds_clo_arg1 0 1; g_fast_cond := lnds_fast_cond; g_search_hi := lnds_search_hi;
  g_first_cond := lnds_first_cond; g_neg1 := lnds_neg1; g_pred_idx := lnds_pred_idx;
  g_repl_idx := lnds_repl_idx; g_ret_len := lnds_ret_len; g_start_idx := lnds_start_idx;
  g_ret_idx := lnds_ret_idx; g_nsearch := lnds_nsearch; g_right := true |}.

Definition lis_gen_ : lis_gen := {|
  g_empty_cond := lis_empty_cond; g_tails_len0 := lis_tails_len0; g_prev_len := lis_prev_len;
  g_prev0_idx := lis_prev0_idx; g_prev0_val := lis_prev0_val; g_tails0_idx := lis_tails0_idx;
  g_tails0_val := lis_tails0_val; g_range_lo := lis_range_lo; g_i_incr := lis_i_incr;
  g_best_idx := lis_best_idx; g_fast_arg0 := lis_fast_arg0 0 1; g_fast_arg1 := lis_fast_arg1 0 1;
  g_clo_arg0 := lis_clo_arg0 0 1; g_clo_arg1 := lis_clo_arg1 0 1; g_fast_cond := lis_fast_cond; g_search_hi := lis_search_hi;
  g_first_cond := lis_first_cond; g_neg1 := lis_neg1; g_pred_idx := lis_pred_idx;
  g_repl_idx := lis_repl_idx; g_ret_len := lis_ret_len; g_start_idx := lis_start_idx;
  g_ret_idx := lis_ret_idx; g_nsearch := lis_nsearch; g_right := false |}.

Section Lis.
  Variable T : Type.
  Variable cmp : T -> T -> Z.

  (* cmp applied to two candidates in the generated argument order (LcsModel.pick2) *)
  Definition cmp_sel (s0 s1 : Z) (x y : T) : option Z :=
    match pick2 s0 x y, pick2 s1 x y with
    | Some a, Some b => Some (cmp a b)
    | _, _ => None
    end.

  (* the closure func(idx int, target T) int { return cmp(vs[idx], target) } *)
  Definition key_cmp (g : lis_gen) (vs : list T) (idx : Z) (target : T) : option Z :=
    match znth vs idx with
    | Some v => cmp_sel (g_clo_arg0 g) (g_clo_arg1 g) v target
    | None => None
    end.

  (* bisectRight's loop *)
  Fixpoint bisect_loop (g : lis_gen) (fuel : nat) (vs : list T) (sub : list Z) (target : T) (low high : Z)
    : option Z :=
    match fuel with
    | O => None
    | S fuel' =>
      if bis_cond low high then
        let mid := bis_mid low high in
        match znth sub mid with
        | Some idx =>
          match key_cmp g vs idx target with
          | Some c =>
            if bis_gt c then bisect_loop g fuel' vs sub target low (bis_high_upd mid)
            else bisect_loop g fuel' vs sub target (bis_low_upd mid) high
          | None => None
          end
        | None => None
        end
      else Some (bis_ret low)
    end.

  Definition bisect_right (g : lis_gen) (vs : list T) (sub : list Z) (target : T) : option Z :=
    let ln := bis_ln (zlen sub) in
    bisect_loop g (S (length sub)) vs sub target bis_low0 (bis_high0 ln).

  (* slices.BinarySearchFunc (first result), go1.23:
       i, j := 0, n; for i < j { h := int(uint(i+j) >> 1); if cmp(x[h], target) < 0 { i = h + 1 } else { j = h } } *)
  Fixpoint std_binsearch_loop (g : lis_gen) (fuel : nat) (vs : list T) (sub : list Z) (target : T) (i j : Z)
    : option Z :=
    match fuel with
    | O => None
    | S fuel' =>
      if i <? j then
        let h := Z.shiftr (i + j) 1 in
        match znth sub h with
        | Some idx =>
          match key_cmp g vs idx target with
          | Some c =>
            if c <? 0 then std_binsearch_loop g fuel' vs sub target (h + 1) j
            else std_binsearch_loop g fuel' vs sub target i h
          | None => None
          end
        | None => None
        end
      else Some i
    end.

  Definition std_binsearch (g : lis_gen) (vs : list T) (sub : list Z) (target : T) : option Z :=
    std_binsearch_loop g (S (length sub)) vs sub target 0 (zlen sub).

  (* the standard library's search as seen from LISFunc: the input vs (captured by the closure),
     the searched index slice, the target; None = panic *)
  Definition std_search : Type := list T -> list Z -> T -> option Z.

  (* no call of the standard search in this function *)
  Definition no_std : std_search := fun _ _ _ => None.

  (* an implementation given only by what it does with the comparison results
     [cmp(vs[sub[0]],target); cmp(vs[sub[1]],target); ...] (the closure panics on an index outside
     vs: None) *)
  Definition std_of (g : lis_gen) (impl : list Z -> option Z) : std_search := fun vs sub target =>
    match all_some (map (fun idx => key_cmp g vs idx target) sub) with
    | Some ks => impl ks
    | None => None
    end.

  Definition search (std : std_search) (g : lis_gen) (vs : list T) (sub : list Z) (target : T)
    : option Z :=
    if g_nsearch g =? 1 then
      if g_right g then bisect_right g vs sub target else std vs sub target
    else None.

  (* one iteration of the main loop; [i0] is the range index (before i++) *)
  Definition step (std : std_search) (g : lis_gen) (vs : list T) (i0 : Z) (st : list Z * list Z)
    : option (list Z * list Z) :=
    let (tails, prev) := st in
    let i := g_i_incr g i0 in
    match znth tails (g_best_idx g (zlen tails)) with
    | Some best =>
      match znth vs i, znth vs best with
      | Some vi, Some vb =>
        match cmp_sel (g_fast_arg0 g) (g_fast_arg1 g) vi vb with
        | None => None
        | Some c =>
        if g_fast_cond g c then
          (* prev[i] = idxOfBestTail; tails = append(tails, i) *)
          match zupd prev i best with
          | Some prev' => Some (tails ++ [i], prev')
          | None => None
          end
        else
          match zslice_hi tails (g_search_hi g (zlen tails)) with
          | Some sub =>
            match search std g vs sub vi with
            | Some ri =>
              let pv :=
                if g_first_cond g ri then Some (g_neg1 g) else znth tails (g_pred_idx g ri) in
              match pv with
              | Some pv =>
                match zupd prev i pv with
                | Some prev' =>
                  match zupd tails (g_repl_idx g ri) i with
                  | Some tails' => Some (tails', prev')
                  | None => None
                  end
                | None => None
                end
              | None => None
              end
            | None => None
            end
          | None => None
          end
        end
      | _, _ => None
      end
    | None => None
    end.

  (* for i := range vs[1:] : one iteration per element of the ranged slice, index from 0 *)
  Fixpoint main_loop (std : std_search) (g : lis_gen) (vs : list T) (rng : list T) (i0 : Z)
           (st : list Z * list Z)
    : option (list Z * list Z) :=
    match rng with
    | [] => Some st
    | _ :: rng' =>
      match step std g vs i0 st with
      | Some st' => main_loop std g vs rng' (i0 + 1) st'
      | None => None
      end
    end.

  (* for i := range ret { ret[len(ret)-1-i] = vs[seqIdx]; seqIdx = prev[seqIdx] } *)
  Fixpoint back_walk (g : lis_gen) (cnt : nat) (vs : list T) (prev : list Z) (i : Z)
           (ret : list (option T)) (seqIdx : Z) : option (list (option T)) :=
    match cnt with
    | O => Some ret
    | S cnt' =>
      match znth vs seqIdx with
      | Some v =>
        match zupd ret (g_ret_idx g (zlen ret) i) (Some v) with
        | Some ret' =>
          match znth prev seqIdx with
          | Some nxt => back_walk g cnt' vs prev (i + 1) ret' nxt
          | None => None
          end
        | None => None
        end
      | None => None
      end
    end.

  Definition init_state (g : lis_gen) (vs : list T) : option (list Z * list Z) :=
    let tails := repeat 0 (Z.to_nat (g_tails_len0 g)) in
    let prev := repeat 0 (Z.to_nat (g_prev_len g (zlen vs))) in
    match zupd prev (g_prev0_idx g) (g_prev0_val g) with
    | Some prev' =>
      match zupd tails (g_tails0_idx g) (g_tails0_val g) with
      | Some tails' => Some (tails', prev')
      | None => None
      end
    | None => None
    end.

  Definition run_func (std : std_search) (g : lis_gen) (vs : list T) : option (list T) :=
    if g_empty_cond g (zlen vs) then Some vs
    else
      match init_state g vs with
      | Some st0 =>
        match zslice_lo vs (g_range_lo g) with
        | Some rng =>
          match main_loop std g vs rng 0 st0 with
          | Some (tails, prev) =>
            let ret := repeat (@None T) (Z.to_nat (g_ret_len g (zlen tails))) in
            match znth tails (g_start_idx g (zlen tails)) with
            | Some seqIdx =>
              match back_walk g (length ret) vs prev 0 ret seqIdx with
              | Some ret' => all_some ret'
              | None => None
              end
            | None => None
            end
          | None => None
          end
        | None => None
        end
      | None => None
      end.

  Definition lnds_func (vs : list T) : option (list T) := run_func no_std lnds_gen vs.
  Definition lis_func (vs : list T) : option (list T) := run_func (std_binsearch lis_gen_) lis_gen_ vs.

  (* LISFunc over any implementation of the standard search *)
  Definition lis_func_std (impl : list Z -> option Z) (vs : list T) : option (list T) :=
    run_func (std_of lis_gen_ impl) lis_gen_ vs.
End Lis.
