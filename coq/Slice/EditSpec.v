(* What an edit script must satisfy (property C11), independent of how it is computed.
   Readable in minutes: [Valid] (executing the edits consumes lhs and produces rhs, each X/Y
   being the very span at the current offsets), [kept] (number of emitted elements),
   [canonical]/[alternating] (shape), and the executable checkers used by the OCaml driver on
   the implementation's own output and by the mdiff slice (C13). *)
From Coq Require Import List Bool.
Import ListNotations.
From Mds Require Import Slice.EditLoop.

Section EditSpec.
  Variable T : Type.
  Variable eqb : T -> T -> bool.   (* the equivalence elements are compared with *)
  Local Notation edit := (EditLoop.edit T).

  (* ---- execution of a script, as a proposition --------------------------------------- *)

  (* [Valid l r es]: executing [es] at the current offsets, with [l] the part of lhs not yet
     consumed and [r] the part of rhs not yet produced, consumes [l] exactly and produces [r]
     exactly.  Drop/Emit/Replace consume X from lhs; Copy/Replace produce Y from rhs; Emit
     produces the elements of X, which must be equivalent, position by position, to the span of
     rhs at the current offset.  "X is the very span of lhs at the current offset" is
     [l = X e ++ l']; unused fields are empty. *)
  Fixpoint Valid (l r : list T) (es : list edit) : Prop :=
    match es with
    | [] => l = [] /\ r = []
    | e :: es' =>
      match eop e with
      | Drop => exists l', l = X e ++ l' /\ Y e = [] /\ Valid l' r es'
      | Copy => exists r', r = Y e ++ r' /\ X e = [] /\ Valid l r' es'
      | Replace => exists l' r', l = X e ++ l' /\ r = Y e ++ r' /\ Valid l' r' es'
      | Emit => exists l' y r', l = X e ++ l' /\ r = y ++ r' /\ Y e = [] /\
                                Forall2 (fun a b => eqb a b = true) (X e) y /\ Valid l' r' es'
      end
    end.

  (* lhs and rhs are equal under eqb *)
  Definition EqLists (l r : list T) : Prop := Forall2 (fun a b => eqb a b = true) l r.

  (* The documented convention "If the edit script is empty, the output is equal to the input":
     the empty script stands for the single Emit of all of lhs. *)
  Definition expand (lhs : list T) (es : list edit) : list edit :=
    match es, lhs with
    | [], _ :: _ => [mkEdit Emit lhs []]
    | _, _ => es
    end.

  Definition ValidScript (lhs rhs : list T) (es : list edit) : Prop :=
    Valid lhs rhs (expand lhs es).

  (* The same thing read as an execution (the doc comment of EditScript): what the script
     consumes from lhs and what it sends to the output. *)
  Definition consumed (es : list edit) : list T :=
    flat_map (fun e => match eop e with Copy => [] | _ => X e end) es.
  Definition produced (es : list edit) : list T :=
    flat_map (fun e => match eop e with Drop => [] | Emit => X e | Copy | Replace => Y e end) es.

  (* number of elements kept (emitted from lhs) *)
  Fixpoint kept (es : list edit) : nat :=
    match es with
    | [] => 0
    | e :: es' => (match eop e with Emit => length (X e) | _ => 0 end) + kept es'
    end.

  (* number of elements removed from lhs / inserted from rhs; their sum is the size of the change
     the script describes (the "length" a minimal script minimises) *)
  Fixpoint dropped (es : list edit) : nat :=
    match es with
    | [] => 0
    | e :: es' => (match eop e with Drop | Replace => length (X e) | _ => 0 end) + dropped es'
    end.

  Fixpoint copied (es : list edit) : nat :=
    match es with
    | [] => 0
    | e :: es' => (match eop e with Copy | Replace => length (Y e) | _ => 0 end) + copied es'
    end.

  Definition cost (es : list edit) : nat := dropped es + copied es.

  (* ---- the most general reading of a script ---------------------------------------------- *)

  (* [Exec l r es]: ANY sequence of edits -- in any order, of any kinds, empty ones, unfused ones
     -- that, executed from the current offsets, consumes [l] and produces [r].  Only the
     field(s) an operation acts on are looked at; what the other field holds is ignored.
     ([Valid] additionally wants the unused fields empty, as EditScript returns them.)  This is
     the class of scripts the returned one is compared with in the minimality theorems. *)
  Fixpoint Exec (l r : list T) (es : list edit) : Prop :=
    match es with
    | [] => l = [] /\ r = []
    | e :: es' =>
      match eop e with
      | Drop => exists l', l = X e ++ l' /\ Exec l' r es'
      | Copy => exists r', r = Y e ++ r' /\ Exec l r' es'
      | Replace => exists l' r', l = X e ++ l' /\ r = Y e ++ r' /\ Exec l' r' es'
      | Emit => exists l' y r', l = X e ++ l' /\ r = y ++ r' /\
                                Forall2 (fun a b => eqb a b = true) (X e) y /\ Exec l' r' es'
      end
    end.

  (* an edit with the fields its operation does not use emptied *)
  Definition clean (e : edit) : edit :=
    match eop e with
    | Drop | Emit => mkEdit (eop e) (X e) []
    | Copy => mkEdit Copy [] (Y e)
    | Replace => e
    end.

  (* ---- canonical form ------------------------------------------------------------------ *)

  Definition is_nil {A} (l : list A) : bool := match l with [] => true | _ => false end.

  (* no empty edit: the field(s) the operation acts on are non-empty *)
  Definition nonempty_edit (e : edit) : bool :=
    match eop e with
    | Drop | Emit => negb (is_nil (X e))
    | Copy => negb (is_nil (Y e))
    | Replace => negb (is_nil (X e)) && negb (is_nil (Y e))
    end.

  Definition is_op (o : op) (e : edit) : bool := op_eqb (eop e) o.

  (* adjacent edits differ in kind, and a Drop never stands next to a Copy (either order) *)
  Definition adjacent_ok (a b : edit) : bool :=
    negb (op_eqb (eop a) (eop b))
    && negb (is_op Drop a && is_op Copy b)
    && negb (is_op Copy a && is_op Drop b).

  Fixpoint all_adjacent (f : edit -> edit -> bool) (es : list edit) : bool :=
    match es with
    | a :: (b :: _) as tl => f a b && all_adjacent f tl
    | _ => true
    end.

  Definition canonical (es : list edit) : bool :=
    forallb nonempty_edit es && all_adjacent adjacent_ok es.

  (* the stronger shape the algorithm produces: Emit and non-Emit edits strictly alternate (so
     between two Emits there is exactly one of Drop / Copy / Replace) *)
  Definition alternating (es : list edit) : bool :=
    all_adjacent (fun a b => xorb (is_op Emit a) (is_op Emit b)) es.

  (* ---- executable checkers ---------------------------------------------------------------- *)

  (* [take_span f x l]: if [x] is, element by element under [f], a prefix of [l], the rest of [l] *)
  Fixpoint take_span (f : T -> T -> bool) (x l : list T) : option (list T) :=
    match x, l with
    | [], _ => Some l
    | a :: x', b :: l' => if f a b then take_span f x' l' else None
    | _ :: _, [] => None
    end.

  (* [same] decides whether an element of X/Y *is* the element of the input at that offset
     (identity of elements); [eqb] is the equivalence.  When [same] is Leibniz equality this
     decides [Valid] (EditProofs.valid_edits_gen_iff). *)
  Fixpoint valid_edits_gen (same : T -> T -> bool) (l r : list T) (es : list edit) : bool :=
    match es with
    | [] => is_nil l && is_nil r
    | e :: es' =>
      match eop e with
      | Drop =>
        match take_span same (X e) l with
        | Some l' => is_nil (Y e) && valid_edits_gen same l' r es'
        | None => false
        end
      | Copy =>
        match take_span same (Y e) r with
        | Some r' => is_nil (X e) && valid_edits_gen same l r' es'
        | None => false
        end
      | Replace =>
        match take_span same (X e) l, take_span same (Y e) r with
        | Some l', Some r' => valid_edits_gen same l' r' es'
        | _, _ => false
        end
      | Emit =>
        match take_span same (X e) l, take_span eqb (X e) r with
        | Some l', Some r' => is_nil (Y e) && valid_edits_gen same l' r' es'
        | _, _ => false
        end
      end
    end.

  Definition valid_script_gen (same : T -> T -> bool) (lhs rhs : list T) (es : list edit) : bool :=
    valid_edits_gen same lhs rhs (expand lhs es).

  (* the checkers with spans compared under [eqb] itself (exact when eqb is equality, as for
     the public EditScript on comparable types) *)
  Definition valid_edits (l r : list T) (es : list edit) : bool := valid_edits_gen eqb l r es.
  Definition valid_script (lhs rhs : list T) (es : list edit) : bool := valid_script_gen eqb lhs rhs es.

  (* lhs equals rhs under eqb, as a boolean *)
  Fixpoint eq_lists (l r : list T) : bool :=
    match l, r with
    | [], [] => true
    | a :: l', b :: r' => eqb a b && eq_lists l' r'
    | _, _ => false
    end.
End EditSpec.

Arguments Valid {T} eqb l r es.
Arguments EqLists {T} eqb l r.
Arguments expand {T} lhs es.
Arguments ValidScript {T} eqb lhs rhs es.
Arguments kept {T} es.
Arguments dropped {T} es.
Arguments copied {T} es.
Arguments cost {T} es.
Arguments Exec {T} eqb l r es.
Arguments clean {T} e.
Arguments consumed {T} es.
Arguments produced {T} es.
Arguments is_nil {A} l.
Arguments nonempty_edit {T} e.
Arguments is_op {T} o e.
Arguments adjacent_ok {T} a b.
Arguments all_adjacent {T} f es.
Arguments canonical {T} es.
Arguments alternating {T} es.
Arguments take_span {T} f x l.
Arguments valid_edits_gen {T} eqb same l r es.
Arguments valid_script_gen {T} eqb same lhs rhs es.
Arguments valid_edits {T} eqb l r es.
Arguments valid_script {T} eqb lhs rhs es.
Arguments eq_lists {T} eqb l r.
