(* C17: Rotate.  The faithful gcd / cycle-chasing loop model [rotate_impl] equals the list-level
   rotation [rotate_list] for every -n <= k <= n, and panics as documented otherwise. *)
From Coq Require Import ZArith Znumtheory List Bool Lia Arith.
Import ListNotations.
From Mds Require Import Gen.SliceIdx Slice.SliceUtilModel Slice.SliceUtilSpec Slice.SliceUtilProofs Slice.SliceUtilNT.
Local Open Scope Z_scope.

(* ---- gcd ---- *)
Lemma gcd_loop_ok : forall fuel a b, 0 <= a -> 0 <= b -> (Z.to_nat b < fuel)%nat ->
  gcd_loop fuel a b = Ok (Z.gcd a b).
Proof.
  induction fuel as [|f IH]; intros a b Ha Hb Hf; [lia|].
  cbn [gcd_loop]. unfold gcd_cond, gcd_a, gcd_b, gcd_ret.
  destruct (b =? 0) eqn:E; zb; cbn [negb].
  - subst b. rewrite Z.gcd_0_r, Z.abs_eq by lia. reflexivity.
  - rewrite Z.rem_mod_nonneg by lia.
    pose proof (Z.mod_pos_bound a b ltac:(lia)).
    rewrite IH by lia. f_equal.
    rewrite (Z.gcd_comm b), Z.gcd_mod by lia. apply Z.gcd_comm.
Qed.

Lemma gcd_impl_ok a b : 0 <= a -> 0 <= b -> gcd_impl a b = Ok (Z.gcd a b).
Proof. intros Ha Hb. unfold gcd_impl. apply gcd_loop_ok; lia. Qed.

(* ---- the array invariant ---- *)
Section Rot.
Context {T : Type}.
Variable orig : list T.
Variables n k : Z.
Hypothesis Hn : n = zlen orig.
Hypothesis Hk : 0 < k < n.
Local Notation g := (Z.gcd k n).
Local Notation iter := (iter n k).

(* L is the original with exactly the positions in D already holding their final value *)
Definition agrees (L : list T) (D : Z -> Prop) : Prop :=
  length L = length orig /\
  forall p, 0 <= p < n ->
    (D p -> nth_error L (Z.to_nat p) = nth_error orig (Z.to_nat ((p - k) mod n))) /\
    (~ D p -> nth_error L (Z.to_nat p) = nth_error orig (Z.to_nat p)).

(* positions done when cycle j has made t steps: the orbits of all earlier representatives and
   the first t successors of j *)
Definition Dn (j : Z) (t : nat) (p : Z) : Prop :=
  (exists j' m, 0 <= j' < j /\ p = iter m j') \/ (exists s, (1 <= s <= t)%nat /\ p = iter s j).

Lemma agrees_ext L D D' : (forall p, 0 <= p < n -> (D p <-> D' p)) -> agrees L D -> agrees L D'.
Proof.
  intros E [HL H]. split; [exact HL|]. intros p Hp. destruct (H p Hp) as [H1 H2]. specialize (E p Hp).
  split; intros Hd; [apply H1 | apply H2]; tauto.
Qed.

Lemma agrees_step L D q x : agrees L D -> 0 <= q < n ->
  nth_error orig (Z.to_nat ((q - k) mod n)) = Some x ->
  agrees (upd L (Z.to_nat q) x) (fun p => D p \/ p = q).
Proof.
  intros [HL H] Hq Hx. split; [rewrite upd_length; exact HL|].
  intros p Hp. destruct (Z.eq_dec p q) as [->|Ne].
  - rewrite upd_nth_same by (rewrite HL; unfold zlen in Hn; lia).
    split; [intros _; symmetry; exact Hx | intros Hd; exfalso; apply Hd; right; reflexivity].
  - rewrite upd_nth_other by lia. destruct (H p Hp) as [H1 H2].
    split; intros Hd; [apply H1 | apply H2]; tauto.
Qed.

Lemma Dn_succ j t p : Dn j (S t) p <-> (Dn j t p \/ p = iter (S t) j).
Proof.
  unfold Dn. split.
  - intros [H|[s [Hs E]]]; [left; left; exact H|].
    destruct (Nat.eq_dec s (S t)) as [->|Ne]; [right; exact E|].
    left; right. exists s. split; [lia|exact E].
  - intros [[H|[s [Hs E]]]|E]; [left; exact H| |].
    + right. exists s. split; [lia|exact E].
    + right. exists (S t). split; [lia|exact E].
Qed.

Let Hn0 : 0 < n. Proof. lia. Qed.
Let Hk0 : 0 <= k. Proof. lia. Qed.

(* the position about to be written has not been touched yet *)
Lemma next_not_done j t : 0 <= j < g ->
  (forall s, (1 <= s <= t)%nat -> iter s j <> j) -> ~ Dn j t (iter (S t) j).
Proof.
  intros Hj Hnr [[j' [m [Hj' E]]]|[s [Hs E]]].
  - apply (f_equal (fun x => x mod g)) in E.
    rewrite !(iter_class n k Hn0) in E. rewrite !Z.mod_small in E by lia. lia.
  - pose proof (g_le_n n k Hn0) as Hgn.
    replace (S t) with (s + (S t - s))%nat in E by lia.
    rewrite (iter_add n k s) in E.
    apply (iter_inj n k Hn0) in E; [| apply iter_range; lia | lia].
    apply (Hnr (S t - s)%nat); [lia | exact E].
Qed.

Lemma j_not_done j : 0 <= j < g -> ~ Dn j 0 j.
Proof.
  intros Hj [[j' [m [Hj' E]]]|[s [Hs _]]]; [|lia].
  apply (f_equal (fun x => x mod g)) in E.
  rewrite (iter_class n k Hn0) in E. rewrite !Z.mod_small in E by lia. lia.
Qed.

(* the inner loop: from step t of cycle j to the step t' at which it returns to j *)
Lemma cycle_ok : forall fuel t L cur j,
  0 <= j < g ->
  agrees L (Dn j t) ->
  nth_error orig (Z.to_nat (iter t j)) = Some cur ->
  (forall s, (1 <= s <= t)%nat -> iter s j <> j) ->
  (Z.to_nat n <= fuel + t)%nat ->
  exists L' t', (1 <= t')%nat /\ cycle fuel L k j (iter t j) cur = Ok L' /\
                agrees L' (Dn j t') /\ iter t' j = j.
Proof.
  pose proof (g_le_n n k Hn0) as Hgn.
  induction fuel as [|f IH]; intros t L cur j Hj Ha Hcur Hnr Hf.
  - exfalso. apply (Hnr (Z.to_nat n)); [lia|]. apply iter_n; lia.
  - cbn [cycle]. unfold rot_inner_cond, rot_next, rot_read_idx, rot_write_idx, rot_break, rot_i_step.
    destruct Ha as [HL Hp].
    assert (ZL : zlen L = n) by (unfold zlen in *; lia).
    rewrite ZL. destruct (n =? 0) eqn:E0; zb; [lia|].
    assert (Hit : 0 <= iter t j < n) by (apply iter_range; lia).
    rewrite Z.rem_mod_nonneg by lia.
    change ((iter t j + k) mod n) with (iter (S t) j).
    assert (Hnx : 0 <= iter (S t) j < n) by (apply iter_range; lia).
    pose proof (next_not_done j t Hj Hnr) as ND.
    destruct (Hp _ Hnx) as [_ Hread]. specialize (Hread ND).
    destruct (get_some L (iter (S t) j) ltac:(lia)) as (nextv & G & N).
    rewrite G. cbn [bind]. rewrite set_ok by lia. cbn [bind].
    assert (Ha' : agrees (upd L (Z.to_nat (iter (S t) j)) cur) (Dn j (S t))).
    { eapply agrees_ext; [intros p _; symmetry; apply Dn_succ|].
      apply agrees_step; [split; assumption | exact Hnx |].
      cbn [SliceUtilNT.iter]. rewrite (phi_inv n k) by exact Hit. exact Hcur. }
    destruct (iter (S t) j =? j) eqn:Eb; zb.
    + exists (upd L (Z.to_nat (iter (S t) j)) cur), (S t). split; [lia|]. split; [reflexivity|]. split; [exact Ha' | exact Eb].
    + apply (IH (S t)); try assumption.
      * rewrite <- Hread. exact N.
      * intros s Hs. destruct (Nat.eq_dec s (S t)) as [->|Ne]; [exact Eb | apply Hnr; lia].
      * lia.
Qed.

(* after cycle j has returned to j, exactly the orbits of 0..j are done *)
Lemma Dn_closed j t p : 0 <= j -> (1 <= t)%nat -> iter t j = j -> (Dn j t p <-> Dn (j + 1) 0 p).
Proof.
  intros Hj Ht E. unfold Dn. split.
  - intros [[j' [m [Hj' Ep]]]|[s [Hs Ep]]]; left.
    + exists j', m. split; [lia|exact Ep].
    + exists j, s. split; [lia|exact Ep].
  - intros [[j' [m [Hj' Ep]]]|[s [Hs _]]]; [|lia].
    destruct (Z.eq_dec j' j) as [->|Ne].
    + destruct (iter_period n k t j m ltac:(lia) E) as [r [Hr Er]].
      right. destruct r as [|r].
      * exists t. split; [lia|]. rewrite Ep, Er. cbn [SliceUtilNT.iter]. symmetry. exact E.
      * exists (S r). split; [lia|]. rewrite Ep, Er. reflexivity.
    + left. exists j', m. split; [lia|exact Ep].
Qed.

(* the outer loop *)
Lemma cycles_ok : forall count j L,
  0 <= j -> j + Z.of_nat count = g ->
  agrees L (Dn j 0) ->
  exists L', cycles count L k j = Ok L' /\ agrees L' (Dn g 0).
Proof.
  pose proof (g_le_n n k Hn0) as Hgn.
  induction count as [|c IH]; intros j L Hj Hc Ha.
  - cbn [cycles]. exists L. split; [reflexivity|]. replace g with j by lia. exact Ha.
  - cbn [cycles]. unfold rot_cur0_idx, rot_i0.
    assert (Hjg : 0 <= j < g) by lia.
    pose proof Ha as [HL Hp].
    assert (ZL : zlen L = n) by (unfold zlen in *; lia).
    destruct (get_some L j ltac:(lia)) as (cur & G & N). rewrite G. cbn [bind].
    destruct (Hp j ltac:(lia)) as [_ Hread]. specialize (Hread (j_not_done j Hjg)).
    destruct (cycle_ok (S (length L)) 0 L cur j Hjg Ha) as (L' & t' & Ht' & C & Ha' & Er).
    + cbn [SliceUtilNT.iter]. rewrite <- Hread. exact N.
    + intros s Hs. lia.
    + unfold zlen in *. lia.
    + cbn [SliceUtilNT.iter] in C. rewrite C. cbn [bind].
      apply IH; [lia | lia |].
      eapply agrees_ext; [|exact Ha']. intros p _. apply Dn_closed; [lia | exact Ht' | exact Er].
Qed.

Lemma all_done p : 0 <= p < n -> Dn g 0 p.
Proof.
  intros Hp. left. pose proof (g_pos n k Hn0) as Hg.
  destruct (coverage n k Hn0 p Hp) as [m Em].
  exists (p mod g), m. split; [apply Z.mod_pos_bound; exact Hg | symmetry; exact Em].
Qed.

Lemma none_done p : ~ Dn 0 0 p.
Proof. intros [[j' [m [Hj' _]]]|[s [Hs _]]]; lia. Qed.

End Rot.

(* ---- the list-level rotation, pointwise ---- *)
Lemma rotate_list_length {T} (l : list T) k : length (rotate_list l k) = length l.
Proof.
  unfold rotate_list. destruct (zlen l =? 0); [reflexivity|].
  rewrite app_length, skipn_length, firstn_length. lia.
Qed.

Lemma rotate_list_nth {T} (l : list T) k p : 0 < zlen l -> 0 <= p < zlen l ->
  nth_error (rotate_list l k) (Z.to_nat p) = nth_error l (Z.to_nat ((p - k) mod zlen l)).
Proof.
  intros Hn Hp. unfold rotate_list. destruct (zlen l =? 0) eqn:E; zb; [lia|].
  set (n := zlen l) in *. pose proof (Z.mod_pos_bound k n Hn) as Hkm.
  set (m := Z.to_nat (n - k mod n)).
  assert (Hm : (m <= length l)%nat) by (unfold m, n, zlen in *; lia).
  assert (Ls : length (skipn m l) = Z.to_nat (k mod n)) by (rewrite skipn_length; unfold m, n, zlen in *; lia).
  assert (Epk : (p - k) mod n = (p - k mod n) mod n) by (rewrite Zminus_mod_idemp_r; reflexivity).
  destruct (Z_lt_dec p (k mod n)) as [Lt|Ge].
  - rewrite nth_error_app1 by lia.
    assert (Nth : forall (A : Type) (a : nat) (x : list A) i, nth_error (skipn a x) i = nth_error x (a + i)).
    { intros A a. induction a as [|a IH]; intros x i; [reflexivity|]. destruct x; [destruct i; reflexivity|]. cbn [skipn plus nth_error]. apply IH. }
    rewrite Nth. f_equal. rewrite Epk.
    replace (p - k mod n) with ((p - k mod n + n) + (-1) * n) by ring.
    rewrite Z.mod_add by lia. rewrite Z.mod_small by lia. unfold m. lia.
  - rewrite nth_error_app2 by lia. rewrite Ls.
    assert (Nth : forall (A : Type) (a : nat) (x : list A) i, (i < a)%nat -> nth_error (firstn a x) i = nth_error x i).
    { intros A a. induction a as [|a IH]; intros x i Hi; [lia|]. destruct x; [destruct i; reflexivity|]. destruct i; [reflexivity|]. cbn [firstn nth_error]. apply IH. lia. }
    rewrite Nth.
    2:{ unfold m. lia. }
    f_equal. rewrite Epk, (Z.mod_small (p - k mod n)) by lia. lia.
Qed.

(* ---- main theorems ---- *)
Section Main.
Context {T : Type}.

Lemma rotate_core (l : list T) k : 0 < k < zlen l ->
  exists L, cycles (Z.to_nat (Z.gcd k (zlen l))) l k 0 = Ok L /\ L = rotate_list l k.
Proof.
  intros Hk. set (n := zlen l) in *.
  assert (Hn0 : 0 < n) by lia. assert (Hk0 : 0 <= k) by lia.
  pose proof (g_pos n k Hn0) as Hg.
  destruct (cycles_ok l n k eq_refl Hk (Z.to_nat (Z.gcd k n)) 0 l) as (L & C & [HL Hp]).
  - lia.
  - lia.
  - split; [reflexivity|]. intros p Hp. split; [intros Hd; exfalso; exact (none_done n k p Hd) | reflexivity].
  - exists L. split; [exact C|].
    apply nth_error_ext_eq; [rewrite rotate_list_length; exact HL|].
    intros i Hi. rewrite HL in Hi.
    assert (Hi' : 0 <= Z.of_nat i < n) by (unfold n, zlen; lia).
    destruct (Hp _ Hi') as [H1 _]. specialize (H1 (all_done n k Hk _ Hi')).
    rewrite Nat2Z.id in H1. rewrite H1.
    rewrite <- (Nat2Z.id i) at 2. rewrite rotate_list_nth by (fold n; lia). reflexivity.
Qed.

Lemma rotate_list_0 (l : list T) : rotate_list l 0 = l.
Proof.
  unfold rotate_list. destruct (zlen l =? 0) eqn:E; zb; [reflexivity|].
  pose proof (zlen_nonneg l). rewrite Z.mod_0_l by lia. rewrite Z.sub_0_r.
  unfold zlen. rewrite Nat2Z.id, skipn_all, firstn_all. reflexivity.
Qed.

Lemma rotate_list_mod (l : list T) k k' : zlen l <> 0 -> k mod zlen l = k' mod zlen l -> rotate_list l k = rotate_list l k'.
Proof. intros Hn E. unfold rotate_list. rewrite E. reflexivity. Qed.

(* normalisation of a negative offset; the proof uses only that the branch is taken for k < 0
   and may be taken for k = 0 (so [i < 0] and [i <= 0] in sliceCheck are both covered) *)
Lemma slice_check_norm n k : 0 <= n -> - n <= k <= n ->
  exists k', slice_check k n = (k', true) /\ 0 <= k' <= n /\ (k' = k \/ k' = k + n).
Proof.
  intros Hn Hk. unfold slice_check, sc_adj, sc_pos, sc_ok.
  destruct (sc_neg k n) eqn:En; unfold sc_neg in En.
  - assert (k <= 0) by (zb; lia). clear En. exists (k + n).
    split; [f_equal; apply andb_true_iff; split; [rewrite Z.geb_leb|]; apply Z.leb_le; lia|]. lia.
  - assert (0 <= k) by (zb; lia). clear En. exists k.
    split; [f_equal; apply andb_true_iff; split; [rewrite Z.geb_leb|]; apply Z.leb_le; lia|]. lia.
Qed.

Lemma slice_check_bad n k : 0 <= n -> k < - n \/ n < k -> snd (slice_check k n) = false.
Proof.
  intros Hn Hk. unfold slice_check, sc_adj, sc_pos, sc_ok. cbn [snd].
  destruct (sc_neg k n) eqn:En; unfold sc_neg in En.
  - assert (k <= 0) by (zb; lia). clear En. apply andb_false_iff. left. rewrite Z.geb_leb. apply Z.leb_gt. lia.
  - assert (0 <= k) by (zb; lia). clear En. apply andb_false_iff. right. apply Z.leb_gt. lia.
Qed.

Theorem rotate_impl_spec (l : list T) k :
  - zlen l <= k <= zlen l -> rotate_impl l k = Ok (rotate_list l k).
Proof.
  intros Hk. pose proof (zlen_nonneg l) as Hn.
  unfold rotate_impl, rot_arg_k, rot_arg_n, rot_bad, rot_noop, rot_gcd_a, rot_gcd_b, rot_ncycles, rot_g.
  set (n := zlen l) in *.
  destruct (slice_check_norm n k Hn Hk) as (k' & Sc & Hk' & Ek). rewrite Sc. cbn [fst snd negb].
  assert (Er : rotate_list l k = rotate_list l k').
  { destruct (Z.eq_dec n 0) as [E0|N0]; [unfold rotate_list; fold n; rewrite E0; reflexivity|].
    apply rotate_list_mod; [exact N0|]. fold n. destruct Ek as [->| ->]; [reflexivity|].
    rewrite <- (Z.mul_1_l n) at 2. rewrite Z.mod_add by lia. reflexivity. }
  rewrite Er.
  destruct ((k' =? 0) || (k' =? n)) eqn:E2.
  - apply orb_true_iff in E2. destruct E2 as [E2|E2]; apply Z.eqb_eq in E2.
    + rewrite E2, rotate_list_0. reflexivity.
    + f_equal. destruct (Z.eq_dec n 0) as [E0|N0]; [unfold rotate_list; fold n; rewrite E0; reflexivity|].
      rewrite (rotate_list_mod l k' 0); [apply eq_sym, rotate_list_0 | exact N0 |].
      fold n. rewrite E2, Z.mod_same, Z.mod_0_l by lia. reflexivity.
  - apply orb_false_iff in E2. destruct E2 as [E2 E3]. apply Z.eqb_neq in E2, E3.
    rewrite gcd_impl_ok by lia. cbn [bind].
    destruct (rotate_core l k' ltac:(fold n; lia)) as (L & C & EL). fold n in C. rewrite C, EL. reflexivity.
Qed.

Theorem rotate_impl_out_of_range (l : list T) k :
  k < - zlen l \/ zlen l < k -> rotate_impl l k = Panic PDocOffset.
Proof.
  intros Hk. pose proof (zlen_nonneg l) as Hn.
  unfold rotate_impl, rot_arg_k, rot_arg_n, rot_bad.
  rewrite (slice_check_bad (zlen l) k Hn Hk). reflexivity.
Qed.

(* "the element at index i ends at index (i + k) mod n" *)
Theorem rotate_impl_moves (l : list T) k : - zlen l <= k <= zlen l ->
  exists l', rotate_impl l k = Ok l' /\ length l' = length l /\
    forall i, 0 <= i < zlen l -> nth_error l' (Z.to_nat ((i + k) mod zlen l)) = nth_error l (Z.to_nat i).
Proof.
  intros Hk. exists (rotate_list l k). split; [apply rotate_impl_spec; exact Hk|].
  split; [apply rotate_list_length|].
  intros i Hi. assert (Hn : 0 < zlen l) by lia.
  rewrite rotate_list_nth by (try apply Z.mod_pos_bound; lia).
  rewrite Zminus_mod_idemp_l. replace (i + k - k) with i by lia. rewrite Z.mod_small by lia. reflexivity.
Qed.

(* on a base array: nothing outside the slice changes *)
Theorem rotate_view (b : list T) v k : valid_view b v -> - vlen v <= k <= vlen v ->
  exists b', rotate b v k = Ok b' /\ window b' v = rotate_list (window b v) k /\
    firstn (Z.to_nat (voff v)) b' = firstn (Z.to_nat (voff v)) b /\
    skipn (Z.to_nat (voff v + vlen v)) b' = skipn (Z.to_nat (voff v + vlen v)) b.
Proof.
  intros V Hk. pose proof (window_length b v V) as WL.
  unfold rotate. rewrite rotate_impl_spec by lia. cbn [bind].
  eexists. split; [reflexivity|]. apply splice_spec; [exact V|].
  unfold zlen. rewrite rotate_list_length. exact WL.
Qed.

End Main.
