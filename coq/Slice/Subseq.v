(* Subsequences (not necessarily contiguous), exact and up to a relation.  Independent of any
   generated file.  Owned by the C12 slice; used by C11. *)
From Coq Require Import List Lia.
Import ListNotations.

Section SubseqDefs.
  Context {A B : Type}.
  Variable R : A -> B -> Prop.

  (* [SubseqR R s l]: deleting some elements of [l] leaves a list that is pointwise R-related
     to [s] (s on the left of R). *)
  Inductive SubseqR : list A -> list B -> Prop :=
  | sr_nil : forall l, SubseqR [] l
  | sr_skip : forall s y l, SubseqR s l -> SubseqR s (y :: l)
  | sr_take : forall x s y l, R x y -> SubseqR s l -> SubseqR (x :: s) (y :: l).
End SubseqDefs.

(* the exact notion: [s] is obtained from [l] by deleting elements *)
Definition Subseq {A : Type} : list A -> list A -> Prop := SubseqR (@eq A).

(* up to a boolean test, test applied as [eqb x y] with [x] from the subsequence *)
Definition SubseqB {A : Type} (eqb : A -> A -> bool) : list A -> list A -> Prop :=
  SubseqR (fun x y => eqb x y = true).

(* [s] is a common subsequence of [l] and [r] up to [eqb] *)
Definition CommonSubseq {A : Type} (eqb : A -> A -> bool) (s l r : list A) : Prop :=
  SubseqB eqb s l /\ SubseqB eqb s r.

Section SubseqFacts.
  Context {A B : Type}.
  Variable R : A -> B -> Prop.

  Lemma SubseqR_length : forall s l, SubseqR R s l -> length s <= length l.
  Proof. induction 1; cbn; lia. Qed.

  Lemma SubseqR_nil_r : forall s, SubseqR R s [] -> s = [].
  Proof. intros s H; inversion H; reflexivity. Qed.

  Lemma SubseqR_app : forall s1 l1 s2 l2,
      SubseqR R s1 l1 -> SubseqR R s2 l2 -> SubseqR R (s1 ++ s2) (l1 ++ l2).
  Proof.
    induction 1; intros H2; cbn.
    - induction l; cbn; [exact H2 | now apply sr_skip].
    - apply sr_skip; auto.
    - apply sr_take; auto.
  Qed.

  Lemma SubseqR_app_r : forall s l l', SubseqR R s l -> SubseqR R s (l ++ l').
  Proof.
    intros s l l' H. rewrite <- (app_nil_r s).
    apply SubseqR_app; [exact H | apply sr_nil].
  Qed.

  Lemma SubseqR_app_l : forall s l l', SubseqR R s l -> SubseqR R s (l' ++ l).
  Proof. intros s l l' H; induction l'; cbn; [exact H | now apply sr_skip]. Qed.

  Lemma SubseqR_snoc : forall s l x y,
      SubseqR R s l -> R x y -> SubseqR R (s ++ [x]) (l ++ [y]).
  Proof.
    intros. apply SubseqR_app; [assumption|]. apply sr_take; [assumption | apply sr_nil].
  Qed.

  Lemma SubseqR_cons_l : forall x s l, SubseqR R (x :: s) l -> SubseqR R s l.
  Proof.
    intros x s l; revert x s; induction l as [|y l IH]; intros x s H; inversion H; subst.
    - apply sr_skip; eauto.
    - apply sr_skip; assumption.
  Qed.

  (* inversion at the right end: the last element of [l] is either unused or matches the last
     element of [s] *)
  Lemma SubseqR_snoc_inv : forall s l y,
      SubseqR R s (l ++ [y]) ->
      SubseqR R s l \/ exists s' x, s = s' ++ [x] /\ R x y /\ SubseqR R s' l.
  Proof.
    intros s l; revert s; induction l as [|z l IH]; intros s y H; cbn in H.
    - inversion H; subst.
      + left; apply sr_nil.
      + left; assumption.
      + right. exists [], x. apply SubseqR_nil_r in H4; subst. repeat split; [assumption | apply sr_nil].
    - inversion H; subst.
      + left; apply sr_nil.
      + destruct (IH _ _ H2) as [H1 | (s' & x & -> & Hx & H1)].
        * left; now apply sr_skip.
        * right; exists s', x; repeat split; [assumption | now apply sr_skip].
      + destruct (IH _ _ H4) as [H1 | (s' & x' & -> & Hx & H1)].
        * left; now apply sr_take.
        * right; exists (x :: s'), x'; repeat split; [assumption | now apply sr_take].
  Qed.
End SubseqFacts.

Lemma Subseq_refl : forall {A} (l : list A), Subseq l l.
Proof. induction l; [apply sr_nil | apply sr_take; auto]. Qed.

Lemma SubseqR_mono : forall {A B} (R R' : A -> B -> Prop) s l,
    (forall x y, R x y -> R' x y) -> SubseqR R s l -> SubseqR R' s l.
Proof. intros A B R R' s l HR; induction 1; [apply sr_nil | now apply sr_skip | apply sr_take; auto]. Qed.

(* composition: exact subsequence of something related *)
Lemma Subseq_SubseqR_trans : forall {A B} (R : A -> B -> Prop) s m l,
    Subseq s m -> SubseqR R m l -> SubseqR R s l.
Proof.
  intros A B R s m l H1 H2; revert s H1; induction H2; intros s0 H1.
  - apply SubseqR_nil_r in H1; subst; apply sr_nil.
  - apply sr_skip; auto.
  - inversion H1; subst.
    + apply sr_nil.
    + apply sr_skip; auto.
    + apply sr_take; auto.
Qed.
