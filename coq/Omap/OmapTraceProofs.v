(* C04, sessions with persistent iterators: every output of the omaptrace register machine on the
   omap model (OmapTrace.v: the Gallina reading of a trace line, iterators kept in registers across
   edits, stale until re-synchronized with Iter.Seek) equals the output of the same machine on the
   association-list reference (OmapTraceSpec.v), for every lawful comparator, every depth-limit
   function and every list of operations, on a Map from New/NewFunc and on the zero Map. *)
From Coq Require Import ZArith List Bool Arith Lia.
Import ListNotations.
From Mds Require Import Gen.OmapConst Stree.StreeModel Stree.StreeSpec Stree.StreeProofsBase Stree.StreeProofsSet
  Stree.StreeProofsHist Stree.CursorModel Stree.CursorSpec Stree.CursorProofs
  Omap.OmapModel Omap.OmapSpec Omap.OmapProofs Omap.OmapTrace Omap.OmapTraceSpec.
Local Open Scope Z_scope.

Section TraceProofs.
Variables K V : Type.
Variable kcmp : K -> K -> Z.
Hypothesis HK : total_preorder kcmp.
Variable limit : Z -> Z -> Z.
Variable zk : K.
Variable zv : V.

Notation kv := (OmapModel.kv K V).
Notation cmpkv := (kvcmp K V kcmp).
Notation rel := (StreeProofsHist.rel kv cmpkv).
Notation omap := (OmapModel.omap K V).
Notation amap := (OmapSpec.amap K V).
Notation mstate := (OmapTrace.mstate K V).
Notation sstate := (OmapTraceSpec.sstate K V).

Definition curl (s : option amap) : amap := match s with Some l => l | None => [] end.

(* a model iterator is at reference index i *)
Definition crel (m : omap) (s : option amap) (c : cursor) (i : option nat) : Prop :=
  match m, s with
  | Some t, Some l => irel K V (root t) c i
  | None, None => c = CNil /\ i = None
  | _, _ => False
  end.

Definition reg_rel (m : omap) (s : option amap) (f : bool) (rc : option cursor) (ri : option (option nat)) : Prop :=
  match rc, ri with
  | None, None => True
  | Some c, Some i => f = true -> crel m s c i
  | _, _ => False
  end.

Inductive regs_rel (m : omap) (s : option amap) : list bool -> list (option cursor) -> list (option (option nat)) -> Prop :=
| RR_nil : regs_rel m s [] [] []
| RR_cons : forall f rc ri fs rcs ris, reg_rel m s f rc ri -> regs_rel m s fs rcs ris ->
            regs_rel m s (f :: fs) (rc :: rcs) (ri :: ris).

Lemma regs_rel_set_fresh : forall m s fs rcs ris, regs_rel m s fs rcs ris -> forall r c i, crel m s c i ->
  regs_rel m s (set_nth r true fs) (set_nth r (Some c) rcs) (set_nth r (Some i) ris).
Proof.
  intros m s fs rcs ris H. induction H as [|f rc ri fs rcs ris H1 H2 IH]; intros r c i Hc.
  - destruct r; constructor.
  - destruct r as [|r]; cbn [set_nth]; constructor; auto. intros _. exact Hc.
Qed.

Lemma regs_rel_set_keep : forall m s fs rcs ris, regs_rel m s fs rcs ris -> forall r c i,
  (nth r fs false = true -> crel m s c i) ->
  regs_rel m s fs (set_nth r (Some c) rcs) (set_nth r (Some i) ris).
Proof.
  intros m s fs rcs ris H. induction H as [|f rc ri fs rcs ris H1 H2 IH]; intros r c i Hc.
  - destruct r; constructor.
  - destruct r as [|r]; cbn [set_nth]; constructor; auto.
Qed.

Lemma regs_rel_nth : forall m s fs rcs ris, regs_rel m s fs rcs ris -> forall r,
  reg_rel m s (nth r fs false) (nth r rcs None) (nth r ris None).
Proof.
  intros m s fs rcs ris H. induction H as [|f rc ri fs rcs ris H1 H2 IH]; intros r.
  - destruct r; exact I.
  - destruct r as [|r]; cbn [nth]; auto.
Qed.

Lemma regs_rel_stale : forall m s m' s' fs rcs ris, regs_rel m s fs rcs ris ->
  regs_rel m' s' (all_stale fs) rcs ris.
Proof.
  intros m s m' s' fs rcs ris H. induction H as [|f rc ri fs rcs ris H1 H2 IH]; cbn [all_stale map]; constructor.
  - destruct rc, ri; cbn in *; auto. discriminate.
  - exact IH.
Qed.

Lemma regs_rel_firstn : forall m s fs rcs ris n, regs_rel m s fs rcs ris ->
  regs_rel m s (firstn n fs) (firstn n rcs) (firstn n ris).
Proof.
  intros m s fs rcs ris n H. revert n. induction H as [|f rc ri fs rcs ris H1 H2 IH]; intros n.
  - destruct n; constructor.
  - destruct n; cbn [firstn]; constructor; auto.
Qed.

(* ------------------------------------------------------------------ one iterator *)

Lemma iobs_crel : forall m s c i, mrel K V kcmp m s -> crel m s c i ->
  iobs K V zk zv m c = Ok (a_obs K V zk zv (curl s) i).
Proof.
  intros [t|] [l|] c i Hm Hc; try contradiction; cbn [crel curl] in *.
  - exact (iobs_ok K V kcmp zk zv t l Hm c i Hc).
  - destruct Hc; subst. reflexivity.
Qed.

Lemma obs1_crel : forall m s c i, mrel K V kcmp m s -> crel m s c i ->
  obs1 K V zk zv m (Some c) true = Ok (Some (a_obs K V zk zv (curl s) i)).
Proof.
  intros m s c i Hm Hc. pose proof (iobs_crel m s c i Hm Hc) as H. unfold iobs in H. unfold obs1.
  destruct (ikey K V zk zv m c); cbn [bind] in *; try discriminate.
  destruct (ivalue K V zk zv m c); cbn [bind] in *; try discriminate.
  inversion H. reflexivity.
Qed.

Lemma obs_all_ok : forall m s fs rcs ris, mrel K V kcmp m s -> regs_rel m s fs rcs ris ->
  obs_all K V zk zv m rcs fs = Ok (sobs_all K V zk zv (curl s) ris fs).
Proof.
  intros m s fs rcs ris Hm H. induction H as [|f rc ri fs rcs ris H1 H2 IH]; [reflexivity|].
  cbn [obs_all sobs_all]. rewrite IH.
  destruct rc as [c|], ri as [i|]; cbn [reg_rel] in H1; try contradiction.
  - destruct f.
    + rewrite (obs1_crel m s c i Hm (H1 eq_refl)). reflexivity.
    + reflexivity.
  - reflexivity.
Qed.

Lemma next_crel : forall m s c i, mrel K V kcmp m s -> crel m s c i ->
  exists c', inext K V m c = Ok c' /\ crel m s c' (a_next K V (curl s) i).
Proof.
  intros [t|] [l|] c i Hm Hc; try contradiction; cbn [crel curl] in *.
  - exact (inext_ok K V kcmp t l Hm c i Hc).
  - destruct Hc; subst. exists CNil. split; [reflexivity|split; reflexivity].
Qed.

Lemma prev_crel : forall m s c i, mrel K V kcmp m s -> crel m s c i ->
  exists c', iprev K V m c = Ok c' /\ crel m s c' (a_prev K V (curl s) i).
Proof.
  intros [t|] [l|] c i Hm Hc; try contradiction; cbn [crel curl] in *.
  - exact (iprev_ok K V kcmp t l Hm c i Hc).
  - destruct Hc; subst. exists CNil. split; [reflexivity|split; reflexivity].
Qed.

Lemma first_crel : forall m s, mrel K V kcmp m s ->
  exists c, mfirst K V m = Ok c /\ crel m s c (a_first K V (curl s)).
Proof.
  intros [t|] [l|] Hm; try contradiction; cbn [crel curl] in *.
  - exact (first_ok K V kcmp t l Hm).
  - exists CNil. split; [reflexivity|split; reflexivity].
Qed.

Lemma last_crel : forall m s, mrel K V kcmp m s ->
  exists c, mlast K V m = Ok c /\ crel m s c (a_last K V (curl s)).
Proof.
  intros [t|] [l|] Hm; try contradiction; cbn [crel curl] in *.
  - exact (last_ok K V kcmp t l Hm).
  - exists CNil. split; [reflexivity|split; reflexivity].
Qed.

Lemma seek_crel : forall m s k, mrel K V kcmp m s ->
  exists c, mseek K V kcmp zv m k = Ok c /\ crel m s c (a_seek K V kcmp k (curl s)).
Proof.
  intros [t|] [l|] k Hm; try contradiction; cbn [crel curl] in *.
  - exact (seek_ok K V kcmp HK zk zv t l Hm k).
  - exists CNil. split; [reflexivity|split; reflexivity].
Qed.

Lemma iseek_crel : forall m s k, mrel K V kcmp m s ->
  exists c, iseek K V kcmp zv m k = Ok c /\ crel m s c (a_seek K V kcmp k (curl s)).
Proof.
  intros [t|] [l|] k Hm; try contradiction; cbn [crel curl] in *.
  - exact (iseek_ok K V kcmp HK zk zv t l Hm k).
  - exists CNil. split; [reflexivity|split; reflexivity].
Qed.

(* ------------------------------------------------------------------ sweeps *)

Lemma skipn_nth : forall (A : Type) j (l : list A) e, nth_error l j = Some e -> skipn j l = e :: skipn (S j) l.
Proof.
  induction j as [|j IH]; intros [|a l] e E; try discriminate.
  - inversion E; subst. reflexivity.
  - cbn [nth_error] in E. cbn [skipn]. apply IH. exact E.
Qed.

Lemma firstn_snoc : forall (A : Type) j (l : list A) e, nth_error l j = Some e -> firstn (S j) l = firstn j l ++ [e].
Proof.
  induction j as [|j IH]; intros [|a l] e E; try discriminate.
  - inversion E; subst. reflexivity.
  - cbn [nth_error] in E. change (firstn (S (S j)) (a :: l)) with (a :: firstn (S j) l).
    rewrite (IH l e E). reflexivity.
Qed.

Section WithTree.
Variable tr : Tree kv.
Variable l : list kv.
Hypothesis R : rel tr l.

(* a valid iterator at index j shows entry l[j] *)
Lemma at_index : forall c j, irel K V (root tr) c (Some j) ->
  exists e, nth_error l j = Some e /\ ivalid c = true /\
            ikey K V zk zv (Some tr) c = Ok (fst e) /\ ivalue K V zk zv (Some tr) c = Ok (snd e).
Proof.
  intros c j Hr. pose proof (iobs_ok K V kcmp zk zv tr l R c _ Hr) as Ho.
  destruct Hr as [Hw Hi]. unfold cix in Hi.
  destruct (abs kv (root tr) c) as [a|] eqn:Ea; cbn [option_map] in Hi; [|discriminate].
  inversion Hi; subst j.
  pose proof (abs_ok kv (root tr) c Hw) as Hok. rewrite Ea in Hok. rewrite (cnt_l K V kcmp tr l R) in Hok.
  destruct Hok as (_ & O2 & O3).
  destruct (nth_error l (ix a)) as [e|] eqn:En; [|apply nth_error_None in En; lia].
  exists e. split; [reflexivity|]. unfold ivalid. rewrite (valid_abs kv (root tr) c), Ea.
  split; [reflexivity|]. unfold iobs in Ho. cbn [a_obs] in Ho. rewrite En in Ho.
  destruct (ikey K V zk zv (Some tr) c); cbn [bind] in Ho; try discriminate.
  destruct (ivalue K V zk zv (Some tr) c); cbn [bind] in Ho; try discriminate.
  inversion Ho; subst. split; reflexivity.
Qed.

Lemma at_none : forall c, irel K V (root tr) c None -> ivalid c = false.
Proof.
  intros c [Hw Hi]. unfold ivalid. rewrite (valid_abs kv (root tr) c). unfold cix in Hi.
  destruct (abs kv (root tr) c); [discriminate|reflexivity].
Qed.

Lemma sweep_next_ok : forall fuel c i acc, irel K V (root tr) c i ->
  (match i with Some j => (length l - j < fuel)%nat | None => (0 < fuel)%nat end) ->
  exists c', sweep K V zk zv (Some tr) true fuel c acc =
             Ok (c', rev acc ++ match i with Some j => skipn j l | None => [] end) /\
             irel K V (root tr) c' None.
Proof.
  induction fuel as [|fuel IH]; intros c i acc Hr Hf.
  - destruct i; lia.
  - cbn [sweep]. destruct i as [j|].
    + destruct (at_index c j Hr) as [e [En [Hv [Hk Hva]]]]. rewrite Hv, Hk, Hva. cbn [bind].
      destruct (inext_ok K V kcmp tr l R c _ Hr) as [c' [H1 H2]]. rewrite H1. cbn [bind].
      assert (Hj : (j < length l)%nat) by (apply nth_error_Some; congruence).
      destruct (IH c' _ ((fst e, snd e) :: acc) H2) as [c'' [E1 E2]].
      { cbn [a_next]. destruct (Nat.ltb_spec (S j) (length l)); lia. }
      exists c''. split; [|exact E2]. rewrite E1. f_equal. f_equal.
      cbn [rev]. rewrite <- app_assoc. cbn [app]. f_equal. rewrite (skipn_nth _ j l e En).
      destruct e as [ek ev]. cbn [fst snd]. f_equal. cbn [a_next].
      destruct (Nat.ltb_spec (S j) (length l)); [reflexivity|]. rewrite skipn_all2 by lia. reflexivity.
    + rewrite (at_none c Hr). exists c. split; [rewrite app_nil_r; reflexivity|exact Hr].
Qed.

Lemma sweep_prev_ok : forall fuel c i acc, irel K V (root tr) c i ->
  (match i with Some j => (S j < fuel)%nat | None => (0 < fuel)%nat end) ->
  exists c', sweep K V zk zv (Some tr) false fuel c acc =
             Ok (c', rev acc ++ match i with Some j => rev (firstn (S j) l) | None => [] end) /\
             irel K V (root tr) c' None.
Proof.
  induction fuel as [|fuel IH]; intros c i acc Hr Hf.
  - destruct i; lia.
  - cbn [sweep]. destruct i as [j|].
    + destruct (at_index c j Hr) as [e [En [Hv [Hk Hva]]]]. rewrite Hv, Hk, Hva. cbn [bind].
      destruct (iprev_ok K V kcmp tr l R c _ Hr) as [c' [H1 H2]]. rewrite H1. cbn [bind].
      destruct (IH c' _ ((fst e, snd e) :: acc) H2) as [c'' [E1 E2]].
      { cbn [a_prev]. destruct j; lia. }
      exists c''. split; [|exact E2]. rewrite E1. f_equal. f_equal.
      cbn [rev]. rewrite <- app_assoc. cbn [app]. f_equal.
      rewrite (firstn_snoc _ j l e En), rev_app_distr. cbn [rev app].
      destruct e as [ek ev]. cbn [fst snd]. f_equal. cbn [a_prev].
      destruct j as [|j']; reflexivity.
    + rewrite (at_none c Hr). exists c. split; [rewrite app_nil_r; reflexivity|exact Hr].
Qed.

Lemma index_lt : forall c j, irel K V (root tr) c (Some j) -> (j < length l)%nat.
Proof. intros c j Hr. destruct (at_index c j Hr) as [e [En _]]. apply nth_error_Some. congruence. Qed.

End WithTree.

Lemma mlen_ok : forall m s, mrel K V kcmp m s -> mlen K V m = Z.of_nat (length (curl s)).
Proof.
  intros [t|] [l|] Hm; try contradiction; cbn [mlen curl].
  - exact (Len_ok kv cmpkv t l Hm).
  - reflexivity.
Qed.

Lemma sweep_crel : forall m s fwd c i, mrel K V kcmp m s -> crel m s c i ->
  exists c', sweep K V zk zv m fwd (Z.to_nat (mlen K V m) + 2) c [] =
             Ok (c', match i with
                     | Some j => if fwd then skipn j (curl s) else rev (firstn (S j) (curl s))
                     | None => []
                     end) /\
             crel m s c' None /\ ivalid c' = false.
Proof.
  intros m s fwd c i Hm Hc. rewrite (mlen_ok m s Hm), Nat2Z.id.
  destruct m as [t|], s as [l|]; try contradiction; cbn [crel curl] in *.
  - destruct fwd.
    + destruct (sweep_next_ok t l Hm (length l + 2) c i [] Hc) as [c' [E1 E2]].
      { destruct i; lia. }
      exists c'. cbn [rev app] in E1. split; [rewrite E1; destruct i; reflexivity|].
      split; [exact E2|exact (at_none t c' E2)].
    + destruct (sweep_prev_ok t l Hm (length l + 2) c i [] Hc) as [c' [E1 E2]].
      { destruct i as [j|]; [pose proof (index_lt t l Hm c j Hc)|]; lia. }
      exists c'. cbn [rev app] in E1. split; [rewrite E1; destruct i; reflexivity|].
      split; [exact E2|exact (at_none t c' E2)].
  - destruct Hc; subst. exists CNil. split; [reflexivity|]. split; [split; reflexivity|reflexivity].
Qed.

(* ------------------------------------------------------------------ the machines *)

Record inv (ms : mstate) (ss : sstate) : Prop := mkInv {
  inv_map : mrel K V kcmp (mm K V ms) (sl K V ss);
  inv_regs : regs_rel (mm K V ms) (sl K V ss) (fresh K V ms) (regs K V ms) (sregs K V ss);
  inv_fresh : fresh K V ms = sfresh K V ss;
  inv_used : used K V ms = sused K V ss }.

Lemma state_ok : forall ms ss, inv ms ss -> state K V zk zv ms = Ok (sitem K V zk zv ss).
Proof.
  intros ms ss [H1 H2 H3 H4]. unfold state, sitem. rewrite <- H3, <- H4.
  rewrite (obs_all_ok _ _ _ _ _ H1 (regs_rel_firstn _ _ _ _ _ (used K V ms) H2)). reflexivity.
Qed.

Lemma place_ok : forall ms ss r touch c i, inv ms ss -> crel (mm K V ms) (sl K V ss) c i ->
  exists ms' ss' it, place K V zk zv ms r touch c = Ok (ms', it) /\
                     splace K V zk zv ss r touch i = (Some ss', it) /\ inv ms' ss'.
Proof.
  intros ms ss r touch c i Hi Hc. unfold place, splace.
  set (ms' := mkM K V (mm K V ms) (set_nth r (Some c) (regs K V ms)) (set_nth r true (fresh K V ms))
                  (if touch then Nat.max (used K V ms) (S r) else used K V ms)).
  set (ss' := mkS K V (sl K V ss) (set_nth r (Some i) (sregs K V ss)) (set_nth r true (sfresh K V ss))
                  (if touch then Nat.max (sused K V ss) (S r) else sused K V ss)).
  assert (Hi' : inv ms' ss').
  { destruct Hi as [H1 H2 H3 H4]. constructor; cbn.
    - exact H1.
    - apply regs_rel_set_fresh; assumption.
    - rewrite H3. reflexivity.
    - rewrite H4. reflexivity. }
  exists ms', ss', (sitem K V zk zv ss'). rewrite (state_ok ms' ss' Hi'). cbn [bind].
  split; [reflexivity|]. split; [reflexivity|exact Hi'].
Qed.

Lemma edit_inv : forall ms ss m' s', inv ms ss -> mrel K V kcmp m' s' ->
  inv (mkM K V m' (regs K V ms) (all_stale (fresh K V ms)) (used K V ms))
      (mkS K V s' (sregs K V ss) (all_stale (sfresh K V ss)) (sused K V ss)).
Proof.
  intros ms ss m' s' [H1 H2 H3 H4] Hm. constructor; cbn.
  - exact Hm.
  - eapply regs_rel_stale. exact H2.
  - rewrite H3. reflexivity.
  - exact H4.
Qed.

Lemma do_op_refines : forall ms ss o, inv ms ss ->
  match sdo_op K V kcmp zk zv ss o with
  | (Some ss', it) => exists ms', do_op K V kcmp limit zk zv ms o = Ok (Some ms', it) /\ inv ms' ss'
  | (None, it) => do_op K V kcmp limit zk zv ms o = Ok (None, it)
  end.
Proof.
  intros ms ss o Hi. pose proof Hi as [Hm Hr Hf Hu].
  destruct o as [k v|k| |k| | | |r|r|r k|r k|r|r|r|r]; cbn [sdo_op do_op].
  - (* Set *)
    destruct (mm K V ms) as [t|] eqn:Em, (sl K V ss) as [l|] eqn:Es; try contradiction; cbn [mrel] in Hm.
    + unfold mset. destruct (Replace_ok kv cmpkv (HP K V kcmp HK) limit t l (k, v) Hm) as [t' [H1 [H2 _]]].
      rewrite H1. cbn [bind]. rewrite a_set_insert.
      destruct (s_insert cmpkv true (k, v) l) as [l' b]. cbn [fst snd] in *.
      eexists. split; [reflexivity|]. apply edit_inv; [exact Hi|exact H2].
    + reflexivity.
  - (* Delete *)
    destruct (mm K V ms) as [t|] eqn:Em, (sl K V ss) as [l|] eqn:Es; try contradiction; cbn [mrel] in Hm.
    + unfold mdelete. destruct (Remove_ok kv cmpkv (HP K V kcmp HK) t l (k, zv) Hm) as [t' [H1 [H2 _]]].
      rewrite H1. cbn [bind]. rewrite (a_delete_remove K V kcmp zv).
      destruct (s_remove cmpkv (k, zv) l) as [l' b]. cbn [fst snd] in *.
      eexists. split; [reflexivity|]. apply edit_inv; [exact Hi|exact H2].
    + cbn [mdelete bind]. eexists. split; [reflexivity|]. apply edit_inv; [exact Hi|exact I].
  - (* Clear *)
    eexists. split; [reflexivity|]. apply edit_inv; [exact Hi|].
    destruct (mm K V ms) as [t|], (sl K V ss) as [l|]; try contradiction; cbn [mclear mrel]; [apply Clear_ok|exact I].
  - (* Get *)
    assert (E : mget_ok K V kcmp zv (mm K V ms) k = a_get K V kcmp zv k (cur K V ss)).
    { unfold cur. destruct (mm K V ms) as [t|], (sl K V ss) as [l|]; try contradiction; cbn [mrel] in Hm.
      - unfold mget_ok. rewrite (Get_ok kv cmpkv (HP K V kcmp HK) t l (k, zv) Hm), (a_get_get K V kcmp zv).
        destruct (s_get cmpkv (k, zv) l); reflexivity.
      - reflexivity. }
    unfold mget. rewrite E. destruct (a_get K V kcmp zv k (cur K V ss)) as [v ok]. cbn [fst].
    eexists. split; [reflexivity|exact Hi].
  - (* Len *)
    rewrite (mlen_ok _ _ Hm). eexists. split; [reflexivity|exact Hi].
  - (* Keys *)
    assert (E : mkeys K V (mm K V ms) = Ok (a_keys K V (cur K V ss))).
    { unfold cur. destruct (mm K V ms) as [t|], (sl K V ss) as [l|]; try contradiction; cbn [mrel] in Hm.
      - exact (keys_ok K V kcmp t l Hm).
      - reflexivity. }
    rewrite E. cbn [bind]. eexists. split; [reflexivity|exact Hi].
  - (* String *)
    assert (E : mto_string K V zk zv (mm K V ms) = Ok (match sl K V ss with Some l => Some l | None => None end)).
    { destruct (mm K V ms) as [t|], (sl K V ss) as [l|]; try contradiction; cbn [mrel] in Hm.
      - exact (to_string_ok K V kcmp zk zv t l Hm).
      - reflexivity. }
    rewrite E. cbn [bind]. unfold cur. eexists. split; [|exact Hi]. destruct (sl K V ss); reflexivity.
  - (* First *)
    destruct (first_crel _ _ Hm) as [c [H1 H2]]. rewrite H1. cbn [bind].
    destruct (place_ok ms ss r true c _ Hi H2) as [ms' [ss' [it [P1 [P2 P3]]]]].
    change (cur K V ss) with (curl (sl K V ss)). rewrite P1, P2. cbn [bind]. eexists. split; [reflexivity|exact P3].
  - (* Last *)
    destruct (last_crel _ _ Hm) as [c [H1 H2]]. rewrite H1. cbn [bind].
    destruct (place_ok ms ss r true c _ Hi H2) as [ms' [ss' [it [P1 [P2 P3]]]]].
    change (cur K V ss) with (curl (sl K V ss)). rewrite P1, P2. cbn [bind]. eexists. split; [reflexivity|exact P3].
  - (* Seek *)
    destruct (seek_crel _ _ k Hm) as [c [H1 H2]]. rewrite H1. cbn [bind].
    destruct (place_ok ms ss r true c _ Hi H2) as [ms' [ss' [it [P1 [P2 P3]]]]].
    change (cur K V ss) with (curl (sl K V ss)). rewrite P1, P2. cbn [bind]. eexists. split; [reflexivity|exact P3].
  - (* Iter.Seek *)
    pose proof (regs_rel_nth _ _ _ _ _ Hr r) as Hn.
    destruct (nth r (regs K V ms) None) as [c0|], (nth r (sregs K V ss) None) as [i0|]; cbn [reg_rel] in Hn; try contradiction.
    + destruct (iseek_crel _ _ k Hm) as [c [H1 H2]]. rewrite H1. cbn [bind].
      destruct (place_ok ms ss r false c _ Hi H2) as [ms' [ss' [it [P1 [P2 P3]]]]].
      change (cur K V ss) with (curl (sl K V ss)). rewrite P1, P2. cbn [bind]. eexists. split; [reflexivity|exact P3].
    + eexists. split; [reflexivity|exact Hi].
  - (* Next *)
    pose proof (regs_rel_nth _ _ _ _ _ Hr r) as Hn.
    replace (nth r (sfresh K V ss) false) with (nth r (fresh K V ms) false) by (rewrite Hf; reflexivity).
    destruct (nth r (regs K V ms) None) as [c0|], (nth r (sregs K V ss) None) as [i0|]; cbn [reg_rel] in Hn; try contradiction.
    + destruct (nth r (fresh K V ms) false) eqn:Efr.
      * destruct (next_crel _ _ c0 i0 Hm (Hn eq_refl)) as [c [H1 H2]]. rewrite H1. cbn [bind].
        set (ms' := mkM K V (mm K V ms) (set_nth r (Some c) (regs K V ms)) (fresh K V ms) (used K V ms)).
        set (ss' := mkS K V (sl K V ss) (set_nth r (Some (a_next K V (cur K V ss) i0)) (sregs K V ss)) (sfresh K V ss) (sused K V ss)).
        assert (Hi' : inv ms' ss').
        { constructor; cbn; try assumption. apply regs_rel_set_keep; [exact Hr|]. intros _. exact H2. }
        rewrite (state_ok ms' ss' Hi'). cbn [bind]. eexists. split; [reflexivity|exact Hi'].
      * eexists. split; [reflexivity|exact Hi].
    + eexists. split; [reflexivity|exact Hi].
  - (* Prev *)
    pose proof (regs_rel_nth _ _ _ _ _ Hr r) as Hn.
    replace (nth r (sfresh K V ss) false) with (nth r (fresh K V ms) false) by (rewrite Hf; reflexivity).
    destruct (nth r (regs K V ms) None) as [c0|], (nth r (sregs K V ss) None) as [i0|]; cbn [reg_rel] in Hn; try contradiction.
    + destruct (nth r (fresh K V ms) false) eqn:Efr.
      * destruct (prev_crel _ _ c0 i0 Hm (Hn eq_refl)) as [c [H1 H2]]. rewrite H1. cbn [bind].
        set (ms' := mkM K V (mm K V ms) (set_nth r (Some c) (regs K V ms)) (fresh K V ms) (used K V ms)).
        set (ss' := mkS K V (sl K V ss) (set_nth r (Some (a_prev K V (cur K V ss) i0)) (sregs K V ss)) (sfresh K V ss) (sused K V ss)).
        assert (Hi' : inv ms' ss').
        { constructor; cbn; try assumption. apply regs_rel_set_keep; [exact Hr|]. intros _. exact H2. }
        rewrite (state_ok ms' ss' Hi'). cbn [bind]. eexists. split; [reflexivity|exact Hi'].
      * eexists. split; [reflexivity|exact Hi].
    + eexists. split; [reflexivity|exact Hi].
  - (* for ; IsValid; Next *)
    pose proof (regs_rel_nth _ _ _ _ _ Hr r) as Hn.
    replace (nth r (sfresh K V ss) false) with (nth r (fresh K V ms) false) by (rewrite Hf; reflexivity).
    destruct (nth r (regs K V ms) None) as [c0|], (nth r (sregs K V ss) None) as [i0|]; cbn [reg_rel] in Hn; try contradiction.
    + destruct (nth r (fresh K V ms) false) eqn:Efr.
      * destruct (sweep_crel _ _ true c0 i0 Hm (Hn eq_refl)) as [c [H1 [H2 H3]]]. rewrite H1. cbn [bind].
        rewrite H3. unfold cur. eexists. split; [reflexivity|].
        constructor; cbn; try assumption. apply regs_rel_set_keep; [exact Hr|]. intros _. exact H2.
      * eexists. split; [reflexivity|exact Hi].
    + eexists. split; [reflexivity|exact Hi].
  - (* for ; IsValid; Prev *)
    pose proof (regs_rel_nth _ _ _ _ _ Hr r) as Hn.
    replace (nth r (sfresh K V ss) false) with (nth r (fresh K V ms) false) by (rewrite Hf; reflexivity).
    destruct (nth r (regs K V ms) None) as [c0|], (nth r (sregs K V ss) None) as [i0|]; cbn [reg_rel] in Hn; try contradiction.
    + destruct (nth r (fresh K V ms) false) eqn:Efr.
      * destruct (sweep_crel _ _ false c0 i0 Hm (Hn eq_refl)) as [c [H1 [H2 H3]]]. rewrite H1. cbn [bind].
        rewrite H3. unfold cur. eexists. split; [reflexivity|].
        constructor; cbn; try assumption. apply regs_rel_set_keep; [exact Hr|]. intros _. exact H2.
      * eexists. split; [reflexivity|exact Hi].
    + eexists. split; [reflexivity|exact Hi].
Qed.

Lemma run_ops_refines : forall ops ms ss, inv ms ss ->
  run_ops K V kcmp limit zk zv ms ops = srun_ops K V kcmp zk zv ss ops.
Proof.
  induction ops as [|o ops IH]; intros ms ss Hi; [reflexivity|].
  cbn [run_ops srun_ops]. pose proof (do_op_refines ms ss o Hi) as H.
  destruct (sdo_op K V kcmp zk zv ss o) as [[ss'|] it].
  - destruct H as [ms' [H1 H2]]. rewrite H1. f_equal. apply IH. exact H2.
  - rewrite H. reflexivity.
Qed.

Theorem trace_refines : forall zero ops,
  run_trace K V kcmp limit zk zv zero ops = spec_trace K V kcmp zk zv zero ops.
Proof.
  intros zero ops. unfold run_trace, spec_trace. destruct zero.
  - apply run_ops_refines. apply mkInv; cbn.
    + exact I.
    + repeat constructor.
    + reflexivity.
    + reflexivity.
  - destruct (new_func_ok K V kcmp) as [t [H1 [H2 _]]]. rewrite H1.
    apply run_ops_refines. apply mkInv; cbn.
    + exact H2.
    + repeat constructor.
    + reflexivity.
    + reflexivity.
Qed.

End TraceProofs.
