(* Proofs for C04: every output of every history of the omap model (OmapModel.v) equals the output
   of the association-list reference (OmapSpec.v).  Corollaries of C01 (StreeProofsHist: the tree
   refines a sorted list under Replace/Remove/Clear, Get, Len, Inorder, InorderAfter) and of C03
   (CursorProofs: cursor positions are indices into the inorder list). *)
From Coq Require Import ZArith List Bool Arith Lia.
Import ListNotations.
From Mds Require Import Gen.OmapConst Gen.StreeConst Gen.CursorIdx Stree.StreeModel Stree.StreeSpec
  Stree.StreeProofsBase Stree.StreeProofsSet Stree.StreeProofsHist
  Stree.CursorModel Stree.CursorSpec Stree.CursorProofs Omap.OmapModel Omap.OmapSpec.
Local Open Scope Z_scope.

Section OmapProofs.
Variables K V : Type.
Variable kcmp : K -> K -> Z.
Hypothesis HK : total_preorder kcmp.
Variable limit : Z -> Z -> Z.
Variable zk : K.
Variable zv : V.

Notation kv := (OmapModel.kv K V).
Notation cmpkv := (kvcmp K V kcmp).
Notation zkv := (OmapModel.zkv K V zk zv).
Notation rel := (StreeProofsHist.rel kv cmpkv).

Lemma HP : total_preorder cmpkv.
Proof.
  destruct HK as [F Tr]. split; unfold kvcmp; intros.
  - apply F.
  - eapply Tr; eassumption.
Qed.

(* ------------------------------------------------------------------ the reference is C01's, on pairs *)

Lemma a_set_insert : forall k v l, a_set K V kcmp k v l = s_insert cmpkv true (k, v) l.
Proof.
  intros k v. induction l as [|e r IH]; [reflexivity|].
  cbn [a_set s_insert]. unfold kvcmp at 1 2. cbn [fst].
  destruct (kcmp k (fst e) <? 0); [reflexivity|].
  destruct (kcmp k (fst e) =? 0); [reflexivity|]. rewrite IH. reflexivity.
Qed.

Lemma a_delete_remove : forall k l, a_delete K V kcmp k l = s_remove cmpkv (k, zv) l.
Proof.
  intros k. induction l as [|e r IH]; [reflexivity|].
  cbn [a_delete s_remove]. unfold kvcmp at 1 2. cbn [fst].
  destruct (kcmp k (fst e) <? 0); [reflexivity|].
  destruct (kcmp k (fst e) =? 0); [reflexivity|]. rewrite IH. reflexivity.
Qed.

Lemma a_get_get : forall k l,
  a_get K V kcmp zv k l = match s_get cmpkv (k, zv) l with Some e => (snd e, true) | None => (zv, false) end.
Proof. reflexivity. Qed.

(* ------------------------------------------------------------------ facts about ascending lists *)

Lemma sorted_nth_lt : forall (l : list kv) i j a b, sorted cmpkv l -> (i < j)%nat ->
  nth_error l i = Some a -> nth_error l j = Some b -> cmpkv a b < 0.
Proof.
  induction l as [|e r IH]; intros i j a b S Hij Ha Hb.
  - destruct i; discriminate.
  - destruct S as [S1 S2]. destruct j as [|j]; [lia|]. cbn [nth_error] in Hb.
    destruct i as [|i].
    + cbn [nth_error] in Ha. inversion Ha; subst. apply S1. eapply nth_error_In; eassumption.
    + cbn [nth_error] in Ha. eapply (IH i j); try eassumption. lia.
Qed.

Lemma sorted_nth_inj : forall (l : list kv) i j a b, sorted cmpkv l ->
  nth_error l i = Some a -> nth_error l j = Some b -> cmpkv a b = 0 -> i = j.
Proof.
  intros l i j a b S Ha Hb E.
  destruct (lt_eq_lt_dec i j) as [[Lt|Eq]|Gt]; [|exact Eq|].
  - pose proof (sorted_nth_lt l i j a b S Lt Ha Hb). lia.
  - pose proof (sorted_nth_lt l j i b a S Gt Hb Ha) as H.
    pose proof (StreeProofsSet.flip kv cmpkv HP a b). lia.
Qed.

(* the entries not less than k are the suffix starting at a_seek *)
Lemma seek_link : forall k (l : list kv) i, sorted cmpkv l ->
  match a_seek_from K V kcmp k l i with
  | Some j => (i <= j)%nat /\ s_after cmpkv (k, zv) l = skipn (j - i) l /\ (j - i < length l)%nat
  | None => s_after cmpkv (k, zv) l = []
  end.
Proof.
  intros k. induction l as [|e r IH]; intros i S; [reflexivity|].
  destruct S as [S1 S2]. cbn [a_seek_from s_after filter].
  change (cmpkv e (k, zv)) with (kcmp (fst e) k).
  destruct (kcmp (fst e) k <? 0) eqn:E; cbn [negb].
  - specialize (IH (Datatypes.S i) S2). fold (s_after cmpkv (k, zv) r).
    destruct (a_seek_from K V kcmp k r (Datatypes.S i)) as [j|]; [|exact IH].
    destruct IH as (H1 & H2 & H3). split; [lia|].
    replace (j - i)%nat with (Datatypes.S (j - Datatypes.S i)) by lia. cbn [skipn length]. split; [exact H2|lia].
  - split; [lia|]. rewrite Nat.sub_diag. cbn [skipn length]. split; [|lia]. f_equal.
    fold (s_after cmpkv (k, zv) r). apply (StreeProofsSet.s_after_all kv cmpkv HP).
    intros y Hy. apply Z.ltb_ge in E.
    pose proof (S1 y Hy) as Hey.
    pose proof (StreeProofsSet.flip kv cmpkv HP e (k, zv)) as FL.
    change (cmpkv e (k, zv)) with (kcmp (fst e) k) in FL.
    assert (cmpkv (k, zv) e <= 0) by lia.
    pose proof (StreeProofsSet.le_lt_trans kv cmpkv HP (k, zv) e y H Hey). lia.
Qed.

(* ------------------------------------------------------------------ iterators are indices *)

Definition cix (t : tree kv) (c : cursor) : option nat := option_map ix (abs kv t c).
Definition irel (t : tree kv) (c : cursor) (i : option nat) : Prop := wf kv t c /\ cix t c = i.

Section WithTree.
Variable tr : Tree kv.
Variable l : list kv.
Hypothesis R : rel tr l.

Let Hin : inorder (root tr) = l := proj1 R.
Let Hs : sorted cmpkv l := proj1 (proj2 R).

Lemma cnt_l : cnt kv (root tr) = length l.
Proof. unfold cnt. rewrite Hin. reflexivity. Qed.

Lemma iobs_ok : forall c i, irel (root tr) c i ->
  iobs K V zk zv (Some tr) c = Ok (a_obs K V zk zv l i).
Proof.
  intros c i [Hw Hi]. unfold iobs, ikey, ivalue, ivalid. cbn [mtree].
  destruct (key_spec kv zkv (root tr) c Hw) as [x [Hk Hx]]. rewrite Hk. cbn [bind].
  rewrite (valid_abs kv (root tr) c). unfold cix in Hi.
  destruct (abs kv (root tr) c) as [a|]; cbn [option_map] in Hi; subst i; cbn [a_obs].
  - rewrite Hin in Hx. rewrite Hx. reflexivity.
  - subst x. reflexivity.
Qed.

Lemma move_index : forall c i (m : move), irel (root tr) c i ->
  exists c', CursorModel.step (root tr) c m = Ok c' /\ wf kv (root tr) c' /\
             move_ok (length l) m (abs kv (root tr) c) (abs kv (root tr) c').
Proof.
  intros c i m [Hw _]. destruct (step_spec kv (root tr) c m Hw) as [c' [H1 [H2 H3]]].
  exists c'. rewrite <- cnt_l. auto.
Qed.

Lemma inext_ok : forall c i, irel (root tr) c i ->
  exists c', inext K V (Some tr) c = Ok c' /\ irel (root tr) c' (a_next K V l i).
Proof.
  intros c i Hr. destruct (move_index c i MNext Hr) as [c' [H1 [H2 [H3 _]]]].
  exists c'. split; [exact H1|]. split; [exact H2|].
  destruct Hr as [_ Hi]. unfold cix in *.
  destruct (abs kv (root tr) c) as [a|]; cbn [option_map] in Hi; subst i; cbn [a_next move_spec] in *.
  - destruct (Datatypes.S (ix a) <? length l)%nat.
    + destruct H3 as [b [Hb1 Hb2]]. rewrite Hb1. cbn [option_map]. rewrite Hb2. reflexivity.
    + rewrite H3. reflexivity.
  - rewrite H3. reflexivity.
Qed.

Lemma iprev_ok : forall c i, irel (root tr) c i ->
  exists c', iprev K V (Some tr) c = Ok c' /\ irel (root tr) c' (a_prev K V l i).
Proof.
  intros c i Hr. destruct (move_index c i MPrev Hr) as [c' [H1 [H2 [H3 _]]]].
  exists c'. split; [exact H1|]. split; [exact H2|].
  destruct Hr as [_ Hi]. unfold cix in *.
  destruct (abs kv (root tr) c) as [a|]; cbn [option_map] in Hi; subst i; cbn [a_prev move_spec] in *.
  - destruct (ix a) as [|j] eqn:Ej.
    + cbn in H3. rewrite H3. reflexivity.
    + cbn in H3. destruct H3 as [b [Hb1 Hb2]]. rewrite Hb1. cbn [option_map]. f_equal. lia.
  - rewrite H3. reflexivity.
Qed.

Lemma root_irel : exists i0, irel (root tr) (tree_root (root tr)) i0 /\
  match l with
  | [] => tree_root (root tr) = CNil
  | _ :: _ => exists b, abs kv (root tr) (tree_root (root tr)) = Some b /\ lo b = 0%nat /\ hi b = length l
  end.
Proof.
  destruct (root_spec kv (root tr)) as [Hw Hm]. rewrite Hin in Hm.
  exists (cix (root tr) (tree_root (root tr))). split; [split; [exact Hw|reflexivity]|exact Hm].
Qed.

Lemma first_ok : exists c, mfirst K V (Some tr) = Ok c /\ irel (root tr) c (a_first K V l).
Proof.
  destruct root_irel as [i0 [Hr Hm]]. unfold mfirst.
  destruct (move_index _ i0 MMin Hr) as [c' [H1 [H2 [H3 H4]]]]. cbn [CursorModel.step] in H1.
  exists c'. split; [exact H1|]. split; [exact H2|]. unfold cix.
  destruct l as [|e r].
  - rewrite Hm in H3. cbn in H3. rewrite H3. reflexivity.
  - destruct Hm as [b [Hb1 [Hb2 Hb3]]]. rewrite Hb1 in H3. cbn [move_spec] in H3.
    destruct H3 as [b' [E1 [E2 [E3 _]]]]. rewrite E1. cbn [option_map a_first]. f_equal. lia.
Qed.

Lemma last_ok : exists c, mlast K V (Some tr) = Ok c /\ irel (root tr) c (a_last K V l).
Proof.
  destruct root_irel as [i0 [Hr Hm]]. unfold mlast.
  destruct (move_index _ i0 MMax Hr) as [c' [H1 [H2 [H3 H4]]]]. cbn [CursorModel.step] in H1.
  exists c'. split; [exact H1|]. split; [exact H2|]. unfold cix.
  destruct l as [|e r].
  - rewrite Hm in H3. cbn in H3. rewrite H3. reflexivity.
  - destruct Hm as [b [Hb1 [Hb2 Hb3]]]. rewrite Hb1 in H3. cbn [move_spec] in H3.
    destruct H3 as [b' [E1 [E2 [E3 _]]]]. rewrite E1. cbn [option_map a_last]. f_equal. cbn [length] in *. lia.
Qed.

Lemma iseek_ok : forall k, exists c, iseek K V kcmp zv (Some tr) k = Ok c /\ irel (root tr) c (a_seek K V kcmp k l).
Proof.
  intros k. unfold iseek, InorderAfter.
  rewrite (StreeProofsSet.inorder_after_ok kv cmpkv HP) by (rewrite Hin; exact Hs).
  rewrite Hin. pose proof (seek_link k l 0 Hs) as SL. unfold a_seek.
  destruct (a_seek_from K V kcmp k l 0) as [j|].
  - destruct SL as (_ & SA & Lt). rewrite Nat.sub_0_r in SA, Lt. rewrite SA.
    destruct (nth_error l j) as [e|] eqn:Ej; [|apply nth_error_None in Ej; lia].
    assert (Hsk : skipn j l = e :: skipn (Datatypes.S j) l).
    { clear -Ej. revert l Ej. induction j as [|j IH]; intros [|a l] Ej; try discriminate.
      - inversion Ej; subst. reflexivity.
      - cbn [nth_error] in Ej. cbn [skipn]. apply IH. exact Ej. }
    rewrite Hsk. cbn [StreeProofsSet.list_until negb bind].
    assert (Hsorted : sorted cmpkv (inorder (root tr))) by (rewrite Hin; exact Hs).
    destruct (tree_cursor_spec kv zkv cmpkv HP e (root tr) Hsorted) as [c [H1 [H2 H3]]].
    exists c. split; [exact H1|]. split; [exact H2|].
    rewrite Hin in H3.
    destruct (s_get cmpkv e l) as [x|] eqn:G.
    + destruct H3 as [Hv Hk]. unfold s_get in G. apply find_some in G. destruct G as [_ Gx].
      apply Z.eqb_eq in Gx.
      destruct (key_spec kv zkv (root tr) c H2) as [x' [Hk' Hx']]. rewrite Hk in Hk'. inversion Hk'; subst x'.
      unfold cix. rewrite (valid_abs kv (root tr) c) in Hv.
      destruct (abs kv (root tr) c) as [a|]; [|discriminate]. cbn [option_map]. f_equal.
      rewrite Hin in Hx'. symmetry. eapply sorted_nth_inj; [exact Hs|exact Ej|exact Hx'|exact Gx].
    + exfalso. unfold s_get in G. pose proof (find_none _ _ G e (nth_error_In _ _ Ej)) as N. cbn in N.
      rewrite (StreeProofsSet.cmp_refl kv cmpkv HP e) in N. discriminate.
  - rewrite SL. cbn [StreeProofsSet.list_until bind]. exists CNil. split; [reflexivity|]. split; [exact I|reflexivity].
Qed.

Lemma seek_ok : forall k, exists c, mseek K V kcmp zv (Some tr) k = Ok c /\ irel (root tr) c (a_seek K V kcmp k l).
Proof.
  intros k. unfold mseek. destruct first_ok as [c0 [H0 _]]. rewrite H0. cbn [bind]. apply iseek_ok.
Qed.

Lemma istart_ok : forall s, exists c, istart_run K V kcmp zv (Some tr) s = Ok c /\ irel (root tr) c (a_start K V kcmp l s).
Proof. intros [| |k]; cbn [istart_run a_start]; [apply first_ok|apply last_ok|apply seek_ok]. Qed.

Lemma imove_ok : forall c i m, irel (root tr) c i ->
  exists c', imove_run K V kcmp zv (Some tr) c m = Ok c' /\ irel (root tr) c' (a_move K V kcmp l i m).
Proof.
  intros c i [| |k] Hr; cbn [imove_run a_move]; [apply inext_ok|apply iprev_ok|apply iseek_ok]; exact Hr.
Qed.

Lemma imoves_ok : forall ms c i, irel (root tr) c i ->
  imoves_run K V kcmp zk zv (Some tr) c ms = Ok (a_moves K V kcmp zk zv l i ms).
Proof.
  induction ms as [|m ms IH]; intros c i Hr; [reflexivity|].
  cbn [imoves_run a_moves]. destruct (imove_ok c i m Hr) as [c' [H1 H2]]. rewrite H1. cbn [bind].
  rewrite (iobs_ok c' _ H2). cbn [bind]. rewrite (IH c' _ H2). reflexivity.
Qed.

Lemma iter_ok : forall s ms, iter_run K V kcmp zk zv (Some tr) s ms = Ok (a_iter K V kcmp zk zv l s ms).
Proof.
  intros s ms. unfold iter_run, a_iter. destruct (istart_ok s) as [c [H1 H2]]. rewrite H1. cbn [bind].
  rewrite (iobs_ok c _ H2). cbn [bind]. rewrite (imoves_ok ms c _ H2). reflexivity.
Qed.

(* String's loop: from index i it prints the entries i.. and stops *)
Lemma iter_loop_ok : forall fuel c i acc, irel (root tr) c i ->
  (match i with Some j => (length l - j < fuel)%nat | None => (0 < fuel)%nat end) ->
  iter_loop K V zk zv (Some tr) fuel c acc =
  Ok (rev acc ++ match i with Some j => skipn j l | None => [] end).
Proof.
  induction fuel as [|fuel IH]; intros c i acc Hr Hf.
  - destruct i; lia.
  - cbn [iter_loop]. pose proof (iobs_ok c i Hr) as Ho. unfold iobs in Ho.
    destruct Hr as [Hw Hi]. unfold ivalid. rewrite (valid_abs kv (root tr) c). unfold cix in Hi.
    destruct (abs kv (root tr) c) as [a|] eqn:Ea; cbn [option_map] in Hi; subst i.
    + pose proof (abs_ok kv (root tr) c Hw) as Hok. rewrite Ea in Hok. rewrite cnt_l in Hok.
      destruct Hok as (_ & O2 & O3).
      destruct (nth_error l (ix a)) as [e|] eqn:En; [|apply nth_error_None in En; lia].
      destruct (ikey K V zk zv (Some tr) c) as [k| | |] eqn:Ek; try discriminate. cbn [bind] in Ho |- *.
      destruct (ivalue K V zk zv (Some tr) c) as [v| | |] eqn:Ev; try discriminate. cbn [bind] in Ho |- *.
      cbn [a_obs] in Ho. rewrite En in Ho. inversion Ho; subst k v.
      assert (Hr : irel (root tr) c (Some (ix a))) by (split; [exact Hw|unfold cix; rewrite Ea; reflexivity]).
      destruct (inext_ok c _ Hr) as [c' [H1 H2]]. rewrite H1. cbn [bind].
      rewrite (IH c' _ _ H2).
      * cbn [a_next rev]. rewrite <- app_assoc. cbn [app]. f_equal.
        assert (Hsk : skipn (ix a) l = e :: skipn (Datatypes.S (ix a)) l).
        { clear -En. revert En. generalize (ix a) as j. intros j. revert l. induction j as [|j IHj]; intros [|x l] En; try discriminate.
          - inversion En; subst. reflexivity.
          - cbn [nth_error] in En. cbn [skipn]. apply IHj. exact En. }
        rewrite Hsk. destruct e as [ek ev]. cbn [fst snd].
        destruct (Nat.ltb_spec (Datatypes.S (ix a)) (length l)); [reflexivity|].
        rewrite skipn_all2 by lia. reflexivity.
      * cbn [a_next]. destruct (Nat.ltb_spec (Datatypes.S (ix a)) (length l)); lia.
    + rewrite app_nil_r. reflexivity.
Qed.

Lemma to_string_ok : mto_string K V zk zv (Some tr) = Ok (Some l).
Proof.
  unfold mto_string. destruct first_ok as [c [H1 H2]]. rewrite H1. cbn [bind].
  rewrite (iter_loop_ok _ c _ [] H2).
  - cbn [bind rev app]. f_equal. f_equal. destruct l; reflexivity.
  - rewrite <- (StreeProofsBase.count_inorder kv (root tr)), Hin. destruct l; cbn [a_first length]; lia.
Qed.

Lemma keys_ok : mkeys K V (Some tr) = Ok (a_keys K V l).
Proof.
  unfold mkeys. rewrite (Len_ok kv cmpkv tr l R). unfold omap_keys_nil. cbn [orb].
  unfold Inorder. rewrite (inorder_until_all kv), Hin. cbn [fst]. rewrite app_nil_r, rev_involutive.
  destruct l as [|e r]; [reflexivity|].
  replace (Z.of_nat (length (e :: r)) =? 0) with false by (symmetry; apply Z.eqb_neq; cbn [length]; lia).
  reflexivity.
Qed.

End WithTree.

(* ------------------------------------------------------------------ one operation *)

Definition mrel (m : omap K V) (s : option (amap K V)) : Prop :=
  match m, s with
  | Some t, Some l => rel t l
  | None, None => True
  | _, _ => False
  end.

Lemma zero_moves : forall ms,
  imoves_run K V kcmp zk zv None CNil ms = Ok (a_moves K V kcmp zk zv [] None ms).
Proof.
  induction ms as [|m ms IH]; [reflexivity|].
  cbn [imoves_run a_moves]. destruct m as [| |k]; cbn [imove_run a_move a_next a_prev]; cbn; rewrite IH; reflexivity.
Qed.

Lemma step_refines : forall m s o, mrel m s ->
  snd (OmapModel.step K V kcmp limit zk zv m o) = snd (spec_step K V kcmp zk zv s o) /\
  mrel (fst (OmapModel.step K V kcmp limit zk zv m o)) (fst (spec_step K V kcmp zk zv s o)).
Proof.
  intros m s o Hm. destruct m as [t|], s as [l|]; try contradiction.
  - cbn [mrel] in Hm. cbn [spec_step].
    destruct o as [k v|k| |k| | | |st ms]; cbn [OmapModel.step spec_step_list].
    + unfold mset. destruct (Replace_ok kv cmpkv HP limit t l (k, v) Hm) as [t' [H1 [H2 _]]].
      rewrite H1. cbn [bind]. rewrite a_set_insert.
      destruct (s_insert cmpkv true (k, v) l) as [l' b]. cbn [fst snd] in *. split; [reflexivity|exact H2].
    + unfold mdelete. destruct (Remove_ok kv cmpkv HP t l (k, zv) Hm) as [t' [H1 [H2 _]]].
      rewrite H1. cbn [bind]. rewrite a_delete_remove.
      destruct (s_remove cmpkv (k, zv) l) as [l' b]. cbn [fst snd] in *. split; [reflexivity|exact H2].
    + cbn [mclear fst snd]. split; [reflexivity|apply Clear_ok].
    + unfold mget_ok. rewrite (Get_ok kv cmpkv HP t l (k, zv) Hm), a_get_get.
      destruct (s_get cmpkv (k, zv) l); cbn [fst snd]; split; try reflexivity; exact Hm.
    + cbn [mlen fst snd]. rewrite (Len_ok kv cmpkv t l Hm). split; [reflexivity|exact Hm].
    + rewrite (keys_ok t l Hm). cbn [fst snd]. split; [reflexivity|exact Hm].
    + rewrite (to_string_ok t l Hm). cbn [fst snd]. split; [reflexivity|exact Hm].
    + rewrite (iter_ok t l Hm). cbn [fst snd]. split; [reflexivity|exact Hm].
  - destruct o as [k v|k| |k| | | |st ms]; cbn; try (split; [reflexivity|exact I]).
    unfold iter_run, a_iter.
    assert (Hst : istart_run K V kcmp zv None st = Ok CNil) by (destruct st; reflexivity).
    assert (Ha : a_start K V kcmp [] st = None) by (destruct st; reflexivity).
    rewrite Hst, Ha. cbn [bind]. cbn [iobs ikey ivalue ivalid mtree]. cbn. rewrite zero_moves. cbn.
    split; [reflexivity|exact I].
Qed.

Theorem run_refines : forall ops m s, mrel m s ->
  OmapModel.run_from K V kcmp limit zk zv m ops = spec_run_from K V kcmp zk zv s ops.
Proof.
  induction ops as [|o ops IH]; intros m s Hm; [reflexivity|].
  cbn [OmapModel.run_from spec_run_from].
  destruct (step_refines m s o Hm) as [H1 H2].
  destruct (OmapModel.step K V kcmp limit zk zv m o) as [m' x].
  destruct (spec_step K V kcmp zk zv s o) as [s' y]. cbn [fst snd] in *.
  subst y. f_equal. apply IH. exact H2.
Qed.

Lemma new_func_ok : exists t, new_func K V kcmp = Ok (Some t) /\ rel t [] /\ beta t = omap_beta.
Proof.
  eexists. split; [reflexivity|]. split; [|reflexivity].
  split; [reflexivity|]. split; [exact I|reflexivity].
Qed.

(* every history, on a Map from New/NewFunc and on the zero Map *)
Theorem omap_history : forall ops,
  (exists m0, new_func K V kcmp = Ok m0 /\
              OmapModel.run_from K V kcmp limit zk zv m0 ops = spec_run_from K V kcmp zk zv (Some []) ops) /\
  OmapModel.run_from K V kcmp limit zk zv (zero_map K V) ops = spec_run_from K V kcmp zk zv None ops.
Proof.
  intros ops. split.
  - destruct new_func_ok as [t [H1 [H2 _]]]. exists (Some t). split; [exact H1|].
    apply run_refines. exact H2.
  - apply run_refines. exact I.
Qed.

End OmapProofs.

(* The call skeleton OmapModel.v was written from, regenerated from omap.go on every run: Set
   delegates to Replace (not Add), Delete to Remove, GetOK to Get, Get to GetOK, Clear to Clear,
   First/Last to Root().Min()/Max(), Iter.Seek to InorderAfter and Cursor, Next/Prev/IsValid to the
   cursor's.  A change of these calls stops this lemma (the correspondence then has to show
   whether the behaviour changed). *)
Lemma omap_skeleton :
  omap_set_ncalls_replace = 1 /\ omap_set_ncalls_add = 0 /\ omap_delete_ncalls_remove = 1 /\
  omap_getok_ncalls_get = 1 /\ omap_get_ncalls_getok = 1 /\ omap_clear_ncalls_clear = 1 /\
  omap_first_ncalls_min = 1 /\ omap_last_ncalls_max = 1 /\ omap_iseek_ncalls_after = 1 /\
  omap_iseek_ncalls_cursor = 1 /\ omap_inext_ncalls_next = 1 /\ omap_iprev_ncalls_prev = 1 /\
  omap_ivalid_ncalls_valid = 1.
Proof. repeat split; reflexivity. Qed.
