(* The reference for C04: an ordered map is an association list ascending by key (one entry per
   comparator-equivalence class of keys); an iterator is an index into it, or None when it is not
   on an entry.  Nothing here mentions trees or cursors.  The op/out vocabulary is OmapModel's, so
   that histories can be compared output for output.

   State [Some l]: a Map made by New/NewFunc holding the entries l.  State [None]: the zero Map —
   it answers every read exactly like the empty map, Delete and Clear do nothing, and Set panics
   (as documented: "calling Set on a zero Map will panic"). *)
From Coq Require Import ZArith List Bool Arith.
Import ListNotations.
From Mds Require Import Stree.StreeModel Omap.OmapModel.
Local Open Scope Z_scope.

Section Spec.
Variables K V : Type.
Variable kcmp : K -> K -> Z.
Variable zk : K.
Variable zv : V.

Definition amap : Type := list (kv K V).          (* kv K V = K * V *)

(* Set: (new map, "the key was new"); an existing entry is replaced, key and value *)
Fixpoint a_set (k : K) (v : V) (l : amap) : amap * bool :=
  match l with
  | [] => ([(k, v)], true)
  | e :: r =>
    if kcmp k (fst e) <? 0 then ((k, v) :: l, true)
    else if kcmp k (fst e) =? 0 then ((k, v) :: r, false)
    else let '(r', b) := a_set k v r in (e :: r', b)
  end.

(* Delete: (new map, "the key was present") *)
Fixpoint a_delete (k : K) (l : amap) : amap * bool :=
  match l with
  | [] => ([], false)
  | e :: r =>
    if kcmp k (fst e) <? 0 then (l, false)
    else if kcmp k (fst e) =? 0 then (r, true)
    else let '(r', b) := a_delete k r in (e :: r', b)
  end.

Definition a_get (k : K) (l : amap) : V * bool :=
  match find (fun e => kcmp k (fst e) =? 0) l with
  | Some e => (snd e, true)
  | None => (zv, false)
  end.

(* Keys: the nil slice for an empty map *)
Definition a_keys (l : amap) : option (list K) :=
  match l with [] => None | _ => Some (map fst l) end.

(* iterators: an index *)
Definition a_first (l : amap) : option nat := match l with [] => None | _ => Some 0%nat end.
Definition a_last (l : amap) : option nat := match l with [] => None | _ => Some (pred (length l)) end.

(* the first entry whose key is not less than k *)
Fixpoint a_seek_from (k : K) (l : amap) (i : nat) : option nat :=
  match l with
  | [] => None
  | e :: r => if kcmp (fst e) k <? 0 then a_seek_from k r (S i) else Some i
  end.
Definition a_seek (k : K) (l : amap) : option nat := a_seek_from k l 0.

Definition a_next (l : amap) (i : option nat) : option nat :=
  match i with
  | Some j => if (S j <? length l)%nat then Some (S j) else None
  | None => None
  end.

Definition a_prev (l : amap) (i : option nat) : option nat :=
  match i with
  | Some j => match j with O => None | S j' => Some j' end
  | None => None
  end.

(* IsValid, Key, Value *)
Definition a_obs (l : amap) (i : option nat) : bool * K * V :=
  match i with
  | Some j => match nth_error l j with Some e => (true, fst e, snd e) | None => (false, zk, zv) end
  | None => (false, zk, zv)
  end.

Definition a_start (l : amap) (s : istart K) : option nat :=
  match s with IFirst => a_first l | ILast => a_last l | ISeek k => a_seek k l end.

Definition a_move (l : amap) (i : option nat) (m : imove K) : option nat :=
  match m with INext => a_next l i | IPrev => a_prev l i | IReseek k => a_seek k l end.

Fixpoint a_moves (l : amap) (i : option nat) (ms : list (imove K)) : list (bool * K * V) :=
  match ms with
  | [] => []
  | m :: ms' => let i' := a_move l i m in a_obs l i' :: a_moves l i' ms'
  end.

Definition a_iter (l : amap) (s : istart K) (ms : list (imove K)) : list (bool * K * V) :=
  let i := a_start l s in a_obs l i :: a_moves l i ms.

(* one operation on a Map made by New/NewFunc *)
Definition spec_step_list (l : amap) (o : op K V) : amap * out K V :=
  match o with
  | OSet k v => let '(l', b) := a_set k v l in (l', RBool b)
  | ODelete k => let '(l', b) := a_delete k l in (l', RBool b)
  | OClear => ([], RUnit)
  | OGetOK k => let '(v, ok) := a_get k l in (l, RGet v ok)
  | OLen => (l, RInt (Z.of_nat (length l)))
  | OKeys => (l, RKeys (a_keys l))
  | OString => (l, RString (Some l))
  | OIter s ms => (l, RIter (a_iter l s ms))
  end.

Definition spec_step (s : option amap) (o : op K V) : option amap * out K V :=
  match s with
  | Some l => let '(l', x) := spec_step_list l o in (Some l', x)
  | None =>
    match o with
    | OSet _ _ => (None, RFail Panic)
    | OString => (None, RString None)                  (* prints the same "omap[]" *)
    | _ => (None, snd (spec_step_list [] o))
    end
  end.

Fixpoint spec_run_from (s : option amap) (ops : list (op K V)) : list (out K V) :=
  match ops with
  | [] => []
  | o :: r => let '(s', x) := spec_step s o in x :: spec_run_from s' r
  end.

End Spec.
