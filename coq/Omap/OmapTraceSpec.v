(* The reference for the omaptrace register machine (OmapTrace.v): the same ops and items, but on
   the association-list reference of OmapSpec.v.  The map is a key-sorted association list (None:
   the zero Map), an iterator register holds an index into it (Some None: not on an entry), and
   iterators PERSIST across operations: a register positioned before an edit is stale until
   Iter.Seek re-synchronizes it (the discipline the package documents).  Nothing here mentions
   trees or cursors.  The sweeps are stated in closed form: from index j, "for ; IsValid; Next"
   visits l[j..] and "for ; IsValid; Prev" visits l[j], ..., l[0], and the iterator ends invalid. *)
From Coq Require Import ZArith List Bool Arith.
Import ListNotations.
From Mds Require Import Stree.StreeModel Omap.OmapModel Omap.OmapSpec Omap.OmapTrace.
Local Open Scope Z_scope.

Section TraceSpec.
Variables K V : Type.
Variable kcmp : K -> K -> Z.
Variable zk : K.
Variable zv : V.

Notation top := (OmapTrace.top K V).
Notation titem := (OmapTrace.titem K V).
Notation amap := (OmapSpec.amap K V).

Record sstate : Type := mkS { sl : option amap; sregs : list (option (option nat)); sfresh : list bool; sused : nat }.

Definition cur (s : sstate) : amap := match sl s with Some l => l | None => [] end.

Definition sobs1 (l : amap) (c : option (option nat)) (f : bool) : option (bool * K * V) :=
  match c, f with
  | Some i, true => Some (a_obs K V zk zv l i)
  | _, _ => None
  end.

Fixpoint sobs_all (l : amap) (cs : list (option (option nat))) (fs : list bool) : list (option (bool * K * V)) :=
  match cs, fs with
  | c :: cr, f :: fr => sobs1 l c f :: sobs_all l cr fr
  | _, _ => []
  end.

Definition sitem (s : sstate) : titem :=
  XRegs (sobs_all (cur s) (firstn (sused s) (sregs s)) (firstn (sused s) (sfresh s))).

Definition splace (s : sstate) (r : nat) (touch : bool) (i : option nat) : option sstate * titem :=
  let s' := mkS (sl s) (set_nth r (Some i) (sregs s)) (set_nth r true (sfresh s))
                (if touch then Nat.max (sused s) (S r) else sused s) in
  (Some s', sitem s').

Definition sdo_op (s : sstate) (o : top) : option sstate * titem :=
  let l := cur s in
  match o with
  | TSet k v =>
    match sl s with
    | None => (None, XPanic)                               (* "calling Set on a zero Map will panic" *)
    | Some l0 => let '(l', b) := a_set K V kcmp k v l0 in
                 (Some (mkS (Some l') (sregs s) (all_stale (sfresh s)) (sused s)), XBool b)
    end
  | TDelete k =>
    match sl s with
    | None => (Some (mkS None (sregs s) (all_stale (sfresh s)) (sused s)), XBool false)
    | Some l0 => let '(l', b) := a_delete K V kcmp k l0 in
                 (Some (mkS (Some l') (sregs s) (all_stale (sfresh s)) (sused s)), XBool b)
    end
  | TClear =>
    (Some (mkS (match sl s with Some _ => Some [] | None => None end) (sregs s) (all_stale (sfresh s)) (sused s)), XUnit)
  | TGet k => let '(v, ok) := a_get K V kcmp zv k l in (Some s, XGet v v ok)
  | TLen => (Some s, XLen (Z.of_nat (length l)))
  | TKeys => (Some s, XKeys (a_keys K V l))
  | TString => (Some s, XString l)
  | TFirst r => splace s r true (a_first K V l)
  | TLast r => splace s r true (a_last K V l)
  | TSeek r k => splace s r true (a_seek K V kcmp k l)
  | TReseek r k =>
    match nth r (sregs s) None with
    | None => (Some s, XStale)
    | Some _ => splace s r false (a_seek K V kcmp k l)
    end
  | TNext r | TPrev r =>
    match nth r (sregs s) None, nth r (sfresh s) false with
    | Some i, true =>
      let i' := match o with TNext _ => a_next K V l i | _ => a_prev K V l i end in
      let s' := mkS (sl s) (set_nth r (Some i') (sregs s)) (sfresh s) (sused s) in
      (Some s', sitem s')
    | _, _ => (Some s, XStale)
    end
  | TSweepNext r =>
    match nth r (sregs s) None, nth r (sfresh s) false with
    | Some i, true =>
      (Some (mkS (sl s) (set_nth r (Some None) (sregs s)) (sfresh s) (sused s)),
       XSweep (match i with Some j => skipn j l | None => [] end) false)
    | _, _ => (Some s, XStale)
    end
  | TSweepPrev r =>
    match nth r (sregs s) None, nth r (sfresh s) false with
    | Some i, true =>
      (Some (mkS (sl s) (set_nth r (Some None) (sregs s)) (sfresh s) (sused s)),
       XSweep (match i with Some j => rev (firstn (S j) l) | None => [] end) false)
    | _, _ => (Some s, XStale)
    end
  end.

Fixpoint srun_ops (s : sstate) (ops : list top) : list titem :=
  match ops with
  | [] => []
  | o :: rest =>
    match sdo_op s o with
    | (Some s', it) => it :: srun_ops s' rest
    | (None, it) => [it]
    end
  end.

Definition spec_trace (zero : bool) (ops : list top) : list titem :=
  srun_ops (mkS (if zero then None else Some []) [None; None; None; None] no_fresh O) ops.

End TraceSpec.
